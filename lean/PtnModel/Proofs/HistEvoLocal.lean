import PtnModel.Proofs.HistEvoKrylov
import PtnModel.Proofs.HistLocalH
import PtnModel.Proofs.EvoLocal
/-!
# C02: the site-local steps of TDVP / DMRG stay in the charge sector of their input

* `secZ3`, `secZ2`            : the positions of a flat vector forbidden by the charges of a site tensor / bond matrix;
* `localHFun_sector`          : the flat one-site map preserves the sector (from `localH_sparse`) when the environment
                                blocks are block sparse and square and `W` is a block-sparse MPO tensor;
* `localBond_sparse`, `localBondFun_sector` : the same for the zero-site map;
* `localStep_sparse`, `bondStep_sparse`, `minimize_sparse` : `_local_hamiltonian_step`, `_local_bond_step`,
  `_minimize_local_energy` return block-sparse tensors — for every norm / eigen-solver / exponential oracle.
-/
set_option linter.unusedSectionVars false
namespace Ptn.HistWf
open Ptn Ptn.Krylov Ptn.Evo Ptn.Ortho Ptn.BondOps Ptn.Dense Finset

variable {𝕜 : Type} [RCLike 𝕜] [DecidableEq 𝕜]

/-! ## sectors of flat vectors -/

/-- flat positions of a `d0 × d1 × d2` tensor whose charges violate `qd[s] + qa[a] - qb[b] = 0` -/
def secZ3 (d0 d1 d2 : Nat) (qd qa qb : List Int) (k : Nat) : Prop :=
  k < d0 * d1 * d2 ∧ qd.getD (k / (d1 * d2)) 0 + qa.getD (k / d2 % d1) 0 - qb.getD (k % d2) 0 ≠ 0

/-- flat positions of an `m × n` matrix whose charges violate `qa[i] = qb[j]` -/
def secZ2 (m n : Nat) (qa qb : List Int) (k : Nat) : Prop := k < m * n ∧ qa.getD (k / n) 0 ≠ qb.getD (k % n) 0

omit [DecidableEq 𝕜] in
theorem sparse_of_inSector3 {d0 d1 d2 : Nat} {qd qa qb : List Int} {x : List 𝕜}
    (h : InSector (secZ3 d0 d1 d2 qd qa qb) x) : SparseT3 (unflat3 x d0 d1 d2) qd qa qb := by
  intro s a b hs ha hb hne
  have hs' : s < d0 := hs
  have ha' : a < d1 := ha
  have hb' : b < d2 := hb
  rw [unflat3_f] at hne
  by_contra hq
  apply hne
  apply h
  refine ⟨idx3_lt hs' ha' hb', ?_⟩
  rw [idx3_div0 ha' hb', idx3_div1 ha' hb', idx3_mod hb']
  exact hq

omit [DecidableEq 𝕜] in
theorem inSector3_of_sparse {d0 d1 d2 : Nat} {qd qa qb : List Int} {T : T3 𝕜} (h : SparseT3 T qd qa qb)
    (t0 : T.d0 = d0) (t1 : T.d1 = d1) (t2 : T.d2 = d2) : InSector (secZ3 d0 d1 d2 qd qa qb) (flat3 T) := by
  intro k hk
  obtain ⟨hlt, hq⟩ := hk
  unfold flat3
  rw [vget_map_range, t0, t1, t2, if_pos hlt]
  by_contra hne
  apply hq
  have hi2 : k < d0 * (d1 * d2) := by rw [← Nat.mul_assoc]; exact hlt
  exact h _ _ _ (by rw [t0]; exact Ortho.div_lt_of_lt_mul hi2)
    (by rw [t1]; exact Ortho.mod_lt_of_lt_mul (Ortho.div_lt_of_lt_mul hlt))
    (by rw [t2]; exact Ortho.mod_lt_of_lt_mul hlt) hne

omit [DecidableEq 𝕜] in
theorem sparse_of_inSector2 {m n : Nat} {qa qb : List Int} {x : List 𝕜}
    (h : InSector (secZ2 m n qa qb) x) : Sparse (unflat2 x m n) qa qb := by
  intro i j hi hj hne
  have hi' : i < m := hi
  have hj' : j < n := hj
  rw [unflat2_f] at hne
  by_contra hq
  apply hne
  apply h
  refine ⟨Ortho.fused_lt hi' hj', ?_⟩
  rw [Ortho.fused_div hj', Ortho.fused_mod hj']
  exact hq

omit [DecidableEq 𝕜] in
theorem inSector2_of_sparse {m n : Nat} {qa qb : List Int} {T : Mat 𝕜} (h : Sparse T qa qb)
    (t0 : T.m = m) (t1 : T.n = n) : InSector (secZ2 m n qa qb) (flat2 T) := by
  intro k hk
  obtain ⟨hlt, hq⟩ := hk
  unfold flat2
  rw [vget_map_range, t0, t1, if_pos hlt]
  by_contra hne
  apply hq
  exact h _ _ (by rw [t0]; exact Ortho.div_lt_of_lt_mul hlt) (by rw [t1]; exact Ortho.mod_lt_of_lt_mul hlt) hne

omit [DecidableEq 𝕜] in
theorem sparseT3_tab {A : T3 𝕜} {qd qa qb : List Int} (h : SparseT3 A qd qa qb) : SparseT3 A.tab qd qa qb :=
  fun s a b hs ha hb hne => h s a b hs ha hb (by rw [← Env.t3_tab_f A hs ha hb]; exact hne)

omit [DecidableEq 𝕜] in
theorem sparse_tab {A : Mat 𝕜} {qa qb : List Int} (h : Sparse A qa qb) : Sparse A.tab qa qb :=
  fun i j hi hj hne => h i j hi hj (by rw [← Env.mat_tab_f A hi hj]; exact hne)

/-! ## the one-site map -/

/-- the flat one-site map preserves the charge sector -/
theorem localHFun_sector {L R : T3 𝕜} {W : T4 𝕜} {d0 d1 d2 : Nat} {qd qa qb qw qw' : List Int}
    (hL : BlockSparse L qa qw) (hR : BlockSparse R qb qw') (hW : SparseT4 W qd qw qw')
    (sW : W.d0 = W.d1) (sL : L.d2 = L.d0) (sR : R.d2 = R.d0) (x : List 𝕜)
    (hx : InSector (secZ3 d0 d1 d2 qd qa qb) x) :
    InSector (secZ3 d0 d1 d2 qd qa qb) (localHFun L R W d0 d1 d2 x) := by
  unfold localHFun
  cases hT : Op.applyLocalHamiltonian L R W (unflat3 x d0 d1 d2) with
  | error e => exact inSector_nil _
  | ok T =>
    dsimp only
    have hsp := localH_sparse hT hL hR hW (sparse_of_inSector3 hx)
    by_cases hc : (unflat3 x d0 d1 d2).d2 ≠ R.d0 ∨ W.d1 ≠ (unflat3 x d0 d1 d2).d0 ∨ W.d3 ≠ R.d1 ∨
        (unflat3 x d0 d1 d2).d1 ≠ L.d0 ∨ W.d2 ≠ L.d1
    · unfold Op.applyLocalHamiltonian at hT
      rw [if_pos hc] at hT
      simp [throw, throwThe, MonadExceptOf.throw, bind, Except.bind] at hT
    · simp only [not_or, not_not] at hc
      obtain ⟨c1, c2, c3, c4, c5⟩ := hc
      obtain ⟨T', hT', s0, s1, s2, _⟩ := Env.applyLocalHamiltonian_ok L R W _ c1 c2 c3 c4 c5
      rw [hT] at hT'
      injection hT' with hT'
      subst hT'
      exact inSector3_of_sparse hsp (by rw [s0, sW, c2]; rfl) (by rw [s1, sL, ← c4]; rfl) (by rw [s2, sR, ← c1]; rfl)

/-- **`_local_hamiltonian_step` stays in the sector**: for block-sparse square environment blocks and a block-sparse
MPO tensor, the evolved tensor is block sparse w.r.t. the charges of the input tensor — every oracle, no contract. -/
theorem localStep_sparse {k : EvoKernels 𝕜 ℝ} {L R : T3 𝕜} {W : T4 𝕜} {A A1 : T3 𝕜} {dt : 𝕜} {numiter : Nat}
    {qd qa qb qw qw' : List Int} (h : localHamiltonianStep k L R W A dt numiter = .ok A1)
    (hL : BlockSparse L qa qw) (hR : BlockSparse R qb qw') (hW : SparseT4 W qd qw qw')
    (sW : W.d0 = W.d1) (sL : L.d2 = L.d0) (sR : R.d2 = R.d0) (hA : SparseT3 A qd qa qb) :
    SparseT3 A1 qd qa qb ∧ A1.d0 = A.d0 ∧ A1.d1 = A.d1 ∧ A1.d2 = A.d2 := by
  obtain ⟨y, hy, rfl⟩ := localStep_unfold h
  refine ⟨sparseT3_tab (sparse_of_inSector3 ?_), rfl, rfl, rfl⟩
  exact expmKrylov_inSector (localHFun_sector hL hR hW sW sL sR) (inSector3_of_sparse hA rfl rfl rfl) hy

/-- **`_minimize_local_energy` stays in the sector** -/
theorem minimize_sparse {k : EvoKernels 𝕜 ℝ} {L R : T3 𝕜} {W : T4 𝕜} {A Aopt : T3 𝕜} {en : ℝ} {numiter : Nat}
    {qd qa qb qw qw' : List Int} (h : minimizeLocalEnergy k L R W A numiter = .ok (en, Aopt))
    (hL : BlockSparse L qa qw) (hR : BlockSparse R qb qw') (hW : SparseT4 W qd qw qw')
    (sW : W.d0 = W.d1) (sL : L.d2 = L.d0) (sR : R.d2 = R.d0) (hA : SparseT3 A qd qa qb) :
    SparseT3 Aopt qd qa qb ∧ Aopt.d0 = A.d0 ∧ Aopt.d1 = A.d1 ∧ Aopt.d2 = A.d2 := by
  obtain ⟨ws, u, hk, _, _, rfl⟩ := minimize_unfold h
  refine ⟨sparseT3_tab (sparse_of_inSector3 ?_), rfl, rfl, rfl⟩
  have hc := eighKrylov_cols (localHFun_sector hL hR hW sW sL sR) (inSector3_of_sparse hA rfl rfl rfl) hk
  exact inSector_map_range fun i hi _ => hc i 0 hi

/-! ## the zero-site map -/

/-- **`localBond_sparse`**: `apply_local_bond_contraction(L, R, C)` maps a bond matrix with charges `(qa, qb)` (non-zero
entries only between equal charges) to a matrix with the same pattern when `L`, `R` are block sparse w.r.t. `qa`
resp. `qb` and the same MPO bond charges -/
theorem localBond_sparse {L R : T3 𝕜} {C T : Mat 𝕜} {qa qb qw : List Int}
    (h : Op.applyLocalBondContraction L R C = .ok T)
    (hL : BlockSparse L qa qw) (hR : BlockSparse R qb qw) (hC : Sparse C qa qb) : Sparse T qa qb := by
  by_cases hc : C.n ≠ R.d0 ∨ L.d0 ≠ C.m ∨ L.d1 ≠ R.d1
  · unfold Op.applyLocalBondContraction at h
    rw [if_pos hc] at h
    simp [throw, throwThe, MonadExceptOf.throw, bind, Except.bind] at h
  · simp only [not_or, not_not] at hc
    obtain ⟨c1, c2, c3⟩ := hc
    obtain ⟨T', hT', s0, s1, hf⟩ := Env.applyLocalBondContraction_ok L R C c1 c2 c3
    rw [h] at hT'
    injection hT' with hT'
    subst hT'
    intro a' b' ha' hb' hne
    rw [s0] at ha'; rw [s1] at hb'
    rw [hf a' b' ha' hb'] at hne
    obtain ⟨a, ha, hne⟩ := Finset.exists_ne_zero_of_sum_ne_zero hne
    obtain ⟨w, hw, hne⟩ := Finset.exists_ne_zero_of_sum_ne_zero hne
    have ha := Finset.mem_range.1 ha
    have hw := Finset.mem_range.1 hw
    have hLne : L.f a w a' ≠ 0 := fun h0 => hne (by rw [h0, zero_mul])
    have hS : (∑ b ∈ range C.n, C.f a b * R.f b w b') ≠ 0 := fun h0 => hne (by rw [h0, mul_zero])
    obtain ⟨b, hb, hS⟩ := Finset.exists_ne_zero_of_sum_ne_zero hS
    have hb := Finset.mem_range.1 hb
    have hCne : C.f a b ≠ 0 := fun h0 => hS (by rw [h0, zero_mul])
    have hRne : R.f b w b' ≠ 0 := fun h0 => hS (by rw [h0, mul_zero])
    have e1 := hC a b (by omega) hb hCne
    have e2 := hR b w b' (by omega) (by omega) hb' hRne
    have e3 := hL a w a' ha hw ha' hLne
    omega

theorem localBondFun_sector {L R : T3 𝕜} {m n : Nat} {qa qb qw : List Int}
    (hL : BlockSparse L qa qw) (hR : BlockSparse R qb qw) (sL : L.d2 = L.d0) (sR : R.d2 = R.d0) (x : List 𝕜)
    (hx : InSector (secZ2 m n qa qb) x) : InSector (secZ2 m n qa qb) (localBondFun L R m n x) := by
  unfold localBondFun
  cases hT : Op.applyLocalBondContraction L R (unflat2 x m n) with
  | error e => exact inSector_nil _
  | ok T =>
    dsimp only
    have hsp := localBond_sparse hT hL hR (sparse_of_inSector2 hx)
    by_cases hc : (unflat2 x m n).n ≠ R.d0 ∨ L.d0 ≠ (unflat2 x m n).m ∨ L.d1 ≠ R.d1
    · unfold Op.applyLocalBondContraction at hT
      rw [if_pos hc] at hT
      simp [throw, throwThe, MonadExceptOf.throw, bind, Except.bind] at hT
    · simp only [not_or, not_not] at hc
      obtain ⟨c1, c2, c3⟩ := hc
      obtain ⟨T', hT', s0, s1, _⟩ := Env.applyLocalBondContraction_ok L R _ c1 c2 c3
      rw [hT] at hT'
      injection hT' with hT'
      subst hT'
      exact inSector2_of_sparse hsp (by rw [s0, sL, c2]; rfl) (by rw [s1, sR, ← c1]; rfl)

/-- **`_local_bond_step` stays in the sector** -/
theorem bondStep_sparse {k : EvoKernels 𝕜 ℝ} {L R : T3 𝕜} {C C1 : Mat 𝕜} {dt : 𝕜} {numiter : Nat}
    {qa qb qw : List Int} (h : localBondStep k L R C dt numiter = .ok C1)
    (hL : BlockSparse L qa qw) (hR : BlockSparse R qb qw) (sL : L.d2 = L.d0) (sR : R.d2 = R.d0)
    (hC : Sparse C qa qb) : Sparse C1 qa qb ∧ C1.m = C.m ∧ C1.n = C.n := by
  obtain ⟨y, hy, rfl⟩ := bondStep_unfold h
  refine ⟨sparse_tab (sparse_of_inSector2 ?_), rfl, rfl⟩
  exact expmKrylov_inSector (localBondFun_sector hL hR sL sR) (inSector2_of_sparse hC rfl rfl) hy

end Ptn.HistWf

import PtnModel.Proofs.HamSpinConv
/-!
# The single-mode chains of the molecular enumeration are Jordan-Wigner shaped

For each of the six list shapes produced by `molHopChain` / `molIntChain` (hopping; two number operators; number operator
first / in the middle / last; generic) the interleaved charges follow the operators, `Z` runs sit at odd and `I` runs at even
charge, and the spin-resolved charge `altCharge` is the signed sum over the (at most four) creation / annihilation operators.
-/
set_option linter.unusedSectionVars false
set_option linter.unusedSimpArgs false

namespace Ptn.Ham
open Ptn.Og List

theorem ch_pm {p : Int} (h : p = 1 ∨ p = -1) : ch p = p := by
  rcases h with rfl | rfl <;> simp [ch, mC, mA]

theorem ch_N : ch mN = 0 := by simp [ch, mN, mC, mA]
theorem ch_I : ch mI = 0 := by simp [ch, mI, mC, mA]
theorem ch_Z : ch mZ = 0 := by simp [ch, mZ, mC, mA]

theorem isMol_pm {p : Int} (h : p = 1 ∨ p = -1) : isMolOid p := by
  rcases h with rfl | rfl
  · exact Or.inr (Or.inr (Or.inl rfl))
  · exact Or.inl rfl

theorem pm_ne_Z {p : Int} (h : p = 1 ∨ p = -1) : ¬ p = mZ := by rcases h with rfl | rfl <;> simp [mZ]
theorem pm_ne_I {p : Int} (h : p = 1 ∨ p = -1) : ¬ p = mI := by rcases h with rfl | rfl <;> simp [mI]

theorem pyRepeat_succ {α : Type} (x : Int) (v : α) (h : 0 < x) : pyRepeat x v = v :: pyRepeat (x - 1) v := by
  unfold pyRepeat
  have : x.toNat = (x - 1).toNat + 1 := by omega
  rw [this, List.replicate_succ]

/-- a run of `Z` at odd charge `q` -/
theorem JW_repZ (x : Int) (q : Int) (hq : q % 2 = 1) (os qs : List Int) (h : JW q os qs) :
    JW q (pyRepeat x mZ ++ os) (pyRepeat x q ++ qs) := by
  unfold pyRepeat
  induction x.toNat with
  | zero => simpa using h
  | succ n ih =>
    simp only [List.replicate_succ, List.cons_append, JW]
    exact ⟨by simp [ch_Z], fun _ => hq, by simp [mZ, mI], Or.inr (Or.inr (Or.inr (Or.inr rfl))), ih⟩

/-- a run of `I` at even charge `q` -/
theorem JW_repI (x : Int) (q : Int) (hq : q % 2 = 0) (os qs : List Int) (h : JW q os qs) :
    JW q (pyRepeat x mI ++ os) (pyRepeat x q ++ qs) := by
  unfold pyRepeat
  induction x.toNat with
  | zero => simpa using h
  | succ n ih =>
    simp only [List.replicate_succ, List.cons_append, JW]
    exact ⟨by simp [ch_I], by simp [mZ, mI], fun _ => hq, Or.inr (Or.inl rfl), ih⟩

theorem JW_op (q q' : Int) (o : Int) (ho : isMolOid o) (hZ : ¬ o = mZ) (hI : ¬ o = mI) (hq : q' = q + ch o)
    (os qs : List Int) (h : JW q' os qs) : JW q (o :: os) (q' :: qs) := by
  simp only [JW]
  exact ⟨hq, fun e => absurd e hZ, fun e => absurd e hI, ho, h⟩

theorem altCharge_rep (x : Int) (o : Int) (h0 : ch o = 0) (pos : Int) (os : List Int) :
    altCharge pos (pyRepeat x o ++ os) = altCharge (pos + (x.toNat : Int)) os := by
  unfold pyRepeat
  induction x.toNat generalizing pos with
  | zero => simp
  | succ n ih =>
    simp only [List.replicate_succ, List.cons_append, altCharge, h0, mul_zero, zero_add]
    rw [ih]
    congr 1
    push_cast
    ring

theorem isMol_N : isMolOid mN := Or.inr (Or.inr (Or.inr (Or.inl rfl)))
theorem N_ne_Z : ¬ mN = mZ := by simp [mN, mZ]
theorem N_ne_I : ¬ mN = mI := by simp [mN, mI]

/-- the data `to_spin_opchain` needs about a chain given by explicit lists -/
structure ListsReady (oids qnums : List Int) (a : Int) (X : Int) : Prop where
  ex : ∃ tail, qnums = 0 :: tail ∧ JW 0 oids tail
  alt : altCharge a oids = X

/-- hopping term: `[p] + (b-a-1)*[Z] + [q]`, charges `[0] + (b-a)*[p] + [0]` -/
theorem hop_ready (a b p q : Int) (hab : a < b) (hp : p = 1 ∨ p = -1) (hq : q = 1 ∨ q = -1) (hpq : p + q = 0) :
    ListsReady ([p] ++ pyRepeat (b - a - 1) mZ ++ [q]) ([0] ++ pyRepeat (b - a) p ++ [0]) a
      (sgnPar a * p + sgnPar b * q) := by
  have hpodd : p % 2 = 1 := by rcases hp with rfl | rfl <;> decide
  constructor
  · refine ⟨pyRepeat (b - a) p ++ [0], by simp, ?_⟩
    rw [pyRepeat_succ (b - a) p (by omega)]
    simp only [List.singleton_append, List.cons_append, List.append_assoc]
    refine JW_op 0 p p (isMol_pm hp) (pm_ne_Z hp) (pm_ne_I hp) (by rw [ch_pm hp]; ring) _ _ ?_
    refine JW_repZ _ p hpodd _ _ ?_
    exact JW_op p 0 q (isMol_pm hq) (pm_ne_Z hq) (pm_ne_I hq) (by rw [ch_pm hq]; omega) _ _ trivial
  · simp only [List.singleton_append, List.cons_append, List.append_assoc, List.nil_append, altCharge, ch_pm hp]
    rw [altCharge_rep _ _ ch_Z]
    simp only [altCharge, ch_pm hq, add_zero]
    have : a + 1 + ((b - a - 1).toNat : Int) = b := by omega
    rw [this]

/-- two number operators: `[N] + (c-b-1)*[I] + [N]`, charges `(c-b+2)*[0]` -/
theorem nn_ready (b c : Int) (hbc : b < c) :
    ListsReady ([mN] ++ pyRepeat (c - b - 1) mI ++ [mN]) (pyRepeat (c - b + 2) 0) b 0 := by
  constructor
  · refine ⟨pyRepeat (c - b + 1) 0, ?_, ?_⟩
    · rw [pyRepeat_succ (c - b + 2) 0 (by omega)]
      have : c - b + 2 - 1 = c - b + 1 := by omega
      rw [this]
    · rw [pyRepeat_succ (c - b + 1) 0 (by omega)]
      simp only [List.singleton_append, List.cons_append, List.append_assoc]
      refine JW_op 0 0 mN isMol_N N_ne_Z N_ne_I (by simp [ch_N]) _ _ ?_
      have e : pyRepeat (c - b + 1 - 1) (0 : Int) = pyRepeat (c - b - 1) 0 ++ [0] := by
        unfold pyRepeat
        have : (c - b + 1 - 1).toNat = (c - b - 1).toNat + 1 := by omega
        rw [this, List.replicate_succ']
      rw [e]
      refine JW_repI _ 0 (by decide) _ _ ?_
      exact JW_op 0 0 mN isMol_N N_ne_Z N_ne_I (by simp [ch_N]) _ _ trivial
  · simp only [List.singleton_append, List.cons_append, List.append_assoc, List.nil_append, altCharge, ch_N, mul_zero, zero_add]
    rw [altCharge_rep _ _ ch_I]
    simp [altCharge, ch_N]

/-- number operator first: `[N] + (c-b-1)*[I] + [r] + (d-c-1)*[Z] + [s]`, charges `(c-b+1)*[0] + (d-c)*[r] + [0]` -/
theorem nfirst_ready (b c d r s : Int) (hbc : b < c) (hcd : c < d) (hr : r = 1 ∨ r = -1) (hs : s = 1 ∨ s = -1) (hrs : r + s = 0) :
    ListsReady ([mN] ++ pyRepeat (c - b - 1) mI ++ [r] ++ pyRepeat (d - c - 1) mZ ++ [s])
      (pyRepeat (c - b + 1) 0 ++ pyRepeat (d - c) r ++ [0]) b (sgnPar c * r + sgnPar d * s) := by
  have hrodd : r % 2 = 1 := by rcases hr with rfl | rfl <;> decide
  constructor
  · refine ⟨pyRepeat (c - b) 0 ++ pyRepeat (d - c) r ++ [0], ?_, ?_⟩
    · rw [pyRepeat_succ (c - b + 1) 0 (by omega)]
      have : c - b + 1 - 1 = c - b := by omega
      rw [this]
      simp only [List.cons_append]
    · rw [pyRepeat_succ (c - b) 0 (by omega), pyRepeat_succ (d - c) r (by omega)]
      simp only [List.singleton_append, List.cons_append, List.append_assoc]
      refine JW_op 0 0 mN isMol_N N_ne_Z N_ne_I (by simp [ch_N]) _ _ ?_
      refine JW_repI _ 0 (by decide) _ _ ?_
      refine JW_op 0 r r (isMol_pm hr) (pm_ne_Z hr) (pm_ne_I hr) (by rw [ch_pm hr]; ring) _ _ ?_
      refine JW_repZ _ r hrodd _ _ ?_
      exact JW_op r 0 s (isMol_pm hs) (pm_ne_Z hs) (pm_ne_I hs) (by rw [ch_pm hs]; omega) _ _ trivial
  · simp only [List.singleton_append, List.cons_append, List.append_assoc, List.nil_append, altCharge, ch_N, mul_zero, zero_add]
    rw [altCharge_rep _ _ ch_I]
    simp only [altCharge, ch_pm hr]
    rw [altCharge_rep _ _ ch_Z]
    simp only [altCharge, ch_pm hs, add_zero]
    have e1 : b + 1 + ((c - b - 1).toNat : Int) = c := by omega
    have e2 : c + 1 + ((d - c - 1).toNat : Int) = d := by omega
    rw [e1, e2]

/-- number operator in the middle (`b = c`): `[p] + (b-a-1)*[Z] + [N] + (d-c-1)*[Z] + [s]`, charges `[0] + (d-a)*[p] + [0]` -/
theorem nmid_ready (a b c d p s : Int) (hab : a < b) (hbc : b = c) (hcd : c < d) (hp : p = 1 ∨ p = -1) (hs : s = 1 ∨ s = -1)
    (hps : p + s = 0) :
    ListsReady ([p] ++ pyRepeat (b - a - 1) mZ ++ [mN] ++ pyRepeat (d - c - 1) mZ ++ [s])
      ([0] ++ pyRepeat (d - a) p ++ [0]) a (sgnPar a * p + sgnPar d * s) := by
  have hpodd : p % 2 = 1 := by rcases hp with rfl | rfl <;> decide
  subst hbc
  constructor
  · refine ⟨pyRepeat (d - a) p ++ [0], by simp, ?_⟩
    have e : pyRepeat (d - a) p = p :: (pyRepeat (b - a - 1) p ++ (p :: pyRepeat (d - b - 1) p)) := by
      unfold pyRepeat
      have : (d - a).toNat = 1 + ((b - a - 1).toNat + (1 + (d - b - 1).toNat)) := by omega
      rw [this, List.replicate_add, List.replicate_add, List.replicate_add]
      simp
    rw [e]
    simp only [List.singleton_append, List.cons_append, List.append_assoc]
    refine JW_op 0 p p (isMol_pm hp) (pm_ne_Z hp) (pm_ne_I hp) (by rw [ch_pm hp]; ring) _ _ ?_
    refine JW_repZ _ p hpodd _ _ ?_
    refine JW_op p p mN isMol_N N_ne_Z N_ne_I (by simp [ch_N]) _ _ ?_
    refine JW_repZ _ p hpodd _ _ ?_
    exact JW_op p 0 s (isMol_pm hs) (pm_ne_Z hs) (pm_ne_I hs) (by rw [ch_pm hs]; omega) _ _ trivial
  · simp only [List.singleton_append, List.cons_append, List.append_assoc, List.nil_append, altCharge, ch_pm hp]
    rw [altCharge_rep _ _ ch_Z]
    simp only [altCharge, ch_N, mul_zero, zero_add]
    rw [altCharge_rep _ _ ch_Z]
    simp only [altCharge, ch_pm hs, add_zero]
    have e1 : a + 1 + ((b - a - 1).toNat : Int) + 1 + ((d - b - 1).toNat : Int) = d := by omega
    rw [e1]

/-- number operator last: `[p] + (b-a-1)*[Z] + [q] + (c-b-1)*[I] + [N]`, charges `[0] + (b-a)*[p] + (c-b+1)*[0]` -/
theorem nlast_ready (a b c p q : Int) (hab : a < b) (hbc : b < c) (hp : p = 1 ∨ p = -1) (hq : q = 1 ∨ q = -1) (hpq : p + q = 0) :
    ListsReady ([p] ++ pyRepeat (b - a - 1) mZ ++ [q] ++ pyRepeat (c - b - 1) mI ++ [mN])
      ([0] ++ pyRepeat (b - a) p ++ pyRepeat (c - b + 1) 0) a (sgnPar a * p + sgnPar b * q) := by
  have hpodd : p % 2 = 1 := by rcases hp with rfl | rfl <;> decide
  constructor
  · refine ⟨pyRepeat (b - a) p ++ pyRepeat (c - b + 1) 0, by simp, ?_⟩
    have e : pyRepeat (c - b + 1) (0 : Int) = 0 :: (pyRepeat (c - b - 1) 0 ++ [0]) := by
      unfold pyRepeat
      have : (c - b + 1).toNat = 1 + ((c - b - 1).toNat + 1) := by omega
      rw [this, List.replicate_add, List.replicate_add]
      simp
    rw [pyRepeat_succ (b - a) p (by omega), e]
    simp only [List.singleton_append, List.cons_append, List.append_assoc]
    refine JW_op 0 p p (isMol_pm hp) (pm_ne_Z hp) (pm_ne_I hp) (by rw [ch_pm hp]; ring) _ _ ?_
    refine JW_repZ _ p hpodd _ _ ?_
    refine JW_op p 0 q (isMol_pm hq) (pm_ne_Z hq) (pm_ne_I hq) (by rw [ch_pm hq]; omega) _ _ ?_
    refine JW_repI _ 0 (by decide) _ _ ?_
    exact JW_op 0 0 mN isMol_N N_ne_Z N_ne_I (by simp [ch_N]) _ _ trivial
  · simp only [List.singleton_append, List.cons_append, List.append_assoc, List.nil_append, altCharge, ch_pm hp]
    rw [altCharge_rep _ _ ch_Z]
    simp only [altCharge, ch_pm hq]
    rw [altCharge_rep _ _ ch_I]
    simp only [altCharge, ch_N, mul_zero, add_zero]
    have e1 : a + 1 + ((b - a - 1).toNat : Int) = b := by omega
    rw [e1]

/-- generic: `[p] + (b-a-1)*[Z] + [q] + (c-b-1)*[I] + [r] + (d-c-1)*[Z] + [s]`,
charges `[0] + (b-a)*[p] + (c-b)*[p+q] + (d-c)*[-s] + [0]` -/
theorem generic_ready (a b c d p q r s : Int) (hab : a < b) (hbc : b < c) (hcd : c < d)
    (hp : p = 1 ∨ p = -1) (hq : q = 1 ∨ q = -1) (hr : r = 1 ∨ r = -1) (hs : s = 1 ∨ s = -1) (hsum : p + q + r + s = 0) :
    ListsReady ([p] ++ pyRepeat (b - a - 1) mZ ++ [q] ++ pyRepeat (c - b - 1) mI ++ [r] ++ pyRepeat (d - c - 1) mZ ++ [s])
      ([0] ++ pyRepeat (b - a) p ++ pyRepeat (c - b) (p + q) ++ pyRepeat (d - c) (-s) ++ [0]) a
      (sgnPar a * p + sgnPar b * q + sgnPar c * r + sgnPar d * s) := by
  have hpodd : p % 2 = 1 := by rcases hp with rfl | rfl <;> decide
  have hsodd : (-s) % 2 = 1 := by rcases hs with rfl | rfl <;> decide
  have hpqeven : (p + q) % 2 = 0 := by rcases hp with rfl | rfl <;> rcases hq with rfl | rfl <;> decide
  constructor
  · refine ⟨pyRepeat (b - a) p ++ pyRepeat (c - b) (p + q) ++ pyRepeat (d - c) (-s) ++ [0], by simp, ?_⟩
    rw [pyRepeat_succ (b - a) p (by omega), pyRepeat_succ (c - b) (p + q) (by omega), pyRepeat_succ (d - c) (-s) (by omega)]
    simp only [List.singleton_append, List.cons_append, List.append_assoc]
    refine JW_op 0 p p (isMol_pm hp) (pm_ne_Z hp) (pm_ne_I hp) (by rw [ch_pm hp]; ring) _ _ ?_
    refine JW_repZ _ p hpodd _ _ ?_
    refine JW_op p (p + q) q (isMol_pm hq) (pm_ne_Z hq) (pm_ne_I hq) (by rw [ch_pm hq]) _ _ ?_
    refine JW_repI _ (p + q) hpqeven _ _ ?_
    refine JW_op (p + q) (-s) r (isMol_pm hr) (pm_ne_Z hr) (pm_ne_I hr) (by rw [ch_pm hr]; omega) _ _ ?_
    refine JW_repZ _ (-s) hsodd _ _ ?_
    exact JW_op (-s) 0 s (isMol_pm hs) (pm_ne_Z hs) (pm_ne_I hs) (by rw [ch_pm hs]; omega) _ _ trivial
  · simp only [List.singleton_append, List.cons_append, List.append_assoc, List.nil_append, altCharge, ch_pm hp]
    rw [altCharge_rep _ _ ch_Z]
    simp only [altCharge, ch_pm hq]
    rw [altCharge_rep _ _ ch_I]
    simp only [altCharge, ch_pm hr]
    rw [altCharge_rep _ _ ch_Z]
    simp only [altCharge, ch_pm hs, add_zero]
    have e1 : a + 1 + ((b - a - 1).toNat : Int) = b := by omega
    have e2 : b + 1 + ((c - b - 1).toNat : Int) = c := by omega
    have e3 : c + 1 + ((d - c - 1).toNat : Int) = d := by omega
    rw [e1, e2, e3]
    ring

end Ptn.Ham

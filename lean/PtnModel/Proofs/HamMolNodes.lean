import Mathlib.Data.List.Perm.Basic
import Mathlib.Data.List.Count
import PtnModel.Proofs.HamChains
import PtnModel.Model.HamiltonianSpinGraph
/-!
# Node ids of the explicit molecular graphs are pairwise distinct, for every `L`

`mkFam` hands out consecutive ids; chained families (`mkFams`) therefore cover an integer interval; the identity chains take
`0 .. 2L-1`.  The node list of `generate_graph` is a rearrangement of the creation order, hence duplicate free: the
`OpGraph` constructor never raises "node already exists", for every number of orbitals.
-/
set_option linter.unusedSectionVars false

namespace Ptn.Ham
open Ptn.Og List

/-- node ids of a family in dictionary order -/
def famIds (f : Fam) : List Int := f.nodes.map (·.nid)

theorem pyRange_append (a b c : Int) (h1 : a ≤ b) (h2 : b ≤ c) : pyRange a b ++ pyRange b c = pyRange a c := by
  unfold pyRange
  have e : (c - a).toNat = (b - a).toNat + (c - b).toNat := by omega
  rw [e, List.range_add, List.map_append, List.map_map]
  congr 1
  apply List.map_congr_left
  intro k _
  simp only [Function.comp]
  omega

theorem famIds_append (f g : Fam) : famIds (f ++ g) = famIds f ++ famIds g := by
  simp [famIds, Fam.nodes]

/-- ids of one dictionary entry created by `mkFam` -/
theorem inner_ids (keys : List Int) (n : Int) (q : Int) :
    (((keys.zipIdx.map fun (k, idx) => (k, (⟨n + (idx : Int), [], [], q⟩ : Node))).map (·.2)).map (·.nid))
      = pyRange n (n + keys.length) := by
  have h : (((keys.zipIdx.map fun (k, idx) => (k, (⟨n + (idx : Int), [], [], q⟩ : Node))).map (·.2)).map (·.nid))
      = (keys.zipIdx.map Prod.snd).map fun (idx : Nat) => n + (idx : Int) := by
    rw [List.map_map, List.map_map, List.map_map]
    rfl
  rw [h, List.zipIdx_map_snd]
  unfold pyRange
  have e : (n + (keys.length : Int) - n).toNat = keys.length := by omega
  rw [e, List.range_eq_range']

theorem mkFam_fold_ids (spec : List (List Int × List Int × Int)) :
    ∀ acc : Fam × Int,
      let r := spec.foldl (fun (acc : Fam × Int) (s : List Int × List Int × Int) =>
        let inner := s.2.1.zipIdx.map fun (k, idx) => (k, (⟨acc.2 + (idx : Int), [], [], s.2.2⟩ : Node))
        (acc.1 ++ [(s.1, inner)], acc.2 + (s.2.1.length : Int))) acc
      famIds r.1 = famIds acc.1 ++ pyRange acc.2 r.2 ∧ acc.2 ≤ r.2 := by
  induction spec with
  | nil =>
    intro acc
    simp [pyRange]
  | cons s rest ih =>
    intro acc
    simp only [List.foldl_cons]
    obtain ⟨h1, h2⟩ := ih (acc.1 ++ [(s.1, s.2.1.zipIdx.map fun (k, idx) => (k, (⟨acc.2 + (idx : Int), [], [], s.2.2⟩ : Node)))],
      acc.2 + (s.2.1.length : Int))
    simp only at h1 h2
    refine ⟨?_, by omega⟩
    rw [h1, famIds_append]
    have : famIds [(s.1, s.2.1.zipIdx.map fun (k, idx) => (k, (⟨acc.2 + (idx : Int), [], [], s.2.2⟩ : Node)))]
        = pyRange acc.2 (acc.2 + s.2.1.length) := by
      simp only [famIds, Fam.nodes, List.flatMap_cons, List.flatMap_nil, List.append_nil]
      exact inner_ids s.2.1 acc.2 s.2.2
    rw [this, List.append_assoc, pyRange_append _ _ _ (by omega) h2]

/-- `mkFam` hands out the consecutive ids `n0, n0+1, ...` -/
theorem mkFam_ids (spec : List (List Int × List Int × Int)) (n0 : Int) :
    famIds (mkFam spec n0).1 = pyRange n0 (mkFam spec n0).2 ∧ n0 ≤ (mkFam spec n0).2 := by
  have := mkFam_fold_ids spec ([], n0)
  simpa [mkFam, famIds, Fam.nodes] using this

/-- chained families cover an interval -/
theorem mkFams_ids : ∀ (specs : List (List (List Int × List Int × Int))) (n0 : Int),
    (mkFams specs n0).1.flatMap famIds = pyRange n0 (mkFams specs n0).2 ∧ n0 ≤ (mkFams specs n0).2 := by
  intro specs
  induction specs with
  | nil => intro n0; simp [mkFams, pyRange]
  | cons s rest ih =>
    intro n0
    obtain ⟨h1, h2⟩ := mkFam_ids s n0
    obtain ⟨h3, h4⟩ := ih (mkFam s n0).2
    simp only [mkFams, List.flatMap_cons]
    refine ⟨?_, by omega⟩
    rw [h1, h3, pyRange_append _ _ _ h2 h4]

theorem mkFams_length : ∀ (specs : List (List (List Int × List Int × Int))) (n0 : Int),
    (mkFams specs n0).1.length = specs.length := by
  intro specs
  induction specs with
  | nil => intro n0; rfl
  | cons s rest ih => intro n0; simp [mkFams, ih]

/-- a list of ten families, spelled out -/
theorem ten_getD (fs : List Fam) (h : fs.length = 10) :
    fs = [fs.getD 0 [], fs.getD 1 [], fs.getD 2 [], fs.getD 3 [], fs.getD 4 [], fs.getD 5 [], fs.getD 6 [], fs.getD 7 [],
      fs.getD 8 [], fs.getD 9 []] := by
  match fs, h with
  | [a0, a1, a2, a3, a4, a5, a6, a7, a8, a9], _ => rfl

theorem pyRange_empty (a b : Int) (h : b ≤ a) : pyRange a b = [] := by
  unfold pyRange
  have : (b - a).toNat = 0 := by omega
  rw [this]; rfl

theorem identity_ids (L : Int) :
    ((((pyRange 0 L).map fun i => (i, (⟨i, [], [], 0⟩ : Node))).map (·.2)).map (·.nid)) ++
    ((((pyRange 1 (L + 1)).map fun i => (i, (⟨L + i - 1, [], [], 0⟩ : Node))).map (·.2)).map (·.nid))
      = pyRange 0 (((((pyRange 0 L).map fun i => (i, (⟨i, [], [], 0⟩ : Node))).length +
          ((pyRange 1 (L + 1)).map fun i => (i, (⟨L + i - 1, [], [], 0⟩ : Node))).length : Nat) : Int)) := by
  simp only [List.map_map, Function.comp_def, List.map_id', List.length_map]
  by_cases hL : 0 ≤ L
  · have e1 : ((pyRange 1 (L + 1)).map fun i => L + i - 1) = pyRange L (2 * L) := by
      unfold pyRange
      have : (L + 1 - 1).toNat = (2 * L - L).toNat := by omega
      rw [this, List.map_map]
      apply List.map_congr_left
      intro k _
      simp only [Function.comp]
      omega
    have e2 : (((pyRange 0 L).length + (pyRange 1 (L + 1)).length : Nat) : Int) = 2 * L := by
      simp only [pyRange_length]; omega
    rw [e1, e2, pyRange_append _ _ _ hL (by omega)]
  · rw [pyRange_empty 0 L (by omega), pyRange_empty 1 (L + 1) (by omega)]
    rfl

/-- ids of the node list of `generate_graph` -/
def nodeListIds (idL idR : List (Int × Node)) (f0 f1 f2 f3 f4 f5 f6 f7 f8 f9 : Fam) : List Int :=
  ((idL.map (·.2)).map (·.nid)) ++ ((idR.map (·.2)).map (·.nid)) ++ famIds f0 ++ famIds f1 ++ famIds f5 ++ famIds f6 ++
    famIds f2 ++ famIds f3 ++ famIds f4 ++ famIds f7 ++ famIds f8 ++ famIds f9

/-- the graph's node order is a rearrangement of the creation order -/
theorem nodeList_perm (a b : List Int) (F0 F1 F2 F3 F4 F5 F6 F7 F8 F9 : List Int) :
    (a ++ b ++ F0 ++ F1 ++ F5 ++ F6 ++ F2 ++ F3 ++ F4 ++ F7 ++ F8 ++ F9).Perm
      (a ++ b ++ (F0 ++ (F1 ++ (F2 ++ (F3 ++ (F4 ++ (F5 ++ (F6 ++ (F7 ++ (F8 ++ (F9 ++ []))))))))))) := by
  rw [List.perm_iff_count]
  intro x
  simp only [List.count_append, List.count_nil]
  omega

/-- identity chains with ids `0 .. n0-1`, then ten chained families: the graph's node order is a rearrangement of `0 .. N-1` -/
theorem ids_perm_general (a b : List Int) (specs : List (List (List Int × List Int × Int))) (n0 : Int)
    (hid : a ++ b = pyRange 0 n0) (h0 : 0 ≤ n0) (h10 : specs.length = 10) :
    (a ++ b ++ famIds ((mkFams specs n0).1.getD 0 []) ++ famIds ((mkFams specs n0).1.getD 1 []) ++
      famIds ((mkFams specs n0).1.getD 5 []) ++ famIds ((mkFams specs n0).1.getD 6 []) ++
      famIds ((mkFams specs n0).1.getD 2 []) ++ famIds ((mkFams specs n0).1.getD 3 []) ++
      famIds ((mkFams specs n0).1.getD 4 []) ++ famIds ((mkFams specs n0).1.getD 7 []) ++
      famIds ((mkFams specs n0).1.getD 8 []) ++ famIds ((mkFams specs n0).1.getD 9 [])).Perm
      (pyRange 0 (mkFams specs n0).2) := by
  have hlen := mkFams_length specs n0
  obtain ⟨hids, hle⟩ := mkFams_ids specs n0
  have hfs := ten_getD (mkFams specs n0).1 (by rw [hlen, h10])
  have hcr : pyRange 0 (mkFams specs n0).2 = a ++ b ++ (mkFams specs n0).1.flatMap famIds := by
    rw [hid, hids, pyRange_append _ _ _ h0 hle]
  rw [hcr]
  conv_rhs => rw [hfs]
  simp only [List.flatMap_cons, List.flatMap_nil]
  exact nodeList_perm _ _ _ _ _ _ _ _ _ _ _ _

/-- number of identity-chain nodes, as `__init__` counts them -/
def idCount (L : Int) : Int :=
  ((((pyRange 0 L).map fun i => (i, (⟨i, [], [], 0⟩ : Node))).length +
    ((pyRange 1 (L + 1)).map fun i => (i, (⟨L + i - 1, [], [], 0⟩ : Node))).length : Nat) : Int)

/-- **`MolecularOpGraphNodes`: for every `L` the node ids of the graph's node list are a rearrangement of `0, 1, ..., N-1`**;
in particular they are pairwise distinct. -/
theorem molNodes_ids (L : Int) :
    ∃ N : Int, ((MolNodes.init L).nodeList.map (·.nid)).Perm (pyRange 0 N) := by
  have h := ids_perm_general _ _ (molSpecs L) _ (identity_ids L) (by omega) rfl
  refine ⟨(mkFams (molSpecs L) (idCount L)).2, ?_⟩
  simp only [MolNodes.nodeList, MolNodes.init, List.map_append]
  exact h

theorem molNodes_ids_nodup (L : Int) : ((MolNodes.init L).nodeList.map (·.nid)).Nodup := by
  obtain ⟨N, hp⟩ := molNodes_ids L
  exact hp.nodup_iff.2 (pyRange_nodup 0 N)

/-- **`SpinMolecularOpGraphNodes`**: the same for the spin-orbital node tables. -/
theorem spinNodes_ids (L : Int) :
    ∃ N : Int, ((SpinNodes.init L).nodeList.map (·.nid)).Perm (pyRange 0 N) := by
  have h := ids_perm_general _ _ (spinSpecs L) _ (identity_ids L) (by omega) rfl
  refine ⟨(mkFams (spinSpecs L) (idCount L)).2, ?_⟩
  simp only [SpinNodes.nodeList, SpinNodes.init, List.map_append]
  exact h

theorem spinNodes_ids_nodup (L : Int) : ((SpinNodes.init L).nodeList.map (·.nid)).Nodup := by
  obtain ⟨N, hp⟩ := spinNodes_ids L
  exact hp.nodup_iff.2 (pyRange_nodup 0 N)

/-! ## the `OpGraph` constructor accepts the node lists -/

section
variable {κ : Type} [Add κ] [Mul κ] [OfNat κ 0] [OfNat κ 1] [DecidableEq κ]

theorem dHas_append_single {β : Type} (d : List (Int × β)) (k : Int) (v : β) (k' : Int) :
    dHas (d ++ [(k, v)]) k' = (dHas d k' || k' == k) := by
  induction d with
  | nil => simp [dHas, List.lookup]; cases h : (k' == k) <;> simp [h]
  | cons p d ih =>
    obtain ⟨k0, v0⟩ := p
    simp only [dHas, List.cons_append, List.lookup] at ih ⊢
    cases h : (k' == k0)
    · simpa using ih
    · simp

/-- `for node in nodes: self.add_node(node)` succeeds when the ids are pairwise distinct and new -/
theorem addNodes_ok : ∀ (nodes : List Node) (g : Graph κ), (nodes.map (·.nid)).Nodup →
    (∀ n ∈ nodes, dHas g.nodes n.nid = false) →
    nodes.foldlM (fun (g : Graph κ) n => g.addNode n) g = .ok { g with nodes := g.nodes ++ nodes.map fun n => (n.nid, n) } := by
  intro nodes
  induction nodes with
  | nil => intro g _ _; simp [pure, Except.pure]
  | cons n ns ih =>
    intro g hnd hnew
    have h1 : dHas g.nodes n.nid = false := hnew n List.mem_cons_self
    have hstep : g.addNode n = .ok { g with nodes := g.nodes ++ [(n.nid, n)] } := by
      simp [Graph.addNode, h1]
    simp only [List.foldlM_cons, hstep, bind, Except.bind]
    simp only [List.map_cons, List.nodup_cons] at hnd
    rw [ih _ hnd.2]
    · simp
    · intro m hm
      simp only [dHas_append_single]
      rw [hnew m (List.mem_cons_of_mem _ hm)]
      have : m.nid ≠ n.nid := by
        intro e
        exact hnd.1 (e ▸ List.mem_map_of_mem hm)
      simpa using this

theorem dHas_of_mem_map (nodes : List Node) (n : Node) (h : n ∈ nodes) :
    dHas (nodes.map fun n => (n.nid, n)) n.nid = true := by
  induction nodes with
  | nil => simp at h
  | cons m ms ih =>
    simp only [dHas, List.map_cons, List.lookup]
    cases hk : (n.nid == m.nid)
    · rcases List.mem_cons.1 h with rfl | h
      · simp at hk
      · simpa [dHas] using ih h
    · simp

/-- `OpGraph(nodes, [], [t0, t1])` with pairwise distinct node ids and terminals among the nodes -/
theorem graph_mk'_ok (nodes : List Node) (t0 t1 : Node) (hnd : (nodes.map (·.nid)).Nodup) (h0 : t0 ∈ nodes) (h1 : t1 ∈ nodes) :
    Graph.mk' nodes ([] : List (Edge κ)) [t0.nid, t1.nid]
      = .ok ⟨nodes.map fun n => (n.nid, n), [], (t0.nid, t1.nid)⟩ := by
  unfold Graph.mk'
  dsimp only
  rw [addNodes_ok nodes _ hnd (by intro n _; rfl)]
  simp [bind, Except.bind, dHas_of_mem_map nodes t0 h0, dHas_of_mem_map nodes t1 h1, pure, Except.pure]

theorem lookup_of_mem {β : Type} : ∀ (l : List (Int × β)), (l.map (·.1)).Nodup → ∀ (k : Int) (v : β), (k, v) ∈ l →
    l.lookup k = some v := by
  intro l
  induction l with
  | nil => intro _ k v h; simp at h
  | cons p l ih =>
    intro hn k v h
    obtain ⟨k0, v0⟩ := p
    simp only [List.map_cons, List.nodup_cons] at hn
    rcases List.mem_cons.1 h with h' | h'
    · simp only [Prod.mk.injEq] at h'
      obtain ⟨rfl, rfl⟩ := h'
      simp [List.lookup]
    · have hne : (k == k0) = false := by
        have : k ≠ k0 := by
          intro e
          apply hn.1
          rw [← e]
          exact List.mem_map.2 ⟨(k, v), h', rfl⟩
        simpa using this
      simp only [List.lookup, hne]
      exact ih hn.2 k v h'

theorem keys_nodup_map (a b : Int) (f : Int → Node) : (((pyRange a b).map fun i => (i, f i)).map (·.1)).Nodup := by
  have : ((pyRange a b).map fun i => (i, f i)).map (·.1) = pyRange a b := by
    rw [List.map_map]
    exact List.map_id' _
  rw [this]
  exact pyRange_nodup a b

/-- the identity chains of both node tables -/
theorem identity_lookup (L : Int) (hL : 1 ≤ L) :
    dGet ((pyRange 0 L).map fun i => (i, (⟨i, [], [], 0⟩ : Node))) 0 = .ok ⟨0, [], [], 0⟩ ∧
    dGet ((pyRange 1 (L + 1)).map fun i => (i, (⟨L + i - 1, [], [], 0⟩ : Node))) L = .ok ⟨L + L - 1, [], [], 0⟩ := by
  constructor
  · unfold dGet
    rw [lookup_of_mem _ (keys_nodup_map 0 L fun i => ⟨i, [], [], 0⟩) 0 ⟨0, [], [], 0⟩
      (List.mem_map.2 ⟨0, mem_pyRange.2 ⟨Int.le_refl _, by omega⟩, rfl⟩)]
  · unfold dGet
    rw [lookup_of_mem _ (keys_nodup_map 1 (L + 1) fun i => ⟨L + i - 1, [], [], 0⟩) L ⟨L + L - 1, [], [], 0⟩
      (List.mem_map.2 ⟨L, mem_pyRange.2 ⟨hL, by omega⟩, rfl⟩)]

/-- **`MolecularOpGraphNodes.generate_graph`, every `L ≥ 1`: the `OpGraph` constructor accepts the node list** (no
"node already exists", both terminal ids present). -/
theorem molNodes_graph_init (L : Int) (hL : 1 ≤ L) :
    ∃ t0 t1, dGet (MolNodes.init L).identityL 0 = .ok t0 ∧ dGet (MolNodes.init L).identityR L = .ok t1 ∧
      Graph.mk' (MolNodes.init L).nodeList ([] : List (Edge κ)) [t0.nid, t1.nid]
        = .ok ⟨(MolNodes.init L).nodeList.map fun n => (n.nid, n), [], (t0.nid, t1.nid)⟩ := by
  obtain ⟨h0, h1⟩ := identity_lookup L hL
  refine ⟨_, _, h0, h1, graph_mk'_ok _ _ _ (molNodes_ids_nodup L) ?_ ?_⟩
  · simp only [MolNodes.nodeList, MolNodes.init, List.mem_append, List.mem_map, mem_pyRange]
    exact Or.inl (Or.inl (Or.inl (Or.inl (Or.inl (Or.inl (Or.inl (Or.inl (Or.inl (Or.inl (Or.inl
      ⟨(0, ⟨0, [], [], 0⟩), ⟨0, ⟨Int.le_refl _, by omega⟩, rfl⟩, rfl⟩))))))))))
  · simp only [MolNodes.nodeList, MolNodes.init, List.mem_append, List.mem_map, mem_pyRange]
    exact Or.inl (Or.inl (Or.inl (Or.inl (Or.inl (Or.inl (Or.inl (Or.inl (Or.inl (Or.inl (Or.inr
      ⟨(L, ⟨L + L - 1, [], [], 0⟩), ⟨L, ⟨hL, by omega⟩, rfl⟩, rfl⟩))))))))))

/-- **`SpinMolecularOpGraphNodes.generate_graph`, every `L ≥ 1`** -/
theorem spinNodes_graph_init (L : Int) (hL : 1 ≤ L) :
    ∃ t0 t1, dGet (SpinNodes.init L).identityL 0 = .ok t0 ∧ dGet (SpinNodes.init L).identityR L = .ok t1 ∧
      Graph.mk' (SpinNodes.init L).nodeList ([] : List (Edge κ)) [t0.nid, t1.nid]
        = .ok ⟨(SpinNodes.init L).nodeList.map fun n => (n.nid, n), [], (t0.nid, t1.nid)⟩ := by
  obtain ⟨h0, h1⟩ := identity_lookup L hL
  refine ⟨_, _, h0, h1, graph_mk'_ok _ _ _ (spinNodes_ids_nodup L) ?_ ?_⟩
  · simp only [SpinNodes.nodeList, SpinNodes.init, List.mem_append, List.mem_map, mem_pyRange]
    exact Or.inl (Or.inl (Or.inl (Or.inl (Or.inl (Or.inl (Or.inl (Or.inl (Or.inl (Or.inl (Or.inl
      ⟨(0, ⟨0, [], [], 0⟩), ⟨0, ⟨Int.le_refl _, by omega⟩, rfl⟩, rfl⟩))))))))))
  · simp only [SpinNodes.nodeList, SpinNodes.init, List.mem_append, List.mem_map, mem_pyRange]
    exact Or.inl (Or.inl (Or.inl (Or.inl (Or.inl (Or.inl (Or.inl (Or.inl (Or.inl (Or.inl (Or.inr
      ⟨(L, ⟨L + L - 1, [], [], 0⟩), ⟨L, ⟨hL, by omega⟩, rfl⟩, rfl⟩))))))))))

end
end Ptn.Ham

import Mathlib.Data.List.Perm.Basic
import Mathlib.Data.List.Count
import PtnModel.Proofs.HamChains
import PtnModel.Model.HamiltonianSpinGraph
/-!
# Node ids of the explicit molecular graphs are pairwise distinct, for every `L`

`mkFam` hands out consecutive ids; chained families (`mkFams`) therefore cover an integer interval; the identity chains take
`0 .. 2L-1`.  The node list of `generate_graph` is a rearrangement of the creation order, hence duplicate free: the
`OpGraph` constructor never raises "node already exists", for every number of orbitals.
-/
set_option linter.unusedSectionVars false

namespace Ptn.Ham
open Ptn.Og List

/-- node ids of a family in dictionary order -/
def famIds (f : Fam) : List Int := f.nodes.map (·.nid)

theorem pyRange_append (a b c : Int) (h1 : a ≤ b) (h2 : b ≤ c) : pyRange a b ++ pyRange b c = pyRange a c := by
  unfold pyRange
  have e : (c - a).toNat = (b - a).toNat + (c - b).toNat := by omega
  rw [e, List.range_add, List.map_append, List.map_map]
  congr 1
  apply List.map_congr_left
  intro k _
  simp only [Function.comp]
  omega

theorem famIds_append (f g : Fam) : famIds (f ++ g) = famIds f ++ famIds g := by
  simp [famIds, Fam.nodes]

/-- ids of one dictionary entry created by `mkFam` -/
theorem inner_ids (keys : List Int) (n : Int) (q : Int) :
    ((keys.zipIdx.map fun (k, idx) => (k, (⟨n + (idx : Int), [], [], q⟩ : Node))).map fun e => e.2.nid)
      = pyRange n (n + keys.length) := by
  have h : (keys.zipIdx.map fun (k, idx) => (k, (⟨n + (idx : Int), [], [], q⟩ : Node))).map (fun e => e.2.nid)
      = (keys.zipIdx.map Prod.snd).map fun (idx : Nat) => n + (idx : Int) := by
    simp [List.map_map, Function.comp_def]
  rw [h, List.zipIdx_map_snd]
  unfold pyRange
  have e : (n + (keys.length : Int) - n).toNat = keys.length := by omega
  rw [e, List.range_eq_range']

theorem mkFam_fold_ids (spec : List (List Int × List Int × Int)) :
    ∀ acc : Fam × Int,
      let r := spec.foldl (fun (acc : Fam × Int) (s : List Int × List Int × Int) =>
        let inner := s.2.1.zipIdx.map fun (k, idx) => (k, (⟨acc.2 + (idx : Int), [], [], s.2.2⟩ : Node))
        (acc.1 ++ [(s.1, inner)], acc.2 + (s.2.1.length : Int))) acc
      famIds r.1 = famIds acc.1 ++ pyRange acc.2 r.2 ∧ acc.2 ≤ r.2 := by
  induction spec with
  | nil =>
    intro acc
    simp [pyRange]
  | cons s rest ih =>
    intro acc
    simp only [List.foldl_cons]
    obtain ⟨h1, h2⟩ := ih (acc.1 ++ [(s.1, s.2.1.zipIdx.map fun (k, idx) => (k, (⟨acc.2 + (idx : Int), [], [], s.2.2⟩ : Node)))],
      acc.2 + (s.2.1.length : Int))
    simp only at h1 h2
    refine ⟨?_, by omega⟩
    rw [h1, famIds_append]
    have : famIds [(s.1, s.2.1.zipIdx.map fun (k, idx) => (k, (⟨acc.2 + (idx : Int), [], [], s.2.2⟩ : Node)))]
        = pyRange acc.2 (acc.2 + s.2.1.length) := by
      simp only [famIds, Fam.nodes, List.flatMap_cons, List.flatMap_nil, List.append_nil, List.map_map]
      exact inner_ids s.2.1 acc.2 s.2.2
    rw [this, List.append_assoc, pyRange_append _ _ _ (by omega) h2]

/-- `mkFam` hands out the consecutive ids `n0, n0+1, ...` -/
theorem mkFam_ids (spec : List (List Int × List Int × Int)) (n0 : Int) :
    famIds (mkFam spec n0).1 = pyRange n0 (mkFam spec n0).2 ∧ n0 ≤ (mkFam spec n0).2 := by
  have := mkFam_fold_ids spec ([], n0)
  simpa [mkFam, famIds, Fam.nodes] using this

/-- chained families cover an interval -/
theorem mkFams_ids : ∀ (specs : List (List (List Int × List Int × Int))) (n0 : Int),
    (mkFams specs n0).1.flatMap famIds = pyRange n0 (mkFams specs n0).2 ∧ n0 ≤ (mkFams specs n0).2 := by
  intro specs
  induction specs with
  | nil => intro n0; simp [mkFams, pyRange]
  | cons s rest ih =>
    intro n0
    obtain ⟨h1, h2⟩ := mkFam_ids s n0
    obtain ⟨h3, h4⟩ := ih (mkFam s n0).2
    simp only [mkFams, List.flatMap_cons]
    refine ⟨?_, by omega⟩
    rw [h1, h3, pyRange_append _ _ _ h2 h4]

theorem mkFams_length : ∀ (specs : List (List (List Int × List Int × Int))) (n0 : Int),
    (mkFams specs n0).1.length = specs.length := by
  intro specs
  induction specs with
  | nil => intro n0; rfl
  | cons s rest ih => intro n0; simp [mkFams, ih]

/-- a list of ten families, spelled out -/
theorem ten_getD (fs : List Fam) (h : fs.length = 10) :
    fs = [fs.getD 0 [], fs.getD 1 [], fs.getD 2 [], fs.getD 3 [], fs.getD 4 [], fs.getD 5 [], fs.getD 6 [], fs.getD 7 [],
      fs.getD 8 [], fs.getD 9 []] := by
  match fs, h with
  | [a0, a1, a2, a3, a4, a5, a6, a7, a8, a9], _ => rfl

theorem identity_ids (L : Int) :
    (((pyRange 0 L).map fun i => (i, (⟨i, [], [], 0⟩ : Node))).map fun e => e.2.nid) ++
    (((pyRange 1 (L + 1)).map fun i => (i, (⟨L + i - 1, [], [], 0⟩ : Node))).map fun e => e.2.nid)
      = pyRange 0 ((((pyRange 0 L).length + (pyRange 1 (L + 1)).length : Nat) : Int)) := by
  simp only [List.map_map, Function.comp_def, List.map_id']
  by_cases hL : 0 ≤ L
  · have e1 : ((pyRange 1 (L + 1)).map fun i => L + i - 1) = pyRange L (2 * L) := by
      unfold pyRange
      have : (L + 1 - 1).toNat = (2 * L - L).toNat := by omega
      rw [this, List.map_map]
      apply List.map_congr_left
      intro k _
      simp only [Function.comp]
      omega
    have e2 : (((pyRange 0 L).length + (pyRange 1 (L + 1)).length : Nat) : Int) = 2 * L := by
      simp only [pyRange_length]; omega
    rw [e1, e2, pyRange_append _ _ _ hL (by omega)]
  · have z1 : pyRange 0 L = [] := by unfold pyRange; have : (L - 0).toNat = 0 := by omega
                                      rw [this]; rfl
    have z2 : pyRange 1 (L + 1) = [] := by unfold pyRange; have : (L + 1 - 1).toNat = 0 := by omega
                                           rw [this]; rfl
    simp [z1, z2, pyRange]

/-- ids of the node list of `generate_graph` -/
def nodeListIds (idL idR : List (Int × Node)) (f0 f1 f2 f3 f4 f5 f6 f7 f8 f9 : Fam) : List Int :=
  (idL.map fun e => e.2.nid) ++ (idR.map fun e => e.2.nid) ++ famIds f0 ++ famIds f1 ++ famIds f5 ++ famIds f6 ++
    famIds f2 ++ famIds f3 ++ famIds f4 ++ famIds f7 ++ famIds f8 ++ famIds f9

/-- the graph's node order is a rearrangement of the creation order -/
theorem nodeList_perm (a b : List Int) (F0 F1 F2 F3 F4 F5 F6 F7 F8 F9 : List Int) :
    (a ++ b ++ F0 ++ F1 ++ F5 ++ F6 ++ F2 ++ F3 ++ F4 ++ F7 ++ F8 ++ F9).Perm
      (a ++ b ++ (F0 ++ (F1 ++ (F2 ++ (F3 ++ (F4 ++ (F5 ++ (F6 ++ (F7 ++ (F8 ++ (F9 ++ []))))))))))) := by
  rw [List.perm_iff_count]
  intro x
  simp only [List.count_append, List.count_nil]
  omega

/-- **`MolecularOpGraphNodes`: for every `L` the node ids of the graph's node list are a rearrangement of `0, 1, ..., N-1`**;
in particular they are pairwise distinct. -/
theorem molNodes_ids (L : Int) :
    ∃ N : Int, ((MolNodes.init L).nodeList.map (·.nid)).Perm (pyRange 0 N) := by
  set n0 : Int := (((pyRange 0 L).length + (pyRange 1 (L + 1)).length : Nat) : Int) with hn0
  have hlen := mkFams_length (molSpecs L) n0
  have h10 : (molSpecs L).length = 10 := rfl
  obtain ⟨hids, hle⟩ := mkFams_ids (molSpecs L) n0
  have hfs := ten_getD (mkFams (molSpecs L) n0).1 (by rw [hlen, h10])
  refine ⟨(mkFams (molSpecs L) n0).2, ?_⟩
  have hcr : pyRange 0 (mkFams (molSpecs L) n0).2 =
      (((pyRange 0 L).map fun i => (i, (⟨i, [], [], 0⟩ : Node))).map fun e => e.2.nid) ++
      (((pyRange 1 (L + 1)).map fun i => (i, (⟨L + i - 1, [], [], 0⟩ : Node))).map fun e => e.2.nid) ++
      (mkFams (molSpecs L) n0).1.flatMap famIds := by
    rw [identity_ids, hids, pyRange_append _ _ _ (by omega) hle]
  rw [hcr]
  conv_rhs => rw [hfs]
  simp only [List.flatMap_cons, List.flatMap_nil]
  have hnl : (MolNodes.init L).nodeList.map (·.nid) =
      (((pyRange 0 L).map fun i => (i, (⟨i, [], [], 0⟩ : Node))).map fun e => e.2.nid) ++
      (((pyRange 1 (L + 1)).map fun i => (i, (⟨L + i - 1, [], [], 0⟩ : Node))).map fun e => e.2.nid) ++
      famIds ((mkFams (molSpecs L) n0).1.getD 0 []) ++ famIds ((mkFams (molSpecs L) n0).1.getD 1 []) ++
      famIds ((mkFams (molSpecs L) n0).1.getD 5 []) ++ famIds ((mkFams (molSpecs L) n0).1.getD 6 []) ++
      famIds ((mkFams (molSpecs L) n0).1.getD 2 []) ++ famIds ((mkFams (molSpecs L) n0).1.getD 3 []) ++
      famIds ((mkFams (molSpecs L) n0).1.getD 4 []) ++ famIds ((mkFams (molSpecs L) n0).1.getD 7 []) ++
      famIds ((mkFams (molSpecs L) n0).1.getD 8 []) ++ famIds ((mkFams (molSpecs L) n0).1.getD 9 []) := by
    simp [MolNodes.nodeList, MolNodes.init, famIds, hn0]
  rw [hnl]
  exact nodeList_perm _ _ _ _ _ _ _ _ _ _ _ _

theorem molNodes_ids_nodup (L : Int) : ((MolNodes.init L).nodeList.map (·.nid)).Nodup := by
  obtain ⟨N, hp⟩ := molNodes_ids L
  exact hp.nodup_iff.2 (pyRange_nodup 0 N)

/-- **`SpinMolecularOpGraphNodes`**: the same for the spin-orbital node tables. -/
theorem spinNodes_ids (L : Int) :
    ∃ N : Int, ((SpinNodes.init L).nodeList.map (·.nid)).Perm (pyRange 0 N) := by
  set n0 : Int := (((pyRange 0 L).length + (pyRange 1 (L + 1)).length : Nat) : Int) with hn0
  have hlen := mkFams_length (spinSpecs L) n0
  have h10 : (spinSpecs L).length = 10 := rfl
  obtain ⟨hids, hle⟩ := mkFams_ids (spinSpecs L) n0
  have hfs := ten_getD (mkFams (spinSpecs L) n0).1 (by rw [hlen, h10])
  refine ⟨(mkFams (spinSpecs L) n0).2, ?_⟩
  have hcr : pyRange 0 (mkFams (spinSpecs L) n0).2 =
      (((pyRange 0 L).map fun i => (i, (⟨i, [], [], 0⟩ : Node))).map fun e => e.2.nid) ++
      (((pyRange 1 (L + 1)).map fun i => (i, (⟨L + i - 1, [], [], 0⟩ : Node))).map fun e => e.2.nid) ++
      (mkFams (spinSpecs L) n0).1.flatMap famIds := by
    rw [identity_ids, hids, pyRange_append _ _ _ (by omega) hle]
  rw [hcr]
  conv_rhs => rw [hfs]
  simp only [List.flatMap_cons, List.flatMap_nil]
  have hnl : (SpinNodes.init L).nodeList.map (·.nid) =
      (((pyRange 0 L).map fun i => (i, (⟨i, [], [], 0⟩ : Node))).map fun e => e.2.nid) ++
      (((pyRange 1 (L + 1)).map fun i => (i, (⟨L + i - 1, [], [], 0⟩ : Node))).map fun e => e.2.nid) ++
      famIds ((mkFams (spinSpecs L) n0).1.getD 0 []) ++ famIds ((mkFams (spinSpecs L) n0).1.getD 1 []) ++
      famIds ((mkFams (spinSpecs L) n0).1.getD 5 []) ++ famIds ((mkFams (spinSpecs L) n0).1.getD 6 []) ++
      famIds ((mkFams (spinSpecs L) n0).1.getD 2 []) ++ famIds ((mkFams (spinSpecs L) n0).1.getD 3 []) ++
      famIds ((mkFams (spinSpecs L) n0).1.getD 4 []) ++ famIds ((mkFams (spinSpecs L) n0).1.getD 7 []) ++
      famIds ((mkFams (spinSpecs L) n0).1.getD 8 []) ++ famIds ((mkFams (spinSpecs L) n0).1.getD 9 []) := by
    simp [SpinNodes.nodeList, SpinNodes.init, famIds, hn0]
  rw [hnl]
  exact nodeList_perm _ _ _ _ _ _ _ _ _ _ _ _

theorem spinNodes_ids_nodup (L : Int) : ((SpinNodes.init L).nodeList.map (·.nid)).Nodup := by
  obtain ⟨N, hp⟩ := spinNodes_ids L
  exact hp.nodup_iff.2 (pyRange_nodup 0 N)

end Ptn.Ham

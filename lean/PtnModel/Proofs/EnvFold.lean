import PtnModel.Proofs.EnvStep
import PtnModel.Proofs.EnvChain
import PtnModel.Proofs.EnvAlg
/-!
# Invariants of the right-to-left folds (`vdot`, `operator_inner_product`, `operator_average`,
`operator_density_average`, `compute_right_operator_blocks`)
-/
set_option linter.unusedSectionVars false
set_option linter.unusedVariables false
namespace Ptn.Env
open Finset
variable {R : Type} [CommRing R] [StarRing R]
attribute [local instance] starConj

theorem except_ok_bind {ε α β : Type} (a : α) (f : α → Except ε β) : (Except.ok a >>= f) = f a := rfl

/-- right-to-left fold of `contraction_step_right` over the suffix lists `As` (ket), `Bs` (bra). -/
theorem vdot_fold {ds : List Nat} {As Bs : List (T3 R)} {Dl Dl' : Nat}
    (hA : Chain3 ds As Dl 1) (hB : Chain3 ds Bs Dl' 1) :
    ∃ T, (List.zip As Bs).foldrM (fun (p : T3 R × T3 R) T => Op.stepRight p.1 p.2 T) (Op.identMat 1) = .ok T
      ∧ T.m = Dl ∧ T.n = Dl' ∧ ∀ a a', a < Dl → a' < Dl' →
        T.f a a' = ∑ σ ∈ digits ds, pmat As σ a 0 * star (pmat Bs σ a' 0) := by
  induction ds generalizing As Bs Dl Dl' with
  | nil =>
    cases As with
    | cons _ _ => simp at hA
    | nil =>
      cases Bs with
      | cons _ _ => simp at hB
      | nil =>
        simp only [chain3_nil] at hA hB
        subst hA hB
        refine ⟨Op.identMat 1, rfl, rfl, rfl, ?_⟩
        intro a a' ha ha'
        have : a = 0 := by omega
        have : a' = 0 := by omega
        subst_vars
        simp [Op.identMat]
  | cons d ds ih =>
    cases As with
    | nil => simp at hA
    | cons A As =>
      cases Bs with
      | nil => simp at hB
      | cons B Bs =>
        simp only [chain3_cons] at hA hB
        obtain ⟨T, hT, hm, hn, hf⟩ := ih hA.2.2 hB.2.2
        obtain ⟨T', hT', hm', hn', hf'⟩ := stepRight_ok A B T hm.symm (hA.1.trans hB.1.symm) hn
        refine ⟨T', ?_, hm'.trans hA.2.1, hn'.trans hB.2.1, ?_⟩
        · rw [List.zip_cons_cons, List.foldrM_cons, hT, except_ok_bind]
          exact hT'
        · intro a a' ha ha'
          rw [hf' a a' (hA.2.1 ▸ ha) (hB.2.1 ▸ ha'), sum_digits_cons, hA.1]
          have : ∀ s ∈ range d, ∀ r ∈ range B.d2,
              (∑ b ∈ range A.d2, A.f s a b * T.f b r) * star (B.f s a' r)
              = (∑ b ∈ range A.d2, A.f s a b * ∑ σ ∈ digits ds, pmat As σ b 0 * star (pmat Bs σ r 0))
                * star (B.f s a' r) := by
            intro s _ r hr
            congr 1
            refine Finset.sum_congr rfl fun b hb => ?_
            rw [hf b r (by simpa using hb) (by simpa using hr)]
          rw [Finset.sum_congr rfl fun s hs => Finset.sum_congr rfl fun r hr => this s hs r hr]
          exact alg_stepRight (digits ds) (range d) (range A.d2) (range B.d2) (fun s b => A.f s a b)
            (fun s r => B.f s a' r) (fun σ b => pmat As σ b 0) (fun σ r => pmat Bs σ r 0)

theorem pyAssert_true {c : Bool} (h : c = true) : pyAssert c = .ok () := by simp [pyAssert, h]

/-- `vdot(chi, psi)` on chains with arbitrary site dimensions `ds`. -/
theorem vdot_chain {ds : List Nat} {χ ψ : MPS R} (hχ : Chain3 ds χ.A 1 1) (hψ : Chain3 ds ψ.A 1 1)
    (hne : ds ≠ []) :
    Op.vdot χ ψ = .ok (∑ σ ∈ digits ds, star (χ.amp σ) * ψ.amp σ) := by
  have hlen : ψ.A.length = χ.A.length := (chain3_length hψ).trans (chain3_length hχ).symm
  have hne' : ψ.A ≠ [] := by
    intro h; apply hne; have := chain3_length hψ; rw [h] at this; exact (List.length_eq_zero_iff.1 this.symm)
  obtain ⟨Al, hAl, hd2⟩ := chain3_getLast hψ hne'
  obtain ⟨T, hT, hm, hn, hf⟩ := vdot_fold hψ hχ
  unfold Op.vdot
  rw [pyAssert_true (by simp [hlen]), except_ok_bind, hAl]
  simp only [hd2]
  rw [hT, except_ok_bind, pyAssert_true (by simp [hm, hn]), except_ok_bind, hf 0 0 Nat.one_pos Nat.one_pos]
  congr 1
  refine Finset.sum_congr rfl fun σ hσ => ?_
  rw [amp_eq_pmat hχ hσ, amp_eq_pmat hψ hσ, mul_comm]

/-! ## operator environments from the right -/

/-- `E` is the contraction of the sites `As` (ket), `Ws` (operator), `Bs` (bra) with the trivial right boundary:
`E[a,w,a'] = Σ_{σ,τ} (∏ As[τ])[a,0] (∏ Ws[σ,τ])[w,0] conj((∏ Bs[σ])[a',0])`. -/
def IsRightEnv (ds : List Nat) (As Bs : List (T3 R)) (Ws : List (T4 R)) (Dl Dw Dl' : Nat) (E : T3 R) : Prop :=
  E.d0 = Dl ∧ E.d1 = Dw ∧ E.d2 = Dl' ∧ ∀ a w a', a < Dl → w < Dw → a' < Dl' →
    E.f a w a' = ∑ σ ∈ digits ds, ∑ τ ∈ digits ds, pmat As τ a 0 * pmatO Ws σ τ w 0 * star (pmat Bs σ a' 0)

theorem isRightEnv_nil {E : T3 R} (h0 : E.d0 = 1) (h1 : E.d1 = 1) (h2 : E.d2 = 1) (hf : E.f 0 0 0 = 1) :
    IsRightEnv [] [] [] [] 1 1 1 E := by
  refine ⟨h0, h1, h2, ?_⟩
  intro a w a' ha hw ha'
  have : a = 0 := by omega
  have : w = 0 := by omega
  have : a' = 0 := by omega
  subst_vars
  simp [hf]

theorem isRightEnv_step {d : Nat} {ds : List Nat} {As Bs : List (T3 R)} {Ws : List (T4 R)} {A B : T3 R} {W : T4 R}
    {E : T3 R} (hA : A.d0 = d) (hB : B.d0 = d) (hW0 : W.d0 = d) (hW1 : W.d1 = d)
    (hE : IsRightEnv ds As Bs Ws A.d2 W.d3 B.d2 E) :
    ∃ T, Op.opStepRight A B W E = .ok T ∧
      IsRightEnv (d :: ds) (A :: As) (B :: Bs) (W :: Ws) A.d1 W.d2 B.d1 T := by
  obtain ⟨e0, e1, e2, hf⟩ := hE
  obtain ⟨T, hT, t0, t1, t2, hTf⟩ := opStepRight_ok A B W E e0.symm (hW1.trans hA.symm) e1.symm
    (hW0.trans hB.symm) e2
  refine ⟨T, hT, t0, t1, t2, ?_⟩
  intro a w a' ha hw ha'
  rw [hTf a w a' ha hw ha', sum_digits_cons]
  simp only [sum_digits_cons, pmat_cons, pmatO_cons]
  have : ∀ s' ∈ range W.d0, ∀ b' ∈ range B.d2,
      (∑ s ∈ range W.d1, ∑ w' ∈ range W.d3, W.f s' s w w' * ∑ b ∈ range A.d2, A.f s a b * E.f b w' b')
        * star (B.f s' a' b')
      = (∑ s ∈ range W.d1, ∑ w' ∈ range W.d3, W.f s' s w w' * ∑ b ∈ range A.d2, A.f s a b *
          ∑ σ ∈ digits ds, ∑ τ ∈ digits ds, pmat As τ b 0 * pmatO Ws σ τ w' 0 * star (pmat Bs σ b' 0))
        * star (B.f s' a' b') := by
    intro s' _ b' hb'
    congr 1
    refine Finset.sum_congr rfl fun s _ => Finset.sum_congr rfl fun w' hw' => ?_
    congr 1
    refine Finset.sum_congr rfl fun b hb => ?_
    rw [hf b w' b' (by simpa using hb) (by simpa using hw') (by simpa using hb')]
  rw [Finset.sum_congr rfl fun s' hs' => Finset.sum_congr rfl fun b' hb' => this s' hs' b' hb']
  rw [hW0, hW1]
  exact alg_opStepRight (digits ds) (digits ds) (range d) (range d) (range A.d2) (range B.d2) (range W.d3)
    (fun s b => A.f s a b) (fun s' b' => B.f s' a' b') (fun s' s w' => W.f s' s w w')
    (fun τ b => pmat As τ b 0) (fun σ τ w' => pmatO Ws σ τ w' 0) (fun σ b' => pmat Bs σ b' 0)

/-- the right-to-left fold of `contraction_operator_step_right` over three lists -/
def opFold (E0 : T3 R) : List (T3 R) → List (T3 R) → List (T4 R) → Except Err (T3 R)
  | A :: As, B :: Bs, W :: Ws => opFold E0 As Bs Ws >>= Op.opStepRight A B W
  | _, _, _ => .ok E0

theorem opFold_spec {ds : List Nat} {As Bs : List (T3 R)} {Ws : List (T4 R)} {Dl Dw Dl' : Nat}
    (hA : Chain3 ds As Dl 1) (hB : Chain3 ds Bs Dl' 1) (hW : Chain4 ds Ws Dw 1)
    {E0 : T3 R} (h0 : E0.d0 = 1) (h1 : E0.d1 = 1) (h2 : E0.d2 = 1) (hf : E0.f 0 0 0 = 1) :
    ∃ T, opFold E0 As Bs Ws = .ok T ∧ IsRightEnv ds As Bs Ws Dl Dw Dl' T := by
  induction ds generalizing As Bs Ws Dl Dw Dl' with
  | nil =>
    cases As with
    | cons _ _ => simp at hA
    | nil =>
      cases Bs with
      | cons _ _ => simp at hB
      | nil =>
        cases Ws with
        | cons _ _ => simp at hW
        | nil =>
          simp only [chain3_nil, chain4_nil] at hA hB hW
          subst hA hB hW
          exact ⟨E0, rfl, isRightEnv_nil h0 h1 h2 hf⟩
  | cons d ds ih =>
    cases As with
    | nil => simp at hA
    | cons A As =>
      cases Bs with
      | nil => simp at hB
      | cons B Bs =>
        cases Ws with
        | nil => simp at hW
        | cons W Ws =>
          simp only [chain3_cons, chain4_cons] at hA hB hW
          obtain ⟨T, hT, hE⟩ := ih hA.2.2 hB.2.2 hW.2.2.2
          obtain ⟨T', hT', hE'⟩ := isRightEnv_step hA.1 hB.1 hW.1 hW.2.1 hE
          refine ⟨T', ?_, ?_⟩
          · rw [opFold, hT, except_ok_bind]; exact hT'
          · rw [← hA.2.1, ← hB.2.1, ← hW.2.2.1]; exact hE'

theorem foldrM_inner_eq_opFold (E0 : T3 R) (As Bs : List (T3 R)) (Ws : List (T4 R)) :
    (List.zip (List.zip As Bs) Ws).foldrM
      (fun (p : (T3 R × T3 R) × T4 R) T => Op.opStepRight p.1.1 p.1.2 p.2 T) E0 = opFold E0 As Bs Ws := by
  induction As generalizing Bs Ws with
  | nil => simp [opFold]; rfl
  | cons A As ih =>
    cases Bs with
    | nil => simp [opFold]; rfl
    | cons B Bs =>
      cases Ws with
      | nil => simp [opFold]; rfl
      | cons W Ws =>
        rw [List.zip_cons_cons, List.zip_cons_cons, List.foldrM_cons, ih, opFold]

theorem foldrM_average_eq_opFold (E0 : T3 R) (As : List (T3 R)) (Ws : List (T4 R)) :
    (List.zip As Ws).foldrM
      (fun (p : T3 R × T4 R) T => Op.opStepRight p.1 p.1 p.2 T) E0 = opFold E0 As As Ws := by
  induction As generalizing Ws with
  | nil => simp [opFold]; rfl
  | cons A As ih =>
    cases Ws with
    | nil => simp [opFold]; rfl
    | cons W Ws =>
      rw [List.zip_cons_cons, List.foldrM_cons, ih, opFold]

theorem ne_nil_of_chain3 {α : Type} {ds : List Nat} {As : List (T3 α)} {Dl Dr : Nat} (h : Chain3 ds As Dl Dr)
    (hne : ds ≠ []) : As ≠ [] := by
  intro h'; apply hne; have := chain3_length h; rw [h'] at this; exact List.length_eq_zero_iff.1 this.symm

theorem identBlock_props : (Op.identBlock 1 : T3 R).d0 = 1 ∧ (Op.identBlock 1 : T3 R).d1 = 1 ∧
    (Op.identBlock 1 : T3 R).d2 = 1 ∧ (Op.identBlock 1 : T3 R).f 0 0 0 = 1 := ⟨rfl, rfl, rfl, by simp [Op.identBlock]⟩

/-- `operator_inner_product(chi, op, psi)` on chains with site dimensions `ds`. -/
theorem inner_chain {ds : List Nat} {χ ψ : MPS R} {o : MPO R} (hχ : Chain3 ds χ.A 1 1) (hψ : Chain3 ds ψ.A 1 1)
    (ho : Chain4 ds o.A 1 1) (hne : ds ≠ []) :
    Op.operatorInnerProduct χ o ψ
      = .ok (∑ σ ∈ digits ds, ∑ τ ∈ digits ds, star (χ.amp σ) * o.elem σ τ * ψ.amp τ) := by
  have hl1 : χ.A.length = o.A.length := (chain3_length hχ).trans (chain4_length ho).symm
  have hl2 : ψ.A.length = o.A.length := (chain3_length hψ).trans (chain4_length ho).symm
  obtain ⟨Al, hAl, hd2⟩ := chain3_getLast hψ (ne_nil_of_chain3 hψ hne)
  obtain ⟨Cl, hCl, hc2⟩ := chain3_getLast hχ (ne_nil_of_chain3 hχ hne)
  obtain ⟨i0, i1, i2, i3⟩ := identBlock_props (R := R)
  obtain ⟨T, hT, t0, t1, t2, hf⟩ := opFold_spec hψ hχ ho i0 i1 i2 i3
  unfold Op.operatorInnerProduct
  rw [pyAssert_true (by simp [hl1]), except_ok_bind, pyAssert_true (by simp [hl2]), except_ok_bind, hAl, hCl]
  simp only [hd2, hc2]
  rw [pyAssert_true (by simp), except_ok_bind, foldrM_inner_eq_opFold, hT, except_ok_bind,
    pyAssert_true (by simp [t0, t1, t2]), except_ok_bind,
    hf 0 0 0 Nat.one_pos Nat.one_pos Nat.one_pos]
  congr 1
  refine Finset.sum_congr rfl fun σ hσ => Finset.sum_congr rfl fun τ hτ => ?_
  rw [amp_eq_pmat hχ hσ, amp_eq_pmat hψ hτ, elem_eq_pmatO ho hσ hτ]
  ring

/-- `operator_average(psi, op)` on chains with site dimensions `ds`. -/
theorem average_chain {ds : List Nat} {ψ : MPS R} {o : MPO R} (hψ : Chain3 ds ψ.A 1 1)
    (ho : Chain4 ds o.A 1 1) (hne : ds ≠ []) :
    Op.operatorAverage ψ o
      = .ok (∑ σ ∈ digits ds, ∑ τ ∈ digits ds, star (ψ.amp σ) * o.elem σ τ * ψ.amp τ) := by
  have hl2 : ψ.A.length = o.A.length := (chain3_length hψ).trans (chain4_length ho).symm
  obtain ⟨Al, hAl, hd2⟩ := chain3_getLast hψ (ne_nil_of_chain3 hψ hne)
  obtain ⟨i0, i1, i2, i3⟩ := identBlock_props (R := R)
  obtain ⟨T, hT, t0, t1, t2, hf⟩ := opFold_spec hψ hψ ho i0 i1 i2 i3
  unfold Op.operatorAverage
  rw [pyAssert_true (by simp [hl2]), except_ok_bind, hAl]
  simp only [hd2]
  rw [foldrM_average_eq_opFold, hT, except_ok_bind,
    pyAssert_true (by simp [t0, t1, t2]), except_ok_bind,
    hf 0 0 0 Nat.one_pos Nat.one_pos Nat.one_pos]
  congr 1
  refine Finset.sum_congr rfl fun σ hσ => Finset.sum_congr rfl fun τ hτ => ?_
  rw [amp_eq_pmat hψ hσ, amp_eq_pmat hψ hτ, elem_eq_pmatO ho hσ hτ]
  ring

/-! ## trace of a product of two MPOs -/

theorem density_fold {ds : List Nat} {As Ws : List (T4 R)} {Dl Dw : Nat}
    (hA : Chain4 ds As Dl 1) (hW : Chain4 ds Ws Dw 1) :
    ∃ T, (List.zip As Ws).foldrM (fun (p : T4 R × T4 R) T => Op.densityStepRight p.1 p.2 T) (Op.identMat 1)
        = .ok T ∧ T.m = Dl ∧ T.n = Dw ∧ ∀ a w, a < Dl → w < Dw →
        T.f a w = ∑ σ ∈ digits ds, ∑ τ ∈ digits ds, pmatO As σ τ a 0 * pmatO Ws τ σ w 0 := by
  induction ds generalizing As Ws Dl Dw with
  | nil =>
    cases As with
    | cons _ _ => simp at hA
    | nil =>
      cases Ws with
      | cons _ _ => simp at hW
      | nil =>
        simp only [chain4_nil] at hA hW
        subst hA hW
        refine ⟨Op.identMat 1, rfl, rfl, rfl, ?_⟩
        intro a a' ha ha'
        have : a = 0 := by omega
        have : a' = 0 := by omega
        subst_vars
        simp [Op.identMat]
  | cons d ds ih =>
    cases As with
    | nil => simp at hA
    | cons A As =>
      cases Ws with
      | nil => simp at hW
      | cons W Ws =>
        simp only [chain4_cons] at hA hW
        obtain ⟨T, hT, hm, hn, hf⟩ := ih hA.2.2.2 hW.2.2.2
        obtain ⟨T', hT', hm', hn', hf'⟩ := densityStepRight_ok A W T hm.symm (hA.2.1.trans hW.1.symm)
          (hA.1.trans hW.2.1.symm) hn
        refine ⟨T', ?_, hm'.trans hA.2.2.1, hn'.trans hW.2.2.1, ?_⟩
        · rw [List.zip_cons_cons, List.foldrM_cons, hT, except_ok_bind]
          exact hT'
        · intro a w ha hw
          rw [hf' a w (hA.2.2.1 ▸ ha) (hW.2.2.1 ▸ hw), sum_digits_cons]
          simp only [sum_digits_cons, pmatO_cons]
          have : ∀ t ∈ range A.d1, ∀ s ∈ range A.d0, ∀ r ∈ range W.d3,
              (∑ b ∈ range A.d3, A.f s t a b * T.f b r) * W.f t s w r
              = (∑ b ∈ range A.d3, A.f s t a b *
                  ∑ σ ∈ digits ds, ∑ τ ∈ digits ds, pmatO As σ τ b 0 * pmatO Ws τ σ r 0) * W.f t s w r := by
            intro t _ s _ r hr
            congr 1
            refine Finset.sum_congr rfl fun b hb => ?_
            rw [hf b r (by simpa using hb) (by simpa using hr)]
          rw [Finset.sum_congr rfl fun t ht => Finset.sum_congr rfl fun s hs =>
            Finset.sum_congr rfl fun r hr => this t ht s hs r hr]
          rw [hA.1, hA.2.1]
          exact alg_densityStepRight (digits ds) (digits ds) (range d) (range d) (range A.d3) (range W.d3)
            (fun s t b => A.f s t a b) (fun t s r => W.f t s w r)
            (fun σ τ b => pmatO As σ τ b 0) (fun σ τ r => pmatO Ws τ σ r 0)

/-- `operator_density_average(rho, op)` on chains with site dimensions `ds`: `tr(op · rho)`. -/
theorem density_chain {ds : List Nat} {rho o : MPO R} (hr : Chain4 ds rho.A 1 1) (ho : Chain4 ds o.A 1 1)
    (hne : ds ≠ []) :
    Op.operatorDensityAverage rho o
      = .ok (∑ σ ∈ digits ds, ∑ τ ∈ digits ds, o.elem τ σ * rho.elem σ τ) := by
  have hl : rho.A.length = o.A.length := (chain4_length hr).trans (chain4_length ho).symm
  have hne' : rho.A.isEmpty = false := by
    cases h : rho.A with
    | nil => rw [h] at hr; cases ds <;> simp_all
    | cons _ _ => rfl
  obtain ⟨T, hT, hm, hn, hf⟩ := density_fold hr ho
  unfold Op.operatorDensityAverage
  rw [pyAssert_true (by simp [hl]), except_ok_bind]
  simp only [hne', Bool.false_eq_true, if_false]
  rw [hT]
  simp only [except_ok_bind]
  rw [pyAssert_true (by simp [hm, hn])]
  simp only [except_ok_bind]
  rw [hf 0 0 Nat.one_pos Nat.one_pos]
  congr 1
  refine Finset.sum_congr rfl fun σ hσ => Finset.sum_congr rfl fun τ hτ => ?_
  rw [elem_eq_pmatO hr hσ hτ, elem_eq_pmatO ho hτ hσ]
  ring

end Ptn.Env

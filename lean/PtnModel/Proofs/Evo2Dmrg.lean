import PtnModel.Proofs.Evo2Tdvp
/-!
# Two-site DMRG at zero split tolerance: energies are consistent, variational and monotone

* `dmrg2Update_inv` : merge, minimise with the two-site effective operator, split at tolerance zero;
* `dmrg2Left_inv`, `dmrg2Right_inv` : the loop bodies; `dmrg2Sweep_inv` : one sweep (`L ≥ 2`);
* `dmrg2_main` : all clauses for `calculate_ground_state_local_twosite(…, tol_split = 0)`.
-/
set_option linter.unusedSectionVars false

namespace Ptn.Evo
open Ptn Ptn.BondOps Ptn.Ortho Ptn.Env Ptn.Krylov Ptn.Dense Finset

variable {𝕜 : Type} [RCLike 𝕜] [DecidableEq 𝕜]
local notation "conj" => starRingEnd 𝕜

/-! ## reading the `do` blocks -/

theorem dmrg2Update_unfold {k : EvoKernels 𝕜 ℝ} {H : MPO 𝕜} {qd : List Int} {numiter : Nat} {tol : ℝ} {distr : Nat}
    {s s' : Sweep 𝕜} {en : ℝ} {i : Nat} (h : dmrg2Update k H qd numiter tol distr s i = .ok (s', en)) :
    ∃ Aopt A0 A1 qb,
      minimizeLocalEnergy k (getBL s i) (getBR s (i + 1)) (mergedW H i) (mergedA s i) numiter = .ok (en, Aopt) ∧
      MPS.splitMpsTensor k.svd k.dsqrt Aopt qd qd (getQ s i) (getQ s (i + 2)) distr tol = .ok (A0, A1, qb) ∧
      s' = ⟨(s.A.setIfInBounds i A0).setIfInBounds (i + 1) A1, s.qD.setIfInBounds (i + 1) qb, s.BL, s.BR⟩ := by
  unfold dmrg2Update at h
  rw [bind_ok] at h
  obtain ⟨⟨en', Aopt⟩, h1, h⟩ := h
  dsimp only at h
  rw [bind_ok] at h
  obtain ⟨⟨A0, A1, qb⟩, h2, h⟩ := h
  dsimp only at h
  rw [pure_ok] at h
  injection h with ha hb
  subst hb
  exact ⟨Aopt, A0, A1, qb, h1, h2, ha.symm⟩

theorem dmrg2Left_unfold {k : EvoKernels 𝕜 ℝ} {H : MPO 𝕜} {qd : List Int} {numiter : Nat} {tol : ℝ}
    {se se' : Sweep 𝕜 × ℝ} {i : Nat} (h : dmrg2Left k H qd numiter tol se i = .ok se') :
    ∃ s1 en BLn, dmrg2Update k H qd numiter tol 1 se.1 i = .ok (s1, en) ∧
      Op.opStepLeft (getA s1 i) (getA s1 i) (H.A.getD i zeroT4) (getBL s1 i) = .ok BLn ∧
      se' = (⟨s1.A, s1.qD, s1.BL.setIfInBounds (i + 1) BLn, s1.BR⟩, en) := by
  unfold dmrg2Left at h
  rw [bind_ok] at h
  obtain ⟨⟨s1, en⟩, h1, h⟩ := h
  dsimp only at h
  rw [bind_ok] at h
  obtain ⟨BLn, h2, h⟩ := h
  rw [pure_ok] at h
  exact ⟨s1, en, BLn, h1, h2, h.symm⟩

theorem dmrg2Right_unfold {k : EvoKernels 𝕜 ℝ} {H : MPO 𝕜} {qd : List Int} {numiter : Nat} {tol : ℝ}
    {se se' : Sweep 𝕜 × ℝ} {i : Nat} (h : dmrg2Right k H qd numiter tol se i = .ok se') :
    ∃ s1 en BRn, dmrg2Update k H qd numiter tol 0 se.1 i = .ok (s1, en) ∧
      Op.opStepRight (getA s1 (i + 1)) (getA s1 (i + 1)) (H.A.getD (i + 1) zeroT4) (getBR s1 (i + 1)) = .ok BRn ∧
      se' = (⟨s1.A, s1.qD, s1.BL, s1.BR.setIfInBounds i BRn⟩, en) := by
  unfold dmrg2Right at h
  rw [bind_ok] at h
  obtain ⟨⟨s1, en⟩, h1, h⟩ := h
  dsimp only at h
  rw [bind_ok] at h
  obtain ⟨BRn, h2, h⟩ := h
  rw [pure_ok] at h
  exact ⟨s1, en, BRn, h1, h2, h.symm⟩

theorem dmrg2Sweep_unfold {k : EvoKernels 𝕜 ℝ} {H : MPO 𝕜} {qd : List Int} {numiter : Nat} {tol : ℝ}
    {se se' : Sweep 𝕜 × List ℝ} (h : dmrg2Sweep k H qd numiter tol se = .ok se') :
    ∃ s1 e1 s2 e2 s3,
      foldIdx (dmrg2Left k H qd numiter tol) (List.range (H.A.length - 2)) (se.1, (0 : ℝ)) = .ok (s1, e1) ∧
      foldIdx (dmrg2Right k H qd numiter tol) (List.range (H.A.length - 1)).reverse (s1, e1) = .ok (s2, e2) ∧
      dmrgNormalizeFirst k qd s2 = .ok s3 ∧ se' = (s3, se.2 ++ [e2]) := by
  unfold dmrg2Sweep at h
  rw [bind_ok] at h
  obtain ⟨⟨s1, e1⟩, h1, h⟩ := h
  dsimp only at h
  rw [bind_ok] at h
  obtain ⟨⟨s2, e2⟩, h2, h⟩ := h
  dsimp only at h
  rw [bind_ok] at h
  obtain ⟨s3, h3, h⟩ := h
  rw [pure_ok] at h
  exact ⟨s1, e1, s2, e2, s3, h1, h2, h3, h.symm⟩

theorem dmrgTwosite_unfold {k : EvoKernels 𝕜 ℝ} {H : MPO 𝕜} {ψ ψ' : MPS 𝕜} {numsweeps numiter : Nat} {tol : ℝ}
    {en : List ℝ} (h : dmrgTwosite k H ψ numsweeps numiter tol = .ok (ψ', en)) :
    ∃ s0 nrm s, prologue k H ψ = .ok (s0, nrm) ∧
      iterate (dmrg2Sweep k H ψ.qd numiter tol) numsweeps (s0, []) = .ok (s, en) ∧ ψ' = toMPS ψ s := by
  unfold dmrgTwosite at h
  rw [bind_ok] at h
  obtain ⟨⟨s0, nrm⟩, h1, h⟩ := h
  dsimp only at h
  rw [bind_ok] at h
  obtain ⟨⟨s, en'⟩, h2, h⟩ := h
  dsimp only at h
  rw [pure_ok] at h
  injection h with ha hb
  subst hb
  exact ⟨s0, nrm, s, h1, h2, ha.symm⟩

/-! ## the two-site update -/

/-- two-site window, unit norm, energy `E` -/
structure DInv2 (H : MPO 𝕜) (qd : List Int) (s : Sweep 𝕜) (i : Nat) (E : ℝ) : Prop where
  can : Canon2 H qd s i
  nrm : normSq (cur qd s) qd.length = 1
  en : energy (cur qd s) H qd.length = ((E : ℝ) : 𝕜)

omit [DecidableEq 𝕜] in
theorem normSq2_real (ψ : MPS 𝕜) (d i : Nat) (X : T3 𝕜) :
    normSq2 ψ d i X = ((∑ σ ∈ digitsU d ψ.A.length, ‖ampTwo ψ d i X σ‖ ^ 2 : ℝ) : 𝕜) := by
  unfold normSq2
  push_cast
  refine sum_congr rfl fun σ _ => ?_
  rw [← starRingEnd_apply, RCLike.conj_mul]

variable {k : EvoKernels 𝕜 ℝ} {H : MPO 𝕜} {qd : List Int} {numiter : Nat}

/-- **Merge, minimise, split** (split tolerance zero). -/
theorem dmrg2Update_inv (ctx : SweepCtx k H qd numiter) (hk : Compress.SvdKernel k.svd) {s s' : Sweep 𝕜} {i : Nat}
    {E en : ℝ} (h : DInv2 H qd s i E) {distr : Nat} (hdistr : distr ≤ 1)
    (hrun : dmrg2Update k H qd numiter (0 : ℝ) distr s i = .ok (s', en)) :
    DInv2 H qd s' i en ∧ en ≤ E ∧ (∀ μ, DenseLower H qd.length μ → μ ≤ en) ∧
      (distr = 1 → LeftIso (getA s' i)) ∧ (distr = 0 → RightIso (getA s' (i + 1))) ∧ s'.BL = s.BL ∧ s'.BR = s.BR := by
  obtain ⟨Aopt, A0, A1, qb, h1, h2, rfl⟩ := dmrg2Update_unfold hrun
  obtain ⟨hF, hHerm⟩ := canon2_local h.can ctx.hH ctx.herm
  obtain ⟨m0, m1, m2⟩ := mergedA_dims h.can
  have hF0 := hF
  rw [← m0, ← m1, ← m2] at hF hHerm
  have hE := ctx.eigh (localHFun (getBL s i) (getBR s (i + 1)) (mergedW H i) (mergedA s i).d0 (mergedA s i).d1
    (mergedA s i).d2) (flat3 (mergedA s i))
  obtain ⟨a0, a1, a2, hfrob, _, hen, hup, hlow⟩ := minimize_spec ctx.norm hF hHerm hE h1
  obtain ⟨T0, hT0, _⟩ := applyLocal_ker hF (A := mergedA s i) rfl rfl rfl
  obtain ⟨Topt, hTopt, _⟩ := applyLocal_ker hF (A := Aopt) a0 a1 a2
  obtain ⟨c1, c2⟩ := canon2_cur h.can
  obtain ⟨n0, e0⟩ := canon2_centre h.can ctx.hH (mergedA_dims h.can)
  have hfr : frob3 (mergedA s i) = 1 := by
    have := (n0.symm.trans c1.symm).trans h.nrm
    exact_mod_cast this
  have hE0 : RCLike.re (inner3 (mergedA s i) T0) = E := by
    rw [← e0 T0 hT0, ← c2, h.en, RCLike.ofReal_re]
  obtain ⟨hcan, hl, hr, _, hn', he'⟩ := split_step_canon hk h.can ctx.hH ctx.dpos hdistr (X := Aopt)
    ⟨a0.trans m0, a1.trans m1, a2.trans m2⟩ (by rw [hfrob]; exact one_pos) h2
  obtain ⟨g0, g1⟩ := getA_pair (s := s) (i := i) h.can.wf.sizeA h.can.hi A0 A1 (s.qD.setIfInBounds (i + 1) qb) s.BL s.BR
  refine ⟨⟨hcan, by rw [hn', hfrob]; simp, by rw [he' Topt hTopt, hen Topt hTopt]⟩, ?_, ?_,
    fun hd => by rw [g0]; exact hl hd, fun hd => by rw [g1]; exact hr hd, rfl, rfl⟩
  · have := hup T0 hT0
    rw [hfr, mul_one, hE0] at this
    exact this
  · intro μ hμ
    apply hlow
    intro X T x0 x1 x2 hT
    obtain ⟨hnX, heX⟩ := canon2_centre h.can ctx.hH (X := X) ⟨x0.trans m0, x1.trans m1, x2.trans m2⟩
    have heX' := heX T hT
    have := hμ (fun σ => ampTwo (cur qd s) qd.length i X σ)
    rw [normSq2_real, h.can.len] at hnX
    have hnX' : ∑ σ ∈ digitsU qd.length H.A.length, ‖ampTwo (cur qd s) qd.length i X σ‖ ^ 2 = frob3 X := by
      exact_mod_cast hnX
    rw [hnX'] at this
    unfold energy2 at heX'
    rw [h.can.len] at heX'
    rw [heX'] at this
    exact this

/-- **Loop body of the left-to-right half sweep** at the sites `(i, i+1)` (centre `i → i+1`). -/
theorem dmrg2Left_inv (ctx : SweepCtx k H qd numiter) (hk : Compress.SvdKernel k.svd) {s s' : Sweep 𝕜}
    {e e' E : ℝ} {i : Nat} (h : DInv H qd s i E) (hi1 : i + 1 < H.A.length)
    (hrun : dmrg2Left k H qd numiter (0 : ℝ) (s, e) i = .ok (s', e')) :
    DInv H qd s' (i + 1) e' ∧ e' ≤ E ∧ ∀ μ, DenseLower H qd.length μ → μ ≤ e' := by
  obtain ⟨s1, en, BLn, h1, h2, h3⟩ := dmrg2Left_unfold hrun
  injection h3 with h3a h3b
  subst h3a h3b
  obtain ⟨hinv, hle, hlow, hl, _, _, _⟩ := dmrg2Update_inv ctx hk ⟨h.can.toTwoL hi1, h.nrm, h.en⟩ (Nat.le_refl 1) h1
  exact ⟨⟨hinv.can.toL ctx.hH (hl rfl) h2, hinv.nrm, hinv.en⟩, hle, hlow⟩

/-- **Loop body of the right-to-left half sweep** at the sites `(i, i+1)` (the centre ends at `i`). -/
theorem dmrg2Right_inv (ctx : SweepCtx k H qd numiter) (hk : Compress.SvdKernel k.svd) {s s' : Sweep 𝕜}
    {e e' E : ℝ} {i : Nat} (h : DInv2 H qd s i E)
    (hrun : dmrg2Right k H qd numiter (0 : ℝ) (s, e) i = .ok (s', e')) :
    DInv H qd s' i e' ∧ e' ≤ E ∧ ∀ μ, DenseLower H qd.length μ → μ ≤ e' := by
  obtain ⟨s1, en, BRn, h1, h2, h3⟩ := dmrg2Right_unfold hrun
  injection h3 with h3a h3b
  subst h3a h3b
  obtain ⟨hinv, hle, hlow, _, hr, _, _⟩ := dmrg2Update_inv ctx hk h (Nat.zero_le 1) h1
  exact ⟨⟨hinv.can.toR ctx.hH (hr rfl) h2, hinv.nrm, hinv.en⟩, hle, hlow⟩

/-- **One two-site DMRG sweep** (`L ≥ 2`, zero split tolerance). -/
theorem dmrg2Sweep_inv (ctx : SweepCtx k H qd numiter) (hk : Compress.SvdKernel k.svd) (hL2 : 2 ≤ H.A.length)
    {s s' : Sweep 𝕜} {es es' : List ℝ} {E : ℝ} (h : DInv H qd s 0 E)
    (hrun : dmrg2Sweep k H qd numiter (0 : ℝ) (s, es) = .ok (s', es')) :
    ∃ e, es' = es ++ [e] ∧ DInv H qd s' 0 e ∧ e ≤ E ∧ ∀ μ, DenseLower H qd.length μ → μ ≤ e := by
  obtain ⟨s1, e1, s2, e2, s3, h1, h2, h3, h4⟩ := dmrg2Sweep_unfold hrun
  injection h4 with h4a h4b
  subst h4a h4b
  dsimp only at h1
  -- left half: centre `0 → L-2`
  have hleft := foldIdx_range (dmrg2Left k H qd numiter 0)
    (fun i (t : Sweep 𝕜 × ℝ) => ∃ E', DInv H qd t.1 i E' ∧ E' ≤ E)
    (H.A.length - 2)
    (fun i hi t t' ht ht' => by
      obtain ⟨E', hinv, hle⟩ := ht
      obtain ⟨t1, t2⟩ := t
      obtain ⟨t1', t2'⟩ := t'
      obtain ⟨hinv', hle', _⟩ := dmrg2Left_inv ctx hk hinv (by omega) ht'
      exact ⟨t2', hinv', le_trans hle' hle⟩)
    (s, 0) (s1, e1) ⟨E, h, le_refl E⟩ h1
  obtain ⟨E1, hinv1, hle1⟩ := hleft
  dsimp only at hinv1
  -- right half: windows `L-2, …, 0`; the first window has its centre on the left site
  have hright := foldIdx_rev (dmrg2Right k H qd numiter 0)
    (fun j (t : Sweep 𝕜 × ℝ) => ∃ E', DInv H qd t.1 (min j (H.A.length - 2)) E' ∧ E' ≤ E ∧
      (j < H.A.length - 1 → t.2 = E' ∧ ∀ μ, DenseLower H qd.length μ → μ ≤ t.2))
    (H.A.length - 1)
    (fun i hi t t' ht ht' => by
      obtain ⟨E', hinv, hle, _⟩ := ht
      obtain ⟨t1, t2⟩ := t
      obtain ⟨t1', t2'⟩ := t'
      dsimp only at hinv
      have h2' : DInv2 H qd t1 i E' := by
        by_cases hc : i = H.A.length - 2
        · have e : min (i + 1) (H.A.length - 2) = i := by omega
          rw [e] at hinv
          exact ⟨hinv.can.toTwoL (by omega), hinv.nrm, hinv.en⟩
        · have e : min (i + 1) (H.A.length - 2) = i + 1 := by omega
          rw [e] at hinv
          exact ⟨hinv.can.toTwoR, hinv.nrm, hinv.en⟩
      obtain ⟨hinv', hle', hlow⟩ := dmrg2Right_inv ctx hk h2' ht'
      have e : min i (H.A.length - 2) = i := by omega
      exact ⟨t2', by rw [e]; exact hinv', le_trans hle' hle, fun _ => ⟨rfl, hlow⟩⟩)
    (s1, e1) (s2, e2)
    ⟨E1, by
      have e : min (H.A.length - 1) (H.A.length - 2) = H.A.length - 2 := by omega
      rw [e]; exact hinv1, hle1, fun hlt => absurd hlt (lt_irrefl _)⟩ h2
  obtain ⟨E2, hinv2, hle2, hpos2⟩ := hright
  obtain ⟨hE2, hlow2⟩ := hpos2 (by omega)
  dsimp only at hinv2 hE2 hlow2
  subst hE2
  exact ⟨e2, rfl, normalize_inv ctx hinv2 h3, hle2, hlow2⟩

theorem sweeps2_inv (ctx : SweepCtx k H qd numiter) (hk : Compress.SvdKernel k.svd) (hL2 : 2 ≤ H.A.length) {E0 : ℝ} :
    ∀ (n : Nat) (t t' : Sweep 𝕜 × List ℝ), SweepsOk H qd E0 t →
      iterate (dmrg2Sweep k H qd numiter (0 : ℝ)) n t = .ok t' → SweepsOk H qd E0 t' ∧ t'.2.length = t.2.length + n
  | 0, t, t', h, hr => by
    unfold iterate at hr
    injection hr with hr; subst hr
    exact ⟨h, rfl⟩
  | n + 1, t, t', h, hr => by
    unfold iterate at hr
    rw [bind_ok] at hr
    obtain ⟨t1, h1, h2⟩ := hr
    obtain ⟨E', hinv, hle, hlast, hall, hpw⟩ := h
    obtain ⟨s, es⟩ := t
    obtain ⟨s1, es1⟩ := t1
    obtain ⟨e, rfl, hinv1, hle1, hlow1⟩ := dmrg2Sweep_inv ctx hk hL2 hinv h1
    have hok : SweepsOk H qd E0 (s1, es ++ [e]) := by
      refine ⟨e, hinv1, le_trans hle1 hle, by simp, ?_, ?_⟩
      · intro x hx
        rcases List.mem_append.1 hx with hx | hx
        · obtain ⟨a, b, c⟩ := hall x hx
          exact ⟨le_trans hle1 a, b, c⟩
        · have : x = e := by simpa using hx
          subst this
          exact ⟨le_refl _, le_trans hle1 hle, hlow1⟩
      · rw [List.pairwise_append]
        refine ⟨hpw, List.pairwise_singleton _ _, ?_⟩
        intro a ha b hb
        have : b = e := by simpa using hb
        subst this
        exact le_trans hle1 (hall a ha).1
    obtain ⟨hfin, hlen⟩ := sweeps2_inv ctx hk hL2 n (s1, es ++ [e]) t' hok h2
    refine ⟨hfin, ?_⟩
    rw [hlen]
    simp
    omega

/-- **Two-site DMRG at zero split tolerance**: all clauses. -/
theorem dmrg2_main (ctx : SweepCtx k H qd numiter) (hk : Compress.SvdKernel k.svd) (hL2 : 2 ≤ H.A.length)
    {ψ ψ' : MPS 𝕜} (hqd : ψ.qd = qd) (hadm : Admissible ψ) {numsweeps : Nat} {en : List ℝ}
    (h : dmrgTwosite k H ψ numsweeps numiter (0 : ℝ) = .ok (ψ', en)) :
    ∃ ψ1 nrm E0, MPS.orthonormalize (ρ := ℝ) k.dqr ψ false = .ok (ψ1, nrm) ∧
      energy ψ1 H qd.length = ((E0 : ℝ) : 𝕜) ∧
      en.length = numsweeps ∧
      normSq ψ' qd.length = 1 ∧
      energy ψ' H qd.length = ((en.getLast?.getD E0 : ℝ) : 𝕜) ∧
      (∀ e ∈ en, e ≤ E0 ∧ ∀ μ, DenseLower H qd.length μ → μ ≤ e) ∧
      en.Pairwise (· ≥ ·) := by
  obtain ⟨s0, nrm, s, hp, hit, rfl⟩ := dmrgTwosite_unfold h
  obtain ⟨ψ1, E0, ho, hcur, hinv0⟩ := prologue_inv ctx hqd hadm hp
  rw [hqd] at hit
  obtain ⟨hfin, hlen⟩ := sweeps2_inv ctx hk hL2 numsweeps (s0, []) (s, en)
    ⟨E0, hinv0, le_refl _, rfl, fun e he => absurd he (by simp), List.Pairwise.nil⟩ hit
  obtain ⟨E', hinv, hle, hlast, hall, hpw⟩ := hfin
  have htm : toMPS ψ s = cur qd s := by rw [← hqd]; rfl
  refine ⟨ψ1, nrm, E0, ho, by rw [← hcur]; exact hinv0.en, by simpa using hlen, ?_, ?_, ?_, hpw⟩
  · rw [htm]; exact hinv.nrm
  · rw [htm, hinv.en]
    dsimp only at hlast
    rw [hlast]
  · intro e he
    obtain ⟨_, b, c⟩ := hall e he
    exact ⟨b, c⟩

end Ptn.Evo

import PtnModel.Proofs.BipBfs
import PtnModel.Proofs.BipCover
/-!
# C18 helper lemmas, part 6: Koenig — the assert of `minimum_vertex_cover` never fails

* `explore_within`: an exploration never leaves a pair of sets `(RU, RV)` that is closed under
  "neighbour of" and "matched partner of";
* with `(RU, RV)` = vertices reached by the final BFS this shows that every visited `V`-vertex is
  matched;
* `cover_le_matching`: the counting argument `|cover| ≤ |matching|`;
* `mvc_ok_of_hk_ok`: if `hopcroftKarp` returns, `minimumVertexCover` returns.
-/
namespace Ptn.Bip

theorem explore_within_aux (g : BGraph) (m : List (Nat × Nat)) (RU RV : Nat → Prop)
    (hUV : ∀ u, RU u → ∀ v ∈ g.adjU.getD u [], RV v)
    (hVU : ∀ v, RV v → ∀ x, (x, v) ∈ m → RU x) :
    (∀ (fuel u : Nat) (st : List Nat × List Nat), ∀ st', explore g m fuel u st = .ok st' →
        RU u → (∀ x ∈ st.1, RU x) → (∀ y ∈ st.2, RV y) → (∀ x ∈ st'.1, RU x) ∧ (∀ y ∈ st'.2, RV y)) ∧
    (∀ (fuel u : Nat) (vs : List Nat) (st : List Nat × List Nat), ∀ st',
        exploreV g m fuel u vs st = .ok st' → (∀ v ∈ vs, RV v) →
        (∀ x ∈ st.1, RU x) → (∀ y ∈ st.2, RV y) → (∀ x ∈ st'.1, RU x) ∧ (∀ y ∈ st'.2, RV y)) ∧
    (∀ (fuel v : Nat) (us : List Nat) (st : List Nat × List Nat), ∀ st',
        exploreU g m fuel v us st = .ok st' → RV v →
        (∀ x ∈ st.1, RU x) → (∀ y ∈ st.2, RV y) → (∀ x ∈ st'.1, RU x) ∧ (∀ y ∈ st'.2, RV y)) := by
  apply explore.mutual_induct g m
  · intro u st st' h
    rw [explore] at h; cases h
  · intro fuel u uvis vvis hc st' h _ h1 h2
    rw [explore] at h
    simp only [hc, if_true] at h
    cases h
    exact ⟨h1, h2⟩
  · intro fuel u uvis vvis hc ih st' h hu h1 h2
    rw [explore] at h
    simp only [hc] at h
    apply ih st' h (hUV u hu) _ h2
    intro x hx
    rcases List.mem_append.1 hx with hx | hx
    · exact h1 x hx
    · simp only [List.mem_singleton] at hx; subst hx; exact hu
  · intro fuel u st st' h _ h1 h2
    rw [exploreV] at h; cases h
    exact ⟨h1, h2⟩
  · intro fuel u v vs uvis vvis hm hc ih st' h hvs h1 h2
    rw [exploreV] at h
    simp only [hm, hc, if_true] at h
    exact ih st' h (fun v' hv' => hvs v' (List.mem_cons_of_mem _ hv')) h1 h2
  · intro fuel u v vs uvis vvis hm hc e he _ st' h
    rw [exploreV] at h
    simp only [hm, hc, if_true, he] at h
    cases h
  · intro fuel u v vs uvis vvis hm hc st1 he ih3 ih2 st' h hvs h1 h2
    rw [exploreV] at h
    simp only [hm, hc, if_true, he] at h
    have hv : RV v := hvs v (List.mem_cons_self ..)
    obtain ⟨k1, k2⟩ := ih3 st1 he hv h1 (by
      intro y hy
      rcases List.mem_append.1 hy with hy | hy
      · exact h2 y hy
      · simp only [List.mem_singleton] at hy; subst hy; exact hv)
    exact ih2 st' h (fun v' hv' => hvs v' (List.mem_cons_of_mem _ hv')) k1 k2
  · intro fuel u v vs uvis vvis hm ih st' h hvs h1 h2
    rw [exploreV] at h
    simp only [hm] at h
    exact ih st' h (fun v' hv' => hvs v' (List.mem_cons_of_mem _ hv')) h1 h2
  · intro fuel v st st' h _ h1 h2
    rw [exploreU] at h; cases h
    exact ⟨h1, h2⟩
  · intro fuel v u us st hm e he _ st' h
    rw [exploreU] at h
    simp only [hm, if_true, he] at h
    cases h
  · intro fuel v u us st hm st1 he ih1 ih3 st' h hv h1 h2
    rw [exploreU] at h
    simp only [hm, if_true, he] at h
    obtain ⟨k1, k2⟩ := ih1 st1 he (hVU v hv u (List.contains_iff_mem.1 hm)) h1 h2
    exact ih3 st' h hv k1 k2
  · intro fuel v u us st hm ih st' h hv h1 h2
    rw [exploreU] at h
    simp only [hm] at h
    exact ih st' h hv h1 h2

/-- an exploration from `u ∈ RU` with empty visited lists stays inside `(RU, RV)` -/
theorem explore_within {g : BGraph} {m : List (Nat × Nat)} {RU RV : Nat → Prop}
    (hUV : ∀ u, RU u → ∀ v ∈ g.adjU.getD u [], RV v)
    (hVU : ∀ v, RV v → ∀ x, (x, v) ∈ m → RU x)
    {fuel u : Nat} {st : List Nat × List Nat} (h : explore g m fuel u ([], []) = .ok st) (hu : RU u) :
    (∀ x ∈ st.1, RU x) ∧ (∀ y ∈ st.2, RV y) :=
  (explore_within_aux g m RU RV hUV hVU).1 fuel u ([], []) st h hu
    (fun x hx => by cases hx) (fun y hy => by cases hy)

/-! ## counting -/

/-- If every vertex of `A ⊆ U` and of `B ⊆ V` is matched and no matching edge has both ends in
`A ∪ B`, then `|A| + |B| ≤ |m|`. -/
theorem cover_le_matching {m : List (Nat × Nat)} {A B : List Nat}
    (hA : A.Nodup) (hB : B.Nodup) (hAm : ∀ u ∈ A, ∃ v, (u, v) ∈ m) (hBm : ∀ v ∈ B, ∃ u, (u, v) ∈ m)
    (hsep : ∀ u v, (u, v) ∈ m → v ∈ B → u ∉ A) : A.length + B.length ≤ m.length := by
  classical
  have h1 : A.length ≤ (m.filter (fun p => decide (p.1 ∈ A))).length := by
    have hsub : A ⊆ (m.filter (fun p => decide (p.1 ∈ A))).map Prod.fst := by
      intro u hu
      obtain ⟨v, hv⟩ := hAm u hu
      exact List.mem_map.2 ⟨(u, v), List.mem_filter.2 ⟨hv, by simpa using hu⟩, rfl⟩
    have := hA.length_le_of_subset hsub
    simpa using this
  have h2 : B.length ≤ (m.filter (fun p => !decide (p.1 ∈ A))).length := by
    have hsub : B ⊆ (m.filter (fun p => !decide (p.1 ∈ A))).map Prod.snd := by
      intro v hv
      obtain ⟨u, hu⟩ := hBm v hv
      exact List.mem_map.2 ⟨(u, v), List.mem_filter.2 ⟨hu, by simpa using hsep u v hu hv⟩, rfl⟩
    have := hB.length_le_of_subset hsub
    simpa using this
  have h3 := List.length_eq_length_filter_add (l := m) (fun p => decide (p.1 ∈ A))
  omega

/-! ## the loop of `minimum_vertex_cover` never fails -/

theorem foldlM_ok {α β : Type} (f : β → α → Except Err β) :
    ∀ (l : List α) (b : β), (∀ b a, a ∈ l → ∃ b', f b a = .ok b') → ∃ b', l.foldlM f b = .ok b' := by
  intro l
  induction l with
  | nil => intro b _; exact ⟨b, rfl⟩
  | cons a l ih =>
    intro b h
    obtain ⟨b1, hb1⟩ := h b a (List.mem_cons_self ..)
    rw [List.foldlM_cons, hb1]
    exact ih b1 (fun b a ha => h b a (List.mem_cons_of_mem _ ha))

theorem cover_loop_ok {g : BGraph} (hg : g.WF) (m : List (Nat × Nat)) :
    ∃ acc, (alistOf g m).foldlM (coverStep g m) (List.range g.numU, []) = .ok acc := by
  apply foldlM_ok
  intro b a ha
  obtain ⟨st, hst⟩ := explore_ok hg m (mem_alistOf.1 ha).1
  rw [coverStep_eq, hst]
  exact ⟨_, rfl⟩

/-- (f) If `hopcroftKarp` returns on a well-formed graph, `minimumVertexCover` returns: the explorations
do not run out of fuel and the assert `len(u_cover) + len(v_cover) == len(matching)` holds. -/
theorem mvc_ok_of_hk_ok {g : BGraph} (hg : g.WF) {m : List (Nat × Nat)} (hk : hopcroftKarp g = .ok m) :
    ∃ uc vc, minimumVertexCover g = .ok (uc, vc) := by
  have hm := hopcroftKarp_isMatching hg hk
  obtain ⟨s, hs, rfl⟩ := hopcroftKarp_ok hk
  obtain ⟨hinv, sp, hinvp, hc⟩ := hopcroftKarpState_spec hg hs
  obtain ⟨hfree, hclosed⟩ := bfs_final_closed hg hinvp hc
  -- the reached sets
  let RU : Nat → Prop := fun u => u < g.numU ∧ s.dist (some u) ≠ infDist g
  let RV : Nat → Prop := fun v => ∃ u', s.mv.getD v none = some u' ∧ RU u'
  have hUV : ∀ u, RU u → ∀ v ∈ g.adjU.getD u [], RV v := by
    intro u hu v hv
    obtain ⟨u', h1, h2, h3⟩ := hclosed u hu.1 hu.2 v hv
    exact ⟨u', h1, h2, h3⟩
  have hVU : ∀ v, RV v → ∀ x, (x, v) ∈ matchingOf s → RU x := by
    intro v ⟨u', h1, h2⟩ x hx
    have := (hinv.iff x v).1 (mem_matchingOf.1 hx)
    rw [h1] at this
    cases this
    exact h2
  have hQ : ∀ u0 ∈ alistOf g (matchingOf s), ∀ st,
      explore g (matchingOf s) (exploreFuel g) u0 ([], []) = .ok st → ∀ v ∈ st.2, ∃ u, (u, v) ∈ matchingOf s := by
    intro u0 hu0 st hst v hv
    obtain ⟨hlt, hfr⟩ := mem_alistOf.1 hu0
    have hfree0 : s.mu.getD u0 none = none := by
      cases hh : s.mu.getD u0 none with
      | none => rfl
      | some w => exact absurd (mem_matchingOf.2 hh) (hfr w)
    obtain ⟨_, k2⟩ := explore_within hUV hVU hst ⟨hlt, hfree u0 hlt hfree0⟩
    obtain ⟨u', h1, _⟩ := k2 v hv
    exact ⟨u', mem_matchingOf.2 ((hinv.iff u' v).2 h1)⟩
  obtain ⟨acc, hacc⟩ := cover_loop_ok hg (matchingOf s)
  have inv := cover_loop_inv hg hm hQ hacc
  have hle : acc.1.length + acc.2.length ≤ (matchingOf s).length := by
    apply cover_le_matching inv.nodupU inv.nodupV _ inv.q inv.sep
    intro u hu
    by_contra hc
    have hu' : u ∈ alistOf g (matchingOf s) :=
      mem_alistOf.2 ⟨inv.rangeU u hu, fun v hv => hc ⟨v, hv⟩⟩
    exact inv.done u hu' hu
  have hge : (matchingOf s).length ≤ acc.1.length + acc.2.length := weak_duality' hm inv.cover
  refine ⟨sortNat acc.1, sortNat acc.2, ?_⟩
  rw [minimumVertexCover_eq, hk]
  simp only [hacc]
  have : (acc.1.length + acc.2.length == (matchingOf s).length) = true := by
    simp; omega
  rw [if_pos this]

/-- (f) the matching returned by `hopcroftKarp` is a maximum matching -/
theorem hk_maximum' {g : BGraph} (hg : g.WF) {m : List (Nat × Nat)} (hk : hopcroftKarp g = .ok m) :
    ∀ m', IsMatching g m' → m'.length ≤ m.length := by
  obtain ⟨uc, vc, h⟩ := mvc_ok_of_hk_ok hg hk
  obtain ⟨m2, hk2, _, _, _, _, hc, hlen⟩ := mvc_spec hg h
  rw [hk] at hk2
  cases hk2
  intro m' hm'
  rw [← hlen]
  exact weak_duality' hm' hc

/-- the only way `minimumVertexCover` can fail is a failure of `hopcroftKarp` -/
theorem mvc_error {g : BGraph} (hg : g.WF) {e : Err} (h : minimumVertexCover g = .error e) :
    hopcroftKarp g = .error e := by
  cases hk : hopcroftKarp g with
  | error e' =>
    rw [minimumVertexCover_eq, hk] at h
    simp only at h
    cases h; rfl
  | ok m =>
    obtain ⟨uc, vc, h'⟩ := mvc_ok_of_hk_ok hg hk
    rw [h'] at h; cases h

end Ptn.Bip

import PtnModel.Proofs.HistOrtho
/-!
# C02: `MPO.orthonormalize` keeps well-formedness

An MPO tensor with fused physical index `(s, t) ↦ s·d + t` and physical charges `qd ⊕ (-qd)` is an MPS tensor
(`toT3`, `toMPS` of `OrthoMpo*.lean`); the MPO sweeps are the MPS sweeps of the matricized chain.
-/
set_option linter.unusedSectionVars false
namespace Ptn.HistWf
open Ptn.Hist Ptn.Ortho Ptn.BondOps Ptn.Dense
variable {𝕜 : Type} [CommRing 𝕜] [DecidableEq 𝕜]
variable {dqr : Mat 𝕜 → Mat 𝕜 × Mat 𝕜}
variable {ρ : Type} [RealLike ρ 𝕜] [OfNat ρ 0] [OfNat ρ 1] [Neg ρ] [LT ρ] [DecidableLT ρ]

theorem negLast4_map_mirror' (As : List (T4 𝕜)) :
    ((negLast4 As).map fun X => (toT3 X).swap12) = negLast (As.map fun X => (toT3 X).swap12) := by
  have e : ∀ l : List (T4 𝕜), (l.map fun X => (toT3 X).swap12) = (l.map toT3).map T3.swap12 := by
    intro l; rw [List.map_map]; rfl
  rw [e, e, negLast4_map_toT3, negLast_map_swap']

theorem ortho_mpo_left_wf (hshape : ∀ B, ShapeAt dqr B) {o o' : MPO 𝕜} {nrm : ρ} (w : o.wellFormed = true)
    (h : MPO.orthonormalize dqr o true = .ok (o', nrm)) : o'.wellFormed = true := by
  have wt := wellFormed_toMPS w
  have hphys := phys_of_wellFormed w
  obtain ⟨qd, qD, A⟩ := o
  cases A with
  | nil =>
    simp only [MPO.orthonormalize, Except.ok.injEq, Prod.mk.injEq] at h
    rw [← h.1]; exact w
  | cons A0 rest =>
    cases qD with
    | nil => simp [MPO.orthonormalize] at h
    | cons q0 qrest =>
      rw [mpo_ortho_left_eq] at h
      cases hs : MPO.sweepLeftQr dqr qd A0 q0 rest qrest with
      | error e => rw [hs] at h; cases h
      | ok r =>
        obtain ⟨As, qs, T⟩ := r
        rw [hs] at h
        dsimp only at h
        obtain ⟨hsw, hph⟩ := mpo_sweepLeft_of_run hs
        have wt' : WfC (QN.flatten2 qd (QN.neg qd)) q0 (toT3 A0 :: rest.map toT3) qrest := by
          rw [← wellFormed_iff_wfC]; exact wt
        have hw : WfC (QN.flatten2 qd (QN.neg qd)) q0 (As.map toT3) qs := by
          cases qrest with
          | nil => simp at wt'
          | cons qR qrest' =>
            rw [wfC_cons] at wt'
            exact sweepLeft_wfC hsw hshape wt'.1.d0 wt'.1.d1 (wfC_d0 wt'.2)
        have hphAs := hph qd.length hphys
        split at h
        · split at h
          · injection h with h; injection h with h _
            rw [← h]
            refine wellFormed_of_toMPS ?_ (negLast4_phys hphAs)
            show (⟨QN.flatten2 qd (QN.neg qd), q0 :: qs, (negLast4 As).map toT3⟩ : MPS 𝕜).wellFormed = true
            rw [wellFormed_iff_wfC, negLast4_map_toT3]
            exact wfC_negLast hw
          · injection h with h; injection h with h _
            rw [← h]
            refine wellFormed_of_toMPS ?_ hphAs
            show (⟨QN.flatten2 qd (QN.neg qd), q0 :: qs, As.map toT3⟩ : MPS 𝕜).wellFormed = true
            rw [wellFormed_iff_wfC]
            exact hw
        · cases h

theorem ortho_mpo_right_wf (hshape : ∀ B, ShapeAt dqr B) {o o' : MPO 𝕜} {nrm : ρ} (w : o.wellFormed = true)
    (h : MPO.orthonormalize dqr o false = .ok (o', nrm)) : o'.wellFormed = true := by
  have wm := wellFormed_mirror (wellFormed_toMPS w)
  have hphys := phys_of_wellFormed w
  obtain ⟨qd, qD, A⟩ := o
  cases A with
  | nil =>
    simp only [MPO.orthonormalize, Except.ok.injEq, Prod.mk.injEq] at h
    rw [← h.1]; exact w
  | cons A0 rest =>
    cases hAr : (A0 :: rest).reverse with
    | nil => simp at hAr
    | cons Al rrest =>
      cases hqr : qD.reverse with
      | nil =>
        simp only [MPO.orthonormalize, hAr, hqr] at h
        simp at h
      | cons ql qrrest =>
        rw [mpo_ortho_right_eq qd A0 rest qD hAr hqr] at h
        cases hs : MPO.sweepRightQr dqr qd Al ql rrest qrrest with
        | error e => rw [hs] at h; cases h
        | ok r =>
          obtain ⟨As, qs, T⟩ := r
          rw [hs] at h
          dsimp only at h
          obtain ⟨hsw, hph⟩ := mpo_sweepRight_of_run hs
          have e1 : ((A0 :: rest).map toT3).reverse.map T3.swap12 =
              (toT3 Al).swap12 :: rrest.map fun X => (toT3 X).swap12 := by
            rw [← List.map_reverse, hAr, List.map_map]; rfl
          have wm' : WfC (QN.flatten2 qd (QN.neg qd)) (QN.neg ql)
              ((toT3 Al).swap12 :: rrest.map fun X => (toT3 X).swap12) (qrrest.map QN.neg) := by
            rw [← wellFormed_iff_wfC, ← e1, ← List.map_cons, ← hqr]
            exact wm
          have hw : WfC (QN.flatten2 qd (QN.neg qd)) (QN.neg ql) (As.map fun X => (toT3 X).swap12)
              (qs.map QN.neg) := by
            cases qrrest with
            | nil => simp at wm'
            | cons qL qrrest' =>
              rw [List.map_cons, wfC_cons] at wm'
              exact sweepLeft_wfC hsw hshape wm'.1.d0 wm'.1.d1 (wfC_d0 wm'.2)
          have hphAs := hph qd.length (fun X hX => hphys X (by
            have : X ∈ (A0 :: rest).reverse := by rw [hAr]; exact hX
            exact List.mem_reverse.1 this))
          split at h
          · injection h with h; injection h with h _
            rw [← h]
            have key : ∀ As' : List (T4 𝕜), (∀ B ∈ As', B.d0 = qd.length ∧ B.d1 = qd.length) →
                WfC (QN.flatten2 qd (QN.neg qd)) (QN.neg ql) (As'.map fun X => (toT3 X).swap12) (qs.map QN.neg) →
                (⟨qd, (ql :: qs).reverse, As'.reverse⟩ : MPO 𝕜).wellFormed = true := by
              intro As' hp' hw'
              refine wellFormed_of_toMPS ?_ (fun B hB => hp' B (List.mem_reverse.1 hB))
              apply wellFormed_of_mirror
              show (⟨QN.flatten2 qd (QN.neg qd), ((ql :: qs).reverse).reverse.map QN.neg,
                ((As'.reverse).map toT3).reverse.map T3.swap12⟩ : MPS 𝕜).wellFormed = true
              rw [List.reverse_reverse, List.map_cons, ← List.map_reverse, List.reverse_reverse, List.map_map,
                wellFormed_iff_wfC]
              exact hw'
            split
            · exact key _ (negLast4_phys hphAs) (by rw [negLast4_map_mirror']; exact wfC_negLast hw)
            · exact key _ hphAs hw
          · cases h

theorem ortho_mpo_wf (hshape : ∀ B, ShapeAt dqr B) {o o' : MPO 𝕜} {nrm : ρ} {left : Bool} (w : o.wellFormed = true)
    (h : MPO.orthonormalize dqr o left = .ok (o', nrm)) : o'.wellFormed = true := by
  cases left with
  | true => exact ortho_mpo_left_wf hshape w h
  | false => exact ortho_mpo_right_wf hshape w h

end Ptn.HistWf

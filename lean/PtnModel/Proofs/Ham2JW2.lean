import PtnModel.Proofs.Ham2JW
/-!
# Jordan-Wigner semantics, two-body part: `a†_i a†_j a_l a_k` as a product operator

* `fw n f`, `expand`, `Agree`, `expand_eq` : words given by a function of the site / by a run-length encoding;
* `wwMul_fw_signed`, `mol_fw_mul`          : site-wise product of two function-form words over the Jordan-Wigner tables with signs
                                             (`sgnMul`: `Z·C = -C`, `A·Z = -A`, all other local products that occur have sign `+`);
* `jw_CC`, `jw_AA`                         : `a†_i a†_j = - C_i Z…Z C_j` (`i < j`), `a_l a_k = - A_k Z…Z A_l` (`k < l`);
* `jw_int_dense`                           : `(a†_i a†_j)(a_l a_k)` is the product operator with the letters
                                             `intF i j k l x = (C_i Z…Z C_j)[x] · (A_k Z…Z A_l)[x]`, overall sign `+1`.
-/
set_option linter.unusedSectionVars false
namespace Ptn.Ham2
open Ptn Ptn.Og Ptn.Ham Ptn.Ch Ptn.Dense List

variable {κ : Type} [CommRing κ] [DecidableEq κ]

/-! ## words given by a function of the site -/

/-- the word with letter `f x` at site `x < n` -/
def fw (n : Nat) (f : Nat → Int) : Word := (List.range n).map f

theorem fw_succ (n : Nat) (f : Nat → Int) : fw (n + 1) f = f 0 :: fw n (fun x => f (x + 1)) := by
  simp [fw, range_succ_eq_map, map_map, Function.comp_def]

theorem fw_add (a b : Nat) (f : Nat → Int) : fw (a + b) f = fw a f ++ fw b (fun x => f (a + x)) := by
  simp [fw, range_add, map_map, Function.comp_def]

theorem fw_const (a : Nat) (f : Nat → Int) (o : Int) (h : ∀ x < a, f x = o) : fw a f = List.replicate a o := by
  rw [fw, eq_replicate_iff]
  refine ⟨by simp, ?_⟩
  intro b hb
  obtain ⟨x, hx, rfl⟩ := mem_map.1 hb
  exact h x (mem_range.1 hx)

/-- run-length encoded word -/
def expand (segs : List (Nat × Int)) : Word := segs.flatMap fun p => List.replicate p.1 p.2

def total (segs : List (Nat × Int)) : Nat := (segs.map (·.1)).sum

/-- `f` agrees with the run-length encoding `segs` starting at offset `off` -/
def Agree (f : Nat → Int) : Nat → List (Nat × Int) → Prop
  | _, [] => True
  | off, p :: rest => (∀ x, off ≤ x → x < off + p.1 → f x = p.2) ∧ Agree f (off + p.1) rest

theorem expand_eq (f : Nat → Int) : ∀ (segs : List (Nat × Int)) (off : Nat), Agree f off segs →
    expand segs = fw (total segs) (fun x => f (off + x)) := by
  intro segs
  induction segs with
  | nil => intro off _; rfl
  | cons p rest ih =>
    intro off h
    obtain ⟨h1, h2⟩ := h
    have e : total (p :: rest) = p.1 + total rest := by simp [total]
    rw [e, fw_add, fw_const p.1 _ p.2 (fun x hx => h1 (off + x) (by omega) (by omega))]
    have := ih (off + p.1) h2
    simp only [expand, flatMap_cons] at this ⊢
    rw [this]
    congr 2
    funext x
    congr 1
    omega

/-- **signed mixed product in function form**: if at every site the local product of the tables is `σ x` times a table, the product of
the two words is `Π_x σ x` times a word -/
theorem wwMul_fw_signed (opmap : OpMap κ) (d : Nat) : ∀ (n : Nat) (f1 f2 f : Nat → Int) (σ : Nat → κ),
    (∀ x < n, ∀ a b : Nat, (∑ y ∈ Finset.range d, Ch.opEntry opmap (f1 x) a y * Ch.opEntry opmap (f2 x) y b)
      = σ x * Ch.opEntry opmap (f x) a b) →
    ∀ s t : List Nat, wwMul opmap d (fw n f1) (fw n f2) s t = ((List.range n).map σ).prod * wordWeight opmap (fw n f) s t := by
  intro n
  induction n with
  | zero =>
    intro f1 f2 f σ _ s t
    cases s <;> cases t <;> simp [fw, wwMul, wordWeight]
  | succ n ih =>
    intro f1 f2 f σ h s t
    rw [fw_succ, fw_succ, fw_succ, range_succ_eq_map, map_cons, prod_cons, map_map]
    cases s with
    | nil => simp [wwMul, wordWeight]
    | cons a s =>
      cases t with
      | nil => simp [wwMul, wordWeight]
      | cons b t =>
        rw [wwMul, wordWeight, h 0 (by omega) a b,
          ih (fun x => f1 (x + 1)) (fun x => f2 (x + 1)) (fun x => f (x + 1)) (fun x => σ (x + 1))
            (fun x hx a b => h (x + 1) (by omega) a b) s t]
        simp only [Function.comp_def, Nat.succ_eq_add_one]
        ring

theorem prod_map_range_pick (n j : Nat) (hj : j < n) (c : κ) :
    ((List.range n).map fun x => if x = j then c else 1).prod = c := by
  induction n with
  | zero => omega
  | succ n ih =>
    rw [range_succ, map_append, prod_append]
    simp only [map_cons, map_nil, prod_cons, prod_nil, mul_one]
    by_cases h : j < n
    · rw [ih h, if_neg (by omega), mul_one]
    · have : j = n := by omega
      subst this
      rw [if_pos rfl]
      have : ((List.range j).map fun x => if x = j then c else (1 : κ)) = (List.range j).map fun _ => (1 : κ) := by
        apply map_congr_left
        intro x hx
        have := mem_range.1 hx
        rw [if_neg (by omega)]
      rw [this]
      simp


/-! ## the pair products `a†_i a†_j` and `a_l a_k` -/

theorem sm_ZCC_neg (a b : Nat) : (∑ y ∈ Finset.range 2, Ch.opEntry (molOpmap : OpMap κ) mZ a y * Ch.opEntry molOpmap mC y b)
    = -1 * Ch.opEntry molOpmap mC a b := by
  rw [molOpmap_eq]
  rcases a with _ | _ | a <;> rcases b with _ | _ | b <;>
    simp [Finset.sum_range_succ, Ch.opEntry, List.lookup, mC, mZ, Mat.entry]

theorem sm_AZA_neg (a b : Nat) : (∑ y ∈ Finset.range 2, Ch.opEntry (molOpmap : OpMap κ) mA a y * Ch.opEntry molOpmap mZ y b)
    = -1 * Ch.opEntry molOpmap mA a b := by
  rw [molOpmap_eq]
  rcases a with _ | _ | a <;> rcases b with _ | _ | b <;>
    simp [Finset.sum_range_succ, Ch.opEntry, List.lookup, mA, mZ, Mat.entry]

/-- letters of `a†_i`, `a_l`, of `C_i Z…Z C_j` and of `A_k Z…Z A_l` at site `x` -/
def cF (i x : Nat) : Int := if x < i then mI else if x = i then mC else mZ
def aF (l x : Nat) : Int := if x < l then mI else if x = l then mA else mZ
def w1F (i j x : Nat) : Int := if x < i then mI else if x = i then mC else if x < j then mZ else if x = j then mC else mI
def w2F (k l x : Nat) : Int := if x < k then mI else if x = k then mA else if x < l then mZ else if x = l then mA else mI

theorem jwC_fw (n i : Nat) (hi : i < n) : jwC n i = fw n (cF i) := by
  have h := expand_eq (cF i) [(i, mI), (1, mC), (n - 1 - i, mZ)] 0 (by
    refine ⟨?_, ?_, ?_, trivial⟩ <;> intro x h1 h2 <;> simp only [cF] <;> split_ifs <;> first | rfl | omega)
  have e : total [(i, mI), (1, mC), (n - 1 - i, mZ)] = n := by simp [total]; omega
  rw [e] at h
  simp only [Nat.zero_add] at h
  rw [← h]
  simp [jwC, expand]

theorem jwA_fw (n l : Nat) (hl : l < n) : jwA n l = fw n (aF l) := by
  have h := expand_eq (aF l) [(l, mI), (1, mA), (n - 1 - l, mZ)] 0 (by
    refine ⟨?_, ?_, ?_, trivial⟩ <;> intro x h1 h2 <;> simp only [aF] <;> split_ifs <;> first | rfl | omega)
  have e : total [(l, mI), (1, mA), (n - 1 - l, mZ)] = n := by simp [total]; omega
  rw [e] at h
  simp only [Nat.zero_add] at h
  rw [← h]
  simp [jwA, expand]

/-- the local products that occur: sign and resulting letter -/
def sgnMul (o1 o2 : Int) : Int × Int :=
  if o1 = mI then (1, o2) else if o2 = mI then (1, o1)
  else if o1 = mC ∧ o2 = mA then (1, mN) else if o1 = mC ∧ o2 = mZ then (1, mC)
  else if o1 = mZ ∧ o2 = mA then (1, mA) else if o1 = mZ ∧ o2 = mZ then (1, mI)
  else if o1 = mZ ∧ o2 = mC then (-1, mC) else (-1, mA)

/-- the pairs of letters for which `sgnMul` is meant -/
def goodPair (o1 o2 : Int) : Bool :=
  decide ((o1, o2) ∈ [(mI, mI), (mI, mA), (mI, mZ), (mC, mI), (mC, mA), (mC, mZ), (mZ, mI), (mZ, mA), (mZ, mZ), (mZ, mC), (mA, mZ)])

theorem site_sgn (o1 o2 : Int) (h : goodPair o1 o2 = true) (a b : Nat) :
    (∑ y ∈ Finset.range 2, Ch.opEntry (molOpmap : OpMap κ) o1 a y * Ch.opEntry molOpmap o2 y b)
      = ((sgnMul o1 o2).1 : κ) * Ch.opEntry molOpmap (sgnMul o1 o2).2 a b := by
  simp only [goodPair, decide_eq_true_eq, mem_cons, Prod.mk.injEq, not_mem_nil, or_false] at h
  rcases h with ⟨rfl, rfl⟩ | ⟨rfl, rfl⟩ | ⟨rfl, rfl⟩ | ⟨rfl, rfl⟩ | ⟨rfl, rfl⟩ | ⟨rfl, rfl⟩ | ⟨rfl, rfl⟩ | ⟨rfl, rfl⟩ |
    ⟨rfl, rfl⟩ | ⟨rfl, rfl⟩ | ⟨rfl, rfl⟩
  · rw [sm_III a b]; simp [sgnMul, mI]
  · rw [sm_IAA a b]; simp [sgnMul, mI]
  · rw [sm_IZZ a b]; simp [sgnMul, mI]
  · rw [sm_CIC a b]; simp [sgnMul, mI, mC]
  · rw [sm_CAN a b]; simp [sgnMul, mI, mC, mA]
  · rw [sm_CZC a b]; simp [sgnMul, mI, mC, mA, mZ]
  · rw [sm_ZIZ a b]; simp [sgnMul, mI, mZ]
  · rw [sm_ZAA a b]; simp [sgnMul, mI, mC, mA, mZ]
  · rw [sm_ZZI a b]; simp [sgnMul, mI, mC, mA, mZ]
  · rw [sm_ZCC_neg a b]; simp [sgnMul, mI, mC, mA, mZ]
  · rw [sm_AZA_neg a b]; simp [sgnMul, mI, mC, mA, mZ]

/-- products of function-form words over the Jordan-Wigner tables -/
theorem mol_fw_mul (n : Nat) (f1 f2 f : Nat → Int) (σ : Nat → Int)
    (h : ∀ x < n, goodPair (f1 x) (f2 x) = true ∧ sgnMul (f1 x) (f2 x) = (σ x, f x)) (s t : List Nat) :
    wwMul (molOpmap : OpMap κ) 2 (fw n f1) (fw n f2) s t
      = ((List.range n).map fun x => ((σ x : Int) : κ)).prod * wordWeight molOpmap (fw n f) s t := by
  apply wwMul_fw_signed
  intro x hx a b
  obtain ⟨h1, h2⟩ := h x hx
  rw [site_sgn _ _ h1 a b, h2]

theorem prod_sign_pick (n j : Nat) (hj : j < n) :
    ((List.range n).map fun x => (((if x = j then -1 else 1 : Int)) : κ)).prod = -1 := by
  have : (fun x => (((if x = j then -1 else 1 : Int)) : κ)) = fun x => if x = j then (-1 : κ) else 1 := by
    funext x; split_ifs <;> simp
  rw [this, prod_map_range_pick n j hj]

theorem prod_sign_one (n : Nat) : ((List.range n).map fun _ => (((1 : Int)) : κ)).prod = 1 := by simp

/-- `a†_i a†_j = - C_i Z…Z C_j` for `i < j` -/
theorem jw_CC (n i j : Nat) (hij : i < j) (hj : j < n) (s t : List Nat) :
    wwMul (molOpmap : OpMap κ) 2 (jwC n i) (jwC n j) s t = -1 * wordWeight molOpmap (fw n (w1F i j)) s t := by
  rw [jwC_fw n i (by omega), jwC_fw n j hj,
    mol_fw_mul n (cF i) (cF j) (w1F i j) (fun x => if x = j then -1 else 1) ?_ s t, prod_sign_pick n j hj]
  intro x _
  simp only [cF, w1F]
  split_ifs <;> first | omega | exact ⟨by decide, by decide⟩

/-- `a_l a_k = - A_k Z…Z A_l` for `k < l` -/
theorem jw_AA (n k l : Nat) (hkl : k < l) (hl : l < n) (s t : List Nat) :
    wwMul (molOpmap : OpMap κ) 2 (jwA n l) (jwA n k) s t = -1 * wordWeight molOpmap (fw n (w2F k l)) s t := by
  rw [jwA_fw n l hl, jwA_fw n k (by omega),
    mol_fw_mul n (aF l) (aF k) (w2F k l) (fun x => if x = l then -1 else 1) ?_ s t, prod_sign_pick n l hl]
  intro x _
  simp only [aF, w2F]
  split_ifs <;> first | omega | exact ⟨by decide, by decide⟩

/-- the letter of `a†_i a†_j a_l a_k` at site `x` (up to the overall sign `+1`) -/
def intF (i j k l x : Nat) : Int := (sgnMul (w1F i j x) (w2F k l x)).2

/-- `(C_i Z…Z C_j) · (A_k Z…Z A_l)` is the word with the letters `intF` -/
theorem jw_W1W2 (n i j k l : Nat) (s t : List Nat) :
    wwMul (molOpmap : OpMap κ) 2 (fw n (w1F i j)) (fw n (w2F k l)) s t = wordWeight molOpmap (fw n (intF i j k l)) s t := by
  rw [mol_fw_mul n (w1F i j) (w2F k l) (intF i j k l) (fun _ => 1) ?_ s t, prod_sign_one, one_mul]
  intro x _
  simp only [w1F, w2F, intF]
  split_ifs <;> exact ⟨by decide, by decide⟩


theorem sumDigits_congr' {M : Type} [AddCommMonoid M] (d : Nat) : ∀ (n : Nat) (f g : List Nat → M),
    (∀ u, u.length = n → f u = g u) → sumDigits d n f = sumDigits d n g
  | 0, f, g, h => h [] rfl
  | n + 1, f, g, h => by
      rw [sumDigits_succ', sumDigits_succ']
      apply Finset.sum_congr rfl
      intro u _
      apply sumDigits_congr' d n
      intro us hus
      exact h (u :: us) (by simp [hus])

theorem fw_length (n : Nat) (f : Nat → Int) : (fw n f).length = n := by simp [fw]

/-- **`a†_i a†_j a_l a_k` under the Jordan-Wigner tables** (`i < j`, `k < l`): the product `(a†_i a†_j)(a_l a_k)` of the dense matrices
is the product operator with the letters `intF i j k l`, with sign `+1` (the signs of the two pair products cancel) -/
theorem jw_int_dense (n i j k l : Nat) (hij : i < j) (hj : j < n) (hkl : k < l) (hl : l < n) (s t : List Nat)
    (hs : s.length = n) (ht : t.length = n) :
    sumDigits 2 n (fun u =>
      (sumDigits 2 n fun u1 => wordWeight (molOpmap : OpMap κ) (jwC n i) s u1 * wordWeight molOpmap (jwC n j) u1 u) *
      (sumDigits 2 n fun u3 => wordWeight molOpmap (jwA n l) u u3 * wordWeight molOpmap (jwA n k) u3 t))
      = wordWeight molOpmap (fw n (intF i j k l)) s t := by
  rw [sumDigits_congr' 2 n _ (fun u => wordWeight molOpmap (fw n (w1F i j)) s u * wordWeight molOpmap (fw n (w2F k l)) u t)]
  · rw [sumDigits_wordWeight_mul molOpmap 2 n _ _ s t (fw_length ..) (fw_length ..) hs ht]
    exact jw_W1W2 n i j k l s t
  · intro u hu
    rw [sumDigits_wordWeight_mul molOpmap 2 n _ _ s u (jwC_length n i (by omega)) (jwC_length n j hj) hs hu,
      sumDigits_wordWeight_mul molOpmap 2 n _ _ u t (jwA_length n l hl) (jwA_length n k (by omega)) hu ht,
      jw_CC n i j hij hj, jw_AA n k l hkl hl]
    ring

end Ptn.Ham2

import Mathlib.Algebra.BigOperators.Ring.Finset
import Mathlib.Tactic.Ring
import PtnModel.Proofs.BridgeMol
import PtnModel.Proofs.HamMolChains
/-!
# Jordan-Wigner semantics of the molecular chain enumeration: the one-body part

pytenet's convention: `a†_i = I^{⊗ i} ⊗ C ⊗ Z^{⊗ (n-1-i)}`, `a_j = I^{⊗ j} ⊗ A ⊗ Z^{⊗ (n-1-j)}` (`Z` string to the right).

* `sumDigits_wordWeight_mul` : the dense matrix product of two product operators (`Σ_u ⟨s|W₁|u⟩⟨u|W₂|t⟩`, `u` over all digit lists)
                               is the product over the sites of the local `d × d` matrix products (mixed-product property);
* `SiteMul`, `MulIs`         : `table[o1] · table[o2] = table[o]` at one site / for whole words; closed under `cons`, `replicate`;
* `sm_*`                     : the nine local products of the tables `A, I, C, N, Z` that occur (`C·Z = C`, `Z·A = A`, `C·A = N`, ...);
* `jw_hop`, `jw_hop_dense`   : `a†_i a_j` is the word `C Z…Z A` (`i < j`), `A Z…Z C` (`i > j`), `N` (`i = j`), sign `+1`;
* `molHop_spec`              : that word is the identity-padded word of the chain the enumeration creates for `(i, j)`;
* `hop_kinetic`              : hence the hopping chains sum to `Σ_ij t_ij a†_i a_j` as dense operators.
-/
set_option linter.unusedSectionVars false
namespace Ptn.Ham2
open Ptn Ptn.Og Ptn.Ham Ptn.Ch Ptn.Dense List

variable {κ : Type} [CommRing κ] [DecidableEq κ]

/-! ## products of product operators, site by site -/

theorem sumDigits_succ' {M : Type} [AddCommMonoid M] (d n : Nat) (f : List Nat → M) :
    sumDigits d (n + 1) f = ∑ u ∈ Finset.range d, sumDigits d n (fun us => f (u :: us)) := rfl

theorem sumDigits_const_mul (d : Nat) (c : κ) : ∀ (n : Nat) (f : List Nat → κ),
    sumDigits d n (fun u => c * f u) = c * sumDigits d n f
  | 0, f => rfl
  | n + 1, f => by
    rw [sumDigits_succ', sumDigits_succ', Finset.mul_sum]
    apply Finset.sum_congr rfl
    intro u _
    exact sumDigits_const_mul d c n _

/-- dense entry of the product of two product operators: at every site the `d × d` matrix product of the two tables -/
def wwMul (opmap : OpMap κ) (d : Nat) : Word → Word → List Nat → List Nat → κ
  | [], [], [], [] => 1
  | o1 :: w1, o2 :: w2, a :: s, b :: t =>
    (∑ x ∈ Finset.range d, Ch.opEntry opmap o1 a x * Ch.opEntry opmap o2 x b) * wwMul opmap d w1 w2 s t
  | _, _, _, _ => 0

/-- **mixed-product property**: `Σ_u ⟨s|W₁|u⟩⟨u|W₂|t⟩` for two words of operators is the product over the sites of the entries of
the local matrix products -/
theorem sumDigits_wordWeight_mul (opmap : OpMap κ) (d : Nat) : ∀ (n : Nat) (w1 w2 : Word) (s t : List Nat),
    w1.length = n → w2.length = n → s.length = n → t.length = n →
    sumDigits d n (fun u => wordWeight opmap w1 s u * wordWeight opmap w2 u t) = wwMul opmap d w1 w2 s t := by
  intro n
  induction n with
  | zero =>
    intro w1 w2 s t h1 h2 h3 h4
    rw [length_eq_zero_iff] at h1 h2 h3 h4
    subst h1 h2 h3 h4
    simp [sumDigits, wordWeight, wwMul]
  | succ n ih =>
    intro w1 w2 s t h1 h2 h3 h4
    obtain ⟨o1, w1, rfl⟩ := exists_cons_of_length_eq_add_one h1
    obtain ⟨o2, w2, rfl⟩ := exists_cons_of_length_eq_add_one h2
    obtain ⟨a, s, rfl⟩ := exists_cons_of_length_eq_add_one h3
    obtain ⟨b, t, rfl⟩ := exists_cons_of_length_eq_add_one h4
    simp only [length_cons, Nat.add_right_cancel_iff] at h1 h2 h3 h4
    rw [sumDigits_succ', wwMul, Finset.sum_mul]
    apply Finset.sum_congr rfl
    intro x _
    have : (fun us => wordWeight opmap (o1 :: w1) (a :: s) (x :: us) * wordWeight opmap (o2 :: w2) (x :: us) (b :: t))
        = fun us => (Ch.opEntry opmap o1 a x * Ch.opEntry opmap o2 x b) * (wordWeight opmap w1 s us * wordWeight opmap w2 us t) := by
      funext us
      simp only [wordWeight]
      ring
    rw [this, sumDigits_const_mul, ih w1 w2 s t h1 h2 h3 h4]

/-- the local product `table[o1] · table[o2]` is `table[o]` -/
def SiteMul (opmap : OpMap κ) (d : Nat) (o1 o2 o : Int) : Prop :=
  ∀ a b : Nat, (∑ x ∈ Finset.range d, Ch.opEntry opmap o1 a x * Ch.opEntry opmap o2 x b) = Ch.opEntry opmap o a b

/-- the product of the word operators `w1`, `w2` is the word operator `w` (entry by entry, for all digit lists) -/
def MulIs (opmap : OpMap κ) (d : Nat) (w1 w2 w : Word) : Prop :=
  ∀ s t : List Nat, wwMul opmap d w1 w2 s t = wordWeight opmap w s t

theorem MulIs.nil (opmap : OpMap κ) (d : Nat) : MulIs opmap d [] [] [] := by
  intro s t
  cases s <;> cases t <;> simp [wwMul, wordWeight]

theorem MulIs.cons {opmap : OpMap κ} {d : Nat} {o1 o2 o : Int} {w1 w2 w : Word} (hs : SiteMul opmap d o1 o2 o)
    (h : MulIs opmap d w1 w2 w) : MulIs opmap d (o1 :: w1) (o2 :: w2) (o :: w) := by
  intro s t
  cases s with
  | nil => simp [wwMul, wordWeight]
  | cons a s =>
    cases t with
    | nil => simp [wwMul, wordWeight]
    | cons b t => rw [wwMul, wordWeight, hs a b, h s t]

theorem MulIs.replicate {opmap : OpMap κ} {d : Nat} {o1 o2 o : Int} {w1 w2 w : Word} (hs : SiteMul opmap d o1 o2 o)
    (h : MulIs opmap d w1 w2 w) : ∀ n : Nat,
    MulIs opmap d (List.replicate n o1 ++ w1) (List.replicate n o2 ++ w2) (List.replicate n o ++ w)
  | 0 => by simpa using h
  | n + 1 => by
    simp only [replicate_succ, cons_append]
    exact MulIs.cons hs (MulIs.replicate hs h n)


/-! ## the Jordan-Wigner tables -/

theorem molOpmap_eq : (molOpmap : OpMap κ) =
    [(-1, [[0, 1], [0, 0]]), (0, [[1, 0], [0, 1]]), (1, [[0, 0], [1, 0]]), (2, [[0, 0], [0, 1]]), (3, [[1, 0], [0, -1]])] := rfl

macro "site_mul" : tactic => `(tactic|
  (intro a b
   rw [molOpmap_eq]
   rcases a with _ | _ | a <;> rcases b with _ | _ | b <;>
     simp [Finset.sum_range_succ, Ch.opEntry, List.lookup, mA, mI, mC, mN, mZ, Mat.entry]))

theorem sm_III : SiteMul (molOpmap : OpMap κ) 2 mI mI mI := by site_mul
theorem sm_CIC : SiteMul (molOpmap : OpMap κ) 2 mC mI mC := by site_mul
theorem sm_ZIZ : SiteMul (molOpmap : OpMap κ) 2 mZ mI mZ := by site_mul
theorem sm_ZAA : SiteMul (molOpmap : OpMap κ) 2 mZ mA mA := by site_mul
theorem sm_ZZI : SiteMul (molOpmap : OpMap κ) 2 mZ mZ mI := by site_mul
theorem sm_IAA : SiteMul (molOpmap : OpMap κ) 2 mI mA mA := by site_mul
theorem sm_IZZ : SiteMul (molOpmap : OpMap κ) 2 mI mZ mZ := by site_mul
theorem sm_CZC : SiteMul (molOpmap : OpMap κ) 2 mC mZ mC := by site_mul
theorem sm_CAN : SiteMul (molOpmap : OpMap κ) 2 mC mA mN := by site_mul


theorem MulIs.replicate_nil {opmap : OpMap κ} {d : Nat} {o1 o2 o : Int} (hs : SiteMul opmap d o1 o2 o) (n : Nat) :
    MulIs opmap d (List.replicate n o1) (List.replicate n o2) (List.replicate n o) := by
  simpa using MulIs.replicate hs (MulIs.nil opmap d) n

/-- `a†_i` on `n` modes: `I^i · C · Z^{n-1-i}` (pytenet's convention: `Z` string to the right) -/
def jwC (n i : Nat) : Word := List.replicate i mI ++ mC :: List.replicate (n - 1 - i) mZ
/-- `a_j` on `n` modes: `I^j · A · Z^{n-1-j}` -/
def jwA (n j : Nat) : Word := List.replicate j mI ++ mA :: List.replicate (n - 1 - j) mZ

/-- the identity-padded word of the chain of `t a†_i a_j` -/
def hopWord (n i j : Nat) : Word :=
  if i < j then List.replicate i mI ++ mC :: (List.replicate (j - i - 1) mZ ++ mA :: List.replicate (n - 1 - j) mI)
  else if j < i then List.replicate j mI ++ mA :: (List.replicate (i - j - 1) mZ ++ mC :: List.replicate (n - 1 - i) mI)
  else List.replicate i mI ++ mN :: List.replicate (n - 1 - i) mI

theorem rep_split {α : Type} (a b m : Nat) (x : α) (h : a + (b + 1) = m) :
    List.replicate m x = List.replicate a x ++ x :: List.replicate b x := by
  rw [← h, replicate_add, replicate_succ]

/-- **`a†_i · a_j` under the Jordan-Wigner tables is the hopping word**, with coefficient `+1` in all three cases
`i < j` (`C Z…Z A`), `i > j` (`A Z…Z C`), `i = j` (`N`) -/
theorem jw_hop (n i j : Nat) (hi : i < n) (hj : j < n) :
    MulIs (molOpmap : OpMap κ) 2 (jwC n i) (jwA n j) (hopWord n i j) := by
  unfold hopWord
  by_cases h1 : i < j
  · rw [if_pos h1]
    have e1 : jwC n i = List.replicate i mI ++ mC :: (List.replicate (j - i - 1) mZ ++ mZ :: List.replicate (n - 1 - j) mZ) := by
      unfold jwC
      rw [rep_split (j - i - 1) (n - 1 - j) (n - 1 - i) mZ (by omega)]
    have e2 : jwA n j = List.replicate i mI ++ mI :: (List.replicate (j - i - 1) mI ++ mA :: List.replicate (n - 1 - j) mZ) := by
      unfold jwA
      rw [rep_split i (j - i - 1) j mI (by omega)]
      simp only [append_assoc, cons_append]
    rw [e1, e2]
    exact MulIs.replicate sm_III (MulIs.cons sm_CIC (MulIs.replicate sm_ZIZ (MulIs.cons sm_ZAA (MulIs.replicate_nil sm_ZZI _)) _)) _
  · rw [if_neg h1]
    by_cases h2 : j < i
    · rw [if_pos h2]
      have e1 : jwC n i = List.replicate j mI ++ mI :: (List.replicate (i - j - 1) mI ++ mC :: List.replicate (n - 1 - i) mZ) := by
        unfold jwC
        rw [rep_split j (i - j - 1) i mI (by omega)]
        simp only [append_assoc, cons_append]
      have e2 : jwA n j = List.replicate j mI ++ mA :: (List.replicate (i - j - 1) mZ ++ mZ :: List.replicate (n - 1 - i) mZ) := by
        unfold jwA
        rw [rep_split (i - j - 1) (n - 1 - i) (n - 1 - j) mZ (by omega)]
      rw [e1, e2]
      exact MulIs.replicate sm_III (MulIs.cons sm_IAA (MulIs.replicate sm_IZZ (MulIs.cons sm_CZC (MulIs.replicate_nil sm_ZZI _)) _)) _
    · rw [if_neg h2]
      have : j = i := by omega
      subst this
      exact MulIs.replicate sm_III (MulIs.cons sm_CAN (MulIs.replicate_nil sm_ZZI _)) _

theorem jwC_length (n i : Nat) (hi : i < n) : (jwC n i).length = n := by simp [jwC]; omega
theorem jwA_length (n j : Nat) (hj : j < n) : (jwA n j).length = n := by simp [jwA]; omega

/-- dense form: `Σ_u ⟨s| a†_i |u⟩ ⟨u| a_j |t⟩ = ⟨s| hopping word |t⟩` for all digit lists of length `n` -/
theorem jw_hop_dense (n i j : Nat) (hi : i < n) (hj : j < n) (s t : List Nat) (hs : s.length = n) (ht : t.length = n) :
    sumDigits 2 n (fun u => wordWeight (molOpmap : OpMap κ) (jwC n i) s u * wordWeight molOpmap (jwA n j) u t)
      = wordWeight molOpmap (hopWord n i j) s t := by
  rw [sumDigits_wordWeight_mul molOpmap 2 n _ _ s t (jwC_length n i hi) (jwA_length n j hj) hs ht]
  exact jw_hop n i j hi hj s t


/-! ## the hopping chains of the enumeration -/

/-- the chain `molecular_hamiltonian_mpo` creates for the pair `(i, j)`: coefficient `t_ij`, padded word `hopWord n i j` -/
theorem molHop_spec (n i j : Nat) (hi : i < n) (hj : j < n) (coeff : κ) :
    ∃ ch : OpChain κ, (if ((i : Int) == (j : Int)) = true then OpChain.mk' [mN] [0, 0] coeff (i : Int)
        else molHopChain (i : Int) (j : Int) coeff) = .ok ch ∧
      ch.coeff = coeff ∧ ch.paddedWord (n : Int) 0 = hopWord n i j := by
  by_cases hij : i = j
  · subst hij
    simp only [beq_self_eq_true, if_true]
    refine ⟨_, mk'_ok [mN] [0, 0] coeff (i : Int) rfl (by omega), rfl, ?_⟩
    simp only [OpChain.paddedWord, OpChain.length, pyRepeat, hopWord, lt_irrefl, if_false, mI, length_cons, length_nil]
    have e1 : ((i : Int)).toNat = i := by omega
    have e2 : ((n : Int) - ((0 + 1 : Nat) : Int) - (i : Int)).toNat = n - 1 - i := by omega
    rw [e1, e2]
    simp
  · have hne : ((i : Int) == (j : Int)) = false := by simpa using hij
    simp only [hne, Bool.false_eq_true, if_false]
    unfold molHopChain
    rcases Nat.lt_or_gt_of_ne hij with h | h
    · have hlt : (i : Int) < j := by omega
      have e : sortPairs [((i : Int), mC), ((j : Int), mA)] = [((i : Int), mC), ((j : Int), mA)] := by
        simp [sortPairs, insertPair, pairLe, hlt]
      rw [e]
      refine ⟨_, mk'_ok _ _ coeff (i : Int) (by simp [pyRepeat]; omega) (by omega), rfl, ?_⟩
      simp only [OpChain.paddedWord, OpChain.length, pyRepeat, hopWord, if_pos h, mI, length_append, length_cons, length_nil,
        length_replicate]
      have e1 : ((i : Int)).toNat = i := by omega
      have e2 : ((j : Int) - (i : Int) - 1).toNat = j - i - 1 := by omega
      have e3 : ((n : Int) - ((0 + 1 + (j - i - 1) + (0 + 1) : Nat) : Int) - (i : Int)).toNat = n - 1 - j := by omega
      rw [e1, e2, e3]
      simp
    · have hlt : (j : Int) < i := by omega
      have e : sortPairs [((i : Int), mC), ((j : Int), mA)] = [((j : Int), mA), ((i : Int), mC)] := by
        have h1 : ¬ (i : Int) < j := by omega
        have h2 : ¬ (i : Int) = j := by omega
        simp [sortPairs, insertPair, pairLe, h1, h2]
      rw [e]
      refine ⟨_, mk'_ok _ _ coeff (j : Int) (by simp [pyRepeat]; omega) (by omega), rfl, ?_⟩
      have h' : ¬ i < j := by omega
      simp only [OpChain.paddedWord, OpChain.length, pyRepeat, hopWord, if_neg h', if_pos h, mI, length_append, length_cons,
        length_nil, length_replicate]
      have e1 : ((j : Int)).toNat = j := by omega
      have e2 : ((i : Int) - (j : Int) - 1).toNat = i - j - 1 := by omega
      have e3 : ((n : Int) - ((0 + 1 + (i - j - 1) + (0 + 1) : Nat) : Int) - (j : Int)).toNat = n - 1 - i := by omega
      rw [e1, e2, e3]
      simp

theorem mapM_sum {α β : Type} (f : α → Except Err β) (G : β → κ) (H : α → κ) : ∀ (l : List α) (ys : List β),
    l.mapM f = .ok ys → (∀ x ∈ l, ∀ y, f x = .ok y → G y = H x) → (ys.map G).sum = (l.map H).sum ∧ ys.length = l.length := by
  intro l
  induction l with
  | nil =>
    intro ys h _
    simp only [mapM_nil, pure_ok_iff] at h
    subst h
    exact ⟨rfl, rfl⟩
  | cons a l ih =>
    intro ys h hG
    simp only [mapM_cons, bind_ok_iff, pure_ok_iff] at h
    obtain ⟨b, hb, bs, hbs, rfl⟩ := h
    obtain ⟨e1, e2⟩ := ih bs hbs (fun x hx y hy => hG x (mem_cons_of_mem _ hx) y hy)
    refine ⟨?_, by simp [e2]⟩
    simp only [map_cons, sum_cons]
    rw [hG a (mem_cons_self ..) b hb, e1]


/-- the index pairs of the hopping loop, the index tuples of the interaction loop -/
def hopPairs (L : Int) : List (Int × Int) := (pyRange 0 L).flatMap fun i => (pyRange 0 L).map fun j => (i, j)
def intTuples (L : Int) : List (Int × Int × Int × Int) :=
  (pyRange 0 L).flatMap fun i => (pyRange (i + 1) L).flatMap fun j =>
    (pyRange 0 L).flatMap fun k => (pyRange (k + 1) L).map fun l => (i, j, k, l)

theorem molChains_split (c : Consts κ) (tkin : List (List κ)) (vint : List (List (List (List κ)))) (chains : List (OpChain κ))
    (h : molChains c tkin vint = .ok chains) :
    ∃ hop int, chains = hop ++ int ∧
      (hopPairs tkin.length).mapM (fun (p : Int × Int) =>
        if (p.1 == p.2) = true then OpChain.mk' [mN] [0, 0] (t2 tkin p.1 p.1) p.1
        else molHopChain p.1 p.2 (t2 tkin p.1 p.2)) = .ok hop ∧
      (intTuples tkin.length).mapM (fun (q : Int × Int × Int × Int) =>
        molIntChain q.1 q.2.1 q.2.2.1 q.2.2.2 (gint c vint q.1 q.2.1 q.2.2.1 q.2.2.2)) = .ok int := by
  unfold molChains at h
  simp only [bind_ok_iff, pure_ok_iff] at h
  obtain ⟨hop, hhop, int, hint, rfl⟩ := h
  exact ⟨hop, int, rfl, hhop, hint⟩

theorem pyRange_zero_nat (n : Nat) : pyRange 0 (n : Int) = (List.range n).map fun (k : Nat) => (k : Int) := by
  unfold pyRange
  have : ((n : Int) - 0).toNat = n := by omega
  rw [this]
  apply map_congr_left
  intro k _
  omega

/-- **the kinetic part**: the hopping chains of the enumeration, as a dense operator, are `Σ_ij t_ij a†_i a_j` with the
Jordan-Wigner matrices `a†_i = I^i C Z^{n-1-i}`, `a_j = I^j A Z^{n-1-j}` (matrix product = sum over the intermediate digit list) -/
theorem hop_kinetic (tkin : List (List κ)) (hop : List (OpChain κ))
    (h : (hopPairs tkin.length).mapM (fun (p : Int × Int) =>
        if (p.1 == p.2) = true then OpChain.mk' [mN] [0, 0] (t2 tkin p.1 p.1) p.1
        else molHopChain p.1 p.2 (t2 tkin p.1 p.2)) = .ok hop)
    (s t : List Nat) (hs : s.length = tkin.length) (ht : t.length = tkin.length) :
    hop.length = tkin.length * tkin.length ∧
    termsEntry molOpmap (denChainsRaw hop (tkin.length : Int) 0) s t =
      ((List.range tkin.length).map fun (i : Nat) => ((List.range tkin.length).map fun (j : Nat) =>
        t2 tkin (i : Int) (j : Int) * sumDigits 2 tkin.length (fun u =>
          wordWeight molOpmap (jwC tkin.length i) s u * wordWeight molOpmap (jwA tkin.length j) u t)).sum).sum := by
  obtain ⟨e1, e2⟩ := mapM_sum _
    (fun ch : OpChain κ => ch.coeff * wordWeight molOpmap (ch.paddedWord (tkin.length : Int) 0) s t)
    (fun p : Int × Int => t2 tkin p.1 p.2 * wordWeight molOpmap (hopWord tkin.length p.1.toNat p.2.toNat) s t)
    _ hop h (by
      intro p hp y hy
      simp only [hopPairs, mem_flatMap, mem_map, mem_pyRange] at hp
      obtain ⟨i, ⟨hi0, hi1⟩, j, ⟨hj0, hj1⟩, rfl⟩ := hp
      obtain ⟨ch, hch, hc, hw⟩ := molHop_spec tkin.length i.toNat j.toNat (by omega) (by omega) (t2 tkin i j)
      have ei : ((i.toNat : Nat) : Int) = i := by omega
      have ej : ((j.toNat : Nat) : Int) = j := by omega
      rw [ei, ej] at hch
      have hii : t2 tkin i i = t2 tkin i j ∨ (i == j) = false := by
        by_cases hij : i = j
        · subst hij; exact Or.inl rfl
        · exact Or.inr (by simpa using hij)
      simp only at hy
      have : y = ch := by
        rcases hii with hii | hii
        · rw [hii] at hy
          rw [hch] at hy
          cases hy; rfl
        · rw [hii] at hy hch
          simp only [Bool.false_eq_true, if_false] at hy hch
          rw [hch] at hy
          cases hy; rfl
      subst this
      simp only [hc, hw])
  constructor
  · rw [e2]
    simp [hopPairs, pyRange_length, length_flatMap]
  · unfold termsEntry denChainsRaw
    rw [map_map]
    simp only [Function.comp_def]
    rw [e1, hopPairs, Ch.sum_flatMap, pyRange_zero_nat, map_map]
    apply congrArg
    apply map_congr_left
    intro i hi
    simp only [Function.comp_def, map_map]
    apply congrArg
    apply map_congr_left
    intro j hj
    simp only [Int.toNat_natCast]
    rw [jw_hop_dense _ i j (mem_range.1 hi) (mem_range.1 hj) s t hs ht]


theorem hop_length (tkin : List (List κ)) (hop : List (OpChain κ))
    (h : (hopPairs tkin.length).mapM (fun (p : Int × Int) =>
        if (p.1 == p.2) = true then OpChain.mk' [mN] [0, 0] (t2 tkin p.1 p.1) p.1
        else molHopChain p.1 p.2 (t2 tkin p.1 p.2)) = .ok hop) : hop.length = tkin.length * tkin.length := by
  rw [(mapM_sum _ (fun _ => (0 : κ)) (fun _ => (0 : κ)) _ hop h (fun _ _ _ _ => rfl)).2]
  simp [hopPairs, pyRange_length, length_flatMap]

theorem termsEntry_append (opmap : OpMap κ) (A B : List (Word × κ)) (s t : List Nat) :
    termsEntry opmap (A ++ B) s t = termsEntry opmap A s t + termsEntry opmap B s t := by
  simp [termsEntry]

end Ptn.Ham2

import PtnModel.Proofs.OgUnion
/-!
# `add`: from the model's `addWith` to the union graph

`addWith g other sn se` renames the shared node ids and the shared edge ids of `other` to fresh ids, renames
`other`'s terminals to those of `g`, integrates the terminal nodes, includes the remaining nodes and all edges
(`dUpdate`) and simplifies.  The integration and update assemble exactly `unionG g o` (`addTail_eq`) where `o` is the
renamed operand; the renamings keep validity, denotation and length (`Prep`).
-/
set_option linter.unusedSectionVars false
namespace Ptn.Og
open List Rw
variable {κ : Type} [CommRing κ] [DecidableEq κ]

theorem dSet_of_not_mem {β : Type} {A : List (Int × β)} {k : Int} (v : β) (hk : k ∉ dKeys A) :
    dSet A k v = A ++ [(k, v)] := by
  unfold dSet
  have : dHas A k = false := by
    cases h : dHas A k with
    | false => rfl
    | true => exact absurd (dHas_iff.1 h) hk
  simp [this]

theorem dUpdate_eq_append {β : Type} : ∀ (B A : List (Int × β)), (∀ k ∈ dKeys B, k ∉ dKeys A) → (dKeys B).Nodup →
    dUpdate A B = A ++ B
  | [], A, _, _ => by simp [dUpdate]
  | (k, v) :: B, A, hd, hn => by
    rw [dKeys_cons, nodup_cons] at hn
    have hk : k ∉ dKeys A := hd k (by simp [dKeys_cons])
    have : dUpdate A ((k, v) :: B) = dUpdate (dSet A k v) B := by simp [dUpdate]
    rw [this, dSet_of_not_mem v hk, dUpdate_eq_append B]
    · simp
    · intro k' hk' hc
      rw [Rw.dKeys_append, mem_append] at hc
      rcases hc with hc | hc
      · exact hd k' (by simp [dKeys_cons, hk']) hc
      · simp only [dKeys, map_cons, map_nil, mem_singleton] at hc
        subst hc
        exact hn.1 hk'
    · exact hn.2

theorem dErase_eq_filter {β : Type} : ∀ {dd : List (Int × β)}, (dKeys dd).Nodup → ∀ k,
    dErase dd k = dd.filter (fun p => !(p.1 == k))
  | [], _, k => rfl
  | (k0, v0) :: dd, hn, k => by
    rw [dKeys_cons, nodup_cons] at hn
    rw [dErase_cons]
    by_cases h : k0 = k
    · subst h
      simp only [if_true, filter_cons, beq_self_eq_true, Bool.not_true, Bool.false_eq_true, if_false]
      symm
      rw [filter_eq_self]
      intro p hp
      have : p.1 ≠ k0 := fun q => hn.1 (q ▸ mem_map.2 ⟨p, hp, rfl⟩)
      simpa using this
    · simp only [h, if_false]
      have hb : (k0 == k) = false := by simpa using h
      simp only [filter_cons, hb, Bool.not_false, if_true]
      rw [dErase_eq_filter hn.2]

/-- the terminal integration and dictionary update of `add` assemble exactly `unionG` -/
theorem addTail_eq {g o : Graph κ} (U : UnionOk g o) {t0n t1n : Node} {o1 o2 g1 g2 : Graph κ}
    (h1 : o.removeNode (o.term false) = .ok (t0n, o1))
    (h2 : g.modifyNode (g.term false) (fun n => pure (n.setEids (!false) (n.eids (!false) ++ t0n.eids (!false)))) = .ok g1)
    (h3 : o1.removeNode (o1.term true) = .ok (t1n, o2))
    (h4 : g1.modifyNode (g1.term true) (fun n => pure (n.setEids (!true) (n.eids (!true) ++ t1n.eids (!true)))) = .ok g2) :
    ({ nodes := dUpdate g2.nodes o2.nodes, edges := dUpdate g2.edges o2.edges, nidTerminal := g2.nidTerminal } : Graph κ)
      = unionG g o := by
  have hg := U.hg
  have ho := U.ho
  rw [Rw.removeNode_ok] at h1
  obtain ⟨ht0n, rfl⟩ := h1
  rw [Rw.removeNode_ok] at h3
  obtain ⟨ht1n, rfl⟩ := h3
  rw [Rw.modifyNode_ok] at h2
  obtain ⟨n0, n0', hn0, hf0, rfl⟩ := h2
  rw [Rw.modifyNode_ok] at h4
  obtain ⟨n1, n1', hn1, hf1, rfl⟩ := h4
  simp only [pure_ok] at hf0 hf1
  subst hf0; subst hf1
  have e0 : o.term false = g.term false := o_term U false
  have e1 : o.term true = g.term true := o_term U true
  have t1' : ∀ (x : Graph κ) (ns : List (Int × Node)), ({ x with nodes := ns } : Graph κ).term true = x.term true := fun _ _ => rfl
  simp only [t1', e0, e1, Bool.not_false, Bool.not_true] at ht0n ht1n hn0 hn1 ⊢
  have hne : g.term true ≠ g.term false := fun q => U.ht q.symm
  rw [dGet?_dErase _ ho.nodesKeys] at ht1n
  simp only [hne, if_false] at ht1n
  rw [Rw.dGet?_dReplace] at hn1
  simp only [hne, false_and, if_false] at hn1
  unfold unionG
  congr 1
  · -- nodes
    have hA : dReplace (dReplace g.nodes (g.term false) (n0.setEids true (n0.eids true ++ t0n.eids true))) (g.term true)
          (n1.setEids false (n1.eids false ++ t1n.eids false))
        = g.nodes.map fun p => (p.1, extNode g o p.1 p.2) := by
      apply dict_ext
      · rw [Rw.dKeys_dReplace, Rw.dKeys_dReplace]
        simp [dKeys, map_map, Function.comp]
      · simp only [Rw.dKeys_dReplace]; exact hg.nodesKeys
      · intro k
        rw [Rw.dGet?_dReplace, Rw.dGet?_dReplace, Rw.dKeys_dReplace, dGet?_map_key]
        by_cases hk1 : k = g.term true
        · subst hk1
          simp only [dGet?_some_mem_keys hn1, and_self, if_true, hn1, Option.map_some, Option.some.injEq]
          unfold extNode
          simp only [hne, if_false, if_true, ht1n, Option.map_some, Option.getD_some]
        · simp only [hk1, false_and, if_false]
          by_cases hk0 : k = g.term false
          · subst hk0
            simp only [dGet?_some_mem_keys hn0, and_self, if_true, hn0, Option.map_some, Option.some.injEq]
            unfold extNode
            simp only [if_true, ht0n, Option.map_some, Option.getD_some]
          · simp only [hk0, false_and, if_false]
            cases hl : dGet? g.nodes k with
            | none => rfl
            | some n => simp [extNode, hk0, hk1]
    have hB : dErase (dErase o.nodes (g.term false)) (g.term true)
        = o.nodes.filter (fun p => !(p.1 == g.term false) && !(p.1 == g.term true)) := by
      have hn' : (dKeys (dErase o.nodes (g.term false))).Nodup := by
        rw [dKeys_dErase]; exact ho.nodesKeys.erase _
      rw [dErase_eq_filter hn', dErase_eq_filter ho.nodesKeys, filter_filter]
      apply filter_congr
      intro p _
      rw [Bool.and_comm]
    rw [hA, hB]
    apply dUpdate_eq_append
    · intro k hk hc
      obtain ⟨⟨k', n⟩, hp, rfl⟩ := mem_map.1 hk
      rw [mem_filter] at hp
      obtain ⟨hp1, hp2⟩ := hp
      simp only [Bool.and_eq_true, Bool.not_eq_eq_eq_not, Bool.not_true, beq_eq_false_iff_ne] at hp2
      have hcg : k' ∈ dKeys g.nodes := by
        simpa [dKeys, map_map, Function.comp] using hc
      rcases U.hnodes k' hcg (mem_map.2 ⟨_, hp1, rfl⟩) with q | q
      · exact hp2.1 q
      · exact hp2.2 q
    · exact ho.nodesKeys.sublist ((filter_sublist).map _)
  · -- edges
    apply dUpdate_eq_append
    · intro k hk hc; exact U.hedges k hc hk
    · exact ho.edgesKeys

/-! ## BFS steps and walks under the renamings -/

theorem kid_renameEdgeId {g g' : Graph κ} (h : SValid g) {cur new : Int}
    (hr : g.renameEdgeId cur new = .ok g') {d : Bool} {x c : Int} (hk : Kid g' d x c) : Kid g d x c := by
  obtain ⟨hkeys, hNL⟩ := renameEdgeId_nodes h hr
  obtain ⟨edge, hget, hEL⟩ := renameEdgeId_edge_lookup h hr
  obtain ⟨_, _, hnew, _, _, hterm⟩ := renameEdgeId_edges hr
  obtain ⟨n', eid, e', hn', he, hl, hc⟩ := hk
  rw [hNL] at hn'
  cases hn : dGet? g.nodes x with
  | none => rw [hn] at hn'; cases hn'
  | some n =>
    rw [hn] at hn'
    simp only [Option.map_some, Option.some.injEq] at hn'
    subst hn'
    rw [renNode_eids] at he
    have hmn := mem_of_dGet?_eq_some hn
    rcases mem_renL (h.eidsNodup x n hmn (!d)) he with ⟨rfl, hcur⟩ | ⟨hin, hne⟩
    · rw [hEL] at hl
      simp only [if_true, Option.some.injEq] at hl
      subst hl
      exact ⟨n, cur, edge, hn, hcur, hget, by rw [← hc]; cases d <;> rfl⟩
    · rw [hEL] at hl
      have : ¬ eid = new := by
        intro q; subst q
        obtain ⟨e0, he0, _⟩ := h.nodeEdge x n hmn (!d) eid hin
        exact hnew (mem_map.2 ⟨_, he0, rfl⟩)
      simp only [this, if_false, hne] at hl
      exact ⟨n, eid, e', hn, hin, hl, hc⟩

theorem reach_renameEdgeId {g g' : Graph κ} (h : SValid g) {cur new : Int}
    (hr : g.renameEdgeId cur new = .ok g') {d : Bool} {a : Int} {k : Nat} {y : Int}
    (hw : ReachFrom g' d a k y) : ReachFrom g d a k y := by
  induction hw with
  | refl x => exact ReachFrom.refl _
  | cons hn he hl _ ih => exact ReachFrom.cons' (kid_renameEdgeId h hr ⟨_, _, _, hn, he, hl, rfl⟩) ih

theorem kid_renameNodeId {g g' : Graph κ} (h : SValid g) {cur new : Int}
    (hr : g.renameNodeId cur new = .ok g') {d : Bool} {x c' : Int} (hx : x ∈ dKeys g.nodes)
    (hk : Kid g' d (rho cur new x) c') : ∃ c, c' = rho cur new c ∧ Kid g d x c := by
  obtain ⟨node, hget, hnew, hnodes, hedges, hterm⟩ := renameNodeId_spec h hr
  have hnk : new ∉ dKeys (dErase g.nodes cur) := by
    rw [dKeys_dErase]; exact fun hc => hnew (mem_of_mem_erase hc)
  have hNL : ∀ k, dGet? g'.nodes k =
      if k = new then some { node with nid := new } else if k = cur then none else dGet? g.nodes k := by
    intro k
    rw [hnodes, dGet?_append_single _ _ _ _ hnk, dGet?_dErase _ h.nodesKeys]
  obtain ⟨n', eid, e', hn', he, hl, hc⟩ := hk
  have hxn : x ≠ new := fun q => hnew (q ▸ hx)
  obtain ⟨n, hn, hsame⟩ : ∃ n, dGet? g.nodes x = some n ∧ ∀ d', n'.eids d' = n.eids d' := by
    rw [hNL] at hn'
    by_cases hxc : x = cur
    · subst hxc
      simp only [rho, if_true, Option.some.injEq] at hn'
      subst hn'
      exact ⟨node, hget, fun d' => by cases d' <;> rfl⟩
    · have : rho cur new x = x := by simp [rho, hxc]
      rw [this] at hn'
      simp only [hxn, if_false, hxc] at hn'
      exact ⟨n', hn', fun _ => rfl⟩
  rw [hsame] at he
  rw [hedges, dGet?_map_snd] at hl
  cases hle : dGet? g.edges eid with
  | none => rw [hle] at hl; cases hl
  | some e =>
    rw [hle] at hl
    simp only [Option.map_some, Option.some.injEq] at hl
    subst hl
    exact ⟨e.nid (!d), by rw [← hc, renE_nid], n, eid, e, hn, he, hle, rfl⟩

theorem kid_mem_keys {g : Graph κ} (h : SValid g) {d : Bool} {x c : Int} (hk : Kid g d x c) : c ∈ dKeys g.nodes := by
  obtain ⟨n, eid, e, _, _, hl, rfl⟩ := hk
  obtain ⟨n', hn', _⟩ := h.edgeNode _ _ (mem_of_dGet?_eq_some hl) (!d)
  exact mem_map.2 ⟨_, hn', rfl⟩

theorem reach_renameNodeId {g g' : Graph κ} (h : SValid g) {cur new : Int}
    (hr : g.renameNodeId cur new = .ok g') {d : Bool} :
    ∀ {a' : Int} {k : Nat} {y' : Int}, ReachFrom g' d a' k y' → ∀ a, a ∈ dKeys g.nodes → a' = rho cur new a →
      ∃ y, y' = rho cur new y ∧ ReachFrom g d a k y := by
  intro a' k y' hw
  induction hw with
  | refl x => intro a _ hx; exact ⟨a, hx, ReachFrom.refl _⟩
  | @cons x n eid e k y hn he hl _ ih =>
    intro a ha hx
    subst hx
    obtain ⟨c, hc, hkc⟩ := kid_renameNodeId h hr ha ⟨n, eid, e, hn, he, hl, rfl⟩
    obtain ⟨y0, hy0, hr0⟩ := ih c (kid_mem_keys h hkc) hc
    exact ⟨y0, hy0, ReachFrom.cons' hkc hr0⟩


/-! ## what the renamings keep -/

/-- what the renamings of `add` keep about the operand -/
structure Prep (other o : Graph κ) : Prop where
  hv : Valid o
  hden : ∀ w : Word, o.denF w = other.denF w
  hlen : ∀ d j, ReachFrom o d (o.term d) j (o.term (!d)) →
    ReachFrom other d (other.term d) j (other.term (!d))
  hterm : o.term false ≠ o.term true

theorem Prep.refl {other : Graph κ} (h : Valid other) (ht : other.term false ≠ other.term true) : Prep other other :=
  ⟨h, fun _ => rfl, fun _ _ hr => hr, ht⟩

theorem Prep.renameEdgeId {other o o' : Graph κ} (P : Prep other o) {cur new : Int}
    (hr : o.renameEdgeId cur new = .ok o') : Prep other o' := by
  obtain ⟨_, _, _, _, _, hterm⟩ := renameEdgeId_edges hr
  have ht : ∀ d, o'.term d = o.term d := fun d => by cases d <;> simp [Graph.term, hterm]
  refine ⟨P.hv.renameEdgeId hr, fun w => (denF_renameEdgeId P.hv.1 hr w).trans (P.hden w), ?_, ?_⟩
  · intro d j hw
    rw [ht, ht] at hw
    exact P.hlen d j (reach_renameEdgeId P.hv.1 hr hw)
  · rw [ht, ht]; exact P.hterm

theorem Prep.renameNodeId {other o o' : Graph κ} (P : Prep other o) {cur new : Int}
    (hr : o.renameNodeId cur new = .ok o') : Prep other o' := by
  have h := P.hv.1
  obtain ⟨node, hget, hnew, hnodes, hedges, hterm⟩ := renameNodeId_spec h hr
  have ht : ∀ d, o'.term d = rho cur new (o.term d) := fun d => by cases d <;> simp [Graph.term, hterm]
  have hne : ∀ {x}, x ∈ dKeys o.nodes → x ≠ new := fun hx q => hnew (q ▸ hx)
  refine ⟨P.hv.renameNodeId hr, fun w => (denF_renameNodeId h hr w).trans (P.hden w), ?_, ?_⟩
  · intro d j hw
    rw [ht, ht] at hw
    obtain ⟨y, hy, hry⟩ := reach_renameNodeId h hr hw (o.term d) (term_mem_keys h d) rfl
    have hyk := reach_mem_keys h (term_mem_keys h d) hry
    have := (rho_inj (hne (term_mem_keys h (!d))) (hne hyk)).1 hy
    rw [← this] at hry
    exact P.hlen d j hry
  · rw [ht, ht]
    intro q
    exact P.hterm ((rho_inj (hne (term_mem_keys h false)) (hne (term_mem_keys h true))).1 q)

theorem renameNodeId_keys {g g' : Graph κ} (h : SValid g) {cur new : Int} (hr : g.renameNodeId cur new = .ok g') :
    dKeys g'.nodes = (dKeys g.nodes).erase cur ++ [new] ∧ dKeys g'.edges = dKeys g.edges ∧ new ∉ dKeys g.nodes := by
  obtain ⟨node, hget, hnew, hnodes, hedges, hterm⟩ := renameNodeId_spec h hr
  refine ⟨by rw [hnodes, Rw.dKeys_append, dKeys_dErase]; rfl, ?_, hnew⟩
  rw [hedges]; simp [dKeys, map_map, Function.comp]

theorem renameEdgeId_keys {g g' : Graph κ} (h : SValid g) {cur new : Int} (hr : g.renameEdgeId cur new = .ok g') :
    dKeys g'.nodes = dKeys g.nodes ∧ dKeys g'.edges = (dKeys g.edges).erase cur ++ [new] := by
  obtain ⟨hkeys, _⟩ := renameEdgeId_nodes h hr
  obtain ⟨edge, hget, hnew, heid, hedges, hterm⟩ := renameEdgeId_edges hr
  exact ⟨hkeys, by rw [hedges, Rw.dKeys_append, dKeys_dErase]; rfl⟩

/-- the fold that renames the shared node ids to fresh ids -/
theorem foldRenameNodes {other : Graph κ} {G : List Int} {c0 : Int} (hG : ∀ k ∈ G, k < c0) :
    ∀ (S : List Int) (o : Graph κ) (c : Int) (o' : Graph κ) (c' : Int),
      S.foldlM (fun (acc : Graph κ × Int) nid => do
        let o ← acc.1.renameNodeId nid acc.2
        pure (o, acc.2 + 1)) (o, c) = .ok (o', c') →
      Prep other o → c0 ≤ c → (∀ k ∈ dKeys o.nodes, k ∈ G → k ∈ S) →
      Prep other o' ∧ (∀ k ∈ dKeys o'.nodes, k ∉ G) ∧ dKeys o'.edges = dKeys o.edges
  | [], o, c, o', c', hr, P, _, hS => by
    simp only [foldlM_nil, pure_ok, Prod.mk.injEq] at hr
    obtain ⟨rfl, rfl⟩ := hr
    exact ⟨P, fun k hk hkG => by simpa using hS k hk hkG, rfl⟩
  | s :: S, o, c, o', c', hr, P, hc, hS => by
    rw [foldlM_cons, bind_ok] at hr
    obtain ⟨⟨o1, c1⟩, h1, hr⟩ := hr
    simp only [bind_ok, pure_ok, Prod.mk.injEq] at h1
    obtain ⟨o1', hren, rfl, rfl⟩ := h1
    obtain ⟨hk1, hk2, _⟩ := renameNodeId_keys P.hv.1 hren
    obtain ⟨P', hd', he'⟩ := foldRenameNodes hG S o1' (c + 1) o' c' hr (P.renameNodeId hren) (by omega) (by
      intro k hk hkG
      rw [hk1, mem_append] at hk
      rcases hk with hk | hk
      · have hmem := mem_of_mem_erase hk
        have hne : k ≠ s := fun q => by subst q; exact (P.hv.1.nodesKeys.not_mem_erase) hk
        rcases mem_cons.1 (hS k hmem hkG) with q | q
        · exact absurd q hne
        · exact q
      · simp only [mem_singleton] at hk
        subst hk
        have := hG k hkG
        omega)
    exact ⟨P', hd', he'.trans hk2⟩

/-- the fold that renames the shared edge ids to fresh ids -/
theorem foldRenameEdges {other : Graph κ} {G : List Int} {c0 : Int} (hG : ∀ k ∈ G, k < c0) :
    ∀ (S : List Int) (o : Graph κ) (c : Int) (o' : Graph κ) (c' : Int),
      S.foldlM (fun (acc : Graph κ × Int) eid => do
        let o ← acc.1.renameEdgeId eid acc.2
        pure (o, acc.2 + 1)) (o, c) = .ok (o', c') →
      Prep other o → c0 ≤ c → (∀ k ∈ dKeys o.edges, k ∈ G → k ∈ S) →
      Prep other o' ∧ (∀ k ∈ dKeys o'.edges, k ∉ G) ∧ dKeys o'.nodes = dKeys o.nodes
  | [], o, c, o', c', hr, P, _, hS => by
    simp only [foldlM_nil, pure_ok, Prod.mk.injEq] at hr
    obtain ⟨rfl, rfl⟩ := hr
    exact ⟨P, fun k hk hkG => by simpa using hS k hk hkG, rfl⟩
  | s :: S, o, c, o', c', hr, P, hc, hS => by
    rw [foldlM_cons, bind_ok] at hr
    obtain ⟨⟨o1, c1⟩, h1, hr⟩ := hr
    simp only [bind_ok, pure_ok, Prod.mk.injEq] at h1
    obtain ⟨o1', hren, rfl, rfl⟩ := h1
    obtain ⟨hk1, hk2⟩ := renameEdgeId_keys P.hv.1 hren
    obtain ⟨P', hd', he'⟩ := foldRenameEdges hG S o1' (c + 1) o' c' hr (P.renameEdgeId hren) (by omega) (by
      intro k hk hkG
      rw [hk2, mem_append] at hk
      rcases hk with hk | hk
      · have hmem := mem_of_mem_erase hk
        have hne : k ≠ s := fun q => by subst q; exact (P.hv.1.edgesKeys.not_mem_erase) hk
        rcases mem_cons.1 (hS k hmem hkG) with q | q
        · exact absurd q hne
        · exact q
      · simp only [mem_singleton] at hk
        subst hk
        have := hG k hkG
        omega)
    exact ⟨P', hd', he'.trans hk1⟩

theorem le_foldl_max (l : List Int) (x : Int) : x ≤ l.foldl max x ∧ ∀ k ∈ l, k ≤ l.foldl max x := by
  induction l generalizing x with
  | nil => simp
  | cons a l ih =>
    simp only [foldl_cons]
    obtain ⟨h1, h2⟩ := ih (max x a)
    refine ⟨le_trans (le_max_left _ _) h1, ?_⟩
    intro k hk
    rcases mem_cons.1 hk with rfl | hk
    · exact le_trans (le_max_right _ _) h1
    · exact h2 k hk

theorem le_maxInt? {l : List Int} {m : Int} (h : maxInt? l = some m) : ∀ k ∈ l, k ≤ m := by
  cases l with
  | nil => simp [maxInt?] at h
  | cons x xs =>
    simp only [maxInt?, Option.some.injEq] at h
    subst h
    intro k hk
    rcases mem_cons.1 hk with rfl | hk
    · exact (le_foldl_max xs k).1
    · exact (le_foldl_max xs x).2 k hk

theorem le_maxKeysD {β : Type} (dd : List (Int × β)) : ∀ k ∈ dKeys dd, k ≤ maxKeysD dd := by
  intro k hk
  unfold maxKeysD
  cases h : maxInt? (dKeys dd) with
  | none => cases hd : dKeys dd with
    | nil => rw [hd] at hk; simp at hk
    | cons a b => rw [hd] at h; simp [maxInt?] at h
  | some m => simpa using le_maxInt? h k hk


/-! ## `add` -/

/-- **`add`** (with an explicit iteration order of the shared ids, as CPython's sets provide one): if the orders cover
all shared node resp. edge ids, both graphs are valid with two different terminals each and have the same length, then
a successful call returns a valid graph that denotes exactly the sum of the two operators. -/
theorem addWith_sem {g other g' : Graph κ} {sn se : List Int} (hg : Valid g) (ho : Valid other)
    (htg : g.term false ≠ g.term true) (hto : other.term false ≠ other.term true)
    (hsn : ∀ k, k ∈ dKeys g.nodes → k ∈ dKeys other.nodes → k ∈ sn)
    (hse : ∀ k, k ∈ dKeys g.edges → k ∈ dKeys other.edges → k ∈ se)
    (hlen : ∀ d j j', ReachFrom g d (g.term d) j (g.term (!d)) →
      ReachFrom other d (other.term d) j' (other.term (!d)) → j = j')
    (hr : g.addWith other sn se = .ok g') :
    Valid g' ∧ ∀ w : Word, g'.denF w = g.denF w + other.denF w := by
  unfold Graph.addWith at hr
  simp only [bind_ok, Prod.exists, List.foldlM_cons, List.foldlM_nil, pure_ok, pyAssert_ok] at hr
  obtain ⟨a, hmax, o1, c1, hf1, o2, c2, hf2, o4x, ⟨o3, hr3, o4, hr4, hEq4⟩, g4, ob4,
    ⟨g3, ob3, ⟨t0n, ob1, hrm0, _, _, g1, hmod0, hp0⟩, g4', ob4', ⟨t1n, ob2, hrm1, _, _, g2, hmod1, hp1⟩, hp2⟩, hsimp⟩ := hr
  subst hEq4
  simp only [Prod.mk.injEq] at hp0 hp1 hp2
  obtain ⟨rfl, rfl⟩ := hp0
  obtain ⟨rfl, rfl⟩ := hp1
  obtain ⟨rfl, rfl⟩ := hp2
  -- the bound on the node ids of g
  have hGn : ∀ k ∈ dKeys g.nodes, k < a + 1 := by
    intro k hk
    unfold maxKeys2 at hmax
    cases h1 : maxInt? (dKeys g.nodes) with
    | none => rw [h1] at hmax; simp at hmax
    | some x =>
      cases h2 : maxInt? (dKeys other.nodes) with
      | none => rw [h1, h2] at hmax; simp at hmax
      | some y =>
        rw [h1, h2] at hmax
        simp only [Except.ok.injEq] at hmax
        have := le_maxInt? h1 k hk
        have := le_max_left x y
        omega
  obtain ⟨P1, hd1, he1⟩ := foldRenameNodes hGn sn other (a + 1) o1 c1 hf1 (Prep.refl ho hto) (le_refl _)
    (fun k hk hkG => hsn k hkG hk)
  have hGe : ∀ k ∈ dKeys g.edges, k < max (maxKeysD g.edges) (maxKeysD o1.edges) + 1 := by
    intro k hk
    have := le_maxKeysD g.edges k hk
    have := le_max_left (maxKeysD g.edges) (maxKeysD o1.edges)
    omega
  obtain ⟨P2, hd2, hn2⟩ := foldRenameEdges hGe se o1 _ o2 c2 hf2 P1 (le_refl _)
    (fun k hk hkG => hse k hkG (he1 ▸ hk))
  have hdn2 : ∀ k ∈ dKeys o2.nodes, k ∉ dKeys g.nodes := fun k hk => hd1 k (hn2 ▸ hk)
  -- the terminal renamings
  have P3 := P2.renameNodeId hr3
  have P4 := P3.renameNodeId hr4
  obtain ⟨k31, k32, _⟩ := renameNodeId_keys P2.hv.1 hr3
  obtain ⟨k41, k42, _⟩ := renameNodeId_keys P3.hv.1 hr4
  obtain ⟨_, _, _, _, _, ht3⟩ := renameNodeId_spec P2.hv.1 hr3
  obtain ⟨_, _, _, _, _, ht4⟩ := renameNodeId_spec P3.hv.1 hr4
  have hne2 : o2.nidTerminal.2 ≠ o2.nidTerminal.1 := by
    have := P2.hterm
    simp only [Graph.term, Bool.false_eq_true, if_false, if_true] at this
    exact fun q => this q.symm
  have hterm3 : o3.nidTerminal = (g.term false, o2.nidTerminal.2) := by
    rw [ht3]; simp [rho, Graph.term, hne2]
  have htt_mem : o2.nidTerminal.2 ∈ dKeys o2.nodes := by
    have := term_mem_keys P2.hv.1 true
    simpa [Graph.term] using this
  have hGf : g.term false ≠ o2.nidTerminal.2 := by
    intro q
    exact hdn2 _ htt_mem (q ▸ term_mem_keys hg.1 false)
  have hterm4 : o4.nidTerminal = g.nidTerminal := by
    simp only [Graph.term, if_true, Bool.false_eq_true, if_false] at ht4 hGf hterm3
    rw [ht4, hterm3]
    simp [rho, hGf]
  have U : UnionOk g o4 := by
    refine ⟨hg.1, P4.hv.1, hterm4, htg, ?_, ?_⟩
    · intro k hkg hko
      rw [k41, mem_append] at hko
      rcases hko with hko | hko
      · have hko' := mem_of_mem_erase hko
        rw [k31, mem_append] at hko'
        rcases hko' with q | q
        · exact absurd hkg (hdn2 k (mem_of_mem_erase q))
        · left; simpa using q
      · right; simpa using hko
    · intro k hkg hko
      rw [k42, k32] at hko
      exact hd2 k hko hkg
  have hto4 : ∀ d, o4.term d = g.term d := o_term U
  have hlen4 : SameLength g o4 := by
    intro d j j' r1 r2
    rw [← hto4 d, ← hto4 (!d)] at r2
    exact hlen d j j' r1 (P4.hlen d j' r2)
  have hEq := addTail_eq U hrm0 hmod0 hrm1 hmod1
  rw [hEq] at hsimp
  have hUv := valid_union U hg P4.hv hlen4
  obtain ⟨_, hrel, hval⟩ := simplify_sem hUv.1 hsimp
  exact ⟨hval hUv, fun w => by rw [hrel.den w, denF_union U, P4.hden]⟩

/-- **`add`** with the model's ascending iteration order -/
theorem add_sem {g other g' : Graph κ} (hg : Valid g) (ho : Valid other)
    (htg : g.term false ≠ g.term true) (hto : other.term false ≠ other.term true)
    (hlen : ∀ d j j', ReachFrom g d (g.term d) j (g.term (!d)) →
      ReachFrom other d (other.term d) j' (other.term (!d)) → j = j')
    (hr : g.add other = .ok g') :
    Valid g' ∧ ∀ w : Word, g'.denF w = g.denF w + other.denF w := by
  have mem_sortAsc : ∀ (l : List Int) (k : Int), k ∈ l → k ∈ sortAsc l := by
    intro l k hk
    unfold sortAsc
    have ins : ∀ (x : Int) (acc : List Int) (y : Int), y ∈ insertAsc x acc ↔ y = x ∨ y ∈ acc := by
      intro x acc
      induction acc with
      | nil => intro y; simp [insertAsc]
      | cons a acc ih =>
        intro y
        unfold insertAsc
        split
        · simp
        · split
          · rename_i q; simp only [beq_iff_eq] at q; subst q; simp
          · simp only [mem_cons, ih]; tauto
    have gen : ∀ (l acc : List Int), (k ∈ l ∨ k ∈ acc) → k ∈ l.foldl (fun acc x => insertAsc x acc) acc := by
      intro l
      induction l with
      | nil => intro acc h; simpa using h
      | cons a l ih =>
        intro acc h
        simp only [foldl_cons]
        apply ih
        rcases h with h | h
        · rcases mem_cons.1 h with rfl | h
          · right; exact (ins _ _ _).2 (Or.inl rfl)
          · left; exact h
        · right; exact (ins _ _ _).2 (Or.inr h)
    exact gen l [] (Or.inl hk)
  apply addWith_sem hg ho htg hto _ _ hlen hr
  · intro k h1 h2
    unfold sharedKeys
    apply mem_sortAsc
    rw [mem_filter]
    exact ⟨h1, dHas_iff.2 h2⟩
  · intro k h1 h2
    unfold sharedKeys
    apply mem_sortAsc
    rw [mem_filter]
    exact ⟨h1, dHas_iff.2 h2⟩

end Ptn.Og

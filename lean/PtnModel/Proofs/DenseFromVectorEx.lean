import Mathlib.Algebra.Order.Field.Rat
import PtnModel.Proofs.DenseFromVectorFull
/-!
# A concrete instance of the hypotheses of `fromVector_tol0` (non-vacuity) over `ℚ`

`v = [3, 0, 0, 4]`, `d = 2`, two sites.  First step: `[[3, 0], [0, 4]] = I · diag(3, 4) · I`; second step: the column
`[3, 0, 0, 4]ᵀ = [3/5, 0, 0, 4/5]ᵀ · 5 · [1]`.  Both spectra have norm `5`.
-/
namespace Ptn.Dense.FvQ
open Finset BondOps MPS Ptn.C12

def dsvd (B : Mat ℚ) : Mat ℚ × List ℚ × Mat ℚ :=
  if B.n = 2 then
    (⟨2, 2, fun i j => if i = j then 1 else 0⟩, [3, 4], ⟨2, 2, fun i j => if i = j then 1 else 0⟩)
  else
    (⟨4, 1, fun i _ => if i = 0 then 3 / 5 else if i = 3 then 4 / 5 else 0⟩, [5], ⟨1, 1, fun _ _ => 1⟩)

def k : SvdKernels ℚ ℚ := ⟨dsvd, fun _ => 5, fun s => List.range s.length⟩

def v : List ℚ := [3, 0, 0, 4]

abbrev v0 : Mat ℚ := ⟨1, v.length, fun _ c => v.toArray.getD c 0⟩

theorem contracts : ∀ M ∈ fvMats k 2 2 v0 (0 : ℚ), FvSvdAt (RingHom.id ℚ) k M := by
  have h1 : ∀ M ∈ fvMats k 2 2 v0 (0 : ℚ), 0 < M.m → 0 < M.n → (dsvd M).1.m = M.m ∧ (dsvd M).2.2.n = M.n := by
    decide +kernel
  have h2 : ∀ M ∈ fvMats k 2 2 v0 (0 : ℚ), ∀ i < M.m, ∀ j < M.n,
      ∑ p ∈ range (dsvd M).2.1.length, (dsvd M).1.f i p * (RingHom.id ℚ) ((dsvd M).2.1.getD p 0) * (dsvd M).2.2.f p j
        = M.f i j := by decide +kernel
  have h3 : ∀ M ∈ fvMats k 2 2 v0 (0 : ℚ), (0 : ℚ) ≤ 5 ∧ (5 : ℚ) * 5 = ((dsvd M).2.1.map fun x => x * x).sum := by
    decide +kernel
  have h4 : ∀ M ∈ fvMats k 2 2 v0 (0 : ℚ),
      (List.range ((dsvd M).2.1.map fun x => (x / 5) * (x / 5)).length).Perm
        (List.range ((dsvd M).2.1.map fun x => (x / 5) * (x / 5)).length) ∧
      ((List.range ((dsvd M).2.1.map fun x => (x / 5) * (x / 5)).length).map
        fun i => ((dsvd M).2.1.map fun x => (x / (5 : ℚ)) * (x / 5)).getD i 0).Pairwise (· ≤ ·) := by
    decide +kernel
  intro M hM
  exact ⟨h1 M hM, h2 M hM, h3 M hM, h4 M hM⟩

theorem run_isOk : (fromVector k 2 2 v (0 : ℚ)).isOk = true := by decide +kernel

theorem run_dense : (fromVector k 2 2 v (0 : ℚ)).toOption.map
    (fun ψ => [ψ.amp [0, 0], ψ.amp [0, 1], ψ.amp [1, 0], ψ.amp [1, 1]]) = some [3, 0, 0, 4] := by decide +kernel

end Ptn.Dense.FvQ

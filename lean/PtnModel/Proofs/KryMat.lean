import PtnModel.Proofs.KryLanczos
/-!
# Columns of the returned matrices, explicit Hermitian matrices, the square-root norm

* `matCol V c` : column `c` of a matrix as a vector; for `colsMat n vs` it is the `c`-th vector (if that has length `n`);
* `isHermitian_matvec` : `x ↦ A @ x` for a Hermitian matrix `A` satisfies `IsHermitian` (non-vacuity of the hypothesis);
* `sqrtNorm` : the mathematical 2-norm satisfies `NormContract`;
* the first vector of a Lanczos / Arnoldi state is never changed by the loops.
-/
set_option linter.unusedSectionVars false

namespace Ptn.Krylov
open Finset

section generic
variable {α : Type} [OfNat α 0]

/-- column `c` of `V` as a vector -/
def matCol (V : Mat α) (c : Nat) : List α := (List.range V.m).map fun i => V.f i c

theorem map_range_vget {n : Nat} {x : List α} (h : x.length = n) : (List.range n).map (fun i => vget x i) = x := by
  apply List.ext_getElem
  · simp [h]
  · intro i h1 h2
    simp [vget, List.getD_eq_getElem?_getD, h2]

theorem matCol_colsMat {n : Nat} (vs : List (List α)) (c : Nat) (h : (vs.getD c []).length = n) :
    matCol (colsMat n vs) c = vs.getD c [] := by
  unfold matCol colsMat
  exact map_range_vget h

end generic

section first
variable {α ρ : Type} [OfNat α 0] [Add α] [Mul α] [Sub α] [Div α] [HasConj α] [RealLike ρ α]
  [OfNat ρ 0] [NatCast ρ] [Div ρ] [LT ρ] [DecidableLT ρ]
variable (Afun : List α → List α) (dnorm : List α → ρ) (n : Nat)

theorem lanczosStep_first {j : Nat} {st : LState α ρ} (h : st.Sized j j (j + 1)) :
    (lanczosStep Afun dnorm n j st).1.V.getD 0 [] = st.V.getD 0 [] := by
  rw [lanczosStep_eq]
  split
  · rfl
  · exact getD_snoc_lt _ _ _ (by rw [h.2.2]; omega)

theorem lanczosLoop_first : ∀ (k j : Nat) (st : LState α ρ), st.Sized j j (j + 1) →
    (lanczosLoop Afun dnorm n k j st).1.V.getD 0 [] = st.V.getD 0 []
  | 0, j, st, _ => rfl
  | k + 1, j, st, h => by
      rw [lanczosLoop_succ]
      have hs := lanczosStep_sized Afun dnorm n h
      by_cases hb : (lanczosStep Afun dnorm n j st).2 = true
      · rw [if_pos hb]; exact lanczosStep_first Afun dnorm n h
      · rw [if_neg hb, lanczosLoop_first k (j + 1) _ (hs.2 (by simpa using hb))]
        exact lanczosStep_first Afun dnorm n h

theorem lanczosCore_first {vstart : List α} {numiter : Nat} {st : LState α ρ}
    (h : lanczosCore Afun dnorm vstart numiter = .ok st) :
    st.V.getD 0 [] = vdiv vstart.length vstart (RealLike.ofReal (dnorm vstart)) := by
  obtain ⟨_, _, rfl⟩ := lanczosCore_ok Afun dnorm h
  have h0 : LState.Sized (α := α) (ρ := ρ)
      { alpha := [], beta := [], V := [vdiv vstart.length vstart (RealLike.ofReal (dnorm vstart))] } 0 0 (0 + 1) := by
    simp [LState.Sized]
  have := lanczosLoop_first Afun dnorm vstart.length (min numiter vstart.length - 1) 0 _ h0
  split
  · exact this
  · exact this

theorem arnoldiStep_first {j : Nat} {st : AState α ρ} (h : st.Sized j j (j + 1)) :
    (arnoldiStep Afun dnorm n j st).1.V.getD 0 [] = st.V.getD 0 [] := by
  rw [arnoldiStep_eq]
  split
  · rfl
  · exact getD_snoc_lt _ _ _ (by rw [h.2.2]; omega)

theorem arnoldiLoop_first : ∀ (k j : Nat) (st : AState α ρ), st.Sized j j (j + 1) →
    (arnoldiLoop Afun dnorm n k j st).1.V.getD 0 [] = st.V.getD 0 []
  | 0, j, st, _ => rfl
  | k + 1, j, st, h => by
      rw [arnoldiLoop_succ]
      have hs := arnoldiStep_sized Afun dnorm n h
      by_cases hb : (arnoldiStep Afun dnorm n j st).2 = true
      · rw [if_pos hb]; exact arnoldiStep_first Afun dnorm n h
      · rw [if_neg hb, arnoldiLoop_first k (j + 1) _ (hs.2 (by simpa using hb))]
        exact arnoldiStep_first Afun dnorm n h

theorem arnoldiCore_first {vstart : List α} {numiter : Nat} {st : AState α ρ}
    (h : arnoldiCore Afun dnorm vstart numiter = .ok st) :
    st.V.getD 0 [] = vdiv vstart.length vstart (RealLike.ofReal (dnorm vstart)) := by
  obtain ⟨_, _, rfl⟩ := arnoldiCore_ok Afun dnorm h
  have h0 : AState.Sized (α := α) (ρ := ρ)
      { cols := [], sub := [], V := [vdiv vstart.length vstart (RealLike.ofReal (dnorm vstart))] } 0 0 (0 + 1) := by
    simp [AState.Sized]
  have := arnoldiLoop_first Afun dnorm vstart.length (min numiter vstart.length - 1) 0 _ h0
  split
  · exact this
  · exact this

end first

variable {𝕜 : Type} [RCLike 𝕜]
local notation "conj" => starRingEnd 𝕜

theorem vget_matvec (A : Mat 𝕜) (x : List 𝕜) {i : Nat} (h : i < A.m) :
    vget (matvec A x) i = ∑ k ∈ range A.n, A.f i k * vget x k := by
  unfold matvec
  rw [vget_map_range, if_pos h, sumRange_eq_sum]

/-- `x ↦ A @ x` for a Hermitian `n × n` matrix is a Hermitian map -/
theorem isHermitian_matvec {n : Nat} (A : Mat 𝕜) (hm : A.m = n) (hn : A.n = n)
    (hA : ∀ i k, i < n → k < n → conj (A.f i k) = A.f k i) : IsHermitian n (matvec A) := by
  intro x y _ _
  rw [vdot_eq_sum, vdot_eq_sum]
  have e1 : ∀ i ∈ range n, conj (vget (matvec A x) i) * vget y i =
      ∑ k ∈ range n, conj (vget x k) * (A.f k i * vget y i) := fun i hi => by
    rw [vget_matvec A x (by rw [hm]; exact mem_range.1 hi), hn, map_sum, sum_mul]
    exact sum_congr rfl fun k hk => by
      rw [map_mul, hA i k (mem_range.1 hi) (mem_range.1 hk)]; ring
  have e2 : ∀ k ∈ range n, conj (vget x k) * vget (matvec A y) k =
      ∑ i ∈ range n, conj (vget x k) * (A.f k i * vget y i) := fun k hk => by
    rw [vget_matvec A y (by rw [hm]; exact mem_range.1 hk), hn, mul_sum]
  rw [sum_congr rfl e1, sum_congr rfl e2, sum_comm]

/-- the mathematical 2-norm -/
noncomputable def sqrtNorm (x : List 𝕜) : ℝ := Real.sqrt (sqNorm x)

theorem sqrtNorm_contract : NormContract (sqrtNorm (𝕜 := 𝕜)) :=
  ⟨fun _ => Real.sqrt_nonneg _, fun x => Real.sq_sqrt (sqNorm_nonneg x)⟩

/-- under the norm contract the norm is positive exactly for vectors with a non-zero entry -/
theorem NormContract.pos_iff {dnorm : List 𝕜 → ℝ} (hN : NormContract dnorm) (x : List 𝕜) :
    0 < dnorm x ↔ ∃ z ∈ x, z ≠ 0 := by
  have hs := hN.sq x
  have h0 := hN.nonneg x
  constructor
  · intro h
    by_contra hc
    have : sqNorm x = 0 := (sqNorm_eq_zero_iff x).2 fun z hz => by
      by_contra hne; exact hc ⟨z, hz, hne⟩
    rw [this] at hs
    have : dnorm x = 0 := by nlinarith
    rw [this] at h
    exact lt_irrefl _ h
  · rintro ⟨z, hz, hne⟩
    rcases lt_or_eq_of_le h0 with h | h
    · exact h
    · rw [← h] at hs
      have : sqNorm x = 0 := by rw [← hs]; ring
      exact absurd ((sqNorm_eq_zero_iff x).1 this z hz) hne

/-- `A v_j - alpha_j v_j - beta_{j-1} v_{j-1}` from the returned data -/
noncomputable def lanczosResidual (Afun : List 𝕜 → List 𝕜) (alpha beta : List ℝ) (V : Mat 𝕜) (j : Nat) : List 𝕜 :=
  vsub V.m (Afun (matCol V j))
    (if 0 < j then
      vadd V.m (vscale V.m (RealLike.ofReal (alpha.getD j 0)) (matCol V j))
        (vscale V.m (RealLike.ofReal (beta.getD (j - 1) 0)) (matCol V (j - 1)))
    else vscale V.m (RealLike.ofReal (alpha.getD j 0)) (matCol V j))

/-- the residual computed from the outputs is the residual of the final state -/
theorem lanczosResidual_eq {n : Nat} {Afun : List 𝕜 → List 𝕜} {st : LState 𝕜 ℝ} {k : Nat} (hf : LFin n Afun st k) :
    lanczosResidual Afun st.alpha st.beta (colsMat n st.V) (k - 1) = lzRes Afun n st (k - 1) := by
  have hk1 := hf.kpos
  have hcol : ∀ c, c < k → matCol (colsMat n st.V) c = st.vec c :=
    fun c hc' => matCol_colsMat st.V c (hf.len c hc')
  unfold lanczosResidual lzRes
  rw [hcol (k - 1) (by omega)]
  by_cases hj : 0 < k - 1
  · rw [if_pos hj, if_pos hj, hcol (k - 1 - 1) (by omega)]; rfl
  · rw [if_neg hj, if_neg hj]; rfl

/-- a vector of zero norm has only zero entries -/
theorem NormContract.vget_eq_zero {dnorm : List 𝕜 → ℝ} (hN : NormContract dnorm) {x : List 𝕜} (h : dnorm x = 0)
    (i : Nat) : vget x i = 0 := by
  have hs := hN.sq x
  rw [h] at hs
  have h0 : sqNorm x = 0 := by rw [← hs]; ring
  have hall := (sqNorm_eq_zero_iff x).1 h0
  unfold vget
  rw [List.getD_eq_getElem?_getD]
  by_cases hi : i < x.length
  · rw [List.getElem?_eq_getElem hi, Option.getD_some]
    exact hall _ (List.getElem_mem hi)
  · rw [List.getElem?_eq_none (by omega), Option.getD_none]

end Ptn.Krylov

import PtnModel.Proofs.TreeDen
/-!
# `_insert_opchain`: structure and meaning of an inserted chain
-/
set_option linter.unusedSectionVars false

namespace Ptn.Og
open List Ptn.Dense

variable {κ : Type} [CommRing κ] [DecidableEq κ]

theorem Edge.mk'_single (eid : Int) (nids : Int × Int) (o : Int) (c : κ) :
    Edge.mk' eid nids [(o, c)] = ⟨eid, nids, [(o, c)]⟩ := rfl

theorem Edge.mk'_single' (eid : Int) (nids : Int × Int) (oc : Int × κ) :
    Edge.mk' eid nids [oc] = ⟨eid, nids, [oc]⟩ := by cases oc; rfl

@[simp] theorem Edge.mk'_nids (eid : Int) (nids : Int × Int) (l : List (Int × κ)) : (Edge.mk' eid nids l).nids = nids := rfl
@[simp] theorem Edge.mk'_eid (eid : Int) (nids : Int × Int) (l : List (Int × κ)) : (Edge.mk' eid nids l).eid = eid := rfl

theorem opc_single (eid : Int) (nids : Int × Int) (o : Int) (c : κ) (o' : Int) :
    opc (Edge.mk' eid nids [(o, c)]) o' = if o = o' then c else 0 := by
  simp [Edge.mk'_single, opc]

/-- the edges of a chain starting at `x` through the nodes `ys` (ids `eid0, eid0+1, …`) -/
def chainEdges (eid0 : Int) : Int → List Int → List (Int × κ) → List (Edge κ)
  | _, [], _ => []
  | _, _ :: _, [] => []
  | x, y :: ys, oc :: ocs => Edge.mk' eid0 (x, y) [oc] :: chainEdges (eid0 + 1) y ys ocs

theorem chainEdges_append (eid0 x : Int) (ys : List Int) (ocs : List (Int × κ)) (y : Int) (oc : Int × κ)
    (hl : ys.length = ocs.length) :
    chainEdges eid0 x (ys ++ [y]) (ocs ++ [oc]) =
      chainEdges eid0 x ys ocs ++ [Edge.mk' (eid0 + ys.length) ((x :: ys).getLast (by simp), y) [oc]] := by
  induction ys generalizing eid0 x ocs with
  | nil =>
    cases ocs with
    | nil => simp [chainEdges]
    | cons _ _ => simp at hl
  | cons y' ys ih =>
    cases ocs with
    | nil => simp at hl
    | cons oc' ocs =>
      simp only [length_cons, Nat.add_right_cancel_iff] at hl
      simp only [cons_append, chainEdges]
      rw [ih (eid0 + 1) y' ocs hl]
      have e1 : eid0 + 1 + (ys.length : Int) = eid0 + ((y' :: ys).length : Nat) := by
        simp only [length_cons]; push_cast; omega
      rw [e1]
      simp [getLast_cons]

theorem chainEdges_targets (eid0 x : Int) (ys : List Int) (ocs : List (Int × κ)) (hl : ys.length = ocs.length) :
    (chainEdges eid0 x ys ocs).map (·.nids.2) = ys := by
  induction ys generalizing eid0 x ocs with
  | nil => simp [chainEdges]
  | cons y ys ih =>
    cases ocs with
    | nil => simp at hl
    | cons oc ocs =>
      simp only [length_cons, Nat.add_right_cancel_iff] at hl
      simp [chainEdges, ih _ _ _ hl]

theorem chainEdges_sources (eid0 x : Int) (ys : List Int) (ocs : List (Int × κ)) (hl : ys.length = ocs.length) :
    (chainEdges eid0 x ys ocs).map (·.nids.1) = (x :: ys).dropLast := by
  induction ys generalizing eid0 x ocs with
  | nil => simp [chainEdges]
  | cons y ys ih =>
    cases ocs with
    | nil => simp at hl
    | cons oc ocs =>
      simp only [length_cons, Nat.add_right_cancel_iff] at hl
      simp [chainEdges, ih _ _ _ hl]

theorem chainEdges_sorted (eid0 x : Int) (ys : List Int) (ocs : List (Int × κ)) :
    ∀ e ∈ chainEdges eid0 x ys ocs, e.opics = sortOpics e.opics := by
  induction ys generalizing eid0 x ocs with
  | nil => simp [chainEdges]
  | cons y ys ih =>
    cases ocs with
    | nil => simp [chainEdges]
    | cons oc ocs =>
      intro e he
      simp only [chainEdges, mem_cons] at he
      rcases he with rfl | he
      · exact mk'_opics_sorted _ _ _
      · exact ih _ _ _ e he

/-- meaning of a chain all of whose nodes have exactly one outgoing edge -/
theorem chain_sem (E2 : List (Edge κ)) (t : Int) :
    ∀ (ys : List Int) (eid0 x : Int) (ocs : List (Int × κ)), ys.length = ocs.length →
      (∀ e ∈ chainEdges eid0 x ys ocs, e.nids.1 ≠ t ∧ E2.filter (fun e' => decide (e'.nids.1 = e.nids.1)) = [e]) →
      ∀ w, denE E2 t w x = chainCoef (ocs.map (·.1)) (ocs.map (·.2))
        (fun w' => denE E2 t w' ((x :: ys).getLast (by simp))) w := by
  intro ys
  induction ys with
  | nil =>
    intro eid0 x ocs hl _ w
    cases ocs with
    | nil => simp [chainCoef]
    | cons _ _ => simp at hl
  | cons y ys ih =>
    intro eid0 x ocs hl h w
    cases ocs with
    | nil => simp at hl
    | cons oc ocs =>
      simp only [length_cons, Nat.add_right_cancel_iff] at hl
      obtain ⟨hx, hf⟩ := h (Edge.mk' eid0 (x, y) [oc]) (by simp [chainEdges])
      simp only [Edge.mk'_single'] at hx hf
      have ih' := ih (eid0 + 1) y ocs hl (fun e he => h e (by simp [chainEdges, he]))
      cases w with
      | nil => simp [chainCoef, denE_nil, hx]
      | cons o w =>
        rw [denE_single_out E2 t x hx _ hf]
        simp only [map_cons, chainCoef]
        rw [ih' w]
        simp only [opc, map_cons, map_nil, sum_cons, sum_nil, add_zero, getLast_cons (cons_ne_nil y ys)]
        by_cases ho : oc.1 = o
        · subst ho; simp
        · have : ¬ o = oc.1 := fun hc => ho hc.symm
          simp [ho, this]

/-! ## the loop of `_insert_opchain` -/

@[simp] theorem plusEdge_term' (g : Graph κ) (e : Edge κ) (d : Bool) : (g.plusEdge e).term d = g.term d := rfl
@[simp] theorem plusNode_term' (g : Graph κ) (k q : Int) (d : Bool) : (g.plusNode k q).term d = g.term d := rfl

theorem SValid.term_mem {g : Graph κ} (h : SValid g) (d : Bool) : g.term d ∈ dKeys g.nodes := by
  obtain ⟨n, hn, _⟩ := h.termNode d
  exact mem_map.2 ⟨(g.term d, n), hn, rfl⟩

theorem exists_get_of_mem_keys {β : Type} {d : List (Int × β)} {k : Int} (h : k ∈ dKeys d) :
    ∃ v, dGet? d k = some v := by
  cases hl : dGet? d k with
  | none => rw [dGet?_eq_none_iff] at hl; exact absurd h hl
  | some v => exact ⟨v, rfl⟩

/-- one node + one edge: the body of the loop, and of every insertion step -/
theorem SValid.plusNodeEdge {g : Graph κ} (h : SValid g) {x y q eid : Int} {ops : List (Int × κ)}
    (hx : x ∈ dKeys g.nodes) (hx1 : x ≠ g.term true) (hy : y ∉ dKeys g.nodes)
    (he : eid ∉ dKeys g.edges) :
    SValid ((g.plusNode y q).plusEdge (Edge.mk' eid (x, y) ops)) := by
  have h1 := h.plusNode q hy
  obtain ⟨nx, hnx⟩ := exists_get_of_mem_keys (d := (g.plusNode y q).nodes)
    (by rw [plusNode_keys]; exact mem_append_left _ hx)
  have hxy : x ≠ y := fun hc => hy (hc ▸ hx)
  refine h1.plusEdge (e := Edge.mk' eid (x, y) ops) he (nx := nx) (ny := ⟨y, [], [], q⟩) hnx ?_ hxy hx1 ?_
    (mk'_opics_sorted _ _ _)
  · simp only [Edge.mk'_nids, Graph.plusNode]
    exact dGet?_append_single_self _ _ _ hy
  · simp only [Edge.mk'_nids]
    intro hc
    exact hy (hc ▸ h.term_mem false)

theorem insertOpchainLoop_spec :
    ∀ (triples : List (Int × κ × Int)) (g : Graph κ) (nidCur nidNext eidNext : Int)
      (g' : Graph κ) (nidCur' eidNext' : Int),
      insertOpchainLoop true triples g nidCur nidNext eidNext = .ok (g', nidCur', eidNext') →
      SValid g → nidCur ∈ dKeys g.nodes → nidCur ≠ g.term true →
      SValid g' ∧ g'.nidTerminal = g.nidTerminal ∧
      dKeys g'.nodes = dKeys g.nodes ++ idRange nidNext triples.length ∧
      g'.edgeList = g.edgeList ++ chainEdges eidNext nidCur (idRange nidNext triples.length)
        (triples.map fun tr => (tr.1, tr.2.1)) ∧
      nidCur' = (nidCur :: idRange nidNext triples.length).getLast (by simp) ∧
      eidNext' = eidNext + triples.length ∧ nidCur' ∈ dKeys g'.nodes ∧ nidCur' ≠ g.term true := by
  intro triples
  induction triples with
  | nil =>
    intro g nidCur nidNext eidNext g' nidCur' eidNext' h sv hc ht
    simp only [insertOpchainLoop, Except.ok.injEq, Prod.mk.injEq] at h
    obtain ⟨rfl, rfl, rfl⟩ := h
    simp [idRange, chainEdges, sv, hc, ht]
  | cons tr rest ih =>
    intro g nidCur nidNext eidNext g' nidCur' eidNext' h sv hc ht
    obtain ⟨oid, coeff, qnum⟩ := tr
    simp only [insertOpchainLoop, if_true, Node.mk'_nil] at h
    rw [bind_ok] at h
    obtain ⟨n, hn, h⟩ := h
    cases hn
    rw [bind_ok] at h
    obtain ⟨g1, hg1, h⟩ := h
    rw [bind_ok] at h
    obtain ⟨g2, hg2, h⟩ := h
    obtain ⟨hfresh, hg1'⟩ := addNode_ok.1 hg1
    have e1 : g1 = g.plusNode nidNext qnum := hg1'
    subst e1
    obtain ⟨e2, hefresh⟩ := addConnectEdge_eq_plusEdge hg2
    subst e2
    simp only [Edge.mk'_eid, plusNode_edges] at hefresh
    have sv2 := sv.plusNodeEdge (q := qnum) (ops := [(oid, coeff)]) hc ht hfresh hefresh
    have hk2 : dKeys ((g.plusNode nidNext qnum).plusEdge (Edge.mk' eidNext (nidCur, nidNext) [(oid, coeff)])).nodes
        = dKeys g.nodes ++ [nidNext] := by rw [plusEdge_keys, plusNode_keys]
    have hnt : nidNext ≠ g.term true := fun hc' => hfresh (hc' ▸ sv.term_mem true)
    obtain ⟨a1, a2, a3, a4, a5, a6, a7, a8⟩ := ih _ nidNext (nidNext + 1) (eidNext + 1) g' nidCur' eidNext' h sv2
      (by rw [hk2]; simp) (by simpa using hnt)
    refine ⟨a1, by simpa using a2, ?_, ?_, ?_, ?_, a7, by simpa using a8⟩
    · rw [a3, hk2, length_cons, idRange_succ', append_assoc]; rfl
    · rw [a4, plusEdge_edgeList, plusNode_edgeList, length_cons, idRange_succ', append_assoc]
      rfl
    · rw [a5, length_cons, idRange_succ']
      simp [getLast_cons]
    · rw [a6, length_cons]; push_cast; omega

/-! ## `_insert_opchain` -/

theorem map_zip_zip {α β γ : Type} :
    ∀ (l1 : List α) (l2 : List β) (l3 : List γ), l1.length = l3.length → l2.length = l3.length →
      (l1.zip (l2.zip l3)).map (fun tr => (tr.1, tr.2.1)) = l1.zip l2 := by
  intro l1
  induction l1 with
  | nil => intro l2 l3 _ _; simp
  | cons a l1 ih =>
    intro l2 l3 h1 h2
    cases l3 with
    | nil => simp at h1
    | cons c l3 =>
      cases l2 with
      | nil => simp at h2
      | cons b l2 =>
        simp only [length_cons, Nat.add_right_cancel_iff] at h1 h2
        simp [ih l2 l3 h1 h2]

theorem getLast?_eq_some_split {α : Type} {l : List α} {x : α} (h : l.getLast? = some x) : l = l.dropLast ++ [x] := by
  have := List.dropLast_append_getLast? x h
  exact this.symm

/-- **Structure of `_insert_opchain`** (direction 1): a chain of fresh nodes and edges from `nidStart` to `nidEnd`. -/
theorem insertOpchain_spec {g g' : Graph κ} {nidStart nidEnd : Int} {oids : List Int} {coeffs : List κ}
    {qnums : List Int} (h : g.insertOpchain nidStart nidEnd oids coeffs qnums true = .ok g')
    (sv : SValid g) (hs : nidStart ≠ g.term true) (he : nidEnd ≠ g.term false) (hse : nidStart ≠ nidEnd) :
    ∃ nidNext eid0, SValid g' ∧ g'.nidTerminal = g.nidTerminal ∧
      dKeys g'.nodes = dKeys g.nodes ++ idRange nidNext qnums.length ∧
      g'.edgeList = g.edgeList ++
        chainEdges eid0 nidStart (idRange nidNext qnums.length ++ [nidEnd]) (oids.zip coeffs) ∧
      oids.length = qnums.length + 1 ∧ coeffs.length = qnums.length + 1 ∧
      nidStart ∈ dKeys g.nodes ∧ nidEnd ∈ dKeys g.nodes := by
  unfold Graph.insertOpchain at h
  rw [pyAssert_bind] at h
  obtain ⟨hS, h⟩ := h
  rw [pyAssert_bind] at h
  obtain ⟨hE, h⟩ := h
  rw [pyAssert_bind] at h
  obtain ⟨hl1, h⟩ := h
  rw [pyAssert_bind] at h
  obtain ⟨hl2, h⟩ := h
  simp only [beq_iff_eq] at hl1 hl2
  rw [dHas_iff] at hS hE
  cases hm : maxInt? (dKeys g.nodes) with
  | none =>
    rw [hm] at h
    simp only at h
    rw [throw_bind_ne] at h
    exact h.elim
  | some mx =>
  rw [hm] at h
  simp only at h
  rw [bind_ok] at h
  obtain ⟨nidNext, hnn, h⟩ := h
  rw [bind_ok] at h
  obtain ⟨node, hnode, h⟩ := h
  have hnid : node.nid = nidStart :=
    sv.nodeKey _ _ (mem_of_dGet?_eq_some (dGet_eq_ok_iff.1 hnode))
  rw [bind_ok] at h
  obtain ⟨⟨g1, nidCur, eidNext⟩, hloop, h⟩ := h
  simp only at h
  rw [hnid] at hloop
  have hlt : (oids.dropLast.zip (coeffs.dropLast.zip qnums)).length = qnums.length := by
    simp only [length_zip, length_dropLast]; omega
  obtain ⟨a1, a2, a3, a4, a5, a6, a7, a8⟩ := insertOpchainLoop_spec _ g nidStart nidNext _ g1 nidCur eidNext hloop sv hS hs
  rw [hlt] at a3 a4 a5 a6
  rw [map_zip_zip _ _ _ (by simp only [length_dropLast]; omega) (by simp only [length_dropLast]; omega)] at a4
  cases hol : oids.getLast? with
  | none => rw [hol] at h; cases h
  | some oLast =>
    cases hcl : coeffs.getLast? with
    | none => rw [hol, hcl] at h; cases h
    | some cLast =>
      rw [hol, hcl] at h
      simp only [if_true] at h
      obtain ⟨e2, hefresh⟩ := addConnectEdge_eq_plusEdge h
      subst e2
      simp only [Edge.mk'_eid] at hefresh
      have hE1 : nidEnd ∈ dKeys g1.nodes := by rw [a3]; exact mem_append_left _ hE
      obtain ⟨nx, hnx⟩ := exists_get_of_mem_keys a7
      obtain ⟨ny, hny⟩ := exists_get_of_mem_keys hE1
      have hne : nidCur ≠ nidEnd := by
        intro hc
        have hmem : nidCur ∈ nidStart :: idRange nidNext qnums.length := by rw [a5]; exact getLast_mem _
        rcases mem_cons.1 hmem with h1 | h1
        · exact hse (h1 ▸ hc)
        · have hnd := a1.nodesKeys
          rw [a3] at hnd
          exact (List.disjoint_of_nodup_append hnd) hE (hc ▸ h1)
      have sv2 := a1.plusEdge (e := Edge.mk' eidNext (nidCur, nidEnd) [(oLast, cLast)]) hefresh hnx hny hne
        (by simpa [Graph.term, a2] using a8) (by simpa [Graph.term, a2] using he) (mk'_opics_sorted _ _ _)
      refine ⟨nidNext, maxKeysD g.edges + 1, sv2, by simpa using a2, by rw [plusEdge_keys, a3], ?_, by omega, by omega, hS, hE⟩
      rw [plusEdge_edgeList, a4, append_assoc]
      congr 1
      have ho := getLast?_eq_some_split hol
      have hc := getLast?_eq_some_split hcl
      rw [ho, hc, List.zip_append (by simp only [length_dropLast]; omega)]
      have hlz : (idRange nidNext qnums.length).length = (oids.dropLast.zip coeffs.dropLast).length := by
        simp only [idRange_length, length_zip, length_dropLast]; omega
      rw [← ho, ← hc]
      simp only [zip_cons_cons, zip_nil_right]
      rw [chainEdges_append _ _ _ _ _ _ hlz, a6, a5]
      simp

/-! ## meaning of an attached chain -/

theorem chainCoef_cons_cons (o : Int) (os : List Int) (c : κ) (cs : List κ) (D : Word → κ) (o' : Int) (w : Word) :
    chainCoef (o :: os) (c :: cs) D (o' :: w) = if o' = o then c * chainCoef os cs D w else 0 := rfl

theorem filter_eq_single_of_nodup_map {α : Type} (f : α → Int) :
    ∀ (l : List α), (l.map f).Nodup → ∀ e ∈ l, l.filter (fun e' => decide (f e' = f e)) = [e] := by
  intro l
  induction l with
  | nil => intro _ e he; simp at he
  | cons a l ih =>
    intro hnd e he
    rw [map_cons, nodup_cons] at hnd
    rcases mem_cons.1 he with rfl | he
    · rw [filter_cons_of_pos (by simp)]
      congr 1
      rw [filter_eq_nil_iff]
      intro b hb
      simp only [decide_eq_true_eq]
      intro hc
      exact hnd.1 (hc ▸ mem_map.2 ⟨b, hb, rfl⟩)
    · have : f a ≠ f e := fun hc => hnd.1 (hc ▸ mem_map.2 ⟨e, he, rfl⟩)
      rw [filter_cons_of_neg (by simpa using this)]
      exact ih hnd.2 e he

theorem filter_src_eq_nil (E : List (Edge κ)) (y : Int) (h : ∀ e ∈ E, e.nids.1 ≠ y) :
    E.filter (fun e' => decide (e'.nids.1 = y)) = [] := by
  rw [filter_eq_nil_iff]
  intro e he
  simpa using h e he

/-- **Meaning of an attached chain.**  `E2 = E ++ (ch ++ rest)` where `ch` is a chain from `x` through the fresh
nodes `ys` to `z`, and `rest` are later edges that do not start at `x`, at a chain node or in `U`.  Then the path
sum from `x` gains the chain followed by whatever `z` denotes in `E2`. -/
theorem chain_attached_sem (E rest : List (Edge κ)) (t : Int) (U : Int → Prop)
    (hclosed : ∀ e ∈ E, U e.nids.1 → U e.nids.2)
    (x : Int) (hx : x ≠ t) (hxU : ¬ U x) (hout : ∀ e ∈ E, e.nids.1 = x → U e.nids.2)
    (eid0 : Int) (ys : List Int) (z : Int) (ocs : List (Int × κ)) (hl : ocs.length = ys.length + 1)
    (hys : (x :: ys).Nodup) (hysU : ∀ y ∈ ys, ¬ U y ∧ y ≠ t ∧ ∀ e ∈ E, e.nids.1 ≠ y)
    (hrest : ∀ e ∈ rest, ¬ U e.nids.1 ∧ e.nids.1 ≠ x ∧ e.nids.1 ∉ ys) :
    ∀ w, denE (E ++ (chainEdges eid0 x (ys ++ [z]) ocs ++ rest)) t w x =
      denE E t w x + chainCoef (ocs.map (·.1)) (ocs.map (·.2))
        (fun w' => denE (E ++ (chainEdges eid0 x (ys ++ [z]) ocs ++ rest)) t w' z) w := by
  intro w
  obtain ⟨oc0, ocs', rfl⟩ : ∃ oc0 ocs', ocs = oc0 :: ocs' := by
    cases ocs with
    | nil => simp at hl
    | cons a b => exact ⟨a, b, rfl⟩
  simp only [length_cons, Nat.add_right_cancel_iff] at hl
  set ch := chainEdges eid0 x (ys ++ [z]) (oc0 :: ocs') with hch
  have hlen : (ys ++ [z]).length = (oc0 :: ocs').length := by simp [hl]
  have hsrc : ch.map (·.nids.1) = x :: ys := by
    rw [hch, chainEdges_sources _ _ _ _ hlen, ← cons_append, dropLast_concat]
  cases w with
  | nil => simp [denE_nil, hx, chainCoef]
  | cons o w =>
    have hnewU : ∀ e ∈ ch ++ rest, ¬ U e.nids.1 := by
      intro e he
      rcases mem_append.1 he with he | he
      · have : e.nids.1 ∈ x :: ys := hsrc ▸ mem_map.2 ⟨e, he, rfl⟩
        rcases mem_cons.1 this with h1 | h1
        · rw [h1]; exact hxU
        · exact (hysU _ h1).1
      · exact (hrest e he).1
    rw [denE_root_step E (ch ++ rest) t U hclosed hnewU x hx hout]
    congr 1
    -- the single new edge leaving `x`
    cases ys with
    | nil =>
      have hoc : ocs' = [] := List.length_eq_zero_iff.1 hl
      subst hoc
      simp only [hch, nil_append, chainEdges, map_append, map_cons, map_nil, sum_append, sum_cons, sum_nil,
        Edge.mk'_nids, if_true, add_zero, chainCoef]
      rw [sum_map_eq_zero _ _ (fun e he => by simp [(hrest e he).2.1]), add_zero, Edge.mk'_single']
      simp only [opc, map_cons, map_nil, sum_cons, sum_nil, add_zero]
      by_cases ho : oc0.1 = o
      · subst ho; simp
      · have : ¬ o = oc0.1 := fun hc => ho hc.symm
        simp [ho, this]
    | cons y1 ys' =>
      obtain ⟨oc1, ocs'', rfl⟩ : ∃ oc1 ocs'', ocs' = oc1 :: ocs'' := by
        cases ocs' with
        | nil => simp at hl
        | cons a b => exact ⟨a, b, rfl⟩
      simp only [length_cons, Nat.add_right_cancel_iff] at hl
      have hch' : ch = Edge.mk' eid0 (x, y1) [oc0] :: chainEdges (eid0 + 1) y1 (ys' ++ [z]) (oc1 :: ocs'') := by
        rw [hch]; rfl
      set tl := chainEdges (eid0 + 1) y1 (ys' ++ [z]) (oc1 :: ocs'') with htl
      have hlen' : (ys' ++ [z]).length = (oc1 :: ocs'').length := by simp [hl]
      have hsrc' : tl.map (·.nids.1) = y1 :: ys' := by
        rw [htl, chainEdges_sources _ _ _ _ hlen', ← cons_append, dropLast_concat]
      -- the tail of the chain: every node has exactly one outgoing edge
      have htail := chain_sem (E ++ (ch ++ rest)) t (ys' ++ [z]) (eid0 + 1) y1 (oc1 :: ocs'') hlen' (by
        intro e he
        have hmem : e.nids.1 ∈ y1 :: ys' := hsrc' ▸ mem_map.2 ⟨e, he, rfl⟩
        obtain ⟨_, h2, h3⟩ := hysU _ hmem
        refine ⟨h2, ?_⟩
        rw [filter_append, filter_append, filter_src_eq_nil E _ h3, nil_append,
          filter_src_eq_nil rest _ (fun e' he' hc => (hrest e' he').2.2 (hc ▸ hmem)), append_nil]
        apply filter_eq_single_of_nodup_map (fun e' : Edge κ => e'.nids.1) ch
        · rw [hsrc]; exact hys
        · rw [hch']; exact mem_cons_of_mem _ he) w
      rw [hch', cons_append, map_cons, sum_cons]
      simp only [Edge.mk'_nids, if_true]
      have hz1 : ∀ e ∈ tl ++ rest, e.nids.1 ≠ x := by
        intro e he
        rcases mem_append.1 he with he | he
        · have hmem : e.nids.1 ∈ y1 :: ys' := hsrc' ▸ mem_map.2 ⟨e, he, rfl⟩
          exact fun hc => (nodup_cons.1 hys).1 (hc ▸ hmem)
        · exact (hrest e he).2.1
      rw [sum_map_eq_zero _ _ (fun e he => by simp [hz1 e he]), add_zero]
      simp only [map_cons]
      rw [chainCoef_cons_cons, ← cons_append, ← hch', htail]
      simp only [map_cons]
      have hlast : (y1 :: (ys' ++ [z])).getLast (by simp) = z := by simp
      rw [Edge.mk'_single']
      simp only [opc, map_cons, map_nil, sum_cons, sum_nil, add_zero, hlast]
      by_cases ho : oc0.1 = o
      · subst ho; simp
      · have : ¬ o = oc0.1 := fun hc => ho hc.symm
        simp [ho, this]

end Ptn.Og

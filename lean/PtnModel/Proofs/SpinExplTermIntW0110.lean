import PtnModel.Proofs.SpinExplTermIntW0110p0
import PtnModel.Proofs.SpinExplTermIntW0110p1
import PtnModel.Proofs.SpinExplTermIntW0110p2
import PtnModel.Proofs.SpinExplTermIntW0110p3
/-!
# Explicit spin-orbital molecular graph: interaction terms, spin pattern 0110, words
-/
set_option linter.unusedSectionVars false
set_option linter.unusedSimpArgs false
set_option linter.unusedVariables false
set_option linter.unusedTactic false
set_option linter.unreachableTactic false

namespace Ptn.Ham
open Ptn.Og List Ptn.Ham2

theorem sint_word_0110 (L : Int) (hL : 2 ≤ L) (i j k l : Int) (hi : 0 ≤ i) (hjL : j < L) (hk : 0 ≤ k) (hlL : l < L) (hij : i ≤ j) (hkl : k < l) :
    ∃ x, stermE L (sortTrips [(i, 0, mC), (j, 1, mC), (l, 0, mA), (k, 1, mA)]) = .ok x ∧
      STw L (intF (md i 0).toNat (md j 1).toNat (md k 1).toNat (md l 0).toNat) x := by
  rcases Int.lt_trichotomy i k with hh0 | hh0 | hh0
  · rcases Int.lt_trichotomy j l with hh1 | hh1 | hh1
    · rcases Int.lt_trichotomy j k with hh2 | hh2 | hh2
      · rcases Int.lt_trichotomy i j with hh3 | hh3 | hh3
        · exact sint_word_0110_0123 L hL _ _ _ _ (by omega) (by omega) (by omega) (by omega) (by omega)
        · obtain rfl : i = j := by omega
          exact sint_word_0110_0012 L hL _ _ _ (by omega) (by omega) (by omega) (by omega)
        · exfalso; omega
      · obtain rfl : j = k := by omega
        exact sint_word_0110_0112 L hL _ _ _ (by omega) (by omega) (by omega) (by omega)
      · exact sint_word_0110_0213 L hL _ _ _ _ (by omega) (by omega) (by omega) (by omega) (by omega)
    · obtain rfl : j = l := by omega
      exact sint_word_0110_0212 L hL _ _ _ (by omega) (by omega) (by omega) (by omega)
    · exact sint_word_0110_0312 L hL _ _ _ _ (by omega) (by omega) (by omega) (by omega) (by omega)
  · rcases Int.lt_trichotomy j l with hh1 | hh1 | hh1
    · rcases Int.lt_trichotomy j k with hh2 | hh2 | hh2
      · exfalso; omega
      · obtain rfl : i = j := by omega
        obtain rfl : i = k := by omega
        exact sint_word_0110_0001 L hL _ _ (by omega) (by omega) (by omega)
      · obtain rfl : i = k := by omega
        exact sint_word_0110_0102 L hL _ _ _ (by omega) (by omega) (by omega) (by omega)
    · obtain rfl : i = k := by omega
      obtain rfl : j = l := by omega
      exact sint_word_0110_0101 L hL _ _ (by omega) (by omega) (by omega)
    · obtain rfl : i = k := by omega
      exact sint_word_0110_0201 L hL _ _ _ (by omega) (by omega) (by omega) (by omega)
  · rcases Int.lt_trichotomy j l with hh1 | hh1 | hh1
    · rcases Int.lt_trichotomy i j with hh2 | hh2 | hh2
      · exact sint_word_0110_1203 L hL _ _ _ _ (by omega) (by omega) (by omega) (by omega) (by omega)
      · obtain rfl : i = j := by omega
        exact sint_word_0110_1102 L hL _ _ _ (by omega) (by omega) (by omega) (by omega)
      · exfalso; omega
    · rcases Int.lt_trichotomy i l with hh2 | hh2 | hh2
      · obtain rfl : j = l := by omega
        exact sint_word_0110_1202 L hL _ _ _ (by omega) (by omega) (by omega) (by omega)
      · obtain rfl : i = j := by omega
        obtain rfl : i = l := by omega
        exact sint_word_0110_1101 L hL _ _ (by omega) (by omega) (by omega)
      · exfalso; omega
    · rcases Int.lt_trichotomy i l with hh2 | hh2 | hh2
      · exact sint_word_0110_1302 L hL _ _ _ _ (by omega) (by omega) (by omega) (by omega) (by omega)
      · obtain rfl : i = l := by omega
        exact sint_word_0110_1201 L hL _ _ _ (by omega) (by omega) (by omega) (by omega)
      · rcases Int.lt_trichotomy i j with hh3 | hh3 | hh3
        · exact sint_word_0110_2301 L hL _ _ _ _ (by omega) (by omega) (by omega) (by omega) (by omega)
        · obtain rfl : i = j := by omega
          exact sint_word_0110_2201 L hL _ _ _ (by omega) (by omega) (by omega) (by omega)
        · exfalso; omega

end Ptn.Ham

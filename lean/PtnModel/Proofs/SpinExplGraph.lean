import PtnModel.Proofs.SpinExplItems
import PtnModel.Proofs.SpinExplTab
import PtnModel.Proofs.SpinExplProg
import PtnModel.Proofs.SpinExplTerms
import PtnModel.Proofs.SpinExplLab
import PtnModel.Proofs.SpinExplTermHop
import PtnModel.Proofs.SpinExplTermInt
import PtnModel.Proofs.ExplGraph
/-!
# Explicit spin-orbital molecular graph: the construction runs through and yields a valid layered graph

`spinMolExplicitGraph c tkin vint` (the graph of `spin_molecular_hamiltonian_mpo(tkin, vint, optimize=False)` before `from_opgraph`)
returns, for every `L = len(tkin) ≥ 2` and all coefficients, the graph `sexplGraph`: the edge-less node list of `generate_graph` plus the
edges `sexplEdges` (wiring edges, hopping edges, accepted interaction edges, numbered consecutively).
-/
set_option linter.unusedSectionVars false
set_option linter.unusedSimpArgs false
set_option linter.unusedVariables false

namespace Ptn.Ham
open Ptn.Og List Ptn.Ham2

variable {κ : Type} [CommRing κ] [DecidableEq κ]

/-! ## the edge specifications -/

def shopSpecs (L : Int) (tkin : List (List κ)) : List (LSpec κ) :=
  (shopItems L).map fun q => ((shopLab L q.1 q.2.1 q.2.2).1, (shopLab L q.1 q.2.1 q.2.2).2.1, (shopLab L q.1 q.2.1 q.2.2).2.2,
    t2 tkin q.1 q.2.1)

def sintSpecs (c : Consts κ) (L : Int) (vint : List (List (List (List κ)))) : List (LSpec κ) :=
  (sintItems c vint L).map fun q => ((sqLab L q).1, (sqLab L q).2.1, (sqLab L q).2.2, sqCoeff c vint q)

def swireSpecs (L : Int) : List (LSpec κ) := swireGen (fun a b o => (a, b, o, (1 : κ))) L

def stoSpec (L : Int) (x : LSpec κ) : ESpec κ :=
  ((SpinNodes.init L).nidOf x.1, (SpinNodes.init L).nidOf x.2.1, x.2.2.1, x.2.2.2)

def sallSpecs (c : Consts κ) (tkin : List (List κ)) (vint : List (List (List (List κ)))) (L : Int) : List (LSpec κ) :=
  swireSpecs L ++ (shopSpecs L tkin ++ sintSpecs c L vint)

/-- all edges of the explicit spin-orbital graph in creation order -/
def sexplEdges (c : Consts κ) (tkin : List (List κ)) (vint : List (List (List (List κ)))) (L : Int) : List (Edge κ) :=
  buildEdges ((sallSpecs c tkin vint L).map (stoSpec L)) 0

/-- the graph handed over by `generate_graph`'s constructor call: all nodes, no edges -/
def sexplG0 (L : Int) : Graph κ :=
  ⟨(SpinNodes.init L).nodeList.map fun n => (n.nid, n), [], (0, L + L - 1)⟩

def sexplGraph (c : Consts κ) (tkin : List (List κ)) (vint : List (List (List (List κ)))) (L : Int) : Graph κ :=
  (sexplEdges c tkin vint L).foldl Graph.plusEdge (sexplG0 L)

theorem swireSpecs_eq (L : Int) : (swireSpecs L : List (LSpec κ)) = (swireGen tri L).map fun y => (y.1, y.2.1, y.2.2, (1 : κ)) := by
  rw [swireGen_map]; rfl

theorem swireSpecs_mem (L : Int) (x : LSpec κ) (hx : x ∈ swireSpecs L) : x.tri ∈ swireGen tri L ∧ x.2.2.2 = 1 := by
  rw [swireSpecs_eq] at hx
  obtain ⟨y, hy, rfl⟩ := mem_map.1 hx
  exact ⟨hy, rfl⟩

/-- which side of the cut the two ends of a specification are on: wiring edges stay on one side, term edges cross -/
def SSide (x : Lab × Lab × Int) : Prop :=
  (isLeft x.1 = true ∧ isLeft x.2.1 = true) ∨ (isLeft x.1 = false ∧ isLeft x.2.1 = false) ∨ (isLeft x.1 = true ∧ isLeft x.2.1 = false)

theorem shop_item_facts (L : Int) (hL : 2 ≤ L) (q : Int × Int × Int) (hq : q ∈ shopItems L) :
    stermE L (sortTrips [(q.1, q.2.2, mC), (q.2.1, q.2.2, mA)]) = .ok (shopLab L q.1 q.2.1 q.2.2) ∧
    SOk L (shopLab L q.1 q.2.1 q.2.2) ∧ isLeft (shopLab L q.1 q.2.1 q.2.2).1 = true ∧ isLeft (shopLab L q.1 q.2.1 q.2.2).2.1 = false := by
  obtain ⟨a, b, c', d, e⟩ := mem_shopItems L q hq
  exact ⟨shopLab_eq L hL _ _ _ a b c' d e, shopLab_ok L hL _ _ _ a b c' d e⟩

theorem sint_item_facts (c : Consts κ) (vint : List (List (List (List κ)))) (L : Int) (hL : 2 ≤ L) (q : SQ)
    (hq : q ∈ sintItems c vint L) :
    stermE L (sortTrips (sqOps q)) = .ok (sqLab L q) ∧
    SOk L (sqLab L q) ∧ isLeft (sqLab L q).1 = true ∧ isLeft (sqLab L q).2.1 = false := by
  obtain ⟨hc, hv⟩ := mem_filter.1 hq
  obtain ⟨a1, a2, a3, a4, a5, a6, a7, a8, a9, a10⟩ := mem_sintCands L q hc
  have hv' := sqValid_spins c vint q hv
  exact ⟨sintLab_eq L hL _ _ _ _ _ _ _ _ a1 a2 a3 a4 a5 a6 a7 a8 a9 a10 hv',
    sintLab_ok L hL _ _ _ _ _ _ _ _ a1 a2 a3 a4 a5 a6 a7 a8 a9 a10 hv'⟩

/-- **every edge specification is structurally fine** -/
theorem sallSpecs_ok (c : Consts κ) (tkin : List (List κ)) (vint : List (List (List (List κ)))) (L : Int) (hL : 2 ≤ L) :
    ∀ x ∈ sallSpecs c tkin vint L, SOk L x.tri ∧ SSide x.tri := by
  intro x hx
  simp only [sallSpecs, mem_append] at hx
  rcases hx with h | h | h
  · obtain ⟨h1, _⟩ := swireSpecs_mem L x h
    obtain ⟨h2, h3⟩ := swire_ok L _ h1
    rcases h3 with h3 | h3
    · exact ⟨h2, Or.inl h3⟩
    · exact ⟨h2, Or.inr (Or.inl h3)⟩
  · obtain ⟨q, hq, rfl⟩ := mem_map.1 h
    obtain ⟨_, h2, h3, h4⟩ := shop_item_facts L hL q hq
    exact ⟨h2, Or.inr (Or.inr ⟨h3, h4⟩)⟩
  · obtain ⟨q, hq, rfl⟩ := mem_map.1 h
    obtain ⟨_, h2, h3, h4⟩ := sint_item_facts c vint L hL q hq
    exact ⟨h2, Or.inr (Or.inr ⟨h3, h4⟩)⟩

/-! ## the initial graph -/

theorem sexplG0_svalid (L : Int) (hL : 1 ≤ L) : SValid (sexplG0 (κ := κ) L) := by
  have h := svalid_nodes (κ := κ) (SpinNodes.init L).nodeList ⟨0, [], [], 0⟩ ⟨L + L - 1, [], [], 0⟩ (spinNodes_ids_nodup L)
    (snodeAt_idL0 L hL ▸ snodeAt_mem L _ (by simp only [sLabOk]; omega))
    (snodeAt_idRL L hL ▸ snodeAt_mem L _ (by simp only [sLabOk]; omega))
    (fun m hm => (snodeList_empty L m hm).1) (fun m hm => (snodeList_empty L m hm).2)
  exact h

theorem sexplG0_keys (L : Int) : dKeys (sexplG0 (κ := κ) L).nodes = (SpinNodes.init L).nodeList.map (·.nid) := by
  simp [sexplG0, dKeys, map_map, Function.comp_def]

theorem snidOf_mem_keys (L : Int) (a : Lab) (ha : sLabOk L a) : (SpinNodes.init L).nidOf a ∈ dKeys (sexplG0 (κ := κ) L).nodes := by
  rw [sexplG0_keys]
  exact mem_map.2 ⟨_, snodeAt_mem L a ha, rfl⟩

theorem sspecEdge_ok (L : Int) (hL : 1 ≤ L) (x : LSpec κ) (h : SOk L x.tri) (eid : Int) :
    EdgeOk (sexplG0 (κ := κ) L) (specEdge eid (stoSpec L x)) := by
  have ok1 : sLabOk L x.1 := h.ok1
  have ok2 : sLabOk L x.2.1 := h.ok2
  have hlev : x.2.1.2.2 = x.1.2.2 + 1 := h.lev
  have hpos : 0 ≤ x.1.2.2 := h.pos
  have hle : x.2.1.2.2 ≤ L := h.le
  refine ⟨snidOf_mem_keys L _ ok1, snidOf_mem_keys L _ ok2, ?_, ?_, ?_, rfl⟩
  · intro hc
    have := snidOf_inj L _ _ ok1 ok2 hc
    rw [← this] at hlev
    omega
  · intro hc
    have e : (sexplG0 (κ := κ) L).term true = (SpinNodes.init L).nidOf (11, [], L) := by
      rw [snidOf_idR L L hL (by omega)]; rfl
    rw [e] at hc
    have := snidOf_inj L _ _ ok1 (by simp only [sLabOk]; omega) hc
    have e2 : x.1.2.2 = L := by rw [this]
    omega
  · intro hc
    have e : (sexplG0 (κ := κ) L).term false = (SpinNodes.init L).nidOf (10, [], 0) := by
      rw [snidOf_idL L 0 (le_refl _) (by omega)]; rfl
    rw [e] at hc
    have := snidOf_inj L _ _ ok2 (by simp only [sLabOk]; omega) hc
    have e2 : x.2.1.2.2 = 0 := by rw [this]
    omega

/-! ## the graph -/

section graph
variable (c : Consts κ) (tkin : List (List κ)) (vint : List (List (List (List κ)))) (L : Int)

theorem sexplEdges_specs (e : Edge κ) (he : e ∈ sexplEdges c tkin vint L) :
    ∃ x ∈ sallSpecs c tkin vint L, ∃ eid, e = specEdge eid (stoSpec L x) := by
  obtain ⟨s, hs, eid, rfl⟩ := mem_buildEdges _ _ _ he
  obtain ⟨x, hx, rfl⟩ := mem_map.1 hs
  exact ⟨x, hx, eid, rfl⟩

theorem sspecs_explEdges (x : LSpec κ) (hx : x ∈ sallSpecs c tkin vint L) :
    ∃ eid, specEdge eid (stoSpec L x) ∈ sexplEdges c tkin vint L :=
  buildEdges_mem _ _ _ (mem_map.2 ⟨x, hx, rfl⟩)

theorem sexplGraph_facts (hL : 2 ≤ L) :
    (sexplEdges c tkin vint L).foldlM (fun g e => g.addConnectEdge e) (sexplG0 L) = .ok (sexplGraph c tkin vint L) ∧
    SValid (sexplGraph c tkin vint L) ∧ (sexplGraph c tkin vint L).edgeList = sexplEdges c tkin vint L ∧
    dKeys (sexplGraph c tkin vint L).nodes = dKeys (sexplG0 (κ := κ) L).nodes ∧
    (sexplGraph c tkin vint L).nidTerminal = (0, L + L - 1) ∧
    ∀ k, (dGet? (sexplGraph c tkin vint L).nodes k).map (·.qnum) = (dGet? (sexplG0 (κ := κ) L).nodes k).map (·.qnum) := by
  have h := foldl_plusEdge (sexplEdges c tkin vint L) (sexplG0 L) (sexplG0_svalid L (by omega))
    (fun e _ hc => absurd hc (by simp [sexplG0, dKeys]))
    (buildEdges_nodup _ _)
    (fun e he => by
      obtain ⟨x, hx, eid, rfl⟩ := sexplEdges_specs c tkin vint L e he
      exact sspecEdge_ok L (by omega) x (sallSpecs_ok c tkin vint L hL x hx).1 eid)
  exact ⟨h.1, h.2.1, by rw [sexplGraph, h.2.2.1]; simp [sexplG0, Graph.edgeList], h.2.2.2.1, h.2.2.2.2.1, h.2.2.2.2.2⟩

/-- the level of a node id: the bond index of its label -/
def sexplLevel (L : Int) (x : Int) : Int := ((SpinNodes.init L).labOf x).2.2

theorem sexplGraph_lev (hL : 2 ≤ L) : Lev (sexplGraph c tkin vint L) (sexplLevel L) := by
  intro e he
  rw [(sexplGraph_facts c tkin vint L hL).2.2.1] at he
  obtain ⟨x, hx, eid, rfl⟩ := sexplEdges_specs c tkin vint L e he
  have ok := (sallSpecs_ok c tkin vint L hL x hx).1
  show sexplLevel L ((SpinNodes.init L).nidOf x.2.1) = sexplLevel L ((SpinNodes.init L).nidOf x.1) + 1
  unfold sexplLevel
  have ok1 : sLabOk L x.1 := ok.ok1
  have ok2 : sLabOk L x.2.1 := ok.ok2
  rw [slabOf_nidOf L _ ok1, slabOf_nidOf L _ ok2]
  exact ok.lev

/-- **the explicit spin-orbital graph is valid** (structurally valid and layered, hence it passes `is_consistent`) -/
theorem sexplGraph_valid (hL : 2 ≤ L) : Valid (sexplGraph c tkin vint L) :=
  valid_of_lev (sexplGraph_facts c tkin vint L hL).2.1 (sexplGraph_lev c tkin vint L hL)

end graph

/-! ## the construction returns this graph -/

theorem swireSpecs_pos (L : Int) (hL : 2 ≤ L) : 1 ≤ (swireSpecs (κ := κ) L).length := by
  rw [swireSpecs_eq, length_map]
  apply List.length_pos_of_mem (a := tri (10, [], 0) (10, [], 0 + 1) sId)
  unfold swireGen
  apply mem_append_left
  unfold sseg1
  exact mem_flatMap.2 ⟨0, mem_pyRange.2 ⟨le_refl _, by omega⟩, mem_singleton.2 rfl⟩

theorem sgenerateGraph_ok (L : Int) (hL : 2 ≤ L) :
    (SpinNodes.init L).generateGraph (κ := κ) =
      .ok ((buildEdges ((swireSpecs (κ := κ) L).map (stoSpec L)) 0).foldl Graph.plusEdge (sexplG0 L)) ∨
    ∃ e, (buildEdges ((swireSpecs (κ := κ) L).map (stoSpec L)) 0).foldlM (fun g e => g.addConnectEdge e) (sexplG0 L) = .error e := by
  cases hw : (buildEdges ((swireSpecs (κ := κ) L).map (stoSpec L)) 0).foldlM (fun g e => g.addConnectEdge e) (sexplG0 L) with
  | error e => exact Or.inr ⟨e, rfl⟩
  | ok gW =>
    left
    have hgW := foldlM_acE_ok _ _ _ hw
    unfold SpinNodes.generateGraph
    have hLL : (SpinNodes.init L).L = L := rfl
    have T := sTab L
    have h0 : dGet (SpinNodes.init L).identityL 0 = .ok ⟨0, [], [], 0⟩ := by
      rw [T.idL 0 (le_refl _) (by omega), snodeAt_idL0 L (by omega)]
    have h1 : dGet (SpinNodes.init L).identityR L = .ok ⟨L + L - 1, [], [], 0⟩ := by
      rw [T.idR L (by omega) (by omega), snodeAt_idRL L (by omega)]
    rw [h0, hLL, h1]
    simp only [ok_bind]
    have hmk : Graph.mk' (SpinNodes.init L).nodeList ([] : List (Edge κ)) [0, L + L - 1] = .ok (sexplG0 L) := by
      have := graph_mk'_ok (κ := κ) (SpinNodes.init L).nodeList ⟨0, [], [], 0⟩ ⟨L + L - 1, [], [], 0⟩ (spinNodes_ids_nodup L)
        (snodeAt_idL0 L (by omega) ▸ snodeAt_mem L _ (by simp only [sLabOk]; omega))
        (snodeAt_idRL L (by omega) ▸ snodeAt_mem L _ (by simp only [sLabOk]; omega))
      exact this
    rw [hmk]
    simp only [ok_bind]
    have hwire := swire_emits (κ := κ) L T (sexplG0 L) 0
    have hspec : swireGen (fun a b o => ((SpinNodes.init L).nidOf a, (SpinNodes.init L).nidOf b, o, (1 : κ))) L
        = (swireSpecs (κ := κ) L).map (stoSpec L) := by
      unfold swireSpecs
      rw [swireGen_map]
      rfl
    rw [hspec, hw] at hwire
    rw [hwire, hgW]
    rfl

/-- skipping the rejected candidates of a loop is looping over the accepted ones -/
theorem foldlM_skip {ι : Type} (p : ι → Bool) (F : Graph κ → ι → Except Err (Graph κ)) : ∀ (items : List ι) (g : Graph κ),
    items.foldlM (fun g q => if (!p q) = true then pure g else F g q) g = (items.filter p).foldlM F g := by
  intro items
  induction items with
  | nil => intro g; rfl
  | cons q items ih =>
    intro g
    rw [foldlM_cons]
    by_cases hp : p q = true
    · rw [filter_cons_of_pos hp, foldlM_cons]
      simp only [hp, Bool.not_true, Bool.false_eq_true, if_false]
      cases F g q with
      | error e => rfl
      | ok g' => exact ih g'
    · have hp' : p q = false := by simpa using hp
      rw [filter_cons_of_neg hp]
      simp only [hp', Bool.not_false, if_true]
      exact ih g

/-- **`spin_molecular_hamiltonian_mpo(tkin, vint, optimize=False)` builds its graph for every `L ≥ 2` and all coefficients**: the
terminal look-ups, the `OpGraph` constructor, every look-up, assertion and `add_connect_edge` of `generate_graph`, and every look-up,
assertion, `to_spin_operator` call and `add_connect_edge` of the `2 L²` hopping calls and of all interaction calls of
`_spin_molecular_hamiltonian_graph_add_term` succeed; the result is `sexplGraph`. -/
theorem spinMolExplicitGraph_ok (c : Consts κ) (tkin : List (List κ)) (vint : List (List (List (List κ))))
    (hL : 2 ≤ (tkin.length : Int)) :
    spinMolExplicitGraph c tkin vint = .ok (SpinNodes.init tkin.length, sexplGraph c tkin vint tkin.length) := by
  obtain ⟨hfold, _, _, _, _, _⟩ := sexplGraph_facts c tkin vint (tkin.length : Int) hL
  generalize hLdef : (tkin.length : Int) = L at *
  have T := sTab L
  have hE : sexplEdges c tkin vint L =
      buildEdges ((swireSpecs (κ := κ) L).map (stoSpec L)) 0 ++
        (buildEdges ((shopSpecs L tkin).map (stoSpec L)) (0 + (((swireSpecs (κ := κ) L).map (stoSpec L)).length : Int)) ++
         buildEdges ((sintSpecs c L vint).map (stoSpec L))
          (0 + (((swireSpecs (κ := κ) L).map (stoSpec L)).length : Int) + (((shopSpecs L tkin).map (stoSpec L)).length : Int))) := by
    unfold sexplEdges sallSpecs
    rw [map_append, map_append, buildEdges_append, buildEdges_append]
  have hEG : sexplGraph c tkin vint L = (sexplEdges c tkin vint L).foldl Graph.plusEdge (sexplG0 L) := rfl
  rw [hE] at hfold hEG
  obtain ⟨f1, f23⟩ := foldlM_acE_append _ _ _ _ hfold
  obtain ⟨f2, f3⟩ := foldlM_acE_append _ _ _ _ f23
  set gW := (buildEdges ((swireSpecs (κ := κ) L).map (stoSpec L)) 0).foldl Graph.plusEdge (sexplG0 L) with hgW
  set nW := ((swireSpecs (κ := κ) L).map (stoSpec L)).length with hnW
  set gH := (buildEdges ((shopSpecs L tkin).map (stoSpec L)) (0 + (nW : Int))).foldl Graph.plusEdge gW with hgH
  set nH := ((shopSpecs L tkin).map (stoSpec L)).length with hnH
  have hnW1 : 1 ≤ nW := by rw [hnW, length_map]; exact swireSpecs_pos L hL
  have kW : dKeys gW.edges = (List.range nW).map fun (k : Nat) => (k : Int) := by
    rw [hgW, foldl_plusEdge_ekeys, buildEdges_eids, ← hnW]
    simp [sexplG0, dKeys]
  have kH : dKeys gH.edges = (List.range (nW + nH)).map fun (k : Nat) => (k : Int) := by
    rw [hgH, foldl_plusEdge_ekeys, buildEdges_eids, kW, range_add, map_append, map_map]
    congr 1
    apply map_congr_left
    intro k _
    simp only [Function.comp]
    push_cast; omega
  -- generate_graph
  have hgen : (SpinNodes.init L).generateGraph (κ := κ) = .ok gW := by
    rcases sgenerateGraph_ok (κ := κ) L hL with h | ⟨e, he⟩
    · exact h
    · rw [f1] at he; cases he
  -- the hopping loop
  have hhop : (shopItems L).foldlM
      (fun g (q : Int × Int × Int) => spinAddTerm g (SpinNodes.init L) [(q.1, q.2.2, mC), (q.2.1, q.2.2, mA)] (t2 tkin q.1 q.2.1)) gW
        = .ok gH := by
    rw [terms_fold _ (fun q => stoSpec L ((shopLab L q.1 q.2.1 q.2.2).1, (shopLab L q.1 q.2.1 q.2.2).2.1,
        (shopLab L q.1 q.2.1 q.2.2).2.2, t2 tkin q.1 q.2.1)) (shopItems L) ?_ gW nW hnW1 kW]
    · have : (shopItems L).map (fun q => stoSpec L ((shopLab L q.1 q.2.1 q.2.2).1, (shopLab L q.1 q.2.1 q.2.2).2.1,
          (shopLab L q.1 q.2.1 q.2.2).2.2, t2 tkin q.1 q.2.1)) = (shopSpecs L tkin).map (stoSpec L) := by
        unfold shopSpecs; rw [map_map]; rfl
      rw [this]
      have e0 : (nW : Int) = 0 + (nW : Int) := by omega
      rw [e0]
      exact f2
    · intro g m q hq hm
      obtain ⟨h1, h2, _, _⟩ := shop_item_facts L hL q hq
      rw [spinAddTerm_lab L T g m hm _ _ _ h1 h2.ok1 h2.ok2, Ptn.Ch.edgeMk'_single]
      rfl
  -- the interaction loop
  have hint : (sintItems c vint L).foldlM
      (fun g (q : SQ) => spinAddTerm g (SpinNodes.init L) (sqOps q) (sqCoeff c vint q)) gH
        = .ok (sexplGraph c tkin vint L) := by
    rw [terms_fold _ (fun q => stoSpec L ((sqLab L q).1, (sqLab L q).2.1, (sqLab L q).2.2, sqCoeff c vint q))
      (sintItems c vint L) ?_ gH (nW + nH) (by omega) kH]
    · have : (sintItems c vint L).map (fun q => stoSpec L ((sqLab L q).1, (sqLab L q).2.1, (sqLab L q).2.2, sqCoeff c vint q))
          = (sintSpecs c L vint).map (stoSpec L) := by
        unfold sintSpecs; rw [map_map]; rfl
      rw [this]
      have e0 : ((nW + nH : Nat) : Int) = 0 + (nW : Int) + (nH : Int) := by push_cast; omega
      rw [e0]
      exact f3
    · intro g m q hq hm
      obtain ⟨h1, h2, _, _⟩ := sint_item_facts c vint L hL q hq
      rw [spinAddTerm_lab L T g m hm _ _ _ h1 h2.ok1 h2.ok2, Ptn.Ch.edgeMk'_single]
      rfl
  unfold spinMolExplicitGraph
  simp only [hLdef]
  have hdec : decide (L ≥ 2) = true := by simpa using hL
  rw [hdec]
  simp only [pyAssert_true_bind]
  rw [hgen]
  simp only [ok_bind]
  show (shopItems L).foldlM _ gW >>= _ = _
  have hhop' : (shopItems L).foldlM (fun g (q : Int × Int × Int) =>
      match q with
      | (i, j, s) => spinAddTerm g (SpinNodes.init L) [(i, s, mC), (j, s, mA)] (t2 tkin i j)) gW = .ok gH := hhop
  rw [hhop']
  simp only [ok_bind]
  show (sintCands L).foldlM _ gH >>= _ = _
  have hint' : (sintCands L).foldlM (fun g (q : SQ) =>
      match q with
      | ((i, s), (j, t), (k, m), (l, u)) =>
        match getVintCoeff c vint (i, j, k, l) (s, t, m, u) with
        | (coeff, valid) =>
          if (!valid) = true then pure g
          else spinAddTerm g (SpinNodes.init L) [(i, s, mC), (j, t, mC), (l, u, mA), (k, m, mA)] coeff) gH
      = .ok (sexplGraph c tkin vint L) := by
    have := foldlM_skip (κ := κ) (sqValid c vint)
      (fun g q => spinAddTerm g (SpinNodes.init L) (sqOps q) (sqCoeff c vint q)) (sintCands L) gH
    rw [← hint]
    exact this
  rw [hint']
  rfl

section
variable (c : Consts κ) (tkin : List (List κ)) (vint : List (List (List (List κ)))) (L : Int)

theorem ssource_nid (hL : 2 ≤ L) : (SpinNodes.init L).nidOf (10, [], 0) = 0 := snidOf_idL L 0 (le_refl _) (by omega)
theorem ssink_nid (hL : 2 ≤ L) : (SpinNodes.init L).nidOf (11, [], L) = L + L - 1 := snidOf_idR L L (by omega) (by omega)

theorem swire_spec_mem (y : Lab × Lab × Int) (hy : y ∈ swireGen tri L) :
    ((y.1, y.2.1, y.2.2, (1 : κ)) : LSpec κ) ∈ sallSpecs c tkin vint L := by
  apply mem_append_left
  rw [swireSpecs_eq]
  exact mem_map.2 ⟨y, hy, rfl⟩

end

end Ptn.Ham

import Mathlib.LinearAlgebra.Matrix.NonsingularInverse
import PtnModel.Proofs.Evo2GaugeBond
/-!
# The QR factorisation of a full-rank matrix is unique up to a unitary

* `sq_iso_unitary` : a square matrix with orthonormal columns has orthonormal rows;
* `qr_gauge_left`  : if `P` and `Q'` are left isometries of the same shape and `Q' · C' = P · C1` where `C'` has a right
  inverse, then `Q' = P · U` and `C' = Uᴴ C1` for a unitary `U` (explicitly `U = C1 · C'⁻¹`).
-/
set_option linter.unusedSectionVars false

namespace Ptn.Evo
open Ptn Ptn.Ortho Finset

variable {𝕜 : Type} [RCLike 𝕜]

/-- a square matrix with `UᴴU = 1` satisfies `U Uᴴ = 1` -/
theorem sq_iso_unitary (n : Nat) (f : Nat → Nat → 𝕜)
    (h : ∀ p p', p < n → p' < n → ∑ q ∈ range n, star (f q p) * f q p' = if p = p' then 1 else 0) :
    ∀ q q', q < n → q' < n → ∑ p ∈ range n, f q p * star (f q' p) = if q = q' then 1 else 0 := by
  let A : Matrix (Fin n) (Fin n) 𝕜 := fun i j => f i j
  let B : Matrix (Fin n) (Fin n) 𝕜 := fun i j => star (f j i)
  have hBA : B * A = 1 := by
    ext i j
    rw [Matrix.mul_apply, Matrix.one_apply]
    have := h i j i.2 j.2
    rw [Finset.sum_range] at this
    rw [this]
    by_cases hij : i = j
    · rw [if_pos hij, if_pos (by rw [hij])]
    · rw [if_neg hij, if_neg (fun e => hij (Fin.ext e))]
  have hAB : A * B = 1 := mul_eq_one_comm.1 hBA
  intro q q' hq hq'
  have := congrFun (congrFun hAB ⟨q, hq⟩) ⟨q', hq'⟩
  rw [Matrix.mul_apply, Matrix.one_apply] at this
  rw [Finset.sum_range]
  rw [this]
  by_cases hqq : q = q'
  · rw [if_pos hqq, if_pos (Fin.ext hqq)]
  · rw [if_neg hqq, if_neg (fun e => hqq (Fin.mk.inj e))]

/-- **QR gauge freedom (left).**  `P`, `Q'` left isometries of the same shape, `Q' · C' = P · C1`, `C'` right-invertible.
Then with the square matrix `U = C1 · C'⁻¹`: `U Uᴴ = 1`, `Q' = P · U` and `C' = Uᴴ · C1`. -/
theorem qr_gauge_left {P Q' : T3 𝕜} {C1 C' Cinv : Mat 𝕜} (hP : LeftIso P) (hQ' : LeftIso Q')
    (q0 : Q'.d0 = P.d0) (q1 : Q'.d1 = P.d1) (q2 : Q'.d2 = P.d2)
    (hprod : ∀ s a j, s < P.d0 → a < P.d1 → j < C1.n →
      ∑ p ∈ range P.d2, Q'.f s a p * C'.f p j = ∑ q ∈ range P.d2, P.f s a q * C1.f q j)
    (hinv : ∀ p p', p < P.d2 → p' < P.d2 → ∑ j ∈ range C1.n, C'.f p j * Cinv.f j p' = if p = p' then 1 else 0) :
    ∃ U : Mat 𝕜, U.m = P.d2 ∧ U.n = P.d2 ∧
      (∀ q r, q < P.d2 → r < P.d2 → ∑ p ∈ range P.d2, U.f q p * star (U.f r p) = if q = r then 1 else 0) ∧
      (∀ s a p, s < P.d0 → a < P.d1 → p < P.d2 → Q'.f s a p = ∑ q ∈ range P.d2, P.f s a q * U.f q p) ∧
      (∀ p j, p < P.d2 → j < C1.n → C'.f p j = ∑ r ∈ range P.d2, star (U.f r p) * C1.f r j) := by
  let U : Mat 𝕜 := ⟨P.d2, P.d2, fun q p => ∑ j ∈ range C1.n, C1.f q j * Cinv.f j p⟩
  -- `Q' = P · U`
  have hQU : ∀ s a p, s < P.d0 → a < P.d1 → p < P.d2 → Q'.f s a p = ∑ q ∈ range P.d2, P.f s a q * U.f q p := by
    intro s a p hs ha hp
    have e0 : Q'.f s a p = ∑ p' ∈ range P.d2, Q'.f s a p' * (if p' = p then 1 else 0) := by
      have e : ∀ p' ∈ range P.d2, Q'.f s a p' * (if p' = p then (1 : 𝕜) else 0) = if p = p' then Q'.f s a p' else 0 := by
        intro p' _
        by_cases h : p' = p
        · rw [if_pos h, if_pos h.symm, mul_one]
        · rw [if_neg h, if_neg (fun e => h e.symm), mul_zero]
      rw [sum_congr rfl e, sum_ite_eq (range P.d2) p, if_pos (mem_range.2 hp)]
    rw [e0]
    have e1 : ∀ p' ∈ range P.d2, Q'.f s a p' * (if p' = p then (1 : 𝕜) else 0) =
        ∑ j ∈ range C1.n, (Q'.f s a p' * C'.f p' j) * Cinv.f j p := by
      intro p' hp'
      rw [← hinv p' p (mem_range.1 hp') hp, mul_sum]
      exact sum_congr rfl fun j _ => by ring
    rw [sum_congr rfl e1, sum_comm]
    have e2 : ∀ j ∈ range C1.n, ∑ p' ∈ range P.d2, (Q'.f s a p' * C'.f p' j) * Cinv.f j p =
        ∑ q ∈ range P.d2, P.f s a q * (C1.f q j * Cinv.f j p) := by
      intro j hj
      rw [← sum_mul, hprod s a j hs ha (mem_range.1 hj), sum_mul]
      exact sum_congr rfl fun q _ => by ring
    rw [sum_congr rfl e2, sum_comm]
    refine sum_congr rfl fun q _ => ?_
    show _ = P.f s a q * ∑ j ∈ range C1.n, C1.f q j * Cinv.f j p
    rw [mul_sum]
  -- Gram matrix of `P · X` for a left isometry `P`
  have hgram : ∀ (X Y : Nat → 𝕜), ∑ s ∈ range P.d0, ∑ a ∈ range P.d1,
      star (∑ q ∈ range P.d2, P.f s a q * X q) * ∑ q' ∈ range P.d2, P.f s a q' * Y q' =
      ∑ q ∈ range P.d2, star (X q) * Y q := by
    intro X Y
    have e1 : ∀ s ∈ range P.d0, ∀ a ∈ range P.d1,
        star (∑ q ∈ range P.d2, P.f s a q * X q) * ∑ q' ∈ range P.d2, P.f s a q' * Y q' =
        ∑ q ∈ range P.d2, ∑ q' ∈ range P.d2, star (X q) * Y q' * (star (P.f s a q) * P.f s a q') := by
      intro s _ a _
      rw [star_sum, sum_mul]
      refine sum_congr rfl fun q _ => ?_
      rw [mul_sum]
      refine sum_congr rfl fun q' _ => ?_
      rw [star_mul']
      ring
    rw [sum_congr rfl fun s hs => sum_congr rfl fun a ha => e1 s hs a ha]
    have e2 : ∀ s ∈ range P.d0, (∑ a ∈ range P.d1, ∑ q ∈ range P.d2, ∑ q' ∈ range P.d2,
        star (X q) * Y q' * (star (P.f s a q) * P.f s a q')) =
        ∑ q ∈ range P.d2, ∑ q' ∈ range P.d2, ∑ a ∈ range P.d1,
          star (X q) * Y q' * (star (P.f s a q) * P.f s a q') := by
      intro s _
      rw [sum_comm]
      exact sum_congr rfl fun q _ => sum_comm
    rw [sum_congr rfl e2, sum_comm]
    refine sum_congr rfl fun q hq => ?_
    rw [sum_comm]
    have e3 : ∀ q' ∈ range P.d2, ∑ s ∈ range P.d0, ∑ a ∈ range P.d1,
        star (X q) * Y q' * (star (P.f s a q) * P.f s a q') = if q = q' then star (X q) * Y q' else 0 := by
      intro q' hq'
      have : ∑ s ∈ range P.d0, ∑ a ∈ range P.d1, star (X q) * Y q' * (star (P.f s a q) * P.f s a q') =
          star (X q) * Y q' * ∑ s ∈ range P.d0, ∑ a ∈ range P.d1, star (P.f s a q) * P.f s a q' := by
        rw [mul_sum]
        exact sum_congr rfl fun s _ => by rw [mul_sum]
      rw [this, hP q q' (mem_range.1 hq) (mem_range.1 hq')]
      by_cases h : q = q'
      · rw [if_pos h, if_pos h, mul_one]
      · rw [if_neg h, if_neg h, mul_zero]
    rw [sum_congr rfl e3, sum_ite_eq (range P.d2) q, if_pos hq]
  -- `UᴴU = 1`
  have hUiso : ∀ p p', p < P.d2 → p' < P.d2 → ∑ q ∈ range P.d2, star (U.f q p) * U.f q p' = if p = p' then 1 else 0 := by
    intro p p' hp hp'
    rw [← hgram (fun q => U.f q p) (fun q => U.f q p'), ← hQ' p p' (by rw [q2]; exact hp) (by rw [q2]; exact hp'), q0, q1]
    refine sum_congr rfl fun s hs => sum_congr rfl fun a ha => ?_
    rw [hQU s a p (mem_range.1 hs) (mem_range.1 ha) hp, hQU s a p' (mem_range.1 hs) (mem_range.1 ha) hp']
  refine ⟨U, rfl, rfl, sq_iso_unitary P.d2 U.f hUiso, hQU, ?_⟩
  -- `C' = Uᴴ C1`
  intro p j hp hj
  have e0 : C'.f p j = ∑ p' ∈ range P.d2, (if p = p' then 1 else 0) * C'.f p' j := by
    have e : ∀ p' ∈ range P.d2, (if p = p' then (1 : 𝕜) else 0) * C'.f p' j = if p = p' then C'.f p' j else 0 := by
      intro p' _
      by_cases h : p = p'
      · rw [if_pos h, if_pos h, one_mul]
      · rw [if_neg h, if_neg h, zero_mul]
    rw [sum_congr rfl e, sum_ite_eq (range P.d2) p, if_pos (mem_range.2 hp)]
  rw [e0]
  have e1 : ∀ p' ∈ range P.d2, (if p = p' then (1 : 𝕜) else 0) * C'.f p' j =
      ∑ s ∈ range P.d0, ∑ a ∈ range P.d1, star (Q'.f s a p) * (Q'.f s a p' * C'.f p' j) := by
    intro p' hp'
    rw [← hQ' p p' (by rw [q2]; exact hp) (by rw [q2]; exact mem_range.1 hp'), q0, q1, sum_mul]
    refine sum_congr rfl fun s _ => ?_
    rw [sum_mul]
    exact sum_congr rfl fun a _ => by ring
  rw [sum_congr rfl e1, sum_comm]
  have e2 : ∀ s ∈ range P.d0, (∑ p' ∈ range P.d2, ∑ a ∈ range P.d1, star (Q'.f s a p) * (Q'.f s a p' * C'.f p' j)) =
      ∑ a ∈ range P.d1, star (∑ q ∈ range P.d2, P.f s a q * U.f q p) * ∑ q' ∈ range P.d2, P.f s a q' * C1.f q' j := by
    intro s hs
    rw [sum_comm]
    refine sum_congr rfl fun a ha => ?_
    rw [← mul_sum, hprod s a j (mem_range.1 hs) (mem_range.1 ha) hj, hQU s a p (mem_range.1 hs) (mem_range.1 ha) hp]
  rw [sum_congr rfl e2, hgram (fun q => U.f q p) (fun q => C1.f q j)]

end Ptn.Evo

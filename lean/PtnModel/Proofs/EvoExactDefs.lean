import PtnModel.Proofs.EvoExactSpec
import PtnModel.Proofs.EvoRevCalls
/-!
# Exactness of single-site TDVP on a complete manifold: vocabulary

* `ExpLaw E`            : the scalar exponential oracle satisfies `E(a+b) = E(a) E(b)`, `E(0) = 1`;
* `setA s c X`          : the sweep state `s` with the tensor of site `c` replaced by `X`;
* `SqL qd s j`, `SqR qd s j` : site `j` has the dimensions of a square left / right isometry
                          (`d · D_j = D_{j+1}` resp. `D_j = d · D_{j+1}`);
* `SameAmp qd L s t`    : the sweep states `s`, `t` hold the same dense state;
* `DenseEig H d μ w`    : `w` is an eigenvector of the dense operator of `H` with the real eigenvalue `μ`;
* `DenseExp H d E g ψ φ`: `φ = E(g · H_dense) ψ` — for EVERY decomposition `ψ = ∑ b_f w_f` into eigenvectors of the dense
                          operator, `φ = ∑ E(g μ_f) b_f w_f` (the intrinsic form of `C15.expm_hermitian_exact`);
* `SiteSpec k H s c γ X`: the centre tensor of `s` is `E(γ · H_eff) X` in the spectral sense (`Spec`), `H_eff` the effective
                          one-site operator of `s` at `c`.
-/
set_option linter.unusedSectionVars false

namespace Ptn.Evo
open Ptn Ptn.BondOps Ptn.Ortho Ptn.Env Ptn.Krylov Ptn.Dense Finset

variable {𝕜 : Type} [RCLike 𝕜] [DecidableEq 𝕜]
variable {k : EvoKernels 𝕜 ℝ} {H : MPO 𝕜} {qd : List Int} {numiter : Nat}

/-- functional equation of the scalar exponential oracle (true for `np.exp`) -/
structure ExpLaw (E : 𝕜 → 𝕜) : Prop where
  add : ∀ a b : 𝕜, E (a + b) = E a * E b
  zero : E 0 = 1

/-- `s` with the tensor of site `c` replaced by `X` -/
abbrev setA (s : Sweep 𝕜) (c : Nat) (X : T3 𝕜) : Sweep 𝕜 := ⟨s.A.setIfInBounds c X, s.qD, s.BL, s.BR⟩

/-- site `j` has the dimensions of a square left isometry: `d · D_j = D_{j+1}` -/
def SqL (qd : List Int) (s : Sweep 𝕜) (j : Nat) : Prop := qd.length * (getQ s j).length = (getQ s (j + 1)).length

/-- site `j` has the dimensions of a square right isometry: `D_j = d · D_{j+1}` -/
def SqR (qd : List Int) (s : Sweep 𝕜) (j : Nat) : Prop := (getQ s j).length = qd.length * (getQ s (j + 1)).length

/-- the bond dimensions of `s` are those of a complete manifold with the centre `m`: the sites left of `m` are square as
left isometries, the sites right of `m` square as right isometries -/
def Complete (qd : List Int) (L m : Nat) (s : Sweep 𝕜) : Prop :=
  m < L ∧ (∀ j, j < m → SqL qd s j) ∧ (∀ j, m < j → j < L → SqR qd s j)

/-- same bond dimensions -/
def SameDims (s t : Sweep 𝕜) : Prop := ∀ j, (getQ t j).length = (getQ s j).length

/-- `t` holds the same dense state as `s` -/
def SameAmp (qd : List Int) (L : Nat) (s t : Sweep 𝕜) : Prop :=
  ∀ σ, σ ∈ digitsU qd.length L → (cur qd t).amp σ = (cur qd s).amp σ

/-- `w` is an eigenvector of the dense operator of `H` with the real eigenvalue `μ` -/
def DenseEig (H : MPO 𝕜) (d : Nat) (μ : ℝ) (w : List Nat → 𝕜) : Prop :=
  ∀ σ, σ ∈ digitsU d H.A.length → ∑ τ ∈ digitsU d H.A.length, H.elem σ τ * w τ = ((μ : ℝ) : 𝕜) * w σ

/-- `φ = E(g · H_dense) ψ`: for every decomposition of `ψ` into eigenvectors of the dense operator -/
def DenseExp (H : MPO 𝕜) (d : Nat) (E : 𝕜 → 𝕜) (g : 𝕜) (ψ φ : List Nat → 𝕜) : Prop :=
  ∀ (K : Nat) (μ : Nat → ℝ) (b : Nat → 𝕜) (w : Nat → List Nat → 𝕜),
    (∀ f, f < K → DenseEig H d (μ f) (w f)) →
    (∀ σ, σ ∈ digitsU d H.A.length → ψ σ = ∑ f ∈ range K, b f * w f σ) →
    ∀ σ, σ ∈ digitsU d H.A.length → φ σ = ∑ f ∈ range K, E (g * ((μ f : ℝ) : 𝕜)) * b f * w f σ

/-- the centre tensor of `s` is `E(γ · H_eff) X` -/
def SiteSpec (k : EvoKernels 𝕜 ℝ) (H : MPO 𝕜) (s : Sweep 𝕜) (c : Nat) (γ : 𝕜) (X : T3 𝕜) : Prop :=
  X.d0 = (getA s c).d0 ∧ X.d1 = (getA s c).d1 ∧ X.d2 = (getA s c).d2 ∧
  Spec ((getA s c).d0 * (getA s c).d1 * (getA s c).d2)
    (localHFun (getBL s c) (getBR s c) (H.A.getD c zeroT4) (getA s c).d0 (getA s c).d1 (getA s c).d2) k.dexp γ
    (flat3 X) (flat3 (getA s c))

omit [DecidableEq 𝕜] in
theorem SameAmp.refl (L : Nat) (s : Sweep 𝕜) : SameAmp qd L s s := fun _ _ => rfl

omit [DecidableEq 𝕜] in
theorem SameAmp.trans {L : Nat} {s t u : Sweep 𝕜} (h1 : SameAmp qd L s t) (h2 : SameAmp qd L t u) : SameAmp qd L s u :=
  fun σ hσ => (h2 σ hσ).trans (h1 σ hσ)

omit [DecidableEq 𝕜] in
theorem SameAmp.symm {L : Nat} {s t : Sweep 𝕜} (h : SameAmp qd L s t) : SameAmp qd L t s :=
  fun σ hσ => (h σ hσ).symm

omit [DecidableEq 𝕜] in
theorem SameDims.refl (s : Sweep 𝕜) : SameDims s s := fun _ => rfl

omit [DecidableEq 𝕜] in
theorem SameDims.trans {s t u : Sweep 𝕜} (h1 : SameDims s t) (h2 : SameDims t u) : SameDims s u :=
  fun j => (h2 j).trans (h1 j)

omit [DecidableEq 𝕜] in
theorem SameDims.symm {s t : Sweep 𝕜} (h : SameDims s t) : SameDims t s := fun j => (h j).symm

omit [DecidableEq 𝕜] in
theorem Complete.of_dims {L m : Nat} {s t : Sweep 𝕜} (h : Complete qd L m s) (hd : SameDims s t) : Complete qd L m t := by
  obtain ⟨hm, hl, hr⟩ := h
  refine ⟨hm, fun j hj => ?_, fun j hj hj' => ?_⟩
  · have := hl j hj
    unfold SqL at this ⊢
    rw [hd j, hd (j + 1)]; exact this
  · have := hr j hj hj'
    unfold SqR at this ⊢
    rw [hd j, hd (j + 1)]; exact this

omit [DecidableEq 𝕜] in
theorem DenseExp.congr {d : Nat} {E : 𝕜 → 𝕜} {g : 𝕜} {ψ φ ψ' φ' : List Nat → 𝕜} (h : DenseExp H d E g ψ φ)
    (hψ : ∀ σ, σ ∈ digitsU d H.A.length → ψ' σ = ψ σ) (hφ : ∀ σ, σ ∈ digitsU d H.A.length → φ' σ = φ σ) :
    DenseExp H d E g ψ' φ' := by
  intro K μ b w hw hdec σ hσ
  rw [hφ σ hσ]
  exact h K μ b w hw (fun τ hτ => by rw [← hψ τ hτ]; exact hdec τ hτ) σ hσ

omit [DecidableEq 𝕜] in
theorem DenseExp.congr_time {d : Nat} {E : 𝕜 → 𝕜} {g g' : 𝕜} {ψ φ : List Nat → 𝕜} (h : DenseExp H d E g ψ φ)
    (e : g = g') : DenseExp H d E g' ψ φ := e ▸ h

omit [DecidableEq 𝕜] in
/-- the identity is `E(0 · H)` -/
theorem DenseExp.zero {d : Nat} {E : 𝕜 → 𝕜} (hE : ExpLaw E) (ψ : List Nat → 𝕜) : DenseExp H d E 0 ψ ψ := by
  intro K μ b w _ hdec σ hσ
  rw [hdec σ hσ]
  refine sum_congr rfl fun f _ => ?_
  rw [zero_mul, hE.zero, one_mul]

omit [DecidableEq 𝕜] in
/-- composition: `E(g' H) E(g H) = E((g + g') H)` -/
theorem DenseExp.comp {d : Nat} {E : 𝕜 → 𝕜} (hE : ExpLaw E) {g g' : 𝕜} {ψ φ χ : List Nat → 𝕜}
    (h1 : DenseExp H d E g ψ φ) (h2 : DenseExp H d E g' φ χ) : DenseExp H d E (g + g') ψ χ := by
  intro K μ b w hw hdec σ hσ
  have hφ := h1 K μ b w hw hdec
  have := h2 K μ (fun f => E (g * ((μ f : ℝ) : 𝕜)) * b f) w hw (fun τ hτ => by
    rw [hφ τ hτ]) σ hσ
  rw [this]
  refine sum_congr rfl fun f _ => ?_
  rw [add_mul, hE.add]
  ring

/-! ## the centre tensor as a spectral function -/

omit [DecidableEq 𝕜] in
theorem getA_setA {s : Sweep 𝕜} {c : Nat} (hc : c < s.A.size) (X : T3 𝕜) : getA (setA s c X) c = X :=
  getD_setIfInBounds_eq _ _ _ hc

omit [DecidableEq 𝕜] in
theorem setA_setA (s : Sweep 𝕜) (c : Nat) (X Y : T3 𝕜) : setA (setA s c X) c Y = setA s c Y := by
  simp [setA]

/-- an exhausted local step at the centre makes the new centre tensor a spectral function of the old one -/
theorem siteSpec_of_run (ctx : SweepCtx k H qd numiter) {s : Sweep 𝕜} {c : Nat} (h : Canon H qd s c) {δ : 𝕜}
    {A1 : T3 𝕜}
    (hrun : localHamiltonianStep k (getBL s c) (getBR s c) (H.A.getD c zeroT4) (getA s c) δ numiter = .ok A1)
    (hex : MidExact k H numiter s c) : SiteSpec k H (setA s c A1) c (-δ) (getA s c) := by
  have hcs : c < s.A.size := by rw [h.wf.sizeA]; exact h.hc
  obtain ⟨hF, hHerm⟩ := canon_local h ctx.hH ctx.herm
  obtain ⟨a0, a1, a2⟩ := localStep_dims hrun
  obtain ⟨y, hy, rfl⟩ := localStep_unfold hrun
  have hA := isHermitian_localHFun hF hHerm
  have hM := actsAs_localHFun hF
  have hHM := herm_matrix_of_actsAs hA hM
  have hvl : (flat3 (getA s c)).length = (getA s c).d0 * (getA s c).d1 * (getA s c).d2 := length_flat3 _
  rw [← hvl] at hM hHM
  obtain ⟨hyl, hsp⟩ := spec_of_run ctx.norm hM hHM (ctx.eigh _ _) hex hy
  rw [hvl] at hyl hsp
  have g : getA (setA s c (unflat3 y (getA s c).d0 (getA s c).d1 (getA s c).d2).tab) c =
      (unflat3 y (getA s c).d0 (getA s c).d1 (getA s c).d2).tab := getA_setA hcs _
  unfold SiteSpec
  rw [g]
  refine ⟨rfl, rfl, rfl, ?_⟩
  show Spec ((getA s c).d0 * (getA s c).d1 * (getA s c).d2)
    (localHFun (getBL s c) (getBR s c) (H.A.getD c zeroT4) (getA s c).d0 (getA s c).d1 (getA s c).d2) k.dexp (-δ)
    (flat3 (getA s c)) (flat3 (unflat3 y (getA s c).d0 (getA s c).d1 (getA s c).d2).tab)
  rw [flat3_tab, flat3_unflat3 hyl]
  exact hsp

/-- a further exhausted local step at the centre composes the spectral functions -/
theorem siteSpec_run (ctx : SweepCtx k H qd numiter) (hE : ExpLaw k.dexp) {s : Sweep 𝕜} {c : Nat} (h : Canon H qd s c)
    {γ : 𝕜} {X : T3 𝕜} (hs : SiteSpec k H s c γ X) {δ : 𝕜} {A1 : T3 𝕜}
    (hrun : localHamiltonianStep k (getBL s c) (getBR s c) (H.A.getD c zeroT4) (getA s c) δ numiter = .ok A1)
    (hex : MidExact k H numiter s c) : SiteSpec k H (setA s c A1) c (γ + -δ) X := by
  have hcs : c < s.A.size := by rw [h.wf.sizeA]; exact h.hc
  obtain ⟨hF, hHerm⟩ := canon_local h ctx.hH ctx.herm
  obtain ⟨x0, x1, x2, hsp0⟩ := hs
  obtain ⟨y, hy, rfl⟩ := localStep_unfold hrun
  have hA := isHermitian_localHFun hF hHerm
  have hM := actsAs_localHFun hF
  have hHM := herm_matrix_of_actsAs hA hM
  have hvl : (flat3 (getA s c)).length = (getA s c).d0 * (getA s c).d1 * (getA s c).d2 := length_flat3 _
  rw [← hvl] at hM hHM hsp0
  obtain ⟨hyl, hsp⟩ := spec_run ctx.norm hM hHM hsp0 (ctx.eigh _ _) hex hy (fun μ => by
    rw [add_mul, hE.add, mul_comm])
  rw [hvl] at hyl hsp
  have g : getA (setA s c (unflat3 y (getA s c).d0 (getA s c).d1 (getA s c).d2).tab) c =
      (unflat3 y (getA s c).d0 (getA s c).d1 (getA s c).d2).tab := getA_setA hcs _
  unfold SiteSpec
  rw [g]
  refine ⟨x0, x1, x2, ?_⟩
  show Spec ((getA s c).d0 * (getA s c).d1 * (getA s c).d2)
    (localHFun (getBL s c) (getBR s c) (H.A.getD c zeroT4) (getA s c).d0 (getA s c).d1 (getA s c).d2) k.dexp (γ + -δ)
    (flat3 X) (flat3 (unflat3 y (getA s c).d0 (getA s c).d1 (getA s c).d2).tab)
  rw [flat3_tab, flat3_unflat3 hyl]
  exact hsp

/-- `E(0 · H_eff) X = X`: the centre tensor agrees with `X` on in-range entries -/
theorem siteSpec_zero (hE : ExpLaw k.dexp) {s : Sweep 𝕜} {c : Nat} {γ : 𝕜} {X : T3 𝕜} (hs : SiteSpec k H s c γ X)
    (hγ : γ = 0) : T3Eqv (getA s c) X := by
  obtain ⟨x0, x1, x2, hsp⟩ := hs
  have key := spec_one hsp (fun μ => by rw [hγ, zero_mul, hE.zero])
  refine ⟨x0.symm, x1.symm, x2.symm, ?_⟩
  intro a b c' ha hb hc'
  have := key _ (idx3_lt ha hb hc')
  rw [vget_flat3 (getA s c) ha hb hc'] at this
  rw [this]
  have e := vget_flat3 X (i := a) (j := b) (k := c') (by rw [x0]; exact ha) (by rw [x1]; exact hb) (by rw [x2]; exact hc')
  rw [x1, x2] at e
  exact e

end Ptn.Evo

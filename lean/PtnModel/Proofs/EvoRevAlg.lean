import PtnModel.Proofs.EvoRevExact
/-!
# Algebra of gauge transforms (`GT3`, `GMat`) used by the reversibility proof

* `GT3.congr_left`, `GT3.congr_right` : `GT3` respects `T3Eqv` in both tensor arguments;
* `qr_gauge_left_fn`, `qr_gauge_right_fn` : QR gauge freedom with the unitary as a function (`IsU`), left and right version;
* `qr_gauge_left2`, `qr_gauge_right2` : the same across a change of gauge on the outer bonds;
* `gT3_mulRight`, `gT3_mulLeft` : the product of a gauged site tensor and a gauged bond matrix is the gauged product
  (the inner unitary cancels);
* `pushRight_eqv`, `pushLeft_eqv` : the memoised products of the model agree with `mulRight` / `mulLeft`.
-/
set_option linter.unusedSectionVars false

namespace Ptn.Evo
open Ptn Ptn.Krylov Ptn.Dense Ptn.BondOps Ptn.Ortho Ptn.Env Finset

variable {𝕜 : Type} [RCLike 𝕜]

/-- the explicit gauge transform `Ulᴴ · A · Ur` -/
noncomputable def gaugeT3 (Ul Ur : Nat → Nat → 𝕜) (A : T3 𝕜) : T3 𝕜 :=
  ⟨A.d0, A.d1, A.d2, fun s a' b' => ∑ a ∈ range A.d1, ∑ b ∈ range A.d2, star (Ul a a') * A.f s a b * Ur b b'⟩

theorem gT3_gaugeT3 (Ul Ur : Nat → Nat → 𝕜) (A : T3 𝕜) : GT3 Ul Ur A (gaugeT3 Ul Ur A) :=
  ⟨rfl, rfl, rfl, fun _ _ _ _ _ _ => rfl⟩

theorem GT3.congr_left {Ul Ur : Nat → Nat → 𝕜} {A A' B : T3 𝕜} (h : GT3 Ul Ur A A') (e : T3Eqv B A) : GT3 Ul Ur B A' := by
  refine ⟨h.d0.trans e.d0.symm, h.d1.trans e.d1.symm, h.d2.trans e.d2.symm, ?_⟩
  intro s a' b' hs ha' hb'
  rw [h.f s a' b' (by rw [← e.d0]; exact hs) (by rw [← e.d1]; exact ha') (by rw [← e.d2]; exact hb'), ← e.d1, ← e.d2]
  refine sum_congr rfl fun a ha => sum_congr rfl fun b hb => ?_
  rw [e.f s a b hs (mem_range.1 ha) (mem_range.1 hb)]

theorem GT3.congr_right {Ul Ur : Nat → Nat → 𝕜} {A A' A'' : T3 𝕜} (h : GT3 Ul Ur A A') (e : T3Eqv A'' A') :
    GT3 Ul Ur A A'' := by
  refine ⟨e.d0.trans h.d0, e.d1.trans h.d1, e.d2.trans h.d2, ?_⟩
  intro s a' b' hs ha' hb'
  rw [e.f s a' b' (by rw [e.d0, h.d0]; exact hs) (by rw [e.d1, h.d1]; exact ha') (by rw [e.d2, h.d2]; exact hb')]
  exact h.f s a' b' hs ha' hb'

/-- Kronecker sum, right factor `δ_{q r}` summed over `r` -/
theorem sum_mul_delta (D q : Nat) (hq : q < D) (f : Nat → 𝕜) :
    ∑ r ∈ range D, f r * (if q = r then 1 else 0) = f q := by
  have e : ∀ r ∈ range D, f r * (if q = r then (1 : 𝕜) else 0) = if q = r then f r else 0 := by
    intro r _
    by_cases h : q = r
    · rw [if_pos h, if_pos h, mul_one]
    · rw [if_neg h, if_neg h, mul_zero]
  rw [sum_congr rfl e, sum_ite_eq (range D) q, if_pos (mem_range.2 hq)]

/-- Kronecker sum, right factor `δ_{r q}` summed over `r` -/
theorem sum_mul_delta' (D q : Nat) (hq : q < D) (f : Nat → 𝕜) :
    ∑ r ∈ range D, f r * (if r = q then 1 else 0) = f q := by
  have e : ∀ r ∈ range D, f r * (if r = q then (1 : 𝕜) else 0) = if q = r then f r else 0 := by
    intro r _
    by_cases h : q = r
    · rw [if_pos h, if_pos h.symm, mul_one]
    · rw [if_neg h, if_neg (fun e => h e.symm), mul_zero]
  rw [sum_congr rfl e, sum_ite_eq (range D) q, if_pos (mem_range.2 hq)]

/-- `qr_gauge_left` with the unitary as a function and `IsU` -/
theorem qr_gauge_left_fn {P Q' : T3 𝕜} {C1 C' Cinv : Mat 𝕜} (hP : LeftIso P) (hQ' : LeftIso Q')
    (q0 : Q'.d0 = P.d0) (q1 : Q'.d1 = P.d1) (q2 : Q'.d2 = P.d2)
    (hprod : ∀ s a j, s < P.d0 → a < P.d1 → j < C1.n →
      ∑ p ∈ range P.d2, Q'.f s a p * C'.f p j = ∑ q ∈ range P.d2, P.f s a q * C1.f q j)
    (hinv : ∀ p p', p < P.d2 → p' < P.d2 → ∑ j ∈ range C1.n, C'.f p j * Cinv.f j p' = if p = p' then 1 else 0) :
    ∃ U : Nat → Nat → 𝕜, IsU P.d2 U ∧
      (∀ s a p, s < P.d0 → a < P.d1 → p < P.d2 → Q'.f s a p = ∑ q ∈ range P.d2, P.f s a q * U q p) ∧
      (∀ p j, p < P.d2 → j < C1.n → C'.f p j = ∑ r ∈ range P.d2, star (U r p) * C1.f r j) := by
  obtain ⟨U, _, _, hrow, hQ, hC⟩ := qr_gauge_left hP hQ' q0 q1 q2 hprod hinv
  exact ⟨U.f, IsU.of_row hrow, hQ, hC⟩

/-- **QR gauge freedom (right).**  `P`, `Q'` right isometries of the same shape, `C' · Q' = C1 · P`, `C'` has a left
inverse (given as a right inverse of the transpose).  Then `Q' = Vᴴ · P` and `C' = C1 · V` for a unitary `V`. -/
theorem qr_gauge_right_fn {P Q' : T3 𝕜} {C1 C' Cinv : Mat 𝕜} (hP : RightIso P) (hQ' : RightIso Q')
    (q0 : Q'.d0 = P.d0) (q1 : Q'.d1 = P.d1) (q2 : Q'.d2 = P.d2)
    (hprod : ∀ s x b, s < P.d0 → x < C1.m → b < P.d2 →
      ∑ p ∈ range P.d1, C'.f x p * Q'.f s p b = ∑ q ∈ range P.d1, C1.f x q * P.f s q b)
    (hinv : ∀ p p', p < P.d1 → p' < P.d1 → ∑ x ∈ range C1.m, C'.f x p * Cinv.f x p' = if p = p' then 1 else 0) :
    ∃ V : Nat → Nat → 𝕜, IsU P.d1 V ∧
      (∀ s p b, s < P.d0 → p < P.d1 → b < P.d2 → Q'.f s p b = ∑ q ∈ range P.d1, star (V q p) * P.f s q b) ∧
      (∀ x p, x < C1.m → p < P.d1 → C'.f x p = ∑ q ∈ range P.d1, C1.f x q * V q p) := by
  have hPs : LeftIso P.swap12 := (leftIso_swap_iff P).2 hP
  have hQs : LeftIso Q'.swap12 := (leftIso_swap_iff Q').2 hQ'
  obtain ⟨U, _, _, hrow, hQ, hC⟩ := qr_gauge_left (P := P.swap12) (Q' := Q'.swap12)
    (C1 := ⟨C1.n, C1.m, fun q x => C1.f x q⟩) (C' := ⟨C'.n, C'.m, fun q x => C'.f x q⟩) (Cinv := Cinv)
    hPs hQs q0 q2 q1
    (fun s b j hs hb hj => by
      show ∑ p ∈ range P.d1, Q'.f s p b * C'.f j p = ∑ q ∈ range P.d1, P.f s q b * C1.f j q
      rw [sum_congr rfl fun p _ => mul_comm (Q'.f s p b) (C'.f j p),
        sum_congr rfl fun q _ => mul_comm (P.f s q b) (C1.f j q)]
      exact hprod s j b hs hj hb)
    (fun p p' hp hp' => hinv p p' hp hp')
  refine ⟨fun q p => star (U.f q p), IsU.of_row ?_, ?_, ?_⟩
  · intro q r hq hr
    have := hrow r q hr hq
    simp only [star_star]
    rw [sum_congr rfl fun p _ => mul_comm (star (U.f q p)) (U.f r p)]
    show ∑ p ∈ range P.d1, U.f r p * star (U.f q p) = _
    rw [show (∑ p ∈ range P.d1, U.f r p * star (U.f q p)) = if r = q then 1 else 0 from this]
    by_cases h : q = r
    · rw [if_pos h, if_pos h.symm]
    · rw [if_neg h, if_neg (fun e => h e.symm)]
  · intro s p b hs hp hb
    have := hQ s b p hs hb hp
    simp only [star_star]
    show Q'.f s p b = _
    rw [show Q'.f s p b = ∑ q ∈ range P.d1, P.f s q b * U.f q p from this]
    exact sum_congr rfl fun q _ => mul_comm _ _
  · intro x p hx hp
    have := hC p x hp hx
    show C'.f x p = _
    rw [show C'.f x p = ∑ r ∈ range P.d1, star (U.f r p) * C1.f x r from this]
    exact sum_congr rfl fun q _ => mul_comm _ _

theorem pushRight_eqv (Ap : T3 𝕜) (C1 : Mat 𝕜) : T3Eqv (pushRight Ap C1) (mulRight Ap C1) :=
  ⟨rfl, rfl, rfl, fun _ _ _ hs ha hb => pushRight_f Ap C1 hs ha hb⟩

theorem pushLeft_eqv (An : T3 𝕜) (C1 : Mat 𝕜) : T3Eqv (pushLeft An C1) (mulLeft C1 An) :=
  ⟨rfl, rfl, rfl, fun s a b hs ha hb => by
    rw [pushLeft_f An C1 hs ha hb]
    exact sum_congr rfl fun p _ => mul_comm _ _⟩


theorem alg_gauge_mul (Sp Sa Sq Sr Sb : Finset Nat) (u w : Nat → 𝕜) (F G V : Nat → Nat → 𝕜) :
    ∑ p ∈ Sp, (∑ a ∈ Sa, ∑ q ∈ Sq, u a * F a q * V q p) * (∑ r ∈ Sr, ∑ b ∈ Sb, star (V r p) * G r b * w b) =
    ∑ a ∈ Sa, ∑ b ∈ Sb, ∑ q ∈ Sq, ∑ r ∈ Sr, (u a * F a q * G r b * w b) * ∑ p ∈ Sp, V q p * star (V r p) := by
  simp only [Finset.sum_mul, Finset.mul_sum]
  sum_pull Sa
  sum_pull Sb
  sum_pull Sq
  sum_pull Sr
  sum_pull Sp
  ring

/-- `Σ_p (u F V)[p] · (Vᴴ G w)[p] = u (F G) w` for a unitary `V` -/
theorem gauge_mul_core {D : Nat} {V : Nat → Nat → 𝕜} (hV : IsU D V) (Sa Sb : Finset Nat) (u w : Nat → 𝕜)
    (F G : Nat → Nat → 𝕜) :
    ∑ p ∈ range D, (∑ a ∈ Sa, ∑ q ∈ range D, u a * F a q * V q p) *
        (∑ r ∈ range D, ∑ b ∈ Sb, star (V r p) * G r b * w b) =
    ∑ a ∈ Sa, ∑ b ∈ Sb, u a * (∑ q ∈ range D, F a q * G q b) * w b := by
  rw [alg_gauge_mul]
  refine sum_congr rfl fun a _ => sum_congr rfl fun b _ => ?_
  rw [mul_sum, sum_mul]
  refine sum_congr rfl fun q hq => ?_
  have e : ∀ r ∈ range D, (u a * F a q * G r b * w b) * ∑ p ∈ range D, V q p * star (V r p) =
      (u a * F a q * G r b * w b) * (if q = r then 1 else 0) := by
    intro r hr
    rw [hV.row q r (mem_range.1 hq) (mem_range.1 hr)]
  rw [sum_congr rfl e, sum_mul_delta D q (mem_range.1 hq) (fun r => u a * F a q * G r b * w b)]
  ring

/-- `(Ulᴴ P V) · (Vᴴ C Ur) = Ulᴴ (P · C) Ur` -/
theorem gT3_mulRight {P P' X X' : T3 𝕜} {C C' : Mat 𝕜} {Ul V Ur : Nat → Nat → 𝕜} (hV : IsU P.d2 V)
    (hP : GT3 Ul V P P') (hC : GMat V Ur C C') (cm : C.m = P.d2)
    (hX : T3Eqv X (mulRight P C)) (hX' : T3Eqv X' (mulRight P' C')) : GT3 Ul Ur X X' := by
  have x0 : X.d0 = P.d0 := hX.d0
  have x1 : X.d1 = P.d1 := hX.d1
  have x2 : X.d2 = C.n := hX.d2
  refine ⟨hX'.d0.trans (hP.d0.trans x0.symm), hX'.d1.trans (hP.d1.trans x1.symm), hX'.d2.trans (hC.n.trans x2.symm), ?_⟩
  intro s a' b' hs ha' hb'
  have hs' : s < P.d0 := by rw [← x0]; exact hs
  have ha2 : a' < P.d1 := by rw [← x1]; exact ha'
  have hb2 : b' < C.n := by rw [← x2]; exact hb'
  rw [hX'.f s a' b' (by rw [hX'.d0]; show s < P'.d0; rw [hP.d0]; exact hs')
    (by rw [hX'.d1]; show a' < P'.d1; rw [hP.d1]; exact ha2) (by rw [hX'.d2]; show b' < C'.n; rw [hC.n]; exact hb2)]
  show ∑ p ∈ range P'.d2, P'.f s a' p * C'.f p b' = _
  rw [hP.d2]
  have e1 : ∀ p ∈ range P.d2, P'.f s a' p * C'.f p b' =
      (∑ a ∈ range P.d1, ∑ q ∈ range P.d2, star (Ul a a') * P.f s a q * V q p) *
      (∑ r ∈ range P.d2, ∑ b ∈ range C.n, star (V r p) * C.f r b * Ur b b') := by
    intro p hp
    rw [hP.f s a' p hs' ha2 (mem_range.1 hp), hC.f p b' (by rw [cm]; exact mem_range.1 hp) hb2, cm]
  rw [sum_congr rfl e1, gauge_mul_core hV, x1, x2]
  refine sum_congr rfl fun a ha => sum_congr rfl fun b hb => ?_
  rw [hX.f s a b hs (by rw [x1]; exact mem_range.1 ha) (by rw [x2]; exact mem_range.1 hb)]
  rfl

/-- `(Ulᴴ C V) · (Vᴴ P Ur) = Ulᴴ (C · P) Ur` -/
theorem gT3_mulLeft {P P' X X' : T3 𝕜} {C C' : Mat 𝕜} {Ul V Ur : Nat → Nat → 𝕜} (hV : IsU P.d1 V)
    (hC : GMat Ul V C C') (hP : GT3 V Ur P P') (cn : C.n = P.d1)
    (hX : T3Eqv X (mulLeft C P)) (hX' : T3Eqv X' (mulLeft C' P')) : GT3 Ul Ur X X' := by
  have x0 : X.d0 = P.d0 := hX.d0
  have x1 : X.d1 = C.m := hX.d1
  have x2 : X.d2 = P.d2 := hX.d2
  refine ⟨hX'.d0.trans (hP.d0.trans x0.symm), hX'.d1.trans (hC.m.trans x1.symm), hX'.d2.trans (hP.d2.trans x2.symm), ?_⟩
  intro s a' b' hs ha' hb'
  have hs' : s < P.d0 := by rw [← x0]; exact hs
  have ha2 : a' < C.m := by rw [← x1]; exact ha'
  have hb2 : b' < P.d2 := by rw [← x2]; exact hb'
  rw [hX'.f s a' b' (by rw [hX'.d0]; show s < P'.d0; rw [hP.d0]; exact hs')
    (by rw [hX'.d1]; show a' < C'.m; rw [hC.m]; exact ha2) (by rw [hX'.d2]; show b' < P'.d2; rw [hP.d2]; exact hb2)]
  show ∑ p ∈ range P'.d1, C'.f a' p * P'.f s p b' = _
  rw [hP.d1]
  have e1 : ∀ p ∈ range P.d1, C'.f a' p * P'.f s p b' =
      (∑ a ∈ range C.m, ∑ q ∈ range P.d1, star (Ul a a') * C.f a q * V q p) *
      (∑ r ∈ range P.d1, ∑ b ∈ range P.d2, star (V r p) * P.f s r b * Ur b b') := by
    intro p hp
    rw [hC.f a' p ha2 (by rw [cn]; exact mem_range.1 hp), hP.f s p b' hs' (mem_range.1 hp) hb2, cn]
  rw [sum_congr rfl e1, gauge_mul_core hV, x1, x2]
  refine sum_congr rfl fun a ha => sum_congr rfl fun b hb => ?_
  rw [hX.f s a b hs (by rw [x1]; exact mem_range.1 ha) (by rw [x2]; exact mem_range.1 hb)]
  rfl


theorem alg_gram_l (Sa' Sa Sa2 : Finset Nat) (U : Nat → Nat → 𝕜) (X Y : Nat → 𝕜) :
    ∑ a' ∈ Sa', star (∑ a ∈ Sa, star (U a a') * X a) * (∑ a2 ∈ Sa2, star (U a2 a') * Y a2) =
    ∑ a ∈ Sa, ∑ a2 ∈ Sa2, (star (X a) * Y a2) * ∑ a' ∈ Sa', U a a' * star (U a2 a') := by
  simp only [star_sum, star_mul', star_star, Finset.sum_mul, Finset.mul_sum]
  sum_pull Sa
  sum_pull Sa2
  sum_pull Sa'
  ring

theorem alg_gram_r (Sb' Sb Sb2 : Finset Nat) (U : Nat → Nat → 𝕜) (X Y : Nat → 𝕜) :
    ∑ b' ∈ Sb', star (∑ b ∈ Sb, X b * U b b') * (∑ b2 ∈ Sb2, Y b2 * U b2 b') =
    ∑ b ∈ Sb, ∑ b2 ∈ Sb2, (star (X b) * Y b2) * ∑ b' ∈ Sb', U b2 b' * star (U b b') := by
  simp only [star_sum, star_mul', Finset.sum_mul, Finset.mul_sum]
  sum_pull Sb
  sum_pull Sb2
  sum_pull Sb'
  ring

/-- Gram matrix of `Uᴴ X`, `Uᴴ Y` for a unitary `U` -/
theorem gram_unitary_l {D : Nat} {U : Nat → Nat → 𝕜} (hU : IsU D U) (X Y : Nat → 𝕜) :
    ∑ a' ∈ range D, star (∑ a ∈ range D, star (U a a') * X a) * (∑ a2 ∈ range D, star (U a2 a') * Y a2) =
    ∑ a ∈ range D, star (X a) * Y a := by
  rw [alg_gram_l]
  refine sum_congr rfl fun a ha => ?_
  have e : ∀ a2 ∈ range D, (star (X a) * Y a2) * ∑ a' ∈ range D, U a a' * star (U a2 a') =
      (star (X a) * Y a2) * (if a = a2 then 1 else 0) := by
    intro a2 ha2
    rw [hU.row a a2 (mem_range.1 ha) (mem_range.1 ha2)]
  rw [sum_congr rfl e, sum_mul_delta D a (mem_range.1 ha) (fun a2 => star (X a) * Y a2)]

/-- Gram matrix of `X U`, `Y U` for a unitary `U` -/
theorem gram_unitary_r {D : Nat} {U : Nat → Nat → 𝕜} (hU : IsU D U) (X Y : Nat → 𝕜) :
    ∑ b' ∈ range D, star (∑ b ∈ range D, X b * U b b') * (∑ b2 ∈ range D, Y b2 * U b2 b') =
    ∑ b ∈ range D, star (X b) * Y b := by
  rw [alg_gram_r]
  refine sum_congr rfl fun b hb => ?_
  have e : ∀ b2 ∈ range D, (star (X b) * Y b2) * ∑ b' ∈ range D, U b2 b' * star (U b b') =
      (star (X b) * Y b2) * (if b2 = b then 1 else 0) := by
    intro b2 hb2
    rw [hU.row b2 b (mem_range.1 hb2) (mem_range.1 hb)]
  rw [sum_congr rfl e, sum_mul_delta' D b (mem_range.1 hb) (fun b2 => star (X b) * Y b2)]

/-- `Ulᴴ · P` is a left isometry -/
theorem leftIso_gaugeL {P : T3 𝕜} {Ul : Nat → Nat → 𝕜} (hP : LeftIso P) (hUl : IsU P.d1 Ul) :
    LeftIso (⟨P.d0, P.d1, P.d2, fun s a' q => ∑ a ∈ range P.d1, star (Ul a a') * P.f s a q⟩ : T3 𝕜) := by
  intro p p' hp hp'
  rw [← hP p p' hp hp']
  refine sum_congr rfl fun s _ => ?_
  exact gram_unitary_l hUl (fun a => P.f s a p) (fun a => P.f s a p')

/-- `P · Ur` is a right isometry -/
theorem rightIso_gaugeR {P : T3 𝕜} {Ur : Nat → Nat → 𝕜} (hP : RightIso P) (hUr : IsU P.d2 Ur) :
    RightIso (⟨P.d0, P.d1, P.d2, fun s q b' => ∑ b ∈ range P.d2, P.f s q b * Ur b b'⟩ : T3 𝕜) := by
  intro a a' ha ha'
  rw [← hP a a' ha ha']
  refine sum_congr rfl fun s _ => ?_
  exact gram_unitary_r hUr (fun b => P.f s a b) (fun b => P.f s a' b)

theorem alg_gauge_prod (Sa Sb Sq : Finset Nat) (u w : Nat → 𝕜) (F G : Nat → Nat → 𝕜) :
    ∑ a ∈ Sa, ∑ b ∈ Sb, u a * (∑ q ∈ Sq, F a q * G q b) * w b =
    ∑ q ∈ Sq, (∑ a ∈ Sa, u a * F a q) * (∑ b ∈ Sb, G q b * w b) := by
  simp only [Finset.sum_mul, Finset.mul_sum]
  sum_pull Sa
  sum_pull Sb
  sum_pull Sq
  ring

theorem alg_gauge_out (Sa Sq : Finset Nat) (u v : Nat → 𝕜) (F : Nat → Nat → 𝕜) :
    ∑ q ∈ Sq, (∑ a ∈ Sa, u a * F a q) * v q = ∑ a ∈ Sa, ∑ q ∈ Sq, u a * F a q * v q := by
  simp only [Finset.sum_mul]
  exact Finset.sum_comm

theorem alg_gauge_in (Sa Sb : Finset Nat) (u w : Nat → 𝕜) (F : Nat → Nat → 𝕜) :
    ∑ a ∈ Sa, u a * ∑ b ∈ Sb, F a b * w b = ∑ a ∈ Sa, ∑ b ∈ Sb, u a * F a b * w b := by
  simp only [Finset.mul_sum]
  sum_pull Sa
  sum_pull Sb
  ring

/-- **QR gauge freedom (left) across a gauge change**: `Q' · C' = Ulᴴ · (P · C1) · Ur` with left isometries `P`, `Q'` of the
same shape and a right-invertible `C'` gives a unitary `U` with `Q' = Ulᴴ P U` and `C' = Uᴴ C1 Ur`. -/
theorem qr_gauge_left2 {P Q' : T3 𝕜} {C1 C' : Mat 𝕜} {Ul Ur : Nat → Nat → 𝕜} (hP : LeftIso P) (hQ' : LeftIso Q')
    (q0 : Q'.d0 = P.d0) (q1 : Q'.d1 = P.d1) (q2 : Q'.d2 = P.d2) (c1m : C1.m = P.d2) (c'm : C'.m = P.d2)
    (c'n : C'.n = C1.n) (hUl : IsU P.d1 Ul)
    (hprod : ∀ s a' j, s < P.d0 → a' < P.d1 → j < C1.n →
      ∑ p ∈ range P.d2, Q'.f s a' p * C'.f p j =
        ∑ a ∈ range P.d1, ∑ b ∈ range C1.n, star (Ul a a') * (∑ q ∈ range P.d2, P.f s a q * C1.f q b) * Ur b j)
    (hinv : RightInv C' P.d2) :
    ∃ U : Nat → Nat → 𝕜, IsU P.d2 U ∧ GT3 Ul U P Q' ∧ GMat U Ur C1 C' := by
  obtain ⟨Cinv, hCinv⟩ := hinv
  obtain ⟨U, hU, hQ, hC⟩ := qr_gauge_left_fn
    (P := ⟨P.d0, P.d1, P.d2, fun s a' q => ∑ a ∈ range P.d1, star (Ul a a') * P.f s a q⟩) (Q' := Q')
    (C1 := ⟨C1.m, C1.n, fun q j => ∑ b ∈ range C1.n, C1.f q b * Ur b j⟩) (C' := C') (Cinv := Cinv)
    (leftIso_gaugeL hP hUl) hQ' q0 q1 q2
    (fun s a' j hs ha' hj => by
      rw [hprod s a' j hs ha' hj]
      exact alg_gauge_prod (range P.d1) (range C1.n) (range P.d2) (fun a => star (Ul a a')) (fun b => Ur b j)
        (fun a q => P.f s a q) C1.f)
    (fun p p' hp hp' => by
      rw [← hCinv p p' hp hp', c'n])
  refine ⟨U, hU, ⟨q0, q1, q2, ?_⟩, ⟨c'm.trans c1m.symm, c'n, ?_⟩⟩
  · intro s a' b' hs ha' hb'
    rw [hQ s a' b' hs ha' hb']
    exact alg_gauge_out (range P.d1) (range P.d2) (fun a => star (Ul a a')) (fun q => U q b') (fun a q => P.f s a q)
  · intro a' b' ha' hb'
    rw [hC a' b' (by rw [← c1m]; exact ha') hb', c1m]
    exact alg_gauge_in (range P.d2) (range C1.n) (fun r => star (U r a')) (fun b => Ur b b') C1.f

/-- **QR gauge freedom (right) across a gauge change**: `C' · Q' = Ulᴴ · (C1 · P) · Ur` with right isometries `P`, `Q'` of
the same shape and a left-invertible `C'` gives a unitary `V` with `Q' = Vᴴ P Ur` and `C' = Ulᴴ C1 V`. -/
theorem qr_gauge_right2 {P Q' : T3 𝕜} {C1 C' : Mat 𝕜} {Ul Ur : Nat → Nat → 𝕜} (hP : RightIso P) (hQ' : RightIso Q')
    (q0 : Q'.d0 = P.d0) (q1 : Q'.d1 = P.d1) (q2 : Q'.d2 = P.d2) (c1n : C1.n = P.d1) (c'n : C'.n = P.d1)
    (c'm : C'.m = C1.m) (hUr : IsU P.d2 Ur)
    (hprod : ∀ s x' b', s < P.d0 → x' < C1.m → b' < P.d2 →
      ∑ p ∈ range P.d1, C'.f x' p * Q'.f s p b' =
        ∑ x ∈ range C1.m, ∑ b ∈ range P.d2, star (Ul x x') * (∑ q ∈ range P.d1, C1.f x q * P.f s q b) * Ur b b')
    (hinv : ∃ Cinv : Mat 𝕜, ∀ p p', p < P.d1 → p' < P.d1 →
      ∑ x ∈ range C'.m, C'.f x p * Cinv.f x p' = if p = p' then 1 else 0) :
    ∃ V : Nat → Nat → 𝕜, IsU P.d1 V ∧ GT3 V Ur P Q' ∧ GMat Ul V C1 C' := by
  obtain ⟨Cinv, hCinv⟩ := hinv
  obtain ⟨V, hV, hQ, hC⟩ := qr_gauge_right_fn
    (P := ⟨P.d0, P.d1, P.d2, fun s q b' => ∑ b ∈ range P.d2, P.f s q b * Ur b b'⟩) (Q' := Q')
    (C1 := ⟨C1.m, C1.n, fun x' q => ∑ x ∈ range C1.m, star (Ul x x') * C1.f x q⟩) (C' := C') (Cinv := Cinv)
    (rightIso_gaugeR hP hUr) hQ' q0 q1 q2
    (fun s x' b' hs hx' hb' => by
      rw [hprod s x' b' hs hx' hb']
      exact alg_gauge_prod (range C1.m) (range P.d2) (range P.d1) (fun x => star (Ul x x')) (fun b => Ur b b')
        C1.f (fun q b => P.f s q b))
    (fun p p' hp hp' => by
      rw [← hCinv p p' hp hp', c'm])
  refine ⟨V, hV, ⟨q0, q1, q2, ?_⟩, ⟨c'm, c'n.trans c1n.symm, ?_⟩⟩
  · intro s a' b' hs ha' hb'
    rw [hQ s a' b' hs ha' hb']
    exact alg_gauge_in (range P.d1) (range P.d2) (fun q => star (V q a')) (fun b => Ur b b') (fun q b => P.f s q b)
  · intro a' b' ha' hb'
    rw [hC a' b' ha' (by rw [← c1n]; exact hb'), c1n]
    exact alg_gauge_out (range C1.m) (range P.d1) (fun a => star (Ul a a')) (fun q => V q b') C1.f

end Ptn.Evo

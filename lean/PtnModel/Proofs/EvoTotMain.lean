import PtnModel.Proofs.EvoTotTdvp
/-!
# Totality of the common prologue and of `integrate_local_singlesite`

* `rightBlocks_sparse` : the blocks returned by `compute_right_operator_blocks` for a well-formed state and a block-sparse
  Hamiltonian whose trailing bond charge is zero are block sparse — the assertion of the prologue holds;
* `prologue_ok`        : the prologue returns, with both sweep invariants;
* `tdvp1Step_ok`, `tdvp1_ok` : a time step / the driver returns.
-/
set_option linter.unusedSectionVars false

namespace Ptn.Evo
open Ptn Ptn.BondOps Ptn.Ortho Ptn.Env Ptn.Krylov Ptn.Dense Finset

/-! ## bond dimensions at the end of a chain -/

theorem bond3_full {α : Type} {ds : List Nat} {As : List (T3 α)} {Dl Dr : Nat} (h : Chain3 ds As Dl Dr) :
    bond3 As Dl As.length = Dr := by
  induction ds generalizing As Dl with
  | nil =>
    cases As with
    | nil => simpa using h
    | cons _ _ => simp at h
  | cons d ds ih =>
    cases As with
    | nil => simp at h
    | cons A As =>
      simp only [chain3_cons] at h
      simp only [List.length_cons, bond3_succ]
      exact ih h.2.2

theorem bond4_full {α : Type} {ds : List Nat} {As : List (T4 α)} {Dl Dr : Nat} (h : Chain4 ds As Dl Dr) :
    bond4 As Dl As.length = Dr := by
  induction ds generalizing As Dl with
  | nil =>
    cases As with
    | nil => simpa using h
    | cons _ _ => simp at h
  | cons d ds ih =>
    cases As with
    | nil => simp at h
    | cons A As =>
      simp only [chain4_cons] at h
      simp only [List.length_cons, bond4_succ]
      exact ih h.2.2.2

variable {𝕜 : Type} [RCLike 𝕜] [DecidableEq 𝕜]

omit [DecidableEq 𝕜] in
/-- block sparsity only looks at in-range entries -/
theorem blockSparse_congr {X Y : T3 𝕜} {qa qw : List Int} (x0 : X.d0 = Y.d0) (x1 : X.d1 = Y.d1) (x2 : X.d2 = Y.d2)
    (h : ∀ a w b, a < Y.d0 → w < Y.d1 → b < Y.d2 → X.f a w b = Y.f a w b) (hY : HistWf.BlockSparse Y qa qw) :
    HistWf.BlockSparse X qa qw := by
  intro a w b ha hw hb hne
  rw [x0] at ha; rw [x1] at hw; rw [x2] at hb
  rw [h a w b ha hw hb] at hne
  exact hY a w b ha hw hb hne

omit [DecidableEq 𝕜] in
/-- a partial contraction is determined by the chain (shape and in-range entries) -/
theorem isRightBlock_unique {ψ : MPS 𝕜} {o : MPO 𝕜} {d k : Nat} {E E' : T3 𝕜} (h : IsRightBlock ψ o d k E)
    (h' : IsRightBlock ψ o d k E') :
    E.d0 = E'.d0 ∧ E.d1 = E'.d1 ∧ E.d2 = E'.d2 ∧ ∀ a w b, a < E'.d0 → w < E'.d1 → b < E'.d2 → E.f a w b = E'.f a w b := by
  obtain ⟨e0, e1, e2, ef⟩ := h
  obtain ⟨f0, f1, f2, ff⟩ := h'
  refine ⟨e0.trans f0.symm, e1.trans f1.symm, e2.trans f2.symm, fun a w b ha hw hb => ?_⟩
  rw [f0] at ha; rw [f1] at hw; rw [f2] at hb
  rw [ef a w b ha hw hb, ff a w b ha hw hb]

variable {k : EvoKernels 𝕜 ℝ} {H : MPO 𝕜}

/-- **the assertion of the prologue holds**: the right blocks of a well-formed state with a block-sparse Hamiltonian
whose trailing bond charge is zero are block sparse -/
theorem rightBlocks_sparse {ψ1 : MPS 𝕜} (hadm1 : Admissible ψ1) (hH : HistWf.HOk H ψ1.qd)
    (hsh : C04.MPO.Shaped H ψ1.qd.length) (hlast : (H.qD.getD H.A.length []).getD 0 0 = 0)
    (hLen : ψ1.A.length = H.A.length) {BR : List (T3 𝕜)}
    (hBR : ∀ i, i < ψ1.A.length → ∃ E, BR[i]? = some E ∧ IsRightBlock ψ1 H ψ1.qd.length (i + 1) E) :
    ∀ n i, i + n + 1 = H.A.length →
      HistWf.BlockSparse (BR.getD i emptyT3) (ψ1.qD.getD (i + 1) []) (H.qD.getD (i + 1) []) := by
  have hsh1 : C04.MPS.Shaped ψ1 ψ1.qd.length := ⟨hadm1.nonempty, hadm1.chain3⟩
  obtain ⟨hl1, hsite⟩ := wf_index hadm1.wf
  have hget : ∀ i E, BR[i]? = some E → BR.getD i emptyT3 = E := fun i E h => by
    rw [List.getD_eq_getElem?_getD, h]; rfl
  intro n
  induction n with
  | zero =>
    intro i hi
    obtain ⟨E, hE, hEb⟩ := hBR i (by omega)
    rw [hget i E hE]
    obtain ⟨e0, e1, e2, _⟩ := hEb
    have hi1 : i + 1 = ψ1.A.length := by omega
    have b3 : mpsBond ψ1 (i + 1) = 1 := by
      unfold mpsBond; rw [hi1]; exact bond3_full hsh1.2
    have b4 : mpoBond H (i + 1) = 1 := by
      unfold mpoBond; rw [hi1, hLen]; exact bond4_full hsh.2
    intro a w b ha hw hb _
    rw [e0, b3] at ha; rw [e1, b4] at hw; rw [e2, b3] at hb
    have ha0 : a = 0 := by omega
    have hw0 : w = 0 := by omega
    have hb0 : b = 0 := by omega
    subst ha0 hw0 hb0
    have : i + 1 = H.A.length := by omega
    rw [this, hlast]; omega
  | succ n ih =>
    intro i hi
    have hE' := ih (i + 1) (by omega)
    obtain ⟨E', hE'1, hE'b⟩ := hBR (i + 1) (by omega)
    rw [hget (i + 1) E' hE'1] at hE'
    obtain ⟨E, hE1, hEb⟩ := hBR i (by omega)
    rw [hget i E hE1]
    have hi1 : i + 1 < ψ1.A.length := by omega
    have hA : ψ1.A[i + 1]? = some (ψ1.A.getD (i + 1) emptyT3) := by
      rw [List.getD_eq_getElem?_getD, List.getElem?_eq_getElem hi1]; rfl
    have hW : H.A[i + 1]? = some (H.A.getD (i + 1) zeroT4) := by
      rw [List.getD_eq_getElem?_getD, List.getElem?_eq_getElem (by omega)]; rfl
    obtain ⟨T, hT, hTb⟩ := right_step_dense hsh1 hsh hLen hi1 hA hW hE'b
    obtain ⟨hsp, _⟩ := HistWf.opStepRight_sparse hT (hsite (i + 1) hi1).2.2.2 (hsite (i + 1) hi1).2.2.2 (hH.sp (i + 1)) hE'
    obtain ⟨u0, u1, u2, uf⟩ := isRightBlock_unique hEb hTb
    exact blockSparse_congr u0 u1 u2 uf hsp

/-- a loop of passing assertions returns -/
theorem forIn_assert_ok (b : Nat → Bool) : ∀ (l : List Nat), (∀ i ∈ l, b i = true) →
    (forIn l PUnit.unit fun i (_ : PUnit) => (do
      pyAssert (b i)
      pure (ForInStep.yield PUnit.unit) : Except Err (ForInStep PUnit))) = Except.ok PUnit.unit
  | [], _ => rfl
  | x :: xs, h => by
    rw [List.forIn_cons, h x List.mem_cons_self]
    simp only [pyAssert, if_true, bind, Except.bind, pure, Except.pure]
    exact forIn_assert_ok b xs (fun i hi => h i (List.mem_cons_of_mem _ hi))

/-- **the common prologue of TDVP / DMRG returns**, and the state it returns satisfies both sweep invariants -/
theorem prologue_ok {numiter : Nat} {ψ : MPS 𝕜} (ctx : SweepCtx k H ψ.qd numiter) (hH : HistWf.HOk H ψ.qd)
    (hlast : (H.qD.getD H.A.length []).getD 0 0 = 0) (hadm : Admissible ψ) (hlen : H.A.length = ψ.A.length) :
    ∃ s0 nrm E0, prologue k H ψ = .ok (s0, nrm) ∧ TInv H ψ.qd s0 0 E0 := by
  obtain ⟨ψ1, nrm, ho⟩ := C01.ortho_ok (dqr := k.dqr) ctx.qr.contract.shape hadm false
  obtain ⟨hadm1, hqd1, hlen1⟩ := C01.ortho_wf (dqr := k.dqr) ctx.qr.contract.shape hadm ho
  have hLen : ψ1.A.length = H.A.length := hlen1.trans hlen.symm
  have hsh1 : C04.MPS.Shaped ψ1 ψ1.qd.length := ⟨hadm1.nonempty, hadm1.chain3⟩
  have hshH : C04.MPO.Shaped H ψ1.qd.length := by rw [hqd1]; exact ctx.hH
  obtain ⟨BR, hrb, hBRlen, hBR⟩ := C04.right_blocks_dense hsh1 hshH hLen
  have hsp := rightBlocks_sparse hadm1 (by rw [hqd1]; exact hH) hshH hlast hLen hBR
  have hL : 0 < H.A.length := by rw [← hLen]; exact List.length_pos_iff.2 hadm1.nonempty
  have hp : prologue k H ψ = .ok (⟨ψ1.A.toArray, ψ1.qD.toArray,
      (Array.replicate H.A.length emptyT3).setIfInBounds 0 ones111, BR.toArray⟩, nrm) := by
    unfold prologue
    rw [pyAssert_bind]
    refine ⟨by simp [hlen], ?_⟩
    rw [bind_ok]
    refine ⟨(ψ1, nrm), ho, ?_⟩
    dsimp only
    rw [bind_ok]
    refine ⟨BR, hrb, ?_⟩
    rw [bind_ok]
    refine ⟨PUnit.unit, ?_, rfl⟩
    refine forIn_assert_ok (fun i => blockSparse (BR.getD i emptyT3) (ψ1.qD.getD (i + 1) []) (H.qD.getD (i + 1) []))
      _ (fun i hi => ?_)
    have hi' : i < H.A.length := by rw [← hLen, ← hBRlen]; exact List.mem_range.1 hi
    exact (HistWf.blockSparse_iff _ _ _).2 (hsp (H.A.length - 1 - i) i (by omega))
  obtain ⟨_, E0, _, _, hinv0⟩ := prologue_inv ctx rfl hadm hp
  exact ⟨_, nrm, E0, hp, hinv0, HistWf.prologue_sparse ctx.qr.contract.shape hH hadm.wf hp hL⟩

variable {qd : List Int} {numiter : Nat}

/-- **one complete single-site TDVP time step returns** and keeps both invariants -/
theorem tdvp1Step_ok (ctx : SweepCtx k H qd numiter) (hexp : ∀ x : ℝ, ‖k.dexp (RCLike.I * (x : 𝕜))‖ = 1)
    {hh τ : ℝ} (hhalf : k.half = ((hh : ℝ) : 𝕜)) {dt : 𝕜} (hdt : dt = RCLike.I * ((τ : ℝ) : 𝕜)) (hm : 1 ≤ numiter)
    (hH : HistWf.HOk H qd) {s : Sweep 𝕜} {E : ℝ} (h : TInv H qd s 0 E) :
    ∃ s', tdvp1Step k H qd dt numiter s = .ok s' ∧ TInv H qd s' 0 E := by
  have hL : 0 < H.A.length := h.d.can.hc
  obtain ⟨s1, h1, hs1⟩ := foldIdx_range_ok (tdvp1Left k H qd dt numiter) (fun i t => TInv H qd t i E) (H.A.length - 1)
    (fun i hi t ht => tdvp1Left_ok ctx hexp hhalf hdt hm hH ht (by omega)) s h
  obtain ⟨Al, h2⟩ := centre_step_ok ctx hm hs1.d dt
  have hδ : -dt = RCLike.I * ((-τ : ℝ) : 𝕜) := by rw [hdt]; push_cast; ring
  obtain ⟨hmid, _⟩ := centre_step_inv ctx hexp hs1.d hδ h2
  have hX := HistWf.localStep_wf hH hs1.sp (by omega : H.A.length - 1 < H.A.length) (Nat.le_refl _) (Nat.le_refl _)
    (hs1.sp.site (H.A.length - 1) (by omega)) h2
  have hmsp := HistWf.evoSparse_site (i := H.A.length - 1) hs1.sp hX
  obtain ⟨s', h3, hs'⟩ := foldIdx_down_ok (tdvp1Right k H qd dt numiter) (fun i t => TInv H qd t i E) (H.A.length - 1)
    (fun i hi t ht => tdvp1Right_ok ctx hexp hhalf hdt hm hH ht) _ ⟨hmid, hmsp⟩
  refine ⟨s', ?_, hs'⟩
  unfold tdvp1Step
  rw [bind_ok]
  refine ⟨s1, h1, ?_⟩
  rw [bind_ok]
  exact ⟨Al, h2, h3⟩

/-- **`integrate_local_singlesite` returns** -/
theorem tdvp1_ok {ψ : MPS 𝕜} (ctx : SweepCtx k H ψ.qd numiter) (hexp : ∀ x : ℝ, ‖k.dexp (RCLike.I * (x : 𝕜))‖ = 1)
    {hh τ : ℝ} (hhalf : k.half = ((hh : ℝ) : 𝕜)) {dt : 𝕜} (hdt : dt = RCLike.I * ((τ : ℝ) : 𝕜)) (hm : 1 ≤ numiter)
    (hH : HistWf.HOk H ψ.qd) (hlast : (H.qD.getD H.A.length []).getD 0 0 = 0) (hadm : Admissible ψ)
    (hlen : H.A.length = ψ.A.length) (numsteps : Nat) :
    ∃ ψ' nrm, integrateLocalSinglesite k H ψ dt numsteps numiter = .ok (ψ', nrm) := by
  obtain ⟨s0, nrm, E0, hp, hinv0⟩ := prologue_ok ctx hH hlast hadm hlen
  obtain ⟨s, hit, _⟩ := iterate_ok (tdvp1Step k H ψ.qd dt numiter) (fun t => TInv H ψ.qd t 0 E0)
    (fun t ht => tdvp1Step_ok ctx hexp hhalf hdt hm hH ht) numsteps s0 hinv0
  have hL : H.A.length ≠ 0 := by have := hinv0.d.can.hc; omega
  refine ⟨toMPS ψ s, nrm, ?_⟩
  unfold integrateLocalSinglesite
  rw [bind_ok]
  refine ⟨(s0, nrm), hp, ?_⟩
  dsimp only
  rw [if_neg hL, bind_ok]
  exact ⟨s, hit, rfl⟩

end Ptn.Evo

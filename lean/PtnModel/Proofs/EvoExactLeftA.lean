import PtnModel.Proofs.EvoExactTransL
import PtnModel.Proofs.EvoExactTransR
import PtnModel.Proofs.EvoExactComplete
/-!
# One call of `tdvp1Left` on a complete manifold

`tdvp1Left … s i` = one-site step `K_i(τ)` (`τ = half·dt`), QR of the result, new left block, zero-site step `S_i(-τ)`, push
into site `i+1`.
* `tdvp1Left_cancel` : if site `i` has the dimensions of a square left isometry, `S_i(-τ)` undoes `K_i(τ)`: the call only
  moves the centre — same dense state.
* `tdvp1Left_tail`   : if site `i+1` has the dimensions of a square right isometry, the part of the call after `K_i(τ)` leaves
  the new centre tensor in the form `E(+τ H_eff) X'` where `X'` is the centre tensor of the plain gauge move.
-/
set_option linter.unusedSectionVars false

namespace Ptn.Evo
open Ptn Ptn.BondOps Ptn.Ortho Ptn.Env Ptn.Krylov Ptn.Dense Finset

variable {𝕜 : Type} [RCLike 𝕜] [DecidableEq 𝕜]
variable {k : EvoKernels 𝕜 ℝ} {H : MPO 𝕜} {qd : List Int} {numiter : Nat}

/-- an exhausted one-site step is a spectral function of the start tensor (dimensions of the result) -/
theorem leftA_site_spec (hN : NormContract k.cnorm)
    (hEig : ∀ (Afun : List 𝕜 → List 𝕜) (v : List 𝕜), C15.EighAt Afun k.cnorm k.deigh v numiter)
    {BL BR : T3 𝕜} {W : T4 𝕜} {X A1 : T3 𝕜} {δ : 𝕜}
    (hF : LocalFits BL BR W X.d0 X.d1 X.d2) (hHerm : LocalHermitian BL BR W X.d0 X.d1 X.d2)
    (hrun : localHamiltonianStep k BL BR W X δ numiter = .ok A1)
    (hex : C15.Exhausted (localHFun BL BR W X.d0 X.d1 X.d2) k.cnorm (flat3 X) numiter) :
    Spec (A1.d0 * A1.d1 * A1.d2) (localHFun BL BR W A1.d0 A1.d1 A1.d2) k.dexp (-δ) (flat3 X) (flat3 A1) := by
  obtain ⟨a0, a1, a2⟩ := localStep_dims hrun
  obtain ⟨y, hy, hA1⟩ := localStep_unfold hrun
  have hA := isHermitian_localHFun hF hHerm
  have hM := actsAs_localHFun hF
  have hHM := herm_matrix_of_actsAs hA hM
  have hvl : (flat3 X).length = X.d0 * X.d1 * X.d2 := length_flat3 _
  rw [← hvl] at hM hHM
  obtain ⟨hyl, hsp⟩ := spec_of_run hN hM hHM (hEig _ _) hex hy
  rw [hvl] at hyl hsp
  have e : flat3 A1 = y := by rw [hA1, flat3_tab, flat3_unflat3 hyl]
  rw [a0, a1, a2, e]
  exact hsp

/-- an exhausted zero-site step composes the spectral functions; if the times add up to zero the result is the start of the
spectral relation -/
theorem leftA_bond_cancel (hN : NormContract k.cnorm)
    (hEig : ∀ (Afun : List 𝕜 → List 𝕜) (v : List 𝕜), C15.EighAt Afun k.cnorm k.deigh v numiter)
    (hE : ExpLaw k.dexp) {L R : T3 𝕜} {C C1 Cx : Mat 𝕜} {γ δ : 𝕜}
    (hF : BondFits L R C.m C.n) (hH : BondHermitian L R C.m C.n)
    (cx0 : Cx.m = C.m) (cx1 : Cx.n = C.n)
    (hs : Spec (C.m * C.n) (localBondFun L R C.m C.n) k.dexp γ (flat2 Cx) (flat2 C))
    (hrun : localBondStep k L R C δ numiter = .ok C1)
    (hex : C15.Exhausted (localBondFun L R C.m C.n) k.cnorm (flat2 C) numiter)
    (hz : γ + -δ = 0) :
    ∀ p b, p < C.m → b < C.n → C1.f p b = Cx.f p b := by
  obtain ⟨z, hzr, hC1⟩ := bondStep_unfold hrun
  have hA := isHermitian_localBondFun hF hH
  have hM := actsAs_localBondFun hF
  have hHM := herm_matrix_of_actsAs hA hM
  have hvl : (flat2 C).length = C.m * C.n := length_flat2 C
  rw [← hvl] at hM hHM hs
  obtain ⟨hzl, hsp⟩ := spec_run hN hM hHM hs (hEig _ _) hex hzr (fun μ => by
    rw [add_mul, hE.add, mul_comm])
  have key := spec_one hsp (fun μ => by rw [hz, zero_mul, hE.zero])
  rw [hvl] at key
  intro p b hp hb
  have hi : p * C.n + b < C.m * C.n := Ortho.fused_lt hp hb
  have e1 : C1.f p b = vget z (p * C.n + b) := by
    rw [hC1, Env.mat_tab_f (unflat2 z C.m C.n) hp hb, unflat2_f]
  have e2 := vget_flat2 Cx (i := p) (j := b) (by rw [cx0]; exact hp) (by rw [cx1]; exact hb)
  rw [cx1] at e2
  rw [e1, key _ hi, e2]

/-- **S1.**  At a site with the dimensions of a square left isometry the zero-site step of `tdvp1Left` undoes its one-site
step: the call keeps the bond dimensions and the dense state. -/
theorem tdvp1Left_cancel (ctx : SweepCtx k H qd numiter) (hE : ExpLaw k.dexp) {dt : 𝕜} {s s' : Sweep 𝕜} {i : Nat}
    (h : Canon H qd s i) (hi1 : i + 1 < H.A.length) (hsq : SqL qd s i)
    (hrun : tdvp1Left k H qd dt numiter s i = .ok s') (hex : LeftExact false k H qd dt numiter s i) :
    SameDims s s' ∧ SameAmp qd H.A.length s s' := by
  obtain ⟨A1, Q, C, qb, BLn, C1, h1, h2, h3, h4, hc, rfl⟩ := tdvp1Left_unfold hrun
  obtain ⟨hX1, hX0, hqb, _⟩ := hex A1 Q C qb BLn h1 h2 h3
  obtain ⟨a0, a1, a2⟩ := localStep_dims h1
  obtain ⟨s0, s1, s2⟩ := h.wf.shape i (by omega)
  obtain ⟨n0, n1, n2⟩ := h.wf.shape (i + 1) hi1
  -- QR of the evolved tensor
  have hm : 0 < A1.flattenLeft.tab.m := by
    show 0 < A1.d0 * A1.d1
    rw [a0, a1, s0, s1]; exact Nat.mul_pos ctx.dpos (h.wf.qpos i (by omega))
  have hn : 0 < A1.flattenLeft.tab.n := by
    show 0 < A1.d2
    rw [a2, s2]; exact h.wf.qpos (i + 1) (by omega)
  have hf := qr_facts ctx.qr.contract hm hn h2
  set Ai : T3 𝕜 := (T3.ofFlattenLeft Q A1.d0 A1.d1).tab with hAi
  have hAiIso : LeftIso Ai := leftQR_iso hf
  have hAi2 : Ai.d2 = qb.length := hf.Qn
  have hCm : C.m = Ai.d2 := hf.Rm.trans hAi2.symm
  have hCn : C.n = A1.d2 := hf.Rn
  have hAsq : Ai.d0 * Ai.d1 = Ai.d2 := by
    show A1.d0 * A1.d1 = Ai.d2
    rw [a0, a1, s0, s1, hAi2, hqb]; exact hsq
  have hA1 : ∀ a x b, a < Ai.d0 → x < Ai.d1 → b < A1.d2 → A1.f a x b = ∑ p ∈ range Ai.d2, Ai.f a x p * C.f p b := by
    intro a x b (ha : a < A1.d0) (hx : x < A1.d1) hb
    have hr : a * A1.d1 + x < A1.d0 * A1.d1 := Ortho.fused_lt ha hx
    have := hf.prod (a * A1.d1 + x) b hr hb
    rw [Mat.tab_f A1.flattenLeft hr hb] at this
    rw [hAi2]
    have e : A1.flattenLeft.f (a * A1.d1 + x) b = A1.f a x b := by
      show A1.f ((a * A1.d1 + x) / A1.d1) ((a * A1.d1 + x) % A1.d1) b = _
      rw [Ortho.fused_div hx, Ortho.fused_mod hx]
    rw [← e, ← this]
    refine sum_congr rfl fun p hp => ?_
    rw [hAi, Env.t3_tab_f (A := T3.ofFlattenLeft Q A1.d0 A1.d1) ha hx (by show p < Q.n; rw [hf.Qn]; exact mem_range.1 hp)]
    rfl
  -- effective operators
  obtain ⟨hF, hH⟩ := canon_local h ctx.hH ctx.herm
  have hsp1 := leftA_site_spec ctx.norm ctx.eigh hF hH h1 hX1
  have hF' : LocalFits (getBL s i) (getBR s i) (H.A.getD i zeroT4) Ai.d0 Ai.d1 A1.d2 := by
    show LocalFits _ _ _ A1.d0 A1.d1 A1.d2
    rw [a0, a1, a2]; exact hF
  have hH' : LocalHermitian (getBL s i) (getBR s i) (H.A.getD i zeroT4) Ai.d0 Ai.d1 A1.d2 := by
    show LocalHermitian _ _ _ A1.d0 A1.d1 A1.d2
    rw [a0, a1, a2]; exact hH
  obtain ⟨hFB, hHB⟩ := bondHermitian_left hF' hH' h3
  have hFB' : BondFits BLn (getBR s i) C.m C.n := by rw [hCm, hCn]; exact hFB
  have hHB' : BondHermitian BLn (getBR s i) C.m C.n := by rw [hCm, hCn]; exact hHB
  -- transport through the QR
  obtain ⟨Cx, cx0, cx1, hXf, hspB⟩ := spec_leftQR (Q := Ai) (n := A1.d2) (X := getA s i) (Y := A1) (Cy := C) hAiIso hAsq hF' h3
    a0.symm a1.symm a2.symm rfl rfl rfl hCm hCn hA1 hsp1
  have hspB' : Spec (C.m * C.n) (localBondFun BLn (getBR s i) C.m C.n) k.dexp (-(k.half * dt)) (flat2 Cx) (flat2 C) := by
    rw [hCm, hCn]; exact hspB
  -- the zero-site step undoes the one-site step
  have hC1 := leftA_bond_cancel ctx.norm ctx.eigh hE hFB' hHB' (cx0.trans hCm.symm) (cx1.trans hCn.symm) hspB' h4 hX0
    (by ring)
  obtain ⟨c0, c1⟩ := bondStep_dims h4
  have hXA : ∀ a x b, a < Ai.d0 → x < Ai.d1 → b < A1.d2 →
      (getA s i).f a x b = ∑ p ∈ range Ai.d2, Ai.f a x p * C1.f p b := by
    intro a x b ha hx hb
    rw [hXf a x b ha hx hb]
    refine sum_congr rfl fun p hp => ?_
    rw [hC1 p b (by rw [hCm]; exact mem_range.1 hp) (by rw [hCn]; exact hb)]
  -- gauge move
  obtain ⟨hcan', hamp⟩ := canon_left h ctx.hH hi1 (X' := Ai) (Y' := pushLeft (getA s (i + 1)) C1) (qb := qb)
    (BLn := BLn) ⟨a0.trans s0, a1.trans s1, hAi2⟩ ⟨n0, c0.trans hf.Rm, n2⟩ hf.pos hAiIso
    (fun a0' a a1' y ha0 ha ha1 hy => by
      have e0 : ∀ x ∈ range (getA s i).d2, (getA s i).f a0' a x * (getA s (i + 1)).f a1' x y =
          (∑ p ∈ range Ai.d2, Ai.f a0' a p * C1.f p x) * (getA s (i + 1)).f a1' x y := by
        intro x hx
        rw [hXA a0' a x (by show a0' < A1.d0; rw [a0, s0]; exact ha0) (by show a < A1.d1; rw [a1]; exact ha)
          (by rw [a2]; exact mem_range.1 hx)]
      rw [sum_congr rfl e0]
      have e1 : ∀ x ∈ range Ai.d2, Ai.f a0' a x * (pushLeft (getA s (i + 1)) C1).f a1' x y =
          ∑ b ∈ range (getA s i).d2, Ai.f a0' a x * ((getA s (i + 1)).f a1' b y * C1.f x b) := by
        intro x hx
        rw [pushLeft_f _ _ (by rw [n0]; exact ha1) (by rw [c0, hCm]; exact mem_range.1 hx) hy, n1, ← s2,
          Finset.mul_sum]
      rw [Finset.sum_congr rfl e1, Finset.sum_comm]
      refine sum_congr rfl fun b _ => ?_
      rw [Finset.sum_mul]
      exact sum_congr rfl fun p _ => by ring)
    h3
  refine ⟨fun m => ?_, hamp⟩
  show ((s.qD.setIfInBounds (i + 1) qb).getD m []).length = _
  rw [getD_set1 s.qD qb [] (by rw [h.wf.sizeQ]; omega) m]
  by_cases e : m = i + 1
  · rw [if_pos e, e]; exact hqb
  · rw [if_neg e]; rfl

end Ptn.Evo

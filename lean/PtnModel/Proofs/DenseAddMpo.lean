import PtnModel.Proofs.DenseRow
import PtnModel.Proofs.DenseExcept
/-!
# Dense meaning of `MPO.add` (`add_mpo`); same row-vector invariant as for `add_mps`
-/
namespace Ptn.MPO
open Finset Dense
variable {R : Type} [CommRing R]

/-- what a successful `add` returns (tensor list only) -/
theorem add_A [DecidableEq R] (o0 o1 : MPO R) (α : R) (r : MPO R) (h : MPO.add o0 o1 α = .ok r) :
    o0.A.length = o1.A.length ∧
    ((o0.A = [] ∧ r.A = []) ∨
     (∃ X Y, o0.A = [X] ∧ o1.A = [Y] ∧ X.d0 = Y.d0 ∧ X.d1 = Y.d1 ∧ X.d2 = Y.d2 ∧ X.d3 = Y.d3 ∧
        r.A = [(⟨X.d0, X.d1, X.d2, X.d3, fun s t a b => X.f s t a b + α * Y.f s t a b⟩ : T4 R).tab]) ∨
     (∃ X Xs Y Ys rest, o0.A = X :: Xs ∧ o1.A = Y :: Ys ∧ X.d0 = Y.d0 ∧ X.d1 = Y.d1 ∧ X.d2 = Y.d2 ∧
        addInterior Xs Ys = .ok rest ∧ r.A = (catLast X (scaleT4 α Y)).tab :: rest)) := by
  unfold MPO.add at h
  simp only [pyAssert_bind] at h
  obtain ⟨h1, h2, h⟩ := h
  refine ⟨by simpa using h1, ?_⟩
  split at h
  · left
    rw [pure_ok] at h
    subst h
    simp_all
  · right; left
    rename_i X Y hX hY
    simp only [pyAssert_bind] at h
    obtain ⟨_, _, h⟩ := h
    split at h
    · simp [throw_bind_ne] at h
    · simp only [pyAssert_bind, pure_ok] at h
      rename_i hne
      refine ⟨X, Y, hX, hY, ?_⟩
      simp only [not_or, not_not] at hne
      obtain ⟨_, rfl⟩ := h
      exact ⟨hne.1, hne.2.1, hne.2.2.1, hne.2.2.2, rfl⟩
  · right; right
    rename_i X Xs Y Ys _ hX hY
    simp only [pyAssert_bind] at h
    obtain ⟨_, _, h⟩ := h
    split at h
    · simp [throw_bind_ne] at h
    · rename_i hne
      simp only [not_or, not_not] at hne
      simp only [bind_ok, pure_ok] at h
      obtain ⟨rest, hrest, _, _, rfl⟩ := h
      exact ⟨X, Xs, Y, Ys, rest, hX, hY, hne.1, hne.2.1, hne.2.2, hrest, rfl⟩
  · simp [throw_ne] at h

theorem step_blockDiag (X Y : T4 R) (s t : Nat) (hs : s < X.d0) (ht : t < X.d1) (v v0 v1 : Nat → R)
    (hv : ∀ a < X.d2 + Y.d2, v a = if a < X.d2 then v0 a else v1 (a - X.d2)) :
    ∀ b < X.d3 + Y.d3, step (blockDiag X Y).tab s t v b
      = if b < X.d3 then step X s t v0 b else step Y s t v1 (b - X.d3) := by
  intro b hb
  have e : step (blockDiag X Y).tab s t v b
      = ∑ a ∈ range (X.d2 + Y.d2), (if a < X.d2 then v0 a else v1 (a - X.d2)) * (blockDiag X Y).f s t a b := by
    apply sum_congr rfl
    intro a ha
    have ha := mem_range.1 ha
    simp only [T4.tab_d2, blockDiag] at ha
    rw [T4.tab_f (blockDiag X Y) hs ht ha hb, hv a ha]
  rw [e, sum_range_add]
  simp only [blockDiag, step]
  by_cases hb' : b < X.d3
  · simp only [hb', if_true]
    have z : ∑ x ∈ range Y.d2, (if X.d2 + x < X.d2 then v0 (X.d2 + x) else v1 (X.d2 + x - X.d2)) *
        (if X.d2 + x < X.d2 then X.f s t (X.d2 + x) b else 0) = 0 := by
      apply sum_eq_zero; intro x _
      rw [if_neg (by omega), if_neg (by omega), mul_zero]
    rw [z, add_zero]
    apply sum_congr rfl; intro a ha
    have := mem_range.1 ha
    rw [if_pos this, if_pos this]
  · simp only [hb', if_false]
    have z : ∑ x ∈ range X.d2, (if x < X.d2 then v0 x else v1 (x - X.d2)) *
        (if x < X.d2 then 0 else Y.f s t (x - X.d2) (b - X.d3)) = 0 := by
      apply sum_eq_zero; intro x hx
      have := mem_range.1 hx
      rw [if_pos this, if_pos this, mul_zero]
    rw [z, zero_add]
    apply sum_congr rfl; intro a _
    rw [if_neg (by omega), if_neg (by omega), Nat.add_sub_cancel_left]

theorem step_catMid (X Y : T4 R) (s t : Nat) (hs : s < X.d0) (ht : t < X.d1) (v v0 v1 : Nat → R)
    (hv : ∀ a < X.d2 + Y.d2, v a = if a < X.d2 then v0 a else v1 (a - X.d2)) :
    ∀ b < X.d3, step (catMid X Y).tab s t v b = step X s t v0 b + step Y s t v1 b := by
  intro b hb
  have e : step (catMid X Y).tab s t v b
      = ∑ a ∈ range (X.d2 + Y.d2), (if a < X.d2 then v0 a else v1 (a - X.d2)) * (catMid X Y).f s t a b := by
    apply sum_congr rfl
    intro a ha
    have ha := mem_range.1 ha
    simp only [T4.tab_d2, catMid] at ha
    rw [T4.tab_f (catMid X Y) hs ht ha hb, hv a ha]
  rw [e, sum_range_add]
  simp only [catMid, step]
  congr 1
  · apply sum_congr rfl; intro a ha
    have := mem_range.1 ha
    rw [if_pos this, if_pos this]
  · apply sum_congr rfl; intro a _
    rw [if_neg (by omega), if_neg (by omega), Nat.add_sub_cancel_left]

theorem step_catLast (X Y : T4 R) (α : R) (s t : Nat) (hs : s < X.d0) (ht : t < X.d1) (h1 : X.d2 = Y.d2)
    (v : Nat → R) :
    ∀ b < X.d3 + Y.d3, step (catLast X (scaleT4 α Y)).tab s t v b
      = if b < X.d3 then step X s t v b else α * step Y s t v (b - X.d3) := by
  intro b hb
  have e : step (catLast X (scaleT4 α Y)).tab s t v b
      = ∑ a ∈ range X.d2, v a * (catLast X (scaleT4 α Y)).f s t a b := by
    apply sum_congr rfl
    intro a ha
    have ha := mem_range.1 ha
    simp only [T4.tab_d2, catLast] at ha
    rw [T4.tab_f (catLast X (scaleT4 α Y)) hs ht ha hb]
  rw [e]
  simp only [catLast, scaleT4, step]
  by_cases hb' : b < X.d3
  · simp only [hb', if_true]
  · simp only [hb', if_false, ← h1, mul_sum]
    apply sum_congr rfl; intro a _
    ring

/-- interior invariant of `add_mpo` -/
theorem addInterior_row (d : Nat) : ∀ (Xs Ys rest : List (T4 R)) (D0 D1 : Nat) (ss ts : List Nat) (v v0 v1 : Nat → R),
    addInterior Xs Ys = .ok rest → Chain d D0 Xs 1 → Chain d D1 Ys 1 → Digits d Xs.length ss →
    Digits d Xs.length ts →
    (∀ a < D0 + D1, v a = if a < D0 then v0 a else v1 (a - D0)) →
    elemRow rest ss ts v 0 = elemRow Xs ss ts v0 0 + elemRow Ys ss ts v1 0
  | [], _, _, _, _, _, _, _, _, _, h, _, _, _, _, _ => by simp [addInterior] at h
  | [X], [Y], rest, D0, D1, ss, ts, v, v0, v1, h, hc0, hc1, hss, hts, hv => by
      simp only [addInterior] at h
      split at h
      · rename_i hd
        simp only [Except.ok.injEq] at h
        subst h
        obtain ⟨hl, hlt⟩ := hss
        obtain ⟨hl', hlt'⟩ := hts
        match ss, ts, hl, hl' with
        | [s], [t], _, _ =>
          simp only [elemRow_cons, elemRow_nil]
          obtain ⟨hx0, hx1, hx2, hx3⟩ := hc0
          obtain ⟨hy0, hy1, hy2, hy3⟩ := hc1
          have hx3 : X.d3 = 1 := hx3
          subst hx2 hy2
          exact step_catMid X Y s t (by rw [hx0]; exact hlt s (by simp)) (by rw [hx1]; exact hlt' t (by simp))
            v v0 v1 hv 0 (by omega)
      · simp at h
  | [_], [], _, _, _, _, _, _, _, _, h, _, _, _, _, _ => by simp [addInterior] at h
  | [X], Y :: Y' :: Ys, _, _, _, _, _, _, _, _, h, _, _, _, _, _ => by
      simp [addInterior, bind, Except.bind] at h
      split at h <;> simp at h
  | X :: X' :: Xs, [], _, _, _, _, _, _, _, _, h, _, _, _, _, _ => by simp [addInterior] at h
  | X :: X' :: Xs, Y :: Ys, rest, D0, D1, ss, ts, v, v0, v1, h, hc0, hc1, hss, hts, hv => by
      simp only [addInterior] at h
      split at h
      · simp [throw_bind_ne] at h
      · rename_i hd
        simp only [not_or, not_not] at hd
        simp only [bind_ok, pure_ok] at h
        obtain ⟨r', hr', rfl⟩ := h
        obtain ⟨hl, hlt⟩ := hss
        obtain ⟨hl', hlt'⟩ := hts
        match ss, ts, hl, hl' with
        | s :: ss', t :: ts', hl, hl' =>
          obtain ⟨hx0, hx1, hx2, hx3⟩ := hc0
          obtain ⟨hy0, hy1, hy2, hy3⟩ := hc1
          subst hx2 hy2
          have hs : s < X.d0 := by rw [hx0]; exact hlt s (by simp)
          have ht : t < X.d1 := by rw [hx1]; exact hlt' t (by simp)
          simp only [elemRow_cons]
          exact addInterior_row d (X' :: Xs) Ys r' X.d3 Y.d3 ss' ts' _ _ _ hr' hx3 hy3
            ⟨by simpa using hl, fun x hx => hlt x (by simp [hx])⟩
            ⟨by simpa using hl', fun x hx => hlt' x (by simp [hx])⟩
            (step_blockDiag X Y s t hs ht v v0 v1 hv)

/-- dense meaning of `add_mpo` -/
theorem add_dense [DecidableEq R] (o0 o1 r : MPO R) (α : R) (d : Nat) (h0 : Shaped o0 d) (h1 : Shaped o1 d)
    (h : MPO.add o0 o1 α = .ok r) (s t : List Nat) (hs : Digits d o0.A.length s) (ht : Digits d o0.A.length t) :
    r.elem s t = o0.elem s t + α * o1.elem s t := by
  obtain ⟨hlen, hA⟩ := add_A o0 o1 α r h
  have c0 := h0.chain
  have c1 := h1.chain
  obtain ⟨hl, hlt⟩ := hs
  obtain ⟨hl', hlt'⟩ := ht
  simp only [elem_eq]
  rcases hA with ⟨hn, _⟩ | ⟨X, Y, hX, hY, e0', e1, e2, e3, hr⟩ |
    ⟨X, Xs, Y, Ys, rest, hX, hY, e0', e1, e2, hrest, hr⟩
  · exact absurd hn h0.nonempty
  · rw [hX] at c0 hl hl' ⊢
    rw [hY] at c1 ⊢
    rw [hr]
    obtain ⟨hx0, hx1, hx2, hx3⟩ := c0
    obtain ⟨hy0, hy1, hy2, hy3⟩ := c1
    have hx3 : X.d3 = 1 := hx3
    match s, t, hl, hl' with
    | [s0], [t0], _, _ =>
      have hs0 : s0 < X.d0 := by rw [hx0]; exact hlt s0 (by simp)
      have ht0 : t0 < X.d1 := by rw [hx1]; exact hlt' t0 (by simp)
      simp only [elemRow_cons, elemRow_nil]
      rw [step_e0 _ _ _ hx2, step_e0 _ _ _ hy2, step_e0 _ _ _ (by simpa using hx2)]
      exact T4.tab_f (⟨X.d0, X.d1, X.d2, X.d3, fun s t a b => X.f s t a b + α * Y.f s t a b⟩ : T4 R) hs0 ht0
        (by simp [hx2]) (by simp [hx3])
  · rw [hX] at c0 hl hl' ⊢
    rw [hY] at c1 ⊢
    rw [hr]
    obtain ⟨hx0, hx1, hx2, hx3⟩ := c0
    obtain ⟨hy0, hy1, hy2, hy3⟩ := c1
    match s, t, hl, hl' with
    | s0 :: ss, t0 :: ts, hl, hl' =>
      have hs0 : s0 < X.d0 := by rw [hx0]; exact hlt s0 (by simp)
      have ht0 : t0 < X.d1 := by rw [hx1]; exact hlt' t0 (by simp)
      simp only [elemRow_cons]
      rw [addInterior_row d Xs Ys rest X.d3 Y.d3 ss ts _ (step X s0 t0 e0) (fun b => α * step Y s0 t0 e0 b)
        hrest hx3 hy3
        ⟨by simpa using hl, fun x hx => hlt x (by simp [hx])⟩
        ⟨by simpa using hl', fun x hx => hlt' x (by simp [hx])⟩
        (step_catLast X Y α s0 t0 hs0 ht0 e2 e0), elemRow_smul]

end Ptn.MPO

import PtnModel.Proofs.OgSimplify
import PtnModel.Proofs.TreeLength
/-!
# `simplify` keeps a global layering and the absence of dead ends, hence `length`

`Lev g ℓ` (every edge goes from a level to the next one) is kept by `merge_edges` with the *same* level function, so every
surviving node keeps its level; `NoDeadEnd` (every node but the end terminal has an outgoing edge) is kept too.  With
`length_of_lev` this gives `simplify_length`.
-/
set_option linter.unusedSectionVars false
namespace Ptn.Og
open List Rw
variable {κ : Type} [CommRing κ] [DecidableEq κ]

/-- an invariant of structurally valid graphs that every merge of two different edges keeps is kept by `simplify` -/
theorem simplify_inv (I : Graph κ → Prop)
    (hI : ∀ (g g' : Graph κ) (e1 e2 : Int) (d : Bool), SValid g → I g → e1 ≠ e2 → g.mergeEdges e1 e2 d = .ok g' → I g')
    {g g' : Graph κ} (h : SValid g) (hi : I g) (hr : g.simplify = .ok g') : I g' := by
  have step : ∀ {g g' : Graph κ} {d : Bool}, SValid g → I g → g.simplifyStep d = .ok (some g') → I g' := by
    intro g g' d h hi hs
    obtain ⟨e1, e2, hne, hm⟩ := simplifyWalk_spec h hs
    exact hI g g' e1 e2 d h hi hne hm
  have dir : ∀ {d : Bool} (fuel : Nat) {g g' : Graph κ} {c c' : Bool}, SValid g → I g →
      Graph.simplifyDir d fuel g c = .ok (g', c') → I g' := by
    intro d fuel
    induction fuel with
    | zero => intro g g' c c' _ _ hr; simp [Graph.simplifyDir] at hr
    | succ fuel ih =>
      intro g g' c c' h hi hr
      rw [Graph.simplifyDir, bind_ok] at hr
      obtain ⟨r, hs, hr⟩ := hr
      cases r with
      | some g1 => exact ih (simplifyStep_sem h hs).1 (step h hi hs) hr
      | none =>
        simp only [pure_ok, Prod.mk.injEq] at hr
        obtain ⟨rfl, rfl⟩ := hr
        exact hi
  have loop : ∀ (fuel : Nat) {g g' : Graph κ}, SValid g → I g → Graph.simplifyLoop fuel g = .ok g' → I g' := by
    intro fuel
    induction fuel with
    | zero => intro g g' _ _ hr; simp [Graph.simplifyLoop] at hr
    | succ fuel ih =>
      intro g g' h hi hr
      rw [Graph.simplifyLoop] at hr
      simp only [bind_ok, Prod.exists] at hr
      obtain ⟨g0, c0, h0, g1, c1, h1, hr⟩ := hr
      have hv0 := (simplifyDir_sem h h0).1
      have hi0 := dir _ h hi h0
      have hv1 := (simplifyDir_sem hv0 h1).1
      have hi1 := dir _ hv0 hi0 h1
      split at hr
      · exact ih hv1 hi1 hr
      · simp only [pure_ok] at hr
        subst hr; exact hi1
  exact loop _ h hi hr

/-- `merge_edges` keeps a layering with the same level function: every surviving node keeps its level -/
theorem Lev.mergeEdges {g g' : Graph κ} (h : SValid g) {ℓ : Int → Int} (hl : Lev g ℓ) {eid1 eid2 : Int} {d : Bool}
    (hne : eid1 ≠ eid2) (hr : g.mergeEdges eid1 eid2 d = .ok g') : Lev g' ℓ := by
  obtain ⟨edge1, edge2, h1, h2⟩ := mergeEdges_lookups hr
  have hm1 := mem_of_dGet?_eq_some h1
  have hm2 := mem_of_dGet?_eq_some h2
  have l1 : ℓ edge1.nids.2 = ℓ edge1.nids.1 + 1 := hl edge1 (mem_map.2 ⟨_, hm1, rfl⟩)
  have l2 : ℓ edge2.nids.2 = ℓ edge2.nids.1 + 1 := hl edge2 (mem_map.2 ⟨_, hm2, rfl⟩)
  by_cases hpar : edge1.nid (!d) = edge2.nid (!d)
  · obtain ⟨_, hedges, _, _, _⟩ := mergeEdges_par_spec h hr h1 h2 hpar hne
    intro e he
    obtain ⟨⟨k, e'⟩, hp, rfl⟩ := mem_map.1 he
    have hlk : dGet? g'.edges k = some e' :=
      dGet?_eq_some_of_mem (by rw [hedges, Rw.dKeys_dReplace, dKeys_dErase]; exact h.edgesKeys.erase _) hp
    rw [hedges, par_edges_lookup h _ h1 hne] at hlk
    by_cases hk1 : k = eid1
    · simp only [hk1, if_true, Option.some.injEq] at hlk
      subst hlk
      exact l1
    · simp only [hk1, if_false] at hlk
      by_cases hk2 : k = eid2
      · simp [hk2] at hlk
      · simp only [hk2, if_false] at hlk
        exact hl e' (mem_map.2 ⟨_, mem_of_dGet?_eq_some hlk, rfl⟩)
  · obtain ⟨N1, N2, _, _, hbase, _, _, _, _, _, _, _, _, hedges, _, _⟩ := mergeEdges_nodes_spec h hr h1 h2 hpar
    -- the two upstream nodes are on the same level
    have hsame : ℓ (edge1.nid (!d)) = ℓ (edge2.nid (!d)) := by
      cases d
      · simp only [Bool.not_false, Edge.nid, if_true, Bool.false_eq_true, if_false] at hbase ⊢
        rw [hbase] at l1; omega
      · simp only [Bool.not_true, Edge.nid, if_true, Bool.false_eq_true, if_false] at hbase ⊢
        rw [hbase] at l1; omega
    intro e he
    obtain ⟨⟨k, e'⟩, hp, rfl⟩ := mem_map.1 he
    rw [hedges] at hp
    obtain ⟨e0, he0, rfl⟩ := mem_map_snd.1 hp
    have l0 := hl e0 (mem_map.2 ⟨_, (dErase_sublist _ _).subset he0, rfl⟩)
    unfold redirE
    split
    · rename_i hq
      cases d
      · simp only [Edge.nid, Bool.false_eq_true, if_false, Edge.setNid, Bool.not_false, if_true] at hq hsame ⊢
        rw [hsame, ← hq]; exact l0
      · simp only [Edge.nid, if_true, Edge.setNid, Bool.not_true, Bool.false_eq_true, if_false] at hq hsame ⊢
        rw [hsame, ← hq]; exact l0
    · exact l0

/-- `merge_edges` creates no dead end -/
theorem NoDeadEnd.mergeEdges {g g' : Graph κ} (h : SValid g) (hnd : NoDeadEnd g) {eid1 eid2 : Int} {d : Bool}
    (hne : eid1 ≠ eid2) (hr : g.mergeEdges eid1 eid2 d = .ok g') : NoDeadEnd g' := by
  obtain ⟨hv', hterm, _⟩ := mergeEdges_sem h hne hr
  obtain ⟨edge1, edge2, h1, h2⟩ := mergeEdges_lookups hr
  have hm1 := mem_of_dGet?_eq_some h1
  have hm2 := mem_of_dGet?_eq_some h2
  have ht : g'.term true = g.term true := by simp [Graph.term, hterm]
  intro x n' hn' hx
  rw [ht] at hx
  have hlk := dGet?_eq_some_of_mem hv'.nodesKeys hn'
  by_cases hpar : edge1.nid (!d) = edge2.nid (!d)
  · obtain ⟨hnids, _, _, _, hNL⟩ := mergeEdges_par_spec h hr h1 h2 hpar hne
    rw [hNL] at hlk
    cases hl : dGet? g.nodes x with
    | none => rw [hl] at hlk; cases hlk
    | some n =>
      rw [hl] at hlk
      simp only [Option.map_some, Option.some.injEq] at hlk
      subst hlk
      have hmn := mem_of_dGet?_eq_some hl
      have hne0 := hnd x n hmn hx
      show (remNode eid2 n).eidsOut ≠ []
      simp only [remNode]
      by_cases hin : eid2 ∈ n.eidsOut
      · -- the tail of the two parallel edges keeps eid1
        have hx2 : edge2.nid false = x := (h.mem_eids_iff hm2 hmn true).1 (by simpa [Node.eids] using hin)
        have hx1 : edge1.nid false = x := by
          have : edge1.nids.1 = edge2.nids.1 := by rw [hnids]
          simpa [Edge.nid] using this.trans (by simpa [Edge.nid] using hx2)
        have h1in : eid1 ∈ n.eidsOut := by
          have := (h.mem_eids_iff hm1 hmn true).2 (by simpa using hx1)
          simpa [Node.eids] using this
        exact ne_nil_of_mem ((mem_erase_of_ne hne).2 h1in)
      · rw [erase_of_not_mem hin]; exact hne0
  · obtain ⟨N1, N2, _, hN2, hbase, _, _, _, _, _, _, _, _, _, _, hNL⟩ := mergeEdges_nodes_spec h hr h1 h2 hpar
    rw [hNL] at hlk
    by_cases hx2 : x = edge2.nid (!d)
    · simp [hx2] at hlk
    · simp only [hx2, if_false] at hlk
      cases hl : dGet? g.nodes x with
      | none => rw [hl] at hlk; cases hlk
      | some n =>
        rw [hl] at hlk
        simp only [Option.map_some, Option.some.injEq] at hlk
        subst hlk
        have hmn := mem_of_dGet?_eq_some hl
        have hne0 := hnd x n hmn hx
        cases d
        · -- direction 0: the outgoing lists are the ones that change
          have e : (mergeNode false eid2 (edge1.nid (!false)) ((N2.eids (!false)).erase eid2) x n).eidsOut
              = n.eidsOut.erase eid2 ++ (if x = edge1.nid (!false) then (N2.eids (!false)).erase eid2 else []) := by
            have := mergeNode_eids_other false eid2 (edge1.nid (!false)) ((N2.eids (!false)).erase eid2) x n
            simpa [Node.eids] using this
          rw [e]
          by_cases hin : eid2 ∈ n.eidsOut
          · have hxb : edge2.nid false = x := (h.mem_eids_iff hm2 hmn true).1 (by simpa [Node.eids] using hin)
            have h1in : eid1 ∈ n.eidsOut := by
              have := (h.mem_eids_iff hm1 hmn true).2 (by simpa using hbase.trans hxb)
              simpa [Node.eids] using this
            exact ne_nil_of_mem (mem_append_left _ ((mem_erase_of_ne hne).2 h1in))
          · rw [erase_of_not_mem hin]
            intro hc
            exact hne0 (append_eq_nil_iff.1 hc).1
        · have e : (mergeNode true eid2 (edge1.nid (!true)) ((N2.eids (!true)).erase eid2) x n).eidsOut = n.eidsOut := by
            have := mergeNode_eids_same true eid2 (edge1.nid (!true)) ((N2.eids (!true)).erase eid2) x n
            simpa [Node.eids] using this
          rw [e]; exact hne0

/-- **`simplify` keeps the level of every surviving node** (a global layering stays a layering with the same levels) -/
theorem simplify_lev {g g' : Graph κ} (h : SValid g) {ℓ : Int → Int} (hl : Lev g ℓ) (hr : g.simplify = .ok g') :
    Lev g' ℓ :=
  simplify_inv (fun g => Lev g ℓ) (fun _ _ _ _ _ hv hi hne hm => Lev.mergeEdges hv hi hne hm) h hl hr

theorem simplify_noDeadEnd {g g' : Graph κ} (h : SValid g) (hnd : NoDeadEnd g) (hr : g.simplify = .ok g') :
    NoDeadEnd g' :=
  simplify_inv NoDeadEnd (fun _ _ _ _ _ hv hi hne hm => NoDeadEnd.mergeEdges hv hi hne hm) h hnd hr

/-- **`simplify` keeps `length`** on layered graphs without dead ends (where `length` is the level of the end terminal) -/
theorem simplify_length {g g' : Graph κ} (h : SValid g) {ℓ : Int → Int} (hl : Lev g ℓ) (hnd : NoDeadEnd g)
    (h0 : ℓ (g.term false) = 0) (hr : g.simplify = .ok g') : g'.length = g.length := by
  obtain ⟨hv', hrel, _⟩ := simplify_sem h hr
  have ht : ∀ d, g'.term d = g.term d := fun d => by cases d <;> simp [Graph.term, hrel.term]
  rw [length_of_lev h hl hnd h0,
    length_of_lev hv' (simplify_lev h hl hr) (simplify_noDeadEnd h hnd hr) (by rw [ht]; exact h0), ht]

end Ptn.Og

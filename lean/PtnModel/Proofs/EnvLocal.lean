import PtnModel.Proofs.EnvBlocks
/-!
# The effective local operators are projections of the full operator (chain level)

`localH_chain`    : one-site map `apply_local_hamiltonian`;
`localBond_chain` : zero-site map `apply_local_bond_contraction`.
Ket chain `Ls ++ A :: Rs`, bra chain `Ls' ++ B :: Rs'` (independent bond profiles), operator chain `WL ++ W :: WR`.
-/
set_option linter.unusedSectionVars false
set_option linter.unusedVariables false
namespace Ptn.Env
open Finset
variable {R : Type} [CommRing R] [StarRing R]
attribute [local instance] starConj

theorem localH_chain {dl dr : List Nat} {d : Nat} {Ls Rs Ls' Rs' : List (T3 R)} {WL WR : List (T4 R)}
    {A B : T3 R} {W : T4 R} {L E : T3 R}
    (cL : Chain3 dl Ls 1 A.d1) (cR : Chain3 dr Rs A.d2 1)
    (cL' : Chain3 dl Ls' 1 B.d1) (cR' : Chain3 dr Rs' B.d2 1)
    (cWL : Chain4 dl WL 1 W.d2) (cWR : Chain4 dr WR W.d3 1)
    (hA0 : A.d0 = d) (hB0 : B.d0 = d) (hW0 : W.d0 = d) (hW1 : W.d1 = d)
    (hL : IsLeftEnv dl Ls Ls' WL A.d1 W.d2 B.d1 L) (hE : IsRightEnv dr Rs Rs' WR A.d2 W.d3 B.d2 E) :
    ∃ T, Op.applyLocalHamiltonian L E W A = .ok T ∧ T.d0 = d ∧ T.d1 = B.d1 ∧ T.d2 = B.d2 ∧
      ∑ s' ∈ range d, ∑ a' ∈ range B.d1, ∑ b' ∈ range B.d2, star (B.f s' a' b') * T.f s' a' b'
      = ∑ σ ∈ digits (dl ++ d :: dr), ∑ τ ∈ digits (dl ++ d :: dr),
          star (pmat (Ls' ++ B :: Rs') σ 0 0) * pmatO (WL ++ W :: WR) σ τ 0 0 * pmat (Ls ++ A :: Rs) τ 0 0 := by
  obtain ⟨l0, l1, l2, hLf⟩ := hL
  obtain ⟨e0, e1, e2, hEf⟩ := hE
  obtain ⟨T, hT, t0, t1, t2, hTf⟩ := applyLocalHamiltonian_ok L E W A e0.symm (hW1.trans hA0.symm) e1.symm
    l0.symm l1.symm
  refine ⟨T, hT, t0.trans hW0, t1.trans l2, t2.trans e2, ?_⟩
  have step1 : ∑ s' ∈ range d, ∑ a' ∈ range B.d1, ∑ b' ∈ range B.d2, star (B.f s' a' b') * T.f s' a' b'
      = ∑ s' ∈ range d, ∑ a' ∈ range B.d1, ∑ b' ∈ range B.d2, star (B.f s' a' b') *
        ∑ a ∈ range A.d1, ∑ w ∈ range W.d2,
          (∑ σr ∈ digits dr, ∑ s ∈ range d, ∑ τr ∈ digits dr,
              (∑ w' ∈ range W.d3, W.f s' s w w' * pmatO WR σr τr w' 0)
                * (∑ b ∈ range A.d2, A.f s a b * pmat Rs τr b 0) * star (pmat Rs' σr b' 0))
            * ∑ σl ∈ digits dl, ∑ τl ∈ digits dl, pmat Ls τl 0 a * pmatO WL σl τl 0 w * star (pmat Ls' σl 0 a') := by
    refine Finset.sum_congr rfl fun s' hs' => Finset.sum_congr rfl fun a' ha' =>
      Finset.sum_congr rfl fun b' hb' => ?_
    rw [hTf s' a' b' (by simpa [hW0] using hs') (by simpa [l2] using ha') (by simpa [e2] using hb')]
    congr 1
    refine Finset.sum_congr rfl fun a ha => Finset.sum_congr rfl fun w hw => ?_
    rw [hLf a w a' (by simpa using ha) (by simpa using hw) (by simpa using ha')]
    congr 1
    rw [hW1]
    refine Eq.trans ?_ (alg_localH_inner (digits dr) (digits dr) (range d) (range A.d2) (range W.d3)
      (fun s b => A.f s a b) (fun s w' => W.f s' s w w') (fun τr b => pmat Rs τr b 0)
      (fun σr τr w' => pmatO WR σr τr w' 0) (fun σr => pmat Rs' σr b' 0))
    refine Finset.sum_congr rfl fun s hs => Finset.sum_congr rfl fun w' hw' => ?_
    congr 1
    refine Finset.sum_congr rfl fun b hb => ?_
    rw [hEf b w' b' (by simpa using hb) (by simpa using hw') (by simpa using hb')]
  rw [step1]
  refine Eq.trans (alg_localH_outer (digits dl) (digits dl) (digits dr) (digits dr)
    (range d) (range d) (range A.d1) (range B.d1) (range B.d2) (range W.d2)
    (fun s' a' b' => B.f s' a' b')
    (fun s' s σr τr w => ∑ w' ∈ range W.d3, W.f s' s w w' * pmatO WR σr τr w' 0)
    (fun s τr a => ∑ b ∈ range A.d2, A.f s a b * pmat Rs τr b 0)
    (fun τl a => pmat Ls τl 0 a) (fun σl τl w => pmatO WL σl τl 0 w) (fun σl a' => pmat Ls' σl 0 a')
    (fun σr b' => pmat Rs' σr b' 0)) ?_
  rw [sum_digits_append]
  refine Finset.sum_congr rfl fun σl hσl => ?_
  rw [sum_digits_cons]
  refine Finset.sum_congr rfl fun s' hs' => Finset.sum_congr rfl fun σr hσr => ?_
  rw [sum_digits_append]
  refine Finset.sum_congr rfl fun τl hτl => ?_
  rw [sum_digits_cons]
  refine Finset.sum_congr rfl fun s hs => Finset.sum_congr rfl fun τr hτr => ?_
  rw [pmat_append cL' (B :: Rs') hσl (s' :: σr) Nat.one_pos 0,
    pmat_append cL (A :: Rs) hτl (s :: τr) Nat.one_pos 0,
    pmatO_append cWL (W :: WR) hσl hτl (s' :: σr) (s :: τr) Nat.one_pos 0]
  simp only [pmat_cons, pmatO_cons]

theorem localBond_chain {dl dr : List Nat} {Ls Rs Ls' Rs' : List (T3 R)} {WL WR : List (T4 R)}
    {C C' : Mat R} {Dw : Nat} {L E : T3 R}
    (cL : Chain3 dl Ls 1 C.m) (cR : Chain3 dr Rs C.n 1)
    (cL' : Chain3 dl Ls' 1 C'.m) (cR' : Chain3 dr Rs' C'.n 1)
    (cWL : Chain4 dl WL 1 Dw) (cWR : Chain4 dr WR Dw 1)
    (hL : IsLeftEnv dl Ls Ls' WL C.m Dw C'.m L) (hE : IsRightEnv dr Rs Rs' WR C.n Dw C'.n E) :
    ∃ T, Op.applyLocalBondContraction L E C = .ok T ∧ T.m = C'.m ∧ T.n = C'.n ∧
      ∑ a' ∈ range C'.m, ∑ b' ∈ range C'.n, star (C'.f a' b') * T.f a' b'
      = ∑ σl ∈ digits dl, ∑ σr ∈ digits dr, ∑ τl ∈ digits dl, ∑ τr ∈ digits dr,
          star (∑ a' ∈ range C'.m, pmat Ls' σl 0 a' * ∑ b' ∈ range C'.n, C'.f a' b' * pmat Rs' σr b' 0)
            * pmatO (WL ++ WR) (σl ++ σr) (τl ++ τr) 0 0
            * (∑ a ∈ range C.m, pmat Ls τl 0 a * ∑ b ∈ range C.n, C.f a b * pmat Rs τr b 0) := by
  obtain ⟨l0, l1, l2, hLf⟩ := hL
  obtain ⟨e0, e1, e2, hEf⟩ := hE
  obtain ⟨T, hT, t0, t1, hTf⟩ := applyLocalBondContraction_ok L E C e0.symm l0 (l1.trans e1.symm)
  refine ⟨T, hT, t0.trans l2, t1.trans e2, ?_⟩
  have step1 : ∑ a' ∈ range C'.m, ∑ b' ∈ range C'.n, star (C'.f a' b') * T.f a' b'
      = ∑ a' ∈ range C'.m, ∑ b' ∈ range C'.n, star (C'.f a' b') *
        ∑ a ∈ range C.m, ∑ w ∈ range Dw,
          (∑ σl ∈ digits dl, ∑ τl ∈ digits dl, pmat Ls τl 0 a * pmatO WL σl τl 0 w * star (pmat Ls' σl 0 a'))
          * ∑ b ∈ range C.n, C.f a b *
            ∑ σr ∈ digits dr, ∑ τr ∈ digits dr, pmat Rs τr b 0 * pmatO WR σr τr w 0 * star (pmat Rs' σr b' 0) := by
    refine Finset.sum_congr rfl fun a' ha' => Finset.sum_congr rfl fun b' hb' => ?_
    rw [hTf a' b' (by simpa [l2] using ha') (by simpa [e2] using hb'), l0, l1]
    congr 1
    refine Finset.sum_congr rfl fun a ha => Finset.sum_congr rfl fun w hw => ?_
    rw [hLf a w a' (by simpa using ha) (by simpa using hw) (by simpa using ha')]
    congr 1
    refine Finset.sum_congr rfl fun b hb => ?_
    rw [hEf b w b' (by simpa using hb) (by simpa using hw) (by simpa using hb')]
  rw [step1]
  refine Eq.trans (alg_localBond (digits dl) (digits dl) (digits dr) (digits dr)
    (range C.m) (range C'.m) (range C.n) (range C'.n) (range Dw)
    (fun a b => C.f a b) (fun a' b' => C'.f a' b')
    (fun τl a => pmat Ls τl 0 a) (fun σl τl w => pmatO WL σl τl 0 w) (fun σl a' => pmat Ls' σl 0 a')
    (fun τr b => pmat Rs τr b 0) (fun σr τr w => pmatO WR σr τr w 0) (fun σr b' => pmat Rs' σr b' 0)) ?_
  refine Finset.sum_congr rfl fun σl hσl => Finset.sum_congr rfl fun σr hσr =>
    Finset.sum_congr rfl fun τl hτl => Finset.sum_congr rfl fun τr hτr => ?_
  rw [pmatO_append cWL WR hσl hτl σr τr Nat.one_pos 0]

end Ptn.Env

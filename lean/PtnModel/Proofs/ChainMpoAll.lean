import PtnModel.Proofs.ChainMpoMap
import PtnModel.Proofs.ChainMpoWords
/-!
# `from_opgraph`: all facts about the result in one place
-/
set_option linter.unusedSectionVars false

namespace Ptn.Ch
open Ptn Ptn.Og List

variable {κ : Type} [CommRing κ] [DecidableEq κ]

/-- `x` is the target of an edge leaving a node of `A` -/
def IsSucc (g : Graph κ) (A : List Int) (x : Int) : Prop :=
  ∃ nid ∈ A, ∃ node, dGet? g.nodes nid = some node ∧ ∃ eid ∈ node.eidsOut, ∃ e, dGet? g.edges eid = some e ∧ e.nids.2 = x

theorem run_length (g : Graph κ) (opmap : OpMap κ) (d : Nat) :
    ∀ (Ls : List (List Int)) (Ts : List (Tensor κ)) (nids0 : List Int), Run g opmap d nids0 Ls Ts → Ts.length = Ls.length := by
  intro Ls
  induction Ls with
  | nil => intro Ts nids0 h; cases Ts with
    | nil => rfl
    | cons _ _ => simp [Run] at h
  | cons S Ls ih =>
    intro Ts nids0 h
    cases Ts with
    | nil => simp [Run] at h
    | cons A Ts =>
      obtain ⟨_, _, _, _, _, _, _, _, hrun⟩ := h
      simp [ih Ts S hrun]

theorem run_succ (g : Graph κ) (opmap : OpMap κ) (d : Nat) :
    ∀ (Ls : List (List Int)) (Ts : List (Tensor κ)) (nids0 : List Int), Run g opmap d nids0 Ls Ts →
      (∀ k A B, (nids0 :: Ls)[k]? = some A → (nids0 :: Ls)[k + 1]? = some B → ∀ x, x ∈ B ↔ IsSucc g A x) ∧
      (∀ x, ¬ IsSucc g (lastLayer nids0 Ls) x) := by
  intro Ls
  induction Ls with
  | nil =>
    intro Ts nids0 h
    cases Ts with
    | cons _ _ => simp [Run] at h
    | nil =>
      refine ⟨by intro k A B _ hB; simp at hB, ?_⟩
      intro x ⟨nid, hnid, node, hnode, eid, heid, e, he, _⟩
      obtain ⟨node', hnode', hall⟩ := (nextBond_spec g nids0 [] h).fwd nid hnid
      rw [hnode] at hnode'
      cases hnode'
      obtain ⟨_, _, _, hmem⟩ := hall eid heid
      simp at hmem
  | cons S Ls ih =>
    intro Ts nids0 h
    cases Ts with
    | nil => simp [Run] at h
    | cons A Ts =>
      obtain ⟨nids1, contribs, hn1, _, hS, _, _, _, hrun⟩ := h
      obtain ⟨ih1, ih2⟩ := ih Ts S hrun
      have hN := nextBond_spec g nids0 nids1 hn1
      refine ⟨?_, ih2⟩
      intro k A' B hA hB x
      cases k with
      | zero =>
        simp only [getElem?_cons_zero, Option.some.injEq, zero_add, getElem?_cons_succ] at hA hB
        subst hA hB
        rw [hS, (sortInts_perm nids1).mem_iff]
        constructor
        · intro hx; exact hN.bwd x hx
        · rintro ⟨nid, hnid, node, hnode, eid, heid, e, he, hx⟩
          obtain ⟨node', hnode', hall⟩ := hN.fwd nid hnid
          rw [hnode] at hnode'
          cases hnode'
          obtain ⟨e', he', _, hmem⟩ := hall eid heid
          rw [he] at he'
          cases he'
          rw [← hx]; exact hmem
      | succ k =>
        simp only [getElem?_cons_succ] at hA hB
        exact ih1 k A' B hA hB x

/-- **Everything about the result of `MPO.from_opgraph` on a consistent graph.** -/
theorem fromOpgraph_all (qd : List Int) (g : Graph κ) (opmap : OpMap κ) (on : Bool) (out : MpoOut κ)
    (h : fromOpgraph qd g opmap on = .ok out) (hc : g.isConsistent = true) :
    ∃ layers : List (List Int),
      layers.head? = some [g.term false] ∧
      out.qD = layers.map (layerQ g) ∧
      out.tensors.length + 1 = layers.length ∧
      (∀ S ∈ layers, S.Pairwise (· < ·)) ∧
      (∀ k A B, layers[k]? = some A → layers[k + 1]? = some B → ∀ x, x ∈ B ↔ IsSucc g A x) ∧
      (∀ last, layers.getLast? = some last → ∀ x, ¬ IsSucc g last x) ∧
      layers.Pairwise (fun A B => ∀ x ∈ A, x ∉ B) ∧
      (on = true → ∀ k S i x, layers[k]? = some S → S[i]? = some x → dGet? out.nidMap x = some (k, i)) ∧
      (OpMapWF opmap qd.length → ∀ last, layers.getLast? = some last →
        ∀ ss ts : List Nat, ss.length = out.tensors.length → ts.length = out.tensors.length →
          (∀ s ∈ ss, s < qd.length) → (∀ t ∈ ts, t < qd.length) →
          tn (finOf g last) out.tensors ss ts 0 = denseFrom g opmap ss ts (g.term false)) := by
  obtain ⟨hd, t0, Ls, Ts, ht0, hrun, hT, hq, hnm⟩ := fromOpgraph_spec qd g opmap on out h
  obtain ⟨L, hLn, hL0, hLc⟩ := forward_levels g hc
  have hlev := run_levels g opmap qd.length L hLc Ls Ts [g.term false] 0 hrun (by simpa using hL0)
  have hsorted := run_nodup g opmap qd.length Ls Ts [g.term false] hrun
  obtain ⟨hsucc, hlastS⟩ := run_succ g opmap qd.length Ls Ts [g.term false] hrun
  have hlen := run_length g opmap qd.length Ls Ts [g.term false] hrun
  have huniq : ∀ x a b, (x, a) ∈ L → (x, b) ∈ L → a = b := by
    intro x a b ha hb
    have h1 := dGet?_of_mem (d := L) (by simpa [dKeys] using hLn) ha
    have h2 := dGet?_of_mem (d := L) (by simpa [dKeys] using hLn) hb
    rw [h1] at h2
    exact Option.some.inj h2
  have hdisj : Ls.Pairwise (fun A B => ∀ x ∈ A, x ∉ B) := by
    rw [pairwise_iff_getElem]
    intro i j hi hj hij x hxA hxB
    have h1 := hlev i Ls[i] (getElem?_eq_getElem hi) x hxA
    have h2 := hlev j Ls[j] (getElem?_eq_getElem hj) x hxB
    have := huniq x _ _ h1 h2
    omega
  have hfirst : ∀ S ∈ Ls, g.term false ∉ S := by
    intro S hS hx
    obtain ⟨k, hk, rfl⟩ := getElem_of_mem hS
    have h1 := hlev k Ls[k] (getElem?_eq_getElem hk) _ hx
    have := huniq _ _ _ h1 hL0
    omega
  have hlast : ([g.term false] :: Ls).getLast? = some (lastLayer [g.term false] Ls) := by
    have : ∀ (Ls : List (List Int)) (n0 : List Int), (n0 :: Ls).getLast? = some (lastLayer n0 Ls) := by
      intro Ls
      induction Ls with
      | nil => intro n0; rfl
      | cons S Ls ih => intro n0; rw [getLast?_cons_cons, ih S]; rfl
    exact this Ls _
  refine ⟨[g.term false] :: Ls, rfl, ?_, by rw [hT, hlen]; simp, ?_, hsucc, ?_, ?_, ?_, ?_⟩
  · rw [hq]; simp [layerQ, ht0]
  · intro S hS
    rcases mem_cons.1 hS with rfl | hS
    · simp
    · exact hsorted S hS
  · intro last hl x
    rw [hlast] at hl
    cases hl
    exact hlastS x
  · rw [pairwise_cons]
    refine ⟨?_, hdisj⟩
    intro B hB x hx
    simp only [mem_singleton] at hx
    subst hx
    exact hfirst B hB
  · intro hon k S i x hk hi
    subst hon
    rw [hnm]
    simp only [if_true]
    obtain ⟨n1, n2⟩ := nidMapAfter_lookup Ls [(g.term false, (0, 0))] 1
      (fun S hS => (hsorted S hS).imp (fun h => ne_of_lt h)) hdisj
    cases k with
    | zero =>
      simp only [getElem?_cons_zero, Option.some.injEq] at hk
      subst hk
      cases i with
      | zero =>
        simp only [getElem?_cons_zero, Option.some.injEq] at hi
        subst hi
        rw [n1 _ (fun S hS => hfirst S hS)]
        simp [dGet?, lookup_cons]
      | succ i => simp at hi
    | succ k =>
      simp only [getElem?_cons_succ] at hk
      rw [n2 k S i x hk hi]
      congr 2
      omega
  · intro hw last hl ss ts hs ht hsd htd
    rw [hlast] at hl
    cases hl
    rw [hT] at hs ht ⊢
    have := run_dense g opmap qd.length hd hw Ls Ts [g.term false] hrun (by simp) ss ts hs ht hsd htd 0 (by simp)
    simpa using this

end Ptn.Ch

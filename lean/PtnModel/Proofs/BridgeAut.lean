import PtnModel.Proofs.AutLen
import PtnModel.Proofs.BridgeElem
/-!
# The graph unrolled from an automaton has a single sink

`fromAutomaton_singleSink`: every node of the graph built by `OpGraph.from_automaton` is the copy of an active state in some
layer `j ≤ L`; for `j < L` an active state has an active outgoing edge into the next active layer (it is co-reachable), hence the
node has an outgoing edge; layer `L` consists of the end node only.
-/
set_option linter.unusedSectionVars false

namespace Ptn.Og
open Ptn List

variable {κ : Type} [CommRing κ] [DecidableEq κ]

theorem lo_locate (act : List (List Int)) : ∀ (J k : Nat), k < lo act J → ∃ j, j < J ∧ lo act j ≤ k ∧ k < lo act (j + 1) := by
  intro J
  induction J with
  | zero => intro k h; simp [lo] at h
  | succ J ih =>
    intro k h
    by_cases hk : k < lo act J
    · obtain ⟨j, hj, h1, h2⟩ := ih k hk
      exact ⟨j, by omega, h1, h2⟩
    · exact ⟨J, by omega, by omega, h⟩

/-- **the end node is the only sink of the graph unrolled from an automaton** -/
theorem fromAutomaton_singleSink {a : AutOp κ} (hv : AutValid a) {L : Int} {g : Graph κ}
    (h : fromAutomaton a L = .ok g) : Ptn.Ch.SingleSink g := by
  obtain ⟨hL, back, fwd, hb, hf, h0, hLa, hrecs, hnd, hcons, hterm, hkeys, hnodes⟩ := fromAutomaton_unrolled h
  have data := autData_of_layers hv hb hf h0 hLa hnodes
  have sv := SValid.of_isConsistent hnd hcons
  generalize hact : actOf back fwd = act at *
  have ht1 : g.term true = (lo act L.toNat : Int) := by simp [Graph.term, hterm]
  intro p hp hsink
  obtain ⟨k, n⟩ := p
  show k = g.term true
  simp only at hsink
  -- locate the node
  have hkmem : k ∈ dKeys g.nodes := mem_map_of_mem (f := (·.1)) hp
  have hlo1 := le_lo data 1 (by omega)
  have hmono := lo_mono act (show 1 ≤ L.toNat + 1 by omega)
  have hk : 0 ≤ k ∧ k < (lo act (L.toNat + 1) : Int) := by
    rw [hkeys] at hkmem
    rcases mem_cons.1 hkmem with rfl | hm
    · constructor <;> omega
    · have := mem_idRange.1 hm
      constructor <;> omega
  obtain ⟨j, hj, hj1, hj2⟩ := lo_locate act (L.toNat + 1) k.toNat (by omega)
  have hidx : k.toNat - lo act j < (act.getD j []).length := by
    simp only [lo, actLen] at hj2
    omega
  let u : Int := (act.getD j [])[k.toNat - lo act j]
  have hu : u ∈ act.getD j [] := getElem_mem hidx
  have hg : gnode act j u = k := by
    simp only [gnode, u]
    rw [(data.actNodup j (by omega)).idxOf_getElem]
    omega
  by_cases hjL : j < L.toNat
  · exfalso
    obtain ⟨v, hv', ae, hae, hactive, h1⟩ := data.succ j hjL u hu
    have hr : ((gnode act j ae.nids.1, gnode act (j + 1) v), normOpics (ae.opics j)) ∈ g.recs := by
      rw [hrecs, mem_flatMap]
      exact ⟨j, List.mem_range.2 hjL, (mem_siteRecs (data.actNodup (j + 1) (by omega)) _).2
        ⟨v, hv', ae, hae, hactive, h1 ▸ hu, rfl⟩⟩
    obtain ⟨⟨k', ge⟩, hge, hgr⟩ := mem_map.1 hr
    simp only [Prod.mk.injEq] at hgr
    obtain ⟨n', hn', hk'⟩ := sv.edgeNode k' ge hge false
    have hsrc : ge.nid false = k := by rw [Edge.nid]; simp [hgr.1, h1, hg]
    rw [hsrc] at hn'
    have := sv.node_unique hn' hp
    subst this
    simp only [Bool.not_false, Node.eids, if_true, hsink] at hk'
    simp at hk'
  · have hjeq : j = L.toNat := by omega
    subst hjeq
    rw [data.actL] at hidx
    simp only [length_singleton] at hidx
    rw [ht1]
    omega

end Ptn.Og

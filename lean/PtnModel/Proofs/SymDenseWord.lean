import PtnModel.Proofs.SymDenseBasic
/-!
# Dense meaning of words, chains and formal sums, digit-indexed
-/
set_option linter.unusedSectionVars false

namespace Ptn.Og
open List Ptn.Dense

variable {κ : Type} [CommRing κ] [DecidableEq κ]

/-- the operator map assigns a `d × d` matrix to every id of `ids` -/
def OpMapOk (opmap : OpMap κ) (d : Nat) (ids : List Int) : Prop :=
  ∀ o ∈ ids, ∃ m, opmap.get o = .ok m ∧ IsMat m d d

/-- entry of the local operator with id `o` -/
def opEntry (opmap : OpMap κ) (o : Int) (a b : Nat) : κ :=
  match opmap.lookup o with
  | some m => m.entry a b
  | none => 0

/-- the entry `Π_k opmap[w_k][s_k, t_k]` of the Kronecker product along the word `w` -/
def wordEntry (opmap : OpMap κ) : Word → List Nat → List Nat → κ
  | [], _, _ => 1
  | o :: w, a :: s, b :: t => opEntry opmap o a b * wordEntry opmap w s t
  | _ :: _, _, _ => 0

theorem opMap_get_entry {opmap : OpMap κ} {o : Int} {m : Mat κ} (h : opmap.get o = .ok m) (a b : Nat) :
    opEntry opmap o a b = m.entry a b := by
  unfold OpMap.get at h
  unfold opEntry
  cases hl : opmap.lookup o with
  | none => rw [hl] at h; cases h
  | some m' => rw [hl] at h; cases h; rfl

theorem isDigits_cons {d n : Nat} {s : List Nat} (h : IsDigits d (n + 1) s) :
    ∃ a s', s = a :: s' ∧ a < d ∧ IsDigits d n s' := by
  obtain ⟨hl, hd⟩ := h
  cases s with
  | nil => simp at hl
  | cons a s' =>
    simp only [length_cons, Nat.add_right_cancel_iff] at hl
    exact ⟨a, s', rfl, hd a (by simp), hl, fun b hb => hd b (by simp [hb])⟩

/-- `kron` of the operators of a word from the left to the right, starting from `M0` (the loop of `as_matrix`) -/
theorem foldl_kron_spec (opmap : OpMap κ) (d : Nat) :
    ∀ (oids : List Int), OpMapOk opmap d oids → ∀ (M0 : Mat κ) (p : Nat), IsMat M0 p p →
      ∃ M, oids.foldlM (fun op oid => do let m ← opmap.get oid; pure (Mat.kron op m)) M0 = .ok M ∧
        IsMat M (p * d ^ oids.length) (p * d ^ oids.length) ∧
        ∀ (I J : Nat) (s t : List Nat), IsDigits d oids.length s → IsDigits d oids.length t →
          M.entry (I * d ^ oids.length + digIdx d s) (J * d ^ oids.length + digIdx d t) =
            M0.entry I J * wordEntry opmap oids s t := by
  intro oids
  induction oids with
  | nil =>
    intro _ M0 p h0
    refine ⟨M0, rfl, by simpa using h0, ?_⟩
    intro I J s t hs ht
    have hs' : s = [] := List.length_eq_zero_iff.1 hs.1
    have ht' : t = [] := List.length_eq_zero_iff.1 ht.1
    subst hs' ht'
    simp [digIdx, wordEntry]
  | cons o rest ih =>
    intro hop M0 p h0
    obtain ⟨m, hm, hmm⟩ := hop o (by simp)
    have h1 : IsMat (Mat.kron M0 m) (p * d) (p * d) := kron_isMat h0 hmm
    obtain ⟨M, hM, hshape, hent⟩ := ih (fun o' ho' => hop o' (by simp [ho'])) (Mat.kron M0 m) (p * d) h1
    refine ⟨M, ?_, ?_, ?_⟩
    · rw [foldlM_cons, hm]
      exact hM
    · rw [length_cons, pow_succ]
      have : p * (d ^ rest.length * d) = p * d * d ^ rest.length := by ring
      rw [this]; exact hshape
    · intro I J s t hs ht
      obtain ⟨a, s', rfl, ha, hs'⟩ := isDigits_cons hs
      obtain ⟨b, t', rfl, hb, ht'⟩ := isDigits_cons ht
      have e1 : I * d ^ (o :: rest).length + digIdx d (a :: s') = (I * d + a) * d ^ rest.length + digIdx d s' := by
        simp only [length_cons, pow_succ, digIdx, hs'.1]; ring
      have e2 : J * d ^ (o :: rest).length + digIdx d (b :: t') = (J * d + b) * d ^ rest.length + digIdx d t' := by
        simp only [length_cons, pow_succ, digIdx, ht'.1]; ring
      rw [e1, e2, hent _ _ s' t' hs' ht', kron_entry M0 hmm I J a b ha hb, wordEntry, opMap_get_entry hm]
      ring

/-- **Dense meaning of a chain**: `OpChain.as_matrix` returns the `d^n × d^n` matrix with the entries
`coeff · Π_k opmap[oid_k][s_k, t_k]`. -/
theorem chain_asMatrix_spec (c : OpChain κ) (opmap : OpMap κ) (d : Nat) (hop : OpMapOk opmap d c.oids) :
    ∃ M, c.asMatrix opmap = .ok M ∧ IsMat M (d ^ c.length) (d ^ c.length) ∧
      ∀ (s t : List Nat), IsDigits d c.length s → IsDigits d c.length t →
        M.entry (digIdx d s) (digIdx d t) = c.coeff * wordEntry opmap c.oids s t := by
  have h0 : IsMat (Mat.scale c.coeff (Mat.identity 1)) 1 1 := scale_isMat _ (identity_isMat 1)
  obtain ⟨M, hM, hshape, hent⟩ := foldl_kron_spec opmap d c.oids hop _ 1 h0
  refine ⟨M, hM, by simpa [OpChain.length] using hshape, ?_⟩
  intro s t hs ht
  have := hent 0 0 s t hs ht
  simp only [Nat.zero_mul, Nat.zero_add] at this
  rw [this, scale_entry, identity_one_entry, mul_one]

/-- **Dense meaning of a word**: `wordDense` (right-nested `kron`) has the entries `Π_k opmap[w_k][s_k, t_k]`. -/
theorem wordDense_spec (opmap : OpMap κ) (d : Nat) :
    ∀ (w : Word), OpMapOk opmap d w → ∃ M, wordDense opmap w = .ok M ∧ IsMat M (d ^ w.length) (d ^ w.length) ∧
      ∀ (s t : List Nat), IsDigits d w.length s → IsDigits d w.length t →
        M.entry (digIdx d s) (digIdx d t) = wordEntry opmap w s t := by
  intro w
  induction w with
  | nil =>
    intro _
    refine ⟨Mat.identity 1, rfl, by simpa using identity_isMat 1, ?_⟩
    intro s t hs ht
    have hs' : s = [] := List.length_eq_zero_iff.1 hs.1
    have ht' : t = [] := List.length_eq_zero_iff.1 ht.1
    subst hs' ht'
    simp [digIdx, wordEntry, identity_one_entry]
  | cons o w ih =>
    intro hop
    obtain ⟨m, hm, hmm⟩ := hop o (by simp)
    obtain ⟨R, hR, hshape, hent⟩ := ih (fun o' ho' => hop o' (by simp [ho']))
    refine ⟨Mat.kron m R, ?_, ?_, ?_⟩
    · simp only [wordDense, hm, hR]; rfl
    · rw [length_cons, pow_succ, Nat.mul_comm]; exact kron_isMat hmm hshape
    · intro s t hs ht
      obtain ⟨a, s', rfl, ha, hs'⟩ := isDigits_cons hs
      obtain ⟨b, t', rfl, hb, ht'⟩ := isDigits_cons ht
      simp only [digIdx, hs'.1, ht'.1]
      rw [kron_entry m hshape a b _ _ (digIdx_lt hs') (digIdx_lt ht'), hent s' t' hs' ht', wordEntry,
        opMap_get_entry hm]

/-- **Dense meaning of a formal sum**: `denseOfSym` has the entries `Σ_(w,c) c · Π_k opmap[w_k][s_k, t_k]`. -/
theorem denseOfSym_spec (opmap : OpMap κ) (d L : Nat) :
    ∀ (S : Sym κ), (∀ p ∈ S, p.1.length = L ∧ OpMapOk opmap d p.1) → ∀ (acc : Mat κ), IsMat acc (d ^ L) (d ^ L) →
      ∃ M, S.foldlM (fun acc p => do
          let m ← wordDense opmap p.1
          pure (Mat.add acc (Mat.scale p.2 m))) acc = .ok M ∧ IsMat M (d ^ L) (d ^ L) ∧
        ∀ (s t : List Nat), IsDigits d L s → IsDigits d L t →
          M.entry (digIdx d s) (digIdx d t) =
            acc.entry (digIdx d s) (digIdx d t) + (S.map fun p => p.2 * wordEntry opmap p.1 s t).sum := by
  intro S
  induction S with
  | nil =>
    intro _ acc hacc
    exact ⟨acc, rfl, hacc, fun s t _ _ => by simp⟩
  | cons p S ih =>
    intro hS acc hacc
    obtain ⟨hl, hop⟩ := hS p (by simp)
    obtain ⟨m, hm, hmm, hment⟩ := wordDense_spec opmap d p.1 hop
    rw [hl] at hmm hment
    have h1 : IsMat (Mat.add acc (Mat.scale p.2 m)) (d ^ L) (d ^ L) := add_isMat hacc (scale_isMat _ hmm)
    obtain ⟨M, hM, hshape, hent⟩ := ih (fun q hq => hS q (by simp [hq])) _ h1
    refine ⟨M, ?_, hshape, ?_⟩
    · rw [foldlM_cons, hm]; exact hM
    · intro s t hs ht
      rw [hent s t hs ht, add_entry hacc (scale_isMat _ hmm), scale_entry, hment s t hs ht, map_cons, sum_cons]
      ring

end Ptn.Og

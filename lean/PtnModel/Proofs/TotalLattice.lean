import PtnModel.Proofs.TotalChainsCharged
import PtnModel.Proofs.HamModels3
import PtnModel.Proofs.HamSparse
import PtnModel.Proofs.BridgeChains
/-!
# The chain-template constructors return

`lattice_returns`: for well-formed templates, charge-consistent tables (`LatticeCharged`), `d ≥ 1`, `L ≥ 1` and at least one
template with non-zero coefficient that fits on the lattice, `_local_opchains_to_mpo` returns.
`lattice_returns_iff`: and only then.
-/
set_option linter.unusedSectionVars false

namespace Ptn.Ham
open Ptn Ptn.Og Ptn.Ch List

variable {κ : Type} [CommRing κ] [DecidableEq κ]

/-- some chain of the translated list has a non-zero coefficient iff some template with non-zero coefficient fits -/
theorem translate_nonzero_iff (lop : List (OpChain κ)) (L : Int) :
    (∃ ch ∈ translateChains lop L, ch.coeff ≠ 0) ↔ ∃ t ∈ lop, t.coeff ≠ 0 ∧ (t.oids.length : Int) ≤ L := by
  constructor
  · rintro ⟨ch, hch, hc⟩
    obtain ⟨t, ht, i, h0, h1, rfl⟩ := mem_translateChains.1 hch
    exact ⟨t, ht, hc, by omega⟩
  · rintro ⟨t, ht, hc, hl⟩
    exact ⟨{ t with istart := 0 }, mem_translateChains.2 ⟨t, ht, 0, le_refl _, by omega, rfl⟩, hc⟩

/-- `OpHasCharge` of a square table is `TableCharged` -/
theorem tableCharged_of_hasCharge (qd : List Int) (m : Og.Mat κ) (dq : Int) (hs : IsSquare qd.length m)
    (h : OpHasCharge qd m dq) (om : Option (Og.Mat κ)) (hom : om = some m) (dq' : Int) (hdq : dq' = -dq) :
    TableCharged qd dq' om := by
  subst hom hdq
  refine ⟨hs, ?_⟩
  intro s hs' t ht' hne
  by_contra hc
  exact hne (h s t hs' ht' (by omega))

theorem chainsWF_translate {lop : List (OpChain κ)} (htw : ∀ t ∈ lop, TemplateWF t) (L : Int) (hL : 1 ≤ L)
    (hnz : ∃ t ∈ lop, t.coeff ≠ 0 ∧ (t.oids.length : Int) ≤ L) : ChainsWF (translateChains lop L) L := by
  refine ⟨hL, (translate_nonzero_iff lop L).2 hnz, ?_⟩
  intro c hc _
  have w := translateChains_wf htw L c hc
  exact ⟨w.start, w.fits, w.lens, w.q0, w.qlast⟩

theorem chainsCharged_translate {lat : Lattice κ} (hch : LatticeCharged lat) (L : Int) :
    ChainsCharged lat.qd lat.opmap lat.oidIdentity (translateChains lat.lopchains L) := by
  obtain ⟨mi, hmi, hic⟩ := hch.identity
  refine ⟨tableCharged_of_hasCharge lat.qd mi 0 (hch.square _ (mem_of_lookup hmi)) hic _ hmi 0 (by simp), ?_⟩
  intro c hc _ k hk
  obtain ⟨t, ht, i, _, _, rfl⟩ := mem_translateChains.1 hc
  obtain ⟨m, hm, hmc⟩ := hch.templates t ht k hk
  exact tableCharged_of_hasCharge lat.qd m _ (hch.square _ (mem_of_lookup hm)) hmc _ hm _ (by simp only; omega)

/-- **`_local_opchains_to_mpo` returns.** -/
theorem lattice_returns (lat : Lattice κ) (L : Int) (htw : ∀ t ∈ lat.lopchains, TemplateWF t)
    (hch : LatticeCharged lat) (hd : 1 ≤ lat.qd.length) (hL : 1 ≤ L)
    (hnz : ∃ t ∈ lat.lopchains, t.coeff ≠ 0 ∧ (t.oids.length : Int) ≤ L) :
    ∃ b, localOpchainsToMpo lat L = .ok b := by
  obtain ⟨g, out, hg, hout, _⟩ := chains_pipeline_total lat.qd lat.opmap _ L lat.oidIdentity false
    (chainsWF_translate htw L hL hnz) hd (chainsCharged_translate hch L)
  refine ⟨⟨lat.qd, lat.opmap, g, out⟩, ?_⟩
  unfold localOpchainsToMpo
  simp only [hg, hout, bind, Except.bind, pure, Except.pure]

/-- the non-vanishing condition is necessary: `from_opchains` fails its `assert len(vlist_next) == 1` otherwise -/
theorem lattice_returns_only_if (lat : Lattice κ) (L : Int) (htw : ∀ t ∈ lat.lopchains, TemplateWF t) (hL : 1 ≤ L)
    (b : Built κ) (h : localOpchainsToMpo lat L = .ok b) :
    ∃ t ∈ lat.lopchains, t.coeff ≠ 0 ∧ (t.oids.length : Int) ≤ L := by
  unfold localOpchainsToMpo at h
  obtain ⟨g, hg, _⟩ := bind_ok h
  have hwf : ChainsWF (translateChains lat.lopchains L) L := by
    apply chainsWF_of_ok _ L lat.oidIdentity g hg hL
    intro c hc _
    have w := translateChains_wf htw L c hc
    exact ⟨w.start, w.fits, w.lens, w.q0, w.qlast⟩
  exact (translate_nonzero_iff _ L).1 hwf.2.1

end Ptn.Ham

namespace Ptn.Ham
open Ptn Ptn.Og Ptn.Ch List

variable {κ : Type} [CommRing κ] [DecidableEq κ]

/-! ## the non-vanishing conditions of the four chain-template models -/

theorem xxz_nz (c : Consts κ) (J D h : κ) (L : Int) (hL : 1 ≤ L) :
    (∃ t ∈ xxzTemplates c J D h, t.coeff ≠ 0 ∧ (t.oids.length : Int) ≤ L) ↔
      (h ≠ 0 ∨ (2 ≤ L ∧ (c.half * J ≠ 0 ∨ D ≠ 0))) := by
  simp only [xxzTemplates, mem_cons, not_mem_nil, or_false, exists_eq_or_imp, exists_eq_left, length_cons, length_nil,
    neg_ne_zero]
  constructor
  · rintro (⟨h1, h2⟩ | ⟨h1, h2⟩ | ⟨h1, h2⟩ | ⟨h1, h2⟩)
    · exact Or.inr ⟨by omega, Or.inl h1⟩
    · exact Or.inr ⟨by omega, Or.inl h1⟩
    · exact Or.inr ⟨by omega, Or.inr h1⟩
    · exact Or.inl h1
  · rintro (h1 | ⟨h1, h2 | h2⟩)
    · exact Or.inr (Or.inr (Or.inr ⟨h1, by omega⟩))
    · exact Or.inl ⟨h2, by omega⟩
    · exact Or.inr (Or.inr (Or.inl ⟨h2, by omega⟩))

theorem xxz1_nz (c : Consts κ) (J D h : κ) (L : Int) (hL : 1 ≤ L) :
    (∃ t ∈ xxz1Templates c J D h, t.coeff ≠ 0 ∧ (t.oids.length : Int) ≤ L) ↔
      (h ≠ 0 ∨ (2 ≤ L ∧ (c.half * J ≠ 0 ∨ D ≠ 0))) := by
  simp only [xxz1Templates, mem_cons, not_mem_nil, or_false, exists_eq_or_imp, exists_eq_left, length_cons, length_nil,
    neg_ne_zero]
  constructor
  · rintro (⟨h1, h2⟩ | ⟨h1, h2⟩ | ⟨h1, h2⟩ | ⟨h1, h2⟩)
    · exact Or.inr ⟨by omega, Or.inl h1⟩
    · exact Or.inr ⟨by omega, Or.inl h1⟩
    · exact Or.inr ⟨by omega, Or.inr h1⟩
    · exact Or.inl h1
  · rintro (h1 | ⟨h1, h2 | h2⟩)
    · exact Or.inr (Or.inr (Or.inr ⟨h1, by omega⟩))
    · exact Or.inl ⟨h2, by omega⟩
    · exact Or.inr (Or.inr (Or.inl ⟨h2, by omega⟩))

theorem bose_nz (t U mu : κ) (L : Int) (hL : 1 ≤ L) :
    (∃ x ∈ boseTemplates t U mu, x.coeff ≠ 0 ∧ (x.oids.length : Int) ≤ L) ↔ (mu ≠ 0 ∨ U ≠ 0 ∨ (2 ≤ L ∧ t ≠ 0)) := by
  simp only [boseTemplates, mem_cons, not_mem_nil, or_false, exists_eq_or_imp, exists_eq_left, length_cons, length_nil,
    neg_ne_zero]
  constructor
  · rintro (⟨h1, h2⟩ | ⟨h1, h2⟩ | ⟨h1, h2⟩ | ⟨h1, h2⟩)
    · exact Or.inr (Or.inr ⟨by omega, h1⟩)
    · exact Or.inr (Or.inr ⟨by omega, h1⟩)
    · exact Or.inl h1
    · exact Or.inr (Or.inl h1)
  · rintro (h1 | h1 | ⟨h1, h2⟩)
    · exact Or.inr (Or.inr (Or.inl ⟨h1, by omega⟩))
    · exact Or.inr (Or.inr (Or.inr ⟨h1, by omega⟩))
    · exact Or.inl ⟨h2, by omega⟩

theorem fh_nz (t U mu : κ) (L : Int) (hL : 1 ≤ L) :
    (∃ x ∈ fhTemplates t U mu, x.coeff ≠ 0 ∧ (x.oids.length : Int) ≤ L) ↔ (mu ≠ 0 ∨ U ≠ 0 ∨ (2 ≤ L ∧ t ≠ 0)) := by
  simp only [fhTemplates, mem_cons, not_mem_nil, or_false, exists_eq_or_imp, exists_eq_left, length_cons, length_nil,
    neg_ne_zero]
  constructor
  · rintro (⟨h1, h2⟩ | ⟨h1, h2⟩ | ⟨h1, h2⟩ | ⟨h1, h2⟩ | ⟨h1, h2⟩ | ⟨h1, h2⟩)
    · exact Or.inr (Or.inr ⟨by omega, h1⟩)
    · exact Or.inr (Or.inr ⟨by omega, h1⟩)
    · exact Or.inr (Or.inr ⟨by omega, h1⟩)
    · exact Or.inr (Or.inr ⟨by omega, h1⟩)
    · exact Or.inl h1
    · exact Or.inr (Or.inl h1)
  · rintro (h1 | h1 | ⟨h1, h2⟩)
    · exact Or.inr (Or.inr (Or.inr (Or.inr (Or.inl ⟨h1, by omega⟩))))
    · exact Or.inr (Or.inr (Or.inr (Or.inr (Or.inr ⟨h1, by omega⟩))))
    · exact Or.inl ⟨h2, by omega⟩

end Ptn.Ham

import PtnModel.Proofs.HistBoundaryMpo
import PtnModel.Proofs.HistCompress
/-!
# C02: boundary bond charges are kept by `MPS.compress` when the returned norm and scale are non-zero

The SVD sweep rewrites the far boundary bond with the charges returned by `split_matrix_svd` on the last site.
There the trailing factor is `T = (σ V) · [[[1]]]` (left mode) resp. `[[[1]]] · (U σ)` (right mode), a `1×1×1`
tensor by the assertion of the code; if `T[0,0,0] ≠ 0` then `V[0,0] ≠ 0` resp. `U[0,0] ≠ 0` and block sparsity of the
factor (C12) identifies the new charge with the old one.  Shape clause only.
-/
set_option linter.unusedSectionVars false
namespace Ptn.HistWf
open Ptn.Hist Ptn.Ortho Ptn.BondOps Ptn.Dense Finset
variable {𝕜 : Type} [CommRing 𝕜] [DecidableEq 𝕜]
variable {ρ : Type} [Field ρ] [LinearOrder ρ] [IsStrictOrderedRing ρ] [RealLike ρ 𝕜]
variable {k : MPS.SvdKernels 𝕜 ρ} {tol : ρ} {qd : List Int}

theorem localLeftSvd_last (hshape : ∀ B, SvdShapeAt k.dsvd B) {A A' T : T3 𝕜} {qL qR qb : List Int}
    (h : MPS.localOrthoLeftSvd k A MPS.ones111 qd qL qR tol = .ok (A', T, qb)) (hT1 : T.d1 = 1)
    (hT : T.f 0 0 0 ≠ 0) : qb = qR ∧ qR.length = 1 := by
  unfold MPS.localOrthoLeftSvd at h
  simp only [bind_ok] at h
  obtain ⟨⟨U, sigma, V, qb'⟩, hrun, h⟩ := h
  dsimp only at h
  split at h
  · simp [throw_map_ne] at h
  · rename_i hVn
    simp only [not_not] at hVn
    have hVn1 : V.n = 1 := hVn
    simp only [pure_ok, Prod.mk.injEq] at h
    obtain ⟨-, rfl, rfl⟩ := h
    have hVm : V.m = 1 := hT1
    have hV : V.f 0 0 ≠ 0 := by
      intro h0
      apply hT
      rw [Env.t3_tab_f _ (by show 0 < 1; omega) (by show 0 < V.m; omega) (by show 0 < 1; omega)]
      show sumRange V.n (fun b => _ * (1 : 𝕜)) = 0
      rw [Env.sumRange_eq, hVn1, Finset.sum_range_one, mul_one,
        Env.mat_tab_f _ (by show 0 < V.m; omega) (by simp)]
      show _ * V.f 0 0 = 0
      rw [h0, mul_zero]
    rcases split_cases hshape hrun with ⟨-, -, -, -, rfl, -⟩ | hf
    · exact absurd rfl hV
    · have hqb := hf.vm.symm.trans hVm
      have hqR : qR.length = 1 := by
        have : qR.length = A.flattenLeft.tab.n := hf.hq1
        rw [this, ← hf.vn]; exact hVn1
      exact ⟨eq_of_length_one hqb hqR (hf.sparseV 0 0 (by omega) (by omega) hV), hqR⟩

theorem localRightSvd_last (hshape : ∀ B, SvdShapeAt k.dsvd B) {A A' T : T3 𝕜} {qL qR qb : List Int}
    (h : MPS.localOrthoRightSvd k A MPS.ones111 qd qL qR tol = .ok (A', T, qb)) (hT2 : T.d2 = 1)
    (hT : T.f 0 0 0 ≠ 0) : qb = qL := by
  unfold MPS.localOrthoRightSvd at h
  simp only [bind_ok] at h
  obtain ⟨⟨U, sigma, V, qb'⟩, hrun, h⟩ := h
  dsimp only at h
  split at h
  · simp [throw_map_ne] at h
  · rename_i hUm
    simp only [not_not] at hUm
    have hUm1 : U.m = 1 := hUm
    simp only [pure_ok, Prod.mk.injEq] at h
    obtain ⟨-, rfl, rfl⟩ := h
    have hUn : U.n = 1 := hT2
    have hU : U.f 0 0 ≠ 0 := by
      intro h0
      apply hT
      rw [Env.t3_tab_f _ (by show 0 < 1; omega) (by show 0 < 1; omega) (by show 0 < U.n; omega)]
      show sumRange U.m (fun b => (1 : 𝕜) * _) = 0
      rw [Env.sumRange_eq, hUm1, Finset.sum_range_one, one_mul,
        Env.mat_tab_f _ (by simp) (by show 0 < U.n; omega)]
      show U.f 0 0 * _ = 0
      rw [h0, zero_mul]
    rcases split_cases hshape hrun with ⟨hq0, -, rfl, -, -, rfl⟩ | hf
    · have : qL.length = 1 := hq0.trans hUm1
      match qL, this with
      | [x], _ => rfl
    · have hqb := hf.un.symm.trans hUn
      have hqL : qL.length = 1 := by
        have : qL.length = A.swap01.flattenRight.tab.m := hf.hq0
        rw [this, ← hf.um]; exact hUm1
      exact (eq_of_length_one hqL hqb (hf.sparseU 0 0 (by omega) (by omega) hU)).symm

theorem sweepLeftSvd_last (hshape : ∀ B, SvdShapeAt k.dsvd B) : ∀ {rest : List (T3 𝕜)} {A : T3 𝕜} {qL : List Int}
    {qRs : List (List Int)} {As : List (T3 𝕜)} {qs : List (List Int)} {T : T3 𝕜},
    MPS.sweepLeftSvd k qd tol A qL rest qRs = .ok (As, qs, T) → T.d1 = 1 → T.f 0 0 0 ≠ 0 →
    qs ≠ [] ∧ qRs ≠ [] ∧ qs.getLast? = qRs.getLast?
  | [], A, qL, [], _, _, _, h, _, _ => by simp [MPS.sweepLeftSvd] at h
  | [], A, qL, [qR], As, qs, T, h, hT1, hT => by
    rw [MPS.sweepLeftSvd] at h
    simp only [bind_ok, pure_ok, Prod.mk.injEq] at h
    obtain ⟨⟨A', T', qb⟩, hl, _, _, rfl, rfl, rfl⟩ := h
    rw [(localLeftSvd_last hshape hl hT1 hT).1]
    exact ⟨by simp, by simp, rfl⟩
  | [], A, qL, _ :: _ :: _, _, _, _, h, _, _ => by simp [MPS.sweepLeftSvd] at h
  | Anext :: rest, A, qL, [], _, _, _, h, _, _ => by simp [MPS.sweepLeftSvd] at h
  | Anext :: rest, A, qL, qR :: qRest, As, qs, T, h, hT1, hT => by
    rw [MPS.sweepLeftSvd] at h
    simp only [bind_ok, pure_ok, Prod.mk.injEq] at h
    obtain ⟨⟨A', Anext', qb⟩, hl, _, _, ⟨As', qs', T'⟩, hs, rfl, rfl, rfl⟩ := h
    obtain ⟨n1, n2, e⟩ := sweepLeftSvd_last hshape hs hT1 hT
    refine ⟨by simp, by simp, ?_⟩
    rw [getLast?_cons_of_ne_nil _ n1, getLast?_cons_of_ne_nil _ n2]
    exact e

theorem sweepRightSvd_last (hshape : ∀ B, SvdShapeAt k.dsvd B) : ∀ {rest : List (T3 𝕜)} {A : T3 𝕜} {qR : List Int}
    {qLs : List (List Int)} {As : List (T3 𝕜)} {qs : List (List Int)} {T : T3 𝕜},
    MPS.sweepRightSvd k qd tol A qR rest qLs = .ok (As, qs, T) → T.d2 = 1 → T.f 0 0 0 ≠ 0 →
    qs ≠ [] ∧ qLs ≠ [] ∧ qs.getLast? = qLs.getLast?
  | [], A, qR, [], _, _, _, h, _, _ => by simp [MPS.sweepRightSvd] at h
  | [], A, qR, [qL], As, qs, T, h, hT2, hT => by
    rw [MPS.sweepRightSvd] at h
    simp only [bind_ok, pure_ok, Prod.mk.injEq] at h
    obtain ⟨⟨A', T', qb⟩, hl, _, _, rfl, rfl, rfl⟩ := h
    rw [localRightSvd_last hshape hl hT2 hT]
    exact ⟨by simp, by simp, rfl⟩
  | [], A, qR, _ :: _ :: _, _, _, _, h, _, _ => by simp [MPS.sweepRightSvd] at h
  | Aprev :: rest, A, qR, [], _, _, _, h, _, _ => by simp [MPS.sweepRightSvd] at h
  | Aprev :: rest, A, qR, qL :: qRest, As, qs, T, h, hT2, hT => by
    rw [MPS.sweepRightSvd] at h
    simp only [bind_ok, pure_ok, Prod.mk.injEq] at h
    obtain ⟨⟨A', Aprev', qb⟩, hl, _, _, ⟨As', qs', T'⟩, hs, rfl, rfl, rfl⟩ := h
    obtain ⟨n1, n2, e⟩ := sweepRightSvd_last hshape hs hT2 hT
    refine ⟨by simp, by simp, ?_⟩
    rw [getLast?_cons_of_ne_nil _ n1, getLast?_cons_of_ne_nil _ n2]
    exact e

variable {dqr : Mat 𝕜 → Mat 𝕜 × Mat 𝕜} {dabs : 𝕜 → ρ} {divR : 𝕜 → ρ → 𝕜}

theorem compress_boundary (hqr : ∀ B, ShapeAt dqr B) (hsvd : ∀ B, SvdShapeAt k.dsvd B)
    (hre : RealLike.re (0 : 𝕜) = (0 : ρ)) (habs : dabs 0 = 0) {ψ ψ' : MPS 𝕜} {nrm sc : ρ} {left : Bool}
    (h : MPS.compress dqr k dabs divR ψ tol left = .ok (ψ', nrm, sc)) (hn : nrm ≠ 0) (hsc : sc ≠ 0) :
    ψ'.qD.head? = ψ.qD.head? ∧ ψ'.qD.getLast? = ψ.qD.getLast? := by
  unfold MPS.compress at h
  cases left with
  | true =>
    simp only [if_true, bind_ok] at h
    obtain ⟨⟨ψ1, nrm1⟩, hortho, h⟩ := h
    obtain ⟨qd, qD, A⟩ := ψ1
    dsimp only at h
    split at h
    · rename_i A0 rest q0 qrest
      simp only [bind_ok, pure_ok, Prod.mk.injEq] at h
      obtain ⟨⟨As, qs, T⟩, hs, _, hdims, rfl, rfl, rfl⟩ := h
      rw [pyAssert_ok] at hdims
      obtain ⟨-, hT1, -⟩ := dims_one3 hdims
      have hT : T.f 0 0 0 ≠ 0 := fun h0 => hsc (by show dabs (T.f 0 0 0) = 0; rw [h0, habs])
      obtain ⟨n1, n2, e⟩ := sweepLeftSvd_last hsvd hs hT1 hT
      obtain ⟨b1, b2⟩ := ortho_mps_boundary hqr hre hortho hn
      refine ⟨b1, ?_⟩
      rw [← b2]
      show (q0 :: qs).getLast? = (q0 :: qrest).getLast?
      rw [getLast?_cons_of_ne_nil _ n1, getLast?_cons_of_ne_nil _ n2]
      exact e
    · simp [throw_ne] at h
  | false =>
    simp only [Bool.false_eq_true, if_false, bind_ok] at h
    obtain ⟨⟨ψ1, nrm1⟩, hortho, h⟩ := h
    obtain ⟨qd, qD, A⟩ := ψ1
    dsimp only at h
    split at h
    · rename_i Al rrest ql qrrest hAr hqr'
      simp only [bind_ok, pure_ok, Prod.mk.injEq] at h
      obtain ⟨⟨As, qs, T⟩, hs, _, hdims, rfl, rfl, rfl⟩ := h
      rw [pyAssert_ok] at hdims
      obtain ⟨-, -, hT2⟩ := dims_one3 hdims
      have hT : T.f 0 0 0 ≠ 0 := fun h0 => hsc (by show dabs (T.f 0 0 0) = 0; rw [h0, habs])
      obtain ⟨n1, n2, e⟩ := sweepRightSvd_last hsvd hs hT2 hT
      obtain ⟨b1, b2⟩ := ortho_mps_boundary hqr hre hortho hn
      have hqD : qD = (ql :: qrrest).reverse := by
        have : qD.reverse = ql :: qrrest := hqr'
        rw [← this, List.reverse_reverse]
      rw [← b1, ← b2]
      show ((ql :: qs).reverse).head? = qD.head? ∧ ((ql :: qs).reverse).getLast? = qD.getLast?
      rw [hqD, List.head?_reverse, List.head?_reverse, List.getLast?_reverse, List.getLast?_reverse]
      refine ⟨?_, rfl⟩
      rw [getLast?_cons_of_ne_nil _ n1, getLast?_cons_of_ne_nil _ n2]
      exact e
    · simp [throw_ne] at h

end Ptn.HistWf

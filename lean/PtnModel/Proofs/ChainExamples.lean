import PtnModel.Proofs.ChainMain
/-!
# C05: concrete evaluations of the model (for the non-vacuity examples)

`minimumVertexCover` runs `dfs`/`explore`, which are defined by well-founded recursion, so the kernel cannot
evaluate `siteStep` by `decide`/`rfl`; the cover of the one-edge bipartite graph is computed with equation
lemmas, everything else is evaluated by the kernel.
-/
namespace Ptn.Ch
open Ptn Ptn.Og Ptn.Bip List

/-- the bipartite graph with one edge -/
def ex11 : BGraph := ⟨1, 1, [[0]], [[0]]⟩

theorem ex11_mk : BGraph.mk' 1 1 [(0, 0)] = .ok ex11 := by decide

set_option maxRecDepth 4000 in
theorem ex11_hk : hopcroftKarp ex11 = .ok [(0, 0)] := by
  simp [ex11, hopcroftKarp, hopcroftKarpState, phaseFuel, phaseLoop, connectUnmatched, bfsInit, bfsFuel, bfsLoop,
    bfsNeighbours, augmentAll, dfs, dfsNeighbours, dfsFuel, HK.init, HK.dist, HK.setDist, HK.mateV, infDist,
    matchingOf, List.range, List.range.loop, bind, Except.bind, pure, Except.pure, List.getD]

set_option maxRecDepth 8000 in
theorem ex11_mvc : minimumVertexCover ex11 = .ok ([0], []) := by
  unfold minimumVertexCover
  rw [ex11_hk]
  simp [ex11, explore, exploreFuel, List.getD, sortNat, pyAssert,
    List.range, List.range.loop, bind, Except.bind, pure, Except.pure]

/-- a single chain `3 · op₅` on one site -/
def exChains : List (OpChain Int) := [⟨[5], [0, 0], 3, 0⟩]

/-- the graph `from_opchains` builds for it: one edge carrying the coefficient -/
def exGraph : Graph Int :=
  ⟨[(0, ⟨0, [], [0], 0⟩), (1, ⟨1, [0], [], 0⟩)], [(0, ⟨0, (0, 1), [(5, 3)]⟩)], (0, 1)⟩

/-- the state before the only sweep step -/
def exState0 : ChState Int := ⟨graph0, 1, 0, [⟨[5, 0], [0, 0, 0], 0⟩], [3], []⟩

/-- the state after it -/
def exState1 : ChState Int :=
  ⟨⟨[(0, ⟨0, [], [0], 0⟩), (-1, ⟨-1, [], [], 0⟩), (1, ⟨1, [0], [], 0⟩)], [(0, ⟨0, (0, 1), [(5, 1)]⟩)], (0, -1)⟩,
    2, 1, [⟨[0], [0, 0], 1⟩], [3], []⟩

theorem ex_partition : sitePartition [(⟨[5, 0], [0, 0, 0], 0⟩ : HalfChain)] [(3 : Int)]
    = .ok ⟨[⟨5, 0, 0, 0⟩], [⟨[0], [0, 0], -1⟩], [(0, 0)], [((0, 0), 3)]⟩ := rfl

/-- two half-chains with the same `U` and `V` node: the coefficients accumulate in `gamma` -/
theorem ex_partition_acc :
    sitePartition [(⟨[5, 0], [0, 0, 0], 0⟩ : HalfChain), ⟨[5, 0], [0, 0, 0], 0⟩, ⟨[7, 0], [0, 0, 0], 0⟩] [(3 : Int), -1, 2]
    = .ok ⟨[⟨5, 0, 0, 0⟩, ⟨7, 0, 0, 0⟩], [⟨[0], [0, 0], -1⟩], [(0, 0), (1, 0)], [((0, 0), 2), ((1, 0), 2)]⟩ := rfl

theorem ex_site : siteStep exState0 = .ok exState1 := by
  have hb : BGraph.mk' ((1 : Nat) : Int) ((1 : Nat) : Int)
      ([((0 : Nat), (0 : Nat))].map fun e => ((e.1 : Int), (e.2 : Int))) = .ok ex11 := by decide
  simp only [siteStep, exState0, ex_partition, bind, Except.bind, List.length_cons, List.length_nil, Nat.zero_add,
    hb, ex11_mvc]
  rfl

set_option maxRecDepth 4000 in
theorem ex_from : fromOpchains exChains 1 0 = .ok exGraph := by
  have hs := ex_site
  unfold fromOpchains
  simp [exChains, Node.mk', hasDup, pyAssert, graph0_mk, OpChain.padded, OpChain.mk', OpChain.length, pyRepeat,
    HalfChain.mk', bind, Except.bind, pure, Except.pure, List.range, List.range.loop]
  simp only [exState0] at hs
  rw [hs]
  rfl

theorem exState0_sinv : SInv exState0 :=
  ⟨by simp [exState0, edgeList, graph0], by simp [exState0], by simp [exState0]⟩

end Ptn.Ch

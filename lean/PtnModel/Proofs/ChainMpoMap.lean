import PtnModel.Proofs.ChainMpoTop
import PtnModel.Proofs.ChainBfsSound
import Mathlib.Data.List.TakeWhile
/-!
# `from_opgraph`: the layers are sorted, pairwise disjoint, and the node map locates every node
-/
set_option linter.unusedSectionVars false

namespace Ptn.Ch
open Ptn Ptn.Og List

variable {κ : Type} [CommRing κ] [DecidableEq κ]

/-! ## `sorted` sorts -/

theorem sortInts_sorted (l : List Int) : (sortInts l).Pairwise (· ≤ ·) := by
  unfold sortInts
  induction l with
  | nil => simp
  | cons x l ih =>
    simp only [foldr_cons]
    generalize (foldr (fun x acc => takeWhile (· < x) acc ++ [x] ++ dropWhile (· < x) acc) [] l) = acc at ih ⊢
    have hsplit : acc = acc.takeWhile (· < x) ++ acc.dropWhile (· < x) := (takeWhile_append_dropWhile).symm
    have htw : ∀ a ∈ acc.takeWhile (· < x), a < x := by
      intro a ha
      have := mem_takeWhile_imp ha
      simpa using this
    have hdw : ∀ b ∈ acc.dropWhile (· < x), x ≤ b := by
      intro b hb
      cases hd : acc.dropWhile (· < x) with
      | nil => rw [hd] at hb; simp at hb
      | cons h rest =>
        have hh : ¬ (h < x) := by
          have := head_dropWhile_not (fun y : Int => decide (y < x)) (l := acc) (by rw [hd]; simp)
          simp only [hd, head_cons] at this
          simpa using this
        rw [hd] at hb
        rcases mem_cons.1 hb with rfl | hb
        · omega
        · have hpw : (acc.dropWhile (· < x)).Pairwise (· ≤ ·) := ih.sublist (dropWhile_sublist _)
          rw [hd, pairwise_cons] at hpw
          have := hpw.1 b hb
          omega
    rw [append_assoc, pairwise_append]
    refine ⟨ih.sublist (takeWhile_sublist _), ?_, ?_⟩
    · rw [singleton_append, pairwise_cons]
      exact ⟨hdw, ih.sublist (dropWhile_sublist _)⟩
    · intro a ha b hb
      have h1 := htw a ha
      rcases mem_append.1 hb with hb | hb
      · simp only [mem_singleton] at hb; omega
      · have := hdw b hb; omega

theorem sortInts_strict (l : List Int) (h : l.Nodup) : (sortInts l).Pairwise (· < ·) := by
  have hs := sortInts_sorted l
  have hn : (sortInts l).Nodup := (sortInts_perm l).nodup_iff.2 h
  exact (hs.and hn).imp (fun ⟨h1, h2⟩ => lt_of_le_of_ne h1 h2)

/-! ## levels of the layers -/

theorem run_levels (g : Graph κ) (opmap : OpMap κ) (d : Nat) (L : List (Int × Nat))
    (hL : ∀ p ∈ L, ∀ node, dGet? g.nodes p.1 = some node → ∀ eid ∈ node.eidsOut, ∀ e, dGet? g.edges eid = some e →
        (e.nids.2, p.2 + 1) ∈ L) :
    ∀ (Ls : List (List Int)) (Ts : List (Tensor κ)) (nids0 : List Int) (l0 : Nat),
      Run g opmap d nids0 Ls Ts → (∀ x ∈ nids0, (x, l0) ∈ L) →
      ∀ k S, Ls[k]? = some S → ∀ x ∈ S, (x, l0 + k + 1) ∈ L := by
  intro Ls
  induction Ls with
  | nil => intro Ts nids0 l0 _ _ k S hk; simp at hk
  | cons S0 Ls ih =>
    intro Ts nids0 l0 hrun h0 k S hk x hx
    cases Ts with
    | nil => simp [Run] at hrun
    | cons A Ts =>
      obtain ⟨nids1, contribs, hn1, _, hS, _, _, _, hrun'⟩ := hrun
      have hS0 : ∀ y ∈ S0, (y, l0 + 1) ∈ L := by
        intro y hy
        rw [hS] at hy
        have hy1 : y ∈ nids1 := (sortInts_perm nids1).mem_iff.1 hy
        obtain ⟨nid, hnid, node, hnode, eid, heid, e, he, hey⟩ := (nextBond_spec g nids0 nids1 hn1).bwd y hy1
        have := hL (nid, l0) (h0 nid hnid) node hnode eid heid e he
        rw [hey] at this
        exact this
      cases k with
      | zero =>
        simp only [getElem?_cons_zero, Option.some.injEq] at hk
        subst hk
        exact hS0 x hx
      | succ k =>
        simp only [getElem?_cons_succ] at hk
        have := ih Ts S0 (l0 + 1) hrun' hS0 k S hk x hx
        have e : l0 + 1 + k + 1 = l0 + (k + 1) + 1 := by omega
        rw [e] at this
        exact this

theorem run_nodup (g : Graph κ) (opmap : OpMap κ) (d : Nat) :
    ∀ (Ls : List (List Int)) (Ts : List (Tensor κ)) (nids0 : List Int),
      Run g opmap d nids0 Ls Ts → ∀ S ∈ Ls, S.Pairwise (· < ·) := by
  intro Ls
  induction Ls with
  | nil => intro _ _ _ S hS; simp at hS
  | cons S0 Ls ih =>
    intro Ts nids0 hrun S hS
    cases Ts with
    | nil => simp [Run] at hrun
    | cons A Ts =>
      obtain ⟨nids1, contribs, hn1, _, hS0, _, _, _, hrun'⟩ := hrun
      rcases mem_cons.1 hS with rfl | hS
      · rw [hS0]
        exact sortInts_strict nids1 (nextBond_spec g nids0 nids1 hn1).nodup
      · exact ih Ts S0 hrun' S hS

/-! ## the node map -/

theorem dGet?_dSet {β : Type} (m : List (Int × β)) (k : Int) (v : β) (x : Int) :
    dGet? (dSet m k v) x = if x = k then some v else dGet? m x := by
  unfold dSet
  by_cases hh : dHas m k = true
  · rw [if_pos hh, dGet?_dReplace']
    by_cases hx : x = k
    · subst hx
      rw [if_pos rfl, if_pos rfl]
      rw [dHas_eq_isSome'] at hh
      obtain ⟨v0, hv0⟩ := Option.isSome_iff_exists.1 hh
      simp [hv0]
    · rw [if_neg hx, if_neg hx]
  · have hf : dHas m k = false := by simpa using hh
    rw [if_neg hh]
    unfold dGet?
    rw [lookup_append]
    by_cases hx : x = k
    · subst hx
      have : lookup x m = none := by
        unfold dHas at hf
        cases h : lookup x m with
        | none => rfl
        | some _ => rw [h] at hf; cases hf
      simp [this, lookup_cons]
    · have hb : (x == k) = false := by simpa using hx
      simp [lookup_cons, hb, hx]
where
  dGet?_dReplace' {β : Type} (d : List (Int × β)) (k : Int) (v : β) (k2 : Int) :
      dGet? (dReplace d k v) k2 = if k2 = k then (dGet? d k2).map (fun _ => v) else dGet? d k2 :=
    lookup_dReplace d k v k2
  dHas_eq_isSome' {β : Type} (d : List (Int × β)) (k : Int) : dHas d k = (dGet? d k).isSome := rfl

theorem foldl_dSet_lookup (l : Nat) : ∀ (S : List Int) (k : Nat) (m : List (Int × (Nat × Nat))) (x : Int), S.Nodup →
    dGet? ((S.zipIdx k).foldl (fun m (ni : Int × Nat) => dSet m ni.1 (l, ni.2)) m) x
      = if x ∈ S then some (l, k + S.idxOf x) else dGet? m x := by
  intro S
  induction S with
  | nil => intro k m x _; simp
  | cons a S ih =>
    intro k m x hn
    simp only [nodup_cons] at hn
    rw [zipIdx_cons, foldl_cons, ih (k + 1) _ x hn.2, dGet?_dSet]
    by_cases hxa : x = a
    · subst hxa
      simp [hn.1]
    · have : ¬ a = x := fun h => hxa h.symm
      by_cases hxs : x ∈ S
      · simp [hxs, hxa, idxOf_cons_ne _ this]
        omega
      · simp [hxs, hxa]

theorem nidMapAfter_lookup : ∀ (Ls : List (List Int)) (m : List (Int × (Nat × Nat))) (l : Nat),
    (∀ S ∈ Ls, S.Nodup) → Ls.Pairwise (fun A B => ∀ x ∈ A, x ∉ B) →
    (∀ x, (∀ S ∈ Ls, x ∉ S) → dGet? (nidMapAfter true m l Ls) x = dGet? m x) ∧
    (∀ k S i x, Ls[k]? = some S → S[i]? = some x → dGet? (nidMapAfter true m l Ls) x = some (l + k, i)) := by
  intro Ls
  induction Ls with
  | nil => intro m l _ _; exact ⟨fun _ _ => rfl, by intro k S i x hk; simp at hk⟩
  | cons S0 Ls ih =>
    intro m l hnd hpw
    rw [pairwise_cons] at hpw
    have hnd0 := hnd S0 (by simp)
    obtain ⟨ih1, ih2⟩ := ih ((S0.zipIdx).foldl (fun m (ni : Int × Nat) => dSet m ni.1 (l, ni.2)) m) (l + 1)
      (fun S hS => hnd S (by simp [hS])) hpw.2
    constructor
    · intro x hx
      simp only [nidMapAfter, if_true]
      rw [ih1 x (fun S hS => hx S (by simp [hS])), foldl_dSet_lookup l S0 0 m x hnd0, if_neg (hx S0 (by simp))]
    · intro k S i x hk hi
      simp only [nidMapAfter, if_true]
      cases k with
      | zero =>
        simp only [getElem?_cons_zero, Option.some.injEq] at hk
        subst hk
        have hxS : x ∈ S0 := mem_of_getElem? hi
        rw [ih1 x (fun S hS => hpw.1 S hS x hxS), foldl_dSet_lookup l S0 0 m x hnd0, if_pos hxS]
        have hi' : i < S0.length := by
          by_contra h
          rw [getElem?_eq_none (by omega)] at hi
          cases hi
        have hx' : S0[i] = x := by
          rw [getElem?_eq_getElem hi'] at hi; exact Option.some.inj hi
        have : S0.idxOf x = i := by
          rw [← hx']; exact hnd0.idxOf_getElem i hi'
        simp [this]
      | succ k =>
        simp only [getElem?_cons_succ] at hk
        rw [ih2 k S i x hk hi]
        congr 2
        omega

end Ptn.Ch

import PtnModel.Proofs.CompressBridge
/-!
# The first truncated bond of `compress` and the Schmidt values

* `rightIso_chain`       : a chain of right isometries is a right isometry;
* `first_site_density`   : for a right-canonical state the reduced density matrix of the first site is `A₀ A₀ᴴ`;
* `density_left`, `density_right` : `A₀ A₀ᴴ = Σ_p U[:,p] σ_p² U[:,p]ᴴ` with orthonormal `U` and `σ` the concatenated
  spectrum of the block SVD performed by the first local step (left step / right step in mirrored coordinates);
* `Sweep.first`          : the first local step of a sweep.
-/
set_option linter.unusedSectionVars false
set_option linter.unusedVariables false
namespace Ptn.Compress
open Ptn.BondOps Ptn.Ortho Ptn.Env Finset

variable {𝕜 : Type} [RCLike 𝕜] [DecidableEq 𝕜]
attribute [local instance] rcRealLike

/-- a chain of right isometries is a right isometry: `Σ_σ Σ_c P_σ[b,c] conj(P_σ[b',c]) = δ_{b b'}` -/
theorem rightIso_chain {ds : List Nat} {As : List (T3 𝕜)} {Dl Dr : Nat} (h : Chain3 ds As Dl Dr)
    (hiso : ∀ B ∈ As, RightIso B) {b b' : Nat} (hb : b < Dl) (hb' : b' < Dl) :
    ∑ σ ∈ digits ds, ∑ c ∈ range Dr, pmat As σ b c * star (pmat As σ b' c) = if b = b' then 1 else 0 := by
  induction ds generalizing As Dl b b' with
  | nil =>
    cases As with
    | cons _ _ => simp at h
    | nil =>
      simp only [chain3_nil] at h
      subst h
      simp only [digits_nil, Finset.sum_singleton, pmat_nil]
      have e : ∀ c ∈ range Dl, (if b = c then (1 : 𝕜) else 0) * star (if b' = c then (1 : 𝕜) else 0) =
          if b = c then (if b = b' then 1 else 0) else 0 := by
        intro c _
        by_cases h1 : b = c
        · subst h1
          by_cases h2 : b' = b
          · subst h2; simp
          · simp [h2, Ne.symm h2]
        · simp [h1]
      rw [Finset.sum_congr rfl e, Finset.sum_ite_eq (range Dl) b, if_pos (Finset.mem_range.2 hb)]
  | cons d ds ih =>
    cases As with
    | nil => simp at h
    | cons A As =>
      simp only [chain3_cons] at h
      obtain ⟨h0, h1, hc⟩ := h
      have hA := hiso A (by simp)
      have IH := fun x x' (hx : x < A.d2) (hx' : x' < A.d2) =>
        ih hc (fun B hB => hiso B (by simp [hB])) hx hx'
      rw [sum_digits_cons]
      simp only [pmat_cons]
      have e : ∀ s ∈ range d, ∑ σ ∈ digits ds, ∑ c ∈ range Dr,
          (∑ x ∈ range A.d2, A.f s b x * pmat As σ x c) * star (∑ x ∈ range A.d2, A.f s b' x * pmat As σ x c) =
          ∑ x ∈ range A.d2, A.f s b x * star (A.f s b' x) := by
        intro s _
        have e1 : ∀ σ ∈ digits ds, ∀ c ∈ range Dr,
            (∑ x ∈ range A.d2, A.f s b x * pmat As σ x c) * star (∑ x ∈ range A.d2, A.f s b' x * pmat As σ x c) =
            ∑ x ∈ range A.d2, ∑ x' ∈ range A.d2,
              (A.f s b x * star (A.f s b' x')) * (pmat As σ x c * star (pmat As σ x' c)) := by
          intro σ _ c _
          rw [star_sum, Finset.sum_mul_sum]
          refine Finset.sum_congr rfl fun x _ => Finset.sum_congr rfl fun x' _ => ?_
          rw [star_mul']; ring
        rw [Finset.sum_congr rfl fun σ hσ => Finset.sum_congr rfl fun c hc => e1 σ hσ c hc]
        -- move the sums over `σ`, `c` inside
        have e2 : ∑ σ ∈ digits ds, ∑ c ∈ range Dr, ∑ x ∈ range A.d2, ∑ x' ∈ range A.d2,
              (A.f s b x * star (A.f s b' x')) * (pmat As σ x c * star (pmat As σ x' c)) =
            ∑ x ∈ range A.d2, ∑ x' ∈ range A.d2, (A.f s b x * star (A.f s b' x')) *
              ∑ σ ∈ digits ds, ∑ c ∈ range Dr, pmat As σ x c * star (pmat As σ x' c) := by
          rw [sum4_reorder]
          refine Finset.sum_congr rfl fun x _ => Finset.sum_congr rfl fun x' _ => ?_
          simp only [Finset.mul_sum]
        rw [e2]
        refine Finset.sum_congr rfl fun x hx => ?_
        have e3 : ∀ x' ∈ range A.d2, (A.f s b x * star (A.f s b' x')) *
            ∑ σ ∈ digits ds, ∑ c ∈ range Dr, pmat As σ x c * star (pmat As σ x' c) =
            if x = x' then A.f s b x * star (A.f s b' x') else 0 := by
          intro x' hx'
          rw [IH x x' (Finset.mem_range.1 hx) (Finset.mem_range.1 hx')]
          split <;> simp
        rw [Finset.sum_congr rfl e3, Finset.sum_ite_eq (range A.d2) x, if_pos hx]
      rw [Finset.sum_congr rfl e, ← h0]
      have := hA b b' (by rw [h1]; exact hb) (by rw [h1]; exact hb')
      have hs := congrArg star this
      rw [star_sum] at hs
      simp only [star_sum, star_mul', star_star] at hs
      rw [show (if b = b' then (1 : 𝕜) else 0) = star (if b = b' then (1 : 𝕜) else 0) by
        by_cases hbb : b = b' <;> simp [hbb]]
      rw [← hs]

/-- reduced density matrix of the first site of a right-canonical state: `ρ[s,s'] = Σ_b A₀[s,0,b] conj(A₀[s',0,b])` -/
theorem first_site_density {ψ1 : MPS 𝕜} (hadm : Admissible ψ1) (hiso : ∀ B ∈ ψ1.A, RightIso B)
    {A0 : T3 𝕜} {rest : List (T3 𝕜)} (hA : ψ1.A = A0 :: rest) {s s' : Nat} (hs : s < ψ1.qd.length)
    (hs' : s' < ψ1.qd.length) :
    ∑ σ ∈ digitsU ψ1.qd.length rest.length, ψ1.amp (s :: σ) * star (ψ1.amp (s' :: σ)) =
      ∑ b ∈ range A0.d2, A0.f s 0 b * star (A0.f s' 0 b) := by
  have hc := hadm.chain3
  rw [hA] at hc
  simp only [List.length_cons, List.replicate_succ, chain3_cons] at hc
  obtain ⟨c0, c1, hrest⟩ := hc
  have hL : ψ1.A.length = rest.length + 1 := by rw [hA]; rfl
  have e : ∀ σ ∈ digitsU ψ1.qd.length rest.length, ψ1.amp (s :: σ) * star (ψ1.amp (s' :: σ)) =
      ∑ b ∈ range A0.d2, ∑ b' ∈ range A0.d2, (A0.f s 0 b * star (A0.f s' 0 b')) *
        (pmat rest σ b 0 * star (pmat rest σ b' 0)) := by
    intro σ hσ
    have m1 : s :: σ ∈ digitsU ψ1.qd.length ψ1.A.length := by
      rw [hL]; show s :: σ ∈ digits (ψ1.qd.length :: List.replicate rest.length ψ1.qd.length)
      exact cons_mem_digits.2 ⟨hs, hσ⟩
    have m2 : s' :: σ ∈ digitsU ψ1.qd.length ψ1.A.length := by
      rw [hL]; show s' :: σ ∈ digits (ψ1.qd.length :: List.replicate rest.length ψ1.qd.length)
      exact cons_mem_digits.2 ⟨hs', hσ⟩
    rw [amp_eq_pmat hadm.chain3 m1, amp_eq_pmat hadm.chain3 m2, hA, pmat_cons, pmat_cons, star_sum,
      Finset.sum_mul_sum]
    refine Finset.sum_congr rfl fun b _ => Finset.sum_congr rfl fun b' _ => ?_
    rw [star_mul']; ring
  rw [Finset.sum_congr rfl e, Finset.sum_comm]
  refine Finset.sum_congr rfl fun b hb => ?_
  rw [Finset.sum_comm]
  have e3 : ∀ b' ∈ range A0.d2, ∑ σ ∈ digitsU ψ1.qd.length rest.length,
      (A0.f s 0 b * star (A0.f s' 0 b')) * (pmat rest σ b 0 * star (pmat rest σ b' 0)) =
      if b = b' then A0.f s 0 b * star (A0.f s' 0 b') else 0 := by
    intro b' hb'
    have := rightIso_chain hrest (fun B hB => hiso B (by rw [hA]; exact List.mem_cons_of_mem _ hB))
      (Finset.mem_range.1 hb) (Finset.mem_range.1 hb')
    simp only [Finset.sum_range_one] at this
    rw [← Finset.mul_sum, this]
    split <;> simp
  rw [Finset.sum_congr rfl e3, Finset.sum_ite_eq (range A0.d2) b, if_pos hb]

/-- `Σ_j (Σ_p x_p G[j,p]) conj(Σ_p y_p G[j,p]) = Σ_p x_p conj(y_p)` when the columns of `G` are orthonormal in the
sense `Σ_j G[j,p] conj(G[j,p']) = δ` -/
theorem gram_expand {ι : Type} (S : Finset ι) (D : Nat) (x y : Nat → 𝕜) (G : ι → Nat → 𝕜)
    (hG : ∀ p p', p < D → p' < D → ∑ j ∈ S, G j p * star (G j p') = if p = p' then 1 else 0) :
    ∑ j ∈ S, (∑ p ∈ range D, x p * G j p) * star (∑ p ∈ range D, y p * G j p) =
      ∑ p ∈ range D, x p * star (y p) := by
  have e1 : ∀ j ∈ S, (∑ p ∈ range D, x p * G j p) * star (∑ p ∈ range D, y p * G j p) =
      ∑ p ∈ range D, ∑ p' ∈ range D, (x p * star (y p')) * (G j p * star (G j p')) := by
    intro j _
    rw [star_sum, Finset.sum_mul_sum]
    refine Finset.sum_congr rfl fun p _ => Finset.sum_congr rfl fun p' _ => ?_
    rw [star_mul']; ring
  rw [Finset.sum_congr rfl e1, Finset.sum_comm]
  refine Finset.sum_congr rfl fun p hp => ?_
  rw [Finset.sum_comm]
  have e2 : ∀ p' ∈ range D, ∑ j ∈ S, (x p * star (y p')) * (G j p * star (G j p')) =
      if p = p' then x p * star (y p') else 0 := by
    intro p' hp'
    rw [← Finset.mul_sum, hG p p' (Finset.mem_range.1 hp) (Finset.mem_range.1 hp')]
    split <;> simp
  rw [Finset.sum_congr rfl e2, Finset.sum_ite_eq (range D) p, if_pos hp]

/-- a spectral decomposition `ρ[s,s'] = Σ_p U[s,p] σ_p² conj(U[s',p])` with orthonormal columns of `U` -/
def SchmidtDecomp (d : Nat) (ρ : Nat → Nat → 𝕜) (spec : List ℝ) : Prop :=
  ∃ U : Nat → Nat → 𝕜,
    (∀ p p', p < spec.length → p' < spec.length → ∑ s ∈ range d, star (U s p) * U s p' = if p = p' then 1 else 0) ∧
    ∀ s s', s < d → s' < d →
      ρ s s' = ∑ p ∈ range spec.length, U s p * ((spec.getD p 0 ^ 2 : ℝ) : 𝕜) * star (U s' p)

variable {dsvd : Mat 𝕜 → Mat 𝕜 × List ℝ × Mat 𝕜}

theorem star_ite_one (P : Prop) [Decidable P] : star (if P then (1 : 𝕜) else 0) = if P then 1 else 0 := by
  split <;> simp

/-- left step: `A₀ A₀ᴴ` in terms of the spectrum of the block SVD of the matricization `A₀.reshape(d·1, D)` -/
theorem density_left {A0 : T3 𝕜} {qd q0 q1 : List Int} (hA : T3Wf A0 qd q0 q1) (hd : 0 < qd.length)
    (h0 : q0.length = 1) (h1 : 0 < q1.length)
    (hc : C12.SVDContractOn (ιR 𝕜) dsvd A0.flattenLeft.tab (QN.flatten2 qd q0) q1) :
    SchmidtDecomp qd.length (fun s s' => ∑ b ∈ range A0.d2, A0.f s 0 b * star (A0.f s' 0 b))
      (spectrum dsvd A0.flattenLeft.tab (QN.flatten2 qd q0) q1) := by
  have H := qrInput_flattenLeft hA hd (by omega) h1
  have hd1 : A0.d1 = 1 := by rw [hA.d1, h0]
  have hMm : A0.flattenLeft.tab.m = qd.length := by
    show A0.d0 * A0.d1 = _
    rw [hd1, hA.d0, Nat.mul_one]
  refine ⟨fullU dsvd A0.flattenLeft.tab (QN.flatten2 qd q0) q1, ?_, ?_⟩
  · intro p p' hp hp'
    rw [← hMm]
    exact fullU_iso hc.shape hc.isoU H hp hp'
  · intro s s' hs hs'
    have hM : ∀ t b, t < qd.length → b < A0.d2 → A0.f t 0 b =
        ∑ p ∈ range (spectrum dsvd A0.flattenLeft.tab (QN.flatten2 qd q0) q1).length,
          (fullU dsvd A0.flattenLeft.tab (QN.flatten2 qd q0) q1 t p *
            (ιR 𝕜) ((spectrum dsvd A0.flattenLeft.tab (QN.flatten2 qd q0) q1).getD p 0)) *
          fullV dsvd A0.flattenLeft.tab (QN.flatten2 qd q0) q1 p b := by
      intro t b ht hb
      have hr : t < A0.flattenLeft.tab.m := by rw [hMm]; exact ht
      rw [full_expansion (ιR 𝕜) hc.shape hc.product H hr hb, Mat.tab_f A0.flattenLeft hr hb]
      show A0.f t 0 b = A0.f (t / A0.d1) (t % A0.d1) b
      rw [hd1, Nat.div_one, Nat.mod_one]
    have e : ∀ b ∈ range A0.d2, A0.f s 0 b * star (A0.f s' 0 b) = _ := fun b hb => by
      rw [hM s b hs (Finset.mem_range.1 hb), hM s' b hs' (Finset.mem_range.1 hb)]
    show ∑ b ∈ range A0.d2, A0.f s 0 b * star (A0.f s' 0 b) = _
    rw [Finset.sum_congr rfl e]
    rw [gram_expand (range A0.d2) _ _ _ (fun b p => fullV dsvd A0.flattenLeft.tab (QN.flatten2 qd q0) q1 p b)
      (fun p p' hp hp' => fullV_iso hc.shape hc.isoV H hp hp')]
    refine Finset.sum_congr rfl fun p _ => ?_
    rw [star_mul', ιR_star, ιR_apply, RCLike.ofReal_pow]
    ring

/-- right step (mirrored coordinates): `B₀ B₀ᴴ` in terms of the spectrum of the block SVD of `B₀ᵀ`-matricization -/
theorem density_right {B0 : T3 𝕜} {qd q0 q1 : List Int} (hB : T3Wf B0 qd q0 q1) (hd : 0 < qd.length)
    (h0 : q0.length = 1) (h1 : 0 < q1.length)
    (hc : C12.SVDContractOn (ιR 𝕜) dsvd B0.swap12.swap01.flattenRight.tab (QN.neg q1)
      (QN.flatten2 (QN.neg qd) (QN.neg q0))) :
    SchmidtDecomp qd.length (fun s s' => ∑ b ∈ range B0.d2, B0.f s 0 b * star (B0.f s' 0 b))
      (spectrum dsvd B0.swap12.swap01.flattenRight.tab (QN.neg q1) (QN.flatten2 (QN.neg qd) (QN.neg q0))) := by
  have H := qrInput_rightMat hB hd (by omega) h1
  have hd1 : B0.d1 = 1 := by rw [hB.d1, h0]
  have hMn : B0.swap12.swap01.flattenRight.tab.n = qd.length := by
    show B0.d0 * B0.d1 = _
    rw [hd1, hB.d0, Nat.mul_one]
  have hMm : B0.swap12.swap01.flattenRight.tab.m = B0.d2 := rfl
  refine ⟨fun s p => fullV dsvd B0.swap12.swap01.flattenRight.tab (QN.neg q1)
    (QN.flatten2 (QN.neg qd) (QN.neg q0)) p s, ?_, ?_⟩
  · intro p p' hp hp'
    have := fullV_iso hc.shape hc.isoV H hp hp'
    rw [hMn] at this
    have hs := congrArg star this
    rw [star_sum, star_ite_one] at hs
    rw [← hs]
    refine Finset.sum_congr rfl fun s _ => ?_
    rw [star_mul', star_star, mul_comm]
  · intro s s' hs hs'
    have hM : ∀ t r, t < qd.length → r < B0.d2 → B0.f t 0 r =
        ∑ p ∈ range (spectrum dsvd B0.swap12.swap01.flattenRight.tab (QN.neg q1)
            (QN.flatten2 (QN.neg qd) (QN.neg q0))).length,
          ((ιR 𝕜) ((spectrum dsvd B0.swap12.swap01.flattenRight.tab (QN.neg q1)
              (QN.flatten2 (QN.neg qd) (QN.neg q0))).getD p 0) *
            fullV dsvd B0.swap12.swap01.flattenRight.tab (QN.neg q1) (QN.flatten2 (QN.neg qd) (QN.neg q0)) p t) *
          fullU dsvd B0.swap12.swap01.flattenRight.tab (QN.neg q1) (QN.flatten2 (QN.neg qd) (QN.neg q0)) r p := by
      intro t r ht hr
      have hc' : t < B0.d0 * B0.d1 := by rw [hd1, hB.d0, Nat.mul_one]; exact ht
      have := full_expansion (ιR 𝕜) hc.shape hc.product H (i := r) (j := t) hr (by rw [hMn]; exact ht)
      rw [rightMat_f B0 hr hc', hd1, Nat.div_one, Nat.mod_one] at this
      rw [← this]
      refine Finset.sum_congr rfl fun p _ => ?_
      ring
    have e : ∀ b ∈ range B0.d2, B0.f s 0 b * star (B0.f s' 0 b) = _ := fun b hb => by
      rw [hM s b hs (Finset.mem_range.1 hb), hM s' b hs' (Finset.mem_range.1 hb)]
    show ∑ b ∈ range B0.d2, B0.f s 0 b * star (B0.f s' 0 b) = _
    rw [Finset.sum_congr rfl e]
    rw [gram_expand (range B0.d2) _ _ _ (fun r p => fullU dsvd B0.swap12.swap01.flattenRight.tab (QN.neg q1)
      (QN.flatten2 (QN.neg qd) (QN.neg q0)) r p)
      (fun p p' hp hp' => by
        have := fullU_iso hc.shape hc.isoU H hp hp'
        rw [hMm] at this
        have hs := congrArg star this
        rw [star_sum, star_ite_one] at hs
        rw [← hs]
        refine Finset.sum_congr rfl fun r _ => ?_
        rw [star_mul', star_star, mul_comm])]
    refine Finset.sum_congr rfl fun p _ => ?_
    rw [star_mul', ιR_star, ιR_apply, RCLike.ofReal_pow]
    ring

/-! ## the first local step of a sweep -/

theorem Sweep.first {Loc : T3 𝕜 → T3 𝕜 → List Int → List Int → T3 𝕜 → T3 𝕜 → List Int → Prop}
    {A : T3 𝕜} {qL : List Int} {rest : List (T3 𝕜)} {qRs : List (List Int)}
    {As : List (T3 𝕜)} {qs : List (List Int)} {T : T3 𝕜} (h : Sweep Loc A qL rest qRs As qs T) :
    ∃ X qR qRest A' N' qb qs', qRs = qR :: qRest ∧ qs = qb :: qs' ∧ Loc A X qL qR A' N' qb := by
  cases h with
  | last hX hloc => exact ⟨_, _, _, _, _, _, _, rfl, rfl, hloc⟩
  | cons hloc hsw => exact ⟨_, _, _, _, _, _, _, rfl, rfl, hloc⟩

/-- what the tolerance rule says about the spectrum `spec` (Schmidt values of the normalised state) and the new bond
dimension `D'` -/
def FirstBondRule (k : MPS.SvdKernels 𝕜 ℝ) (tol : ℝ) (spec : List ℝ) (D' : Nat) : Prop :=
  D' = (retainedBondIndices k.dnorm k.dargsort spec tol).length ∧
  sqSum spec = 1 ∧ k.dnorm spec = 1 ∧ (∀ x ∈ spec, 0 ≤ x) ∧
  C12.weightOf spec 1 (C12.discardedIdx spec (retainedBondIndices k.dnorm k.dargsort spec tol)) ≤ tol ∧
  (∀ i ∈ retainedBondIndices k.dnorm k.dargsort spec tol, ∀ j, j < spec.length →
    j ∉ retainedBondIndices k.dnorm k.dargsort spec tol → spec.getD j 0 ≤ spec.getD i 0) ∧
  (∀ i ∈ retainedBondIndices k.dnorm k.dargsort spec tol,
    tol < C12.weightOf spec 1 (C12.discardedIdx spec (retainedBondIndices k.dnorm k.dargsort spec tol)) +
      C12.relWeight spec 1 i) ∧
  (∀ i ∈ retainedBondIndices k.dnorm k.dargsort spec tol, 0 < spec.getD i 0)

theorem firstBondRule_of {k : MPS.SvdKernels 𝕜 ℝ} (hk : SvdKernel k) {tol : ℝ} (htol : 0 ≤ tol)
    {spec : List ℝ} (h1 : sqSum spec = 1) (hnn : ∀ x ∈ spec, 0 ≤ x) :
    FirstBondRule k tol spec (retainedBondIndices k.dnorm k.dargsort spec tol).length := by
  have hn := hk.norm spec
  have hw : k.dnorm spec = 1 := by
    have h2 : k.dnorm spec * k.dnorm spec = 1 := by rw [hn.2]; exact h1
    nlinarith [hn.1]
  have hs := hk.sort (C12.sortKeys spec (k.dnorm spec))
  refine ⟨rfl, h1, hw, hnn, ?_, ?_, ?_, ?_⟩
  · have := C12.rule_weight k.dnorm k.dargsort spec tol hs htol
    rwa [hw] at this
  · exact C12.rule_order_values k.dnorm k.dargsort spec tol hnn hs
  · have := C12.rule_maximal k.dnorm k.dargsort spec tol hs
    rwa [hw] at this
  · exact C12.rule_positive_values k.dnorm k.dargsort spec tol hnn hs htol

variable {k : MPS.SvdKernels 𝕜 ℝ} {tol : ℝ} {qd : List Int}

/-- the first step of a left sweep: the new bond carries exactly the retained indices of the spectrum -/
theorem first_step_left (hk : SvdKernel k) (hd : 0 < qd.length) {A X : T3 𝕜} {qL qR : List Int} {A' N' : T3 𝕜}
    {qb : List Int} (h : LocL k tol qd A X qL qR A' N' qb) (hA : T3Wf A qd qL qR) (hL : 0 < qL.length)
    (hR : 0 < qR.length) (hpos : 0 < frobT A) :
    qb.length = (retainedBondIndices k.dnorm k.dargsort
      (spectrum k.dsvd A.flattenLeft.tab (QN.flatten2 qd qL) qR) tol).length ∧
    sqSum (spectrum k.dsvd A.flattenLeft.tab (QN.flatten2 qd qL) qR) = frobT A ∧
    ∀ x ∈ spectrum k.dsvd A.flattenLeft.tab (QN.flatten2 qd qL) qR, 0 ≤ x := by
  have H := qrInput_flattenLeft hA hd hL hR
  have hc := hk.svd.on A.flattenLeft.tab (QN.flatten2 qd qL) qR
  have hF := frobM_eq_spectrum hc H
  rw [frobM_flattenLeft] at hF
  refine ⟨?_, hF.symm, spectrum_nonneg hc.nonneg H.hq0 H.hq1⟩
  unfold LocL at h
  rw [localLeftSvd_eq] at h
  cases hq : splitMatrixSvd k.dsvd k.dnorm k.dargsort A.flattenLeft.tab (QN.flatten2 qd qL) qR tol with
  | error e => rw [hq] at h; cases h
  | ok r =>
    obtain ⟨U, s, V, qb'⟩ := r
    rw [hq] at h
    dsimp only at h
    by_cases hcn : V.n ≠ X.d1
    · rw [if_pos hcn] at h; cases h
    · rw [if_neg hcn] at h
      injection h with h
      injection h with h1 h
      injection h with h2 h3
      subst h3
      have hne := anyNZ_of_frob_pos (M := A.flattenLeft.tab) (by rw [frobM_flattenLeft]; exact hpos)
      have hdm := C12.split_dims k.dnorm k.dargsort tol hc.shape H.hq0 H.hq1 H.hm H.hn H.hsp hq
      rw [hdm.2.2.2.2.1, hdm.2.2.2.2.2.2.1 hne]

/-- the first step of a right sweep, in mirrored coordinates -/
theorem first_step_right (hk : SvdKernel k) (hd : 0 < qd.length) {B X : T3 𝕜} {qL qR : List Int} {B' N' : T3 𝕜}
    {qb : List Int} (h : LocR k tol qd B X qL qR B' N' qb) (hB : T3Wf B qd qL qR) (hL : 0 < qL.length)
    (hR : 0 < qR.length) (hpos : 0 < frobT B) :
    qb.length = (retainedBondIndices k.dnorm k.dargsort
      (spectrum k.dsvd B.swap12.swap01.flattenRight.tab (QN.neg qR) (QN.flatten2 (QN.neg qd) (QN.neg qL))) tol).length ∧
    sqSum (spectrum k.dsvd B.swap12.swap01.flattenRight.tab (QN.neg qR) (QN.flatten2 (QN.neg qd) (QN.neg qL))) =
      frobT B ∧
    ∀ x ∈ spectrum k.dsvd B.swap12.swap01.flattenRight.tab (QN.neg qR) (QN.flatten2 (QN.neg qd) (QN.neg qL)),
      0 ≤ x := by
  have H := qrInput_rightMat hB hd hL hR
  have hc := hk.svd.on B.swap12.swap01.flattenRight.tab (QN.neg qR) (QN.flatten2 (QN.neg qd) (QN.neg qL))
  have hF := frobM_eq_spectrum hc H
  rw [frobM_rightMat] at hF
  refine ⟨?_, hF.symm, spectrum_nonneg hc.nonneg H.hq0 H.hq1⟩
  unfold LocR at h
  rw [localRightSvd_eq] at h
  cases hq : splitMatrixSvd k.dsvd k.dnorm k.dargsort B.swap12.swap01.flattenRight.tab (QN.neg qR)
      (QN.flatten2 (QN.neg qd) (QN.neg qL)) tol with
  | error e => rw [hq] at h; cases h
  | ok r =>
    obtain ⟨U, s, V, qb'⟩ := r
    rw [hq] at h
    dsimp only at h
    by_cases hcn : U.m ≠ X.swap12.d2
    · rw [if_pos hcn] at h; cases h
    · rw [if_neg hcn] at h
      injection h with h
      injection h with h1 h
      injection h with h2 h3
      have hqb : qb.length = qb'.length := by rw [h3, neg_length]
      have hne := anyNZ_of_frob_pos (M := B.swap12.swap01.flattenRight.tab) (by rw [frobM_rightMat]; exact hpos)
      have hdm := C12.split_dims k.dnorm k.dargsort tol hc.shape H.hq0 H.hq1 H.hm H.hn H.hsp hq
      rw [hqb, hdm.2.2.2.2.1, hdm.2.2.2.2.2.2.1 hne]

/-! ## assembly -/

variable {dqr : Mat 𝕜 → Mat 𝕜 × Mat 𝕜} {dabs : 𝕜 → ℝ} {divR : 𝕜 → ℝ → 𝕜} {ψ ψ' : MPS 𝕜} {nrm scale : ℝ}

theorem SchmidtDecomp.congr {d : Nat} {ρ ρ' : Nat → Nat → 𝕜} {spec : List ℝ} (h : SchmidtDecomp d ρ spec)
    (he : ∀ s s', s < d → s' < d → ρ' s s' = ρ s s') : SchmidtDecomp d ρ' spec := by
  obtain ⟨U, h1, h2⟩ := h
  exact ⟨U, h1, fun s s' hs hs' => (he s s' hs hs').trans (h2 s s' hs hs')⟩

/-- left mode: the first bond -/
theorem first_bond_left (hq : C01.QRKernel dqr) (hk : SvdKernel k) (ha : AbsContract dabs divR)
    (hadm : Admissible ψ) (htol : 0 ≤ tol) (htol1 : tol < 1)
    (hrun : MPS.compress dqr k dabs divR ψ tol true = .ok (ψ', nrm, scale)) :
    ∃ (ψ1 : MPS 𝕜) (spec : List ℝ), MPS.orthonormalize dqr ψ false = .ok (ψ1, nrm) ∧
      SchmidtDecomp ψ.qd.length (fun s s' => ∑ σ ∈ digitsU ψ.qd.length (ψ.A.length - 1),
        ψ1.amp (s :: σ) * star (ψ1.amp (s' :: σ))) spec ∧
      FirstBondRule k tol spec (ψ'.qD.getD 1 []).length := by
  obtain ⟨ψ1, A0, rest, q0, qrest, As, qs, T, ho, hA, hq', hs, t0, t1, t2, rfl, rfl⟩ := compress_left_inv hrun
  have hc : OppCanon true ψ1 := oppCanon_of_ortho hq hadm (left := true) ho
  obtain ⟨-, e1, e2⟩ := C01.ortho_wf hq.contract.shape hadm ho
  obtain ⟨hw, h0, hl⟩ := hc.1.chain hA hq'
  have hiso : ∀ B ∈ A0 :: rest, RightIso B := by rw [← hA]; exact hc.2
  have hF := frobT_first hc.1 hA hq' (hiso A0 (by simp))
  cases qrest with
  | nil => simp at hw
  | cons q1 qrest =>
    simp only [wfChain_cons] at hw
    obtain ⟨hA0, hq1, -⟩ := hw
    obtain ⟨X, qR, qRest, A', N', qb, qs', eR, eS, hloc⟩ := (sweepLeftSvd_of_run hs).first
    injection eR with eR1 eR2
    subst eR1 eR2 eS
    obtain ⟨f1, f2, f3⟩ := first_step_left hk hc.1.d_pos hloc hA0 (by omega) hq1 (by rw [hF]; exact one_pos)
    rw [hF] at f2
    refine ⟨ψ1, spectrum k.dsvd A0.flattenLeft.tab (QN.flatten2 ψ1.qd q0) q1, ho, ?_, ?_⟩
    · have hden := density_left hA0 hc.1.d_pos h0 hq1 (hk.svd.on _ _ _)
      rw [← e1]
      refine hden.congr ?_
      intro s s' hs1 hs1'
      have hL : ψ.A.length - 1 = rest.length := by rw [← e2, hA]; simp
      rw [hL]
      exact first_site_density hc.1 hc.2 hA hs1 hs1'
    · have := firstBondRule_of hk htol f2 f3
      rw [← f1] at this
      exact this

theorem getD_reverse {α : Type} (l : List α) (d : α) {i : Nat} (hi : i < l.length) :
    l.reverse.getD i d = l.getD (l.length - 1 - i) d := by
  simp only [List.getD_eq_getElem?_getD, List.getElem?_reverse hi]

/-- right mode: the last bond -/
theorem first_bond_right (hq : C01.QRKernel dqr) (hk : SvdKernel k) (ha : AbsContract dabs divR)
    (hadm : Admissible ψ) (htol : 0 ≤ tol) (htol1 : tol < 1)
    (hrun : MPS.compress dqr k dabs divR ψ tol false = .ok (ψ', nrm, scale)) :
    ∃ (ψ1 : MPS 𝕜) (spec : List ℝ), MPS.orthonormalize dqr ψ true = .ok (ψ1, nrm) ∧
      SchmidtDecomp ψ.qd.length (fun s s' => ∑ σ ∈ digitsU ψ.qd.length (ψ.A.length - 1),
        ψ1.amp (σ ++ [s]) * star (ψ1.amp (σ ++ [s']))) spec ∧
      FirstBondRule k tol spec (ψ'.qD.getD (ψ.A.length - 1) []).length := by
  obtain ⟨ψ1, Al, rrest, ql, qrrest, As, qs, T, ho, hA, hq', hs, t0, t1, t2, rfl, rfl⟩ := compress_right_inv hrun
  have hc : OppCanon false ψ1 := oppCanon_of_ortho hq hadm (left := false) ho
  obtain ⟨-, e1, e2⟩ := C01.ortho_wf hq.contract.shape hadm ho
  have hm := admissible_mirror hc.1
  have hA' : (mirror ψ1).A = Al.swap12 :: rrest.map T3.swap12 := by
    show ψ1.A.reverse.map T3.swap12 = _
    rw [hA]; rfl
  have hq'' : (mirror ψ1).qD = QN.neg ql :: qrrest.map QN.neg := by
    show ψ1.qD.reverse.map QN.neg = _
    rw [hq']; rfl
  obtain ⟨hw, h0, hl⟩ := hm.chain hA' hq''
  have hiso : ∀ B ∈ Al.swap12 :: rrest.map T3.swap12, RightIso B := by rw [← hA']; exact hc.mirror_iso
  have hF := frobT_first hm hA' hq'' (hiso _ (by simp))
  have hlenA : rrest.length + 1 = ψ.A.length := by
    have := congrArg List.length hA
    simp only [List.length_reverse, List.length_cons] at this
    rw [← e2, this]
  cases qrrest with
  | nil => simp at hw
  | cons q1 qrrest =>
    simp only [List.map_cons, wfChain_cons] at hw
    obtain ⟨hA0, hq1, -⟩ := hw
    obtain ⟨X, qR, qRest, A', N', qb, qs', eR, eS, hloc⟩ := (sweepRightSvd_of_run hs).first
    simp only [List.map_cons] at eR
    injection eR with eR1 eR2
    subst eR1 eR2
    obtain ⟨f1, f2, f3⟩ := first_step_right hk hc.1.d_pos hloc hA0 (by omega) hq1 (by rw [hF]; exact one_pos)
    rw [hF] at f2
    refine ⟨ψ1, spectrum k.dsvd Al.swap12.swap12.swap01.flattenRight.tab (QN.neg (QN.neg q1))
      (QN.flatten2 (QN.neg ψ1.qd) (QN.neg (QN.neg ql))), ho, ?_, ?_⟩
    · have hden := density_right hA0 hc.1.d_pos h0 hq1 (hk.svd.on _ _ _)
      rw [← e1]
      refine hden.congr ?_
      intro s s' hs1 hs1'
      have hL : ψ.A.length - 1 = (rrest.map T3.swap12).length := by rw [← hlenA]; simp
      have hfs := first_site_density hm (fun B hB => hc.mirror_iso B hB) hA' (s := s) (s' := s') hs1 hs1'
      rw [← hfs, hL]
      have hqdm : (mirror ψ1).qd = ψ1.qd := rfl
      rw [hqdm, ← sum_digitsU_reverse]
      refine Finset.sum_congr rfl fun σ hσ => ?_
      have hmem : ∀ t, t < ψ1.qd.length → σ.reverse ++ [t] ∈ digitsU ψ1.qd.length ψ1.A.length := by
        intro t ht
        rw [digitsU, mem_digits_replicate] at hσ ⊢
        refine ⟨?_, ?_⟩
        · rw [List.length_append, List.length_reverse, hσ.1, List.length_map, e2, ← hlenA]; rfl
        · intro x hx
          rcases List.mem_append.1 hx with h | h
          · exact hσ.2 x (List.mem_reverse.1 h)
          · rw [List.mem_singleton.1 h]; exact ht
      have r1 := amp_mirror hc.1 (hmem s hs1)
      have r2 := amp_mirror hc.1 (hmem s' hs1')
      rw [List.reverse_append, List.reverse_singleton, List.singleton_append, List.reverse_reverse] at r1 r2
      rw [← r1, ← r2]
    · have := firstBondRule_of hk htol f2 f3
      rw [← f1] at this
      -- locate the bond in `ψ'.qD = (ql :: qs).reverse`
      cases qs with
      | nil => simp at eS
      | cons qb0 qs0 =>
        simp only [List.map_cons] at eS
        injection eS with eS1 eS2
        have hlen : (qb0 :: qs0).length = ψ.A.length := by
          obtain ⟨ψ1', ho', hcr⟩ := compOf_of_right hq hk ha hadm htol htol1 hrun
          have hc' : OppCanon false ψ1' := oppCanon_of_ortho hq hadm (left := false) ho'
          obtain ⟨hadm', -, e2'⟩ := hcr.adm hc'
          have e2'' := (C01.ortho_wf hq.contract.shape hadm ho').2.2
          have hl' := ((wellFormed_iff_idx _).1 hadm'.wf).1
          simp only [List.length_reverse, List.length_cons] at hl' e2' ⊢
          omega
        have : ((ql :: qb0 :: qs0).reverse.getD (ψ.A.length - 1) []).length = qb.length := by
          rw [getD_reverse _ _ (by simp only [List.length_cons] at hlen ⊢; omega)]
          have : (ql :: qb0 :: qs0).length - 1 - (ψ.A.length - 1) = 1 := by
            simp only [List.length_cons] at hlen ⊢; omega
          rw [this]
          show qb0.length = qb.length
          rw [← eS1, neg_length]
        show FirstBondRule k tol _ ((ql :: qb0 :: qs0).reverse.getD (ψ.A.length - 1) []).length
        rw [this]
        assumption

end Ptn.Compress

import PtnModel.Proofs.GaugeLookup
/-!
# Gauge transform: the ten node tables of `MolecularOpGraphNodes`, every `L`

For each table (index = position in `GaugeH.tables`): the key view equals the specification of `__init__` (`*_spec`), a successful
membership test `key in table and k in table[key]` is equivalent to the index conditions of `__init__` (`t*_has`), and inside these
conditions `table[key][k]` is defined (`t*_g2`).
-/
set_option linter.unusedSectionVars false
set_option linter.unusedVariables false

namespace Ptn.Ham.Gauge
open Ptn.Og List

theorem aDagL_spec (L : Int) : famKeys (MolNodes.init L).aDagL = specKeys ((pyRange (0) (L - 2)).map fun x => ([x], pyRange (x + 1) (L - 1), (1 : Int))) := by
  show famKeys ((mkFams (molSpecs L) (idCount L)).1.getD 0 []) = _
  exact mkFams_keys _ _ 0

theorem t0_has (L : Int) (key : List Int) (k : Int) (h : famHas (tableAt (MolNodes.init L) 0) key k = true) :
    ∃ x, key = [x] ∧ 0 ≤ x ∧ x < L - 2 ∧ x + 1 ≤ k ∧ k < L - 1 := by
  obtain ⟨x, hx, hk, hr⟩ := single_has (MolNodes.init L).aDagL _ (fun x => pyRange (x + 1) (L - 1)) (fun _ => (1 : Int)) (aDagL_spec L) key k h
  exact ⟨x, hk, (mem_pyRange.1 hx).1, (mem_pyRange.1 hx).2, (mem_pyRange.1 hr).1, (mem_pyRange.1 hr).2⟩

theorem t0_g2 (L x k : Int) (h0 : 0 ≤ x) (h1 : x < L - 2) (h2 : x + 1 ≤ k) (h3 : k < L - 1) :
    ∃ nd, (tableAt (MolNodes.init L) 0).get2 [x] k = .ok nd :=
  single_get2 (MolNodes.init L).aDagL _ (fun x => pyRange (x + 1) (L - 1)) (fun _ => (1 : Int)) (aDagL_spec L) x k
    (mem_pyRange.2 ⟨h0, h1⟩) (mem_pyRange.2 ⟨h2, h3⟩)

theorem aAnnL_spec (L : Int) : famKeys (MolNodes.init L).aAnnL = specKeys ((pyRange (0) (L - 2)).map fun x => ([x], pyRange (x + 1) (L - 1), (-1 : Int))) := by
  show famKeys ((mkFams (molSpecs L) (idCount L)).1.getD 1 []) = _
  exact mkFams_keys _ _ 1

theorem t1_has (L : Int) (key : List Int) (k : Int) (h : famHas (tableAt (MolNodes.init L) 1) key k = true) :
    ∃ x, key = [x] ∧ 0 ≤ x ∧ x < L - 2 ∧ x + 1 ≤ k ∧ k < L - 1 := by
  obtain ⟨x, hx, hk, hr⟩ := single_has (MolNodes.init L).aAnnL _ (fun x => pyRange (x + 1) (L - 1)) (fun _ => (-1 : Int)) (aAnnL_spec L) key k h
  exact ⟨x, hk, (mem_pyRange.1 hx).1, (mem_pyRange.1 hx).2, (mem_pyRange.1 hr).1, (mem_pyRange.1 hr).2⟩

theorem t1_g2 (L x k : Int) (h0 : 0 ≤ x) (h1 : x < L - 2) (h2 : x + 1 ≤ k) (h3 : k < L - 1) :
    ∃ nd, (tableAt (MolNodes.init L) 1).get2 [x] k = .ok nd :=
  single_get2 (MolNodes.init L).aAnnL _ (fun x => pyRange (x + 1) (L - 1)) (fun _ => (-1 : Int)) (aAnnL_spec L) x k
    (mem_pyRange.2 ⟨h0, h1⟩) (mem_pyRange.2 ⟨h2, h3⟩)

theorem aDagADagL_spec (L : Int) : famKeys (MolNodes.init L).aDagADagL = specKeys ((pyRange (0) (L / 2 - 1)).flatMap fun x => (pyRange (x + 1) (L / 2)).map fun y => ([x, y], pyRange (y + 1) (L / 2 + 1), (2 : Int))) := by
  show famKeys ((mkFams (molSpecs L) (idCount L)).1.getD 2 []) = _
  exact mkFams_keys _ _ 2

theorem t2_has (L : Int) (key : List Int) (k : Int) (h : famHas (tableAt (MolNodes.init L) 2) key k = true) :
    ∃ x y, key = [x, y] ∧ 0 ≤ x ∧ x < L / 2 - 1 ∧ x + 1 ≤ y ∧ y < L / 2 ∧ y + 1 ≤ k ∧ k < L / 2 + 1 := by
  obtain ⟨x, hx, y, hy, hk, hr⟩ := pair_has (MolNodes.init L).aDagADagL _ (fun x => pyRange (x + 1) (L / 2))
    (fun x y => pyRange (y + 1) (L / 2 + 1)) (fun _ _ => (2 : Int)) (aDagADagL_spec L) key k h
  exact ⟨x, y, hk, (mem_pyRange.1 hx).1, (mem_pyRange.1 hx).2, (mem_pyRange.1 hy).1, (mem_pyRange.1 hy).2,
    (mem_pyRange.1 hr).1, (mem_pyRange.1 hr).2⟩

theorem t2_g2 (L x y k : Int) (h0 : 0 ≤ x) (h1 : x < L / 2 - 1) (h2 : x + 1 ≤ y) (h3 : y < L / 2)
    (h4 : y + 1 ≤ k) (h5 : k < L / 2 + 1) :
    ∃ nd, (tableAt (MolNodes.init L) 2).get2 [x, y] k = .ok nd :=
  pair_get2 (MolNodes.init L).aDagADagL _ (fun x => pyRange (x + 1) (L / 2)) (fun x y => pyRange (y + 1) (L / 2 + 1))
    (fun _ _ => (2 : Int)) (aDagADagL_spec L) x y k (mem_pyRange.2 ⟨h0, h1⟩) (mem_pyRange.2 ⟨h2, h3⟩) (mem_pyRange.2 ⟨h4, h5⟩)

theorem aAnnAAnnL_spec (L : Int) : famKeys (MolNodes.init L).aAnnAAnnL = specKeys ((pyRange (0) (L / 2)).flatMap fun x => (pyRange (0) (x)).map fun y => ([x, y], pyRange (x + 1) (L / 2 + 1), (-2 : Int))) := by
  show famKeys ((mkFams (molSpecs L) (idCount L)).1.getD 3 []) = _
  exact mkFams_keys _ _ 3

theorem t3_has (L : Int) (key : List Int) (k : Int) (h : famHas (tableAt (MolNodes.init L) 3) key k = true) :
    ∃ x y, key = [x, y] ∧ 0 ≤ x ∧ x < L / 2 ∧ 0 ≤ y ∧ y < x ∧ x + 1 ≤ k ∧ k < L / 2 + 1 := by
  obtain ⟨x, hx, y, hy, hk, hr⟩ := pair_has (MolNodes.init L).aAnnAAnnL _ (fun x => pyRange (0) (x))
    (fun x y => pyRange (x + 1) (L / 2 + 1)) (fun _ _ => (-2 : Int)) (aAnnAAnnL_spec L) key k h
  exact ⟨x, y, hk, (mem_pyRange.1 hx).1, (mem_pyRange.1 hx).2, (mem_pyRange.1 hy).1, (mem_pyRange.1 hy).2,
    (mem_pyRange.1 hr).1, (mem_pyRange.1 hr).2⟩

theorem t3_g2 (L x y k : Int) (h0 : 0 ≤ x) (h1 : x < L / 2) (h2 : 0 ≤ y) (h3 : y < x)
    (h4 : x + 1 ≤ k) (h5 : k < L / 2 + 1) :
    ∃ nd, (tableAt (MolNodes.init L) 3).get2 [x, y] k = .ok nd :=
  pair_get2 (MolNodes.init L).aAnnAAnnL _ (fun x => pyRange (0) (x)) (fun x y => pyRange (x + 1) (L / 2 + 1))
    (fun _ _ => (-2 : Int)) (aAnnAAnnL_spec L) x y k (mem_pyRange.2 ⟨h0, h1⟩) (mem_pyRange.2 ⟨h2, h3⟩) (mem_pyRange.2 ⟨h4, h5⟩)

theorem aDagAAnnL_spec (L : Int) : famKeys (MolNodes.init L).aDagAAnnL = specKeys ((pyRange (0) (L / 2)).flatMap fun x => (pyRange (0) (L / 2)).map fun y => ([x, y], pyRange (max x y + 1) (L / 2 + 1), (0 : Int))) := by
  show famKeys ((mkFams (molSpecs L) (idCount L)).1.getD 4 []) = _
  exact mkFams_keys _ _ 4

theorem t4_has (L : Int) (key : List Int) (k : Int) (h : famHas (tableAt (MolNodes.init L) 4) key k = true) :
    ∃ x y, key = [x, y] ∧ 0 ≤ x ∧ x < L / 2 ∧ 0 ≤ y ∧ y < L / 2 ∧ max x y + 1 ≤ k ∧ k < L / 2 + 1 := by
  obtain ⟨x, hx, y, hy, hk, hr⟩ := pair_has (MolNodes.init L).aDagAAnnL _ (fun x => pyRange (0) (L / 2))
    (fun x y => pyRange (max x y + 1) (L / 2 + 1)) (fun _ _ => (0 : Int)) (aDagAAnnL_spec L) key k h
  exact ⟨x, y, hk, (mem_pyRange.1 hx).1, (mem_pyRange.1 hx).2, (mem_pyRange.1 hy).1, (mem_pyRange.1 hy).2,
    (mem_pyRange.1 hr).1, (mem_pyRange.1 hr).2⟩

theorem t4_g2 (L x y k : Int) (h0 : 0 ≤ x) (h1 : x < L / 2) (h2 : 0 ≤ y) (h3 : y < L / 2)
    (h4 : max x y + 1 ≤ k) (h5 : k < L / 2 + 1) :
    ∃ nd, (tableAt (MolNodes.init L) 4).get2 [x, y] k = .ok nd :=
  pair_get2 (MolNodes.init L).aDagAAnnL _ (fun x => pyRange (0) (L / 2)) (fun x y => pyRange (max x y + 1) (L / 2 + 1))
    (fun _ _ => (0 : Int)) (aDagAAnnL_spec L) x y k (mem_pyRange.2 ⟨h0, h1⟩) (mem_pyRange.2 ⟨h2, h3⟩) (mem_pyRange.2 ⟨h4, h5⟩)

theorem aDagR_spec (L : Int) : famKeys (MolNodes.init L).aDagR = specKeys ((pyRange (2) (L)).map fun x => ([x], pyRange (2) (x + 1), (-1 : Int))) := by
  show famKeys ((mkFams (molSpecs L) (idCount L)).1.getD 5 []) = _
  exact mkFams_keys _ _ 5

theorem t5_has (L : Int) (key : List Int) (k : Int) (h : famHas (tableAt (MolNodes.init L) 5) key k = true) :
    ∃ x, key = [x] ∧ 2 ≤ x ∧ x < L ∧ 2 ≤ k ∧ k < x + 1 := by
  obtain ⟨x, hx, hk, hr⟩ := single_has (MolNodes.init L).aDagR _ (fun x => pyRange (2) (x + 1)) (fun _ => (-1 : Int)) (aDagR_spec L) key k h
  exact ⟨x, hk, (mem_pyRange.1 hx).1, (mem_pyRange.1 hx).2, (mem_pyRange.1 hr).1, (mem_pyRange.1 hr).2⟩

theorem t5_g2 (L x k : Int) (h0 : 2 ≤ x) (h1 : x < L) (h2 : 2 ≤ k) (h3 : k < x + 1) :
    ∃ nd, (tableAt (MolNodes.init L) 5).get2 [x] k = .ok nd :=
  single_get2 (MolNodes.init L).aDagR _ (fun x => pyRange (2) (x + 1)) (fun _ => (-1 : Int)) (aDagR_spec L) x k
    (mem_pyRange.2 ⟨h0, h1⟩) (mem_pyRange.2 ⟨h2, h3⟩)

theorem aAnnR_spec (L : Int) : famKeys (MolNodes.init L).aAnnR = specKeys ((pyRange (2) (L)).map fun x => ([x], pyRange (2) (x + 1), (1 : Int))) := by
  show famKeys ((mkFams (molSpecs L) (idCount L)).1.getD 6 []) = _
  exact mkFams_keys _ _ 6

theorem t6_has (L : Int) (key : List Int) (k : Int) (h : famHas (tableAt (MolNodes.init L) 6) key k = true) :
    ∃ x, key = [x] ∧ 2 ≤ x ∧ x < L ∧ 2 ≤ k ∧ k < x + 1 := by
  obtain ⟨x, hx, hk, hr⟩ := single_has (MolNodes.init L).aAnnR _ (fun x => pyRange (2) (x + 1)) (fun _ => (1 : Int)) (aAnnR_spec L) key k h
  exact ⟨x, hk, (mem_pyRange.1 hx).1, (mem_pyRange.1 hx).2, (mem_pyRange.1 hr).1, (mem_pyRange.1 hr).2⟩

theorem t6_g2 (L x k : Int) (h0 : 2 ≤ x) (h1 : x < L) (h2 : 2 ≤ k) (h3 : k < x + 1) :
    ∃ nd, (tableAt (MolNodes.init L) 6).get2 [x] k = .ok nd :=
  single_get2 (MolNodes.init L).aAnnR _ (fun x => pyRange (2) (x + 1)) (fun _ => (1 : Int)) (aAnnR_spec L) x k
    (mem_pyRange.2 ⟨h0, h1⟩) (mem_pyRange.2 ⟨h2, h3⟩)

theorem aDagADagR_spec (L : Int) : famKeys (MolNodes.init L).aDagADagR = specKeys ((pyRange (L / 2 + 1) (L - 1)).flatMap fun x => (pyRange (x + 1) (L)).map fun y => ([x, y], pyRange (L / 2 + 1) (x + 1), (-2 : Int))) := by
  show famKeys ((mkFams (molSpecs L) (idCount L)).1.getD 7 []) = _
  exact mkFams_keys _ _ 7

theorem t7_has (L : Int) (key : List Int) (k : Int) (h : famHas (tableAt (MolNodes.init L) 7) key k = true) :
    ∃ x y, key = [x, y] ∧ L / 2 + 1 ≤ x ∧ x < L - 1 ∧ x + 1 ≤ y ∧ y < L ∧ L / 2 + 1 ≤ k ∧ k < x + 1 := by
  obtain ⟨x, hx, y, hy, hk, hr⟩ := pair_has (MolNodes.init L).aDagADagR _ (fun x => pyRange (x + 1) (L))
    (fun x y => pyRange (L / 2 + 1) (x + 1)) (fun _ _ => (-2 : Int)) (aDagADagR_spec L) key k h
  exact ⟨x, y, hk, (mem_pyRange.1 hx).1, (mem_pyRange.1 hx).2, (mem_pyRange.1 hy).1, (mem_pyRange.1 hy).2,
    (mem_pyRange.1 hr).1, (mem_pyRange.1 hr).2⟩

theorem t7_g2 (L x y k : Int) (h0 : L / 2 + 1 ≤ x) (h1 : x < L - 1) (h2 : x + 1 ≤ y) (h3 : y < L)
    (h4 : L / 2 + 1 ≤ k) (h5 : k < x + 1) :
    ∃ nd, (tableAt (MolNodes.init L) 7).get2 [x, y] k = .ok nd :=
  pair_get2 (MolNodes.init L).aDagADagR _ (fun x => pyRange (x + 1) (L)) (fun x y => pyRange (L / 2 + 1) (x + 1))
    (fun _ _ => (-2 : Int)) (aDagADagR_spec L) x y k (mem_pyRange.2 ⟨h0, h1⟩) (mem_pyRange.2 ⟨h2, h3⟩) (mem_pyRange.2 ⟨h4, h5⟩)

theorem aAnnAAnnR_spec (L : Int) : famKeys (MolNodes.init L).aAnnAAnnR = specKeys ((pyRange (L / 2 + 1) (L)).flatMap fun x => (pyRange (L / 2 + 1) (x)).map fun y => ([x, y], pyRange (L / 2 + 1) (y + 1), (2 : Int))) := by
  show famKeys ((mkFams (molSpecs L) (idCount L)).1.getD 8 []) = _
  exact mkFams_keys _ _ 8

theorem t8_has (L : Int) (key : List Int) (k : Int) (h : famHas (tableAt (MolNodes.init L) 8) key k = true) :
    ∃ x y, key = [x, y] ∧ L / 2 + 1 ≤ x ∧ x < L ∧ L / 2 + 1 ≤ y ∧ y < x ∧ L / 2 + 1 ≤ k ∧ k < y + 1 := by
  obtain ⟨x, hx, y, hy, hk, hr⟩ := pair_has (MolNodes.init L).aAnnAAnnR _ (fun x => pyRange (L / 2 + 1) (x))
    (fun x y => pyRange (L / 2 + 1) (y + 1)) (fun _ _ => (2 : Int)) (aAnnAAnnR_spec L) key k h
  exact ⟨x, y, hk, (mem_pyRange.1 hx).1, (mem_pyRange.1 hx).2, (mem_pyRange.1 hy).1, (mem_pyRange.1 hy).2,
    (mem_pyRange.1 hr).1, (mem_pyRange.1 hr).2⟩

theorem t8_g2 (L x y k : Int) (h0 : L / 2 + 1 ≤ x) (h1 : x < L) (h2 : L / 2 + 1 ≤ y) (h3 : y < x)
    (h4 : L / 2 + 1 ≤ k) (h5 : k < y + 1) :
    ∃ nd, (tableAt (MolNodes.init L) 8).get2 [x, y] k = .ok nd :=
  pair_get2 (MolNodes.init L).aAnnAAnnR _ (fun x => pyRange (L / 2 + 1) (x)) (fun x y => pyRange (L / 2 + 1) (y + 1))
    (fun _ _ => (2 : Int)) (aAnnAAnnR_spec L) x y k (mem_pyRange.2 ⟨h0, h1⟩) (mem_pyRange.2 ⟨h2, h3⟩) (mem_pyRange.2 ⟨h4, h5⟩)

theorem aDagAAnnR_spec (L : Int) : famKeys (MolNodes.init L).aDagAAnnR = specKeys ((pyRange (L / 2 + 1) (L)).flatMap fun x => (pyRange (L / 2 + 1) (L)).map fun y => ([x, y], pyRange (L / 2 + 1) (min x y + 1), (0 : Int))) := by
  show famKeys ((mkFams (molSpecs L) (idCount L)).1.getD 9 []) = _
  exact mkFams_keys _ _ 9

theorem t9_has (L : Int) (key : List Int) (k : Int) (h : famHas (tableAt (MolNodes.init L) 9) key k = true) :
    ∃ x y, key = [x, y] ∧ L / 2 + 1 ≤ x ∧ x < L ∧ L / 2 + 1 ≤ y ∧ y < L ∧ L / 2 + 1 ≤ k ∧ k < min x y + 1 := by
  obtain ⟨x, hx, y, hy, hk, hr⟩ := pair_has (MolNodes.init L).aDagAAnnR _ (fun x => pyRange (L / 2 + 1) (L))
    (fun x y => pyRange (L / 2 + 1) (min x y + 1)) (fun _ _ => (0 : Int)) (aDagAAnnR_spec L) key k h
  exact ⟨x, y, hk, (mem_pyRange.1 hx).1, (mem_pyRange.1 hx).2, (mem_pyRange.1 hy).1, (mem_pyRange.1 hy).2,
    (mem_pyRange.1 hr).1, (mem_pyRange.1 hr).2⟩

theorem t9_g2 (L x y k : Int) (h0 : L / 2 + 1 ≤ x) (h1 : x < L) (h2 : L / 2 + 1 ≤ y) (h3 : y < L)
    (h4 : L / 2 + 1 ≤ k) (h5 : k < min x y + 1) :
    ∃ nd, (tableAt (MolNodes.init L) 9).get2 [x, y] k = .ok nd :=
  pair_get2 (MolNodes.init L).aDagAAnnR _ (fun x => pyRange (L / 2 + 1) (L)) (fun x y => pyRange (L / 2 + 1) (min x y + 1))
    (fun _ _ => (0 : Int)) (aDagAAnnR_spec L) x y k (mem_pyRange.2 ⟨h0, h1⟩) (mem_pyRange.2 ⟨h2, h3⟩) (mem_pyRange.2 ⟨h4, h5⟩)

end Ptn.Ham.Gauge

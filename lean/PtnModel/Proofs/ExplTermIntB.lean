import PtnModel.Proofs.ExplTermIntA
/-!
# Explicit molecular graph, part 7: the interaction terms, all 13 relative orders of `i < j`, `k < l`
-/
set_option linter.unusedSectionVars false
set_option linter.unusedSimpArgs false
set_option linter.unusedVariables false
set_option linter.unusedTactic false
set_option linter.unreachableTactic false

namespace Ptn.Ham
open Ptn.Og List Ptn.Ham2

theorem int_tspec_c8 (L : Int) (hL : 4 ≤ L) (i j l : Int) (p0 : 0 ≤ i) (h0 : i < l) (h1 : l < j) (hl : j < L) :
    Tspec L (intF i.toNat j.toNat i.toNat l.toNat) (intLab L i j i l) := by
  int_sort
  int_fin

theorem int_tspec_c9 (L : Int) (hL : 4 ≤ L) (i j k l : Int) (p0 : 0 ≤ k) (h0 : k < i) (h1 : i < j) (h2 : j < l) (hl : l < L) :
    Tspec L (intF i.toNat j.toNat k.toNat l.toNat) (intLab L i j k l) := by
  int_sort
  int_fin

theorem int_tspec_c10 (L : Int) (hL : 4 ≤ L) (i j k : Int) (p0 : 0 ≤ k) (h0 : k < i) (h1 : i < j) (hl : j < L) :
    Tspec L (intF i.toNat j.toNat k.toNat j.toNat) (intLab L i j k j) := by
  int_sort
  int_fin

theorem int_tspec_c11 (L : Int) (hL : 4 ≤ L) (i j k l : Int) (p0 : 0 ≤ k) (h0 : k < i) (h1 : i < l) (h2 : l < j) (hl : j < L) :
    Tspec L (intF i.toNat j.toNat k.toNat l.toNat) (intLab L i j k l) := by
  int_sort
  int_fin

theorem int_tspec_c12 (L : Int) (hL : 4 ≤ L) (i j k : Int) (p0 : 0 ≤ k) (h0 : k < i) (h1 : i < j) (hl : j < L) :
    Tspec L (intF i.toNat j.toNat k.toNat i.toNat) (intLab L i j k i) := by
  int_sort
  int_fin

theorem int_tspec_c13 (L : Int) (hL : 4 ≤ L) (i j k l : Int) (p0 : 0 ≤ k) (h0 : k < l) (h1 : l < i) (h2 : i < j) (hl : j < L) :
    Tspec L (intF i.toNat j.toNat k.toNat l.toNat) (intLab L i j k l) := by
  int_sort
  int_fin

/-- **every interaction term**: its edge crosses from the left to the right forest and spells the word of `a†_i a†_j a_l a_k` -/
theorem int_tspec (L : Int) (hL : 4 ≤ L) (i j k l : Int) (hi : 0 ≤ i) (hij : i < j) (hjL : j < L) (hk : 0 ≤ k) (hkl : k < l)
    (hlL : l < L) : Tspec L (intF i.toNat j.toNat k.toNat l.toNat) (intLab L i j k l) := by
  rcases Int.lt_trichotomy i k with h1 | h1 | h1
  · rcases Int.lt_trichotomy j k with h2 | h2 | h2
    · exact int_tspec_c1 L hL i j k l hi hij h2 hkl hlL
    · subst h2; exact int_tspec_c2 L hL i j l hi hij hkl hlL
    · rcases Int.lt_trichotomy j l with h3 | h3 | h3
      · exact int_tspec_c3 L hL i j k l hi h1 h2 h3 hlL
      · subst h3; exact int_tspec_c4 L hL i j k hi h1 h2 hjL
      · exact int_tspec_c5 L hL i j k l hi h1 hkl h3 hjL
  · subst h1
    rcases Int.lt_trichotomy j l with h3 | h3 | h3
    · exact int_tspec_c6 L hL i j l hi hij h3 hlL
    · subst h3; exact int_tspec_c7 L hL i j hi hij hjL
    · exact int_tspec_c8 L hL i j l hi hkl h3 hjL
  · rcases Int.lt_trichotomy i l with h2 | h2 | h2
    · rcases Int.lt_trichotomy j l with h3 | h3 | h3
      · exact int_tspec_c9 L hL i j k l hk h1 hij h3 hlL
      · subst h3; exact int_tspec_c10 L hL i j k hk h1 hij hjL
      · exact int_tspec_c11 L hL i j k l hk h1 h2 h3 hjL
    · subst h2; exact int_tspec_c12 L hL i j k hk h1 hij hjL
    · exact int_tspec_c13 L hL i j k l hk hkl h2 hij hjL

end Ptn.Ham

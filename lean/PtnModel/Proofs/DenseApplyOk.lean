import PtnModel.Proofs.DenseApply
import PtnModel.Proofs.DenseMulOk
/-!
# `apply_operator` returns (no exception) on block-sparse operands with dummy boundary bonds
-/
namespace Ptn.Op
open Finset Dense
variable {R : Type} [CommRing R] [DecidableEq R]

theorem sparse_appT (W : T4 R) (P : T3 R) (qd qa0 qb0 qa1 qb1 : List Int) (h1 : W.d1 = P.d0)
    (w2 : W.d2 = qa0.length) (w3 : W.d3 = qb0.length) (p1 : P.d1 = qa1.length) (p2 : P.d2 = qb1.length)
    (hW : QN.isSparseT4 W qd qa0 qb0 = true) (hP : QN.isSparseT3 P qd qa1 qb1 = true) :
    QN.isSparseT3 (appT W P).tab qd (QN.flatten2 qa0 qa1) (QN.flatten2 qb0 qb1) = true := by
  rw [MPO.isSparseT4_iff] at hW
  rw [MPS.isSparseT3_iff] at hP ⊢
  intro i hi k hk l hl
  rw [T3.tab_f (appT W P) hi hk hl]
  simp only [T3.tab_d0, T3.tab_d1, T3.tab_d2, appT] at hi hk hl ⊢
  rw [flatten2_getD _ _ k (by rw [← w2, ← p1]; exact hk), flatten2_getD _ _ l (by rw [← w3, ← p2]; exact hl),
    ← p1, ← p2]
  by_cases hq : qd.getD i 0 + (qa0.getD (k / P.d1) 0 + qa1.getD (k % P.d1) 0) -
      (qb0.getD (l / P.d2) 0 + qb1.getD (l % P.d2) 0) = 0
  · exact Or.inl hq
  · right
    rw [sumRange_eq]
    apply sum_eq_zero
    intro u hu
    have hu := mem_range.1 hu
    rcases hW i hi u hu (k / P.d1) (div_lt_of_lt_mul' hk) (l / P.d2) (div_lt_of_lt_mul' hl) with hx | hx
    · rcases hP u (by omega) (k % P.d1) (mod_lt_of_lt_mul' hk) (l % P.d2) (mod_lt_of_lt_mul' hl) with hy | hy
      · exact absurd (by omega) hq
      · rw [hy, mul_zero]
    · rw [hx, zero_mul]

theorem head?_map_range_succ {β : Type} (f : Nat → β) (n : Nat) : ((List.range (n + 1)).map f).head? = some (f 0) := by
  simp [List.range_succ_eq_map]

theorem getLast?_map_range_succ {β : Type} (f : Nat → β) (n : Nat) :
    ((List.range (n + 1)).map f).getLast? = some (f n) := by
  simp [List.range_succ]

/-- `apply_operator` returns on well-formed operands with the same physical charges, the same number of sites and
dummy (dimension 1) boundary bonds. -/
theorem apply_ok (o : MPO R) (ψ : MPS R) (w0 : o.wellFormed = true) (w1 : ψ.wellFormed = true)
    (hqd : ψ.qd = o.qd) (hlen : ψ.A.length = o.A.length)
    (ho0 : (o.qD.getD 0 []).length = 1) (hp0 : (ψ.qD.getD 0 []).length = 1)
    (hoL : (o.qD.getD ψ.A.length []).length = 1) (hpL : (ψ.qD.getD ψ.A.length []).length = 1) :
    ∃ r, applyOperator o ψ = .ok r := by
  obtain ⟨l0, s0⟩ := (MPO.wellFormed_iff o).1 w0
  obtain ⟨l1, s1⟩ := (MPS.wellFormed_iff ψ).1 w1
  have hlenb : (ψ.A.length == o.A.length) = true := beq_iff_eq.2 hlen
  have hqdb : (ψ.qd == o.qd) = true := beq_iff_eq.2 hqd
  unfold applyOperator
  simp only [pyAssert_bind, hlenb, hqdb, true_and, head?_map_range_succ, getLast?_map_range_succ, Option.map_some,
    flatten2_length, ho0, hp0, hoL, hpL, Nat.mul_one, beq_self_eq_true, Bool.and_self]
  simp only [bind_ok, pure_ok]
  rw [exists_comm]
  simp only [exists_and_left, exists_eq', and_true]
  apply forIn_append_ok
  · intro i hi acc
    have hi := List.mem_range.1 hi
    obtain ⟨W, hW⟩ : ∃ W, o.A[i]? = some W := ⟨_, List.getElem?_eq_getElem (hlen ▸ hi)⟩
    obtain ⟨P, hP⟩ : ∃ P, ψ.A[i]? = some P := ⟨_, List.getElem?_eq_getElem hi⟩
    obtain ⟨x0, x1, x2, x3, xs⟩ := s0 i W hW
    obtain ⟨y0, y1, y2, ys⟩ := s1 i P hP
    have e : W.d1 = P.d0 := by rw [x1, y0, hqd]
    rw [hqd] at ys
    have sp := sparse_appT W P o.qd _ _ _ _ e x2 x3 y1 y2 xs ys
    simp only [hW, hP]
    rw [MPS.getD_map_range _ _ i (by omega), MPS.getD_map_range _ _ (i + 1) (by omega)]
    rw [if_neg (not_not.2 e)]
    refine ⟨(appT W P).tab, ?_⟩
    have sp' : QN.isSparseT3 (⟨W.d0, W.d2 * P.d1, W.d3 * P.d2, fun s' x y =>
        sumRange W.d1 fun s => W.f s' s (x / P.d1) (y / P.d2) * P.f s (x % P.d1) (y % P.d2)⟩ : T3 R).tab ψ.qd
        (QN.flatten2 (o.qD.getD i []) (ψ.qD.getD i []))
        (QN.flatten2 (o.qD.getD (i + 1) []) (ψ.qD.getD (i + 1) [])) = true := by rw [hqd]; exact sp
    rw [sp']
    rfl

end Ptn.Op

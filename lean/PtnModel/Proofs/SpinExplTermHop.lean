import PtnModel.Proofs.SpinExplDefs
import PtnModel.Proofs.ExplTermSpec
/-!
# Explicit spin-orbital molecular graph: label-level evaluation of the hopping terms

`stermE L (sortTrips [(i, σ, C), (j, σ, A)])` (the mirror of `_spin_molecular_hamiltonian_graph_add_term` on the sorted operator list of
`t_ij a†_{iσ} a_{jσ}`) is evaluated for every `L ≥ 2`: it is one edge from a left-forest node to a right-forest node (`shop_ok`) whose
crossing word is the pair word of the Jordan-Wigner hopping word on the `2 L` modes (`shop_word`).
-/
set_option linter.unusedSectionVars false
set_option linter.unusedSimpArgs false
set_option linter.unusedVariables false
set_option linter.unusedTactic false
set_option linter.unreachableTactic false

namespace Ptn.Ham
open Ptn.Og List Ptn.Ham2

theorem insertTrip_nil (x : Int × Int × Int) : insertTrip x [] = [x] := rfl

theorem insertTrip_le (a b c d e f : Int) (ys : List (Int × Int × Int))
    (h : a < d ∨ (a = d ∧ (b < e ∨ (b = e ∧ c ≤ f)))) :
    insertTrip (a, b, c) ((d, e, f) :: ys) = (a, b, c) :: (d, e, f) :: ys := by
  have : tripLe (a, b, c) (d, e, f) = true := by
    simp only [tripLe, Bool.or_eq_true, Bool.and_eq_true, decide_eq_true_eq, beq_iff_eq]
    omega
  simp only [insertTrip, this, if_true]

theorem insertTrip_gt (a b c d e f : Int) (ys : List (Int × Int × Int))
    (h : d < a ∨ (d = a ∧ (e < b ∨ (e = b ∧ f < c)))) :
    insertTrip (a, b, c) ((d, e, f) :: ys) = (d, e, f) :: insertTrip (a, b, c) ys := by
  have : tripLe (a, b, c) (d, e, f) = false := by
    rw [← Bool.not_eq_true]
    simp only [tripLe, Bool.or_eq_true, Bool.and_eq_true, decide_eq_true_eq, beq_iff_eq]
    omega
  simp only [insertTrip, this, Bool.false_eq_true, if_false]

theorem sxh_so1 : toSpinOperator [((0 : Int), (-1 : Int))] false true = .ok 9 := rfl
theorem sxh_so2 : toSpinOperator [((1 : Int), (-1 : Int))] false true = .ok 20 := rfl
theorem sxh_so3 : toSpinOperator [((0 : Int), (1 : Int))] true false = .ok 8 := rfl
theorem sxh_so4 : toSpinOperator [((1 : Int), (1 : Int))] true false = .ok 1 := rfl
theorem sxh_so5 : toSpinOperator [((0 : Int), (-1 : Int)), ((0 : Int), (1 : Int))] true true = .ok 14 := rfl
theorem sxh_so6 : toSpinOperator [((1 : Int), (-1 : Int)), ((1 : Int), (1 : Int))] true true = .ok 3 := rfl
theorem sxh_so7 : toSpinOperator [((0 : Int), (1 : Int))] false true = .ok 4 := rfl
theorem sxh_so8 : toSpinOperator [((1 : Int), (1 : Int))] false true = .ok 19 := rfl
theorem sxh_so9 : toSpinOperator [((0 : Int), (-1 : Int))] true false = .ok 13 := rfl
theorem sxh_so10 : toSpinOperator [((1 : Int), (-1 : Int))] true false = .ok 2 := rfl

theorem sxh_gl1 (i s k : Int) (l : Bool) : sgetLabE [(i, s, (1 : Int))] l k = .ok (if l then 0 else 5, [i, s], k) := rfl
theorem sxh_gl2 (i s k : Int) (l : Bool) : sgetLabE [(i, s, (-1 : Int))] l k = .ok (if l then 1 else 6, [i, s], k) := rfl

macro "shop_eval" : tactic =>
  `(tactic| (simp (disch := omega) only [sortTrips, List.foldr, insertTrip_nil, insertTrip_le, insertTrip_gt, mC, mA] <;>
      simp (disch := omega) only [stermE, beq_iff_eq, if_pos, if_neg, decide_eq_true_eq, Bool.not_eq_true', decide_eq_false_iff_not,
        ge_iff_le, not_lt, not_le,
        sxh_so1, sxh_so2, sxh_so3, sxh_so4, sxh_so5, sxh_so6, sxh_so7, sxh_so8, sxh_so9, sxh_so10, sxh_gl1, sxh_gl2,
        Except.map, Except.bind, ite_true, ite_false, Bool.false_eq_true, ↓reduceIte, pick, sZZ, sAI, sZA, sCZ, sIC, sNI, sIN, sCI, sZC, sAZ, sIA]))


theorem shop_eval_ltA (L i j s : Int) (hs : s = 0 ∨ s = 1) (h : i < j) (c1 : j ≤ L / 2) :
    stermE L (sortTrips [(i, s, mC), (j, s, mA)]) = .ok ((0, [i, s], j), (11, [], j + 1), pick sAI sZA s) := by
  rcases hs with rfl | rfl <;> shop_eval

theorem shop_eval_ltB (L i j s : Int) (hs : s = 0 ∨ s = 1) (h : i < j) (c1 : ¬ j ≤ L / 2) (c2 : i ≥ L / 2) :
    stermE L (sortTrips [(i, s, mC), (j, s, mA)]) = .ok ((10, [], i), (6, [j, s], i + 1), pick sCZ sIC s) := by
  rcases hs with rfl | rfl <;> shop_eval

theorem shop_eval_ltC (L i j s : Int) (hs : s = 0 ∨ s = 1) (h : i < j) (c1 : ¬ j ≤ L / 2) (c2 : ¬ i ≥ L / 2) :
    stermE L (sortTrips [(i, s, mC), (j, s, mA)]) = .ok ((0, [i, s], L / 2), (6, [j, s], L / 2 + 1), sZZ) := by
  rcases hs with rfl | rfl <;> shop_eval

theorem shop_eval_eq (L i s : Int) (hs : s = 0 ∨ s = 1) :
    stermE L (sortTrips [(i, s, mC), (i, s, mA)]) = .ok ((10, [], i), (11, [], i + 1), pick sNI sIN s) := by
  rcases hs with rfl | rfl <;> shop_eval

theorem shop_eval_gtA (L i j s : Int) (hs : s = 0 ∨ s = 1) (h : j < i) (c1 : i ≤ L / 2) :
    stermE L (sortTrips [(i, s, mC), (j, s, mA)]) = .ok ((1, [j, s], i), (11, [], i + 1), pick sCI sZC s) := by
  rcases hs with rfl | rfl <;> shop_eval

theorem shop_eval_gtB (L i j s : Int) (hs : s = 0 ∨ s = 1) (h : j < i) (c1 : ¬ i ≤ L / 2) (c2 : j ≥ L / 2) :
    stermE L (sortTrips [(i, s, mC), (j, s, mA)]) = .ok ((10, [], j), (5, [i, s], j + 1), pick sAZ sIA s) := by
  rcases hs with rfl | rfl <;> shop_eval

theorem shop_eval_gtC (L i j s : Int) (hs : s = 0 ∨ s = 1) (h : j < i) (c1 : ¬ i ≤ L / 2) (c2 : ¬ j ≥ L / 2) :
    stermE L (sortTrips [(i, s, mC), (j, s, mA)]) = .ok ((1, [j, s], L / 2), (5, [i, s], L / 2 + 1), sZZ) := by
  rcases hs with rfl | rfl <;> shop_eval

macro "shop_sok_tac" : tactic =>
  `(tactic| (refine ⟨?_, ?_, rfl, ?_, ?_, ?_, ?_⟩ <;>
      first
      | (show _ ∧ _; omega)
      | (dsimp only; omega)
      | (unfold isSpinOid; dsimp only; decide)
      | rfl))

theorem shop_sok_ltA (L i j s : Int) (hi : 0 ≤ i) (hjL : j < L) (hs : s = 0 ∨ s = 1) (h : i < j) (c1 : j ≤ L / 2) :
    SOk L ((0, [i, s], j), (11, [], j + 1), pick sAI sZA s) := by
  rcases hs with rfl | rfl <;> shop_sok_tac

theorem shop_sok_ltB (L i j s : Int) (hi : 0 ≤ i) (hjL : j < L) (hs : s = 0 ∨ s = 1) (h : i < j) (c2 : i ≥ L / 2) :
    SOk L ((10, [], i), (6, [j, s], i + 1), pick sCZ sIC s) := by
  rcases hs with rfl | rfl <;> shop_sok_tac

theorem shop_sok_ltC (L i j s : Int) (hL : 2 ≤ L) (hi : 0 ≤ i) (hjL : j < L) (hs : s = 0 ∨ s = 1) (h : i < j)
    (c1 : ¬ j ≤ L / 2) (c2 : ¬ i ≥ L / 2) :
    SOk L ((0, [i, s], L / 2), (6, [j, s], L / 2 + 1), sZZ) := by
  rcases hs with rfl | rfl <;> shop_sok_tac

theorem shop_sok_eq (L i s : Int) (hi : 0 ≤ i) (hiL : i < L) (hs : s = 0 ∨ s = 1) :
    SOk L ((10, [], i), (11, [], i + 1), pick sNI sIN s) := by
  rcases hs with rfl | rfl <;> shop_sok_tac

theorem shop_sok_gtA (L i j s : Int) (hj : 0 ≤ j) (hiL : i < L) (hs : s = 0 ∨ s = 1) (h : j < i) (c1 : i ≤ L / 2) :
    SOk L ((1, [j, s], i), (11, [], i + 1), pick sCI sZC s) := by
  rcases hs with rfl | rfl <;> shop_sok_tac

theorem shop_sok_gtB (L i j s : Int) (hj : 0 ≤ j) (hiL : i < L) (hs : s = 0 ∨ s = 1) (h : j < i) (c2 : j ≥ L / 2) :
    SOk L ((10, [], j), (5, [i, s], j + 1), pick sAZ sIA s) := by
  rcases hs with rfl | rfl <;> shop_sok_tac

theorem shop_sok_gtC (L i j s : Int) (hL : 2 ≤ L) (hj : 0 ≤ j) (hiL : i < L) (hs : s = 0 ∨ s = 1) (h : j < i)
    (c1 : ¬ i ≤ L / 2) (c2 : ¬ j ≥ L / 2) :
    SOk L ((1, [j, s], L / 2), (5, [i, s], L / 2 + 1), sZZ) := by
  rcases hs with rfl | rfl <;> shop_sok_tac

/-- the hopping term `a†_{iσ} a_{jσ}` is inserted as one edge from a left-forest node to a right-forest node one layer apart, inside
the index ranges of the tables, charge consistent -/
theorem shop_ok (L : Int) (hL : 2 ≤ L) (i j s : Int) (hi : 0 ≤ i) (hiL : i < L) (hj : 0 ≤ j) (hjL : j < L) (hs : s = 0 ∨ s = 1) :
    ∃ x, stermE L (sortTrips [(i, s, mC), (j, s, mA)]) = .ok x ∧ SOk L x ∧ isLeft x.1 = true ∧ isLeft x.2.1 = false := by
  rcases Int.lt_trichotomy i j with h | h | h
  · by_cases c1 : j ≤ L / 2
    · exact ⟨_, shop_eval_ltA L i j s hs h c1, shop_sok_ltA L i j s hi hjL hs h c1, rfl, rfl⟩
    · by_cases c2 : i ≥ L / 2
      · exact ⟨_, shop_eval_ltB L i j s hs h c1 c2, shop_sok_ltB L i j s hi hjL hs h c2, rfl, rfl⟩
      · exact ⟨_, shop_eval_ltC L i j s hs h c1 c2, shop_sok_ltC L i j s hL hi hjL hs h c1 c2, rfl, rfl⟩
  · subst h
    exact ⟨_, shop_eval_eq L i s hs, shop_sok_eq L i s hi hiL hs, rfl, rfl⟩
  · by_cases c1 : i ≤ L / 2
    · exact ⟨_, shop_eval_gtA L i j s hs h c1, shop_sok_gtA L i j s hj hiL hs h c1, rfl, rfl⟩
    · by_cases c2 : j ≥ L / 2
      · exact ⟨_, shop_eval_gtB L i j s hs h c1 c2, shop_sok_gtB L i j s hj hiL hs h c2, rfl, rfl⟩
      · exact ⟨_, shop_eval_gtC L i j s hs h c1 c2, shop_sok_gtC L i j s hL hj hiL hs h c1 c2, rfl, rfl⟩

theorem shopLab_eq (L : Int) (hL : 2 ≤ L) (i j s : Int) (hi : 0 ≤ i) (hiL : i < L) (hj : 0 ≤ j) (hjL : j < L) (hs : s = 0 ∨ s = 1) :
    stermE L (sortTrips [(i, s, mC), (j, s, mA)]) = .ok (shopLab L i j s) := by
  obtain ⟨x, hx, -⟩ := shop_ok L hL i j s hi hiL hj hjL hs
  have : shopLab L i j s = x := by unfold shopLab; rw [hx]; rfl
  rw [this, hx]

theorem shopLab_ok (L : Int) (hL : 2 ≤ L) (i j s : Int) (hi : 0 ≤ i) (hiL : i < L) (hj : 0 ≤ j) (hjL : j < L) (hs : s = 0 ∨ s = 1) :
    SOk L (shopLab L i j s) ∧ isLeft (shopLab L i j s).1 = true ∧ isLeft (shopLab L i j s).2.1 = false := by
  obtain ⟨x, hx, h⟩ := shop_ok L hL i j s hi hiL hj hjL hs
  have : shopLab L i j s = x := by unfold shopLab; rw [hx]; rfl
  rw [this]
  exact h

macro "shop_stw_tac" : tactic =>
  `(tactic| (refine ⟨?_, ?_, ?_⟩ <;>
      (try intro p hp1) <;> (try intro hp2) <;>
      (try dsimp only at *) <;>
      (try simp only [md]) <;>
      (try simp (disch := omega) only [mletOf, modeLab, letOf, md, hopF, if_pos, if_neg]) <;>
      (try split_ifs) <;>
      first | rfl | omega | decide))

theorem shop_stw_ltA (L i j s : Int) (hi : 0 ≤ i) (hjL : j < L) (hs : s = 0 ∨ s = 1) (h : i < j) (c1 : j ≤ L / 2) :
    STw L (hopF (md i s).toNat (md j s).toNat) ((0, [i, s], j), (11, [], j + 1), pick sAI sZA s) := by
  rcases hs with rfl | rfl <;> shop_stw_tac

theorem shop_stw_ltB (L i j s : Int) (hi : 0 ≤ i) (hjL : j < L) (hs : s = 0 ∨ s = 1) (h : i < j) (c2 : i ≥ L / 2) :
    STw L (hopF (md i s).toNat (md j s).toNat) ((10, [], i), (6, [j, s], i + 1), pick sCZ sIC s) := by
  rcases hs with rfl | rfl <;> shop_stw_tac

theorem shop_stw_ltC (L i j s : Int) (hL : 2 ≤ L) (hi : 0 ≤ i) (hjL : j < L) (hs : s = 0 ∨ s = 1) (h : i < j)
    (c1 : ¬ j ≤ L / 2) (c2 : ¬ i ≥ L / 2) :
    STw L (hopF (md i s).toNat (md j s).toNat) ((0, [i, s], L / 2), (6, [j, s], L / 2 + 1), sZZ) := by
  rcases hs with rfl | rfl <;> shop_stw_tac

theorem shop_stw_eq (L i s : Int) (hi : 0 ≤ i) (hiL : i < L) (hs : s = 0 ∨ s = 1) :
    STw L (hopF (md i s).toNat (md i s).toNat) ((10, [], i), (11, [], i + 1), pick sNI sIN s) := by
  rcases hs with rfl | rfl <;> shop_stw_tac

theorem shop_stw_gtA (L i j s : Int) (hj : 0 ≤ j) (hiL : i < L) (hs : s = 0 ∨ s = 1) (h : j < i) (c1 : i ≤ L / 2) :
    STw L (hopF (md i s).toNat (md j s).toNat) ((1, [j, s], i), (11, [], i + 1), pick sCI sZC s) := by
  rcases hs with rfl | rfl <;> shop_stw_tac

theorem shop_stw_gtB (L i j s : Int) (hj : 0 ≤ j) (hiL : i < L) (hs : s = 0 ∨ s = 1) (h : j < i) (c2 : j ≥ L / 2) :
    STw L (hopF (md i s).toNat (md j s).toNat) ((10, [], j), (5, [i, s], j + 1), pick sAZ sIA s) := by
  rcases hs with rfl | rfl <;> shop_stw_tac

theorem shop_stw_gtC (L i j s : Int) (hL : 2 ≤ L) (hj : 0 ≤ j) (hiL : i < L) (hs : s = 0 ∨ s = 1) (h : j < i)
    (c1 : ¬ i ≤ L / 2) (c2 : ¬ j ≥ L / 2) :
    STw L (hopF (md i s).toNat (md j s).toNat) ((1, [j, s], L / 2), (5, [i, s], L / 2 + 1), sZZ) := by
  rcases hs with rfl | rfl <;> shop_stw_tac

/-- the crossing word of the edge of the hopping term `a†_{iσ} a_{jσ}` is the pair word of the Jordan-Wigner hopping word of the modes
`2 i + σ`, `2 j + σ` on the `2 L` modes -/
theorem shop_word (L : Int) (hL : 2 ≤ L) (i j s : Int) (hi : 0 ≤ i) (hiL : i < L) (hj : 0 ≤ j) (hjL : j < L) (hs : s = 0 ∨ s = 1) :
    ∃ x, stermE L (sortTrips [(i, s, mC), (j, s, mA)]) = .ok x ∧ STw L (hopF (md i s).toNat (md j s).toNat) x := by
  rcases Int.lt_trichotomy i j with h | h | h
  · by_cases c1 : j ≤ L / 2
    · exact ⟨_, shop_eval_ltA L i j s hs h c1, shop_stw_ltA L i j s hi hjL hs h c1⟩
    · by_cases c2 : i ≥ L / 2
      · exact ⟨_, shop_eval_ltB L i j s hs h c1 c2, shop_stw_ltB L i j s hi hjL hs h c2⟩
      · exact ⟨_, shop_eval_ltC L i j s hs h c1 c2, shop_stw_ltC L i j s hL hi hjL hs h c1 c2⟩
  · subst h
    exact ⟨_, shop_eval_eq L i s hs, shop_stw_eq L i s hi hiL hs⟩
  · by_cases c1 : i ≤ L / 2
    · exact ⟨_, shop_eval_gtA L i j s hs h c1, shop_stw_gtA L i j s hj hiL hs h c1⟩
    · by_cases c2 : j ≥ L / 2
      · exact ⟨_, shop_eval_gtB L i j s hs h c1 c2, shop_stw_gtB L i j s hj hiL hs h c2⟩
      · exact ⟨_, shop_eval_gtC L i j s hs h c1 c2, shop_stw_gtC L i j s hL hj hiL hs h c1 c2⟩

theorem shopLab_word (L : Int) (hL : 2 ≤ L) (i j s : Int) (hi : 0 ≤ i) (hiL : i < L) (hj : 0 ≤ j) (hjL : j < L)
    (hs : s = 0 ∨ s = 1) : STw L (hopF (md i s).toNat (md j s).toNat) (shopLab L i j s) := by
  obtain ⟨x, hx, h⟩ := shop_word L hL i j s hi hiL hj hjL hs
  have : shopLab L i j s = x := by unfold shopLab; rw [hx]; rfl
  rw [this]
  exact h

/-- non-vacuity: a concrete hopping term (`L = 4`, `a†_{0↑} a_{3↑}`) -/
example : stermE 4 (sortTrips [(0, 0, mC), (3, 0, mA)]) = .ok ((0, [0, 0], 2), (6, [3, 0], 3), 22) := by decide

end Ptn.Ham

import PtnModel.Proofs.DenseMerge
import PtnModel.Proofs.MatBasic
/-!
# `MPS.from_vector` with an exact (zero tolerance) SVD step reproduces the vector

`StepExact k tol M`: the truncated SVD factors computed from `M` in one loop iteration multiply back to `M`.
Invariant of the loop: contracting the produced tensors with any row vector `w` and then with the remainder `vend`
equals contracting `w` with the current remainder matrix `v`.
-/
namespace Ptn.MPS
open Finset Dense BondOps

set_option linter.unusedSectionVars false

variable {R ρ : Type} [CommRing R]
  [RealLike ρ R] [OfNat ρ 0] [Add ρ] [Mul ρ] [Div ρ] [LT ρ] [DecidableEq ρ] [DecidableLT ρ]

/-- the matrix handed to the SVD kernel in one iteration (before memoisation): `v.reshape((Dleft*d, d**rem))` -/
def fvM (d rem : Nat) (v : Mat R) : Mat R :=
  ⟨v.m * d, ipow d rem, fun r c => v.f (r / d) ((r % d) * ipow d rem + c)⟩

/-- retained indices of one iteration -/
def fvIdx (k : SvdKernels R ρ) (d rem : Nat) (v : Mat R) (tol : ρ) : List Nat :=
  fvKeep (retainedBondIndices k.dnorm k.dargsort (k.dsvd (fvM d rem v).tab).2.1 tol) (k.dsvd (fvM d rem v).tab).2.1

/-- the tensor appended in one iteration -/
def fvA (k : SvdKernels R ρ) (d rem : Nat) (v : Mat R) (tol : ρ) : T3 R :=
  let u := ((k.dsvd (fvM d rem v).tab).1.selectCols (fvIdx k d rem v tol)).tab
  (⟨d, v.m, (fvIdx k d rem v tol).length, fun sp a p => u.f (a * d + sp) p⟩ : T3 R).tab

/-- the remainder matrix passed to the next iteration -/
def fvV (k : SvdKernels R ρ) (d rem : Nat) (v : Mat R) (tol : ρ) : Mat R :=
  let r := k.dsvd (fvM d rem v).tab
  let idx := fvIdx k d rem v tol
  let vv := (r.2.2.selectRows idx).tab
  let sa := r.2.1.toArray
  let sk := (idx.map fun i => sa.getD i 0).toArray
  (⟨vv.m, vv.n, fun p c => vv.f p c * RealLike.ofReal (sk.getD p 0)⟩ : Mat R).tab

theorem fromVectorLoop_succ (k : SvdKernels R ρ) (d rem : Nat) (v : Mat R) (tol : ρ) :
    fromVectorLoop k d (rem + 1) v tol = (do
      pyAssert (v.n == ipow d (rem + 1))
      let (As, vend) ← fromVectorLoop k d rem (fvV k d rem v tol) tol
      return (fvA k d rem v tol :: As, vend)) := rfl

/-- the matrices handed to the SVD kernel during the loop -/
def fvMats (k : SvdKernels R ρ) (d : Nat) : Nat → Mat R → ρ → List (Mat R)
  | 0, _, _ => []
  | rem + 1, v, tol => (fvM d rem v).tab :: fvMats k d rem (fvV k d rem v tol) tol

/-- one SVD step is exact: shapes of the kernel output and `U[:, idx] · diag(s[idx]) · V[idx, :] = M` -/
def StepExact (k : SvdKernels R ρ) (tol : ρ) (M : Mat R) : Prop :=
  (0 < M.m → 0 < M.n → (k.dsvd M).1.m = M.m ∧ (k.dsvd M).2.2.n = M.n) ∧
  ∀ i < M.m, ∀ j < M.n,
    ∑ p ∈ range (fvKeep (retainedBondIndices k.dnorm k.dargsort (k.dsvd M).2.1 tol) (k.dsvd M).2.1).length,
      (k.dsvd M).1.f i ((fvKeep (retainedBondIndices k.dnorm k.dargsort (k.dsvd M).2.1 tol) (k.dsvd M).2.1).getD p 0) *
      RealLike.ofReal ((k.dsvd M).2.1.getD
        ((fvKeep (retainedBondIndices k.dnorm k.dargsort (k.dsvd M).2.1 tol) (k.dsvd M).2.1).getD p 0) 0) *
      (k.dsvd M).2.2.f ((fvKeep (retainedBondIndices k.dnorm k.dargsort (k.dsvd M).2.1 tol) (k.dsvd M).2.1).getD p 0) j
        = M.f i j

theorem ipow_eq (d : Nat) : ∀ n, ipow d n = d ^ n
  | 0 => rfl
  | n + 1 => by rw [ipow, ipow_eq d n, pow_succ, Nat.mul_comm]

theorem flatFrom_eq (d : Nat) : ∀ (ss : List Nat) (acc : Nat), flatFrom d acc ss = acc * d ^ ss.length + flat d ss
  | [], acc => by simp [flatFrom_nil, flat]
  | s :: ss, acc => by
      rw [flatFrom_cons, flat_cons, flatFrom_eq d ss (acc * d + s), flatFrom_eq d ss s, List.length_cons, pow_succ]
      ring

theorem flat_lt {d n : Nat} {ss : List Nat} (h : Digits d n ss) : flat d ss < d ^ n := by
  have := flatFrom_lt d n ss 1 0 (by omega) h
  simpa [flat] using this

@[simp] theorem fvA_d0 (k : SvdKernels R ρ) (d rem : Nat) (v : Mat R) (tol : ρ) : (fvA k d rem v tol).d0 = d := rfl
@[simp] theorem fvA_d1 (k : SvdKernels R ρ) (d rem : Nat) (v : Mat R) (tol : ρ) : (fvA k d rem v tol).d1 = v.m := rfl
@[simp] theorem fvA_d2 (k : SvdKernels R ρ) (d rem : Nat) (v : Mat R) (tol : ρ) :
    (fvA k d rem v tol).d2 = (fvIdx k d rem v tol).length := rfl
@[simp] theorem fvV_m (k : SvdKernels R ρ) (d rem : Nat) (v : Mat R) (tol : ρ) :
    (fvV k d rem v tol).m = (fvIdx k d rem v tol).length := rfl
@[simp] theorem fvV_n (k : SvdKernels R ρ) (d rem : Nat) (v : Mat R) (tol : ρ) :
    (fvV k d rem v tol).n = (k.dsvd (fvM d rem v).tab).2.2.n := rfl

theorem fvA_f (k : SvdKernels R ρ) (d rem : Nat) (v : Mat R) (tol : ρ) {s a p : Nat} (hs : s < d) (ha : a < v.m)
    (hp : p < (fvIdx k d rem v tol).length) (hu : (k.dsvd (fvM d rem v).tab).1.m = v.m * d) :
    (fvA k d rem v tol).f s a p = (k.dsvd (fvM d rem v).tab).1.f (a * d + s) ((fvIdx k d rem v tol).getD p 0) := by
  unfold fvA
  rw [T3.tab_f _ hs ha hp]
  simp only
  rw [Mat.tab_f _ (by rw [Mat.selectCols_m, hu]; exact fused_lt ha hs) (by simpa using hp),
    Mat.selectCols_f _ _ _ hp]

theorem fvV_f (k : SvdKernels R ρ) (d rem : Nat) (v : Mat R) (tol : ρ) {p c : Nat}
    (hp : p < (fvIdx k d rem v tol).length) (hc : c < (k.dsvd (fvM d rem v).tab).2.2.n) :
    (fvV k d rem v tol).f p c = (k.dsvd (fvM d rem v).tab).2.2.f ((fvIdx k d rem v tol).getD p 0) c *
      RealLike.ofReal ((k.dsvd (fvM d rem v).tab).2.1.getD ((fvIdx k d rem v tol).getD p 0) 0) := by
  unfold fvV
  rw [Mat.tab_f _ (by simpa using hp) (by simpa using hc)]
  simp only
  rw [Mat.tab_f _ (by simpa using hp) (by simpa using hc), Mat.selectRows_f _ _ _ hp]
  congr 2
  simp [List.getD_eq_getElem?_getD, hp]

/-- loop invariant of `from_vector` -/
theorem fromVectorLoop_row (k : SvdKernels R ρ) (d : Nat) (tol : ρ) : ∀ (rem : Nat) (v : Mat R) (As : List (T3 R))
    (vend : Mat R), fromVectorLoop k d rem v tol = .ok (As, vend) →
    (∀ M ∈ fvMats k d rem v tol, StepExact k tol M) →
    Chain d v.m As vend.m ∧ As.length = rem ∧
    ∀ (w : Nat → R) (ss : List Nat), Digits d rem ss →
      ∑ b ∈ range vend.m, ampRow As ss w b * vend.f b 0 = ∑ a ∈ range v.m, w a * v.f a (flat d ss)
  | 0, v, As, vend, h, _ => by
      simp only [fromVectorLoop, Except.ok.injEq, Prod.mk.injEq] at h
      obtain ⟨rfl, rfl⟩ := h
      refine ⟨rfl, rfl, ?_⟩
      intro w ss hss
      have : ss = [] := by simpa [Digits] using hss.1
      subst this
      simp [ampRow_nil, flat, flatFrom_nil]
  | rem + 1, v, As, vend, h, hM => by
      rw [fromVectorLoop_succ] at h
      simp only [pyAssert_bind] at h
      obtain ⟨_, h⟩ := h
      simp only [bind_ok, pure_ok] at h
      obtain ⟨⟨As', vend'⟩, hrec, h⟩ := h
      simp only [Prod.mk.injEq] at h
      obtain ⟨rfl, rfl⟩ := h
      have hstep : StepExact k tol (fvM d rem v).tab := hM _ (by simp [fvMats])
      have hM' : ∀ M ∈ fvMats k d rem (fvV k d rem v tol) tol, StepExact k tol M :=
        fun M hm => hM M (by simp [fvMats, hm])
      obtain ⟨ihc, ihl, ih⟩ := fromVectorLoop_row k d tol rem _ As' vend' hrec hM'
      refine ⟨⟨rfl, rfl, ihc⟩, by simp [ihl], ?_⟩
      intro w ss hss
      by_cases hpos : 0 < v.m ∧ 0 < d
      · obtain ⟨hvm, hd⟩ := hpos
        have hcols : 0 < ipow d rem := by rw [ipow_eq]; exact Nat.pow_pos hd
        obtain ⟨hu, hvv⟩ := hstep.1 (show 0 < (fvM d rem v).tab.m from Nat.mul_pos hvm hd)
          (show 0 < (fvM d rem v).tab.n from hcols)
        have hu : (k.dsvd (fvM d rem v).tab).1.m = v.m * d := hu
        have hvv : (k.dsvd (fvM d rem v).tab).2.2.n = ipow d rem := hvv
        match ss, hss with
        | s0 :: ss', hss =>
          have hs0 : s0 < d := hss.head
          have hc : flat d ss' < d ^ rem := flat_lt hss.tail
          rw [ampRow_cons]
          rw [ih _ ss' hss.tail]
          simp only [fvV_m]
          have e1 : ∀ p ∈ range (fvIdx k d rem v tol).length,
              step (fvA k d rem v tol) s0 w p * (fvV k d rem v tol).f p (flat d ss')
              = ∑ a ∈ range v.m, w a * ((k.dsvd (fvM d rem v).tab).1.f (a * d + s0) ((fvIdx k d rem v tol).getD p 0) *
                  RealLike.ofReal ((k.dsvd (fvM d rem v).tab).2.1.getD ((fvIdx k d rem v tol).getD p 0) 0) *
                  (k.dsvd (fvM d rem v).tab).2.2.f ((fvIdx k d rem v tol).getD p 0) (flat d ss')) := by
            intro p hp
            have hp := mem_range.1 hp
            rw [fvV_f k d rem v tol hp (by rw [hvv, ipow_eq]; exact hc)]
            simp only [step, fvA_d1, sum_mul]
            apply sum_congr rfl
            intro a ha
            rw [fvA_f k d rem v tol hs0 (mem_range.1 ha) hp hu]
            ring
          rw [sum_congr rfl e1, sum_comm]
          apply sum_congr rfl
          intro a ha
          have ha := mem_range.1 ha
          rw [← mul_sum]
          congr 1
          have := hstep.2 (a * d + s0) (by simpa [fvM] using fused_lt ha hs0) (flat d ss')
            (by simpa [fvM, ipow_eq] using hc)
          rw [Mat.tab_f _ (by simpa [fvM] using fused_lt ha hs0) (by simpa [fvM, ipow_eq] using hc)] at this
          rw [show fvKeep (retainedBondIndices k.dnorm k.dargsort (k.dsvd (fvM d rem v).tab).2.1 tol)
              (k.dsvd (fvM d rem v).tab).2.1 = fvIdx k d rem v tol from rfl] at this
          rw [this]
          simp only [fvM, fused_div hs0, fused_mod hs0, ipow_eq]
          rw [flat_cons, flatFrom_eq, hss.tail.1]
      · -- empty remainder: both sides vanish
        match ss, hss with
        | s0 :: ss', hss =>
          have hd : 0 < d := by have := hss.head; omega
          have hvm : v.m = 0 := by omega
          rw [ampRow_cons, ih _ ss' hss.tail, hvm, sum_range_zero]
          apply sum_eq_zero
          intro p _
          simp [step, hvm]

/-- `As[-1] *= c` -/
def scaleLast (c : R) (As : List (T3 R)) : List (T3 R) :=
  As.take (As.length - 1) ++ (As.drop (As.length - 1)).map (fun X => (scaleT3 c X).tab)

theorem scaleLast_single (c : R) (X : T3 R) : scaleLast c [X] = [(scaleT3 c X).tab] := rfl

theorem scaleLast_cons (c : R) (X X' : T3 R) (As : List (T3 R)) :
    scaleLast c (X :: X' :: As) = X :: scaleLast c (X' :: As) := by
  simp [scaleLast]

theorem step_scale (c : R) (X : T3 R) (s : Nat) (hs : s < X.d0) (w : Nat → R) : ∀ b < X.d2,
    step (scaleT3 c X).tab s w b = c * step X s w b := by
  intro b hb
  simp only [step, mul_sum]
  apply sum_congr rfl
  intro a ha
  have ha := mem_range.1 ha
  rw [T3.tab_f (scaleT3 c X) hs ha hb]
  simp only [scaleT3]; ring

/-- scaling the last tensor scales every amplitude -/
theorem ampRow_scaleLast (c : R) (d : Nat) : ∀ (As : List (T3 R)) (ss : List Nat) (Dl Dr : Nat) (w : Nat → R),
    As ≠ [] → Chain d Dl As Dr → Digits d As.length ss → ∀ b < Dr,
    ampRow (scaleLast c As) ss w b = c * ampRow As ss w b
  | [], _, _, _, _, h, _, _, _, _ => absurd rfl h
  | [X], ss, Dl, Dr, w, _, hc, hss, b, hb => by
      obtain ⟨h0, _, h2⟩ := hc
      have h2 : X.d2 = Dr := h2
      match ss, hss with
      | [s], hss =>
        rw [scaleLast_single, ampRow_cons, ampRow_cons, ampRow_nil, ampRow_nil]
        exact step_scale c X s (by rw [h0]; exact hss.head) w b (by omega)
  | X :: X' :: As, ss, Dl, Dr, w, _, hc, hss, b, hb => by
      match ss, hss with
      | s :: ss', hss =>
        rw [scaleLast_cons, ampRow_cons, ampRow_cons]
        exact ampRow_scaleLast c d (X' :: As) ss' _ Dr _ (by simp) hc.tail hss.tail b hb

/-- `from_vector` reproduces the vector when every SVD step of the run is exact -/
theorem fromVector_amp (k : SvdKernels R ρ) (d n : Nat) (v : List R) (tol : ρ) (ψ : MPS R)
    (h : fromVector k d n v tol = .ok ψ)
    (hM : ∀ M ∈ fvMats k d n (⟨1, v.length, fun _ c => v.toArray.getD c 0⟩ : Mat R) tol, StepExact k tol M) :
    ψ.A.length = n ∧ ∀ s, Digits d n s → ψ.amp s = v.getD (flat d s) 0 := by
  unfold fromVector at h
  simp only [pyAssert_bind] at h
  obtain ⟨_, h⟩ := h
  simp only [bind_ok] at h
  obtain ⟨⟨As, vend⟩, hloop, h⟩ := h
  obtain ⟨u, hv, h⟩ := h
  rw [pyAssert_ok] at hv
  simp only [Bool.and_eq_true, beq_iff_eq] at hv h
  split at h
  · rw [throw_bind_ne] at h; exact h.elim
  · rename_i hn
    rw [pure_ok] at h
    subst h
    obtain ⟨hc, hl, hrow⟩ := fromVectorLoop_row k d tol n _ As vend hloop hM
    have hne : As ≠ [] := by intro h0; exact hn (by simp [h0])
    refine ⟨?_, ?_⟩
    · show (scaleLast (vend.f 0 0) As).length = n
      rw [← hl]; simp [scaleLast]
    · intro s hs
      have hrow' := hrow e0 s hs
      simp only [hv.1, sum_range_one, e0, if_true, one_mul] at hrow'
      show ampRow (scaleLast (vend.f 0 0) As) s e0 0 = _
      rw [ampRow_scaleLast (vend.f 0 0) d As s 1 1 e0 hne (by simpa [hv.1] using hc) (by rw [hl]; exact hs) 0
        (by omega), mul_comm]
      rw [hrow']
      simp [List.getD_eq_getElem?_getD]

end Ptn.MPS

import PtnModel.Proofs.ChainStep
/-!
# The half-chain invariant of `from_opchains`

`hsum es hs cs r b = Σ_{(h,c)} c · pre es 0 r h.nidl · [b = h.oids]`: the operator still to be emitted, as a
function of the (reversed) word `r` already consumed and the rest `b` of the word (including the dummy id).
`siteStep_sem`: one sweep step moves one letter from `b` to `r`: `hsum' (o :: r) b = hsum r (o :: b)`,
whatever the two cover lists are -- the bookkeeping of `edges` (every `remove` succeeds, nothing is left at
the end) is all that is used.
-/
set_option linter.unusedSectionVars false

namespace Ptn.Ch
open Ptn Ptn.Og List

variable {κ : Type} [CommRing κ] [DecidableEq κ]

/-- weight of a half-chain: walks from the start node `0` spelling `r.reverse`, rest of the word `b` -/
def phi (es : List (Edge κ)) (r : List Int) (b : Word) (h : HalfChain) : κ :=
  pre es 0 r h.nidl * (if b = h.oids then 1 else 0)

/-- the half-chain sum -/
def hsum (es : List (Edge κ)) (hs : List HalfChain) (cs : List κ) (r : List Int) (b : Word) : κ :=
  hsumφ (hs.zip cs) (phi es r b)

/-- `gamma[(i, j)]` (0 if absent) -/
def gam (gamma : List ((Nat × Nat) × κ)) (e : Nat × Nat) : κ := (gamma.lookup e).getD 0

/-- the part of the partitioned sum that belongs to the bipartite edges `edges` -/
def rem (es0 : List (Edge κ)) (ulist : List UNode) (vlist : List HalfChain) (gamma : List ((Nat × Nat) × κ))
    (r : List Int) (b : Word) (edges : List (Nat × Nat)) : κ :=
  (edges.map fun e => gam gamma e * edgeVal ulist vlist (phi es0 r b) e).sum

theorem lookup_of_mem_nodup {α β : Type} [BEq α] [LawfulBEq α] (l : List (α × β)) (hn : (l.map (·.1)).Nodup)
    (p : α × β) (hp : p ∈ l) : l.lookup p.1 = some p.2 := by
  induction l with
  | nil => simp at hp
  | cons q l ih =>
    simp only [map_cons, nodup_cons] at hn
    rcases mem_cons.1 hp with h | h
    · subst h
      obtain ⟨p1, p2⟩ := p
      simp [List.lookup]
    · have : (p.1 == q.1) = false := by
        apply beq_false_of_ne
        intro hpq
        exact hn.1 (hpq ▸ mem_map_of_mem h)
      obtain ⟨q1, q2⟩ := q
      simp only [lookup_cons, this]
      exact ih hn.2 h

theorem rem_all (es0 : List (Edge κ)) (p : Partition κ) (done : List (HalfChain × κ)) (hI : PInv done p)
    (r : List Int) (b : Word) :
    rem es0 p.ulist p.vlist p.gamma r b p.edges = hsumφ done (phi es0 r b) := by
  rw [hI.sem]
  unfold rem psum
  rw [← hI.keys, map_map]
  apply sum_map_congr
  intro ec hec
  simp only [Function.comp, gam]
  rw [lookup_of_mem_nodup p.gamma (by rw [hI.keys]; exact hI.nodup) ec hec]
  rfl

theorem rem_perm (es0 : List (Edge κ)) (ulist : List UNode) (vlist : List HalfChain) (gamma : List ((Nat × Nat) × κ))
    (r : List Int) (b : Word) (l1 l2 l3 : List (Nat × Nat)) (h : l1.Perm (l2 ++ l3)) :
    rem es0 ulist vlist gamma r b l1 = rem es0 ulist vlist gamma r b l2 + rem es0 ulist vlist gamma r b l3 := by
  unfold rem
  rw [(h.map _).sum_eq, map_append, sum_append]

theorem vEdges_map {β : Type} (F : Edge κ → β) (hF : ∀ e e' : Edge κ, e.nids = e'.nids → e.opics = e'.opics → F e = F e')
    (nid : Int) : ∀ (items : List (Nat × UNode × κ)) (eid : Int),
    (vEdges nid eid items).map F = items.map fun t => F ⟨0, (t.2.1.nidl, nid), [(t.2.1.oid, t.2.2)]⟩ := by
  intro items
  induction items with
  | nil => intro eid; simp [vEdges]
  | cons t ts ih =>
    intro eid
    simp only [vEdges, map_cons, ih]
    congr 1
    exact hF _ _ rfl rfl

theorem mem_vEdges (nid : Int) : ∀ (items : List (Nat × UNode × κ)) (eid : Int) (e : Edge κ),
    e ∈ vEdges nid eid items → ∃ t ∈ items, e.nids = (t.2.1.nidl, nid) := by
  intro items
  induction items with
  | nil => intro eid e h; simp [vEdges] at h
  | cons t ts ih =>
    intro eid e h
    simp only [vEdges, mem_cons] at h
    rcases h with h | h
    · subst h; exact ⟨t, by simp, rfl⟩
    · obtain ⟨t', ht', h'⟩ := ih _ _ h
      exact ⟨t', by simp [ht'], h'⟩

/-! ## the loop invariant inside one sweep step -/

/-- facts about the state at the beginning of a sweep step and its partition -/
structure Base (es0 : List (Edge κ)) (B0 : Int) (ulist : List UNode) : Prop where
  mono0 : ∀ e ∈ es0, e.nids.1 < e.nids.2 ∧ e.nids.2 < B0
  unid : ∀ u ∈ ulist, u.nidl < B0
  pos : 1 ≤ B0

/-- the invariant of the two cover loops; `T o r b` is the value of the partitioned sum -/
structure MInv (es0 : List (Edge κ)) (B0 : Int) (ulist : List UNode) (vlist : List HalfChain)
    (gamma : List ((Nat × Nat) × κ)) (T : Int → List Int → Word → κ) (t : ChState κ) : Prop where
  ext : ∃ new, edgeList t.graph = es0 ++ new ∧
    ∀ e ∈ new, e.nids.1 < B0 ∧ B0 ≤ e.nids.2 ∧ e.nids.2 < t.nidNext
  bnd : B0 ≤ t.nidNext
  hn : ∀ h ∈ t.vlistNext, B0 ≤ h.nidl ∧ h.nidl < t.nidNext
  len : t.vlistNext.length = t.coeffsNext.length
  src : ∀ h ∈ t.vlistNext, ∃ v ∈ vlist, h.oids = v.oids ∧ h.qnums = v.qnums
  sem : ∀ o r b, hsum (edgeList t.graph) t.vlistNext t.coeffsNext (o :: r) b
      + rem es0 ulist vlist gamma r (o :: b) t.edges = T o r b

section
variable {es0 : List (Edge κ)} {B0 : Int} {ulist : List UNode} {vlist : List HalfChain}
  {gamma : List ((Nat × Nat) × κ)} {T : Int → List Int → Word → κ}

theorem MInv.mono (hB : Base es0 B0 ulist) {t : ChState κ} (hM : MInv es0 B0 ulist vlist gamma T t) :
    ∀ e ∈ edgeList t.graph, e.nids.1 < e.nids.2 ∧ e.nids.2 < t.nidNext := by
  obtain ⟨new, hnew, hb⟩ := hM.ext
  intro e he
  rw [hnew, mem_append] at he
  rcases he with he | he
  · have := hB.mono0 e he
    have := hM.bnd
    omega
  · have := hb e he
    omega

/-- the half-chains already emitted are not affected by edges into new nodes -/
theorem hsum_stable (es new : List (Edge κ)) (hs : List HalfChain) (cs : List κ) (B : Int)
    (hmono : ∀ e ∈ es, e.nids.1 < e.nids.2) (hnew : ∀ e ∈ new, B ≤ e.nids.2)
    (hh : ∀ h ∈ hs, h.nidl < B) (r : List Int) (b : Word) :
    hsum (es ++ new) hs cs r b = hsum es hs cs r b := by
  unfold hsum hsumφ
  apply sum_map_congr
  intro hc hhc
  obtain ⟨h, c⟩ := hc
  have := hh h (of_mem_zip hhc).1
  simp only [phi]
  rw [pre_append_stable es new 0 B hmono hnew r _ this]

theorem hsum_append (es : List (Edge κ)) (hs hs' : List HalfChain) (cs cs' : List κ) (hl : hs.length = cs.length)
    (r : List Int) (b : Word) :
    hsum es (hs ++ hs') (cs ++ cs') r b = hsum es hs cs r b + hsum es hs' cs' r b := by
  unfold hsum hsumφ
  rw [zip_append hl, map_append, sum_append]

/-- the value of `pre` at a node all of whose incoming edges are in the appended part -/
theorem pre_new_node (es new : List (Edge κ)) (n : Int) (hold : ∀ e ∈ es, e.nids.2 ≠ n) (o : Int) (r : List Int) :
    pre (es ++ new) 0 (o :: r) n
      = (new.map fun e => if e.nids.2 = n then pre (es ++ new) 0 r e.nids.1 * opc e o else 0).sum := by
  simp only [pre, map_append, sum_append]
  rw [sum_map_eq_zero es, zero_add]
  intro e he
  simp [hold e he]

theorem phi_join (es : List (Edge κ)) (r : List Int) (o : Int) (b : Word) (u : UNode) (v : HalfChain) :
    phi es r (o :: b) (joinUV u v) = pre es 0 r u.nidl * (if u.oid = o then 1 else 0) * (if b = v.oids then 1 else 0) := by
  simp only [phi, joinUV, cons.injEq]
  by_cases h1 : o = u.oid <;> by_cases h2 : b = v.oids <;> simp [h1, h2, eq_comm]

theorem uCoverStep_minv (hB : Base es0 B0 ulist) (adjU : List (List Nat)) (t t' : ChState κ) (i : Nat)
    (hM : MInv es0 B0 ulist vlist gamma T t) (h : uCoverStep ulist vlist gamma adjU t i = .ok t') :
    MInv es0 B0 ulist vlist gamma T t' := by
  obtain ⟨u, nodePrev, items, hu, _, _, _, _, _, hit, _, hg, hn, _, hvl, hcs, hperm⟩ :=
    uCoverStep_spec ulist vlist gamma adjU t t' i h
  have humem : u ∈ ulist := mem_of_getElem? hu
  have hunid := hB.unid u humem
  obtain ⟨new, hnew, hb⟩ := hM.ext
  have hbnd := hM.bnd
  have hel : edgeList t'.graph = edgeList t.graph ++ [⟨t.eidNext, (u.nidl, t.nidNext), [(u.oid, 1)]⟩] := by
    rw [hg]; simp [edgeList]
  have hmono := hM.mono hB
  refine ⟨⟨new ++ [⟨t.eidNext, (u.nidl, t.nidNext), [(u.oid, 1)]⟩], by rw [hel, hnew, append_assoc], ?_⟩,
    by omega, ?_, ?_, ?_, ?_⟩
  · intro e he
    rcases mem_append.1 he with he | he
    · have := hb e he; omega
    · simp only [mem_singleton] at he
      subst he
      simp only
      omega
  · intro h' hh'
    rw [hvl, mem_append] at hh'
    rcases hh' with hh' | hh'
    · have := hM.hn h' hh'; omega
    · obtain ⟨t1, _, rfl⟩ := mem_map.1 hh'
      simp only [reattach]
      omega
  · rw [hvl, hcs, length_append, length_append, hM.len, length_map, length_map]
  · intro h' hh'
    rw [hvl, mem_append] at hh'
    rcases hh' with hh' | hh'
    · exact hM.src h' hh'
    · obtain ⟨t1, ht1, rfl⟩ := mem_map.1 hh'
      exact ⟨t1.2.1, mem_of_getElem? (hit t1 ht1).1, rfl, rfl⟩
  · intro o r b
    rw [← hM.sem o r b, hvl, hcs, hsum_append _ _ _ _ _ hM.len, hel,
      hsum_stable _ _ _ _ t.nidNext (fun e he => (hmono e he).1) (by simp) (fun h' hh' => (hM.hn h' hh').2),
      rem_perm _ _ _ _ _ _ _ _ _ hperm, add_assoc]
    congr 2
    -- the new half-chains against the handled bipartite edges
    have hpre : pre (edgeList t.graph ++ [⟨t.eidNext, (u.nidl, t.nidNext), [(u.oid, 1)]⟩]) 0 (o :: r) t.nidNext
        = pre es0 0 r u.nidl * (if u.oid = o then 1 else 0) := by
      rw [pre_new_node _ _ _ (fun e he => by have := (hmono e he).2; omega)]
      simp only [map_cons, map_nil, sum_cons, sum_nil, add_zero, if_true, opc_single]
      rw [hnew, append_assoc, pre_append_stable es0 _ 0 B0 (fun e he => (hB.mono0 e he).1) _ r _ hunid]
      intro e he
      rcases mem_append.1 he with he | he
      · exact (hb e he).2.1
      · simp only [mem_singleton] at he
        subst he
        exact hbnd
    unfold hsum hsumφ rem
    rw [zip_map', map_map, map_map]
    apply sum_map_congr
    intro t1 ht1
    obtain ⟨hv1, hc1⟩ := hit t1 ht1
    show t1.2.2 * phi _ (o :: r) b (reattach t1.2.1 t.nidNext)
      = gam gamma (i, t1.1) * edgeVal ulist vlist (phi es0 r (o :: b)) (i, t1.1)
    have e1 : ∀ es : List (Edge κ), phi es (o :: r) b (reattach t1.2.1 t.nidNext)
        = pre es 0 (o :: r) t.nidNext * (if b = t1.2.1.oids then 1 else 0) := fun _ => rfl
    have e2 : gam gamma (i, t1.1) = t1.2.2 := by simp [gam, hc1]
    have e3 : edgeVal ulist vlist (phi es0 r (o :: b)) (i, t1.1) = phi es0 r (o :: b) (joinUV u t1.2.1) := by
      simp [edgeVal, hu, hv1]
    rw [e1, e2, e3, hpre, phi_join]

theorem vCoverStep_minv (hB : Base es0 B0 ulist) (adjV : List (List Nat)) (t t' : ChState κ) (j : Nat)
    (hM : MInv es0 B0 ulist vlist gamma T t) (h : vCoverStep ulist vlist gamma adjV t j = .ok t') :
    MInv es0 B0 ulist vlist gamma T t' := by
  obtain ⟨v, q, adj, hv, _, _, _, hfold⟩ := vCoverStep_spec ulist vlist gamma adjV t t' j h
  obtain ⟨items, hit, hel, hn, _, hvl, hcs, hperm⟩ := vInner_spec ulist gamma j t.nidNext adj _ t' hfold
  simp only at hel hn hvl hcs hperm
  have hel' : edgeList t'.graph = edgeList t.graph ++ vEdges t.nidNext t.eidNext items := by
    rw [hel]; simp [edgeList]
  obtain ⟨new, hnew, hb⟩ := hM.ext
  have hbnd := hM.bnd
  have hmono := hM.mono hB
  have hve : ∀ e ∈ vEdges t.nidNext t.eidNext items, e.nids.1 < B0 ∧ e.nids.2 = t.nidNext := by
    intro e he
    obtain ⟨t1, ht1, hn1⟩ := mem_vEdges _ _ _ _ he
    rw [hn1]
    exact ⟨hB.unid _ (mem_of_getElem? (hit t1 ht1).1), rfl⟩
  refine ⟨⟨new ++ vEdges t.nidNext t.eidNext items, by rw [hel', hnew, append_assoc], ?_⟩,
    by omega, ?_, ?_, ?_, ?_⟩
  · intro e he
    rcases mem_append.1 he with he | he
    · have := hb e he; omega
    · have := hve e he; omega
  · intro h' hh'
    rw [hvl, mem_append] at hh'
    rcases hh' with hh' | hh'
    · have := hM.hn h' hh'; omega
    · simp only [mem_singleton] at hh'
      subst hh'
      simp only [reattach]
      omega
  · rw [hvl, hcs, length_append, length_append, hM.len]; rfl
  · intro h' hh'
    rw [hvl, mem_append] at hh'
    rcases hh' with hh' | hh'
    · exact hM.src h' hh'
    · simp only [mem_singleton] at hh'
      subst hh'
      exact ⟨v, mem_of_getElem? hv, rfl, rfl⟩
  · intro o r b
    rw [← hM.sem o r b, hvl, hcs, hsum_append _ _ _ _ _ hM.len, hel',
      hsum_stable _ _ _ _ t.nidNext (fun e he => (hmono e he).1) (fun e he => by rw [(hve e he).2])
        (fun h' hh' => (hM.hn h' hh').2),
      rem_perm _ _ _ _ _ _ _ _ _ hperm, add_assoc]
    congr 2
    -- the new half-chain against the handled bipartite edges
    have hstab : ∀ x, x < B0 → pre (edgeList t.graph ++ vEdges t.nidNext t.eidNext items) 0 r x = pre es0 0 r x := by
      intro x hx
      rw [hnew, append_assoc, pre_append_stable es0 _ 0 B0 (fun e he => (hB.mono0 e he).1) _ r _ hx]
      intro e he
      rcases mem_append.1 he with he | he
      · exact (hb e he).2.1
      · rw [(hve e he).2]; exact hbnd
    have hpre : pre (edgeList t.graph ++ vEdges t.nidNext t.eidNext items) 0 (o :: r) t.nidNext
        = (items.map fun t1 => pre es0 0 r t1.2.1.nidl * (if t1.2.1.oid = o then t1.2.2 else 0)).sum := by
      rw [pre_new_node _ _ _ (fun e he => by have := (hmono e he).2; omega)]
      rw [sum_map_congr _ _ (fun e => pre es0 0 r e.nids.1 * opc e o)]
      · rw [vEdges_map (fun e : Edge κ => pre es0 0 r e.nids.1 * opc e o)]
        · apply sum_map_congr
          intro t1 _
          rw [opc_single]
        · intro e e' h1 h2
          simp only [opc, h1, h2]
      · intro e he
        obtain ⟨h1, h2⟩ := hve e he
        rw [if_pos h2, hstab _ h1]
    unfold hsum hsumφ rem
    simp only [zip_cons_cons, zip_nil_right, map_cons, map_nil, sum_cons, sum_nil, add_zero, one_mul, map_map]
    show phi _ (o :: r) b (reattach v t.nidNext) = _
    have e1 : ∀ es : List (Edge κ), phi es (o :: r) b (reattach v t.nidNext)
        = pre es 0 (o :: r) t.nidNext * (if b = v.oids then 1 else 0) := fun _ => rfl
    rw [e1, hpre, ← sum_map_mul_const]
    apply sum_map_congr
    intro t1 ht1
    obtain ⟨hu1, hc1⟩ := hit t1 ht1
    show _ = gam gamma (t1.1, j) * edgeVal ulist vlist (phi es0 r (o :: b)) (t1.1, j)
    have e2 : gam gamma (t1.1, j) = t1.2.2 := by simp [gam, hc1]
    have e3 : edgeVal ulist vlist (phi es0 r (o :: b)) (t1.1, j) = phi es0 r (o :: b) (joinUV t1.2.1 v) := by
      simp [edgeVal, hu1, hv]
    rw [e2, e3, phi_join]
    by_cases ho : t1.2.1.oid = o <;> simp [ho]
    ring_nf

end

/-! ## one sweep step -/

/-- what the sweep maintains between two steps -/
structure SInv (s : ChState κ) : Prop where
  mono : ∀ e ∈ edgeList s.graph, e.nids.1 < e.nids.2 ∧ e.nids.2 < s.nidNext
  hnid : ∀ h ∈ s.vlistNext, h.nidl < s.nidNext
  pos : 1 ≤ s.nidNext

/-- the body of the sweep with the vertex-cover routine as a parameter -/
def siteStepWith (cover : Ptn.Bip.BGraph → Except Err (List Nat × List Nat)) (s : ChState κ) :
    Except Err (ChState κ) := do
  let p ← sitePartition s.vlistNext s.coeffsNext
  let bigraph ← Ptn.Bip.BGraph.mk' p.ulist.length p.vlist.length
    (p.edges.map fun e => ((e.1 : Int), (e.2 : Int)))
  let (uCover, vCover) ← cover bigraph
  let s : ChState κ := { s with vlistNext := [], coeffsNext := [], edges := p.edges }
  let s ← uCover.foldlM (uCoverStep p.ulist p.vlist p.gamma bigraph.adjU) s
  let s ← vCover.foldlM (vCoverStep p.ulist p.vlist p.gamma bigraph.adjV) s
  pyAssert s.edges.isEmpty
  pure s

/-- the model's sweep step is the instance with `minimum_vertex_cover` -/
theorem siteStep_eq_with (s : ChState κ) : siteStep s = siteStepWith Ptn.Bip.minimumVertexCover s := rfl

/-- **The half-chain invariant.**  If one sweep step does not raise then, for whatever cover lists the
vertex-cover routine returned, the half-chain sum after the step with one more letter consumed equals the
half-chain sum before the step.  (Side facts: the new half-chains sit at new nodes and are tails of old ones.) -/
theorem siteStepWith_sem (cover : Ptn.Bip.BGraph → Except Err (List Nat × List Nat))
    (s s' : ChState κ) (h : siteStepWith cover s = .ok s') (hS : SInv s) :
    SInv s' ∧
    (∀ o r b, hsum (edgeList s'.graph) s'.vlistNext s'.coeffsNext (o :: r) b
        = hsum (edgeList s.graph) s.vlistNext s.coeffsNext r (o :: b)) ∧
    (∀ h' ∈ s'.vlistNext, s.nidNext ≤ h'.nidl) ∧
    (∀ h' ∈ s'.vlistNext, ∃ h ∈ s.vlistNext, ∃ o, h.oids = o :: h'.oids) := by
  unfold siteStepWith at h
  simp only [bind_ok_iff, pyAssert_ok_iff, pure_ok_iff] at h
  obtain ⟨p, hp, bg, _, ⟨uc, vc⟩, _, s2, hu, s3, hv, _, hemp, hs3⟩ := h
  subst hs3
  simp only at hu hv
  have hI := sitePartition_inv _ _ _ hp
  have hB : Base (edgeList s.graph) s.nidNext p.ulist := by
    refine ⟨hS.mono, ?_, hS.pos⟩
    intro u hu'
    obtain ⟨hc, hc1, hc2, _⟩ := hI.usrc u hu'
    rw [hc2]
    exact hS.hnid _ (of_mem_zip (a := hc.1) (b := hc.2) hc1).1
  let T : Int → List Int → Word → κ := fun o r b => rem (edgeList s.graph) p.ulist p.vlist p.gamma r (o :: b) p.edges
  have h1 : MInv (edgeList s.graph) s.nidNext p.ulist p.vlist p.gamma T
      { s with vlistNext := [], coeffsNext := [], edges := p.edges } :=
    ⟨⟨[], by simp, by simp⟩, le_refl _, by simp, rfl, by simp, by intro o r b; simp [hsum, hsumφ, T]⟩
  have h2 : MInv (edgeList s.graph) s.nidNext p.ulist p.vlist p.gamma T s2 :=
    foldlM_inv _ (fun _ t => MInv (edgeList s.graph) s.nidNext p.ulist p.vlist p.gamma T t) uc [] _ s2 h1
      (fun _ a b b' hb hab => uCoverStep_minv hB _ b b' a hb hab) hu
  have h3 : MInv (edgeList s.graph) s.nidNext p.ulist p.vlist p.gamma T s3 :=
    foldlM_inv _ (fun _ t => MInv (edgeList s.graph) s.nidNext p.ulist p.vlist p.gamma T t) vc [] _ s3 h2
      (fun _ a b b' hb hab => vCoverStep_minv hB _ b b' a hb hab) hv
  have hnil : s3.edges = [] := by simpa using hemp
  refine ⟨⟨h3.mono hB, fun h' hh' => (h3.hn h' hh').2, by have := h3.bnd; have := hS.pos; omega⟩, ?_,
    fun h' hh' => (h3.hn h' hh').1, ?_⟩
  · intro o r b
    have := h3.sem o r b
    rw [hnil] at this
    simp only [rem, map_nil, sum_nil, add_zero] at this
    rw [this]
    exact rem_all _ _ _ hI r (o :: b)
  · intro h' hh'
    obtain ⟨v, hv', ho, _⟩ := h3.src h' hh'
    obtain ⟨_, _, hc, hc1, o, _, hc2, _⟩ := hI.vsrc v hv'
    exact ⟨hc.1, (of_mem_zip (a := hc.1) (b := hc.2) hc1).1, o, by rw [hc2, ho]⟩

theorem siteStep_sem (s s' : ChState κ) (h : siteStep s = .ok s') (hS : SInv s) :
    SInv s' ∧
    (∀ o r b, hsum (edgeList s'.graph) s'.vlistNext s'.coeffsNext (o :: r) b
        = hsum (edgeList s.graph) s.vlistNext s.coeffsNext r (o :: b)) ∧
    (∀ h' ∈ s'.vlistNext, s.nidNext ≤ h'.nidl) ∧
    (∀ h' ∈ s'.vlistNext, ∃ h ∈ s.vlistNext, ∃ o, h.oids = o :: h'.oids) :=
  siteStepWith_sem _ s s' (by rw [← siteStep_eq_with]; exact h) hS

end Ptn.Ch

import PtnModel.Model.Basic
/-!
# `Except Err` plumbing for reading `do` blocks of the model
-/
namespace Ptn.Dense

theorem pyAssert_bind {β : Type} (c : Bool) (f : Unit → Except Err β) (r : β) :
    (pyAssert c >>= f) = .ok r ↔ c = true ∧ f () = .ok r := by
  cases c <;> simp [pyAssert, bind, Except.bind]

theorem pyAssert_ok (c : Bool) (u : Unit) : pyAssert c = .ok u ↔ c = true := by
  cases c <;> simp [pyAssert]

theorem throw_bind_ne {β γ : Type} (e : Err) (f : γ → Except Err β) (r : β) :
    ((throw e : Except Err γ) >>= f) = .ok r ↔ False := by
  simp [throw, throwThe, MonadExceptOf.throw, bind, Except.bind]

theorem throw_map_ne {β γ : Type} (e : Err) (f : γ → β) (r : β) :
    (f <$> (throw e : Except Err γ)) = .ok r ↔ False := by
  simp [throw, throwThe, MonadExceptOf.throw, Functor.map, Except.map]

theorem throw_ne {β : Type} (e : Err) (r : β) : (throw e : Except Err β) = .ok r ↔ False := by
  simp [throw, throwThe, MonadExceptOf.throw]

theorem bind_ok {β γ : Type} (x : Except Err γ) (f : γ → Except Err β) (r : β) :
    (x >>= f) = .ok r ↔ ∃ y, x = .ok y ∧ f y = .ok r := by
  cases x <;> simp [bind, Except.bind]

theorem pure_ok {β : Type} (x r : β) : (pure x : Except Err β) = .ok r ↔ x = r := by
  simp [pure, Except.pure]

end Ptn.Dense

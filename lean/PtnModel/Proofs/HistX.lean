import PtnModel.Model.OpsX
import PtnModel.Proofs.HistEvoTwo
import PtnModel.Proofs.BridgeElem
import PtnModel.Proofs.HamSparse
/-!
# C02: the creating operations produce well-formed objects

* `filledMps_wf`, `filledMpo_wf` : `MPS(qd, qD, fill=x)` / `MPO(qd, qD, fill=x)` (the sparsity mask of the constructors);
* `identity_wf`                  : `MPO.identity(qd, L, scale)`;
* `mpoOfOut_eq`                  : the `MPO` value of `Model/OpsX.lean` is `MpoOut.toMPO` of `Proofs/BridgeElem.lean`;
* `fromOpgraph_wf`               : EVERY MPO returned by `MPO.from_opgraph` is well formed (charge lists of the right
                                   lengths by the layer walk, sparsity by the code's own final assertion);
* `resplit_wf`                   : merging two neighbouring tensors of a well-formed MPS and splitting them again.
-/
set_option linter.unusedSectionVars false
namespace Ptn.HistWf
open Ptn Ptn.Hist Ptn.Ortho Ptn.Dense

/-! ## constructors with a numeric fill -/

section fill
variable {𝕜 : Type} [CommRing 𝕜] [DecidableEq 𝕜]

theorem filledMps_wf {qd : List Int} {qD : List (List Int)} {x : 𝕜} {ψ : MPS 𝕜}
    (h : MPS.filled qd qD x = .ok ψ) : ψ.wellFormed = true := by
  unfold MPS.filled at h
  cases qD with
  | nil => simp [throw, throwThe, MonadExceptOf.throw] at h
  | cons q0 qs =>
    dsimp only at h
    rw [pyAssert_bind] at h
    obtain ⟨_, h⟩ := h
    rw [pure_ok] at h
    subst h
    refine (wellFormed_iff_idx _).2 ⟨by simp, ?_⟩
    intro i hi
    simp only [List.length_map, List.length_range] at hi
    simp only [List.getElem_map, List.getElem_range]
    refine ⟨rfl, rfl, rfl, ?_⟩
    intro s a b _ _ _ hne
    by_contra hc
    exact hne (if_neg hc)

theorem filledMpo_wf {qd : List Int} {qD : List (List Int)} {x : 𝕜} {o : MPO 𝕜}
    (h : MPO.filled qd qD x = .ok o) : o.wellFormed = true := by
  unfold MPO.filled at h
  by_cases he : qD.isEmpty = true
  · simp [he, throw, throwThe, MonadExceptOf.throw, bind, Except.bind] at h
  · simp only [he, Bool.false_eq_true, if_false] at h
    have h' : (pure (⟨qd, qD, (List.range (qD.length - 1)).map fun i =>
        (⟨qd.length, qd.length, (qD.getD i []).length, (qD.getD (i + 1) []).length, fun s t a b =>
          if qd.getD s 0 - qd.getD t 0 + (qD.getD i []).getD a 0 - (qD.getD (i + 1) []).getD b 0 = 0 then x else 0⟩ : T4 𝕜)⟩ : MPO 𝕜)
        : Except Err (MPO 𝕜)) = .ok o := h
    rw [pure_ok] at h'
    subst h'
    have hne : qD ≠ [] := by
      intro h0
      apply he
      rw [h0]
      rfl
    have hl : 0 < qD.length := List.length_pos_iff.2 hne
    refine (mpo_wellFormed_iff_idx _).2 ⟨by simp; omega, ?_⟩
    intro i hi
    simp only [List.getElem_map, List.getElem_range]
    refine ⟨rfl, rfl, rfl, rfl, ?_⟩
    intro s t a b _ _ _ _ hne'
    by_contra hc
    exact hne' (if_neg hc)

theorem identity_wf (qd : List Int) (L : Nat) (scale : 𝕜) : (MPO.identity qd L scale).wellFormed = true := by
  unfold MPO.identity
  refine (mpo_wellFormed_iff_idx _).2 ⟨by simp, ?_⟩
  intro i hi
  simp only [List.length_replicate] at hi
  simp only [List.getElem_replicate]
  have h1 : (List.replicate (L + 1) ([0] : List Int)).getD i [] = [0] := by
    rw [List.getD_eq_getElem?_getD, List.getElem?_replicate, if_pos (by omega)]
    rfl
  have h2 : (List.replicate (L + 1) ([0] : List Int)).getD (i + 1) [] = [0] := by
    rw [List.getD_eq_getElem?_getD, List.getElem?_replicate, if_pos (by omega)]
    rfl
  rw [h1, h2]
  refine ⟨rfl, rfl, rfl, rfl, ?_⟩
  intro s t a b _ _ ha hb hne
  have ha' : a = 0 := by
    have : a < 1 := ha
    omega
  have hb' : b = 0 := by
    have : b < 1 := hb
    omega
  subst ha' hb'
  have hst : s = t := by
    by_contra hc
    apply hne
    show (if s = t then scale * 1 else scale * 0) = 0
    rw [if_neg hc, mul_zero]
  subst hst
  simp

end fill

/-! ## `MPO.from_opgraph` -/

section graph
variable {κ : Type} [CommRing κ] [DecidableEq κ]
open Ptn.Og Ptn.Ch

theorem mpoOfOut_eq (qd : List Int) (out : MpoOut κ) : mpoOfOut qd out = out.toMPO qd := rfl

theorem zipIdx_all {β : Type} (l : List β) (f : β × Nat → Bool) :
    l.zipIdx.all f = true ↔ ∀ i (h : i < l.length), f (l[i], i) = true := by
  rw [List.all_eq_true]
  constructor
  · intro h i hi
    exact h (l[i], i) (List.mk_mem_zipIdx_iff_getElem?.2 (List.getElem?_eq_getElem hi))
  · rintro h ⟨x, i⟩ hx
    rw [List.mk_mem_zipIdx_iff_getElem?, List.getElem?_eq_some_iff] at hx
    obtain ⟨hi, rfl⟩ := hx
    exact h i hi

theorem lt_of_getD_length_pos {β : Type} {l : List (List β)} {i : Nat} (h : 0 < (l.getD i []).length) :
    i < l.length := by
  by_contra hc
  rw [List.getD_eq_getElem?_getD, List.getElem?_eq_none (by omega)] at h
  simp at h

theorem getD_eq_getElem' {β : Type} {l : List β} {i : Nat} (h : i < l.length) (d : β) : l.getD i d = l[i] := by
  rw [List.getD_eq_getElem?_getD, List.getElem?_eq_getElem h]
  rfl

/-- the assertion `is_qsparse(A, [qd, -qd, qD0, -qD1])` on the nested list gives sparsity of the index function -/
theorem sparse_of_isQsparse {qd q0 q1 : List Int} {A : Tensor κ} (h : isQsparse qd q0 q1 A = true) :
    SparseT4 (nestedT4 A) qd q0 q1 := by
  intro s t a b _ _ _ _ hne
  change (((A.getD s []).getD t []).getD a []).getD b 0 ≠ 0 at hne
  have hb : b < (((A.getD s []).getD t []).getD a []).length := by
    by_contra hc
    apply hne
    rw [List.getD_eq_getElem?_getD, List.getElem?_eq_none (by omega)]
    rfl
  have ha : a < ((A.getD s []).getD t []).length := lt_of_getD_length_pos (by omega)
  have ht : t < (A.getD s []).length := lt_of_getD_length_pos (by omega)
  have hs : s < A.length := lt_of_getD_length_pos (by omega)
  unfold isQsparse at h
  rw [zipIdx_all] at h
  have h1 := h s hs
  dsimp only at h1
  rw [zipIdx_all] at h1
  rw [getD_eq_getElem' hs] at ht ha hb hne
  have h2 := h1 t ht
  dsimp only at h2
  rw [zipIdx_all] at h2
  rw [getD_eq_getElem' ht] at ha hb hne
  have h3 := h2 a ha
  dsimp only at h3
  rw [zipIdx_all] at h3
  rw [getD_eq_getElem' ha] at hb hne
  have h4 := h3 b hb
  dsimp only at h4
  rw [getD_eq_getElem' hb] at hne
  rw [Bool.or_eq_true, beq_iff_eq, beq_iff_eq] at h4
  rcases h4 with h4 | h4
  · exact h4
  · exact absurd h4 hne

theorem dimsMatch_idx {d : Nat} : ∀ {As : List (T4 κ)} {qs : List (List Int)}, MPO.DimsMatch d As qs →
    qs.length = As.length + 1 ∧ ∀ i (h : i < As.length), As[i].d0 = d ∧ As[i].d1 = d ∧
      As[i].d2 = (qs.getD i []).length ∧ As[i].d3 = (qs.getD (i + 1) []).length
  | [], [_], _ => ⟨rfl, fun i h => absurd h (Nat.not_lt_zero i)⟩
  | [], [], h => by simp [MPO.DimsMatch] at h
  | [], _ :: _ :: _, h => by simp [MPO.DimsMatch] at h
  | _ :: _, [], h => by simp [MPO.DimsMatch] at h
  | _ :: _, [_], h => by simp [MPO.DimsMatch] at h
  | A :: As, q0 :: q1 :: qs, h => by
    simp only [MPO.DimsMatch] at h
    obtain ⟨h0, h1, h2, h3, hr⟩ := h
    obtain ⟨hl, hi⟩ := dimsMatch_idx hr
    refine ⟨by simp only [List.length_cons] at hl ⊢; omega, ?_⟩
    intro i hi'
    cases i with
    | zero => exact ⟨h0, h1, h2, h3⟩
    | succ i =>
      have := hi i (by simpa using hi')
      simpa using this

/-- **every MPO returned by `MPO.from_opgraph` is well formed** (no hypothesis on graph, operator map or charges: the
list lengths come from the layer walk, the sparsity from the code's own final assertion) -/
theorem fromOpgraph_wf {qd : List Int} {g : Graph κ} {opmap : OpMap κ} {on : Bool} {out : MpoOut κ}
    (h : fromOpgraph qd g opmap on = .ok out) : (mpoOfOut qd out).wellFormed = true := by
  obtain ⟨hd, t0, Ls, Ts, ht0, hrun, hT, hq, _⟩ := fromOpgraph_spec qd g opmap on out h
  obtain ⟨_, hdm, _⟩ := run_chain g opmap qd.length hd Ls Ts _ hrun (by simp)
  have hsp := Ham.fromOpgraph_sparse h
  have hqD : out.qD = ([g.term false] :: Ls).map (layerQ g) := by simp [hq, layerQ, ht0]
  rw [← hqD] at hdm
  obtain ⟨hl, hi⟩ := dimsMatch_idx hdm
  unfold Ham.MpoSparse at hsp
  rw [zipIdx_all] at hsp
  refine (mpo_wellFormed_iff_idx _).2 ⟨?_, ?_⟩
  · simpa [mpoOfOut, hT] using hl
  · intro i hi'
    have hiT : i < Ts.length := by simpa [mpoOfOut, hT] using hi'
    have hio : i < out.tensors.length := by rw [hT]; exact hiT
    have hA : (mpoOfOut qd out).A[i] = nestedT4 out.tensors[i] := by simp [mpoOfOut]
    have := hi i (by simpa using hiT)
    simp only [List.getElem_map] at this
    have hTi : toT4 Ts[i] = nestedT4 out.tensors[i] := by
      have : out.tensors[i] = Ts[i] := by simp [hT]
      rw [this]; rfl
    rw [hTi] at this
    rw [hA]
    exact ⟨this.1, this.2.1, this.2.2.1, this.2.2.2, sparse_of_isQsparse (hsp i hio)⟩

/-! ### the Hamiltonian constructors of `hamiltonian.py` (all end in `MPO.from_opgraph`) -/

section ham
open Ptn.Ham

theorem localOpchainsToMpo_wf {lat : Ham.Lattice κ} {L : Int} {b : Built κ}
    (h : localOpchainsToMpo lat L = .ok b) : (mpoOfOut b.qd b.mpo).wellFormed = true := by
  unfold localOpchainsToMpo at h
  obtain ⟨g, _, h⟩ := Ham.bind_ok h
  obtain ⟨m, hm, h⟩ := Ham.bind_ok h
  simp only [pure, Except.pure, Except.ok.injEq] at h
  subst h
  exact fromOpgraph_wf hm

theorem isingBuild_wf {L : Int} {J h g : κ} {b : Built κ} (hb : isingBuild L J h g = .ok b) :
    (mpoOfOut b.qd b.mpo).wellFormed = true := by
  unfold isingBuild at hb
  obtain ⟨a, _, hb⟩ := Ham.bind_ok hb
  obtain ⟨gr, _, hb⟩ := Ham.bind_ok hb
  obtain ⟨m, hm, hb⟩ := Ham.bind_ok hb
  simp only [pure, Except.pure, Except.ok.injEq] at hb
  subst hb
  exact fromOpgraph_wf hm

theorem linFermiBuild_wf {coeff : List κ} {create : Bool} {b : Built κ}
    (hb : linFermiBuild coeff create = .ok b) : (mpoOfOut b.qd b.mpo).wellFormed = true := by
  unfold linFermiBuild at hb
  obtain ⟨gr, _, hb⟩ := Ham.bind_ok hb
  obtain ⟨m, hm, hb⟩ := Ham.bind_ok hb
  simp only [pure, Except.pure, Except.ok.injEq] at hb
  subst hb
  exact fromOpgraph_wf hm

theorem molBuildOpt_wf {c : Consts κ} {tkin : List (List κ)} {vint : List (List (List (List κ)))} {b : Built κ}
    (hb : molBuildOpt c tkin vint = .ok b) : (mpoOfOut b.qd b.mpo).wellFormed = true := by
  unfold molBuildOpt at hb
  obtain ⟨_, _, hb⟩ := Ham.bind_ok hb
  obtain ⟨_, _, hb⟩ := Ham.bind_ok hb
  obtain ⟨_, _, hb⟩ := Ham.bind_ok hb
  have hb := ite_jp_ok hb
  obtain ⟨m, hm, hb⟩ := Ham.bind_ok hb
  simp only [pure, Except.pure, Except.ok.injEq] at hb
  subst hb
  exact fromOpgraph_wf hm

theorem spinMolBuildOpt_wf {c : Consts κ} {tkin : List (List κ)} {vint : List (List (List (List κ)))} {b : Built κ}
    (hb : spinMolBuildOpt c tkin vint = .ok b) : (mpoOfOut b.qd b.mpo).wellFormed = true := by
  unfold spinMolBuildOpt at hb
  obtain ⟨_, _, hb⟩ := Ham.bind_ok hb
  obtain ⟨_, _, hb⟩ := Ham.bind_ok hb
  obtain ⟨_, _, hb⟩ := Ham.bind_ok hb
  have hb := ite_jp_ok hb
  obtain ⟨m, hm, hb⟩ := Ham.bind_ok hb
  simp only [pure, Except.pure, Except.ok.injEq] at hb
  subst hb
  exact fromOpgraph_wf hm

theorem molBuildExplicit_wf {c : Consts κ} {tkin : List (List κ)} {vint : List (List (List (List κ)))}
    {r : MolNodes × Built κ} (hb : molBuildExplicit c tkin vint = .ok r) :
    (mpoOfOut r.2.qd r.2.mpo).wellFormed = true := by
  unfold molBuildExplicit at hb
  obtain ⟨_, _, hb⟩ := Ham.bind_ok hb
  obtain ⟨⟨nodes, graph⟩, _, hb⟩ := Ham.bind_ok hb
  have hb := ite_jp_ok hb
  obtain ⟨m, hm, hb⟩ := Ham.bind_ok hb
  simp only [pure, Except.pure, Except.ok.injEq] at hb
  subst hb
  exact fromOpgraph_wf hm

theorem spinMolBuildExplicit_wf {c : Consts κ} {tkin : List (List κ)} {vint : List (List (List (List κ)))}
    {r : SpinNodes × Built κ} (hb : spinMolBuildExplicit c tkin vint = .ok r) :
    (mpoOfOut r.2.qd r.2.mpo).wellFormed = true := by
  unfold spinMolBuildExplicit at hb
  obtain ⟨_, _, hb⟩ := Ham.bind_ok hb
  obtain ⟨⟨nodes, graph⟩, _, hb⟩ := Ham.bind_ok hb
  have hb := ite_jp_ok hb
  obtain ⟨m, hm, hb⟩ := Ham.bind_ok hb
  simp only [pure, Except.pure, Except.ok.injEq] at hb
  subst hb
  exact fromOpgraph_wf hm

end ham

end graph

/-! ## re-splitting two neighbouring tensors -/

section resplit
variable {𝕜 : Type} [RCLike 𝕜] [DecidableEq 𝕜]
open Ptn.BondOps Ptn.Krylov

theorem getD_set_ne {β : Type} (l : List β) {i j : Nat} (x d : β) (h : i ≠ j) : (l.set i x).getD j d = l.getD j d := by
  rw [List.getD_eq_getElem?_getD, List.getD_eq_getElem?_getD, List.getElem?_set_ne h]

theorem getD_set_self {β : Type} (l : List β) {i : Nat} (x d : β) (h : i < l.length) : (l.set i x).getD i d = x := by
  rw [List.getD_eq_getElem?_getD, List.getElem?_set_self h]
  rfl

/-- `resplitMps` keeps well-formedness: SVD shape clause, non-empty physical charge list and a non-empty left bond
(the merged matrix has rows; a matrix without rows is the only input on which `split_matrix_svd` returns an ill-formed
triple).  Every tolerance, every distribution of the singular values, every norm / argsort / sqrt oracle. -/
theorem resplit_wf {k : StepKernels 𝕜 ℝ} (hsvd : ∀ B, SvdShapeAt k.svd.dsvd B) {ψ ψ' : MPS 𝕜} {site distr : Nat}
    {tol : ℝ} (hψ : ψ.wellFormed = true) (hd : 0 < ψ.qd.length) (ha : 0 < (ψ.qD.getD site []).length)
    (h : resplitMps k ψ site distr tol = .ok ψ') : ψ'.wellFormed = true := by
  unfold resplitMps at h
  obtain ⟨hl, hwf⟩ := (wellFormed_iff_idx ψ).1 hψ
  split at h
  · rename_i A0 A1 h0 h1
    rw [bind_ok] at h
    obtain ⟨⟨B0, B1, qb⟩, hs, h⟩ := h
    rw [pure_ok] at h
    subst h
    obtain ⟨hs0, rfl⟩ := List.getElem?_eq_some_iff.1 h0
    obtain ⟨hs1, rfl⟩ := List.getElem?_eq_some_iff.1 h1
    have w0 := hwf site hs0
    have w1 := hwf (site + 1) hs1
    obtain ⟨wB0, wB1⟩ := splitMps_wf hsvd hs (A := MPS.mergePair ψ.A[site] ψ.A[site + 1]) w0.d1 w1.d2 hd ha
    refine (wellFormed_iff_idx _).2 ⟨by simpa using hl, ?_⟩
    intro j hj
    simp only [List.length_set] at hj
    dsimp only
    by_cases hj0 : j = site
    · subst hj0
      rw [List.getElem_set_ne (by omega), List.getElem_set_self, getD_set_ne _ _ _ (by omega),
        getD_set_self _ _ _ (by omega)]
      exact wB0
    · by_cases hj1 : j = site + 1
      · subst hj1
        rw [List.getElem_set_self, getD_set_self _ _ _ (by omega), getD_set_ne _ _ _ (by omega)]
        exact wB1
      · rw [List.getElem_set_ne (by omega), List.getElem_set_ne (by omega), getD_set_ne _ _ _ (by omega),
          getD_set_ne _ _ _ (by omega)]
        exact hwf j hj
  · cases h

end resplit

end Ptn.HistWf

import PtnModel.Proofs.HistBoundary
/-!
# C02: boundary bond charges are kept by `MPO.orthonormalize` when the returned factor is non-zero
(the MPO sweeps are MPS sweeps of the matricized chain, see `HistBoundary.lean`)
-/
set_option linter.unusedSectionVars false
namespace Ptn.HistWf
open Ptn.Hist Ptn.Ortho Ptn.BondOps Ptn.Dense Finset
variable {𝕜 : Type} [CommRing 𝕜] [DecidableEq 𝕜]
variable {dqr : Mat 𝕜 → Mat 𝕜 × Mat 𝕜}
variable {ρ : Type} [Field ρ] [LinearOrder ρ] [IsStrictOrderedRing ρ] [RealLike ρ 𝕜]

theorem dims_one4 {T : T4 𝕜} (h : (T.d0 == 1 && T.d1 == 1 && T.d2 == 1 && T.d3 == 1) = true) :
    T.d0 = 1 ∧ T.d1 = 1 ∧ T.d2 = 1 ∧ T.d3 = 1 := by
  simpa [and_assoc] using h

theorem toT3_f000 (T : T4 𝕜) : (toT3 T).f 0 0 0 = T.f 0 0 0 0 := by
  show T.f (0 / T.d1) (0 % T.d1) 0 0 = _
  simp

theorem getLast?_neg_inj {a b : List (List Int)} (h : (a.map QN.neg).getLast? = (b.map QN.neg).getLast?) :
    a.getLast? = b.getLast? := by
  rw [getLast?_map_neg, getLast?_map_neg] at h
  cases h1 : a.getLast? with
  | none =>
    rw [h1] at h
    cases h2 : b.getLast? with
    | none => rfl
    | some y => rw [h2] at h; cases h
  | some x =>
    rw [h1] at h
    cases h2 : b.getLast? with
    | none => rw [h2] at h; cases h
    | some y =>
      rw [h2] at h
      simp only [Option.map_some, Option.some.injEq] at h
      have := congrArg QN.neg h
      rw [neg_neg, neg_neg] at this
      rw [this]

theorem getLast?_cons_of_ne_nil {α : Type} (x : α) {l : List α} (h : l ≠ []) : (x :: l).getLast? = l.getLast? := by
  obtain ⟨y, ys, rfl⟩ := List.exists_cons_of_ne_nil h
  rw [List.getLast?_cons_cons]

theorem ortho_mpo_boundary (hshape : ∀ B, ShapeAt dqr B) (hre : RealLike.re (0 : 𝕜) = (0 : ρ))
    {o o' : MPO 𝕜} {nrm : ρ} {left : Bool}
    (h : MPO.orthonormalize dqr o left = .ok (o', nrm)) (hn : nrm ≠ 0) :
    o'.qD.head? = o.qD.head? ∧ o'.qD.getLast? = o.qD.getLast? := by
  obtain ⟨qd, qD, A⟩ := o
  cases A with
  | nil =>
    simp only [MPO.orthonormalize, Except.ok.injEq, Prod.mk.injEq] at h
    rw [← h.1]; exact ⟨rfl, rfl⟩
  | cons A0 rest =>
    cases left with
    | true =>
      cases qD with
      | nil => simp [MPO.orthonormalize] at h
      | cons q0 qrest =>
        rw [mpo_ortho_left_eq] at h
        cases hs : MPO.sweepLeftQr dqr qd A0 q0 rest qrest with
        | error e => rw [hs] at h; cases h
        | ok r =>
          obtain ⟨As, qs, T⟩ := r
          rw [hs] at h
          dsimp only at h
          split at h
          · rename_i hdims
            obtain ⟨-, -, hT2, -⟩ := dims_one4 hdims
            have hsw := (mpo_sweepLeft_of_run hs).1
            have key : T.f 0 0 0 0 ≠ 0 → qs.getLast? = qrest.getLast? := fun hT =>
              sweepLeft_last hsw hshape (by show T.d2 = 1; exact hT2) (by rw [toT3_f000]; exact hT)
            have hne : qs ≠ [] ∧ qrest ≠ [] := sweepLeft_ne_nil hsw
            have fin : ∀ (As' : List (T4 𝕜)), T.f 0 0 0 0 ≠ 0 →
                (⟨qd, q0 :: qs, As'⟩ : MPO 𝕜).qD.head? = (q0 :: qrest).head? ∧
                (⟨qd, q0 :: qs, As'⟩ : MPO 𝕜).qD.getLast? = (q0 :: qrest).getLast? := by
              intro As' hT
              refine ⟨rfl, ?_⟩
              show (q0 :: qs).getLast? = (q0 :: qrest).getLast?
              rw [getLast?_cons_of_ne_nil _ hne.1, getLast?_cons_of_ne_nil _ hne.2]
              exact key hT
            split at h
            · rename_i hneg
              injection h with h; injection h with h1 h2
              rw [← h1]
              exact fin _ (T_ne_zero_of_nrm hre (by rw [← h2, if_pos hneg]) hn)
            · rename_i hneg
              injection h with h; injection h with h1 h2
              rw [← h1]
              exact fin _ (T_ne_zero_of_nrm hre (by rw [← h2, if_neg hneg]) hn)
          · cases h
    | false =>
      cases hAr : (A0 :: rest).reverse with
      | nil => simp at hAr
      | cons Al rrest =>
        cases hqr : qD.reverse with
        | nil =>
          simp only [MPO.orthonormalize, hAr, hqr] at h
          simp at h
        | cons ql qrrest =>
          rw [mpo_ortho_right_eq qd A0 rest qD hAr hqr] at h
          cases hs : MPO.sweepRightQr dqr qd Al ql rrest qrrest with
          | error e => rw [hs] at h; cases h
          | ok r =>
            obtain ⟨As, qs, T⟩ := r
            rw [hs] at h
            dsimp only at h
            split at h
            · rename_i hdims
              obtain ⟨-, -, -, hT3⟩ := dims_one4 hdims
              have hsw := (mpo_sweepRight_of_run hs).1
              injection h with h; injection h with h1 h2
              have hT : T.f 0 0 0 0 ≠ 0 := T_ne_zero_of_nrm hre h2.symm hn
              have key := getLast?_neg_inj (sweepLeft_last hsw hshape (by show T.d3 = 1; exact hT3)
                (by show (toT3 T).f 0 0 0 ≠ 0; rw [toT3_f000]; exact hT))
              have hne : qs ≠ [] ∧ qrrest ≠ [] := by
                obtain ⟨n1, n2⟩ := sweepLeft_ne_nil hsw
                exact ⟨fun h0 => n1 (by rw [h0]; rfl), fun h0 => n2 (by rw [h0]; rfl)⟩
              rw [← h1]
              have hqD : qD = (ql :: qrrest).reverse := by rw [← hqr, List.reverse_reverse]
              show ((ql :: qs).reverse).head? = qD.head? ∧ ((ql :: qs).reverse).getLast? = qD.getLast?
              rw [hqD, List.head?_reverse, List.head?_reverse, List.getLast?_reverse, List.getLast?_reverse]
              refine ⟨?_, rfl⟩
              rw [getLast?_cons_of_ne_nil _ hne.1, getLast?_cons_of_ne_nil _ hne.2]
              exact key
            · cases h

end Ptn.HistWf

import PtnModel.Proofs.QrFold
/-!
# Algebraic invariants of the loop of `qr`: product and isometry

* `ProdInv` (needs the product clause of the kernel contract): `Q[:, :D] @ R[:D, :]` equals `As` on the blocks
  of the processed charges and vanishes elsewhere;
* `IsoInv`  (needs the isometry clause): the first `D` columns of `Q` are orthonormal.
-/
set_option linter.unusedSectionVars false

namespace Ptn.BondOps
open Finset

variable {𝕜 : Type} [CommRing 𝕜] [DecidableEq 𝕜]
variable {dqr : Mat 𝕜 → Mat 𝕜 × Mat 𝕜} {As : Mat 𝕜} {q0s q1s : List Int}

/-- product clause of the QR kernel contract at the matrix `B` -/
def ProdAt (dqr : Mat 𝕜 → Mat 𝕜 × Mat 𝕜) (B : Mat 𝕜) : Prop :=
  ∀ (i j : Nat), i < B.m → j < B.n → ((dqr B).1.mul (dqr B).2).f i j = B.f i j

/-- the product clause holds at all blocks of shared charges -/
def ProdOn (dqr : Mat 𝕜 → Mat 𝕜 × Mat 𝕜) (As : Mat 𝕜) (q0s q1s : List Int) : Prop :=
  ∀ c, c ∈ q0s → c ∈ q1s → ProdAt dqr (blk As q0s q1s c)

/-- membership in the block of `c` ⇔ carrying the value `c` (sorted list) -/
theorem block_iff {q : List Int} (hs : q.Pairwise (· ≤ ·)) {c : Int} (h : c ∈ q) {i : Nat} (hi : i < q.length) :
    (firstIdx q c ≤ i ∧ i < lastIdxSucc q c) ↔ q.getD i 0 = c :=
  ⟨fun hb => block_mem hs h hb.1 hb.2, fun he => block_of_eq hi he⟩

/-- entries of the new columns of `Q` after one step -/
theorem step_Q_new (C : SortedCtx dqr As q0s q1s) {P : List Int} {st : QRState 𝕜} {c : Int}
    (I : BaseInv As q0s q1s P st) (h0 : c ∈ q0s) (h1 : c ∈ q1s) (i p : Nat)
    (hp : p < (dqr (blk As q0s q1s c)).1.n) :
    (qrStep dqr As q0s q1s st c).Q.f i (st.D + p) =
      if firstIdx q0s c ≤ i ∧ i < lastIdxSucc q0s c then (dqr (blk As q0s q1s c)).1.f (i - firstIdx q0s c) p else 0 := by
  obtain ⟨a1, a2, b1, b2, -, -, s1, s2, s3, s4⟩ := C.blk_shape h0 h1
  rw [qrStep_eq]
  simp only
  rw [Mat.setBlock_f]
  by_cases hb : firstIdx q0s c ≤ i ∧ i < lastIdxSucc q0s c
  · rw [if_pos (by omega), if_pos hb, Nat.add_sub_cancel_left]
  · rw [if_neg (by omega), if_neg hb]
    by_contra hne
    have := (I.Qsupp i (st.D + p) hne).2.1
    omega

/-- entries of the old columns of `Q` are untouched -/
theorem step_Q_old (st : QRState 𝕜) (c : Int) (i p : Nat) (hp : p < st.D) :
    (qrStep dqr As q0s q1s st c).Q.f i p = st.Q.f i p := by
  rw [qrStep_eq]
  simp only
  rw [Mat.setBlock_f, if_neg (by omega)]

theorem step_R_new (C : SortedCtx dqr As q0s q1s) {P : List Int} {st : QRState 𝕜} {c : Int}
    (I : BaseInv As q0s q1s P st) (h0 : c ∈ q0s) (h1 : c ∈ q1s) (p j : Nat)
    (hp : p < (dqr (blk As q0s q1s c)).1.n) :
    (qrStep dqr As q0s q1s st c).R.f (st.D + p) j =
      if firstIdx q1s c ≤ j ∧ j < lastIdxSucc q1s c then (dqr (blk As q0s q1s c)).2.f p (j - firstIdx q1s c) else 0 := by
  obtain ⟨a1, a2, b1, b2, -, -, s1, s2, s3, s4⟩ := C.blk_shape h0 h1
  rw [qrStep_eq]
  simp only
  rw [Mat.setBlock_f]
  by_cases hb : firstIdx q1s c ≤ j ∧ j < lastIdxSucc q1s c
  · rw [if_pos (by omega), if_pos hb, Nat.add_sub_cancel_left]
  · rw [if_neg (by omega), if_neg hb]
    by_contra hne
    have := (I.Rsupp (st.D + p) j hne).2.1
    omega

theorem step_R_old (st : QRState 𝕜) (c : Int) (p j : Nat) (hp : p < st.D) :
    (qrStep dqr As q0s q1s st c).R.f p j = st.R.f p j := by
  rw [qrStep_eq]
  simp only
  rw [Mat.setBlock_f, if_neg (by omega)]

theorem step_D (st : QRState 𝕜) (c : Int) :
    (qrStep dqr As q0s q1s st c).D = st.D + (dqr (blk As q0s q1s c)).1.n := rfl

/-! ### product -/

/-- `Q[:, :D] @ R[:D, :]` is `As` restricted to the blocks of the processed charges `P` -/
def ProdInv (As : Mat 𝕜) (q0s q1s : List Int) (P : List Int) (st : QRState 𝕜) : Prop :=
  ∀ i j, i < As.m → j < As.n →
    ∑ p ∈ range st.D, st.Q.f i p * st.R.f p j =
      if q0s.getD i 0 ∈ P ∧ q0s.getD i 0 = q1s.getD j 0 then As.f i j else 0

theorem prodInv_init (As : Mat 𝕜) (q0s q1s : List Int) (Q R : Mat 𝕜) :
    ProdInv As q0s q1s [] ⟨0, Q, R, []⟩ := by
  intro i j _ _
  simp

/-- the contribution of the new block -/
theorem step_new_sum (C : SortedCtx dqr As q0s q1s) (hprod : ProdOn dqr As q0s q1s) {P : List Int} {st : QRState 𝕜} {c : Int}
    (I : BaseInv As q0s q1s P st) (h0 : c ∈ q0s) (h1 : c ∈ q1s) (i j : Nat) :
    ∑ p ∈ range (dqr (blk As q0s q1s c)).1.n,
        (qrStep dqr As q0s q1s st c).Q.f i (st.D + p) * (qrStep dqr As q0s q1s st c).R.f (st.D + p) j =
      if (firstIdx q0s c ≤ i ∧ i < lastIdxSucc q0s c) ∧ (firstIdx q1s c ≤ j ∧ j < lastIdxSucc q1s c)
      then As.f i j else 0 := by
  obtain ⟨a1, a2, b1, b2, hm, hn, s1, s2, s3, s4⟩ := C.blk_shape h0 h1
  have e : ∀ p ∈ range (dqr (blk As q0s q1s c)).1.n,
      (qrStep dqr As q0s q1s st c).Q.f i (st.D + p) * (qrStep dqr As q0s q1s st c).R.f (st.D + p) j =
      (if firstIdx q0s c ≤ i ∧ i < lastIdxSucc q0s c then (dqr (blk As q0s q1s c)).1.f (i - firstIdx q0s c) p else 0) *
      (if firstIdx q1s c ≤ j ∧ j < lastIdxSucc q1s c then (dqr (blk As q0s q1s c)).2.f p (j - firstIdx q1s c) else 0) := by
    intro p hp
    rw [step_Q_new C I h0 h1 i p (mem_range.1 hp), step_R_new C I h0 h1 p j (mem_range.1 hp)]
  rw [sum_congr rfl e]
  by_cases hr : firstIdx q0s c ≤ i ∧ i < lastIdxSucc q0s c
  · by_cases hc : firstIdx q1s c ≤ j ∧ j < lastIdxSucc q1s c
    · simp only [if_pos hr, if_pos hc]
      have hi' : i - firstIdx q0s c < (blk As q0s q1s c).m := by rw [hm]; omega
      have hj' : j - firstIdx q1s c < (blk As q0s q1s c).n := by rw [hn]; omega
      rw [← Mat.mul_f, hprod c h0 h1 _ _ hi' hj', if_pos ⟨hr, hc⟩]
      unfold blk at hi' hj' ⊢
      rw [Mat.tab_f _ (by simpa using hi') (by simpa using hj'), Mat.slice_f,
        Nat.add_sub_of_le hr.1, Nat.add_sub_of_le hc.1]
    · simp only [if_neg hc, mul_zero, sum_const_zero]
      rw [if_neg (fun h => hc h.2)]
  · simp only [if_neg hr, zero_mul, sum_const_zero]
    rw [if_neg (fun h => hr h.1)]

theorem prodInv_step (C : SortedCtx dqr As q0s q1s) (hprod : ProdOn dqr As q0s q1s) {P : List Int} {st : QRState 𝕜} {c : Int}
    (I : BaseInv As q0s q1s P st) (J : ProdInv As q0s q1s P st)
    (hP : ∀ c' ∈ P, c' < c) (h0 : c ∈ q0s) (h1 : c ∈ q1s) :
    ProdInv As q0s q1s (P ++ [c]) (qrStep dqr As q0s q1s st c) := by
  intro i j hi hj
  have hcP : c ∉ P := fun h => lt_irrefl c (hP c h)
  rw [step_D, sum_range_add, step_new_sum C hprod I h0 h1 i j]
  have e : ∑ p ∈ range st.D, (qrStep dqr As q0s q1s st c).Q.f i p * (qrStep dqr As q0s q1s st c).R.f p j =
      ∑ p ∈ range st.D, st.Q.f i p * st.R.f p j := by
    apply sum_congr rfl
    intro p hp
    rw [step_Q_old st c i p (mem_range.1 hp), step_R_old st c p j (mem_range.1 hp)]
  rw [e, J i j hi hj]
  simp only [block_iff C.hs0 h0 (C.hl0 ▸ hi), block_iff C.hs1 h1 (C.hl1 ▸ hj)]
  generalize q0s.getD i 0 = a
  generalize q1s.getD j 0 = b
  by_cases ha : a = c
  · subst ha
    by_cases hb : b = a
    · subst hb; simp [hcP]
    · simp [hcP, hb, Ne.symm hb]
  · simp [ha]

theorem prodInv_foldl (C : SortedCtx dqr As q0s q1s) (hprod : ProdOn dqr As q0s q1s) {qis : List Int}
    (hq : qis.Pairwise (· < ·)) (hmem : ∀ c ∈ qis, c ∈ q0s ∧ c ∈ q1s) (m' n' m'' n'' : Nat) :
    ProdInv As q0s q1s qis
      (qis.foldl (qrStep dqr As q0s q1s) ⟨0, Mat.zero m' n', Mat.zero m'' n'', []⟩) := by
  have := foldl_prefix_inv (qrStep dqr As q0s q1s)
    (fun P st => BaseInv As q0s q1s P st ∧ ProdInv As q0s q1s P st) qis []
    ⟨0, Mat.zero m' n', Mat.zero m'' n'', []⟩ ?_
    ⟨baseInv_init As q0s q1s m' n' m'' n'', prodInv_init As q0s q1s _ _⟩
  · simpa using this.2
  · intro P' st' c rest' he I
    have he' : qis = P' ++ c :: rest' := by simpa using he
    have hc := hmem c (by rw [he']; simp)
    have hlt := prefix_lt_of_pairwise hq he'
    exact ⟨baseInv_step C I.1 hlt hc.1 hc.2, prodInv_step C hprod I.1 I.2 hlt hc.1 hc.2⟩

/-! ### isometry -/

variable [StarRing 𝕜]

/-- isometry clause of the QR kernel contract at the matrix `B` -/
def IsoAt (dqr : Mat 𝕜 → Mat 𝕜 × Mat 𝕜) (B : Mat 𝕜) : Prop :=
  ∀ (p p' : Nat), p < min B.m B.n → p' < min B.m B.n →
    ∑ i ∈ range B.m, star ((dqr B).1.f i p) * (dqr B).1.f i p' = if p = p' then 1 else 0

/-- the isometry clause holds at all blocks of shared charges -/
def IsoOn (dqr : Mat 𝕜 → Mat 𝕜 × Mat 𝕜) (As : Mat 𝕜) (q0s q1s : List Int) : Prop :=
  ∀ c, c ∈ q0s → c ∈ q1s → IsoAt dqr (blk As q0s q1s c)

/-- the first `D` columns of `Q` are orthonormal -/
def IsoInv (As : Mat 𝕜) (st : QRState 𝕜) : Prop :=
  ∀ p p', p < st.D → p' < st.D →
    ∑ i ∈ range As.m, star (st.Q.f i p) * st.Q.f i p' = if p = p' then 1 else 0

theorem isoInv_init (As : Mat 𝕜) (Q R : Mat 𝕜) : IsoInv As ⟨0, Q, R, []⟩ := by
  intro p p' hp _
  exact absurd hp (Nat.not_lt_zero _)

/-- an old column and a new column are orthogonal termwise -/
theorem step_cross (C : SortedCtx dqr As q0s q1s) {P : List Int} {st : QRState 𝕜} {c : Int}
    (I : BaseInv As q0s q1s P st) (hP : ∀ c' ∈ P, c' < c) (h0 : c ∈ q0s) (h1 : c ∈ q1s)
    (i p p' : Nat) (hp : p < (dqr (blk As q0s q1s c)).1.n) (hp' : p' < st.D) :
    (qrStep dqr As q0s q1s st c).Q.f i (st.D + p) = 0 ∨ (qrStep dqr As q0s q1s st c).Q.f i p' = 0 := by
  have hcP : c ∉ P := fun h => lt_irrefl c (hP c h)
  rw [step_Q_new C I h0 h1 i p hp, step_Q_old st c i p' hp']
  by_cases hb : firstIdx q0s c ≤ i ∧ i < lastIdxSucc q0s c
  · right
    by_contra hne
    obtain ⟨x1, x2, x3⟩ := I.Qsupp i p' hne
    have hi : q0s.getD i 0 = c := block_mem C.hs0 h0 hb.1 hb.2
    have := I.qmem p' x2
    rw [← x3, hi] at this
    exact hcP this
  · left; rw [if_neg hb]

theorem isoInv_step (C : SortedCtx dqr As q0s q1s) (hiso : IsoOn dqr As q0s q1s) {P : List Int} {st : QRState 𝕜} {c : Int}
    (I : BaseInv As q0s q1s P st) (J : IsoInv As st)
    (hP : ∀ c' ∈ P, c' < c) (h0 : c ∈ q0s) (h1 : c ∈ q1s) :
    IsoInv As (qrStep dqr As q0s q1s st c) := by
  obtain ⟨a1, a2, b1, b2, hm, hn, s1, s2, s3, s4⟩ := C.blk_shape h0 h1
  intro p p' hp hp'
  rw [step_D] at hp hp'
  by_cases h : p < st.D
  · by_cases h' : p' < st.D
    · rw [← J p p' h h']
      apply sum_congr rfl
      intro i _
      rw [step_Q_old st c i p h, step_Q_old st c i p' h']
    · obtain ⟨t, rfl⟩ := Nat.exists_eq_add_of_le (Nat.le_of_not_lt h')
      rw [if_neg (by omega)]
      apply sum_eq_zero
      intro i _
      rcases step_cross C I hP h0 h1 i t p (by omega) h with hz | hz
      · rw [hz, mul_zero]
      · rw [hz, star_zero, zero_mul]
  · obtain ⟨t, rfl⟩ := Nat.exists_eq_add_of_le (Nat.le_of_not_lt h)
    by_cases h' : p' < st.D
    · rw [if_neg (by omega)]
      apply sum_eq_zero
      intro i _
      rcases step_cross C I hP h0 h1 i t p' (by omega) h' with hz | hz
      · rw [hz, star_zero, zero_mul]
      · rw [hz, mul_zero]
    · obtain ⟨t', rfl⟩ := Nat.exists_eq_add_of_le (Nat.le_of_not_lt h')
      have e : ∀ i ∈ range As.m,
          star ((qrStep dqr As q0s q1s st c).Q.f i (st.D + t)) * (qrStep dqr As q0s q1s st c).Q.f i (st.D + t') =
          if firstIdx q0s c ≤ i ∧ i < firstIdx q0s c + (lastIdxSucc q0s c - firstIdx q0s c) then
            star ((dqr (blk As q0s q1s c)).1.f (i - firstIdx q0s c) t) *
              (dqr (blk As q0s q1s c)).1.f (i - firstIdx q0s c) t' else 0 := by
        intro i _
        rw [step_Q_new C I h0 h1 i t (by omega), step_Q_new C I h0 h1 i t' (by omega)]
        by_cases hb : firstIdx q0s c ≤ i ∧ i < lastIdxSucc q0s c
        · rw [if_pos hb, if_pos hb, if_pos (by omega)]
        · rw [if_neg hb, if_neg hb, if_neg (by omega), mul_zero]
      rw [sum_congr rfl e, sum_range_block As.m _ _ (by omega)
        (fun k => star ((dqr (blk As q0s q1s c)).1.f k t) * (dqr (blk As q0s q1s c)).1.f k t')]
      have := hiso c h0 h1 t t' (by rw [hm, hn]; omega) (by rw [hm, hn]; omega)
      rw [hm] at this
      rw [this]
      by_cases htt : t = t'
      · rw [if_pos htt, if_pos (by omega)]
      · rw [if_neg htt, if_neg (by omega)]

theorem isoInv_foldl (C : SortedCtx dqr As q0s q1s) (hiso : IsoOn dqr As q0s q1s) {qis : List Int}
    (hq : qis.Pairwise (· < ·)) (hmem : ∀ c ∈ qis, c ∈ q0s ∧ c ∈ q1s) (m' n' m'' n'' : Nat) :
    IsoInv As (qis.foldl (qrStep dqr As q0s q1s) ⟨0, Mat.zero m' n', Mat.zero m'' n'', []⟩) := by
  have := foldl_prefix_inv (qrStep dqr As q0s q1s)
    (fun P st => BaseInv As q0s q1s P st ∧ IsoInv As st) qis []
    ⟨0, Mat.zero m' n', Mat.zero m'' n'', []⟩ ?_
    ⟨baseInv_init As q0s q1s m' n' m'' n'', isoInv_init As _ _⟩
  · simpa using this.2
  · intro P' st' c rest' he I
    have he' : qis = P' ++ c :: rest' := by simpa using he
    have hc := hmem c (by rw [he']; simp)
    have hlt := prefix_lt_of_pairwise hq he'
    exact ⟨baseInv_step C I.1 hlt hc.1 hc.2, isoInv_step C hiso I.1 I.2 hlt hc.1 hc.2⟩

end Ptn.BondOps

import PtnModel.Proofs.ExplTermSpec
/-!
# Explicit molecular graph, part 6: the interaction terms, all 13 relative orders of `i < j`, `k < l`
-/
set_option linter.unusedSectionVars false
set_option linter.unusedSimpArgs false
set_option linter.unusedVariables false
set_option linter.unusedTactic false
set_option linter.unreachableTactic false

namespace Ptn.Ham
open Ptn.Og List Ptn.Ham2

theorem int_tspec_c1 (L : Int) (hL : 4 ≤ L) (i j k l : Int) (p0 : 0 ≤ i) (h0 : i < j) (h1 : j < k) (h2 : k < l) (hl : l < L) :
    Tspec L (intF i.toNat j.toNat k.toNat l.toNat) (intLab L i j k l) := by
  int_sort
  int_fin

theorem int_tspec_c2 (L : Int) (hL : 4 ≤ L) (i j l : Int) (p0 : 0 ≤ i) (h0 : i < j) (h1 : j < l) (hl : l < L) :
    Tspec L (intF i.toNat j.toNat j.toNat l.toNat) (intLab L i j j l) := by
  int_sort
  int_fin

theorem int_tspec_c3 (L : Int) (hL : 4 ≤ L) (i j k l : Int) (p0 : 0 ≤ i) (h0 : i < k) (h1 : k < j) (h2 : j < l) (hl : l < L) :
    Tspec L (intF i.toNat j.toNat k.toNat l.toNat) (intLab L i j k l) := by
  int_sort
  int_fin

theorem int_tspec_c4 (L : Int) (hL : 4 ≤ L) (i j k : Int) (p0 : 0 ≤ i) (h0 : i < k) (h1 : k < j) (hl : j < L) :
    Tspec L (intF i.toNat j.toNat k.toNat j.toNat) (intLab L i j k j) := by
  int_sort
  int_fin

theorem int_tspec_c5 (L : Int) (hL : 4 ≤ L) (i j k l : Int) (p0 : 0 ≤ i) (h0 : i < k) (h1 : k < l) (h2 : l < j) (hl : j < L) :
    Tspec L (intF i.toNat j.toNat k.toNat l.toNat) (intLab L i j k l) := by
  int_sort
  int_fin

theorem int_tspec_c6 (L : Int) (hL : 4 ≤ L) (i j l : Int) (p0 : 0 ≤ i) (h0 : i < j) (h1 : j < l) (hl : l < L) :
    Tspec L (intF i.toNat j.toNat i.toNat l.toNat) (intLab L i j i l) := by
  int_sort
  int_fin

theorem int_tspec_c7 (L : Int) (hL : 4 ≤ L) (i j : Int) (p0 : 0 ≤ i) (h0 : i < j) (hl : j < L) :
    Tspec L (intF i.toNat j.toNat i.toNat j.toNat) (intLab L i j i j) := by
  int_sort
  int_fin

end Ptn.Ham

import PtnModel.Proofs.BridgeElem
import PtnModel.Proofs.SymDenseBasic
import PtnModel.Proofs.DenseMergeMpo
import PtnModel.Proofs.DenseSparseEq
/-!
# The kron-based `mpoAsMatrix` of `Model/OpGraph.lean` versus `MPO.elemRow`

`mpoAsMatrix` keeps, for every right bond index `j`, the matrix `cur_j = Σ_i kron(cur_i, A[:, :, i, j])`.  For a chain of
rectangular tensors with positive bond dimensions the entry of `cur_b` at the row-major positions of the digit lists
`(s, t)` is the row propagation `MPO.elemRow` of the MPO model.
-/
set_option linter.unusedSectionVars false
namespace Ptn.Ch
open Ptn Ptn.Og List

variable {κ : Type} [CommRing κ] [DecidableEq κ]

/-- the nested list has `d` rows of `d` columns (the physical dimensions `mpoAsMatrix` reads off with `len`) -/
def RectPhys (d : Nat) (A : Tensor κ) : Prop := A.length = d ∧ ∀ Aa ∈ A, Aa.length = d

theorem tensorSlice_isMat {d : Nat} {A : Tensor κ} (hA : RectPhys d A) (i j : Nat) : IsMat (tensorSlice A i j) d d := by
  unfold tensorSlice
  refine ⟨by simp [hA.1], ?_⟩
  intro r hr
  rw [mem_map] at hr
  obtain ⟨Aa, hAa, rfl⟩ := hr
  simp [hA.2 Aa hAa]

theorem tensorSlice_entry {d : Nat} {A : Tensor κ} (hA : RectPhys d A) (i j s t : Nat) (hs : s < d) (ht : t < d) :
    (tensorSlice A i j).entry s t = tEntry A s t i j := by
  unfold tensorSlice Mat.entry tEntry
  have hs' : s < A.length := by rw [hA.1]; exact hs
  have hrow : (A[s]).length = d := hA.2 _ (getElem_mem _)
  have ht' : t < (A[s]).length := by rw [hrow]; exact ht
  simp [List.getD_eq_getElem?_getD, hs', ht']

/-- one bond index of one step of `mpoAsMatrix`: shape and entries of `Σ_i kron(cur_i, A[:, :, i, j])` -/
theorem foldl_add_kron {d n : Nat} {A : Tensor κ} (hA : RectPhys d A) (j : Nat) :
    ∀ (cur : List (Og.Mat κ)) (k : Nat) (acc : Og.Mat κ), (∀ m ∈ cur, IsMat m n n) → IsMat acc (n * d) (n * d) →
      IsMat ((cur.zipIdx k).foldl (fun acc (mi : Og.Mat κ × Nat) => Mat.add acc (Mat.kron mi.1 (tensorSlice A mi.2 j))) acc)
        (n * d) (n * d) ∧
      ∀ i0 j0 s t, s < d → t < d →
        ((cur.zipIdx k).foldl (fun acc (mi : Og.Mat κ × Nat) => Mat.add acc (Mat.kron mi.1 (tensorSlice A mi.2 j))) acc).entry
            (i0 * d + s) (j0 * d + t)
          = acc.entry (i0 * d + s) (j0 * d + t) +
            ((List.range cur.length).map fun i => (cur.getD i []).entry i0 j0 * tEntry A s t (k + i) j).sum := by
  intro cur
  induction cur with
  | nil => intro k acc _ hacc; exact ⟨hacc, by simp⟩
  | cons m cur ih =>
    intro k acc hcur hacc
    have hm : IsMat m n n := hcur m (by simp)
    have hk : IsMat (Mat.kron m (tensorSlice A k j)) (n * d) (n * d) := kron_isMat hm (tensorSlice_isMat hA k j)
    have hacc' := add_isMat hacc hk
    obtain ⟨h1, h2⟩ := ih (k + 1) _ (fun m' hm' => hcur m' (mem_cons_of_mem _ hm')) hacc'
    rw [zipIdx_cons, foldl_cons]
    refine ⟨h1, ?_⟩
    intro i0 j0 s t hs ht
    rw [h2 i0 j0 s t hs ht, add_entry hacc hk, kron_entry m (tensorSlice_isMat hA k j) i0 j0 s t hs ht,
      tensorSlice_entry hA k j s t hs ht, length_cons, range_succ_eq_map, map_cons, sum_cons, map_map]
    simp only [List.getD_cons_zero, Nat.add_zero, add_assoc]
    congr 2
    apply congrArg
    apply map_congr_left
    intro i _
    simp only [Function.comp, List.getD_cons_succ]
    congr 2
    omega

/-- one step of the fold of `mpoAsMatrix` -/
def kronStep (cur : List (Og.Mat κ)) (A : Tensor κ) : List (Og.Mat κ) :=
  let D1 := (((A.getD 0 []).getD 0 []).getD 0 []).length
  let dim := (cur.headD []).length * A.length
  (List.range D1).map fun j =>
    (cur.zipIdx).foldl (fun acc (mi : Og.Mat κ × Nat) => Mat.add acc (Mat.kron mi.1 (tensorSlice A mi.2 j)))
      (Og.Mat.zero dim dim)

theorem kronStep_spec {d n : Nat} {A : Tensor κ} (hA : RectPhys d A) (cur : List (Og.Mat κ)) (hne : cur ≠ [])
    (hcur : ∀ m ∈ cur, IsMat m n n) :
    (kronStep cur A).length = D1of A ∧ (∀ m ∈ kronStep cur A, IsMat m (n * d) (n * d)) ∧
    ∀ i0 j0 s t b, s < d → t < d → b < D1of A →
      ((kronStep cur A).getD b []).entry (i0 * d + s) (j0 * d + t)
        = ((List.range cur.length).map fun i => (cur.getD i []).entry i0 j0 * tEntry A s t i b).sum := by
  have hdim : (cur.headD []).length * A.length = n * d := by
    cases cur with
    | nil => exact absurd rfl hne
    | cons m rest => simp [(hcur m (by simp)).1, hA.1]
  unfold kronStep
  simp only [hdim]
  refine ⟨by simp [D1of], ?_, ?_⟩
  · intro m hm
    rw [mem_map] at hm
    obtain ⟨j, _, rfl⟩ := hm
    exact (foldl_add_kron hA j cur 0 _ hcur (zero_isMat _ _)).1
  · intro i0 j0 s t b hs ht hb
    have hb' : b < (((A.getD 0 []).getD 0 []).getD 0 []).length := hb
    rw [getD_map_range _ _ b _ hb', (foldl_add_kron hA b cur 0 _ hcur (zero_isMat _ _)).2 i0 j0 s t hs ht, zero_entry,
      zero_add]
    simp

theorem sum_range_eq_list (n : Nat) (f : Nat → κ) : (∑ a ∈ Finset.range n, f a) = ((List.range n).map f).sum := by
  rw [← Dense.sumRange_eq, sumRange_eq_list]

/-- the fold of `mpoAsMatrix` over a chain of rectangular tensors with positive bond dimensions -/
theorem kronFold_spec (d : Nat) : ∀ (Ts : List (Tensor κ)) (Dl Dr n : Nat) (cur : List (Og.Mat κ)),
    MPO.Chain d Dl (Ts.map toT4) Dr → (∀ A ∈ Ts, RectPhys d A) → 0 < Dl → (∀ A ∈ Ts, 0 < D1of A) →
    cur.length = Dl → (∀ m ∈ cur, IsMat m n n) →
    (Ts.foldl kronStep cur).length = Dr ∧
    (∀ m ∈ Ts.foldl kronStep cur, IsMat m (n * d ^ Ts.length) (n * d ^ Ts.length)) ∧
    ∀ i0 j0 s t, Digits d Ts.length s → Digits d Ts.length t → ∀ b, b < Dr →
      ((Ts.foldl kronStep cur).getD b []).entry (flatFrom d i0 s) (flatFrom d j0 t)
        = MPO.elemRow (Ts.map toT4) s t (fun a => (cur.getD a []).entry i0 j0) b := by
  intro Ts
  induction Ts with
  | nil =>
    intro Dl Dr n cur hch _ _ _ hlen hcur
    simp only [map_nil, MPO.Chain] at hch
    subst hch
    refine ⟨hlen, by simpa using hcur, ?_⟩
    intro i0 j0 s t hs ht b _
    have : s = [] := List.eq_nil_of_length_eq_zero hs.1
    subst this
    have : t = [] := List.eq_nil_of_length_eq_zero ht.1
    subst this
    simp [flatFrom, MPO.elemRow_nil]
  | cons A Ts ih =>
    intro Dl Dr n cur hch hrect hDl hpos hlen hcur
    simp only [map_cons, MPO.Chain] at hch
    obtain ⟨_, _, h2, hch'⟩ := hch
    have hA : RectPhys d A := hrect A (by simp)
    have hne : cur ≠ [] := by
      intro hc; rw [hc] at hlen; simp at hlen; omega
    obtain ⟨k1, k2, k3⟩ := kronStep_spec hA cur hne hcur
    obtain ⟨r1, r1', r2⟩ := ih (D1of A) Dr (n * d) (kronStep cur A) hch' (fun B hB => hrect B (mem_cons_of_mem _ hB))
      (hpos A (by simp)) (fun B hB => hpos B (mem_cons_of_mem _ hB)) k1 k2
    rw [foldl_cons]
    refine ⟨r1, ?_, ?_⟩
    · intro m hm
      have := r1' m hm
      have e : n * d * d ^ Ts.length = n * d ^ (A :: Ts).length := by rw [length_cons, pow_succ]; ring
      rwa [e] at this
    intro i0 j0 s t hs ht b hb
    match s, t, hs, ht with
    | s0 :: ss, t0 :: ts, hs, ht =>
      have hs0 : s0 < d := hs.head
      have ht0 : t0 < d := ht.head
      rw [flatFrom_cons, flatFrom_cons, r2 (i0 * d + s0) (j0 * d + t0) ss ts hs.tail ht.tail b hb, map_cons, MPO.elemRow_cons]
      apply MPO.elemRow_congr d (Ts.map toT4) ss ts (D1of A) Dr _ _ hch' (by simpa using hs.tail.1) (by simpa using ht.tail.1)
        _ b hb
      intro a ha
      rw [k3 i0 j0 s0 t0 a hs0 ht0 ha]
      unfold MPO.step
      rw [sum_range_eq_list, h2, hlen]
      rfl
    | [], _, hs, _ => exact absurd hs.1 (by simp)
    | _ :: _, [], _, ht => exact absurd ht.1 (by simp)

/-- the tensors of the layer walk of `from_opgraph` are rectangular with positive right bond dimension -/
theorem run_rect (g : Graph κ) (opmap : OpMap κ) (d : Nat) (hd : 0 < d) :
    ∀ (Ls : List (List Int)) (Ts : List (Tensor κ)) (nids0 : List Int), Run g opmap d nids0 Ls Ts → nids0 ≠ [] →
      ∀ A ∈ Ts, RectPhys d A ∧ 0 < D1of A := by
  intro Ls
  induction Ls with
  | nil =>
    intro Ts nids0 h _
    cases Ts with
    | cons _ _ => simp [Run] at h
    | nil => simp
  | cons S Ls ih =>
    intro Ts nids0 h hne
    cases Ts with
    | nil => simp [Run] at h
    | cons A Ts =>
      obtain ⟨nids1, contribs, _, hne1, hS, _, _, hA, hrun⟩ := h
      have hSne : S ≠ [] := by rw [hS]; exact sortInts_ne_nil hne1
      intro B hB
      rcases mem_cons.1 hB with rfl | hB
      · refine ⟨?_, ?_⟩
        · rw [hA]
          refine ⟨by simp [assembleTensor], ?_⟩
          intro Aa hAa
          simp only [assembleTensor, mem_map] at hAa
          obtain ⟨a, _, rfl⟩ := hAa
          simp
        · rw [hA, assemble_D1 d _ _ contribs hd (length_pos_iff.2 hne)]
          exact length_pos_iff.2 hSne
      · exact ih Ts S hrun hSne B hB

end Ptn.Ch

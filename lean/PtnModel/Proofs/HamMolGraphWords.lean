import PtnModel.Proofs.HamGraphWords
import PtnModel.Proofs.HamSpinChains
/-!
# The graphs compiled by the bond-optimized molecular constructions denote the sum of the enumerated chains
-/
set_option linter.unusedSectionVars false

namespace Ptn.Ham
open Ptn Ptn.Og List

variable {κ : Type} [CommRing κ] [DecidableEq κ]

/-- spinless, `optimize=True`: the graph handed to `MPO.from_opgraph` denotes the sum of the identity-padded chains of the enumeration -/
theorem mol_graph_den (c : Consts κ) (tkin : List (List κ)) (vint : List (List (List (List κ)))) (b : Built κ)
    (hb : molBuildOpt c tkin vint = .ok b) (hL : 1 ≤ (tkin.length : Int)) (w : Word) :
    ∃ chains, molChains c tkin vint = .ok chains ∧ (∀ ch ∈ chains, ChainWF (tkin.length : Int) ch) ∧
      b.graph.denF w = coeffIn (denChainsRaw chains (tkin.length : Int) 0) w := by
  obtain ⟨chains, hch, hwf⟩ := molChains_wf c tkin vint
  refine ⟨chains, hch, hwf, ?_⟩
  unfold molBuildOpt at hb
  obtain ⟨_, _, hb⟩ := bind_ok hb
  obtain ⟨chains', hch', hb⟩ := bind_ok hb
  rw [hch] at hch'
  simp only [Except.ok.injEq] at hch'
  subst hch'
  obtain ⟨g, hg, hb⟩ := bind_ok hb
  have hb := ite_jp_ok hb
  obtain ⟨m, _, hb⟩ := bind_ok hb
  simp only [pure, Except.pure, Except.ok.injEq] at hb
  subst hb
  rw [← chainsDen_eq_coeffIn]
  exact Ptn.C05.from_opchains_sem _ _ _ _ hg hL (fun ch hc _ => (hwf ch hc).start) w

/-- spin-orbital basis, `optimize=True` -/
theorem spinMol_graph_den (c : Consts κ) (tkin : List (List κ)) (vint : List (List (List (List κ)))) (b : Built κ)
    (hb : spinMolBuildOpt c tkin vint = .ok b) (hL : 1 ≤ (tkin.length : Int)) (w : Word) :
    ∃ chains, spinMolChains c tkin vint = .ok chains ∧ (∀ ch ∈ chains, ChainWF (tkin.length : Int) ch) ∧
      b.graph.denF w = coeffIn (denChainsRaw chains (tkin.length : Int) 0) w := by
  obtain ⟨chains, hch, hwf⟩ := spinMolChains_wf c tkin vint
  refine ⟨chains, hch, hwf, ?_⟩
  unfold spinMolBuildOpt at hb
  obtain ⟨_, _, hb⟩ := bind_ok hb
  obtain ⟨chains', hch', hb⟩ := bind_ok hb
  rw [hch] at hch'
  simp only [Except.ok.injEq] at hch'
  subst hch'
  obtain ⟨g, hg, hb⟩ := bind_ok hb
  have hb := ite_jp_ok hb
  obtain ⟨m, _, hb⟩ := bind_ok hb
  simp only [pure, Except.pure, Except.ok.injEq] at hb
  subst hb
  rw [← chainsDen_eq_coeffIn]
  exact Ptn.C05.from_opchains_sem _ _ _ _ hg hL (fun ch hc _ => (hwf ch hc).start) w

end Ptn.Ham

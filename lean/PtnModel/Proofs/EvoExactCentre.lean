import PtnModel.Proofs.EvoExactCentreAux2
/-!
# The one-site step at the centre of a complete mixed-canonical state is the dense exponential

`s` is in mixed-canonical form with centre `c`; all sites left of `c` have the dimensions of square left isometries and all
sites right of `c` those of square right isometries.  Then the embedding `V : X ↦ dense state of s[c := X]` is unitary,
the effective one-site operator is `Vᴴ H V`, and an exact local exponential acts on the dense state as the exponential of
the dense operator.
-/
set_option linter.unusedSectionVars false

namespace Ptn.Evo
open Ptn Ptn.BondOps Ptn.Ortho Ptn.Env Ptn.Krylov Ptn.Dense Finset

variable {𝕜 : Type} [RCLike 𝕜] [DecidableEq 𝕜]
variable {k : EvoKernels 𝕜 ℝ} {H : MPO 𝕜} {qd : List Int} {numiter : Nat}

/-- `Vᴴ w` at the centre of `s` -/
noncomputable abbrev cLoc (qd : List Int) (s : Sweep 𝕜) (c : Nat) (w : List Nat → 𝕜) : T3 𝕜 :=
  locOf ((cur qd s).A.take c) ((cur qd s).A.drop (c + 1)) c ((cur qd s).A.length - (c + 1)) qd.length
    (mpsBond (cur qd s) c) (mpsBond (cur qd s) (c + 1)) w

/-- `Vᴴ` maps dense eigenvectors to eigenvectors of the effective one-site operator -/
theorem centre_eigen (ctx : SweepCtx k H qd numiter) {s : Sweep 𝕜} {c : Nat} (h : Canon H qd s c)
    (hsqL : ∀ j, j < c → SqL qd s j) (hsqR : ∀ j, c < j → j < H.A.length → SqR qd s j)
    (hF : LocalFits (getBL s c) (getBR s c) (H.A.getD c zeroT4) qd.length (mpsBond (cur qd s) c)
      (mpsBond (cur qd s) (c + 1))) {μ : ℝ} {w : List Nat → 𝕜} (hw : DenseEig H qd.length μ w) :
    IsEigen (qd.length * mpsBond (cur qd s) c * mpsBond (cur qd s) (c + 1))
      (localHFun (getBL s c) (getBR s c) (H.A.getD c zeroT4) qd.length (mpsBond (cur qd s) c)
        (mpsBond (cur qd s) (c + 1))) μ (flat3 (cLoc qd s c w)) := by
  have hc' : c < (cur qd s).A.length := by rw [h.len]; exact h.hc
  have hW : H.A[c]? = some (H.A.getD c zeroT4) := by
    rw [List.getD_eq_getElem?_getD, List.getElem?_eq_getElem h.hc]; rfl
  refine isEigen_of_entries (Y := cLoc qd s c w) hF ?_
  intro A T a0 a1 a2 hAw hT t x y ht hx hy
  exact heff_eigen_entry h.shaped ctx.hH h.len hc' hW (h.frame hsqL hsqR) (h.bl c (Nat.le_refl c))
    (h.br c (Nat.le_refl c) h.hc) hw a0 a1 a2 hAw hT ht hx hy

omit [DecidableEq 𝕜] in
/-- the centre tensor is the combination of the `Vᴴ w_f` -/
theorem centre_decomp {s : Sweep 𝕜} {c : Nat} (h : Canon H qd s c)
    (hsqL : ∀ j, j < c → SqL qd s j) (hsqR : ∀ j, c < j → j < H.A.length → SqR qd s j)
    {K : Nat} {b : Nat → 𝕜} {w : Nat → List Nat → 𝕜}
    (hdec : ∀ σ, σ ∈ digitsU qd.length H.A.length → (cur qd s).amp σ = ∑ f ∈ range K, b f * w f σ)
    {t x y : Nat} (ht : t < qd.length) (hx : x < mpsBond (cur qd s) c) (hy : y < mpsBond (cur qd s) (c + 1)) :
    (getA s c).f t x y = ∑ f ∈ range K, b f * (cLoc qd s c (w f)).f t x y := by
  have hcs : c < s.A.size := by rw [h.wf.sizeA]; exact h.hc
  have hc' : c < (cur qd s).A.length := by rw [h.len]; exact h.hc
  obtain ⟨s0, s1', s2'⟩ := h.wf.shape c h.hc
  have s1 := s1'.trans (h.bond (j := c) (Nat.le_of_lt h.hc)).symm
  have s2 := s2'.trans (h.bond (j := c + 1) h.hc).symm
  have F := h.frame hsqL hsqR
  have hg : ∀ σl σr, σl ∈ digits (List.replicate c qd.length) →
      σr ∈ digits (List.replicate ((cur qd s).A.length - (c + 1)) qd.length) →
      (cur qd s).amp (σl ++ t :: σr) = emb ((cur qd s).A.take c) ((cur qd s).A.drop (c + 1)) (mpsBond (cur qd s) c)
        (mpsBond (cur qd s) (c + 1)) (getA s c) σl t σr := by
    intro σl σr hl hr
    rw [← amp_setSite_split h.shaped hc' s0 s1 s2 hl ht hr, cur_setSite_self qd s hcs]
  rw [← F.UV hg hx hy]
  refine locOf_lin (fun σl σr hl hr => hdec _ ?_) x y
  have := mem_digitsU_of_split hc' hl ht hr
  rw [h.len] at this
  exact this

/-- **The one-site step at the centre of a complete state is exact on the dense level.** -/
theorem centre_step_dense (ctx : SweepCtx k H qd numiter) {s : Sweep 𝕜} {c : Nat} (h : Canon H qd s c)
    (hsqL : ∀ j, j < c → SqL qd s j) (hsqR : ∀ j, c < j → j < H.A.length → SqR qd s j) {δ : 𝕜} {A1 : T3 𝕜}
    (hrun : localHamiltonianStep k (getBL s c) (getBR s c) (H.A.getD c zeroT4) (getA s c) δ numiter = .ok A1)
    (hex : MidExact k H numiter s c) :
    DenseExp H qd.length k.dexp (-δ) (cur qd s).amp (cur qd (setA s c A1)).amp := by
  intro K μ b w hw hdec σ hσ
  have hcs : c < s.A.size := by rw [h.wf.sizeA]; exact h.hc
  have hc' : c < (cur qd s).A.length := by rw [h.len]; exact h.hc
  have hsh := h.shaped
  obtain ⟨s0, s1', s2'⟩ := h.wf.shape c h.hc
  have s1 := s1'.trans (h.bond (j := c) (Nat.le_of_lt h.hc)).symm
  have s2 := s2'.trans (h.bond (j := c + 1) h.hc).symm
  have F := h.frame hsqL hsqR
  have hW : H.A[c]? = some (H.A.getD c zeroT4) := by
    rw [List.getD_eq_getElem?_getD, List.getElem?_eq_getElem h.hc]; rfl
  obtain ⟨hF, hHerm⟩ := canon_local h ctx.hH ctx.herm
  obtain ⟨y, hy, hA1⟩ := localStep_unfold hrun
  unfold MidExact at hex
  have hvl : (flat3 (getA s c)).length = (getA s c).d0 * (getA s c).d1 * (getA s c).d2 := length_flat3 _
  rw [s0, s1, s2] at hF hHerm hy hA1 hex hvl
  have hA := isHermitian_localHFun hF hHerm
  have hM := actsAs_localHFun hF
  have hHM := herm_matrix_of_actsAs hA hM
  have hU : ∀ f, f < K → IsEigen (qd.length * mpsBond (cur qd s) c * mpsBond (cur qd s) (c + 1))
      (localHFun (getBL s c) (getBR s c) (H.A.getD c zeroT4) qd.length (mpsBond (cur qd s) c)
        (mpsBond (cur qd s) (c + 1))) (μ f) (flat3 (cLoc qd s c (w f))) :=
    fun f hf => centre_eigen ctx h hsqL hsqR hF (hw f hf)
  have hv : ∀ i, i < qd.length * mpsBond (cur qd s) c * mpsBond (cur qd s) (c + 1) →
      vget (flat3 (getA s c)) i = ∑ f ∈ range K, b f * vget (flat3 (cLoc qd s c (w f))) i := by
    intro i hi
    refine vget_flat3_comb (X := getA s c) (fun f => ⟨s0.symm, s1.symm, s2.symm⟩) ?_ (by rw [s0, s1, s2]; exact hi)
    intro t x y' ht hx hy'
    exact centre_decomp h hsqL hsqR hdec (s0 ▸ ht) (s1 ▸ hx) (s2 ▸ hy')
  rw [← hvl] at hM hHM hU hv
  obtain ⟨hyl, hres⟩ := expm_spectral_any ctx.norm hM hHM (ctx.eigh _ _) hex hy hU hv
  rw [hvl] at hres
  have hent : ∀ t x y', t < qd.length → x < mpsBond (cur qd s) c → y' < mpsBond (cur qd s) (c + 1) →
      A1.f t x y' = ∑ f ∈ range K, k.dexp (-δ * ((μ f : ℝ) : 𝕜)) * b f * (cLoc qd s c (w f)).f t x y' := by
    intro t x y' ht hx hy'
    rw [hA1, Env.t3_tab_f _ ht hx hy', unflat3_f, hres _ (idx3_lt ht hx hy')]
    refine sum_congr rfl fun f _ => ?_
    have e : vget (flat3 (cLoc qd s c (w f))) ((t * mpsBond (cur qd s) c + x) * mpsBond (cur qd s) (c + 1) + y') =
        (cLoc qd s c (w f)).f t x y' := vget_flat3 (cLoc qd s c (w f)) ht hx hy'
    rw [e]
  have hσ' : σ ∈ digitsU qd.length (cur qd s).A.length := by rw [h.len]; exact hσ
  obtain ⟨σl, t, σr, hl, ht, hr, rfl⟩ := mem_digitsU_split hc' hσ'
  have hd : A1.d0 = qd.length ∧ A1.d1 = mpsBond (cur qd s) c ∧ A1.d2 = mpsBond (cur qd s) (c + 1) := by
    rw [hA1]; exact ⟨rfl, rfl, rfl⟩
  have e0 : cur qd (setA s c A1) = (cur qd s).setSite c A1 := cur_setSite qd s c A1
  rw [e0, amp_setSite_split hsh hc' hd.1 hd.2.1 hd.2.2 hl ht hr,
    emb_lin (a := fun f => k.dexp (-δ * ((μ f : ℝ) : 𝕜)) * b f) (Y := fun f => cLoc qd s c (w f))
      (fun x y' hx hy' => hent t x y' ht hx hy')]
  refine sum_congr rfl fun f _ => ?_
  rw [F.VU (w f) t hl hr]

end Ptn.Evo

import Mathlib.Algebra.Star.Basic
import PtnModel.Proofs.MatBasic
import PtnModel.Proofs.QrSort
/-!
# The loop `for qn in qis` of `qr` on sorted quantum numbers

`As` is the (row/column sorted) matrix, `q0s`, `q1s` the sorted quantum numbers.  We prove invariants of
`qis.foldl (qrStep dqr As q0s q1s)`:

* `BaseInv`  (needs only the shape clause of the kernel contract): bookkeeping of `D` and `qinterm`,
  supports of `Q` and `R` (block sparsity), `D ≤ min m n`;
* `ProdInv`  (needs the product clause): `Q[:, :D] @ R[:D, :]` is `As` restricted to the processed charges;
* `IsoInv`   (needs the isometry clause): the first `D` columns of `Q` are orthonormal.
-/
set_option linter.unusedSectionVars false

namespace Ptn.BondOps
open Finset

variable {𝕜 : Type} [CommRing 𝕜] [DecidableEq 𝕜]

/-- shape clause of the QR kernel contract (`mode='reduced'`) at the matrix `B` -/
def ShapeAt (dqr : Mat 𝕜 → Mat 𝕜 × Mat 𝕜) (B : Mat 𝕜) : Prop :=
  0 < B.m → 0 < B.n →
    (dqr B).1.m = B.m ∧ (dqr B).1.n = min B.m B.n ∧ (dqr B).2.m = min B.m B.n ∧ (dqr B).2.n = B.n

/-- the block of charge `c` handed to the dense kernel -/
def blk (As : Mat 𝕜) (q0s q1s : List Int) (c : Int) : Mat 𝕜 :=
  (As.slice (firstIdx q0s c) (lastIdxSucc q0s c) (firstIdx q1s c) (lastIdxSucc q1s c)).tab

theorem qrStep_eq (dqr : Mat 𝕜 → Mat 𝕜 × Mat 𝕜) (As : Mat 𝕜) (q0s q1s : List Int) (st : QRState 𝕜) (c : Int) :
    qrStep dqr As q0s q1s st c =
      { D := st.D + (dqr (blk As q0s q1s c)).1.n,
        Q := st.Q.setBlock (firstIdx q0s c) st.D (dqr (blk As q0s q1s c)).1,
        R := st.R.setBlock st.D (firstIdx q1s c) (dqr (blk As q0s q1s c)).2,
        qinterm := st.qinterm ++ List.replicate (dqr (blk As q0s q1s c)).1.n c } := rfl

theorem getD_append_replicate (l : List Int) (d : Nat) (c : Int) (p : Nat) :
    (l ++ List.replicate d c).getD p 0 =
      if p < l.length then l.getD p 0 else if p < l.length + d then c else 0 := by
  simp only [List.getD_eq_getElem?_getD]
  by_cases h : p < l.length
  · simp [h, List.getElem?_append_left h]
  · rw [List.getElem?_append_right (by omega), List.getElem?_replicate]
    by_cases h2 : p < l.length + d
    · rw [if_pos (by omega), if_neg h, if_pos h2]; rfl
    · rw [if_neg (by omega), if_neg h, if_neg h2]; rfl

/-- hypotheses on the sorted data shared by all lemmas about the loop -/
structure SortedCtx (dqr : Mat 𝕜 → Mat 𝕜 × Mat 𝕜) (As : Mat 𝕜) (q0s q1s : List Int) : Prop where
  hs0 : q0s.Pairwise (· ≤ ·)
  hs1 : q1s.Pairwise (· ≤ ·)
  hl0 : q0s.length = As.m
  hl1 : q1s.length = As.n
  shape : ∀ c, c ∈ q0s → c ∈ q1s → ShapeAt dqr (blk As q0s q1s c)

section
variable {dqr : Mat 𝕜 → Mat 𝕜 × Mat 𝕜} {As : Mat 𝕜} {q0s q1s : List Int}

/-- dimensions of the factors of the block of a shared charge -/
theorem SortedCtx.blk_shape (C : SortedCtx dqr As q0s q1s) {c : Int} (h0 : c ∈ q0s) (h1 : c ∈ q1s) :
    firstIdx q0s c < lastIdxSucc q0s c ∧ lastIdxSucc q0s c ≤ As.m ∧
    firstIdx q1s c < lastIdxSucc q1s c ∧ lastIdxSucc q1s c ≤ As.n ∧
    (blk As q0s q1s c).m = lastIdxSucc q0s c - firstIdx q0s c ∧
    (blk As q0s q1s c).n = lastIdxSucc q1s c - firstIdx q1s c ∧
    (dqr (blk As q0s q1s c)).1.m = lastIdxSucc q0s c - firstIdx q0s c ∧
    (dqr (blk As q0s q1s c)).1.n = min (lastIdxSucc q0s c - firstIdx q0s c) (lastIdxSucc q1s c - firstIdx q1s c) ∧
    (dqr (blk As q0s q1s c)).2.m = min (lastIdxSucc q0s c - firstIdx q0s c) (lastIdxSucc q1s c - firstIdx q1s c) ∧
    (dqr (blk As q0s q1s c)).2.n = lastIdxSucc q1s c - firstIdx q1s c := by
  obtain ⟨a1, a2⟩ := block_nonempty h0
  obtain ⟨b1, b2⟩ := block_nonempty h1
  have hm : (blk As q0s q1s c).m = lastIdxSucc q0s c - firstIdx q0s c := rfl
  have hn : (blk As q0s q1s c).n = lastIdxSucc q1s c - firstIdx q1s c := rfl
  obtain ⟨s1, s2, s3, s4⟩ := C.shape c h0 h1 (by omega) (by omega)
  simp only [hm, hn] at s1 s2 s3 s4
  exact ⟨a1, C.hl0 ▸ a2, b1, C.hl1 ▸ b2, hm, hn, s1, s2, s3, s4⟩

/-- Bookkeeping invariant of the loop; `P` is the list of charges processed so far. -/
structure BaseInv (As : Mat 𝕜) (q0s q1s : List Int) (P : List Int) (st : QRState 𝕜) : Prop where
  qlen : st.qinterm.length = st.D
  qmem : ∀ p, p < st.D → st.qinterm.getD p 0 ∈ P
  Qsupp : ∀ i p, st.Q.f i p ≠ 0 → i < As.m ∧ p < st.D ∧ q0s.getD i 0 = st.qinterm.getD p 0
  Rsupp : ∀ p j, st.R.f p j ≠ 0 → j < As.n ∧ p < st.D ∧ st.qinterm.getD p 0 = q1s.getD j 0
  bound0 : ∀ c, c ∈ q0s → (∀ c' ∈ P, c' < c) → st.D ≤ firstIdx q0s c
  bound1 : ∀ c, c ∈ q1s → (∀ c' ∈ P, c' < c) → st.D ≤ firstIdx q1s c
  Dm : st.D ≤ As.m
  Dn : st.D ≤ As.n

theorem baseInv_init (As : Mat 𝕜) (q0s q1s : List Int) (m' n' m'' n'' : Nat) :
    BaseInv As q0s q1s [] ⟨0, Mat.zero m' n', Mat.zero m'' n'', []⟩ := by
  refine ⟨rfl, ?_, ?_, ?_, ?_, ?_, Nat.zero_le _, Nat.zero_le _⟩
  · intro p hp; exact absurd hp (Nat.not_lt_zero _)
  · intro i p h; exact absurd rfl h
  · intro i p h; exact absurd rfl h
  · intro c _ _; exact Nat.zero_le _
  · intro c _ _; exact Nat.zero_le _

theorem baseInv_step (C : SortedCtx dqr As q0s q1s) {P : List Int} {st : QRState 𝕜} {c : Int}
    (I : BaseInv As q0s q1s P st) (hP : ∀ c' ∈ P, c' < c) (h0 : c ∈ q0s) (h1 : c ∈ q1s) :
    BaseInv As q0s q1s (P ++ [c]) (qrStep dqr As q0s q1s st c) := by
  obtain ⟨a1, a2, b1, b2, -, -, s1, s2, s3, s4⟩ := C.blk_shape h0 h1
  have hD0 := I.bound0 c h0 hP
  have hD1 := I.bound1 c h1 hP
  rw [qrStep_eq]
  have hq : ∀ p, (st.qinterm ++ List.replicate (dqr (blk As q0s q1s c)).1.n c).getD p 0 =
      if p < st.D then st.qinterm.getD p 0 else if p < st.D + (dqr (blk As q0s q1s c)).1.n then c else 0 := by
    intro p; rw [getD_append_replicate, I.qlen]
  refine ⟨?_, ?_, ?_, ?_, ?_, ?_, ?_, ?_⟩
  · simp [I.qlen]
  · intro p hp
    simp only at hp ⊢
    rw [hq]
    by_cases h : p < st.D
    · rw [if_pos h]; exact List.mem_append_left _ (I.qmem p h)
    · rw [if_neg h, if_pos hp]; simp
  · intro i p h
    simp only at h ⊢
    rw [Mat.setBlock_f] at h
    rw [hq]
    split at h
    · rename_i hb
      have hi : q0s.getD i 0 = c := block_mem C.hs0 h0 hb.1 (by omega)
      refine ⟨by omega, by omega, ?_⟩
      rw [if_neg (by omega), if_pos hb.2.2.2, hi]
    · obtain ⟨x1, x2, x3⟩ := I.Qsupp i p h
      refine ⟨x1, by omega, ?_⟩
      rw [if_pos x2, x3]
  · intro p j h
    simp only at h ⊢
    rw [Mat.setBlock_f] at h
    rw [hq]
    split at h
    · rename_i hb
      have hj : q1s.getD j 0 = c := block_mem C.hs1 h1 hb.2.2.1 (by omega)
      refine ⟨by omega, by omega, ?_⟩
      have : p < st.D + (dqr (blk As q0s q1s c)).1.n := by omega
      rw [if_neg (by omega), if_pos this, hj]
    · obtain ⟨x1, x2, x3⟩ := I.Rsupp p j h
      refine ⟨x1, by omega, ?_⟩
      rw [if_pos x2, x3]
  · intro c' hc' hlt
    simp only
    have := block_order C.hs0 h0 hc' (hlt c (by simp))
    omega
  · intro c' hc' hlt
    simp only
    have := block_order C.hs1 h1 hc' (hlt c (by simp))
    omega
  · simp only; omega
  · simp only; omega

/-- generic fold lemma: an invariant indexed by the processed prefix -/
theorem foldl_prefix_inv {σ : Type} (step : σ → Int → σ) (Inv : List Int → σ → Prop)
    (rest : List Int) : ∀ (P : List Int) (st : σ),
    (∀ (P' : List Int) (st' : σ) (c : Int) (rest' : List Int), P ++ rest = P' ++ c :: rest' →
        Inv P' st' → Inv (P' ++ [c]) (step st' c)) →
    Inv P st → Inv (P ++ rest) (rest.foldl step st) := by
  induction rest with
  | nil => intro P st _ h; simpa using h
  | cons c cs ih =>
    intro P st hstep h
    simp only [List.foldl_cons]
    have := ih (P ++ [c]) (step st c) (fun P' st' c' rest' he => hstep P' st' c' rest' (by simpa using he))
      (hstep P st c cs rfl h)
    simpa using this

theorem prefix_lt_of_pairwise {l P rest : List Int} {c : Int} (hl : l.Pairwise (· < ·))
    (he : l = P ++ c :: rest) : ∀ c' ∈ P, c' < c := by
  subst he
  intro c' hc'
  exact (List.pairwise_append.1 hl).2.2 c' hc' c (by simp)

/-- `BaseInv` holds after the whole loop. -/
theorem baseInv_foldl (C : SortedCtx dqr As q0s q1s) {qis : List Int} (hq : qis.Pairwise (· < ·))
    (hmem : ∀ c ∈ qis, c ∈ q0s ∧ c ∈ q1s) (m' n' m'' n'' : Nat) :
    BaseInv As q0s q1s qis
      (qis.foldl (qrStep dqr As q0s q1s) ⟨0, Mat.zero m' n', Mat.zero m'' n'', []⟩) := by
  have := foldl_prefix_inv (qrStep dqr As q0s q1s) (BaseInv As q0s q1s) qis []
    ⟨0, Mat.zero m' n', Mat.zero m'' n'', []⟩ ?_ (baseInv_init As q0s q1s m' n' m'' n'')
  · simpa using this
  · intro P' st' c rest' he I
    have he' : qis = P' ++ c :: rest' := by simpa using he
    have hc := hmem c (by rw [he']; simp)
    exact baseInv_step C I (prefix_lt_of_pairwise hq he') hc.1 hc.2

end
end Ptn.BondOps

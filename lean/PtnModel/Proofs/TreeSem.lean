import PtnModel.Proofs.TreeSub
/-!
# `from_optrees` (before `simplify`): the graph denotes the sum of the padded trees
-/
set_option linter.unusedSectionVars false

namespace Ptn.Og
open List Ptn.Dense

variable {κ : Type} [CommRing κ] [DecidableEq κ]

theorem fromOptreesLoop_pos (L id : Int) (g : Graph κ) (tree : OpTree κ) (h : tree.istart > 0) :
    fromOptreesLoop L id g tree =
      match maxInt? (dKeys g.nodes) with
      | none => .error .value
      | some m =>
        g.addNode ⟨m + 1, [], [], tree.root.qnum⟩ >>= fun g1 =>
        g1.insertOpchain 0 (m + 1) (pyRepeat tree.istart id) (pyRepeat tree.istart (1 : κ))
          (pyRepeat (tree.istart - 1) (0 : Int)) true >>= fun g2 =>
        Graph.insertSubtree id tree.root (m + 1) (L - tree.istart) g2 := by
  unfold fromOptreesLoop
  simp only [h, if_true]
  cases maxInt? (dKeys g.nodes) <;> rfl

theorem fromOptreesLoop_nonpos (L id : Int) (g : Graph κ) (tree : OpTree κ) (h : ¬ tree.istart > 0) :
    fromOptreesLoop L id g tree = Graph.insertSubtree id tree.root 0 (L - tree.istart) g := by
  unfold fromOptreesLoop
  simp only [h, if_false]

/-- coefficient of `w` in the tree padded with identities before its start site and after its leaves -/
def OpTree.coef (id : Int) (L : Int) (tree : OpTree κ) (w : Word) : κ :=
  chainCoef (pyRepeat tree.istart id) (pyRepeat tree.istart (1 : κ))
    (tree.root.coef id (L - tree.istart).toNat) w

/-- the set of old nodes other than the start node -/
theorem uHyps_start {g : Graph κ} (sv : SValid g) (ht : g.nidTerminal = (0, 1)) :
    UHyps g (fun z => z ∈ dKeys g.nodes ∧ z ≠ 0) 0 := by
  have t0 : g.term false = 0 := by simp [Graph.term, ht]
  have t1 : g.term true = 1 := by simp [Graph.term, ht]
  have tgt : ∀ e ∈ g.edgeList, e.nids.2 ∈ dKeys g.nodes ∧ e.nids.2 ≠ 0 := by
    intro e he
    refine ⟨sv.edge_tgt_mem he, ?_⟩
    obtain ⟨⟨k, e'⟩, hm, rfl⟩ := mem_map.1 he
    rw [← t0]; exact sv.no_in_term hm
  refine ⟨fun e he _ => tgt e he, fun y hy => hy.1, fun _ hc => hc.2 rfl, fun e he _ => tgt e he, ?_⟩
  rw [t1]
  exact ⟨t1 ▸ sv.term_mem true, by decide⟩

/-- **one tree**: the loop body of `from_optrees` adds the padded tree to the denotation of the start node -/
theorem fromOptreesLoop_spec {L id : Int} {g g' : Graph κ} {tree : OpTree κ}
    (h : fromOptreesLoop L id g tree = .ok g') (sv : SValid g) (ht : g.nidTerminal = (0, 1)) :
    Grows g g' 0 ∧ ∀ w, denE g'.edgeList 1 w 0 = denE g.edgeList 1 w 0 + tree.coef id L w := by
  have t0 : g.term false = 0 := by simp [Graph.term, ht]
  have t1 : g.term true = 1 := by simp [Graph.term, ht]
  have h0 : (0 : Int) ∈ dKeys g.nodes := t0 ▸ sv.term_mem false
  have hU0 := uHyps_start sv ht
  by_cases hpos : tree.istart > 0
  · rw [fromOptreesLoop_pos _ _ _ _ hpos] at h
    cases hm : maxInt? (dKeys g.nodes) with
    | none => rw [hm] at h; cases h
    | some m =>
      rw [hm] at h
      simp only at h
      rw [bind_ok] at h
      obtain ⟨g1, h1, h⟩ := h
      rw [bind_ok] at h
      obtain ⟨g2, h2, h3⟩ := h
      obtain ⟨hfresh, hg1⟩ := addNode_ok.1 h1
      simp only at hfresh
      have e1 : g1 = g.plusNode (m + 1) tree.root.qnum := hg1
      subst e1
      have sv1 := sv.plusNode tree.root.qnum hfresh
      have hr0 : (m + 1) ≠ 0 := fun hc => hfresh (hc ▸ h0)
      have h1mem : (1 : Int) ∈ dKeys g.nodes := t1 ▸ sv.term_mem true
      have hr1 : (m + 1) ≠ 1 := fun hc => hfresh (by rw [hc]; exact h1mem)
      obtain ⟨nidNext, eid0, sv2, term2, keys2, edges2, _, _, _, _⟩ := insertOpchain_spec h2 sv1
        (by rw [plusNode_term', t1]; decide) (by rw [plusNode_term', t0]; exact hr0) (fun hc => hr0 hc.symm)
      rw [pyRepeat_length, plusNode_keys] at keys2
      rw [pyRepeat_length, plusNode_edgeList] at edges2
      simp only [plusNode_term] at term2
      obtain ⟨ys, hys⟩ : ∃ ys, ys = idRange nidNext (tree.istart - 1).toNat := ⟨_, rfl⟩
      rw [← hys] at keys2 edges2
      have hnd : ((dKeys g.nodes ++ [m + 1]) ++ ys).Nodup := keys2 ▸ sv2.nodesKeys
      have hysfresh : ∀ y ∈ ys, y ∉ dKeys g.nodes ∧ y ≠ m + 1 := by
        intro y hy
        have := List.disjoint_of_nodup_append hnd
        exact ⟨fun hc => this (mem_append_left _ hc) hy, fun hc => this (by simp [hc]) hy⟩
      have t2 : ∀ d, g2.term d = g.term d := fun d => by simp [Graph.term, term2]
      have hzip : (pyRepeat tree.istart id).zip (pyRepeat tree.istart (1 : κ)) =
          List.replicate tree.istart.toNat (id, (1 : κ)) := by simp [pyRepeat, zip_replicate']
      have hlen : (ys ++ [m + 1]).length = ((pyRepeat tree.istart id).zip (pyRepeat tree.istart (1 : κ))).length := by
        rw [hzip, hys]; simp only [length_append, idRange_length, length_cons, length_nil, length_replicate]; omega
      obtain ⟨ch, hch⟩ : ∃ ch, ch = chainEdges eid0 0 (ys ++ [m + 1])
          ((pyRepeat tree.istart id).zip (pyRepeat tree.istart (1 : κ))) := ⟨_, rfl⟩
      rw [← hch] at edges2
      have hsrc : ∀ e ∈ ch, e.nids.1 = 0 ∨ e.nids.1 ∈ ys := by
        intro e he
        have := chainEdges_sources eid0 0 _ _ hlen
        rw [← cons_append, dropLast_concat, ← hch] at this
        have hm : e.nids.1 ∈ (0 : Int) :: ys := this ▸ mem_map.2 ⟨e, he, rfl⟩
        simpa using hm
      have htgt : ∀ e ∈ ch, e.nids.2 ∈ ys ∨ e.nids.2 = m + 1 := by
        intro e he
        have := chainEdges_targets eid0 0 _ _ hlen
        rw [← hch] at this
        have hm : e.nids.2 ∈ ys ++ [m + 1] := this ▸ mem_map.2 ⟨e, he, rfl⟩
        simpa using hm
      -- the subtree below the fresh root
      have hroot2 : m + 1 ∈ dKeys g2.nodes := by rw [keys2]; simp
      have noout2 : ∀ e ∈ g2.edgeList, e.nids.1 ≠ m + 1 := by
        intro e he hc
        rw [edges2, mem_append] at he
        rcases he with he | he
        · exact hfresh (hc ▸ sv.edge_src_mem he)
        · rcases hsrc e he with h' | h'
          · exact hr0 (hc ▸ h')
          · exact (hysfresh _ h').2 hc
      have hUc : UHyps g2 (fun z => z = g2.term true) (m + 1) := by
        refine ⟨?_, ?_, ?_, ?_, rfl⟩
        · intro e he hs; exact absurd hs (sv2.edge_src_ne_term he)
        · intro z hz; rw [hz]; exact sv2.term_mem true
        · intro hne; exact hne
        · intro e he hs; exact absurd hs (noout2 e he)
      obtain ⟨gc, semc⟩ := (subtree_children_spec id).1 tree.root g2 (m + 1) (L - tree.istart) g' _ h3 sv2 hroot2
        (by rw [t2, t1]; exact fun hc => absurd hc hr1) (by rw [t2, t2, t1, t0]; decide) hUc
      obtain ⟨newc, edgesc, hnewc⟩ := gc.edges
      rw [t2, t1] at semc hnewc
      have hE3 : g'.edgeList = g.edgeList ++ (ch ++ newc) := by rw [edgesc, edges2, append_assoc]
      have keys12 : ∀ k ∈ dKeys g.nodes, k ∈ dKeys g2.nodes := by
        intro k hk; rw [keys2]; exact mem_append_left _ (mem_append_left _ hk)
      constructor
      · refine ⟨gc.sv, by rw [gc.term, term2], fun k hk => gc.keys _ (keys12 k hk), ch ++ newc, hE3, ?_⟩
        intro e he
        rw [t1]
        rcases mem_append.1 he with he | he
        · refine ⟨?_, ?_, Or.inr ?_⟩
          · rcases hsrc e he with h' | h'
            · exact Or.inl h'
            · exact Or.inr (hysfresh _ h').1
          · rcases hsrc e he with h' | h'
            · rw [h']; decide
            · exact fun hc => (hysfresh _ h').1 (by rw [hc]; exact h1mem)
          · rcases htgt e he with h' | h'
            · exact (hysfresh _ h').1
            · rw [h']; exact hfresh
        · obtain ⟨hs, hne, ht'⟩ := hnewc e he
          refine ⟨Or.inr ?_, hne, ?_⟩
          · rcases hs with hs | hs
            · rw [hs]; exact hfresh
            · exact fun hc => hs (keys12 _ hc)
          · rcases ht' with ht' | ht'
            · exact Or.inl ht'
            · exact Or.inr (fun hc => ht' (keys12 _ hc))
      · intro w
        have hD : (fun w' => denE (g.edgeList ++ (ch ++ newc)) 1 w' (m + 1)) =
            tree.root.coef id (L - tree.istart).toNat := by
          funext w'
          rw [← hE3, semc w', if_neg hr1, denE_no_out _ _ _ _ hr1 noout2, zero_add]
        rw [hE3]
        have := chain_attached_sem g.edgeList newc 1 (fun z => z ∈ dKeys g.nodes ∧ z ≠ 0) hU0.closed 0 (by decide)
          (fun hc => hc.2 rfl) hU0.out eid0 ys (m + 1)
          ((pyRepeat tree.istart id).zip (pyRepeat tree.istart (1 : κ)))
          (by rw [hzip, hys]; simp only [length_replicate, idRange_length]; omega)
          (by
            rw [nodup_cons]
            exact ⟨fun hc => (hysfresh _ hc).1 h0, (nodup_append.1 hnd).2.1⟩)
          (fun y hy => ⟨fun hc => (hysfresh y hy).1 hc.1, fun hc => (hysfresh y hy).1 (by rw [hc]; exact h1mem),
            fun e he hc => (hysfresh y hy).1 (hc ▸ sv.edge_src_mem he)⟩)
          (by
            intro e he
            obtain ⟨hs, _, _⟩ := hnewc e he
            rcases hs with hs | hs
            · rw [hs]
              exact ⟨fun hc => hfresh hc.1, hr0, fun hc => (hysfresh _ hc).2 rfl⟩
            · refine ⟨fun hc => hs (keys12 _ hc.1), fun hc => hs (hc ▸ keys12 _ h0), fun hc => hs ?_⟩
              rw [keys2]; exact mem_append_right _ hc) w
        rw [← hch] at this
        rw [this, hD, hzip]
        simp only [map_replicate, OpTree.coef, pyRepeat]
  · rw [fromOptreesLoop_nonpos _ _ _ _ hpos] at h
    obtain ⟨gc, semc⟩ := (subtree_children_spec id).1 tree.root g 0 (L - tree.istart) g' _ h sv h0
      (by rw [t1]; exact fun hc => absurd hc (by decide)) (by rw [t1, t0]; decide) hU0
    refine ⟨gc, fun w => ?_⟩
    have := semc w
    rw [t1, if_neg (by decide)] at this
    rw [this]
    congr 1
    have : tree.istart.toNat = 0 := by omega
    simp [OpTree.coef, pyRepeat, this, chainCoef]

/-! ## all trees -/

/-- the graph of `from_optrees` before the first tree: start node `0`, end node `1` -/
def g00 : Graph κ := ⟨[(0, ⟨0, [], [], 0⟩), (1, ⟨1, [], [], 0⟩)], [], (0, 1)⟩

/-- `from_optrees` without the final `simplify` -/
def fromOptreesPre (trees : List (OpTree κ)) (L id : Int) : Except Err (Graph κ) :=
  trees.foldlM (fromOptreesLoop L id) g00

theorem fromOptrees_eq (trees : List (OpTree κ)) (L id : Int) :
    fromOptrees trees L id = fromOptreesPre trees L id >>= Graph.simplify := rfl

theorem g00_svalid : SValid (g00 : Graph κ) := by
  refine ⟨by simp [g00, dKeys], by simp [g00, dKeys], ?_, by simp [g00], ?_, ?_, by simp [g00], ?_, by simp [g00]⟩
  · intro k n hm
    simp only [g00, mem_cons, Prod.mk.injEq, not_mem_nil, or_false] at hm
    rcases hm with ⟨rfl, rfl⟩ | ⟨rfl, rfl⟩ <;> rfl
  · intro k n hm d
    simp only [g00, mem_cons, Prod.mk.injEq, not_mem_nil, or_false] at hm
    rcases hm with ⟨rfl, rfl⟩ | ⟨rfl, rfl⟩ <;> cases d <;> simp [Node.eids]
  · intro k n hm d eid heid
    simp only [g00, mem_cons, Prod.mk.injEq, not_mem_nil, or_false] at hm
    rcases hm with ⟨rfl, rfl⟩ | ⟨rfl, rfl⟩ <;> cases d <;> simp [Node.eids] at heid
  · intro d
    cases d
    · exact ⟨⟨0, [], [], 0⟩, by simp [g00, Graph.term], rfl⟩
    · exact ⟨⟨1, [], [], 0⟩, by simp [g00, Graph.term], rfl⟩

/-- **`from_optrees` before `simplify`**: structurally valid, terminals `0` and `1`, and the denotation is the
sum of the padded trees. -/
theorem fromOptreesPre_spec {trees : List (OpTree κ)} {L id : Int} {g : Graph κ}
    (h : fromOptreesPre trees L id = .ok g) :
    SValid g ∧ g.nidTerminal = (0, 1) ∧ ∀ w, g.denF w = (trees.map fun t => t.coef id L w).sum := by
  have := foldlM_ok_ind (fromOptreesLoop L id) (fun pre (g : Graph κ) => SValid g ∧ g.nidTerminal = (0, 1) ∧
      ∀ w, denE g.edgeList 1 w 0 = (pre.map fun t => t.coef id L w).sum) ?_ trees [] g00 g ?_ h
  · obtain ⟨sv, ht, sem⟩ := this
    refine ⟨sv, ht, fun w => ?_⟩
    rw [denF_eq_denE sv]
    have t0 : g.term false = 0 := by simp [Graph.term, ht]
    have t1 : g.term true = 1 := by simp [Graph.term, ht]
    rw [t0, t1]
    simpa using sem w
  · intro pre tree s s' ⟨sv, ht, sem⟩ hf
    obtain ⟨gr, hsem⟩ := fromOptreesLoop_spec hf sv ht
    refine ⟨gr.sv, by rw [gr.term, ht], fun w => ?_⟩
    rw [hsem w, sem w]
    simp
  · refine ⟨g00_svalid, rfl, fun w => ?_⟩
    cases w with
    | nil => simp [g00, Graph.edgeList, denE_nil]
    | cons o w => simp [g00, Graph.edgeList, denE_cons]

end Ptn.Og

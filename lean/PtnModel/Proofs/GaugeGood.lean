import PtnModel.Proofs.GaugeBlock
/-!
# Gauge transform: the invariant of the statement sequence

`Good n T v`: the list-of-rows matrix `v` is `n × n`, agrees with the identity outside the touched rows / columns `T`, and satisfies
`vᴴ v = 1`.  The identity matrix is good; every group of assignments of the function (`pairStep`, `oneStep`, `quadStep`) keeps
the matrix good provided its look-ups are defined, in range, and hit columns that no earlier statement touched.

Touched columns are tracked through *tags* `(table index, outer key)`: `TS col S` is the set of columns `col t` of the tags
`t ∈ S` processed so far; `col` is injective (`SideHyp.inj`), so a tag that has not been processed yet points to an untouched
column.
-/
set_option linter.unusedSectionVars false

namespace Ptn.Ham.Gauge
open Ptn.Og Finset

variable {α : Type} [CommRing α] [HasConj α] [DecidableEq α]

local notation "cj" => (HasConj.conj : α → α)

/-- the invariant: shape, identity outside the touched set, `vᴴ v = 1` -/
def Good (n : Nat) (T : Nat → Prop) (v : Mat α) : Prop :=
  IsSquare v n ∧ IdOutside n T (fun r c => v.entry r c) ∧ ColOrtho cj n (fun r c => v.entry r c)

theorem Good.mono {n : Nat} {T T' : Nat → Prop} {v : Mat α} (h : Good n T v) (hTT : ∀ j, T j → T' j) : Good n T' v :=
  ⟨h.1, h.2.1.mono hTT, h.2.2⟩

theorem good_identity (hc : ConjLaws α) (n : Nat) : Good n (fun _ => False) (Mat.identity n : Mat α) := by
  refine ⟨isSquare_identity n, ?_, ?_⟩
  · intro r hr c hc' _
    exact entry_identity n r c hr hc'
  · intro a ha b hb
    have e : ∀ c ∈ range n, cj ((Mat.identity n : Mat α).entry c a) * (Mat.identity n : Mat α).entry c b
        = if c = a then (if a = b then 1 else 0) else 0 := by
      intro c hc'
      have hc'' := Finset.mem_range.1 hc'
      rw [entry_identity n c a hc'' ha, entry_identity n c b hc'' hb]
      by_cases e1 : c = a
      · subst e1; simp [hc.one]
      · simp [e1, hc.zero]
    rw [Finset.sum_congr rfl e, Finset.sum_ite_eq' (range n) a]
    simp [ha]

theorem sumRange_finset (k : Nat) (g : Nat → α) : sumRange k g = ∑ i ∈ range k, g i := by
  unfold sumRange
  induction k with
  | zero => simp
  | succ k ih => rw [List.range_succ, List.foldl_append, ih, Finset.sum_range_succ]; rfl

theorem IsSquare.head_length {v : Mat α} {n : Nat} (h : IsSquare v n) : (v.headD []).length = n := by
  cases v with
  | nil => simpa using h.1
  | cons x xs => exact h.2 x List.mem_cons_self

/-- the exact model of `np.allclose(v.conj().T @ v, identity)` is `vᴴ v = 1` -/
theorem isUnitary_iff {v : Mat α} {n : Nat} (h : IsSquare v n) :
    isUnitary v = true ↔ ColOrtho cj n (fun r c => v.entry r c) := by
  unfold isUnitary
  rw [h.head_length, h.1, beq_iff_eq]
  unfold gram Mat.identity ColOrtho
  rw [List.map_inj_left]
  constructor
  · intro hh a ha b hb
    have := hh a (List.mem_range.2 ha)
    rw [List.map_inj_left] at this
    have := this b (List.mem_range.2 hb)
    rw [sumRange_finset] at this
    exact this
  · intro hh a ha
    rw [List.map_inj_left]
    intro b hb
    rw [sumRange_finset]
    exact hh a (List.mem_range.1 ha) b (List.mem_range.1 hb)

/-- a block of assignments on untouched, pairwise different, in-range columns with `Mᴴ M = 1` keeps the matrix good -/
theorem assign_good (hc : ConjLaws α) {n : Nat} {T : Nat → Prop} {v : Mat α} (hg : Good n T v) (js : List Nat) (M : Nat → Nat → α)
    (hnd : js.Nodup) (hlt : ∀ j ∈ js, j < n) (hT : ∀ j ∈ js, ¬ T j)
    (hM : ∀ p < js.length, ∀ q < js.length, ∑ s ∈ range js.length, cj (M s p) * M s q = if p = q then 1 else 0) :
    ∃ v', matAssign v (blockEntries js M) = .ok v' ∧ Good n (fun j => T j ∨ j ∈ js) v' := by
  obtain ⟨v', h1, hsq, hent⟩ := matAssign_block hg.1 js M hlt hnd
  refine ⟨v', h1, hsq, ?_⟩
  exact block_step cj hc.zero n _ T js M hnd hlt hT hg.2.1 hg.2.2 hM _ hent

/-! ## tags and touched columns -/

/-- `(table index, outer key)` -/
abbrev Tag := Nat × List Int

/-- the column a tag points to -/
def colOf (h : GaugeH) (fams : Nat → Fam) (kk : Int) (t : Tag) : Option Nat :=
  match h.tabCol (fams t.1) t.2 kk with
  | .ok j => some j
  | .error _ => none

/-- columns of the processed tags -/
def TS (col : Tag → Option Nat) (S : Tag → Prop) (j : Nat) : Prop := ∃ t, S t ∧ col t = some j

/-- what the proof needs to know about the look-ups of one half of the function -/
structure SideHyp (h : GaugeH) (fams : Nat → Fam) (kk : Int) (n : Nat) : Prop where
  bound : ∀ t j, colOf h fams kk t = some j → j < n
  inj : ∀ t t' j, colOf h fams kk t = some j → colOf h fams kk t' = some j → t = t'

theorem colOf_ok {h : GaugeH} {fams : Nat → Fam} {kk : Int} {a : Nat} {key : List Int} {j : Nat}
    (e : h.tabCol (fams a) key kk = .ok j) : colOf h fams kk (a, key) = some j := by
  simp [colOf, e]

section steps
variable {h : GaugeH} {fams : Nat → Fam} {kk : Int} {n : Nat}

theorem untouched (sh : SideHyp h fams kk n) {S : Tag → Prop} {t : Tag} {j : Nat} (hS : ¬ S t)
    (e : colOf h fams kk t = some j) : ¬ TS (colOf h fams kk) S j := by
  rintro ⟨t', hS', e'⟩
  have := sh.inj t' t j e' e
  subst this
  exact hS hS'

/-- `pairStep` keeps the invariant -/
theorem pairStep_good (hc : ConjLaws α) (sh : SideHyp h fams kk n) (a : Nat) (key0 key1 : List Int) (m : α × α × α × α)
    (hne : key0 ≠ key1)
    (hdef : famHas (fams a) key0 kk = true →
      ∃ j0 j1, h.tabCol (fams a) key0 kk = .ok j0 ∧ h.tabCol (fams a) key1 kk = .ok j1)
    (hM : ∀ p < 2, ∀ q < 2, ∑ s ∈ range 2,
      cj ((fun (p q : Nat) => if p = 0 then (if q = 0 then m.1 else m.2.1) else (if q = 0 then m.2.2.1 else m.2.2.2)) s p) *
      (fun (p q : Nat) => if p = 0 then (if q = 0 then m.1 else m.2.1) else (if q = 0 then m.2.2.1 else m.2.2.2)) s q
        = if p = q then 1 else 0)
    (S : Tag → Prop) (hS0 : ¬ S (a, key0)) (hS1 : ¬ S (a, key1)) (v : Mat α) (hg : Good n (TS (colOf h fams kk) S) v) :
    ∃ v', pairStep h (fams a) key0 key1 kk m v = .ok v' ∧
      Good n (TS (colOf h fams kk) (fun t => S t ∨ t = (a, key0) ∨ t = (a, key1))) v' := by
  unfold pairStep
  by_cases hh : famHas (fams a) key0 kk = true
  · obtain ⟨j0, j1, e0, e1⟩ := hdef hh
    rw [if_pos hh, e0, e1]
    simp only
    have c0 := colOf_ok (fams := fams) e0
    have c1 := colOf_ok (fams := fams) e1
    have hj : j0 ≠ j1 := by
      intro e
      subst e
      have := sh.inj _ _ _ c0 c1
      exact hne (Prod.mk.inj this).2
    rw [pair_entries]
    obtain ⟨v', h1, hg'⟩ := assign_good hc hg [j0, j1] _ (by simp [hj])
      (by intro j hjm; simp only [List.mem_cons, List.not_mem_nil, or_false] at hjm
          rcases hjm with rfl | rfl
          · exact sh.bound _ _ c0
          · exact sh.bound _ _ c1)
      (by intro j hjm; simp only [List.mem_cons, List.not_mem_nil, or_false] at hjm
          rcases hjm with rfl | rfl
          · exact untouched sh hS0 c0
          · exact untouched sh hS1 c1)
      hM
    refine ⟨v', h1, hg'.mono ?_⟩
    intro j hj'
    rcases hj' with ⟨t, ht, et⟩ | hmem
    · exact ⟨t, Or.inl ht, et⟩
    · simp only [List.mem_cons, List.not_mem_nil, or_false] at hmem
      rcases hmem with rfl | rfl
      · exact ⟨(a, key0), Or.inr (Or.inl rfl), c0⟩
      · exact ⟨(a, key1), Or.inr (Or.inr rfl), c1⟩
  · rw [if_neg hh]
    exact ⟨v, rfl, hg.mono fun j ⟨t, ht, et⟩ => ⟨t, Or.inl ht, et⟩⟩

/-- `oneStep` keeps the invariant -/
theorem oneStep_good (hc : ConjLaws α) (sh : SideHyp h fams kk n) (a : Nat) (key : List Int) (x : α)
    (hdef : famHas (fams a) key kk = true → ∃ j, h.tabCol (fams a) key kk = .ok j)
    (hx : cj x * x = 1)
    (S : Tag → Prop) (hS : ¬ S (a, key)) (v : Mat α) (hg : Good n (TS (colOf h fams kk) S) v) :
    ∃ v', oneStep h (fams a) key kk x v = .ok v' ∧ Good n (TS (colOf h fams kk) (fun t => S t ∨ t = (a, key))) v' := by
  unfold oneStep
  by_cases hh : famHas (fams a) key kk = true
  · obtain ⟨j, e⟩ := hdef hh
    rw [if_pos hh, e]
    simp only
    have c0 := colOf_ok (fams := fams) e
    rw [one_entries]
    obtain ⟨v', h1, hg'⟩ := assign_good hc hg [j] (fun _ _ => x) (by simp)
      (by intro j' hjm; simp only [List.mem_cons, List.not_mem_nil, or_false] at hjm; subst hjm; exact sh.bound _ _ c0)
      (by intro j' hjm; simp only [List.mem_cons, List.not_mem_nil, or_false] at hjm; subst hjm; exact untouched sh hS c0)
      (by intro p hp q hq
          simp only [List.length_cons, List.length_nil, Nat.zero_add, Nat.lt_one_iff] at hp hq
          subst hp hq
          simp [hx])
    refine ⟨v', h1, hg'.mono ?_⟩
    intro j' hj'
    rcases hj' with ⟨t, ht, et⟩ | hmem
    · exact ⟨t, Or.inl ht, et⟩
    · simp only [List.mem_cons, List.not_mem_nil, or_false] at hmem
      subst hmem
      exact ⟨(a, key), Or.inr rfl, c0⟩
  · rw [if_neg hh]
    exact ⟨v, rfl, hg.mono fun j ⟨t, ht, et⟩ => ⟨t, Or.inl ht, et⟩⟩

/-- `quadStep` keeps the invariant -/
theorem quadStep_good (hc : ConjLaws α) (sh : SideHyp h fams kk n) (a : Nat) (i : Int) {u00 u01 u10 u11 : α}
    (hu : Unitary2 u00 u01 u10 u11)
    (hdef : famHas (fams a) [i, i + 1] kk = true →
      ∃ j00 j01 j10 j11, h.tabCol (fams a) [i, i] kk = .ok j00 ∧ h.tabCol (fams a) [i, i + 1] kk = .ok j01 ∧
        h.tabCol (fams a) [i + 1, i] kk = .ok j10 ∧ h.tabCol (fams a) [i + 1, i + 1] kk = .ok j11)
    (S : Tag → Prop) (hS : ∀ x y : Int, (x = i ∨ x = i + 1) → (y = i ∨ y = i + 1) → ¬ S (a, [x, y]))
    (v : Mat α) (hg : Good n (TS (colOf h fams kk) S) v) :
    ∃ v', quadStep h (fams a) i kk u00 u01 u10 u11 v = .ok v' ∧ ∃ T', Good n T' v' := by
  unfold quadStep
  by_cases hh : famHas (fams a) [i, i + 1] kk = true
  · obtain ⟨j00, j01, j10, j11, e00, e01, e10, e11⟩ := hdef hh
    rw [if_pos hh, e00, e01, e10, e11]
    simp only
    have c00 := colOf_ok (fams := fams) e00
    have c01 := colOf_ok (fams := fams) e01
    have c10 := colOf_ok (fams := fams) e10
    have c11 := colOf_ok (fams := fams) e11
    have ne : ∀ {k1 k2 : List Int} {j1 j2 : Nat}, colOf h fams kk (a, k1) = some j1 → colOf h fams kk (a, k2) = some j2 →
        k1 ≠ k2 → j1 ≠ j2 := by
      intro k1 k2 j1 j2 h1 h2 hk e
      subst e
      exact hk (Prod.mk.inj (sh.inj _ _ _ h1 h2)).2
    have hi : i ≠ i + 1 := by omega
    have hi' : i + 1 ≠ i := by omega
    rw [quad_entries]
    obtain ⟨v', h1, hg'⟩ := assign_good hc hg [j00, j01, j10, j11] (quadM u00 u01 u10 u11)
      (by
        simp only [List.nodup_cons, List.mem_cons, List.not_mem_nil, or_false, not_or, List.nodup_nil, and_true, not_false_eq_true]
        refine ⟨⟨ne c00 c01 (by simp [hi]), ne c00 c10 (by simp [hi]), ne c00 c11 (by simp [hi])⟩,
          ⟨ne c01 c10 (by simp [hi]), ne c01 c11 (by simp [hi])⟩, ne c10 c11 (by simp [hi])⟩)
      (by intro j hjm; simp only [List.mem_cons, List.not_mem_nil, or_false] at hjm
          rcases hjm with rfl | rfl | rfl | rfl
          · exact sh.bound _ _ c00
          · exact sh.bound _ _ c01
          · exact sh.bound _ _ c10
          · exact sh.bound _ _ c11)
      (by intro j hjm; simp only [List.mem_cons, List.not_mem_nil, or_false] at hjm
          rcases hjm with rfl | rfl | rfl | rfl
          · exact untouched sh (hS i i (Or.inl rfl) (Or.inl rfl)) c00
          · exact untouched sh (hS i (i + 1) (Or.inl rfl) (Or.inr rfl)) c01
          · exact untouched sh (hS (i + 1) i (Or.inr rfl) (Or.inl rfl)) c10
          · exact untouched sh (hS (i + 1) (i + 1) (Or.inr rfl) (Or.inr rfl)) c11)
      (quad_block hc hu)
    exact ⟨v', h1, _, hg'⟩
  · rw [if_neg hh]
    exact ⟨v, rfl, _, hg⟩

/-- a `for` loop whose body keeps the invariant and processes fresh tags -/
theorem forSteps_good (step : Int → Mat α → Except Err (Mat α)) (tags : Int → Tag → Prop) :
    ∀ (ks : List Int),
    (∀ k ∈ ks, ∀ (S : Tag → Prop) (v : Mat α), (∀ t, tags k t → ¬ S t) → Good n (TS (colOf h fams kk) S) v →
      ∃ v', step k v = .ok v' ∧ Good n (TS (colOf h fams kk) (fun t => S t ∨ tags k t)) v') →
    ks.Nodup → (∀ k ∈ ks, ∀ k' ∈ ks, k ≠ k' → ∀ t, tags k t → ¬ tags k' t) →
    ∀ (S : Tag → Prop) (v : Mat α), (∀ k ∈ ks, ∀ t, tags k t → ¬ S t) → Good n (TS (colOf h fams kk) S) v →
      ∃ v', forSteps ks step v = .ok v' ∧ Good n (TS (colOf h fams kk) (fun t => S t ∨ ∃ k ∈ ks, tags k t)) v' := by
  intro ks
  induction ks with
  | nil =>
    intro _ _ _ S v _ hg
    exact ⟨v, rfl, hg.mono fun j ⟨t, ht, et⟩ => ⟨t, Or.inl ht, et⟩⟩
  | cons k rest ih =>
    intro hstep hnd hdis S v hS hg
    obtain ⟨v1, e1, g1⟩ := hstep k List.mem_cons_self S v (hS k List.mem_cons_self) hg
    have hnd' := List.nodup_cons.1 hnd
    obtain ⟨v2, e2, g2⟩ := ih (fun k' hk' => hstep k' (List.mem_cons_of_mem _ hk')) hnd'.2
      (fun a ha b hb => hdis a (List.mem_cons_of_mem _ ha) b (List.mem_cons_of_mem _ hb))
      (fun t => S t ∨ tags k t) v1
      (by
        intro k' hk' t ht hor
        rcases hor with h1 | h1
        · exact hS k' (List.mem_cons_of_mem _ hk') t ht h1
        · exact hdis k List.mem_cons_self k' (List.mem_cons_of_mem _ hk') (fun e => hnd'.1 (e ▸ hk')) t h1 ht)
      g1
    refine ⟨v2, ?_, g2.mono ?_⟩
    · simp only [forSteps, e1]; exact e2
    · rintro j ⟨t, ht, et⟩
      refine ⟨t, ?_, et⟩
      rcases ht with (h1 | h1) | ⟨k', hk', h1⟩
      · exact Or.inl h1
      · exact Or.inr ⟨k, List.mem_cons_self, h1⟩
      · exact Or.inr ⟨k', List.mem_cons_of_mem _ hk', h1⟩

end steps
end Ptn.Ham.Gauge

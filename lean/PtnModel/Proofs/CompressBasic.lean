import Mathlib.Analysis.RCLike.Basic
import PtnModel.Props.C12Split
import PtnModel.Proofs.OrthoFinal
/-!
# Vocabulary for `MPS.compress` (C13): Frobenius weights

* `frobM`, `frobT`       : squared Frobenius norms (real) of a matrix / an MPS tensor (in-range entries);
* `frobM_cast`, `frobT_cast` : the `𝕜`-valued forms `Σ star x * x`;
* `sqSum s`              : `Σ s_t²` of a list of reals;
* `gram_finset`          : `‖U w‖² = ‖w‖²` for orthonormal columns indexed by an arbitrary finset;
* `frobT_rawPush`        : pushing a matrix into a right isometry keeps the Frobenius norm.
-/
set_option linter.unusedSectionVars false
namespace Ptn.Compress
open Ptn.BondOps Ptn.Ortho Finset

variable {𝕜 : Type} [RCLike 𝕜]

/-- squared Frobenius norm of a matrix -/
noncomputable def frobM (M : Mat 𝕜) : ℝ := ∑ i ∈ range M.m, ∑ j ∈ range M.n, ‖M.f i j‖ ^ 2

/-- squared Frobenius norm of an MPS tensor -/
noncomputable def frobT (A : T3 𝕜) : ℝ := ∑ s ∈ range A.d0, ∑ a ∈ range A.d1, ∑ b ∈ range A.d2, ‖A.f s a b‖ ^ 2

/-- sum of squares of a list of reals (the right-hand side of `NormContract`) -/
def sqSum (s : List ℝ) : ℝ := (s.map fun x => x * x).sum

theorem normsq_cast (z : 𝕜) : ((‖z‖ ^ 2 : ℝ) : 𝕜) = star z * z := by
  rw [RCLike.ofReal_pow]
  exact (RCLike.conj_mul z).symm

theorem frobM_cast (M : Mat 𝕜) :
    ((frobM M : ℝ) : 𝕜) = ∑ i ∈ range M.m, ∑ j ∈ range M.n, star (M.f i j) * M.f i j := by
  unfold frobM
  rw [RCLike.ofReal_sum]
  refine sum_congr rfl fun i _ => ?_
  rw [RCLike.ofReal_sum]
  exact sum_congr rfl fun j _ => normsq_cast _

theorem frobT_cast (A : T3 𝕜) :
    ((frobT A : ℝ) : 𝕜) =
      ∑ s ∈ range A.d0, ∑ a ∈ range A.d1, ∑ b ∈ range A.d2, star (A.f s a b) * A.f s a b := by
  unfold frobT
  rw [RCLike.ofReal_sum]
  refine sum_congr rfl fun i _ => ?_
  rw [RCLike.ofReal_sum]
  refine sum_congr rfl fun j _ => ?_
  rw [RCLike.ofReal_sum]
  exact sum_congr rfl fun j _ => normsq_cast _

theorem frobM_nonneg (M : Mat 𝕜) : 0 ≤ frobM M :=
  sum_nonneg fun _ _ => sum_nonneg fun _ _ => by positivity

theorem frobT_nonneg (A : T3 𝕜) : 0 ≤ frobT A :=
  sum_nonneg fun _ _ => sum_nonneg fun _ _ => sum_nonneg fun _ _ => by positivity

theorem frobM_congr {M N : Mat 𝕜} (hm : M.m = N.m) (hn : M.n = N.n)
    (hf : ∀ i j, i < M.m → j < M.n → M.f i j = N.f i j) : frobM M = frobM N := by
  unfold frobM
  rw [← hm, ← hn]
  exact sum_congr rfl fun i hi => sum_congr rfl fun j hj => by
    rw [hf i j (mem_range.1 hi) (mem_range.1 hj)]

theorem frobT_congr [DecidableEq 𝕜] {X Y : T3 𝕜} (h : T3Eqv X Y) : frobT X = frobT Y := by
  unfold frobT
  rw [← h.d0, ← h.d1, ← h.d2]
  exact sum_congr rfl fun s hs => sum_congr rfl fun a ha => sum_congr rfl fun b hb => by
    rw [h.f s a b (mem_range.1 hs) (mem_range.1 ha) (mem_range.1 hb)]

/-- a tensor with positive Frobenius norm has a non-zero in-range entry -/
theorem exists_ne_of_frobM_pos {M : Mat 𝕜} (h : 0 < frobM M) : ∃ i j, i < M.m ∧ j < M.n ∧ M.f i j ≠ 0 := by
  by_contra hc
  have : frobM M = 0 := by
    unfold frobM
    refine sum_eq_zero fun i hi => sum_eq_zero fun j hj => ?_
    have : M.f i j = 0 := by
      by_contra hne
      exact hc ⟨i, j, mem_range.1 hi, mem_range.1 hj, hne⟩
    rw [this]; simp
  rw [this] at h
  exact lt_irrefl _ h

theorem sqSum_nonneg (s : List ℝ) : 0 ≤ sqSum s :=
  List.sum_nonneg fun x hx => by
    obtain ⟨y, _, rfl⟩ := List.mem_map.1 hx
    exact mul_self_nonneg y

/-- a finset sum over the positions of a list is the list sum -/
theorem sum_range_getD (l : List ℝ) (f : ℝ → ℝ) :
    ∑ p ∈ range l.length, f (l.getD p 0) = (l.map f).sum := by
  induction l with
  | nil => simp
  | cons x l ih =>
    rw [List.length_cons, sum_range_succ', List.map_cons, List.sum_cons, add_comm]
    congr 1

/-- if the columns `U[·, p]`, `p < D`, are orthonormal over the index set `S` then `‖U w‖² = ‖w‖²` -/
theorem gram_finset {ι : Type} (S : Finset ι) (D : Nat) (U : ι → Nat → 𝕜) (w : Nat → 𝕜)
    (hU : ∀ p p', p < D → p' < D → ∑ i ∈ S, star (U i p) * U i p' = if p = p' then 1 else 0) :
    ∑ i ∈ S, star (∑ p ∈ range D, U i p * w p) * (∑ p ∈ range D, U i p * w p) =
      ∑ p ∈ range D, star (w p) * w p := by
  have h1 : ∀ i, star (∑ p ∈ range D, U i p * w p) * (∑ p ∈ range D, U i p * w p) =
      ∑ p ∈ range D, ∑ p' ∈ range D, (star (w p) * w p') * (star (U i p) * U i p') := by
    intro i
    rw [star_sum, sum_mul_sum]
    apply sum_congr rfl; intro p _
    apply sum_congr rfl; intro p' _
    rw [star_mul']; ring
  simp only [h1]
  rw [sum_comm]
  apply sum_congr rfl; intro p hp
  rw [sum_comm]
  have h2 : ∀ p' ∈ range D, ∑ i ∈ S, (star (w p) * w p') * (star (U i p) * U i p') =
      (star (w p) * w p') * (if p = p' then 1 else 0) := by
    intro p' hp'
    rw [← mul_sum, hU p p' (mem_range.1 hp) (mem_range.1 hp')]
  rw [sum_congr rfl h2, sum_eq_single p]
  · simp
  · intro b _ hb; simp [Ne.symm hb]
  · intro h; exact absurd hp h

variable [DecidableEq 𝕜]

/-- `‖W · X‖_F = ‖W‖_F` when `X` is a right isometry (`W` acts on the left bond of `X`) -/
theorem frobT_rawPush {W : Mat 𝕜} {X : T3 𝕜} (hX : RightIso X) (hn : W.n = X.d1) :
    frobT (rawPush W X) = frobM W := by
  apply RCLike.ofReal_injective (K := 𝕜)
  rw [frobT_cast, frobM_cast]
  show ∑ s ∈ range X.d0, ∑ p ∈ range W.m, ∑ c ∈ range X.d2,
      star (∑ b ∈ range W.n, W.f p b * X.f s b c) * (∑ b ∈ range W.n, W.f p b * X.f s b c) = _
  rw [sum_comm]
  refine sum_congr rfl fun p _ => ?_
  have := gram_finset (range X.d0 ×ˢ range X.d2) W.n (fun i b => X.f i.1 b i.2) (fun b => W.f p b) (by
    intro b b' hb hb'
    rw [sum_product]
    exact hX b b' (by rw [← hn]; exact hb) (by rw [← hn]; exact hb'))
  rw [sum_product] at this
  rw [← this]
  refine sum_congr rfl fun s _ => sum_congr rfl fun c _ => ?_
  simp only [mul_comm]

/-- the dummy tensor `[[[1]]]` is a right isometry -/
theorem isOne_rightIso {X : T3 𝕜} (h : IsOne X) : RightIso X := by
  intro a a' ha ha'
  obtain ⟨h0, h1, h2, hf⟩ := h
  rw [h1] at ha ha'
  have e : a = 0 := by omega
  have e' : a' = 0 := by omega
  subst e e'
  rw [h0, h2, sum_range_one, sum_range_one, hf]
  simp

end Ptn.Compress

import PtnModel.Proofs.HistSimple
import PtnModel.Proofs.EnvStep
import PtnModel.Model.Evolution
/-!
# C02: the local effective Hamiltonian preserves the charge sector (`localH_sparse`)

`apply_local_hamiltonian(L, R, W, A)` contracts the left/right environment blocks, the MPO tensor and the site tensor.
If `L`, `R` are block sparse in the sense checked by the prologue of TDVP/DMRG
(`is_qsparse(B, [q, qH, -q])`), `W` is a block-sparse MPO tensor and `A` a block-sparse MPS tensor, the result is block
sparse w.r.t. the same charges as `A`: every Krylov vector `H_eff^k A` stays in the sector of `A`.
(The closure of the sector under the Lanczos recurrence and the final linear combination of `expm_krylov` /
`eigh_krylov` — sums and scalar multiples of sparse tensors — is not proved here.)
-/
set_option linter.unusedSectionVars false
namespace Ptn.HistWf
open Ptn.Hist Ptn.Ortho Finset
variable {𝕜 : Type} [CommRing 𝕜] [StarRing 𝕜] [DecidableEq 𝕜]

/-- Prop form of `Evo.blockSparse` (`is_qsparse(B, [qa, qw, -qa])` for an environment block) -/
def BlockSparse (B : T3 𝕜) (qa qw : List Int) : Prop :=
  ∀ a w b, a < B.d0 → w < B.d1 → b < B.d2 → B.f a w b ≠ 0 → qa.getD a 0 + qw.getD w 0 - qa.getD b 0 = 0

theorem blockSparse_iff (B : T3 𝕜) (qa qw : List Int) : Evo.blockSparse B qa qw = true ↔ BlockSparse B qa qw := by
  unfold Evo.blockSparse BlockSparse T3.all
  simp only [List.all_eq_true, List.mem_range, Bool.or_eq_true, decide_eq_true_eq]
  constructor
  · intro h a w b ha hw hb hne
    rcases h a ha w hw b hb with h' | h'
    · exact h'
    · exact absurd h' hne
  · intro h a ha w hw b hb
    by_cases h0 : B.f a w b = 0
    · exact Or.inr h0
    · exact Or.inl (h a w b ha hw hb h0)

/-- **`localH_sparse`**: `apply_local_hamiltonian` maps a tensor of the sector `(qd, qa, qb)` into the same sector -/
theorem localH_sparse {L R : T3 𝕜} {W : T4 𝕜} {A T : T3 𝕜} {qd qa qb qw qw' : List Int}
    (h : Op.applyLocalHamiltonian L R W A = .ok T)
    (hL : BlockSparse L qa qw) (hR : BlockSparse R qb qw') (hW : SparseT4 W qd qw qw') (hA : SparseT3 A qd qa qb) :
    SparseT3 T qd qa qb := by
  by_cases hc : A.d2 ≠ R.d0 ∨ W.d1 ≠ A.d0 ∨ W.d3 ≠ R.d1 ∨ A.d1 ≠ L.d0 ∨ W.d2 ≠ L.d1
  · unfold Op.applyLocalHamiltonian at h
    rw [if_pos hc] at h
    simp [throw, throwThe, MonadExceptOf.throw, bind, Except.bind] at h
  · simp only [not_or, not_not] at hc
    obtain ⟨c1, c2, c3, c4, c5⟩ := hc
    obtain ⟨T', hT', s0, s1, s2, hf⟩ := Env.applyLocalHamiltonian_ok L R W A c1 c2 c3 c4 c5
    rw [h] at hT'
    injection hT' with hT'
    subst hT'
    intro s' a' b' hs' ha' hb' hne
    rw [s0] at hs'; rw [s1] at ha'; rw [s2] at hb'
    rw [hf s' a' b' hs' ha' hb'] at hne
    obtain ⟨a, ha, hne⟩ := Finset.exists_ne_zero_of_sum_ne_zero hne
    obtain ⟨w, hw, hne⟩ := Finset.exists_ne_zero_of_sum_ne_zero hne
    have ha := Finset.mem_range.1 ha
    have hw := Finset.mem_range.1 hw
    have hLne : L.f a w a' ≠ 0 := fun h0 => hne (by rw [h0, mul_zero])
    have hT2 : (∑ s ∈ range W.d1, ∑ w' ∈ range W.d3, W.f s' s w w' * ∑ b ∈ range A.d2, A.f s a b * R.f b w' b') ≠ 0 :=
      fun h0 => hne (by rw [h0, zero_mul])
    obtain ⟨s, hs, hT2⟩ := Finset.exists_ne_zero_of_sum_ne_zero hT2
    obtain ⟨w', hw', hT2⟩ := Finset.exists_ne_zero_of_sum_ne_zero hT2
    have hs := Finset.mem_range.1 hs
    have hw' := Finset.mem_range.1 hw'
    have hWne : W.f s' s w w' ≠ 0 := fun h0 => hT2 (by rw [h0, zero_mul])
    have hT1 : (∑ b ∈ range A.d2, A.f s a b * R.f b w' b') ≠ 0 := fun h0 => hT2 (by rw [h0, mul_zero])
    obtain ⟨b, hb, hT1⟩ := Finset.exists_ne_zero_of_sum_ne_zero hT1
    have hb := Finset.mem_range.1 hb
    have hAne : A.f s a b ≠ 0 := fun h0 => hT1 (by rw [h0, zero_mul])
    have hRne : R.f b w' b' ≠ 0 := fun h0 => hT1 (by rw [h0, mul_zero])
    have e1 := hA s a b (by omega) ha hb hAne
    have e2 := hR b w' b' (by omega) (by omega) hb' hRne
    have e3 := hW s' s w w' hs' hs hw hw' hWne
    have e4 := hL a w a' (by omega) (by omega) ha' hLne
    omega

end Ptn.HistWf

import Mathlib.Data.List.Perm.Subperm
import Mathlib.Tactic.Linarith
import PtnModel.Proofs.OgConsistent
/-!
# The level clause of `is_consistent`

`ReachFrom g d x k y`: there is a walk of `k` edges from node `x` to node `y` against... in the sense of the
level BFS of direction `d`: from a node along the edges listed in `eids (!d)` to their end `nid (!d)`.
`LevelFun g d`: every node reachable from `term d` is reached by walks of one length only.
For structurally valid graphs `levelBfs` (with the model's fuel) returns `true` exactly if `LevelFun` holds
(`levelBfs_iff`), so `Valid g ↔ SValid g ∧ LevelFun g false ∧ LevelFun g true`.
-/
set_option linter.unusedSectionVars false
namespace Ptn.Og
open List

variable {κ : Type} [CommRing κ] [DecidableEq κ]

/-- walks of the level BFS in direction `d` -/
inductive ReachFrom (g : Graph κ) (d : Bool) : Int → Nat → Int → Prop
  | refl (x : Int) : ReachFrom g d x 0 x
  | cons {x : Int} {n : Node} {eid : Int} {e : Edge κ} {k : Nat} {y : Int} :
      dGet? g.nodes x = some n → eid ∈ n.eids (!d) → dGet? g.edges eid = some e →
      ReachFrom g d (e.nid (!d)) k y → ReachFrom g d x (k + 1) y

/-- every node reachable from the terminal of direction `d` has a unique distance from it -/
def LevelFun (g : Graph κ) (d : Bool) : Prop :=
  ∀ y j j', ReachFrom g d (g.term d) j y → ReachFrom g d (g.term d) j' y → j = j'

theorem ReachFrom.trans {g : Graph κ} {d : Bool} {a b c : Int} {i k : Nat}
    (h1 : ReachFrom g d a i b) (h2 : ReachFrom g d b k c) : ReachFrom g d a (i + k) c := by
  induction h1 with
  | refl x => simpa using h2
  | cons hn he hl _ ih =>
    have := ReachFrom.cons hn he hl (ih h2)
    have e : ∀ a b : Nat, a + 1 + b = a + b + 1 := by omega
    rw [e]; exact this

theorem ReachFrom.snoc {g : Graph κ} {d : Bool} {a x : Int} {j : Nat} {n : Node} {eid : Int} {e : Edge κ}
    (h1 : ReachFrom g d a j x) (hn : dGet? g.nodes x = some n) (he : eid ∈ n.eids (!d))
    (hl : dGet? g.edges eid = some e) : ReachFrom g d a (j + 1) (e.nid (!d)) :=
  h1.trans (ReachFrom.cons hn he hl (ReachFrom.refl _))

theorem ReachFrom.zero {g : Graph κ} {d : Bool} {a y : Int} (h : ReachFrom g d a 0 y) : y = a := by
  cases h; rfl

/-- the children pushed by the BFS when it pops `(nid, level)` -/
def bfsKids (g : Graph κ) (d : Bool) (nid : Int) (level : Nat) (node : Node) : List (Int × Nat) :=
  (node.eids (!d)).map (fun eid =>
    match dGet? g.edges eid with
    | some e => (e.nid (!d), level + 1)
    | none => (nid, level + 1))

theorem levelBfs_succ_cons (g : Graph κ) (d : Bool) (fuel : Nat) (nid : Int) (level : Nat)
    (queue levels : List (Int × Nat)) :
    g.levelBfs d (fuel + 1) ((nid, level) :: queue) levels =
      match levels.lookup nid with
      | some l =>
        if level != l then false
        else match dGet? g.nodes nid with
          | none => false
          | some node => g.levelBfs d fuel (queue ++ bfsKids g d nid level node) levels
      | none =>
        match dGet? g.nodes nid with
        | none => false
        | some node => g.levelBfs d fuel (queue ++ bfsKids g d nid level node) (levels ++ [(nid, level)]) := by
  rw [Graph.levelBfs]
  rfl

/-! ## soundness: a successful BFS yields a level function -/

theorem lookup_append_single_nat (lv : List (Int × Nat)) (k : Int) (v : Nat) (k' : Int) (hk : lv.lookup k = none) :
    (lv ++ [(k, v)]).lookup k' = if k' = k then some v else lv.lookup k' := by
  induction lv with
  | nil =>
    simp only [nil_append, lookup_cons, lookup_nil]
    by_cases h : k' = k
    · subst h; simp
    · have : (k' == k) = false := by simpa using h
      simp [this, h]
  | cons p lv ih =>
    obtain ⟨a, b⟩ := p
    rw [lookup_cons] at hk
    by_cases hka : k = a
    · subst hka; simp at hk
    · have hb : (k == a) = false := by simpa using hka
      rw [hb] at hk
      simp only [cons_append, lookup_cons]
      by_cases hk'a : k' = a
      · subst hk'a
        have : ¬ k' = k := fun h => hka h.symm
        simp [this]
      · have : (k' == a) = false := by simpa using hk'a
        simp only [this]
        exact ih hk

theorem levelBfs_sound (g : Graph κ) (d : Bool) :
    ∀ (fuel : Nat) (q lv : List (Int × Nat)), g.levelBfs d fuel q lv = true →
      ∃ L : Int → Option Nat, (∀ x, (lv.lookup x).isSome → L x = lv.lookup x) ∧
        ∀ p ∈ q, ∀ k y, ReachFrom g d p.1 k y → L y = some (p.2 + k) := by
  intro fuel
  induction fuel with
  | zero => intro q lv h; simp [Graph.levelBfs] at h
  | succ fuel ih =>
    intro q lv h
    cases q with
    | nil => exact ⟨fun x => lv.lookup x, fun _ _ => rfl, by simp⟩
    | cons p q =>
      obtain ⟨nid, level⟩ := p
      rw [levelBfs_succ_cons] at h
      -- in both branches: the node exists, the recursive call succeeded on an extended state in which nid ↦ level
      have key : ∃ node lv', dGet? g.nodes nid = some node ∧
          g.levelBfs d fuel (q ++ bfsKids g d nid level node) lv' = true ∧
          lv'.lookup nid = some level ∧ (∀ x, (lv.lookup x).isSome → lv'.lookup x = lv.lookup x) := by
        cases hl : lv.lookup nid with
        | some l =>
          rw [hl] at h
          simp only at h
          by_cases hne : (level != l) = true
          · simp [hne] at h
          · simp only [hne] at h
            have hll : level = l := by simpa using hne
            cases hn : dGet? g.nodes nid with
            | none => rw [hn] at h; simp at h
            | some node =>
              rw [hn] at h
              exact ⟨node, lv, rfl, h, by rw [hl, hll], fun _ _ => rfl⟩
        | none =>
          rw [hl] at h
          simp only at h
          cases hn : dGet? g.nodes nid with
          | none => rw [hn] at h; simp at h
          | some node =>
            rw [hn] at h
            refine ⟨node, lv ++ [(nid, level)], rfl, h, ?_, ?_⟩
            · rw [lookup_append_single_nat _ _ _ _ hl]; simp
            · intro x hx
              rw [lookup_append_single_nat _ _ _ _ hl]
              by_cases hxn : x = nid
              · subst hxn; rw [hl] at hx; simp at hx
              · simp [hxn]
      obtain ⟨node, lv', hn, hrec, hnid, hext⟩ := key
      obtain ⟨L, hL1, hL2⟩ := ih _ _ hrec
      refine ⟨L, ?_, ?_⟩
      · intro x hx
        rw [hL1 x (by rw [hext x hx]; exact hx), hext x hx]
      · intro p hp k y hr
        rcases mem_cons.1 hp with rfl | hp
        · -- the popped item
          cases hr with
          | refl =>
            simp only [Nat.add_zero]
            rw [hL1 nid (by rw [hnid]; rfl), hnid]
          | cons hn' he hl hr' =>
            rw [hn] at hn'
            cases hn'
            rename_i eid e k
            have hkid : (e.nid (!d), level + 1) ∈ q ++ bfsKids g d nid level node := by
              apply mem_append_right
              unfold bfsKids
              refine mem_map.2 ⟨eid, he, ?_⟩
              rw [hl]
            have := hL2 _ hkid k y hr'
            simp only at this ⊢
            rw [this]
            congr 1
            omega
        · exact hL2 p (mem_append_left _ hp) k y hr

/-- a successful level BFS from the terminal gives unique distances -/
theorem LevelFun.of_levelBfs {g : Graph κ} {d : Bool} {fuel : Nat}
    (h : g.levelBfs d fuel [(g.term d, 0)] [] = true) : LevelFun g d := by
  obtain ⟨L, _, hL⟩ := levelBfs_sound g d fuel _ _ h
  intro y j j' h1 h2
  have a := hL _ (mem_singleton.2 rfl) j y h1
  have b := hL _ (mem_singleton.2 rfl) j' y h2
  simp only [Nat.zero_add] at a b
  rw [a] at b
  exact Option.some.inj b


/-! ## completeness: unique distances make the BFS succeed within the fuel -/

theorem reach_mem_keys {g : Graph κ} (h : SValid g) {d : Bool} {a : Int} {k : Nat} {y : Int}
    (ha : a ∈ dKeys g.nodes) (hr : ReachFrom g d a k y) : y ∈ dKeys g.nodes := by
  induction hr with
  | refl x => exact ha
  | cons hn he hl _ ih =>
    apply ih
    obtain ⟨n', hn', _⟩ := h.edgeNode _ _ (mem_of_dGet?_eq_some hl) (!d)
    exact mem_map.2 ⟨_, hn', rfl⟩

theorem term_mem_keys {g : Graph κ} (h : SValid g) (d : Bool) : g.term d ∈ dKeys g.nodes := by
  obtain ⟨n, hn, _⟩ := h.termNode d
  exact mem_map.2 ⟨_, hn, rfl⟩

/-- the nodes along a walk -/
theorem reach_chain {g : Graph κ} (h : SValid g) {d : Bool} {a : Int} {k : Nat} {y : Int}
    (ha : a ∈ dKeys g.nodes) (hr : ReachFrom g d a k y) :
    ∃ l : List Int, l.length = k + 1 ∧ ∀ i x, l[i]? = some x → ReachFrom g d a i x ∧ x ∈ dKeys g.nodes := by
  induction hr with
  | refl x =>
    refine ⟨[x], rfl, ?_⟩
    intro i z hz
    cases i with
    | zero => simp at hz; subst hz; exact ⟨ReachFrom.refl _, ha⟩
    | succ i => simp at hz
  | @cons x n eid e k y hn he hl _ ih =>
    have hc : e.nid (!d) ∈ dKeys g.nodes := by
      obtain ⟨n', hn', _⟩ := h.edgeNode _ _ (mem_of_dGet?_eq_some hl) (!d)
      exact mem_map.2 ⟨_, hn', rfl⟩
    obtain ⟨l, hlen, hl'⟩ := ih hc
    refine ⟨x :: l, by simp [hlen], ?_⟩
    intro i z hz
    cases i with
    | zero => simp at hz; subst hz; exact ⟨ReachFrom.refl _, ha⟩
    | succ i =>
      rw [getElem?_cons_succ] at hz
      obtain ⟨h1, h2⟩ := hl' i z hz
      exact ⟨ReachFrom.cons hn he hl h1, h2⟩

/-- pigeonhole: with unique distances, every distance is smaller than the number of nodes -/
theorem reach_lt {g : Graph κ} (h : SValid g) {d : Bool} (hL : LevelFun g d) {j : Nat} {x : Int}
    (hr : ReachFrom g d (g.term d) j x) : j < g.nodes.length := by
  obtain ⟨l, hlen, hl⟩ := reach_chain h (term_mem_keys h d) hr
  have hnd : l.Nodup := by
    rw [nodup_iff_getElem?_ne_getElem?]
    intro i i' hii hi' heq
    have hi : i < l.length := lt_trans hii hi'
    have e1 : l[i]? = some l[i] := getElem?_eq_getElem hi
    have e2 : l[i']? = some l[i'] := getElem?_eq_getElem hi'
    rw [e1, e2] at heq
    have := Option.some.inj heq
    have r1 := (hl i _ e1).1
    have r2 := (hl i' _ e2).1
    rw [← this] at r2
    have := hL _ _ _ r1 r2
    omega
  have hsub : l ⊆ dKeys g.nodes := by
    intro z hz
    obtain ⟨i, hi, rfl⟩ := getElem_of_mem hz
    exact (hl i _ (getElem?_eq_getElem hi)).2
  have := (subperm_of_subset hnd hsub).length_le
  simp only [dKeys, length_map] at this
  omega

/-- weight of a queue item at level `j` -/
def bfsW (g : Graph κ) (j : Nat) : Nat := (g.edges.length + 1) ^ (g.nodes.length - j)

theorem bfsW_step (g : Graph κ) {j : Nat} (hj : j < g.nodes.length) (m : Nat) (hm : m ≤ g.edges.length) :
    m * bfsW g (j + 1) + 1 ≤ bfsW g j := by
  unfold bfsW
  have e : g.nodes.length - j = (g.nodes.length - (j + 1)) + 1 := by omega
  rw [e, pow_succ]
  have hp : 1 ≤ (g.edges.length + 1) ^ (g.nodes.length - (j + 1)) := Nat.one_le_pow _ _ (by omega)
  nlinarith

theorem kids_length_le {g : Graph κ} (h : SValid g) {x : Int} {n : Node} (hn : dGet? g.nodes x = some n) (d : Bool) :
    (n.eids d).length ≤ g.edges.length := by
  have hmem := mem_of_dGet?_eq_some hn
  have hsub : n.eids d ⊆ dKeys g.edges := by
    intro eid he
    obtain ⟨e, he', _⟩ := h.nodeEdge x n hmem d eid he
    exact mem_map.2 ⟨_, he', rfl⟩
  have := (subperm_of_subset (h.eidsNodup x n hmem d) hsub).length_le
  simpa [dKeys] using this

theorem levelBfs_complete_aux {g : Graph κ} (h : SValid g) {d : Bool} (hL : LevelFun g d) :
    ∀ (fuel : Nat) (q lv : List (Int × Nat)),
      (∀ p ∈ q, ReachFrom g d (g.term d) p.2 p.1) →
      (∀ x l, lv.lookup x = some l → ReachFrom g d (g.term d) l x) →
      (q.map fun p => bfsW g p.2).sum < fuel → g.levelBfs d fuel q lv = true := by
  intro fuel
  induction fuel with
  | zero => intro q lv _ _ hs; omega
  | succ fuel ih =>
    intro q lv hq hlv hs
    cases q with
    | nil => simp [Graph.levelBfs]
    | cons p q =>
      obtain ⟨x, j⟩ := p
      have hr : ReachFrom g d (g.term d) j x := hq (x, j) (by simp)
      have hxk := reach_mem_keys h (term_mem_keys h d) hr
      obtain ⟨n, hn⟩ : ∃ n, dGet? g.nodes x = some n := by
        cases hc : dGet? g.nodes x with
        | none => exact absurd hxk (dGet?_eq_none_iff.1 hc)
        | some n => exact ⟨n, rfl⟩
      have hj := reach_lt h hL hr
      -- the kids are reachable at level j + 1
      have hkids : ∀ p ∈ bfsKids g d x j n, ReachFrom g d (g.term d) p.2 p.1 ∧ p.2 = j + 1 := by
        intro p hp
        unfold bfsKids at hp
        obtain ⟨eid, he, rfl⟩ := mem_map.1 hp
        obtain ⟨e, he', _⟩ := h.nodeEdge x n (mem_of_dGet?_eq_some hn) (!d) eid he
        have hl := dGet?_eq_some_of_mem h.edgesKeys he'
        rw [hl]
        exact ⟨hr.snoc hn he hl, rfl⟩
      have hsum : ((q ++ bfsKids g d x j n).map fun p => bfsW g p.2).sum < fuel := by
        rw [map_append, sum_append]
        have e1 : ((bfsKids g d x j n).map fun p => bfsW g p.2) = replicate (n.eids (!d)).length (bfsW g (j + 1)) := by
          rw [eq_replicate_iff]
          refine ⟨by simp [bfsKids], ?_⟩
          intro b hb
          obtain ⟨p, hp, rfl⟩ := mem_map.1 hb
          rw [(hkids p hp).2]
        rw [e1, sum_replicate_nat]
        have := bfsW_step g hj _ (kids_length_le h hn (!d))
        simp only [map_cons, sum_cons] at hs
        omega
      have hq' : ∀ p ∈ q ++ bfsKids g d x j n, ReachFrom g d (g.term d) p.2 p.1 := by
        intro p hp
        rcases mem_append.1 hp with hp | hp
        · exact hq p (mem_cons_of_mem _ hp)
        · exact (hkids p hp).1
      rw [levelBfs_succ_cons]
      cases hl : lv.lookup x with
      | some l =>
        simp only
        have : l = j := hL _ _ _ (hlv x l hl) hr
        subst this
        simp only [bne_self_eq_false, Bool.false_eq_true, if_false, hn]
        exact ih _ _ hq' hlv hsum
      | none =>
        simp only [hn]
        apply ih _ _ hq' _ hsum
        intro y l' hy
        rw [lookup_append_single_nat _ _ _ _ hl] at hy
        by_cases hyx : y = x
        · subst hyx
          simp only [if_true, Option.some.injEq] at hy
          subst hy; exact hr
        · simp only [hyx, if_false] at hy
          exact hlv y l' hy

/-- **the level BFS decides unique distances** (on structurally valid graphs, with the model's fuel) -/
theorem levelBfs_iff {g : Graph κ} (h : SValid g) (d : Bool) :
    g.levelBfs d g.bfsFuel [(g.term d, 0)] [] = true ↔ LevelFun g d := by
  constructor
  · exact LevelFun.of_levelBfs
  · intro hL
    apply levelBfs_complete_aux h hL
    · intro p hp
      rw [mem_singleton] at hp
      subst hp
      exact ReachFrom.refl _
    · intro x l hx
      simp at hx
    · simp only [map_cons, map_nil, sum_cons, sum_nil, Nat.add_zero]
      unfold bfsW Graph.bfsFuel
      have a : (g.edges.length + 1) ^ (g.nodes.length - 0) ≤ (g.edges.length + 2) ^ (g.nodes.length - 0) :=
        Nat.pow_le_pow_left (by omega) _
      have b : (g.edges.length + 2) ^ (g.nodes.length - 0) ≤ (g.edges.length + 2) ^ (g.nodes.length + 1) :=
        Nat.pow_le_pow_right (by omega) (by omega)
      omega

theorem levelsOk_iff {g : Graph κ} (h : SValid g) : g.levelsOk = true ↔ LevelFun g false ∧ LevelFun g true := by
  unfold Graph.levelsOk
  simp only [all_cons, all_nil, Bool.and_true, Bool.and_eq_true]
  rw [levelBfs_iff h false, levelBfs_iff h true]

/-- **Characterisation of validity**: no duplicates, the structural clauses, and unique distances from both terminals -/
theorem valid_iff_levelFun (g : Graph κ) : Valid g ↔ SValid g ∧ LevelFun g false ∧ LevelFun g true := by
  unfold Valid
  constructor
  · rintro ⟨h, hl⟩; exact ⟨h, (levelsOk_iff h).1 hl⟩
  · rintro ⟨h, hl⟩; exact ⟨h, (levelsOk_iff h).2 hl⟩

end Ptn.Og

import PtnModel.Proofs.SpinExplDefs
/-!
# Explicit spin-orbital molecular graph: classification of the wiring edges, structural part

Every edge of `swireGen` (the edges of `SpinMolecularOpGraphNodes.generate_graph` as label triples) has end labels inside the index
ranges, one layer apart, an operator of the table whose charge is the charge difference of the end labels (`SOk`), and stays inside the
left forest (segments 1, 3, 4, 5, 6, 7) or the right forest (segments 2, 8, 9, 10, 11, 12).  The words are in `SpinExplLabW`.
-/
set_option linter.unusedSectionVars false
set_option linter.unusedSimpArgs false
set_option linter.unusedVariables false
set_option linter.unusedTactic false
set_option linter.unreachableTactic false

namespace Ptn.Ham
open Ptn.Og List

theorem sxl_stagQ_idL (k : Int) : stagQ (10, [], k) = 0 := rfl
theorem sxl_stagQ_idR (k : Int) : stagQ (11, [], k) = 0 := rfl

theorem sxl_sopQ_vals : sopQ 0 = 0 ∧ sopQ 1 = 65535 ∧ sopQ 2 = -65535 ∧ sopQ 3 = 0 ∧ sopQ 4 = 65537 ∧ sopQ 5 = 131072 ∧ sopQ 6 = 2
   ∧ sopQ 8 = 65537 ∧ sopQ 9 = -65537 ∧ sopQ 10 = -2 ∧ sopQ 11 = -131072 ∧ sopQ 13 = -65537 ∧ sopQ 14 = 0
   ∧ sopQ 19 = 65535 ∧ sopQ 20 = -65535 ∧ sopQ 22 = 0 := by decide

/-- structural classification of an edge: `SOk` and both ends in the same forest -/
def SOkF (L : Int) (y : Lab × Lab × Int) : Prop :=
  SOk L y ∧ ((isLeft y.1 = true ∧ isLeft y.2.1 = true) ∨ (isLeft y.1 = false ∧ isLeft y.2.1 = false))

macro "sxl_ok_tac" : tactic =>
  `(tactic| (refine ⟨⟨?_, ?_, ?_, ?_, ?_, ?_, ?_⟩, ?_⟩ <;>
      (try simp only [mem_pyRange, mem_prodRS, pLt_iff] at *) <;>
      (try simp only [tri, sLabOk, isSpinOid, stagQ, sxl_stagQ_idL, sxl_stagQ_idR] at *) <;>
      first | rfl | omega | decide | exact Or.inl ⟨rfl, rfl⟩ | exact Or.inr ⟨rfl, rfl⟩))

theorem sseg1_ok (L : Int) : ∀ y ∈ sseg1 tri L, SOkF L y := by
  unfold sseg1
  simp only [mem_flatMap, mem_cons, not_mem_nil, or_false]
  rintro x ⟨i, hi, rfl⟩
  sxl_ok_tac

theorem sseg2_ok (L : Int) : ∀ y ∈ sseg2 tri L, SOkF L y := by
  unfold sseg2
  simp only [mem_flatMap, mem_cons, not_mem_nil, or_false]
  rintro x ⟨i, hi, rfl⟩
  sxl_ok_tac

theorem sseg3_ok (L : Int) : ∀ y ∈ sseg3 tri L, SOkF L y := by
  unfold sseg3
  simp only [mem_flatMap, mem_cons, not_mem_nil, or_false, mem_prodRS]
  rintro x ⟨⟨i, s⟩, ⟨hi0, hi1, rfl | rfl⟩, rfl | ⟨j, hj, rfl⟩⟩
  · sxl_ok_tac
  · sxl_ok_tac
  · sxl_ok_tac
  · sxl_ok_tac

theorem sseg4_ok (L : Int) : ∀ y ∈ sseg4 tri L, SOkF L y := by
  unfold sseg4
  simp only [mem_flatMap, mem_cons, not_mem_nil, or_false, mem_prodRS]
  rintro x ⟨⟨i, s⟩, ⟨hi0, hi1, rfl | rfl⟩, rfl | ⟨j, hj, rfl⟩⟩
  · sxl_ok_tac
  · sxl_ok_tac
  · sxl_ok_tac
  · sxl_ok_tac

theorem sseg5_ok (L : Int) : ∀ y ∈ sseg5 tri L, SOkF L y := by
  unfold sseg5
  simp only [mem_flatMap, mem_prodRS]
  rintro x ⟨⟨i, s⟩, ⟨hi0, hi1, hs⟩, ⟨j, t⟩, ⟨hj0, hj1, ht⟩, hx⟩
  by_cases h : pLt (i, s) (j, t) = true
  · rw [if_pos h] at hx
    simp only [mem_flatMap, mem_cons, not_mem_nil, or_false] at hx
    dsimp only at *
    rcases hx with rfl | ⟨k, hk, rfl⟩
    · by_cases h1 : i < j
      · rw [if_pos h1]
        rcases hs with rfl | rfl <;> rcases ht with rfl | rfl <;> sxl_ok_tac
      · rw [if_neg h1]
        rcases hs with rfl | rfl <;> rcases ht with rfl | rfl <;> sxl_ok_tac
    · rcases hs with rfl | rfl <;> rcases ht with rfl | rfl <;> sxl_ok_tac
  · rw [if_neg h] at hx
    exact absurd hx not_mem_nil

theorem sseg6_ok (L : Int) : ∀ y ∈ sseg6 tri L, SOkF L y := by
  unfold sseg6
  simp only [mem_flatMap, mem_prodRS]
  rintro x ⟨⟨i, s⟩, ⟨hi0, hi1, hs⟩, ⟨j, t⟩, ⟨hj0, hj1, ht⟩, hx⟩
  by_cases h : pLt (j, t) (i, s) = true
  · rw [if_pos h] at hx
    simp only [mem_flatMap, mem_cons, not_mem_nil, or_false] at hx
    dsimp only at *
    rcases hx with rfl | ⟨k, hk, rfl⟩
    · by_cases h1 : i > j
      · rw [if_pos h1]
        rcases hs with rfl | rfl <;> rcases ht with rfl | rfl <;> sxl_ok_tac
      · rw [if_neg h1]
        rcases hs with rfl | rfl <;> rcases ht with rfl | rfl <;> sxl_ok_tac
    · rcases hs with rfl | rfl <;> rcases ht with rfl | rfl <;> sxl_ok_tac
  · rw [if_neg h] at hx
    exact absurd hx not_mem_nil

theorem sseg7_ok (L : Int) : ∀ y ∈ sseg7 tri L, SOkF L y := by
  unfold sseg7
  simp only [mem_flatMap, mem_prodRS, mem_cons, not_mem_nil, or_false]
  rintro x ⟨⟨i, s⟩, ⟨hi0, hi1, hs⟩, ⟨j, t⟩, ⟨hj0, hj1, ht⟩, hx⟩
  dsimp only at *
  rcases hx with rfl | ⟨k, hk, rfl⟩
  · by_cases h1 : i < j
    · rw [if_pos h1]
      rcases hs with rfl | rfl <;> rcases ht with rfl | rfl <;> sxl_ok_tac
    · rw [if_neg h1]
      by_cases h2 : i = j
      · rw [if_pos h2]; subst h2
        rcases hs with rfl | rfl <;> rcases ht with rfl | rfl <;> sxl_ok_tac
      · rw [if_neg h2]
        rcases hs with rfl | rfl <;> rcases ht with rfl | rfl <;> sxl_ok_tac
  · rcases hs with rfl | rfl <;> rcases ht with rfl | rfl <;> sxl_ok_tac

theorem sseg8_ok (L : Int) : ∀ y ∈ sseg8 tri L, SOkF L y := by
  unfold sseg8
  simp only [mem_flatMap, mem_append, mem_cons, not_mem_nil, or_false, mem_prodRS]
  rintro x ⟨⟨i, s⟩, ⟨hi0, hi1, rfl | rfl⟩, ⟨j, hj, rfl⟩ | rfl⟩
  · sxl_ok_tac
  · sxl_ok_tac
  · sxl_ok_tac
  · sxl_ok_tac

theorem sseg9_ok (L : Int) : ∀ y ∈ sseg9 tri L, SOkF L y := by
  unfold sseg9
  simp only [mem_flatMap, mem_append, mem_cons, not_mem_nil, or_false, mem_prodRS]
  rintro x ⟨⟨i, s⟩, ⟨hi0, hi1, rfl | rfl⟩, ⟨j, hj, rfl⟩ | rfl⟩
  · sxl_ok_tac
  · sxl_ok_tac
  · sxl_ok_tac
  · sxl_ok_tac

theorem sseg10_ok (L : Int) : ∀ y ∈ sseg10 tri L, SOkF L y := by
  unfold sseg10
  simp only [mem_flatMap, mem_prodRS]
  rintro x ⟨⟨i, s⟩, ⟨hi0, hi1, hs⟩, ⟨j, t⟩, ⟨hj0, hj1, ht⟩, hx⟩
  by_cases h : pLt (i, s) (j, t) = true
  · rw [if_pos h] at hx
    simp only [mem_flatMap, mem_append, mem_cons, not_mem_nil, or_false] at hx
    dsimp only at *
    rcases hx with ⟨k, hk, rfl⟩ | rfl
    · rcases hs with rfl | rfl <;> rcases ht with rfl | rfl <;> sxl_ok_tac
    · by_cases h1 : i < j
      · rw [if_pos h1]
        rcases hs with rfl | rfl <;> rcases ht with rfl | rfl <;> sxl_ok_tac
      · rw [if_neg h1]
        rcases hs with rfl | rfl <;> rcases ht with rfl | rfl <;> sxl_ok_tac
  · rw [if_neg h] at hx
    exact absurd hx not_mem_nil

theorem sseg11_ok (L : Int) : ∀ y ∈ sseg11 tri L, SOkF L y := by
  unfold sseg11
  simp only [mem_flatMap, mem_prodRS]
  rintro x ⟨⟨i, s⟩, ⟨hi0, hi1, hs⟩, ⟨j, t⟩, ⟨hj0, hj1, ht⟩, hx⟩
  by_cases h : pLt (j, t) (i, s) = true
  · rw [if_pos h] at hx
    simp only [mem_flatMap, mem_append, mem_cons, not_mem_nil, or_false] at hx
    dsimp only at *
    rcases hx with ⟨k, hk, rfl⟩ | rfl
    · rcases hs with rfl | rfl <;> rcases ht with rfl | rfl <;> sxl_ok_tac
    · by_cases h1 : i > j
      · rw [if_pos h1]
        rcases hs with rfl | rfl <;> rcases ht with rfl | rfl <;> sxl_ok_tac
      · rw [if_neg h1]
        rcases hs with rfl | rfl <;> rcases ht with rfl | rfl <;> sxl_ok_tac
  · rw [if_neg h] at hx
    exact absurd hx not_mem_nil

theorem sseg12_ok (L : Int) : ∀ y ∈ sseg12 tri L, SOkF L y := by
  unfold sseg12
  simp only [mem_flatMap, mem_prodRS, mem_append, mem_cons, not_mem_nil, or_false]
  rintro x ⟨⟨i, s⟩, ⟨hi0, hi1, hs⟩, ⟨j, t⟩, ⟨hj0, hj1, ht⟩, hx⟩
  dsimp only at *
  rcases hx with ⟨k, hk, rfl⟩ | rfl
  · rcases hs with rfl | rfl <;> rcases ht with rfl | rfl <;> sxl_ok_tac
  · by_cases h1 : i < j
    · rw [if_pos h1]
      rcases hs with rfl | rfl <;> rcases ht with rfl | rfl <;> sxl_ok_tac
    · rw [if_neg h1]
      by_cases h2 : i = j
      · rw [if_pos h2]; subst h2
        rcases hs with rfl | rfl <;> rcases ht with rfl | rfl <;> sxl_ok_tac
      · rw [if_neg h2]
        rcases hs with rfl | rfl <;> rcases ht with rfl | rfl <;> sxl_ok_tac

theorem swire_okF (L : Int) : ∀ y ∈ swireGen tri L, SOkF L y := by
  intro y hy
  simp only [swireGen, mem_append] at hy
  rcases hy with h | h | h | h | h | h | h | h | h | h | h | h
  · exact sseg1_ok L y h
  · exact sseg2_ok L y h
  · exact sseg3_ok L y h
  · exact sseg4_ok L y h
  · exact sseg5_ok L y h
  · exact sseg6_ok L y h
  · exact sseg7_ok L y h
  · exact sseg8_ok L y h
  · exact sseg9_ok L y h
  · exact sseg10_ok L y h
  · exact sseg11_ok L y h
  · exact sseg12_ok L y h

/-- every wiring edge of `generate_graph` is structurally fine and stays inside one forest -/
theorem swire_ok (L : Int) : ∀ y ∈ swireGen tri L,
    SOk L y ∧ ((isLeft y.1 = true ∧ isLeft y.2.1 = true) ∨ (isLeft y.1 = false ∧ isLeft y.2.1 = false)) :=
  swire_okF L

end Ptn.Ham

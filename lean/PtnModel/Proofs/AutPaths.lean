import PtnModel.Proofs.AutSem
/-!
# The path sum of an automaton is the coefficient in its explicit path list
-/
set_option linter.unusedSectionVars false

namespace Ptn.Og
open List

variable {κ : Type} [CommRing κ] [DecidableEq κ]

theorem symCoeff_eq_sum (s : Sym κ) (w : Word) :
    symCoeff s w = (s.map fun p => if p.1 = w then p.2 else 0).sum := by
  unfold symCoeff
  induction s with
  | nil => rfl
  | cons p s ih =>
    rw [foldr_cons, ih, map_cons, sum_cons]
    by_cases h : p.1 = w <;> simp [h]

theorem symCoeff_flatMap {α : Type} (l : List α) (f : α → Sym κ) (w : Word) :
    symCoeff (l.flatMap f) w = (l.map fun a => symCoeff (f a) w).sum := by
  rw [symCoeff_eq_sum, sum_map_flatMap]
  apply sum_map_congr
  intro a _
  rw [symCoeff_eq_sum]

theorem symCoeff_nil (w : Word) : symCoeff ([] : Sym κ) w = 0 := rfl

theorem symCoeff_map_cons (s : Sym κ) (o' : Int) (c : κ) (o : Int) (w : Word) :
    symCoeff (s.map fun q => (o' :: q.1, c * q.2)) (o :: w) = if o' = o then c * symCoeff s w else 0 := by
  rw [symCoeff_eq_sum, symCoeff_eq_sum, map_map]
  by_cases h : o' = o
  · subst h
    simp only [if_true]
    rw [← sum_map_const_mul]
    apply sum_map_congr
    intro q _
    by_cases hq : q.1 = w <;> simp [hq]
  · simp only [h, if_false]
    apply sum_map_eq_zero
    intro q _
    simp [h]

/-- the recursive path sum of the automaton is the coefficient of `w` in the list of all its paths -/
theorem autDenFrom_eq_paths (a : AutOp κ) :
    ∀ (w : Word) (i : Nat) (nid : Int), a.denFrom w i nid = symCoeff (a.pathsFrom w.length i nid) w := by
  intro w
  induction w with
  | nil =>
    intro i nid
    simp only [AutOp.denFrom, length_nil, AutOp.pathsFrom]
    by_cases h : nid = a.term true <;> simp [h, symCoeff]
  | cons o w ih =>
    intro i nid
    simp only [AutOp.denFrom, length_cons, AutOp.pathsFrom]
    cases dGet? a.nodes nid with
    | none => rfl
    | some node =>
      simp only
      rw [sumList_eq_sum, symCoeff_flatMap]
      apply sum_map_congr
      intro eid _
      cases dGet? a.edges eid with
      | none => rfl
      | some e =>
        simp only
        by_cases hact : e.active i = true
        · simp only [hact, if_true]
          rw [sumList_eq_sum, symCoeff_flatMap]
          apply sum_map_congr
          intro p _
          rw [symCoeff_map_cons, ih]
        · simp [hact, symCoeff_nil]

end Ptn.Og

import PtnModel.Proofs.OgFlip
/-!
# `is_consistent`: structural clauses vs. `SValid`, the level clause, invariance under `flip`

`isConsistent g = structOk g && levelsOk g`.  `structOk` (the clauses on nodes, edges and terminals) is equivalent
to `SValid` once dictionary keys and edge-id lists are duplicate free (which the constructors guarantee and
`is_consistent` cannot see).  `Valid g` = `SValid g` and the level clause: exactly the graphs that are reachable
through the constructors and pass `is_consistent`.
-/
set_option linter.unusedSectionVars false

namespace Ptn.Og
open List

variable {κ : Type} [CommRing κ] [DecidableEq κ]

/-- clause 1 of `is_consistent`: nodes -/
def Graph.nodesOk (g : Graph κ) : Bool :=
  g.nodes.all (fun (k, node) =>
    k == node.nid &&
    [false, true].all (fun d => (node.eids d).all (fun eid =>
      match dGet? g.edges eid with
      | none => false
      | some e => e.nid (!d) == node.nid)))

/-- clause 2 of `is_consistent`: edges -/
def Graph.edgesOk (g : Graph κ) : Bool :=
  g.edges.all (fun (k, e) =>
    k == e.eid &&
    [false, true].all (fun d =>
      match dGet? g.nodes (e.nid d) with
      | none => false
      | some node => (node.eids (!d)).contains e.eid) &&
    e.opics == sortOpics e.opics)

/-- clause 3 of `is_consistent`: terminals -/
def Graph.termOk (g : Graph κ) : Bool :=
  [false, true].all (fun d =>
    match dGet? g.nodes (g.term d) with
    | none => false
    | some node => (node.eids d).isEmpty)

/-- clause 4 of `is_consistent`: the level BFS from both terminals -/
def Graph.levelsOk (g : Graph κ) : Bool :=
  [false, true].all (fun d => g.levelBfs d g.bfsFuel [(g.term d, 0)] [])

def Graph.structOk (g : Graph κ) : Bool := g.nodesOk && g.edgesOk && g.termOk

theorem isConsistent_eq (g : Graph κ) : g.isConsistent = (g.structOk && g.levelsOk) := rfl

/-- duplicate-freeness that Python guarantees by construction (dict keys; `OpGraphNode` asserts it for its lists) -/
structure NoDup (g : Graph κ) : Prop where
  nodesKeys : (dKeys g.nodes).Nodup
  edgesKeys : (dKeys g.edges).Nodup
  eidsNodup : ∀ k n, (k, n) ∈ g.nodes → ∀ d, (n.eids d).Nodup

theorem SValid.structOk {g : Graph κ} (h : SValid g) : g.structOk = true := by
  unfold Graph.structOk
  rw [Bool.and_eq_true, Bool.and_eq_true]
  refine ⟨⟨?_, ?_⟩, ?_⟩
  · unfold Graph.nodesOk
    rw [all_eq_true]
    rintro ⟨k, n⟩ hn
    have hk := h.nodeKey k n hn
    simp only [Bool.and_eq_true, beq_iff_eq, all_eq_true]
    refine ⟨hk.symm, ?_⟩
    intro d _ eid heid
    obtain ⟨e, he, hx⟩ := h.nodeEdge k n hn d eid heid
    rw [dGet?_eq_some_of_mem h.edgesKeys he]
    simp [hx, hk]
  · unfold Graph.edgesOk
    rw [all_eq_true]
    rintro ⟨k, e⟩ he
    have hk := h.edgeKey k e he
    simp only [Bool.and_eq_true, beq_iff_eq, all_eq_true]
    refine ⟨⟨hk.symm, ?_⟩, h.opicsSorted k e he⟩
    intro d _
    obtain ⟨n, hn, hx⟩ := h.edgeNode k e he d
    rw [dGet?_eq_some_of_mem h.nodesKeys hn]
    simp [hk, hx]
  · unfold Graph.termOk
    rw [all_eq_true]
    intro d _
    obtain ⟨n, hn, hx⟩ := h.termNode d
    rw [dGet?_eq_some_of_mem h.nodesKeys hn]
    simp [hx]

theorem SValid.of_structOk {g : Graph κ} (hs : g.structOk = true) (hd : NoDup g) : SValid g := by
  unfold Graph.structOk at hs
  rw [Bool.and_eq_true, Bool.and_eq_true] at hs
  obtain ⟨⟨hn, he⟩, ht⟩ := hs
  unfold Graph.nodesOk at hn
  unfold Graph.edgesOk at he
  unfold Graph.termOk at ht
  rw [all_eq_true] at hn he ht
  refine ⟨hd.nodesKeys, hd.edgesKeys, ?_, ?_, hd.eidsNodup, ?_, ?_, ?_, ?_⟩
  · intro k n hkn
    have := hn (k, n) hkn
    simp only [Bool.and_eq_true, beq_iff_eq] at this
    exact this.1.symm
  · intro k e hke
    have := he (k, e) hke
    simp only [Bool.and_eq_true, beq_iff_eq] at this
    exact this.1.1.symm
  · intro k n hkn d eid heid
    have := hn (k, n) hkn
    simp only [Bool.and_eq_true, beq_iff_eq, all_eq_true] at this
    have h2 := this.2 d (by cases d <;> simp) eid heid
    cases hl : dGet? g.edges eid with
    | none => rw [hl] at h2; simp at h2
    | some e =>
      rw [hl] at h2
      simp only [beq_iff_eq] at h2
      exact ⟨e, mem_of_dGet?_eq_some hl, by rw [h2, this.1]⟩
  · intro k e hke d
    have := he (k, e) hke
    simp only [Bool.and_eq_true, beq_iff_eq, all_eq_true] at this
    have h2 := this.1.2 d (by cases d <;> simp)
    cases hl : dGet? g.nodes (e.nid d) with
    | none => rw [hl] at h2; simp at h2
    | some n =>
      rw [hl] at h2
      simp only [contains_eq_mem, decide_eq_true_eq] at h2
      exact ⟨n, mem_of_dGet?_eq_some hl, by rw [this.1.1]; exact h2⟩
  · intro d
    have h2 := ht d (by cases d <;> simp)
    cases hl : dGet? g.nodes (g.term d) with
    | none => rw [hl] at h2; simp at h2
    | some n =>
      rw [hl] at h2
      simp only [List.isEmpty_iff] at h2
      exact ⟨n, mem_of_dGet?_eq_some hl, h2⟩
  · intro k e hke
    have := he (k, e) hke
    simp only [Bool.and_eq_true, beq_iff_eq] at this
    exact this.2

theorem SValid.noDup {g : Graph κ} (h : SValid g) : NoDup g := ⟨h.nodesKeys, h.edgesKeys, h.eidsNodup⟩

/-- Validity: reachable through the constructors (no duplicates) and `is_consistent` -/
def Valid (g : Graph κ) : Prop := SValid g ∧ g.levelsOk = true

theorem valid_iff (g : Graph κ) : Valid g ↔ NoDup g ∧ g.isConsistent = true := by
  rw [isConsistent_eq, Bool.and_eq_true]
  constructor
  · rintro ⟨hs, hl⟩; exact ⟨hs.noDup, hs.structOk, hl⟩
  · rintro ⟨hd, hs, hl⟩; exact ⟨SValid.of_structOk hs hd, hl⟩

theorem Valid.isConsistent {g : Graph κ} (h : Valid g) : g.isConsistent = true := ((valid_iff g).1 h).2

/-! ## `flip` and the level clause -/

theorem dGet?_map_snd {β γ : Type} (f : β → γ) (d : List (Int × β)) (k : Int) :
    dGet? (d.map fun p => (p.1, f p.2)) k = (dGet? d k).map f := by
  induction d with
  | nil => simp [dGet?]
  | cons p rest ih =>
    obtain ⟨k', v⟩ := p
    simp only [dGet?, map_cons, lookup_cons] at ih ⊢
    cases (k == k') <;> simp [ih]

theorem Graph.flip_getNode (g : Graph κ) (k : Int) : dGet? g.flip.nodes k = (dGet? g.nodes k).map Node.flip :=
  dGet?_map_snd Node.flip g.nodes k

theorem Graph.flip_getEdge (g : Graph κ) (k : Int) : dGet? g.flip.edges k = (dGet? g.edges k).map Edge.flip :=
  dGet?_map_snd Edge.flip g.edges k

theorem levelBfs_flip (g : Graph κ) (d : Bool) :
    ∀ (fuel : Nat) (q lv : List (Int × Nat)), g.flip.levelBfs d fuel q lv = g.levelBfs (!d) fuel q lv := by
  intro fuel
  induction fuel with
  | zero => intro q lv; simp [Graph.levelBfs]
  | succ fuel ih =>
    intro q lv
    cases q with
    | nil => simp [Graph.levelBfs]
    | cons p q =>
      obtain ⟨nid, level⟩ := p
      have hkids : ∀ (n : Node) (eid : Int),
          (match dGet? g.flip.edges eid with
            | some e => (e.nid (!d), level + 1) | none => (nid, level + 1))
          = (match dGet? g.edges eid with
            | some e => (e.nid (!!d), level + 1) | none => (nid, level + 1)) := by
        intro n eid
        rw [Graph.flip_getEdge]
        cases dGet? g.edges eid <;> simp
      unfold Graph.levelBfs
      rw [Graph.flip_getNode]
      cases hl : lv.lookup nid with
      | some l =>
        simp only
        cases hn : dGet? g.nodes nid with
        | none => simp
        | some n =>
          simp only [Option.map_some]
          split
          · rfl
          · rw [ih]
            congr 2
            rw [Node.flip_eids]
            apply map_congr_left
            intro eid _
            exact hkids n eid
      | none =>
        simp only
        cases hn : dGet? g.nodes nid with
        | none => simp
        | some n =>
          simp only [Option.map_some]
          rw [ih]
          congr 2
          rw [Node.flip_eids]
          apply map_congr_left
          intro eid _
          exact hkids n eid

theorem Graph.flip_bfsFuel (g : Graph κ) : g.flip.bfsFuel = g.bfsFuel := by
  simp [Graph.bfsFuel, Graph.flip]

theorem levelsOk_flip (g : Graph κ) : g.flip.levelsOk = g.levelsOk := by
  unfold Graph.levelsOk
  simp only [all_cons, all_nil, Bool.and_true, levelBfs_flip, Graph.flip_bfsFuel, Graph.flip_term,
    Bool.not_false, Bool.not_true]
  rw [Bool.and_comm]

/-- `flip` keeps validity (all clauses of `is_consistent`) -/
theorem Valid.flip {g : Graph κ} (h : Valid g) : Valid g.flip :=
  ⟨h.1.flip, by rw [levelsOk_flip]; exact h.2⟩

end Ptn.Og

namespace Ptn.Og
open List
variable {κ : Type} [CommRing κ] [DecidableEq κ]

/-- executable form of `NoDup` (for concrete examples) -/
def Graph.noDupB (g : Graph κ) : Bool :=
  decide (dKeys g.nodes).Nodup && decide (dKeys g.edges).Nodup &&
    g.nodes.all (fun p => decide p.2.eidsIn.Nodup && decide p.2.eidsOut.Nodup)

theorem NoDup.of_noDupB {g : Graph κ} (h : g.noDupB = true) : NoDup g := by
  unfold Graph.noDupB at h
  simp only [Bool.and_eq_true, decide_eq_true_eq, all_eq_true] at h
  refine ⟨h.1.1, h.1.2, ?_⟩
  intro k n hn d
  have := h.2 (k, n) hn
  cases d
  · simpa [Node.eids] using this.1
  · simpa [Node.eids] using this.2

end Ptn.Og

import PtnModel.Proofs.HistOrtho
/-!
# C02: the R-push keeps block sparsity

`push_sparse`: the contraction `R · Anext` of a block-sparse `R` (charges `(qi, q1)`) with a block-sparse MPS tensor
(charges `(qd, q1, q2)`) is block sparse w.r.t. `(qd, qi, q2)`.  This is what makes the *next* local QR of a sweep
pass its input assertion; for the invariant itself it is not needed (a successful run re-checks every input).
-/
set_option linter.unusedSectionVars false
namespace Ptn.HistWf
open Ptn.Hist Ptn.Ortho Ptn.BondOps Finset
variable {𝕜 : Type} [CommRing 𝕜] [DecidableEq 𝕜]

theorem push_sparse_raw {R : Mat 𝕜} {X : T3 𝕜} {qd qi q1 q2 : List Int} (hR : Sparse R qi q1) (hn : R.n = X.d1)
    (hX : SparseT3 X qd q1 q2) : SparseT3 (rawPush R X) qd qi q2 := by
  intro s p c hs hp hc hne
  have hs' : s < X.d0 := hs
  have hp' : p < R.m := hp
  have hc' : c < X.d2 := hc
  have hne' : ∑ b ∈ range R.n, R.f p b * X.f s b c ≠ 0 := hne
  obtain ⟨b, hb, hb0⟩ := Finset.exists_ne_zero_of_sum_ne_zero hne'
  have hbn : b < R.n := Finset.mem_range.1 hb
  have h1 : R.f p b ≠ 0 := fun h0 => hb0 (by rw [h0, zero_mul])
  have h2 : X.f s b c ≠ 0 := fun h0 => hb0 (by rw [h0, mul_zero])
  have e1 := hR p b hp' hbn h1
  have e2 := hX s b c hs' (by rw [← hn]; exact hbn) hc' h2
  omega

/-- the tensor `np.tensordot(R, Anext, (1, 1)).transpose((1, 0, 2))` of the model is well-formed w.r.t. the new
left bond charges -/
theorem push_sparse {R : Mat 𝕜} {X : T3 𝕜} {qd qi q1 q2 : List Int} (hR : Sparse R qi q1) (hm : R.m = qi.length)
    (hn : R.n = X.d1) (hX : T3Wf X qd q1 q2) : T3Wf (pushR R X) qd qi q2 :=
  T3Wf.congr (pushR_eqv R X) ⟨hX.d0, hm, hX.d2, push_sparse_raw hR hn hX.sp⟩

end Ptn.HistWf

import PtnModel.Proofs.EvoDmrg
/-!
# The zero-site effective operator is the projected one-site effective operator

For a site tensor `Q` and the updated block `BLn = contraction_operator_step_left(Q, Q, W, BL)`:
`K_eff(X) = Qᴴ · H_eff(Q · X)` (`bond_proj_left`), hence `⟨Q X', H_eff (Q X)⟩ = ⟨X', K_eff X⟩` (`inner_proj_left`), and
`‖Q X‖ = ‖X‖` for a left isometry `Q` (`frob_mulRight`).  Mirrored statements for
`BRn = contraction_operator_step_right(Q, Q, W, BR)` and `X · Q`.  Consequently the zero-site operator between the blocks
of a mixed-canonical state is well-dimensioned and Hermitian (`bondHermitian_left`, `bondHermitian_right`) — also for
rectangular bond matrices, which C04's `bond_projection` does not cover.
-/
set_option linter.unusedSectionVars false

namespace Ptn.Evo
open Ptn Ptn.BondOps Ptn.Ortho Ptn.Env Ptn.Krylov Finset

variable {𝕜 : Type} [RCLike 𝕜] [DecidableEq 𝕜]
local notation "conj" => starRingEnd 𝕜

/-- `Q · X` : site tensor times bond matrix (right bond) -/
def mulRight (Q : T3 𝕜) (X : Mat 𝕜) : T3 𝕜 := ⟨Q.d0, Q.d1, X.n, fun s a b => ∑ p ∈ range Q.d2, Q.f s a p * X.f p b⟩

/-- `X · Q` : bond matrix times site tensor (left bond) -/
def mulLeft (X : Mat 𝕜) (Q : T3 𝕜) : T3 𝕜 := ⟨Q.d0, X.m, Q.d2, fun s a b => ∑ p ∈ range Q.d1, X.f a p * Q.f s p b⟩

omit [DecidableEq 𝕜] in
theorem alg_proj_left (Sp Sw' Ss Sa Ss' Sw Sa' Sb : Finset Nat) (Q : Nat → Nat → Nat → 𝕜) (W : Nat → Nat → Nat → Nat → 𝕜)
    (BL : Nat → Nat → Nat → 𝕜) (Q' : Nat → Nat → 𝕜) (X : Nat → Nat → 𝕜) (BR : Nat → Nat → 𝕜) :
    ∑ p ∈ Sp, ∑ w' ∈ Sw', (∑ s ∈ Ss, ∑ a ∈ Sa, Q s a p * ∑ s' ∈ Ss', ∑ w ∈ Sw, W s' s w w' *
        ∑ a' ∈ Sa', BL a w a' * star (Q' s' a')) * ∑ b ∈ Sb, X p b * BR b w' =
    ∑ s' ∈ Ss', ∑ a' ∈ Sa', star (Q' s' a') * ∑ a ∈ Sa, ∑ w ∈ Sw,
      (∑ s ∈ Ss, ∑ w' ∈ Sw', W s' s w w' * ∑ b ∈ Sb, (∑ p ∈ Sp, Q s a p * X p b) * BR b w') * BL a w a' := by
  simp only [Finset.sum_mul, Finset.mul_sum]
  sum_pull Ss'
  sum_pull Sa'
  sum_pull Sa
  sum_pull Sw
  sum_pull Ss
  sum_pull Sw'
  sum_pull Sb
  sum_pull Sp
  ring

omit [DecidableEq 𝕜] in
theorem alg_proj_right (Sa Sw Sp Ss' Sb' Ss Sw' Sb : Finset Nat) (Q : Nat → Nat → Nat → 𝕜)
    (W : Nat → Nat → Nat → Nat → 𝕜) (BL : Nat → Nat → 𝕜) (Q' : Nat → Nat → 𝕜) (X : Nat → Nat → 𝕜)
    (BR : Nat → Nat → Nat → 𝕜) :
    ∑ a ∈ Sa, ∑ w ∈ Sw, BL a w * ∑ p ∈ Sp, X a p * ∑ s' ∈ Ss', ∑ b' ∈ Sb',
        (∑ s ∈ Ss, ∑ w' ∈ Sw', W s' s w w' * ∑ b ∈ Sb, Q s p b * BR b w' b') * star (Q' s' b') =
    ∑ s' ∈ Ss', ∑ b' ∈ Sb', star (Q' s' b') * ∑ a ∈ Sa, ∑ w ∈ Sw,
      (∑ s ∈ Ss, ∑ w' ∈ Sw', W s' s w w' * ∑ b ∈ Sb, (∑ p ∈ Sp, X a p * Q s p b) * BR b w' b') * BL a w := by
  simp only [Finset.sum_mul, Finset.mul_sum]
  sum_pull Ss'
  sum_pull Sb'
  sum_pull Sa
  sum_pull Sw
  sum_pull Ss
  sum_pull Sw'
  sum_pull Sb
  sum_pull Sp
  ring

omit [DecidableEq 𝕜] in
/-- **Left projection.**  With `BLn = opStepLeft Q Q W BL`: the bond map is well-dimensioned and
`K_eff(X)[p',b'] = Σ_{s',a'} conj(Q[s',a',p']) H_eff(Q·X)[s',a',b']`. -/
theorem bond_proj_left {BL BR : T3 𝕜} {W : T4 𝕜} {Q BLn : T3 𝕜} {n : Nat} (hF : LocalFits BL BR W Q.d0 Q.d1 n)
    (hBLn : Op.opStepLeft Q Q W BL = .ok BLn) :
    BondFits BLn BR Q.d2 n ∧
    ∀ (X KX : Mat 𝕜) (T : T3 𝕜), X.m = Q.d2 → X.n = n → Op.applyLocalBondContraction BLn BR X = .ok KX →
      Op.applyLocalHamiltonian BL BR W (mulRight Q X) = .ok T →
      ∀ p' b', p' < Q.d2 → b' < n →
        KX.f p' b' = ∑ s' ∈ range Q.d0, ∑ a' ∈ range Q.d1, star (Q.f s' a' p') * T.f s' a' b' := by
  obtain ⟨B', hB', l0, l1, l2, lf⟩ := Env.opStepLeft_ok Q Q W BL hF.l2 hF.w0 hF.w2 hF.w1.symm hF.l0.symm
  have e : B' = BLn := Except.ok.inj (hB'.symm.trans hBLn)
  subst e
  have hFB : BondFits B' BR Q.d2 n := ⟨hF.r0, hF.r2, l0, l2, l1.trans hF.w3⟩
  refine ⟨hFB, ?_⟩
  intro X KX T hXm hXn hKX hT p' b' hp' hb'
  obtain ⟨K', hK', k0, k1, kf⟩ := Env.applyLocalBondContraction_ok B' BR X (by rw [hXn, hF.r0]) (by rw [l0, hXm])
    (l1.trans hF.w3)
  have e : K' = KX := Except.ok.inj (hK'.symm.trans hKX)
  subst e
  obtain ⟨T', hT', t0, t1, t2, tf⟩ := Env.applyLocalHamiltonian_ok BL BR W (mulRight Q X)
    (by show X.n = _; rw [hXn, hF.r0]) hF.w1 hF.w3 (by show Q.d1 = _; rw [hF.l0]) hF.w2
  have e : T' = T := Except.ok.inj (hT'.symm.trans hT)
  subst e
  rw [kf p' b' (by rw [l2]; exact hp') (by rw [hF.r2]; exact hb')]
  have e1 : ∀ s' ∈ range Q.d0, ∀ a' ∈ range Q.d1, star (Q.f s' a' p') * T'.f s' a' b' =
      star (Q.f s' a' p') * ∑ a ∈ range Q.d1, ∑ w ∈ range W.d2,
        (∑ s ∈ range Q.d0, ∑ w' ∈ range W.d3, W.f s' s w w' *
          ∑ b ∈ range n, (∑ p ∈ range Q.d2, Q.f s a p * X.f p b) * BR.f b w' b') * BL.f a w a' := by
    intro s' hs' a' ha'
    rw [tf s' a' b' (by rw [hF.w0]; exact mem_range.1 hs') (by rw [hF.l2]; exact mem_range.1 ha')
      (by rw [hF.r2]; exact hb')]
    show _ * ∑ a ∈ range Q.d1, ∑ w ∈ range W.d2, (∑ s ∈ range W.d1, ∑ w' ∈ range W.d3, W.f s' s w w' *
      ∑ b ∈ range X.n, _) * BL.f a w a' = _
    rw [hF.w1, hXn]
    rfl
  rw [Finset.sum_congr rfl fun s' hs' => Finset.sum_congr rfl fun a' ha' => e1 s' hs' a' ha']
  have e2 : ∀ p ∈ range B'.d0, ∀ w' ∈ range B'.d1, B'.f p w' p' * ∑ b ∈ range X.n, X.f p b * BR.f b w' b' =
      (∑ s ∈ range Q.d0, ∑ a ∈ range Q.d1, Q.f s a p * ∑ s' ∈ range Q.d0, ∑ w ∈ range W.d2, W.f s' s w w' *
        ∑ a' ∈ range Q.d1, BL.f a w a' * star (Q.f s' a' p')) * ∑ b ∈ range n, X.f p b * BR.f b w' b' := by
    intro p hp w' hw'
    rw [lf p w' p' (by rw [← l0]; exact mem_range.1 hp) (by rw [← l1]; exact mem_range.1 hw') hp', hF.w0, hXn]
  rw [Finset.sum_congr rfl fun p hp => Finset.sum_congr rfl fun w' hw' => e2 p hp w' hw', l0, l1]
  exact alg_proj_left (range Q.d2) (range W.d3) (range Q.d0) (range Q.d1) (range Q.d0) (range W.d2) (range Q.d1)
    (range n) Q.f W.f BL.f (fun s' a' => Q.f s' a' p') X.f (fun b w' => BR.f b w' b')

omit [DecidableEq 𝕜] in
/-- **Right projection.**  With `BRn = opStepRight Q Q W BR`: the bond map between `BL` and `BRn` is well-dimensioned and
`K_eff(X)[a',p'] = Σ_{s',b'} conj(Q[s',p',b']) H_eff(X·Q)[s',a',b']`. -/
theorem bond_proj_right {BL BR : T3 𝕜} {W : T4 𝕜} {Q BRn : T3 𝕜} {m : Nat} (hF : LocalFits BL BR W Q.d0 m Q.d2)
    (hBRn : Op.opStepRight Q Q W BR = .ok BRn) :
    BondFits BL BRn m Q.d1 ∧
    ∀ (X KX : Mat 𝕜) (T : T3 𝕜), X.m = m → X.n = Q.d1 → Op.applyLocalBondContraction BL BRn X = .ok KX →
      Op.applyLocalHamiltonian BL BR W (mulLeft X Q) = .ok T →
      ∀ a' p', a' < m → p' < Q.d1 →
        KX.f a' p' = ∑ s' ∈ range Q.d0, ∑ b' ∈ range Q.d2, star (Q.f s' p' b') * T.f s' a' b' := by
  obtain ⟨B', hB', r0, r1, r2, rf⟩ := Env.opStepRight_ok Q Q W BR hF.r0.symm hF.w1 hF.w3 hF.w0 hF.r2
  have e : B' = BRn := Except.ok.inj (hB'.symm.trans hBRn)
  subst e
  have hFB : BondFits BL B' m Q.d1 := ⟨r0, r2, hF.l0, hF.l2, hF.w2.symm.trans r1.symm⟩
  refine ⟨hFB, ?_⟩
  intro X KX T hXm hXn hKX hT a' p' ha' hp'
  obtain ⟨K', hK', k0, k1, kf⟩ := Env.applyLocalBondContraction_ok BL B' X (by rw [hXn, r0]) (by rw [hF.l0, hXm])
    (hF.w2.symm.trans r1.symm)
  have e : K' = KX := Except.ok.inj (hK'.symm.trans hKX)
  subst e
  obtain ⟨T', hT', t0, t1, t2, tf⟩ := Env.applyLocalHamiltonian_ok BL BR W (mulLeft X Q)
    (by show Q.d2 = _; rw [hF.r0]) hF.w1 hF.w3 (by show X.m = _; rw [hXm, hF.l0]) hF.w2
  have e : T' = T := Except.ok.inj (hT'.symm.trans hT)
  subst e
  rw [kf a' p' (by rw [hF.l2]; exact ha') (by rw [r2]; exact hp')]
  have e1 : ∀ s' ∈ range Q.d0, ∀ b' ∈ range Q.d2, star (Q.f s' p' b') * T'.f s' a' b' =
      star (Q.f s' p' b') * ∑ a ∈ range m, ∑ w ∈ range W.d2,
        (∑ s ∈ range Q.d0, ∑ w' ∈ range W.d3, W.f s' s w w' *
          ∑ b ∈ range Q.d2, (∑ p ∈ range Q.d1, X.f a p * Q.f s p b) * BR.f b w' b') * BL.f a w a' := by
    intro s' hs' b' hb'
    rw [tf s' a' b' (by rw [hF.w0]; exact mem_range.1 hs') (by rw [hF.l2]; exact ha')
      (by rw [hF.r2]; exact mem_range.1 hb')]
    show _ * ∑ a ∈ range X.m, ∑ w ∈ range W.d2, (∑ s ∈ range W.d1, ∑ w' ∈ range W.d3, W.f s' s w w' *
      ∑ b ∈ range Q.d2, _) * BL.f a w a' = _
    rw [hF.w1, hXm]
    rfl
  rw [Finset.sum_congr rfl fun s' hs' => Finset.sum_congr rfl fun b' hb' => e1 s' hs' b' hb']
  have e2 : ∀ a ∈ range BL.d0, ∀ w ∈ range BL.d1, BL.f a w a' * ∑ p ∈ range X.n, X.f a p * B'.f p w p' =
      BL.f a w a' * ∑ p ∈ range Q.d1, X.f a p * ∑ s' ∈ range Q.d0, ∑ b' ∈ range Q.d2,
        (∑ s ∈ range Q.d0, ∑ w' ∈ range W.d3, W.f s' s w w' * ∑ b ∈ range Q.d2, Q.f s p b * BR.f b w' b') *
          star (Q.f s' p' b') := by
    intro a ha w hw
    rw [hXn]
    congr 1
    refine Finset.sum_congr rfl fun p hp => ?_
    rw [rf p w p' (mem_range.1 hp) (by rw [hF.w2]; exact mem_range.1 hw) hp', hF.w0, hF.w1]
  rw [Finset.sum_congr rfl fun a ha => Finset.sum_congr rfl fun w hw => e2 a ha w hw, hF.l0, ← hF.w2]
  exact alg_proj_right (range m) (range W.d2) (range Q.d1) (range Q.d0) (range Q.d2) (range Q.d0) (range W.d3)
    (range Q.d2) Q.f W.f (fun a w => BL.f a w a') (fun s' b' => Q.f s' p' b') X.f BR.f

/-! ## norms and quadratic forms under `Q · X` and `X · Q` -/

omit [DecidableEq 𝕜] in
theorem alg_gram_right (Ss Sa Sb Sp Sp' : Finset Nat) (Q : Nat → Nat → Nat → 𝕜) (X Y : Nat → Nat → 𝕜) :
    ∑ s ∈ Ss, ∑ a ∈ Sa, ∑ b ∈ Sb, star (∑ p ∈ Sp, Q s a p * X p b) * ∑ p' ∈ Sp', Q s a p' * Y p' b =
    ∑ p ∈ Sp, ∑ p' ∈ Sp', (∑ b ∈ Sb, star (X p b) * Y p' b) * ∑ s ∈ Ss, ∑ a ∈ Sa, star (Q s a p) * Q s a p' := by
  simp only [star_sum, star_mul', Finset.sum_mul, Finset.mul_sum]
  sum_pull Sp
  sum_pull Sp'
  sum_pull Sb
  sum_pull Ss
  sum_pull Sa
  ring

omit [DecidableEq 𝕜] in
theorem alg_gram_left (Ss Sa Sb Sp Sp' : Finset Nat) (Q : Nat → Nat → Nat → 𝕜) (X Y : Nat → Nat → 𝕜) :
    ∑ s ∈ Ss, ∑ a ∈ Sa, ∑ b ∈ Sb, star (∑ p ∈ Sp, X a p * Q s p b) * ∑ p' ∈ Sp', Y a p' * Q s p' b =
    ∑ p ∈ Sp, ∑ p' ∈ Sp', (∑ a ∈ Sa, star (X a p) * Y a p') * ∑ s ∈ Ss, ∑ b ∈ Sb, star (Q s p b) * Q s p' b := by
  simp only [star_sum, star_mul', Finset.sum_mul, Finset.mul_sum]
  sum_pull Sp
  sum_pull Sp'
  sum_pull Sa
  sum_pull Ss
  sum_pull Sb
  ring

omit [DecidableEq 𝕜] in
/-- `⟨Q X, Q Y⟩ = ⟨X, Y⟩` for a left isometry `Q` -/
theorem inner_mulRight {Q : T3 𝕜} (hQ : LeftIso Q) {X Y : Mat 𝕜} (hY : Y.m = Q.d2) :
    inner3 (mulRight Q X) (mulRight Q Y) = inner2 X Y := by
  unfold inner3 inner2
  simp only [starRingEnd_apply]
  show ∑ s ∈ range Q.d0, ∑ a ∈ range Q.d1, ∑ b ∈ range Y.n,
    star (∑ p ∈ range Q.d2, Q.f s a p * X.f p b) * ∑ p' ∈ range Q.d2, Q.f s a p' * Y.f p' b = _
  rw [alg_gram_right]
  rw [hY]
  refine Finset.sum_congr rfl fun p hp => ?_
  have e : ∀ p' ∈ range Q.d2, (∑ b ∈ range Y.n, star (X.f p b) * Y.f p' b) *
      ∑ s ∈ range Q.d0, ∑ a ∈ range Q.d1, star (Q.f s a p) * Q.f s a p' =
      if p = p' then ∑ b ∈ range Y.n, star (X.f p b) * Y.f p' b else 0 := by
    intro p' hp'
    rw [hQ p p' (mem_range.1 hp) (mem_range.1 hp')]
    by_cases h : p = p'
    · rw [if_pos h, if_pos h, mul_one]
    · rw [if_neg h, if_neg h, mul_zero]
  rw [Finset.sum_congr rfl e, Finset.sum_ite_eq (range Q.d2) p, if_pos hp]

omit [DecidableEq 𝕜] in
/-- `⟨X Q, Y Q⟩ = ⟨X, Y⟩` for a right isometry `Q` -/
theorem inner_mulLeft {Q : T3 𝕜} (hQ : RightIso Q) {X Y : Mat 𝕜} (hY : Y.n = Q.d1) :
    inner3 (mulLeft X Q) (mulLeft Y Q) = inner2 X Y := by
  unfold inner3 inner2
  simp only [starRingEnd_apply]
  show ∑ s ∈ range Q.d0, ∑ a ∈ range Y.m, ∑ b ∈ range Q.d2,
    star (∑ p ∈ range Q.d1, X.f a p * Q.f s p b) * ∑ p' ∈ range Q.d1, Y.f a p' * Q.f s p' b = _
  rw [alg_gram_left, hY]
  conv_rhs => rw [Finset.sum_comm]
  refine Finset.sum_congr rfl fun p hp => ?_
  have e : ∀ p' ∈ range Q.d1, (∑ a ∈ range Y.m, star (X.f a p) * Y.f a p') *
      ∑ s ∈ range Q.d0, ∑ b ∈ range Q.d2, star (Q.f s p b) * Q.f s p' b =
      if p = p' then ∑ a ∈ range Y.m, star (X.f a p) * Y.f a p' else 0 := by
    intro p' hp'
    rw [hQ p p' (mem_range.1 hp) (mem_range.1 hp')]
    by_cases h : p = p'
    · rw [if_pos h, if_pos h, mul_one]
    · rw [if_neg h, if_neg h, mul_zero]
  rw [Finset.sum_congr rfl e, Finset.sum_ite_eq (range Q.d1) p, if_pos hp]

omit [DecidableEq 𝕜] in
theorem frob_mulRight {Q : T3 𝕜} (hQ : LeftIso Q) {X : Mat 𝕜} (hX : X.m = Q.d2) : frob3 (mulRight Q X) = frob2 X := by
  have := inner_mulRight (X := X) hQ hX
  rw [inner3_self, inner2_self] at this
  exact_mod_cast this

omit [DecidableEq 𝕜] in
theorem frob_mulLeft {Q : T3 𝕜} (hQ : RightIso Q) {X : Mat 𝕜} (hX : X.n = Q.d1) : frob3 (mulLeft X Q) = frob2 X := by
  have := inner_mulLeft (X := X) hQ hX
  rw [inner3_self, inner2_self] at this
  exact_mod_cast this

omit [DecidableEq 𝕜] in
theorem alg_inner_proj_left (Ss Sa Sb Sp : Finset Nat) (Q T : Nat → Nat → Nat → 𝕜) (X : Nat → Nat → 𝕜) :
    ∑ s ∈ Ss, ∑ a ∈ Sa, ∑ b ∈ Sb, star (∑ p ∈ Sp, Q s a p * X p b) * T s a b =
    ∑ p ∈ Sp, ∑ b ∈ Sb, star (X p b) * ∑ s ∈ Ss, ∑ a ∈ Sa, star (Q s a p) * T s a b := by
  simp only [star_sum, star_mul', Finset.sum_mul, Finset.mul_sum]
  sum_pull Sp
  sum_pull Sb
  sum_pull Ss
  sum_pull Sa
  ring

omit [DecidableEq 𝕜] in
theorem alg_inner_proj_right (Ss Sa Sb Sp : Finset Nat) (Q T : Nat → Nat → Nat → 𝕜) (X : Nat → Nat → 𝕜) :
    ∑ s ∈ Ss, ∑ a ∈ Sa, ∑ b ∈ Sb, star (∑ p ∈ Sp, X a p * Q s p b) * T s a b =
    ∑ a ∈ Sa, ∑ p ∈ Sp, star (X a p) * ∑ s ∈ Ss, ∑ b ∈ Sb, star (Q s p b) * T s a b := by
  simp only [star_sum, star_mul', Finset.sum_mul, Finset.mul_sum]
  sum_pull Sa
  sum_pull Sp
  sum_pull Ss
  sum_pull Sb
  ring

omit [DecidableEq 𝕜] in
/-- `⟨Q X', H_eff(Q X)⟩ = ⟨X', K_eff X⟩` -/
theorem inner_proj_left {BL BR : T3 𝕜} {W : T4 𝕜} {Q BLn : T3 𝕜} {n : Nat} (hF : LocalFits BL BR W Q.d0 Q.d1 n)
    (hBLn : Op.opStepLeft Q Q W BL = .ok BLn) {X X' KX : Mat 𝕜} {T : T3 𝕜} (hXm : X.m = Q.d2) (hXn : X.n = n)
    (hKX : Op.applyLocalBondContraction BLn BR X = .ok KX)
    (hT : Op.applyLocalHamiltonian BL BR W (mulRight Q X) = .ok T) :
    inner3 (mulRight Q X') T = inner2 X' KX := by
  obtain ⟨hFB, hproj⟩ := bond_proj_left hF hBLn
  obtain ⟨T', hT', t0, t1, t2, _⟩ := applyLocal_ker hF (A := mulRight Q X) rfl rfl hXn
  have e : T' = T := Except.ok.inj (hT'.symm.trans hT)
  subst e
  obtain ⟨K', hK', k0, k1, _⟩ := applyBond_ker hFB (C := X) hXm hXn
  have e : K' = KX := Except.ok.inj (hK'.symm.trans hKX)
  subst e
  unfold inner3 inner2
  simp only [starRingEnd_apply]
  rw [t0, t1, t2, k0, k1]
  show ∑ s ∈ range Q.d0, ∑ a ∈ range Q.d1, ∑ b ∈ range n,
    star (∑ p ∈ range Q.d2, Q.f s a p * X'.f p b) * T'.f s a b = _
  rw [alg_inner_proj_left]
  refine Finset.sum_congr rfl fun p hp => Finset.sum_congr rfl fun b hb => ?_
  rw [hproj X K' T' hXm hXn hKX hT p b (mem_range.1 hp) (mem_range.1 hb)]

omit [DecidableEq 𝕜] in
/-- `⟨X' Q, H_eff(X Q)⟩ = ⟨X', K_eff X⟩` -/
theorem inner_proj_right {BL BR : T3 𝕜} {W : T4 𝕜} {Q BRn : T3 𝕜} {m : Nat} (hF : LocalFits BL BR W Q.d0 m Q.d2)
    (hBRn : Op.opStepRight Q Q W BR = .ok BRn) {X X' KX : Mat 𝕜} {T : T3 𝕜} (hXm : X.m = m) (hXn : X.n = Q.d1)
    (hKX : Op.applyLocalBondContraction BL BRn X = .ok KX)
    (hT : Op.applyLocalHamiltonian BL BR W (mulLeft X Q) = .ok T) :
    inner3 (mulLeft X' Q) T = inner2 X' KX := by
  obtain ⟨hFB, hproj⟩ := bond_proj_right hF hBRn
  obtain ⟨T', hT', t0, t1, t2, _⟩ := applyLocal_ker hF (A := mulLeft X Q) rfl hXm rfl
  have e : T' = T := Except.ok.inj (hT'.symm.trans hT)
  subst e
  obtain ⟨K', hK', k0, k1, _⟩ := applyBond_ker hFB (C := X) hXm hXn
  have e : K' = KX := Except.ok.inj (hK'.symm.trans hKX)
  subst e
  unfold inner3 inner2
  simp only [starRingEnd_apply]
  rw [t0, t1, t2, k0, k1]
  show ∑ s ∈ range Q.d0, ∑ a ∈ range m, ∑ b ∈ range Q.d2,
    star (∑ p ∈ range Q.d1, X'.f a p * Q.f s p b) * T'.f s a b = _
  rw [alg_inner_proj_right]
  refine Finset.sum_congr rfl fun a ha => Finset.sum_congr rfl fun p hp => ?_
  rw [hproj X K' T' hXm hXn hKX hT a p (mem_range.1 ha) (mem_range.1 hp)]

omit [DecidableEq 𝕜] in
/-- the zero-site operator right of a new left isometry is Hermitian (also for rectangular bond matrices) -/
theorem bondHermitian_left {BL BR : T3 𝕜} {W : T4 𝕜} {Q BLn : T3 𝕜} {n : Nat} (hF : LocalFits BL BR W Q.d0 Q.d1 n)
    (hH : LocalHermitian BL BR W Q.d0 Q.d1 n) (hBLn : Op.opStepLeft Q Q W BL = .ok BLn) :
    BondFits BLn BR Q.d2 n ∧ BondHermitian BLn BR Q.d2 n := by
  refine ⟨(bond_proj_left hF hBLn).1, ?_⟩
  intro C C' T T' c0 c1 c0' c1' hT hT'
  obtain ⟨TC, hTC, _⟩ := applyLocal_ker hF (A := mulRight Q C) rfl rfl c1
  obtain ⟨TC', hTC', _⟩ := applyLocal_ker hF (A := mulRight Q C') rfl rfl c1'
  rw [← inner_proj_left hF hBLn c0 c1 hT hTC, ← inner_proj_left hF hBLn c0' c1' hT' hTC']
  exact hH (mulRight Q C) (mulRight Q C') TC TC' rfl rfl c1 rfl rfl c1' hTC hTC'

omit [DecidableEq 𝕜] in
/-- the zero-site operator left of a new right isometry is Hermitian -/
theorem bondHermitian_right {BL BR : T3 𝕜} {W : T4 𝕜} {Q BRn : T3 𝕜} {m : Nat} (hF : LocalFits BL BR W Q.d0 m Q.d2)
    (hH : LocalHermitian BL BR W Q.d0 m Q.d2) (hBRn : Op.opStepRight Q Q W BR = .ok BRn) :
    BondFits BL BRn m Q.d1 ∧ BondHermitian BL BRn m Q.d1 := by
  refine ⟨(bond_proj_right hF hBRn).1, ?_⟩
  intro C C' T T' c0 c1 c0' c1' hT hT'
  obtain ⟨TC, hTC, _⟩ := applyLocal_ker hF (A := mulLeft C Q) rfl c0 rfl
  obtain ⟨TC', hTC', _⟩ := applyLocal_ker hF (A := mulLeft C' Q) rfl c0' rfl
  rw [← inner_proj_right hF hBRn c0 c1 hT hTC, ← inner_proj_right hF hBRn c0' c1' hT' hTC']
  exact hH (mulLeft C Q) (mulLeft C' Q) TC TC' rfl c0 rfl rfl c0' rfl hTC hTC'

end Ptn.Evo

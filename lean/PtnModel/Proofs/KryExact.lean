import PtnModel.Proofs.KryRitz
/-!
# Exhausted Krylov space: Ritz pairs are eigenpairs

If the last Lanczos residual vanishes (`A V = V T` exactly), then
* `LFin.strong`     : `A v_b = ∑_a T[a, b] v_a` entrywise,
* `LFin.ritz_eigen` : every Ritz pair `(θ_e, V U[:, e])` is an eigenpair of `A`,
* `LFin.reachable`  : every eigenvalue of `A` with an eigenvector overlapping `v_0` is one of the Ritz values,
* `EighSpec.first_ne_zero` : eigenvectors of an unreduced tridiagonal matrix have a non-zero first component
  (so the lowest Ritz vector overlaps the start vector).
-/
set_option linter.unusedSectionVars false

namespace Ptn.Krylov
open Finset

variable {𝕜 : Type} [RCLike 𝕜]
local notation "conj" => starRingEnd 𝕜

/-- the `i`-th unit vector of length `n` -/
noncomputable def unitVec (n i : Nat) : List 𝕜 := (List.range n).map fun j => if j = i then 1 else 0

theorem vdot_unitVec {n i : Nat} (hi : i < n) (x : List 𝕜) : vdot n (unitVec n i) x = vget x i := by
  rw [vdot_eq_sum, sum_eq_single i]
  · unfold unitVec; rw [vget_map_range, if_pos hi, if_pos rfl, map_one, one_mul]
  · intro j hj hne
    unfold unitVec; rw [vget_map_range, if_pos (mem_range.1 hj), if_neg hne, map_zero, zero_mul]
  · intro h; exact absurd (mem_range.2 hi) h

theorem tridiag_symm (alpha beta : List ℝ) (a b : Nat) : tridiag alpha beta a b = tridiag alpha beta b a := by
  unfold tridiag
  by_cases h1 : a = b
  · subst h1; rfl
  · rw [if_neg h1, if_neg (Ne.symm h1)]
    by_cases h2 : a + 1 = b
    · rw [if_pos h2, if_neg (by omega), if_pos h2]
    · rw [if_neg h2]
      by_cases h3 : b + 1 = a
      · rw [if_pos h3, if_pos h3]
      · rw [if_neg h3, if_neg h3, if_neg h2]

/-- a column of the tridiagonal matrix against a vector: only three terms survive -/
theorem sum_tridiag (alpha beta : List ℝ) (x : Nat → 𝕜) {b k : Nat} (hb : b < k) :
    ∑ a ∈ range k, ((tridiag alpha beta a b : ℝ) : 𝕜) * x a =
      ((alpha.getD b 0 : ℝ) : 𝕜) * x b + (if b + 1 < k then ((beta.getD b 0 : ℝ) : 𝕜) * x (b + 1) else 0) +
        (if 0 < b then ((beta.getD (b - 1) 0 : ℝ) : 𝕜) * x (b - 1) else 0) := by
  have e : ∀ a ∈ range k, ((tridiag alpha beta a b : ℝ) : 𝕜) * x a =
      (if a = b then ((alpha.getD b 0 : ℝ) : 𝕜) * x b else 0) +
      (if a = b + 1 then ((beta.getD b 0 : ℝ) : 𝕜) * x (b + 1) else 0) +
      (if a + 1 = b then ((beta.getD (b - 1) 0 : ℝ) : 𝕜) * x (b - 1) else 0) := by
    intro a _
    unfold tridiag
    by_cases h1 : a = b
    · subst h1
      rw [if_pos rfl, if_pos rfl, if_neg (by omega), if_neg (by omega), add_zero, add_zero]
    · rw [if_neg h1, if_neg h1, zero_add]
      by_cases h2 : a + 1 = b
      · have : a = b - 1 := by omega
        rw [if_pos h2, if_neg (by omega), if_pos h2, zero_add, this]
      · rw [if_neg h2, if_neg h2, add_zero]
        by_cases h3 : b + 1 = a
        · rw [if_pos h3, if_pos h3.symm, h3]
        · rw [if_neg h3, if_neg (fun h => h3 h.symm), RCLike.ofReal_zero, zero_mul]
  rw [sum_congr rfl e, sum_add_distrib, sum_add_distrib, sum_ite_eq' (range k) b, if_pos (mem_range.2 hb),
    sum_ite_eq' (range k) (b + 1)]
  congr 1
  · congr 1
    by_cases h : b + 1 < k
    · rw [if_pos (mem_range.2 h), if_pos h]
    · rw [if_neg (fun hc => h (mem_range.1 hc)), if_neg h]
  · rcases Nat.eq_zero_or_pos b with rfl | hb0
    · rw [if_neg (lt_irrefl _)]
      exact sum_eq_zero fun a _ => if_neg (by omega)
    · rw [if_pos hb0]
      have : ∀ a ∈ range k, (if a + 1 = b then ((beta.getD (b - 1) 0 : ℝ) : 𝕜) * x (b - 1) else 0) =
          if a = b - 1 then ((beta.getD (b - 1) 0 : ℝ) : 𝕜) * x (b - 1) else 0 := by
        intro a _
        by_cases h : a + 1 = b
        · rw [if_pos h, if_pos (by omega)]
        · rw [if_neg h, if_neg (by omega)]
      rw [sum_congr rfl this, sum_ite_eq' (range k) (b - 1), if_pos (mem_range.2 (by omega))]

section exact
variable {n : Nat} {Afun : List 𝕜 → List 𝕜}

/-- with a vanishing last residual, `A v_b = ∑_a T[a, b] v_a` entrywise -/
theorem LFin.strong {st : LState 𝕜 ℝ} {k : Nat} (hf : LFin n Afun st k)
    (hz : ∀ i, i < n → vget (lzRes Afun n st (k - 1)) i = 0) {b : Nat} (hb : b < k) {i : Nat} (hi : i < n) :
    vget (Afun (st.vec b)) i = ∑ a ∈ range k, ((tridiag st.alpha st.beta a b : ℝ) : 𝕜) * vget (st.vec a) i := by
  rw [sum_tridiag st.alpha st.beta (fun a => vget (st.vec a) i) hb]
  by_cases hb1 : b + 1 < k
  · have := (hf.rcr b hb1).right (unitVec n i)
    simp only [vdot_unitVec hi] at this
    rw [this, if_pos hb1]
  · have hbk : b = k - 1 := by omega
    have := hz i hi
    rw [← hbk] at this
    unfold lzRes at this
    rw [vget_vsub hi] at this
    rw [if_neg hb1, add_zero]
    by_cases hb0 : 0 < b
    · rw [if_pos hb0, vget_vadd hi, vget_vscale hi, vget_vscale hi] at this
      rw [if_pos hb0]
      exact sub_eq_zero.1 this
    · rw [if_neg hb0, vget_vscale hi] at this
      rw [if_neg hb0, add_zero]
      exact sub_eq_zero.1 this

end exact

/-- `T U = U diag(w)` -/
theorem EighSpec.TU {alpha beta : List ℝ} {res : List ℝ × Mat ℝ} (h : EighSpec alpha beta res)
    {a e : Nat} (ha : a < alpha.length) (he : e < alpha.length) :
    ∑ b ∈ range alpha.length, tridiag alpha beta a b * res.2.f b e = res.2.f a e * res.1.getD e 0 := by
  have e1 : ∀ b ∈ range alpha.length, tridiag alpha beta a b * res.2.f b e =
      ∑ c ∈ range alpha.length, res.2.f a c * res.1.getD c 0 * (res.2.f b c * res.2.f b e) := by
    intro b hb
    rw [h.decomp a b ha (mem_range.1 hb), sum_mul]
    exact sum_congr rfl fun c _ => by ring
  rw [sum_congr rfl e1, sum_comm]
  have e2 : ∀ c ∈ range alpha.length,
      ∑ b ∈ range alpha.length, res.2.f a c * res.1.getD c 0 * (res.2.f b c * res.2.f b e) =
      if c = e then res.2.f a e * res.1.getD e 0 else 0 := by
    intro c hc
    rw [← mul_sum, h.orthc c e (mem_range.1 hc) he]
    by_cases hce : c = e
    · subst hce; rw [if_pos rfl, if_pos rfl, mul_one]
    · rw [if_neg hce, if_neg hce, mul_zero]
  rw [sum_congr rfl e2, sum_ite_eq' (range alpha.length) e, if_pos (mem_range.2 he)]

section exact2
variable {n : Nat} {Afun : List 𝕜 → List 𝕜}

/-- **Ritz pairs are eigenpairs** once the last residual vanishes -/
theorem LFin.ritz_eigen {M : Nat → Nat → 𝕜} (hM : ActsAs n Afun M)
    {st : LState 𝕜 ℝ} {k : Nat} (hf : LFin n Afun st k)
    (hz : ∀ i, i < n → vget (lzRes Afun n st (k - 1)) i = 0) {res : List ℝ × Mat ℝ}
    (hE : EighSpec st.alpha st.beta res) {e : Nat} (he : e < k) {i : Nat} (hi : i < n) :
    vget (Afun (ritzVec n st.V res.2 e)) i = ((res.1.getD e 0 : ℝ) : 𝕜) * vget (ritzVec n st.V res.2 e) i := by
  have hk : st.alpha.length = k := hf.sized.1
  have hv : st.V.length = k := hf.sized.2.2
  have hc := hM.comb (length_ritzVec n st.V res.2 e) (fun d hd => hf.len d (by rw [hv] at hd; exact hd))
    (ritzVec_comb n st.V res.2 e)
  rw [hc i hi, ritzVec_comb n st.V res.2 e i hi, hv]
  have e1 : ∀ b ∈ range k, ((res.2.f b e : ℝ) : 𝕜) * vget (Afun (st.V.getD b [])) i =
      ∑ a ∈ range k, ((tridiag st.alpha st.beta a b * res.2.f b e : ℝ) : 𝕜) * vget (st.V.getD a []) i := by
    intro b hb
    rw [hf.strong hz (mem_range.1 hb) hi, mul_sum]
    exact sum_congr rfl fun a _ => by push_cast; ring
  rw [sum_congr rfl e1, sum_comm, mul_sum]
  refine sum_congr rfl fun a ha => ?_
  rw [← sum_mul, ← RCLike.ofReal_sum]
  have := hE.TU (by rw [hk]; exact mem_range.1 ha) (by rw [hk]; exact he)
  rw [hk] at this
  rw [this]; push_cast; ring

/-- every eigenvalue of `A` with an eigenvector that overlaps the first Lanczos vector is a Ritz value -/
theorem LFin.reachable (hA : IsHermitian n Afun) {st : LState 𝕜 ℝ} {k : Nat} (hf : LFin n Afun st k)
    (hz : ∀ i, i < n → vget (lzRes Afun n st (k - 1)) i = 0) {res : List ℝ × Mat ℝ}
    (hE : EighSpec st.alpha st.beta res) {x : List 𝕜} {lam : 𝕜} (hx : x.length = n)
    (heig : ∀ i, i < n → vget (Afun x) i = lam * vget x i) (hov : vdot n (st.vec 0) x ≠ 0) :
    ∃ e, e < k ∧ lam = ((res.1.getD e 0 : ℝ) : 𝕜) := by
  have hk : st.alpha.length = k := hf.sized.1
  set c : Nat → 𝕜 := fun a => vdot n (st.vec a) x with hc
  set T : Nat → Nat → ℝ := tridiag st.alpha st.beta with hT
  set U := res.2.f with hU
  set w : Nat → ℝ := fun e => res.1.getD e 0 with hw
  -- T c = lam c
  have hTc : ∀ a, a < k → ∑ b ∈ range k, ((T a b : ℝ) : 𝕜) * c b = lam * c a := by
    intro a ha
    have hcomb : IsComb n k (fun b => ((T b a : ℝ) : 𝕜)) (fun b => st.vec b) (Afun (st.vec a)) :=
      fun i hi => hf.strong hz ha hi
    have h1 := vdot_comb hcomb (IsComb.self n x)
    have h2 : vdot n (Afun (st.vec a)) x = lam * c a := by
      rw [hA _ _ (hf.len a ha) hx, hc]
      show vdot n (st.vec a) (Afun x) = lam * vdot n (st.vec a) x
      rw [vdot_eq_sum, vdot_eq_sum, mul_sum]
      exact sum_congr rfl fun i hi => by rw [heig i (mem_range.1 hi)]; ring
    rw [← h2, h1]
    refine sum_congr rfl fun b _ => ?_
    rw [sum_range_one, RCLike.conj_ofReal, mul_one, hT, tridiag_symm]
  -- d = Uᵀ c
  set d : Nat → 𝕜 := fun e => ∑ a ∈ range k, ((U a e : ℝ) : 𝕜) * c a with hd
  have hwd : ∀ e, e < k → ((w e : ℝ) : 𝕜) * d e = lam * d e := by
    intro e he
    rw [hd]
    simp only [mul_sum]
    have e1 : ∀ a ∈ range k, ((w e : ℝ) : 𝕜) * (((U a e : ℝ) : 𝕜) * c a) =
        ∑ b ∈ range k, ((U b e : ℝ) : 𝕜) * (((T b a : ℝ) : 𝕜) * c a) := by
      intro a ha
      have := hE.TU (a := a) (e := e) (by rw [hk]; exact mem_range.1 ha) (by rw [hk]; exact he)
      rw [hk] at this
      have h' : ((U a e * w e : ℝ) : 𝕜) = ∑ b ∈ range k, ((T a b * U b e : ℝ) : 𝕜) := by
        rw [← RCLike.ofReal_sum]; exact congrArg _ this.symm
      calc ((w e : ℝ) : 𝕜) * (((U a e : ℝ) : 𝕜) * c a) = ((U a e * w e : ℝ) : 𝕜) * c a := by push_cast; ring
        _ = ∑ b ∈ range k, ((T a b * U b e : ℝ) : 𝕜) * c a := by rw [h', sum_mul]
        _ = _ := sum_congr rfl fun b _ => by rw [hT, tridiag_symm]; push_cast; ring
    rw [sum_congr rfl e1, sum_comm]
    refine sum_congr rfl fun b hb => ?_
    rw [← mul_sum, hTc b (mem_range.1 hb)]; ring
  -- c = U d, so d ≠ 0
  have hcd : ∀ a, a < k → c a = ∑ e ∈ range k, ((U a e : ℝ) : 𝕜) * d e := by
    intro a ha
    have e1 : ∀ e ∈ range k, ((U a e : ℝ) : 𝕜) * d e = ∑ b ∈ range k, ((U a e * U b e : ℝ) : 𝕜) * c b := by
      intro e _
      rw [hd, mul_sum]
      exact sum_congr rfl fun b _ => by push_cast; ring
    rw [sum_congr rfl e1, sum_comm]
    have e2 : ∀ b ∈ range k, ∑ e ∈ range k, ((U a e * U b e : ℝ) : 𝕜) * c b = if a = b then c a else 0 := by
      intro b hb
      rw [← sum_mul, ← RCLike.ofReal_sum]
      have := hE.orthr a b (by rw [hk]; exact ha) (by rw [hk]; exact mem_range.1 hb)
      rw [hk] at this
      rw [this]
      by_cases hab : a = b
      · subst hab; rw [if_pos rfl, if_pos rfl, RCLike.ofReal_one, one_mul]
      · rw [if_neg hab, if_neg hab, RCLike.ofReal_zero, zero_mul]
    rw [sum_congr rfl e2, sum_ite_eq (range k) a, if_pos (mem_range.2 ha)]
  by_contra hne
  have hall : ∀ e, e < k → d e = 0 := by
    intro e he
    by_contra hde
    have := hwd e he
    have h2 : ((w e : ℝ) : 𝕜) = lam := mul_right_cancel₀ hde this
    exact hne ⟨e, he, h2.symm⟩
  apply hov
  show c 0 = 0
  rw [hcd 0 hf.kpos]
  exact sum_eq_zero fun e he => by rw [hall e (mem_range.1 he), mul_zero]

end exact2

/-- eigenvectors of an unreduced symmetric tridiagonal matrix (all off-diagonals non-zero) have a non-zero first
component -/
theorem EighSpec.first_ne_zero {alpha beta : List ℝ} {res : List ℝ × Mat ℝ} (h : EighSpec alpha beta res)
    (hβ : ∀ i, i + 1 < alpha.length → beta.getD i 0 ≠ 0) {e : Nat} (he : e < alpha.length) :
    res.2.f 0 e ≠ 0 := by
  intro h0
  set k := alpha.length with hk
  set u : Nat → ℝ := fun a => res.2.f a e with hu
  -- row `a` of `T u = w u`
  have hrow : ∀ a, a < k → alpha.getD a 0 * u a + (if a + 1 < k then beta.getD a 0 * u (a + 1) else 0) +
      (if 0 < a then beta.getD (a - 1) 0 * u (a - 1) else 0) = u a * res.1.getD e 0 := by
    intro a ha
    have h1 := h.TU ha he
    have h2 := sum_tridiag (𝕜 := ℝ) alpha beta u ha
    simp only [RCLike.ofReal_real_eq_id, id] at h2
    rw [← h1, ← h2]
    exact sum_congr rfl fun b _ => by rw [tridiag_symm]
  -- all components vanish
  have hall : ∀ a, a < k → u a = 0 ∧ (a + 1 < k → u (a + 1) = 0) := by
    intro a
    induction a with
    | zero =>
      intro ha
      refine ⟨h0, fun h1 => ?_⟩
      have := hrow 0 ha
      rw [if_pos h1, if_neg (lt_irrefl _), show u 0 = 0 from h0] at this
      have hb := hβ 0 h1
      have : beta.getD 0 0 * u (0 + 1) = 0 := by linarith
      rcases mul_eq_zero.1 this with h' | h'
      · exact absurd h' hb
      · exact h'
    | succ a ih =>
      intro ha
      obtain ⟨ih1, ih2⟩ := ih (by omega)
      have hua : u (a + 1) = 0 := ih2 ha
      refine ⟨hua, fun h1 => ?_⟩
      have := hrow (a + 1) ha
      rw [if_pos h1, if_pos (Nat.succ_pos _), hua, Nat.add_sub_cancel, ih1] at this
      have hb := hβ (a + 1) h1
      have : beta.getD (a + 1) 0 * u (a + 1 + 1) = 0 := by linarith
      rcases mul_eq_zero.1 this with h' | h'
      · exact absurd h' hb
      · exact h'
  have := h.orthc e e he he
  rw [if_pos rfl] at this
  have hz : ∑ r ∈ range k, res.2.f r e * res.2.f r e = 0 :=
    sum_eq_zero fun r hr => by
      have := (hall r (mem_range.1 hr)).1
      show u r * u r = 0
      rw [this, mul_zero]
  rw [hz] at this
  exact zero_ne_one this

end Ptn.Krylov

import PtnModel.Proofs.KryBasic
/-!
# C02: a coordinate sector is closed under the Lanczos recurrence and the Krylov outputs

A *sector* is the set of vectors vanishing on a set `Z` of positions (`InSector Z x : ∀ i, Z i → x[i] = 0`).
If the start vector lies in the sector and the map `Afun` preserves it, then every Lanczos vector, the result of
`expm_krylov(…, hermitian=True)` and every Ritz vector returned by `eigh_krylov` lie in it — for EVERY norm, tridiagonal
eigen-solver and exponential oracle (the oracles only supply the scalars of linear combinations), over every field.
-/
set_option linter.unusedSectionVars false
namespace Ptn.HistWf
open Ptn.Krylov

section
variable {α ρ : Type} [Field α] [HasConj α] [RealLike ρ α] [OfNat ρ 0] [NatCast ρ] [Div ρ] [LT ρ] [DecidableLT ρ]

/-- the vector vanishes at every position of `Z` -/
def InSector (Z : Nat → Prop) (x : List α) : Prop := ∀ i, Z i → vget x i = 0

theorem inSector_nil (Z : Nat → Prop) : InSector Z ([] : List α) := fun _ _ => rfl

theorem inSector_map_range {Z : Nat → Prop} {n : Nat} {g : Nat → α} (h : ∀ i, Z i → i < n → g i = 0) :
    InSector Z ((List.range n).map g) := by
  intro i hi
  rw [vget_map_range]
  split
  · rename_i hlt; exact h i hi hlt
  · rfl

theorem inSector_vadd {Z : Nat → Prop} (n : Nat) {x y : List α} (hx : InSector Z x) (hy : InSector Z y) :
    InSector Z (vadd n x y) :=
  inSector_map_range fun i hi _ => by rw [hx i hi, hy i hi, add_zero]

theorem inSector_vsub {Z : Nat → Prop} (n : Nat) {x y : List α} (hx : InSector Z x) (hy : InSector Z y) :
    InSector Z (vsub n x y) :=
  inSector_map_range fun i hi _ => by rw [hx i hi, hy i hi, sub_zero]

theorem inSector_vscale {Z : Nat → Prop} (n : Nat) (c : α) {x : List α} (hx : InSector Z x) :
    InSector Z (vscale n c x) :=
  inSector_map_range fun i hi _ => by rw [hx i hi, mul_zero]

theorem inSector_vdiv {Z : Nat → Prop} (n : Nat) {x : List α} (c : α) (hx : InSector Z x) :
    InSector Z (vdiv n x c) :=
  inSector_map_range fun i hi _ => by rw [hx i hi, zero_div]

/-- every listed vector lies in the sector -/
def AllIn (Z : Nat → Prop) (V : List (List α)) : Prop := ∀ v ∈ V, InSector Z v

theorem AllIn.getD {Z : Nat → Prop} {V : List (List α)} (h : AllIn Z V) (j : Nat) : InSector Z (V.getD j []) := by
  rw [List.getD_eq_getElem?_getD]
  cases hj : V[j]? with
  | none => exact inSector_nil Z
  | some v => exact h v (List.mem_of_getElem? hj)

theorem AllIn.snoc {Z : Nat → Prop} {V : List (List α)} (h : AllIn Z V) {v : List α} (hv : InSector Z v) :
    AllIn Z (V ++ [v]) := by
  intro w hw
  rcases List.mem_append.1 hw with hw | hw
  · exact h w hw
  · rw [List.mem_singleton.1 hw]; exact hv

variable {Afun : List α → List α} {dnorm : List α → ρ} {Z : Nat → Prop}

theorem lzW_inSector (hA : ∀ x, InSector Z x → InSector Z (Afun x)) (n j : Nat) {st : LState α ρ}
    (h : AllIn Z st.V) : InSector Z (lzW Afun n j st) := by
  unfold lzW
  refine inSector_vsub n (hA _ (h.getD j)) ?_
  split
  · exact inSector_vadd n (inSector_vscale n _ (h.getD j)) (inSector_vscale n _ (h.getD (j - 1)))
  · exact inSector_vscale n _ (h.getD j)

theorem lanczosStep_allIn (hA : ∀ x, InSector Z x → InSector Z (Afun x)) (n j : Nat) {st : LState α ρ}
    (h : AllIn Z st.V) : AllIn Z (lanczosStep Afun dnorm n j st).1.V := by
  rw [lanczosStep_eq]
  split
  · exact h
  · exact h.snoc (inSector_vdiv n _ (lzW_inSector hA n j h))

theorem lanczosLoop_allIn (hA : ∀ x, InSector Z x → InSector Z (Afun x)) (n : Nat) :
    ∀ (k j : Nat) (st : LState α ρ), AllIn Z st.V → AllIn Z (lanczosLoop Afun dnorm n k j st).1.V
  | 0, _, _, h => h
  | k + 1, j, st, h => by
    rw [lanczosLoop_succ]
    split
    · exact lanczosStep_allIn hA n j h
    · exact lanczosLoop_allIn hA n k (j + 1) _ (lanczosStep_allIn hA n j h)

/-- all Lanczos vectors lie in the sector of the start vector -/
theorem lanczosCore_allIn (hA : ∀ x, InSector Z x → InSector Z (Afun x)) {v : List α} (hv : InSector Z v)
    {numiter : Nat} {st : LState α ρ} (h : lanczosCore Afun dnorm v numiter = .ok st) : AllIn Z st.V := by
  obtain ⟨_, _, rfl⟩ := lanczosCore_ok Afun dnorm h
  have h0 : AllIn Z ({ alpha := [], beta := [], V := [vdiv v.length v (RealLike.ofReal (dnorm v))] } : LState α ρ).V := by
    intro w hw
    rw [List.mem_singleton.1 hw]
    exact inSector_vdiv _ _ hv
  have hl := lanczosLoop_allIn (dnorm := dnorm) hA v.length (min numiter v.length - 1) 0 _ h0
  split
  · exact hl
  · exact hl

/-- the columns of the matrix `V` returned by `lanczos_iteration` vanish on `Z` -/
theorem lanczos_cols (hA : ∀ x, InSector Z x → InSector Z (Afun x)) {v : List α} (hv : InSector Z v)
    {numiter : Nat} {alpha beta : List ρ} {V : Mat α} (h : lanczos Afun dnorm v numiter = .ok (alpha, beta, V)) :
    ∀ i c, Z i → V.f i c = 0 := by
  obtain ⟨st, hc, _, _, rfl⟩ := lanczos_ok Afun dnorm h
  intro i c hi
  exact (lanczosCore_allIn hA hv hc).getD c i hi

theorem sumRange_zero {n : Nat} {g : Nat → α} (h : ∀ c, g c = 0) : sumRange n g = 0 := by
  unfold sumRange
  induction n with
  | zero => rfl
  | succ n ih => rw [List.range_succ, List.foldl_append, ih]; simp [h]

variable {deigh : List ρ → List ρ → List ρ × Mat ρ} {dexp : α → α} {dexpm : Mat α → Mat α}

/-- **Sector closure of `expm_krylov(…, hermitian=True)`** — every oracle, no contract. -/
theorem expmKrylov_inSector (hA : ∀ x, InSector Z x → InSector Z (Afun x)) {v : List α} (hv : InSector Z v)
    {dt : α} {numiter : Nat} {y : List α}
    (h : expmKrylov Afun dnorm deigh dexp dexpm v dt numiter true = .ok y) : InSector Z y := by
  unfold expmKrylov at h
  simp only [if_true] at h
  cases hl : lanczos Afun dnorm v numiter with
  | error e => rw [hl] at h; cases h
  | ok r =>
    obtain ⟨alpha, beta, V⟩ := r
    rw [hl] at h
    have hc := lanczos_cols hA hv hl
    simp only [bind, Except.bind] at h
    split at h
    · cases h
    · split at h
      · cases h
      · split at h
        · cases h
        · injection h with h
          subst h
          exact inSector_map_range fun i hi _ => sumRange_zero fun c => by rw [hc i c hi, zero_mul]

/-- **Sector closure of `eigh_krylov`**: every returned Ritz vector (column of `u`) vanishes on `Z`. -/
theorem eighKrylov_cols (hA : ∀ x, InSector Z x → InSector Z (Afun x)) {v : List α} (hv : InSector Z v)
    {numiter numeig : Nat} {w : List ρ} {u : Mat α}
    (h : eighKrylov Afun dnorm deigh v numiter numeig = .ok (w, u)) : ∀ i e, Z i → u.f i e = 0 := by
  unfold eighKrylov at h
  cases hl : lanczos Afun dnorm v numiter with
  | error e => rw [hl] at h; cases h
  | ok r =>
    obtain ⟨alpha, beta, V⟩ := r
    rw [hl] at h
    have hc := lanczos_cols hA hv hl
    simp only [bind, Except.bind] at h
    split at h
    · cases h
    · injection h with h
      injection h with _ h
      subst h
      intro i e hi
      exact sumRange_zero fun c => by rw [hc i c hi, zero_mul]

end
end Ptn.HistWf

import PtnModel.Proofs.KryExpMatrix
import PtnModel.Proofs.EvoTotLocal
/-!
# Runs that exhaust the Krylov space after one iteration (start vector = eigenvector), and concrete instances

* `exhausted_one_of_eigen`  : Lanczos, one iteration, start vector an eigenvector with real eigenvalue: `Exhausted`;
* `exhaustedA_one_of_eigen` : Arnoldi, one iteration, start vector an eigenvector (any eigenvalue): `ExhaustedA`;
* `expm_gen_isOk`           : the general branch of `expm_krylov` returns (positive norm, `numiter ≥ 1`, shape clause of
  the `expm` contract);
* `exHerm`, `exJordan`      : the complex Hermitian matrix `[[2, i], [-i, 2]]` with eigenvector `(1, -i)` (eigenvalue `3`), and
  the non-normal Jordan block `[[1, 1], [0, 1]]` with eigenvector `(1, 0)`.
-/
set_option linter.unusedSectionVars false
namespace Ptn.Krylov
open Ptn Finset

variable {𝕜 : Type} [RCLike 𝕜]
local notation "conj" => starRingEnd 𝕜

variable {Afun : List 𝕜 → List 𝕜} {dnorm : List 𝕜 → ℝ}

/-- a vector all of whose entries vanish has norm zero -/
theorem NormContract.eq_zero_of_entries {dnorm : List 𝕜 → ℝ} (hN : NormContract dnorm) {x : List 𝕜}
    (h : ∀ z ∈ x, z = 0) : dnorm x = 0 := by
  have hs := hN.sq x
  rw [(sqNorm_eq_zero_iff x).2 h] at hs
  exact pow_eq_zero_iff (two_ne_zero) |>.1 hs

/-- the normalised start vector is an eigenvector if the start vector is -/
theorem eigen_first {v : List 𝕜} {M : Nat → Nat → 𝕜} (hM : ActsAs v.length Afun M) {lam : 𝕜}
    (hv : ∀ i, i < v.length → vget (Afun v) i = lam * vget v i) (c : 𝕜) :
    ∀ i, i < v.length → vget (Afun (vdiv v.length v c)) i = lam * vget (vdiv v.length v c) i := by
  intro i hi
  have hl : (vdiv v.length v c).length = v.length := by simp [vdiv]
  rw [hM _ hl i hi, vget_vdiv hi]
  have e : ∀ j ∈ range v.length, M i j * vget (vdiv v.length v c) j = (M i j * vget v j) / c := by
    intro j hj
    rw [vget_vdiv (mem_range.1 hj)]; ring
  rw [sum_congr rfl e, ← Finset.sum_div, ← hM v rfl i hi, hv i hi]
  ring

/-- **Lanczos, one iteration, eigenvector start**: the Krylov space is exhausted -/
theorem exhausted_one_of_eigen (hN : NormContract dnorm) {v : List 𝕜} {M : Nat → Nat → 𝕜}
    (hM : ActsAs v.length Afun M) (hA : IsHermitian v.length Afun) {θ : ℝ}
    (hv : ∀ i, i < v.length → vget (Afun v) i = ((θ : ℝ) : 𝕜) * vget v i) : C15.Exhausted Afun dnorm v 1 := by
  intro alpha beta V hl
  obtain ⟨st, hc, rfl, rfl, rfl⟩ := lanczos_ok Afun dnorm hl
  obtain ⟨k, hk1, hf⟩ := lanczosCore_fin hN hA hc
  have hk : k = 1 := by have := hf.kpos; omega
  subst hk
  have hvn : (colsMat v.length st.V).n = 1 := hf.sized.2.2
  rw [hvn, lanczosResidual_eq hf]
  have hfirst := lanczosCore_first Afun dnorm hc
  have he0 : ∀ i, i < v.length → vget (Afun (st.vec 0)) i = ((θ : ℝ) : 𝕜) * vget (st.vec 0) i := by
    show ∀ i, i < v.length → vget (Afun (st.V.getD 0 [])) i = _ * vget (st.V.getD 0 []) i
    rw [hfirst]
    exact eigen_first hM hv _
  have horth : vdot v.length (st.vec 0) (st.vec 0) = 1 := by
    have := hf.orth 0 0 (by omega) (by omega)
    rwa [if_pos rfl] at this
  have hal : st.al 0 = θ := by
    have := hf.last
    rw [this]
    have e : vdot v.length (Afun (st.vec 0)) (st.vec 0) = ((θ : ℝ) : 𝕜) := by
      rw [vdot_eq_sum]
      have e1 : ∀ i ∈ range v.length, conj (vget (Afun (st.vec 0)) i) * vget (st.vec 0) i =
          ((θ : ℝ) : 𝕜) * (conj (vget (st.vec 0) i) * vget (st.vec 0) i) := by
        intro i hi
        rw [he0 i (mem_range.1 hi), map_mul, RCLike.conj_ofReal]; ring
      rw [sum_congr rfl e1, ← mul_sum, ← vdot_eq_sum, horth, mul_one]
    show RCLike.re (vdot v.length (Afun (st.vec (1 - 1))) (st.vec (1 - 1))) = θ
    rw [show 1 - 1 = 0 from rfl, e, RCLike.ofReal_re]
  apply hN.eq_zero_of_entries
  intro z hz
  unfold lzRes vsub at hz
  simp only [List.mem_map, List.mem_range] at hz
  obtain ⟨i, hi, rfl⟩ := hz
  rw [if_neg (by omega)]
  show vget (Afun (st.vec 0)) i - vget (vscale v.length (RealLike.ofReal (st.al 0)) (st.vec 0)) i = 0
  rw [vget_vscale hi, hal, he0 i hi, ofReal_eq, sub_self]

/-- **Arnoldi, one iteration, eigenvector start**: the Krylov space is exhausted -/
theorem exhaustedA_one_of_eigen (hN : NormContract dnorm) {v : List 𝕜} {M : Nat → Nat → 𝕜}
    (hM : ActsAs v.length Afun M) {lam : 𝕜}
    (hv : ∀ i, i < v.length → vget (Afun v) i = lam * vget v i) : ExhaustedA Afun dnorm v 1 := by
  intro H V hl
  obtain ⟨st, hc, rfl, rfl⟩ := arnoldi_ok Afun dnorm hl
  obtain ⟨k, hk1, hf⟩ := arnoldiCore_fin hN hc
  have hk : k = 1 := by have := hf.kpos; omega
  subst hk
  have hvl : st.V.length = 1 := hf.sized.2.2
  have hvn : (colsMat v.length st.V).n = 1 := hvl
  have hfirst := arnoldiCore_first Afun dnorm hc
  have hcol0 : matCol (colsMat v.length st.V) 0 = st.vec 0 := matCol_colsMat st.V 0 (hf.len 0 (by omega))
  have he0 : ∀ i, i < v.length → vget (Afun (st.vec 0)) i = lam * vget (st.vec 0) i := by
    show ∀ i, i < v.length → vget (Afun (st.V.getD 0 [])) i = _ * vget (st.V.getD 0 []) i
    rw [hfirst]
    exact eigen_first hM hv _
  have horth : vdot v.length (st.vec 0) (st.vec 0) = 1 := by
    have := hf.orth 0 0 (by omega) (by omega)
    rwa [if_pos rfl] at this
  rw [hvn]
  apply hN.eq_zero_of_entries
  intro z hz
  unfold C14.arnoldiResidual at hz
  rw [show (List.range (1 - 1 + 1)).map (matCol (colsMat v.length st.V)) = [] ++ [st.vec 0] by
    simp [List.range_succ, hcol0], mgs_snoc, mgs_nil, show (1 : Nat) - 1 = 0 from rfl, hcol0] at hz
  unfold vsub at hz
  simp only [List.mem_map, List.mem_range] at hz
  obtain ⟨i, hi, rfl⟩ := hz
  have hi' : i < v.length := hi
  have e : vdot v.length (st.vec 0) (Afun (st.vec 0)) = lam := by
    rw [vdot_eq_sum]
    have e1 : ∀ j ∈ range v.length, conj (vget (st.vec 0) j) * vget (Afun (st.vec 0)) j =
        lam * (conj (vget (st.vec 0) j) * vget (st.vec 0) j) := by
      intro j hj
      rw [he0 j (mem_range.1 hj)]; ring
    rw [sum_congr rfl e1, ← mul_sum, ← vdot_eq_sum, horth, mul_one]
  show vget (Afun (st.vec 0)) i -
    vget (vscale v.length (vdot v.length (st.vec 0) (Afun (st.vec 0))) (st.vec 0)) i = 0
  rw [vget_vscale hi', e, he0 i hi', sub_self]

/-- **the general branch returns**: positive norm (norm contract: then `v ≠ []` and the capped count of F11 is `≥ 1`),
`numiter ≥ 1`, shape clause of the `expm` contract -/
theorem expm_gen_isOk {deigh : List ℝ → List ℝ → List ℝ × Mat ℝ} {dexp : 𝕜 → 𝕜} {dexpm : Mat 𝕜 → Mat 𝕜} {v : List 𝕜}
    {numiter : Nat} (hN : NormContract dnorm) (hpos : 0 < dnorm v) (hm : 1 ≤ numiter) (hC : ExpmContract dexpm) (dt : 𝕜) :
    ∃ r, expmKrylov Afun dnorm deigh dexp dexpm v dt numiter false = .ok r := by
  obtain ⟨⟨H, V⟩, hl⟩ := arnoldi_isOk Afun dnorm (vstart := v) (numiter := numiter) hpos hm (hN.pos_dim hpos)
  obtain ⟨h1, _, hHn, _, hVn⟩ := C14.arnoldi_shapes Afun dnorm hl
  obtain ⟨e1, e2⟩ := hC.shape (Mat.scale dt H) (by show H.m = H.n; rw [hHn])
  have e1' : (dexpm ⟨H.m, H.n, fun r c => dt * H.f r c⟩).m = H.m := e1
  have e2' : (dexpm ⟨H.m, H.n, fun r c => dt * H.f r c⟩).n = H.n := e2
  unfold expmKrylov
  simp only [Bool.false_eq_true, if_false]
  rw [hl]
  simp only [bind, Except.bind]
  rw [if_neg (by rw [e2', hHn]; omega), if_neg (by rw [e1', hVn]; simp)]
  exact ⟨_, rfl⟩

/-! ## concrete instances over `ℂ` -/

/-- the Hermitian matrix `[[2, i], [-i, 2]]` -/
noncomputable def exHerm : Mat ℂ := ⟨2, 2, fun i k => if i = k then 2 else if i = 0 then Complex.I else -Complex.I⟩

/-- its eigenvector `(1, -i)` for the eigenvalue `3` -/
noncomputable def exHermV : List ℂ := [1, -Complex.I]

theorem exHerm_herm : ∀ i j, i < 2 → j < 2 → (starRingEnd ℂ) (exHerm.f i j) = exHerm.f j i := by
  intro i j hi hj
  interval_cases i <;> interval_cases j <;> simp [exHerm, Complex.conj_ofNat]

theorem exHerm_eigen : ∀ i, i < exHermV.length → vget (matvec exHerm exHermV) i = (((3 : ℝ) : ℝ) : ℂ) * vget exHermV i := by
  intro i hi
  have hi' : i < 2 := hi
  rw [vget_matvec exHerm exHermV (by exact hi')]
  interval_cases i
  · simp [exHerm, exHermV, vget, sum_range_succ]; norm_num
  · simp [exHerm, exHermV, vget, sum_range_succ]; ring

theorem exHermV_pos : 0 < sqrtNorm exHermV :=
  (sqrtNorm_contract.pos_iff _).2 ⟨1, by simp [exHermV], one_ne_zero⟩

/-- the non-normal Jordan block `[[1, 1], [0, 1]]` -/
noncomputable def exJordan : Mat ℂ := ⟨2, 2, fun i k => if i ≤ k then 1 else 0⟩

theorem exJordan_eigen : ∀ i, i < ([1, 0] : List ℂ).length → vget (matvec exJordan [1, 0]) i = (1 : ℂ) * vget ([1, 0] : List ℂ) i := by
  intro i hi
  have hi' : i < 2 := hi
  rw [vget_matvec exJordan _ (by exact hi')]
  interval_cases i <;> simp [exJordan, vget, sum_range_succ]

theorem exJordanV_pos : 0 < sqrtNorm ([1, 0] : List ℂ) :=
  (sqrtNorm_contract.pos_iff _).2 ⟨1, by simp, one_ne_zero⟩

end Ptn.Krylov

import PtnModel.Proofs.OgSimplify
/-!
# `simplify` returns on every valid graph

`merge_edges` succeeds whenever `_simplify_step` decides to call it; the layer walk of `_simplify_step` ends within its
fuel on graphs with unique distances; every successful step removes an edge, so the fuel of the two loops suffices.
-/
set_option linter.unusedSectionVars false
namespace Ptn.Og
open List Rw
variable {κ : Type} [CommRing κ] [DecidableEq κ]

theorem ok_bind {ε α β : Type} (a : α) (f : α → Except ε β) : ((Except.ok a : Except ε α) >>= f) = f a := rfl

theorem pyAssert_true : Ptn.pyAssert true = .ok () := rfl

/-- the parallel case of `merge_edges` succeeds -/
theorem mergeEdges_par_total {g : Graph κ} (h : SValid g) {eid1 eid2 : Int} {d : Bool} {edge1 edge2 : Edge κ}
    (h1 : dGet? g.edges eid1 = some edge1) (h2 : dGet? g.edges eid2 = some edge2)
    (hbase : edge1.nid d = edge2.nid d) (hpar : edge1.nid (!d) = edge2.nid (!d)) :
    ∃ g', g.mergeEdges eid1 eid2 d = .ok g' := by
  have hm2 := mem_of_dGet?_eq_some h2
  have heid2 : edge2.eid = eid2 := h.edgeKey _ _ hm2
  obtain ⟨nb, hnb, hkb⟩ := h.edgeNode eid2 edge2 hm2 d
  obtain ⟨nu, hnu, hku⟩ := h.edgeNode eid2 edge2 hm2 (!d)
  simp only [Bool.not_not] at hku
  have hlb := dGet?_eq_some_of_mem h.nodesKeys hnb
  have hlu := dGet?_eq_some_of_mem h.nodesKeys hnu
  unfold Graph.mergeEdges
  have e1 : g.getEdge eid1 = .ok edge1 := dGet_eq_ok_iff.2 h1
  have e2 : g.removeEdge eid2 = .ok (edge2, { g with edges := dErase g.edges eid2 }) := removeEdge_ok.2 ⟨h2, rfl⟩
  rw [e1, ok_bind, e2, ok_bind]
  simp only [hbase, beq_self_eq_true, pyAssert_true, ok_bind]
  have e3 := (Rw.modifyNode_ok (g := ({ g with edges := dErase g.edges eid2 } : Graph κ)) (k := edge2.nid d)
      (f := fun n => n.removeEdgeId edge2.eid (!d))).2
    ⟨nb, _, hlb, Node.removeEdgeId_ok.2 ⟨by rw [heid2]; exact hkb, rfl⟩, rfl⟩
  rw [e3, ok_bind]
  simp only [hpar, beq_self_eq_true, if_true]
  have e4 : edge1.add edge2 = .ok (addedEdge edge1 edge2) := by
    unfold Edge.add
    have : (edge1.nids == edge2.nids) = true := by
      have a : edge1.nids.1 = edge2.nids.1 ∧ edge1.nids.2 = edge2.nids.2 := by
        cases d <;> simp only [Edge.nid, Bool.not_false, Bool.not_true, if_true, Bool.false_eq_true, if_false] at hbase hpar
        · exact ⟨hbase, hpar⟩
        · exact ⟨hpar, hbase⟩
      simp [Prod.ext_iff, a]
    rw [this, pyAssert_true, ok_bind]
    rfl
  rw [e4, ok_bind]
  -- the upstream node (in the updated dictionary) still lists eid2
  have hlu' : ∃ nu', dGet? (dReplace g.nodes (edge2.nid d) (nb.setEids (!d) ((nb.eids (!d)).erase edge2.eid)))
      (edge2.nid (!d)) = some nu' ∧ edge2.eid ∈ nu'.eids d := by
    rw [Rw.dGet?_dReplace]
    by_cases hq : edge2.nid (!d) = edge2.nid d
    · rw [hq] at hlu
      rw [hlb] at hlu
      cases hlu
      simp only [hq, dGet?_some_mem_keys hlb, and_self, if_true]
      refine ⟨_, rfl, ?_⟩
      rw [Node.setEids_eids]
      cases d <;> simpa [heid2] using hku
    · simp only [hq, false_and, if_false]
      exact ⟨nu, hlu, by rw [heid2]; exact hku⟩
  obtain ⟨nu', hnu', hku'⟩ := hlu'
  exact ⟨_, Rw.modifyNode_ok.2 ⟨nu', _, hnu', Node.removeEdgeId_ok.2 ⟨hku', rfl⟩, rfl⟩⟩

theorem foldlM_modifyEdge_total {f : Edge κ → Edge κ} :
    ∀ (l : List Int) (g : Graph κ), (∀ k ∈ l, k ∈ dKeys g.edges) →
      ∃ g', l.foldlM (fun g eid => g.modifyEdge eid (fun e => pure (f e))) g = .ok g' ∧ g'.nodes = g.nodes ∧
        g'.nidTerminal = g.nidTerminal
  | [], g, _ => ⟨g, rfl, rfl, rfl⟩
  | a :: l, g, hk => by
    have ha : a ∈ dKeys g.edges := hk a (by simp)
    obtain ⟨e, he⟩ : ∃ e, dGet? g.edges a = some e := by
      cases hc : dGet? g.edges a with
      | none => exact absurd ha (dGet?_eq_none_iff.1 hc)
      | some e => exact ⟨e, rfl⟩
    have e1 := (Rw.modifyEdge_ok (g := g) (k := a) (f := fun e => pure (f e))).2 ⟨e, f e, he, rfl, rfl⟩
    obtain ⟨g', hg', hn', ht'⟩ := foldlM_modifyEdge_total l { g with edges := dReplace g.edges a (f e) } (by
      intro k hk'
      simp only [Rw.dKeys_dReplace]
      exact hk k (mem_cons_of_mem _ hk'))
    refine ⟨g', ?_, hn', ht'⟩
    rw [foldlM_cons, e1, ok_bind]
    exact hg'

/-- the node-merging case of `merge_edges` succeeds under the conditions tested by `_simplify_step` -/
theorem mergeEdges_nodes_total {g : Graph κ} (h : SValid g) {eid1 eid2 : Int} {d : Bool} {edge1 edge2 : Edge κ}
    (h1 : dGet? g.edges eid1 = some edge1) (h2 : dGet? g.edges eid2 = some edge2)
    (hbase : edge1.nid d = edge2.nid d) (hnp : edge1.nid (!d) ≠ edge2.nid (!d)) (hop : edge1.opics = edge2.opics)
    {N1 N2 : Node} (hN1 : dGet? g.nodes (edge1.nid (!d)) = some N1) (hN2 : dGet? g.nodes (edge2.nid (!d)) = some N2)
    (hl1 : (N1.eids d).length = 1) (hl2 : (N2.eids d).length = 1) (hq : N1.qnum = N2.qnum)
    (hnt : edge2.nid (!d) ≠ g.nidTerminal.1 ∧ edge2.nid (!d) ≠ g.nidTerminal.2)
    (hacq : (edge1.nid (!d) = g.nidTerminal.1 ∨ edge1.nid (!d) = g.nidTerminal.2) → N2.eids (!d) = []) :
    ∃ g', g.mergeEdges eid1 eid2 d = .ok g' := by
  have hm2 := mem_of_dGet?_eq_some h2
  have heid2 : edge2.eid = eid2 := h.edgeKey _ _ hm2
  obtain ⟨nb, hnb, hkb⟩ := h.edgeNode eid2 edge2 hm2 d
  have hlb := dGet?_eq_some_of_mem h.nodesKeys hnb
  have hkbk := dGet?_some_mem_keys hlb
  unfold Graph.mergeEdges
  have e1 : g.getEdge eid1 = .ok edge1 := dGet_eq_ok_iff.2 h1
  have e2 : g.removeEdge eid2 = .ok (edge2, { g with edges := dErase g.edges eid2 }) := removeEdge_ok.2 ⟨h2, rfl⟩
  rw [e1, ok_bind, e2, ok_bind]
  simp only [hbase, beq_self_eq_true, pyAssert_true, ok_bind]
  have e3 := (Rw.modifyNode_ok (g := ({ g with edges := dErase g.edges eid2 } : Graph κ)) (k := edge2.nid d)
      (f := fun n => n.removeEdgeId edge2.eid (!d))).2
    ⟨nb, _, hlb, Node.removeEdgeId_ok.2 ⟨by rw [heid2]; exact hkb, rfl⟩, rfl⟩
  rw [e3, ok_bind]
  have hnpb : ((edge1.nid (!d)) == edge2.nid (!d)) = false := by simpa using hnp
  simp only [hnpb, Bool.false_eq_true, if_false]
  have hopb : (edge1.opics == edge2.opics) = true := by simpa using hop
  rw [hopb, pyAssert_true, ok_bind]
  have hntb : (!(edge2.nid (!d) == g.nidTerminal.1 || edge2.nid (!d) == g.nidTerminal.2)) = true := by
    simp [hnt.1, hnt.2]
  rw [hntb, pyAssert_true, ok_bind]
  -- node1 and node2 in the updated dictionary
  set nb' := nb.setEids (!d) ((nb.eids (!d)).erase edge2.eid) with hnb'
  obtain ⟨node1, hnode1, hn1d, hn1q, hn1nid⟩ : ∃ node1, dGet? (dReplace g.nodes (edge2.nid d) nb') (edge1.nid (!d)) = some node1 ∧
      node1.eids d = N1.eids d ∧ node1.qnum = N1.qnum ∧ node1.nid = edge1.nid (!d) := by
    rw [Rw.dGet?_dReplace]
    by_cases hq' : edge1.nid (!d) = edge2.nid d
    · simp only [hq', hkbk, and_self, if_true]
      rw [hq', hlb] at hN1
      cases hN1
      refine ⟨nb', rfl, ?_, by simp [hnb'], ?_⟩
      · rw [hnb', Node.setEids_eids]; cases d <;> simp
      · rw [hnb', Node.setEids_nid]; exact h.nodeKey _ _ hnb
    · simp only [hq', false_and, if_false]
      exact ⟨N1, hN1, rfl, rfl, h.nodeKey _ _ (mem_of_dGet?_eq_some hN1)⟩
  obtain ⟨node2, hnode2, hn2d, hn2q, hn2u⟩ : ∃ node2, dGet? (dReplace g.nodes (edge2.nid d) nb') (edge2.nid (!d)) = some node2 ∧
      node2.eids d = N2.eids d ∧ node2.qnum = N2.qnum ∧ (∀ x ∈ node2.eids (!d), x ∈ N2.eids (!d) ∧ x ≠ eid2) := by
    rw [Rw.dGet?_dReplace]
    by_cases hq' : edge2.nid (!d) = edge2.nid d
    · simp only [hq', hkbk, and_self, if_true]
      rw [hq', hlb] at hN2
      cases hN2
      refine ⟨nb', rfl, ?_, by simp [hnb'], ?_⟩
      · rw [hnb', Node.setEids_eids]; cases d <;> simp
      · intro x hx
        rw [hnb', Node.setEids_eids_same, heid2] at hx
        exact ⟨mem_of_mem_erase hx, fun q => by subst q; exact (h.eidsNodup _ _ hnb (!d)).not_mem_erase hx⟩
    · simp only [hq', false_and, if_false]
      refine ⟨N2, hN2, rfl, rfl, ?_⟩
      intro x hx
      refine ⟨hx, fun q => ?_⟩
      subst q
      have := (h.mem_eids_iff hm2 (mem_of_dGet?_eq_some hN2) (!d)).1 hx
      simp only [Bool.not_not] at this
      exact hq' this.symm
  have e4 : (⟨dReplace g.nodes (edge2.nid d) nb', dErase g.edges eid2, g.nidTerminal⟩ : Graph κ).getNode
      (edge1.nid (!d)) = .ok node1 := dGet_eq_ok_iff.2 hnode1
  rw [e4, ok_bind]
  have e5 := (Rw.removeNode_ok (g := (⟨dReplace g.nodes (edge2.nid d) nb', dErase g.edges eid2, g.nidTerminal⟩ : Graph κ))
      (k := edge2.nid (!d))).2 ⟨hnode2, rfl⟩
  rw [e5, ok_bind]
  have a1 : ((node1.eids d).length == 1) = true := by rw [hn1d]; simpa using hl1
  have a2 : ((node2.eids d).length == 1) = true := by rw [hn2d]; simpa using hl2
  have a3 : (node1.qnum == node2.qnum) = true := by rw [hn1q, hn2q]; simpa using hq
  have a4 : (!((node1.nid == g.nidTerminal.1 || node1.nid == g.nidTerminal.2) && !(node2.eids (!d)).isEmpty)) = true := by
    rw [hn1nid]
    by_cases ht : edge1.nid (!d) = g.nidTerminal.1 ∨ edge1.nid (!d) = g.nidTerminal.2
    · have hemp := hacq ht
      have : node2.eids (!d) = [] := by
        cases hc : node2.eids (!d) with
        | nil => rfl
        | cons x xs =>
          have := (hn2u x (by rw [hc]; simp)).1
          rw [hemp] at this; simp at this
      simp [this]
    · rw [not_or] at ht
      simp [ht.1, ht.2]
  simp only [a1, a2, a3, a4, pyAssert_true, ok_bind]
  -- the edge fold
  obtain ⟨g5, hg5, hn5, _⟩ := foldlM_modifyEdge_total (f := fun e => e.setNid d node1.nid) (node2.eids (!d))
    (⟨dErase (dReplace g.nodes (edge2.nid d) nb') (edge2.nid (!d)), dErase g.edges eid2, g.nidTerminal⟩ : Graph κ) (by
      intro k hk
      obtain ⟨hk1, hk2⟩ := hn2u k hk
      obtain ⟨e, he, _⟩ := h.nodeEdge _ _ (mem_of_dGet?_eq_some hN2) (!d) k hk1
      simp only [dKeys_dErase]
      exact (mem_erase_of_ne hk2).2 (mem_map.2 ⟨_, he, rfl⟩))
  rw [hg5, ok_bind]
  have hkeys3 : (dKeys (dReplace g.nodes (edge2.nid d) nb')).Nodup := by rw [Rw.dKeys_dReplace]; exact h.nodesKeys
  have hlast : dGet? g5.nodes (edge1.nid (!d)) = some node1 := by
    rw [hn5, dGet?_dErase _ hkeys3]
    simp only [hnp, if_false]
    exact hnode1
  exact ⟨_, Rw.modifyNode_ok.2 ⟨node1, _, hlast, rfl, rfl⟩⟩

/-- both edges are listed in the `eids (!d)` list of the node `nid` -/
structure Listed (g : Graph κ) (d : Bool) (nid a b : Int) : Prop where
  node : ∃ n, dGet? g.nodes nid = some n ∧ a ∈ n.eids (!d) ∧ b ∈ n.eids (!d)

theorem Listed.edges {g : Graph κ} (h : SValid g) {d : Bool} {nid a b : Int} (L : Listed g d nid a b) :
    ∃ ea eb, dGet? g.edges a = some ea ∧ dGet? g.edges b = some eb ∧ ea.nid d = nid ∧ eb.nid d = nid := by
  obtain ⟨n, hn, ha, hb⟩ := L.node
  have hmn := mem_of_dGet?_eq_some hn
  obtain ⟨ea, hea, hka⟩ := h.nodeEdge nid n hmn (!d) a ha
  obtain ⟨eb, heb, hkb⟩ := h.nodeEdge nid n hmn (!d) b hb
  simp only [Bool.not_not] at hka hkb
  exact ⟨ea, eb, dGet?_eq_some_of_mem h.edgesKeys hea, dGet?_eq_some_of_mem h.edgesKeys heb, hka, hkb⟩

/-- the test of `_simplify_step` never raises on listed edges, and a positive answer is a pair `merge_edges` accepts -/
theorem canMerge_total {g : Graph κ} (h : SValid g) {d : Bool} {nid a b : Int} (L : Listed g d nid a b) :
    ∃ r, g.canMerge d a b = .ok r ∧ ∀ p, r = some p → ∃ g', g.mergeEdges p.1 p.2 d = .ok g' := by
  obtain ⟨ea, eb, hea, heb, hka, hkb⟩ := L.edges h
  have hma := mem_of_dGet?_eq_some hea
  have hmb := mem_of_dGet?_eq_some heb
  obtain ⟨na, hna, _⟩ := h.edgeNode a ea hma (!d)
  obtain ⟨nb, hnb, _⟩ := h.edgeNode b eb hmb (!d)
  have hla := dGet?_eq_some_of_mem h.nodesKeys hna
  have hlb := dGet?_eq_some_of_mem h.nodesKeys hnb
  have hbase : ea.nid d = eb.nid d := hka.trans hkb.symm
  unfold Graph.canMerge
  have e1 : g.getEdge a = .ok ea := dGet_eq_ok_iff.2 hea
  have e2 : g.getEdge b = .ok eb := dGet_eq_ok_iff.2 heb
  rw [e1, ok_bind, e2, ok_bind]
  by_cases hpar : ea.nid (!d) = eb.nid (!d)
  · have : ((ea.nid (!d)) == eb.nid (!d)) = true := by simpa using hpar
    simp only [this, if_true]
    refine ⟨_, rfl, ?_⟩
    intro p hp
    cases hp
    exact mergeEdges_par_total h hea heb hbase hpar
  · have hparb : ((ea.nid (!d)) == eb.nid (!d)) = false := by simpa using hpar
    simp only [hparb, Bool.false_eq_true, if_false]
    by_cases hop : ea.opics = eb.opics
    · have : (ea.opics != eb.opics) = false := by simpa using hop
      simp only [this, Bool.false_eq_true, if_false]
      have e3 : g.getNode (ea.nid (!d)) = .ok na := dGet_eq_ok_iff.2 hla
      have e4 : g.getNode (eb.nid (!d)) = .ok nb := dGet_eq_ok_iff.2 hlb
      rw [e3, ok_bind, e4, ok_bind]
      by_cases hl1 : (na.eids d).length = 1
      · have : ((na.eids d).length != 1) = false := by simpa using hl1
        simp only [this, Bool.false_eq_true, if_false]
        by_cases hl2 : (nb.eids d).length = 1
        · have : ((nb.eids d).length != 1) = false := by simpa using hl2
          simp only [this, Bool.false_eq_true, if_false]
          by_cases hq : na.qnum = nb.qnum
          · have : (na.qnum != nb.qnum) = false := by simpa using hq
            simp only [this, Bool.false_eq_true, if_false]
            -- keys and terminal facts
            have hkna : na.nid = ea.nid (!d) := h.nodeKey _ _ hna
            have hknb : nb.nid = eb.nid (!d) := h.nodeKey _ _ hnb
            have hnota : ea.nid (!d) ≠ g.term d := h.ne_term_of_edge hma d
            have hnotb : eb.nid (!d) ≠ g.term d := h.ne_term_of_edge hmb d
            have term_cases : ∀ x, (x = g.nidTerminal.1 ∨ x = g.nidTerminal.2) → x ≠ g.term d → x = g.term (!d) := by
              intro x hx hxd
              cases d <;> simp only [Graph.term, Bool.not_false, Bool.not_true, if_true, Bool.false_eq_true, if_false] at hxd ⊢
              · rcases hx with q | q
                · exact absurd q hxd
                · exact q
              · rcases hx with q | q
                · exact q
                · exact absurd q hxd
            by_cases htb : nb.nid = g.nidTerminal.1 ∨ nb.nid = g.nidTerminal.2
            · -- roles swapped: the terminal node (upstream of b) survives
              have hcond : (nb.nid == g.nidTerminal.1 || nb.nid == g.nidTerminal.2) = true := by
                rcases htb with q | q <;> simp [q]
              simp only [hcond, if_true]
              by_cases hemp : na.eids (!d) = []
              · simp only [hemp, isEmpty_nil, Bool.not_true, Bool.and_false, Bool.false_eq_true, if_false]
                refine ⟨_, rfl, ?_⟩
                intro p hp
                cases hp
                refine mergeEdges_nodes_total h heb hea hbase.symm (fun q => hpar q.symm) hop.symm hlb hla hl2 hl1 hq.symm ?_ ?_
                · -- the absorbed node (upstream of a) is not a terminal
                  have hb' : eb.nid (!d) = g.term (!d) := term_cases _ (by rw [← hknb]; exact htb) hnotb
                  constructor <;> intro q
                  · exact hpar (by rw [term_cases _ (Or.inl q) hnota, hb'])
                  · exact hpar (by rw [term_cases _ (Or.inr q) hnota, hb'])
                · intro _; exact hemp
              · have : (na.eids (!d)).isEmpty = false := by
                  cases hc : na.eids (!d) with
                  | nil => exact absurd hc hemp
                  | cons x xs => rfl
                simp only [this, Bool.not_false, Bool.and_true, hcond, if_true]
                exact ⟨_, rfl, fun p hp => by cases hp⟩
            · have hcond : (nb.nid == g.nidTerminal.1 || nb.nid == g.nidTerminal.2) = false := by
                rw [not_or] at htb
                simp [htb.1, htb.2]
              simp only [hcond, Bool.false_eq_true, if_false]
              rw [not_or, hknb] at htb
              by_cases hta : na.nid = g.nidTerminal.1 ∨ na.nid = g.nidTerminal.2
              · have hca : (na.nid == g.nidTerminal.1 || na.nid == g.nidTerminal.2) = true := by
                  rcases hta with q | q <;> simp [q]
                by_cases hemp : nb.eids (!d) = []
                · simp only [hca, hemp, isEmpty_nil, Bool.not_true, Bool.and_false, Bool.false_eq_true, if_false]
                  refine ⟨_, rfl, ?_⟩
                  intro p hp
                  cases hp
                  exact mergeEdges_nodes_total h hea heb hbase hpar hop hla hlb hl1 hl2 hq ⟨htb.1, htb.2⟩ (fun _ => hemp)
                · have : (nb.eids (!d)).isEmpty = false := by
                    cases hc : nb.eids (!d) with
                    | nil => exact absurd hc hemp
                    | cons x xs => rfl
                  simp only [hca, this, Bool.not_false, Bool.and_true, if_true]
                  exact ⟨_, rfl, fun p hp => by cases hp⟩
              · have hca : (na.nid == g.nidTerminal.1 || na.nid == g.nidTerminal.2) = false := by
                  rw [not_or] at hta
                  simp [hta.1, hta.2]
                simp only [hca, Bool.false_and, Bool.false_eq_true, if_false]
                refine ⟨_, rfl, ?_⟩
                intro p hp
                cases hp
                rw [hkna] at hta
                exact mergeEdges_nodes_total h hea heb hbase hpar hop hla hlb hl1 hl2 hq ⟨htb.1, htb.2⟩
                  (fun q => absurd q hta)
          · have : (na.qnum != nb.qnum) = true := by simpa using hq
            simp only [this, if_true]
            exact ⟨_, rfl, fun p hp => by cases hp⟩
        · have : ((nb.eids d).length != 1) = true := by simpa using hl2
          simp only [this, if_true]
          exact ⟨_, rfl, fun p hp => by cases hp⟩
      · have : ((na.eids d).length != 1) = true := by simpa using hl1
        simp only [this, if_true]
        exact ⟨_, rfl, fun p hp => by cases hp⟩
    · have : (ea.opics != eb.opics) = true := by simpa using hop
      simp only [this, if_true]
      exact ⟨_, rfl, fun p hp => by cases hp⟩


/-- the result of a search / step is either nothing or a pair `merge_edges` accepts -/
def Acceptable (g : Graph κ) (d : Bool) (r : Option (Int × Int)) : Prop :=
  ∀ p, r = some p → ∃ g', g.mergeEdges p.1 p.2 d = .ok g'

theorem findPair_total {g : Graph κ} (h : SValid g) {d : Bool} {nid : Int} :
    ∀ (l : List (Int × Int)), (∀ q ∈ l, Listed g d nid q.1 q.2) →
      ∃ r, g.findPair d l = .ok r ∧ Acceptable g d r
  | [], _ => ⟨none, rfl, fun p hp => by cases hp⟩
  | (a, b) :: rest, hl => by
    obtain ⟨r, hr, hacc⟩ := canMerge_total h (hl (a, b) (by simp))
    rw [Graph.findPair, hr, ok_bind]
    cases r with
    | some p => exact ⟨some p, rfl, hacc⟩
    | none => exact findPair_total h rest (fun q hq => hl q (mem_cons_of_mem _ hq))

theorem mem_pairs2 {l : List Int} : ∀ {a b : Int}, (a, b) ∈ pairs2 l → a ∈ l ∧ b ∈ l := by
  induction l with
  | nil => intro a b h; simp [pairs2] at h
  | cons x xs ih =>
    intro a b h
    simp only [pairs2, mem_append, mem_map] at h
    rcases h with ⟨y, hy, heq⟩ | h
    · simp only [Prod.mk.injEq] at heq
      obtain ⟨rfl, rfl⟩ := heq
      exact ⟨by simp, by simp [hy]⟩
    · obtain ⟨h2, h3⟩ := ih h
      exact ⟨mem_cons_of_mem _ h2, mem_cons_of_mem _ h3⟩

theorem findPairLayer_total {g : Graph κ} (h : SValid g) {d : Bool} :
    ∀ (nids : List Int), (∀ x ∈ nids, x ∈ dKeys g.nodes) →
      ∃ r, g.findPairLayer d nids = .ok r ∧ Acceptable g d r
  | [], _ => ⟨none, rfl, fun p hp => by cases hp⟩
  | nid :: rest, hk => by
    obtain ⟨n, hn⟩ : ∃ n, dGet? g.nodes nid = some n := by
      cases hc : dGet? g.nodes nid with
      | none => exact absurd (hk nid (by simp)) (dGet?_eq_none_iff.1 hc)
      | some n => exact ⟨n, rfl⟩
    have e1 : g.getNode nid = .ok n := dGet_eq_ok_iff.2 hn
    obtain ⟨r, hr, hacc⟩ := findPair_total h (nid := nid) (pairs2 (n.eids (!d))) (by
      intro q hq
      obtain ⟨ha, hb⟩ := mem_pairs2 (a := q.1) (b := q.2) hq
      exact ⟨n, hn, ha, hb⟩)
    rw [Graph.findPairLayer, e1, ok_bind, hr, ok_bind]
    cases r with
    | some p => exact ⟨some p, rfl, hacc⟩
    | none => exact findPairLayer_total h rest (fun x hx => hk x (mem_cons_of_mem _ hx))

/-- the inner loop of "collect node IDs at next bond site" -/
theorem nextLayer_inner {g : Graph κ} (h : SValid g) {d : Bool} {nid : Int} {n : Node} (hn : dGet? g.nodes nid = some n) :
    ∀ (l : List Int), (∀ eid ∈ l, eid ∈ n.eids (!d)) → ∀ (acc : List Int),
      ∃ acc', l.foldlM (fun acc eid => do
          let edge ← g.getEdge eid
          Ptn.pyAssert (edge.nid d == nid)
          pure (if acc.contains (edge.nid (!d)) then acc else acc ++ [edge.nid (!d)])) acc = .ok acc' ∧
        ∀ y ∈ acc', y ∈ acc ∨ Kid g d nid y
  | [], _, acc => ⟨acc, rfl, fun y hy => Or.inl hy⟩
  | eid :: l, hl, acc => by
    have hin := hl eid (by simp)
    obtain ⟨e, he, hk⟩ := h.nodeEdge nid n (mem_of_dGet?_eq_some hn) (!d) eid hin
    simp only [Bool.not_not] at hk
    have hle := dGet?_eq_some_of_mem h.edgesKeys he
    have e1 : g.getEdge eid = .ok e := dGet_eq_ok_iff.2 hle
    have hb : (e.nid d == nid) = true := by simpa using hk
    obtain ⟨acc', hacc', hsub⟩ := nextLayer_inner h hn l (fun x hx => hl x (mem_cons_of_mem _ hx))
      (if acc.contains (e.nid (!d)) then acc else acc ++ [e.nid (!d)])
    refine ⟨acc', ?_, ?_⟩
    · rw [foldlM_cons, e1, ok_bind, hb, pyAssert_true, ok_bind]
      exact hacc'
    · intro y hy
      rcases hsub y hy with q | q
      · split at q
        · exact Or.inl q
        · rcases mem_append.1 q with q | q
          · exact Or.inl q
          · right
            simp only [mem_singleton] at q
            subst q
            exact ⟨n, eid, e, hn, hin, hle, rfl⟩
      · exact Or.inr q

theorem nextLayer_total {g : Graph κ} (h : SValid g) {d : Bool} :
    ∀ (nids : List Int), (∀ x ∈ nids, x ∈ dKeys g.nodes) → ∀ (acc : List Int),
      ∃ acc', nids.foldlM (fun acc nid => do
          let node ← g.getNode nid
          (node.eids (!d)).foldlM (fun acc eid => do
            let edge ← g.getEdge eid
            Ptn.pyAssert (edge.nid d == nid)
            pure (if acc.contains (edge.nid (!d)) then acc else acc ++ [edge.nid (!d)])) acc) acc = .ok acc' ∧
        ∀ y ∈ acc', y ∈ acc ∨ ∃ x ∈ nids, Kid g d x y
  | [], _, acc => ⟨acc, rfl, fun y hy => Or.inl hy⟩
  | nid :: rest, hk, acc => by
    obtain ⟨n, hn⟩ : ∃ n, dGet? g.nodes nid = some n := by
      cases hc : dGet? g.nodes nid with
      | none => exact absurd (hk nid (by simp)) (dGet?_eq_none_iff.1 hc)
      | some n => exact ⟨n, rfl⟩
    have e1 : g.getNode nid = .ok n := dGet_eq_ok_iff.2 hn
    obtain ⟨acc1, h1, hs1⟩ := nextLayer_inner h hn (n.eids (!d)) (fun _ hx => hx) acc
    obtain ⟨acc', h2, hs2⟩ := nextLayer_total h rest (fun x hx => hk x (mem_cons_of_mem _ hx)) acc1
    refine ⟨acc', ?_, ?_⟩
    · rw [foldlM_cons, e1, ok_bind, h1, ok_bind]
      exact h2
    · intro y hy
      rcases hs2 y hy with q | ⟨x, hx, hkx⟩
      · rcases hs1 y q with q | q
        · exact Or.inl q
        · exact Or.inr ⟨nid, by simp, q⟩
      · exact Or.inr ⟨x, mem_cons_of_mem _ hx, hkx⟩

/-- the layer walk of `_simplify_step` returns (a merged graph or nothing) within its fuel -/
theorem simplifyWalk_total {g : Graph κ} (h : SValid g) {d : Bool} (hL : LevelFun g d) :
    ∀ (fuel i : Nat) (nids : List Int), nids ≠ [] → (∀ x ∈ nids, ReachFrom g d (g.term d) i x) →
      fuel + i = g.nodes.length + 2 → ∃ r, g.simplifyWalk d fuel nids = .ok r := by
  intro fuel
  induction fuel with
  | zero =>
    intro i nids hne hr hf
    obtain ⟨x, hx⟩ := exists_mem_of_ne_nil nids hne
    have := reach_lt h hL (hr x hx)
    omega
  | succ fuel ih =>
    intro i nids hne hr hf
    have hkeys : ∀ x ∈ nids, x ∈ dKeys g.nodes := fun x hx => reach_mem_keys h (term_mem_keys h d) (hr x hx)
    obtain ⟨r, hfp, hacc⟩ := findPairLayer_total h (d := d) nids hkeys
    rw [Graph.simplifyWalk, hfp, ok_bind]
    cases r with
    | some p =>
      obtain ⟨g', hg'⟩ := hacc p rfl
      obtain ⟨e1, e2⟩ := p
      simp only at hg' ⊢
      rw [hg', ok_bind]
      exact ⟨_, rfl⟩
    | none =>
      simp only
      obtain ⟨nids1, hn1, hs1⟩ := nextLayer_total h (d := d) nids hkeys []
      have : g.nextLayer d nids = .ok nids1 := hn1
      rw [this, ok_bind]
      by_cases hemp : nids1 = []
      · simp [hemp]
        exact ⟨_, rfl⟩
      · have : nids1.isEmpty = false := by
          cases hc : nids1 with
          | nil => exact absurd hc hemp
          | cons a b => rfl
        simp only [this, Bool.false_eq_true, if_false]
        apply ih (i + 1) nids1 hemp
        · intro y hy
          rcases hs1 y hy with q | ⟨x, hx, hkx⟩
          · simp at q
          · exact (hr x hx).snoc' hkx
        · omega

/-- **`_simplify_step` returns on every valid graph** -/
theorem simplifyStep_total {g : Graph κ} (h : Valid g) (d : Bool) : ∃ r, g.simplifyStep d = .ok r := by
  have hv := (valid_iff_levelFun g).1 h
  have hL : LevelFun g d := by cases d; exact hv.2.1; exact hv.2.2
  unfold Graph.simplifyStep
  exact simplifyWalk_total hv.1 hL _ 0 [g.term d] (by simp) (by
    intro x hx
    rw [mem_singleton] at hx
    subst hx
    exact ReachFrom.refl _) (by omega)

theorem simplifyDir_total {d : Bool} : ∀ (fuel : Nat) (g : Graph κ) (c : Bool), Valid g → g.edges.length < fuel →
    ∃ r, Graph.simplifyDir d fuel g c = .ok r
  | 0, _, _, _, hf => by omega
  | fuel + 1, g, c, h, hf => by
    obtain ⟨r, hr⟩ := simplifyStep_total h d
    rw [Graph.simplifyDir, hr, ok_bind]
    cases r with
    | some g1 =>
      obtain ⟨_, _, hcnt⟩ := simplifyStep_sem h.1 hr
      exact simplifyDir_total fuel g1 true (simplifyStep_valid h hr) (by omega)
    | none => exact ⟨_, rfl⟩

theorem simplifyLoop_total : ∀ (fuel : Nat) (g : Graph κ), Valid g → g.edges.length + 1 < fuel →
    ∃ g', Graph.simplifyLoop fuel g = .ok g'
  | 0, _, _, hf => by omega
  | fuel + 1, g, h, hf => by
    obtain ⟨⟨g0, c0⟩, h0⟩ := simplifyDir_total (d := false) (g.edges.length + 1) g false h (by omega)
    obtain ⟨hv0, hrel0, hval0, hc0⟩ := simplifyDir_sem h.1 h0
    have hV0 := hval0 h
    obtain ⟨⟨g1, c1⟩, h1⟩ := simplifyDir_total (d := true) (g0.edges.length + 1) g0 false hV0 (by omega)
    obtain ⟨hv1, hrel1, hval1, hc1⟩ := simplifyDir_sem hv0 h1
    rw [Graph.simplifyLoop, h0, ok_bind]
    simp only
    rw [h1, ok_bind]
    simp only
    by_cases hc : (c0 || c1) = true
    · simp only [hc, if_true]
      apply simplifyLoop_total fuel g1 (hval1 hV0)
      have e0 := hrel0.edges
      have e1 := hrel1.edges
      rcases Bool.or_eq_true_iff.1 hc with q | q
      · rcases hc0 q with q' | q'
        · cases q'
        · omega
      · rcases hc1 q with q' | q'
        · cases q'
        · omega
    · simp only [hc]
      exact ⟨_, rfl⟩

/-- **`simplify` returns on every valid graph** (no exception, no fuel exhaustion) -/
theorem simplify_total {g : Graph κ} (h : Valid g) : ∃ g', g.simplify = .ok g' :=
  simplifyLoop_total _ g h (by omega)

end Ptn.Og

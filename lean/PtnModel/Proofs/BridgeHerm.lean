import Mathlib.Algebra.Ring.Hom.Defs
import Mathlib.Algebra.BigOperators.Group.List.Basic
import PtnModel.Proofs.BridgeHam
/-!
# Hermiticity of the dense matrices of the chain-template models

`lattice_hermitian`: for an adjoint-closed lattice model (`AdjointClosed`: an involution `adj` of the operator ids with
`opmap[adj o] = opmap[o]ᵀ`, template list closed under `adj` with equal coefficients) whose templates have pairwise different
operator lists, and every ring endomorphism `σ` of the scalars that fixes all table entries and all template coefficients
("complex conjugation on real data"): the dense matrix `F` of the sum of the translated templates satisfies
`F s t = σ (F t s)`.  With `σ = id` this is symmetry; over `ℂ` with `σ` = conjugation it is Hermiticity for real parameters.
-/
set_option linter.unusedSectionVars false

namespace Ptn.Ham
open Ptn Ptn.Og Ptn.Ch List

variable {κ : Type} [CommRing κ] [DecidableEq κ]

/-- re-indexing a sum along an involution of a duplicate-free list -/
theorem sum_map_involution {α : Type} (l : List α) (hl : l.Nodup) (f : α → α)
    (hf : ∀ x ∈ l, f x ∈ l ∧ f (f x) = x) (G : α → κ) : (l.map fun x => G (f x)).sum = (l.map G).sum := by
  have hperm : (l.map f).Perm l := by
    apply (perm_ext_iff_of_nodup ?_ hl).2
    · intro y
      constructor
      · intro hy
        obtain ⟨x, hx, rfl⟩ := mem_map.1 hy
        exact (hf x hx).1
      · intro hy
        exact mem_map.2 ⟨f y, (hf y hy).1, (hf y hy).2⟩
    · apply hl.map_on
      intro x hx y hy hxy
      rw [← (hf x hx).2, ← (hf y hy).2, hxy]
  have := (hperm.map G).sum_eq
  rw [map_map] at this
  exact this

theorem opEntry_adj {lat : Lattice κ} {adj : Int → Int} (h : AdjointClosed lat adj) (σ : κ →+* κ)
    (hσ : ∀ p ∈ lat.opmap, ∀ i j, σ (p.2.entry i j) = p.2.entry i j)
    (o : Int) (ho : ∃ m, lat.opmap.lookup o = some m) (s t : Nat) (hs : s < lat.qd.length) (ht : t < lat.qd.length) :
    Ch.opEntry lat.opmap (adj o) s t = σ (Ch.opEntry lat.opmap o t s) := by
  obtain ⟨m, hm⟩ := ho
  have hmem : (o, m) ∈ lat.opmap := mem_of_lookup hm
  have htab := h.table (o, m) hmem
  simp only at htab
  unfold Ch.opEntry
  rw [htab, hm]
  simp only
  rw [matT, entry_matOf, if_pos ⟨hs, ht⟩, hσ (o, m) hmem]

theorem wordWeight_adj {lat : Lattice κ} {adj : Int → Int} (h : AdjointClosed lat adj) (σ : κ →+* κ)
    (hσ : ∀ p ∈ lat.opmap, ∀ i j, σ (p.2.entry i j) = p.2.entry i j) :
    ∀ (w : Word), (∀ o ∈ w, ∃ m, lat.opmap.lookup o = some m) → ∀ (ss ts : List Nat),
      (∀ s ∈ ss, s < lat.qd.length) → (∀ t ∈ ts, t < lat.qd.length) →
      wordWeight lat.opmap (w.map adj) ss ts = σ (wordWeight lat.opmap w ts ss) := by
  intro w
  induction w with
  | nil =>
    intro _ ss ts _ _
    cases ss <;> cases ts <;> simp [wordWeight]
  | cons o w ih =>
    intro hw ss ts hss hts
    cases ss with
    | nil => cases ts <;> simp [wordWeight]
    | cons s ss =>
      cases ts with
      | nil => simp [wordWeight]
      | cons t ts =>
        simp only [map_cons, wordWeight, map_mul]
        rw [opEntry_adj h σ hσ o (hw o (by simp)) s t (hss s (by simp)) (hts t (by simp)),
          ih (fun o' ho' => hw o' (by simp [ho'])) ss ts (fun x hx => hss x (by simp [hx])) (fun x hx => hts x (by simp [hx]))]

/-- the partner of a template under the adjoint word map -/
def partner (lop : List (OpChain κ)) (adj : Int → Int) (t : OpChain κ) : OpChain κ :=
  (lop.find? fun t' => t'.oids = t.oids.map adj).getD t

theorem partner_spec {lat : Lattice κ} {adj : Int → Int} (h : AdjointClosed lat adj) (t : OpChain κ) (ht : t ∈ lat.lopchains) :
    partner lat.lopchains adj t ∈ lat.lopchains ∧ (partner lat.lopchains adj t).oids = t.oids.map adj := by
  obtain ⟨t', ht', ho, _⟩ := h.closed t ht
  unfold partner
  cases hf : lat.lopchains.find? (fun t' => t'.oids = t.oids.map adj) with
  | none =>
    have := find?_eq_none.1 hf t' ht'
    simp [ho] at this
  | some t'' =>
    simp only [Option.getD_some]
    exact ⟨mem_of_find?_eq_some hf, by simpa using find?_some hf⟩

/-- the term sum of one template translated over the lattice -/
def templateEntry (opmap : OpMap κ) (L id : Int) (s t : List Nat) (t0 : OpChain κ) : κ :=
  ((pyRange 0 (L - (t0.length : Int) + 1)).map fun i =>
    t0.coeff * wordWeight opmap (({ t0 with istart := i } : OpChain κ).paddedWord L id) s t).sum

theorem termsEntry_translate (opmap : OpMap κ) (lop : List (OpChain κ)) (L id : Int) (s t : List Nat) :
    termsEntry opmap (denChainsRaw (translateChains lop L) L id) s t = (lop.map (templateEntry opmap L id s t)).sum := by
  unfold termsEntry denChainsRaw translateChains
  rw [map_map, Ch.sum_flatMap]
  apply Ch.sum_map_congr
  intro t0 _
  rw [map_map]
  rfl

theorem partner_coeff {lat : Lattice κ} {adj : Int → Int} (h : AdjointClosed lat adj)
    (hnd : (lat.lopchains.map (·.oids)).Nodup) (t : OpChain κ) (ht : t ∈ lat.lopchains) :
    (partner lat.lopchains adj t).coeff = t.coeff := by
  obtain ⟨t', ht', ho, hc⟩ := h.closed t ht
  obtain ⟨hp1, hp2⟩ := partner_spec h t ht
  have : partner lat.lopchains adj t = t' := inj_on_of_nodup_map hnd hp1 ht' (by rw [hp2, ho])
  rw [this, hc]

theorem known_letters {lat : Lattice κ} (hch : LatticeCharged lat) (t0 : OpChain κ) (ht0 : t0 ∈ lat.lopchains) :
    ∀ o ∈ t0.oids, ∃ m, lat.opmap.lookup o = some m := by
  intro o ho
  obtain ⟨k, hk, rfl⟩ := getElem_of_mem ho
  obtain ⟨m, hm, _⟩ := hch.templates t0 ht0 k hk
  rw [List.getD_eq_getElem?_getD, getElem?_eq_getElem hk] at hm
  exact ⟨m, hm⟩

theorem partner_invol {lat : Lattice κ} {adj : Int → Int} (h : AdjointClosed lat adj) (hch : LatticeCharged lat)
    (hnd : (lat.lopchains.map (·.oids)).Nodup) (t : OpChain κ) (ht : t ∈ lat.lopchains) :
    partner lat.lopchains adj t ∈ lat.lopchains ∧ partner lat.lopchains adj (partner lat.lopchains adj t) = t := by
  obtain ⟨hp1, hp2⟩ := partner_spec h t ht
  obtain ⟨hq1, hq2⟩ := partner_spec h _ hp1
  refine ⟨hp1, inj_on_of_nodup_map hnd hq1 ht ?_⟩
  rw [hq2, hp2, map_map]
  conv_rhs => rw [← map_id t.oids]
  apply map_congr_left
  intro o ho
  obtain ⟨m, hm⟩ := known_letters hch t ht o ho
  exact h.invol (o, m) (mem_of_lookup hm)

/-- **The dense matrix of an adjoint-closed lattice model is "Hermitian"**: `F s t = σ (F t s)` for every ring endomorphism `σ`
fixing the table entries and the template coefficients. -/
theorem lattice_hermitian {lat : Lattice κ} {adj : Int → Int} (h : AdjointClosed lat adj) (hch : LatticeCharged lat)
    (hnd : (lat.lopchains.map (·.oids)).Nodup) (σ : κ →+* κ)
    (hσt : ∀ p ∈ lat.opmap, ∀ i j, σ (p.2.entry i j) = p.2.entry i j)
    (hσc : ∀ t ∈ lat.lopchains, σ t.coeff = t.coeff) (L : Int) (s t : List Nat)
    (hs : ∀ x ∈ s, x < lat.qd.length) (ht : ∀ x ∈ t, x < lat.qd.length) :
    termsEntry lat.opmap (denChainsRaw (translateChains lat.lopchains L) L lat.oidIdentity) s t
      = σ (termsEntry lat.opmap (denChainsRaw (translateChains lat.lopchains L) L lat.oidIdentity) t s) := by
  rw [termsEntry_translate, termsEntry_translate, map_list_sum, map_map]
  have key : ∀ t0 ∈ lat.lopchains, (σ ∘ templateEntry lat.opmap L lat.oidIdentity t s) t0
      = templateEntry lat.opmap L lat.oidIdentity s t (partner lat.lopchains adj t0) := by
    intro t0 ht0
    obtain ⟨hp1, hp2⟩ := partner_spec h t0 ht0
    have hpc := partner_coeff h hnd t0 ht0
    have hlen : (partner lat.lopchains adj t0).length = t0.length := by
      simp [OpChain.length, hp2]
    simp only [Function.comp, templateEntry, map_list_sum, map_map, hlen]
    apply Ch.sum_map_congr
    intro i _
    simp only [Function.comp, map_mul, hσc t0 ht0, hpc]
    congr 1
    have hpw := paddedWord_adjoint h.ident (⟨t0.oids, t0.qnums, t0.coeff, i⟩ : OpChain κ)
      (⟨(partner lat.lopchains adj t0).oids, (partner lat.lopchains adj t0).qnums, t0.coeff, i⟩ : OpChain κ) L hp2 rfl
    rw [hpw]
    symm
    apply wordWeight_adj h σ hσt _ _ s t hs ht
    intro o ho
    simp only [OpChain.paddedWord, pyRepeat, mem_append, mem_replicate] at ho
    rcases ho with (⟨_, rfl⟩ | ho) | ⟨_, rfl⟩
    · obtain ⟨m, hm, _⟩ := hch.identity; exact ⟨m, hm⟩
    · exact known_letters hch t0 ht0 o ho
    · obtain ⟨m, hm, _⟩ := hch.identity; exact ⟨m, hm⟩
  rw [Ch.sum_map_congr _ _ _ key]
  exact (sum_map_involution lat.lopchains (Nodup.of_map _ hnd) (partner lat.lopchains adj)
    (fun x hx => partner_invol h hch hnd x hx) (templateEntry lat.opmap L lat.oidIdentity s t)).symm

end Ptn.Ham

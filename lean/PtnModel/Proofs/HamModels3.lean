import PtnModel.Proofs.HamModels2
/-!
# Fermi-Hubbard: explicit tables, templates, charges (particle number and spin, encoded pairs), adjoint closure, words
-/
set_option linter.unusedSectionVars false
set_option linter.unusedSimpArgs false

namespace Ptn.Ham
open Ptn.Og

variable {κ : Type} [CommRing κ] [DecidableEq κ]

/-- the tables of `fermi_hubbard_mpo` written out (local basis `|n_up n_dn⟩`, index `2 n_up + n_dn`) -/
def fhTables (c : Consts κ) : OpMap κ :=
  [(0, Mat.identity 4),
   (1, [[0, 0, 0, 0], [0, 0, 0, 0], [1, 0, 0, 0], [0, 1, 0, 0]]),
   (2, [[0, 0, 1, 0], [0, 0, 0, 1], [0, 0, 0, 0], [0, 0, 0, 0]]),
   (3, [[0, 0, 0, 0], [0, 0, 0, 0], [1, 0, 0, 0], [0, -1, 0, 0]]),
   (4, [[0, 0, 1, 0], [0, 0, 0, -1], [0, 0, 0, 0], [0, 0, 0, 0]]),
   (5, [[0, 0, 0, 0], [1, 0, 0, 0], [0, 0, 0, 0], [0, 0, 1, 0]]),
   (6, [[0, 1, 0, 0], [0, 0, 0, 0], [0, 0, 0, 1], [0, 0, 0, 0]]),
   (7, [[0, 0, 0, 0], [1, 0, 0, 0], [0, 0, 0, 0], [0, 0, -1, 0]]),
   (8, [[0, 1, 0, 0], [0, 0, 0, 0], [0, 0, 0, -1], [0, 0, 0, 0]]),
   (9, [[0, 0, 0, 0], [0, 1, 0, 0], [0, 0, 1, 0], [0, 0, 0, 1 + 1]]),
   (10, [[c.half * c.half, 0, 0, 0], [0, -(c.half * c.half), 0, 0], [0, 0, -(c.half * c.half), 0], [0, 0, 0, c.half * c.half]])]

theorem fermiHubbardOpmap_eq (c : Consts κ) : fermiHubbardOpmap c = fhTables c := by
  simp [fermiHubbardOpmap, fhTables, Mat.kron, Mat.add, fermiC, fermiA, fermiN, pauliZ, id2, Mat.identity,
    diagMat, List.range_succ, List.getD_eq_getElem?_getD]

def fhTemplates (t U mu : κ) : List (OpChain κ) :=
  [⟨[3, 2], [0, 65537, 0], -t, 0⟩, ⟨[4, 1], [0, -65537, 0], -t, 0⟩,
   ⟨[5, 8], [0, 65535, 0], -t, 0⟩, ⟨[6, 7], [0, -65535, 0], -t, 0⟩,
   ⟨[9], [0, 0], -mu, 0⟩, ⟨[10], [0, 0], U, 0⟩]

/-- `[(qN << 16) + qS]` for `qN = [0, 1, 1, 2]`, `qS = [0, -1, 1, 0]` -/
theorem spinQd_eq : spinQd = [0, 65535, 65537, 131072] := by decide

theorem fermiHubbardLattice_eq (c : Consts κ) (t U mu : κ) :
    fermiHubbardLattice c t U mu = .ok ⟨spinQd, fermiHubbardOpmap c, fhTemplates t U mu, 0⟩ := rfl

theorem fh_templates (t U mu : κ) : ∀ x ∈ fhTemplates t U mu, TemplateWF x := by
  intro x hx
  simp only [fhTemplates, List.mem_cons, List.not_mem_nil, or_false] at hx
  rcases hx with rfl | rfl | rfl | rfl | rfl | rfl <;> exact ⟨rfl, by simp, rfl, rfl⟩

/-- particle number and spin (encoded as `(N << 16) + S`): `c†_up` has charge `(1, 1)`, `c_up` `(-1, -1)`,
`c†_dn` `(1, -1)`, `c_dn` `(-1, 1)`; `n_up + n_dn`, `(n_up - 1/2)(n_dn - 1/2)` and the identity conserve both -/
theorem fh_charged (c : Consts κ) (t U mu : κ) :
    LatticeCharged (⟨spinQd, fermiHubbardOpmap c, fhTemplates t U mu, 0⟩ : Lattice κ) := by
  rw [fermiHubbardOpmap_eq, spinQd_eq]
  have h1 : OpHasCharge [0, 65535, 65537, 131072] ([[0, 0, 0, 0], [0, 0, 0, 0], [1, 0, 0, 0], [0, 1, 0, 0]] : Mat κ) 65537 := by charge_cases
  have h2 : OpHasCharge [0, 65535, 65537, 131072] ([[0, 0, 1, 0], [0, 0, 0, 1], [0, 0, 0, 0], [0, 0, 0, 0]] : Mat κ) (-65537) := by charge_cases
  have h3 : OpHasCharge [0, 65535, 65537, 131072] ([[0, 0, 0, 0], [0, 0, 0, 0], [1, 0, 0, 0], [0, -1, 0, 0]] : Mat κ) 65537 := by charge_cases
  have h4 : OpHasCharge [0, 65535, 65537, 131072] ([[0, 0, 1, 0], [0, 0, 0, -1], [0, 0, 0, 0], [0, 0, 0, 0]] : Mat κ) (-65537) := by charge_cases
  have h5 : OpHasCharge [0, 65535, 65537, 131072] ([[0, 0, 0, 0], [1, 0, 0, 0], [0, 0, 0, 0], [0, 0, 1, 0]] : Mat κ) 65535 := by charge_cases
  have h6 : OpHasCharge [0, 65535, 65537, 131072] ([[0, 1, 0, 0], [0, 0, 0, 0], [0, 0, 0, 1], [0, 0, 0, 0]] : Mat κ) (-65535) := by charge_cases
  have h7 : OpHasCharge [0, 65535, 65537, 131072] ([[0, 0, 0, 0], [1, 0, 0, 0], [0, 0, 0, 0], [0, 0, -1, 0]] : Mat κ) 65535 := by charge_cases
  have h8 : OpHasCharge [0, 65535, 65537, 131072] ([[0, 1, 0, 0], [0, 0, 0, 0], [0, 0, 0, -1], [0, 0, 0, 0]] : Mat κ) (-65535) := by charge_cases
  have h9 : OpHasCharge [0, 65535, 65537, 131072] ([[0, 0, 0, 0], [0, 1, 0, 0], [0, 0, 1, 0], [0, 0, 0, 1 + 1]] : Mat κ) 0 := by charge_cases
  have h10 : OpHasCharge [0, 65535, 65537, 131072]
      ([[c.half * c.half, 0, 0, 0], [0, -(c.half * c.half), 0, 0], [0, 0, -(c.half * c.half), 0], [0, 0, 0, c.half * c.half]] : Mat κ) 0 := by
    charge_cases
  refine ⟨?_, ?_, ⟨_, rfl, identity_charge [0, 65535, 65537, 131072]⟩⟩
  · intro p hp
    simp only [fhTables, List.mem_cons, List.not_mem_nil, or_false] at hp
    rcases hp with rfl | rfl | rfl | rfl | rfl | rfl | rfl | rfl | rfl | rfl | rfl <;> simp [IsSquare, Mat.identity]
  · intro x hx
    simp only [fhTemplates, List.mem_cons, List.not_mem_nil, or_false] at hx
    rcases hx with rfl | rfl | rfl | rfl | rfl | rfl <;> intro k hk <;> simp at hk
    · rcases k with _ | _ | k
      · exact ⟨_, rfl, h3⟩
      · exact ⟨_, rfl, h2⟩
      · omega
    · rcases k with _ | _ | k
      · exact ⟨_, rfl, h4⟩
      · exact ⟨_, rfl, h1⟩
      · omega
    · rcases k with _ | _ | k
      · exact ⟨_, rfl, h5⟩
      · exact ⟨_, rfl, h8⟩
      · omega
    · rcases k with _ | _ | k
      · exact ⟨_, rfl, h6⟩
      · exact ⟨_, rfl, h7⟩
      · omega
    · subst hk
      exact ⟨_, rfl, h9⟩
    · subst hk
      exact ⟨_, rfl, h10⟩

/-- `CI ↔ AI`, `CZ ↔ AZ`, `IC ↔ IA`, `ZC ↔ ZA`; `Id`, `Nt`, `NI` fixed -/
def fhAdj (o : Int) : Int :=
  if o = 1 then 2 else if o = 2 then 1 else if o = 3 then 4 else if o = 4 then 3
  else if o = 5 then 6 else if o = 6 then 5 else if o = 7 then 8 else if o = 8 then 7 else o

theorem fh_adjoint (c : Consts κ) (t U mu : κ) :
    AdjointClosed (⟨spinQd, fermiHubbardOpmap c, fhTemplates t U mu, 0⟩ : Lattice κ) fhAdj := by
  rw [fermiHubbardOpmap_eq, spinQd_eq]
  refine ⟨?_, ?_, rfl, ?_⟩
  · intro p hp
    simp only [fhTables, List.mem_cons, List.not_mem_nil, or_false] at hp
    rcases hp with rfl | rfl | rfl | rfl | rfl | rfl | rfl | rfl | rfl | rfl | rfl <;> rfl
  · intro p hp
    simp only [fhTables, List.mem_cons, List.not_mem_nil, or_false] at hp
    rcases hp with rfl | rfl | rfl | rfl | rfl | rfl | rfl | rfl | rfl | rfl | rfl <;>
      simp [fhAdj, fhTables, List.lookup, matT, matOf, Mat.entry, Mat.identity, List.range_succ]
  · intro x hx
    simp only [fhTemplates, List.mem_cons, List.not_mem_nil, or_false] at hx
    rcases hx with rfl | rfl | rfl | rfl | rfl | rfl
    · exact ⟨⟨[4, 1], [0, -65537, 0], -t, 0⟩, by simp [fhTemplates], rfl, rfl⟩
    · exact ⟨⟨[3, 2], [0, 65537, 0], -t, 0⟩, by simp [fhTemplates], rfl, rfl⟩
    · exact ⟨⟨[6, 7], [0, -65535, 0], -t, 0⟩, by simp [fhTemplates], rfl, rfl⟩
    · exact ⟨⟨[5, 8], [0, 65535, 0], -t, 0⟩, by simp [fhTemplates], rfl, rfl⟩
    · exact ⟨⟨[9], [0, 0], -mu, 0⟩, by simp [fhTemplates], rfl, rfl⟩
    · exact ⟨⟨[10], [0, 0], U, 0⟩, by simp [fhTemplates], rfl, rfl⟩

/-- the words of `fermi_hubbard_mpo`: spin-up hopping `-t (c†Z)_i (c I)_{i+1}`, `-t (cZ)_i (c† I)_{i+1}`, spin-down hopping
`-t (I c†)_i (Z c)_{i+1}`, `-t (I c)_i (Z c†)_{i+1}`, `-μ (n_up + n_dn)_i`, `U ((n_up - 1/2)(n_dn - 1/2))_i` -/
theorem fh_words (t U mu : κ) (L : Int) :
    denChainsRaw (translateChains (fhTemplates t U mu) L) L 0 =
      ((pyRange 0 (L - 1)).map fun i => (pyRepeat i 0 ++ [3, 2] ++ pyRepeat (L - 2 - i) 0, -t)) ++
      ((pyRange 0 (L - 1)).map fun i => (pyRepeat i 0 ++ [4, 1] ++ pyRepeat (L - 2 - i) 0, -t)) ++
      ((pyRange 0 (L - 1)).map fun i => (pyRepeat i 0 ++ [5, 8] ++ pyRepeat (L - 2 - i) 0, -t)) ++
      ((pyRange 0 (L - 1)).map fun i => (pyRepeat i 0 ++ [6, 7] ++ pyRepeat (L - 2 - i) 0, -t)) ++
      ((pyRange 0 L).map fun i => (pyRepeat i 0 ++ [9] ++ pyRepeat (L - 1 - i) 0, -mu)) ++
      ((pyRange 0 L).map fun i => (pyRepeat i 0 ++ [10] ++ pyRepeat (L - 1 - i) 0, U)) := by
  have e : L - 2 + 1 = L - 1 := by omega
  rw [translate_words]
  simp [fhTemplates, e]

end Ptn.Ham

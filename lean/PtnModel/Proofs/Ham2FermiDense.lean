import PtnModel.Proofs.Ham2Fermi
import PtnModel.Proofs.BridgeHam
import PtnModel.Proofs.HamSparse
import PtnModel.Props.C05Dense
/-!
# `linear_fermionic_mpo`: words, dense matrix and bond charges

Combines `Proofs/Ham2Fermi.lean` (the hand-built graph is `lfGraph`, valid, single sink, length `L`, path sums) with the dense
semantics of `MPO.from_opgraph` (`Ch.fromOpgraph_denseIs`, `C05.from_opgraph_last_bond`).
-/
set_option linter.unusedSectionVars false
namespace Ptn.Ham2
open Ptn Ptn.Og Ptn.Ham Ptn.Ch List

variable {κ : Type} [CommRing κ] [DecidableEq κ]

/-- the terms `coeff_i · I^i (C|A) Z^{L-1-i}` (operator ids `A = -1, I = 0, C = 1, Z = 2`) -/
def lfTerms (coeff : List κ) (create : Bool) : List (Word × κ) :=
  (List.range coeff.length).map fun i => (lfWord (if create then 1 else -1) coeff.length i, coeff.getD i 0)

/-- **words of the hand-built graph**: the coefficient of every word `w` (of any length) -/
theorem lfGraph_denF (coeff : List κ) (create : Bool) (hn : 1 ≤ coeff.length) (w : Word) :
    (lfGraph coeff create).denF w = ((lfTerms coeff create).map fun p => if p.1 = w then p.2 else 0).sum := by
  obtain ⟨_, sv, hE, _, hT, _⟩ := lfGraph_facts coeff create hn
  rw [denF_eq_denE sv, hE]
  simp only [Graph.term, hT, if_true, Bool.false_eq_true, if_false]
  have h := lf_den_id coeff create (coeff.length - 1) 0 (by omega) w
  rw [Nat.sub_add_cancel hn] at h
  rw [show ((0 : Nat) : Int) = 0 from rfl] at h
  rw [h, lfTerms, map_map]
  apply congrArg
  apply map_congr_left
  intro k _
  simp [Function.comp]

theorem linFermiGraph_nil (create : Bool) : linFermiGraph ([] : List κ) create = .error .key := rfl

theorem linFermiOpmap_wf : OpMapWF (linFermiOpmap : OpMap κ) 2 := by
  intro p hp
  simp only [linFermiOpmap, mem_cons, not_mem_nil, or_false] at hp
  have hid : (Og.Mat.identity 2 : Og.Mat κ) = [[1, 0], [0, 1]] := rfl
  rcases hp with rfl | rfl | rfl | rfl <;> refine ⟨by simp [hid, pauliZ, fermiA, fermiC], ?_⟩ <;>
    · intro row hrow
      simp only [hid, pauliZ, fermiA, fermiC, mem_cons, not_mem_nil, or_false] at hrow
      rcases hrow with rfl | rfl <;> rfl

/-- what a returning `linear_fermionic_mpo` has computed -/
theorem linFermiBuild_spec (coeff : List κ) (create : Bool) (b : Built κ) (hb : linFermiBuild coeff create = .ok b) :
    1 ≤ coeff.length ∧ b.qd = [0, 1] ∧ b.opmap = linFermiOpmap ∧ b.graph = lfGraph coeff create ∧
    fromOpgraph [0, 1] (lfGraph coeff create) linFermiOpmap false = .ok b.mpo := by
  have hn : 1 ≤ coeff.length := by
    cases coeff with
    | nil => simp [linFermiBuild, linFermiGraph_nil, bind, Except.bind] at hb
    | cons c cs => simp
  unfold linFermiBuild at hb
  rw [linFermiGraph_ok coeff create hn] at hb
  simp only [bind, Except.bind] at hb
  cases hm : fromOpgraph [0, 1] (lfGraph coeff create) linFermiOpmap false with
  | error e => rw [hm] at hb; cases hb
  | ok m =>
    rw [hm] at hb
    simp only [pure, Except.pure, Except.ok.injEq] at hb
    subst hb
    exact ⟨hn, rfl, rfl, rfl, rfl⟩

/-- **`linear_fermionic_mpo`, dense.** -/
theorem linFermi_denseIs (coeff : List κ) (create : Bool) (b : Built κ) (hb : linFermiBuild coeff create = .ok b) :
    MPO.DenseIs (b.mpo.toMPO [0, 1]) 2 coeff.length (termsEntry linFermiOpmap (lfTerms coeff create)) := by
  obtain ⟨hn, _, _, _, hm⟩ := linFermiBuild_spec coeff create b hb
  exact fromOpgraph_denseIs [0, 1] _ linFermiOpmap false b.mpo hm (lfGraph_valid coeff create hn).isConsistent
    (lfGraph_singleSink coeff create hn) coeff.length (lfGraph_length coeff create hn) hn linFermiOpmap_wf _
    (fun w _ => lfGraph_denF coeff create hn w)

theorem lfG0_get_start (n : Nat) (hn : 1 ≤ n) (create : Bool) :
    dGet? (lfG0 (κ := κ) n create).nodes 0 = some ⟨0, [], [], 0⟩ :=
  dGet?_eq_some_of_mem (lfG0_svalid n hn create).nodesKeys
    (mem_map.2 ⟨⟨0, [], [], 0⟩, (lfNodeList_mem ..).2 (Or.inl ⟨0, le_refl _, by omega, rfl⟩), rfl⟩)

theorem lfG0_get_end (n : Nat) (hn : 1 ≤ n) (create : Bool) :
    dGet? (lfG0 (κ := κ) n create).nodes ((n : Int) + n - 1) = some ⟨(n : Int) + n - 1, [], [], if create then 1 else -1⟩ :=
  dGet?_eq_some_of_mem (lfG0_svalid n hn create).nodesKeys
    (mem_map.2 ⟨⟨(n : Int) + n - 1, [], [], if create then 1 else -1⟩,
      (lfNodeList_mem ..).2 (Or.inr ⟨n, by omega, le_refl _, rfl⟩), rfl⟩)

/-- **bond charges**: the leading bond carries charge 0, the trailing bond the charge of the end node of the `Z` string:
`+1` for creation, `-1` for annihilation -/
theorem linFermi_qD (coeff : List κ) (create : Bool) (b : Built κ) (hb : linFermiBuild coeff create = .ok b) :
    b.mpo.qD.head? = some [0] ∧ b.mpo.qD.getLast? = some [if create then 1 else -1] := by
  obtain ⟨hn, _, _, _, hm⟩ := linFermiBuild_spec coeff create b hb
  obtain ⟨_, _, _, _, hT, hq⟩ := lfGraph_facts coeff create hn
  have hc := (lfGraph_valid coeff create hn).isConsistent
  constructor
  · obtain ⟨layers, h1, h2, _⟩ := Ptn.C05.from_opgraph_qD [0, 1] _ linFermiOpmap false b.mpo hm hc
    rw [h2]
    cases layers with
    | nil => cases h1
    | cons S rest =>
      simp only [head?_cons, Option.some.injEq] at h1
      subst h1
      have := hq 0
      rw [lfG0_get_start _ hn] at this
      simp only [map_cons, head?_cons, layerQ, Graph.term, hT, Bool.false_eq_true, if_false, map_nil, this]
      rfl
  · rw [Ptn.C05.from_opgraph_last_bond [0, 1] _ linFermiOpmap false b.mpo hm hc (lfGraph_singleSink coeff create hn)]
    have := hq ((coeff.length : Int) + coeff.length - 1)
    rw [lfG0_get_end _ hn] at this
    simp only [layerQ, Graph.term, hT, if_true, map_cons, map_nil, this]
    rfl


/-! ## the operator shifts the particle number by a fixed amount -/

/-- particle-number change of the local operators `A = -1, I = 0, C = 1, Z = 2` -/
def lfChg (o : Int) : Int := if o = 1 then 1 else if o = -1 then -1 else 0

theorem lf_opEntry_charge (o : Int) (s t : Nat) (hs : s < 2) (ht : t < 2)
    (h : Ch.opEntry (linFermiOpmap : OpMap κ) o s t ≠ 0) : (s : Int) - t = lfChg o := by
  have hid : (Og.Mat.identity 2 : Og.Mat κ) = [[1, 0], [0, 1]] := rfl
  by_cases h1 : o = -1
  · subst h1
    have hs' : s = 0 ∨ s = 1 := by omega
    have ht' : t = 0 ∨ t = 1 := by omega
    rcases hs' with rfl | rfl <;> rcases ht' with rfl | rfl <;>
      simp [Ch.opEntry, linFermiOpmap, fermiA, Mat.entry, lfChg] at h ⊢
  by_cases h2 : o = 0
  · subst h2
    have hs' : s = 0 ∨ s = 1 := by omega
    have ht' : t = 0 ∨ t = 1 := by omega
    rcases hs' with rfl | rfl <;> rcases ht' with rfl | rfl <;>
      simp [Ch.opEntry, linFermiOpmap, List.lookup, hid, Mat.entry, lfChg] at h ⊢
  by_cases h3 : o = 1
  · subst h3
    have hs' : s = 0 ∨ s = 1 := by omega
    have ht' : t = 0 ∨ t = 1 := by omega
    rcases hs' with rfl | rfl <;> rcases ht' with rfl | rfl <;>
      simp [Ch.opEntry, linFermiOpmap, List.lookup, fermiC, Mat.entry, lfChg] at h ⊢
  by_cases h4 : o = 2
  · subst h4
    have hs' : s = 0 ∨ s = 1 := by omega
    have ht' : t = 0 ∨ t = 1 := by omega
    rcases hs' with rfl | rfl <;> rcases ht' with rfl | rfl <;>
      simp [Ch.opEntry, linFermiOpmap, List.lookup, pauliZ, Mat.entry, lfChg] at h ⊢
  · exfalso
    apply h
    have e1 : (o == -1) = false := by simpa using h1
    have e2 : (o == 0) = false := by simpa using h2
    have e3 : (o == 1) = false := by simpa using h3
    have e4 : (o == 2) = false := by simpa using h4
    simp [Ch.opEntry, linFermiOpmap, List.lookup, e1, e2, e3, e4]

theorem lf_wordWeight_charge : ∀ (w : Word) (s t : List Nat), (∀ x ∈ s, x < 2) → (∀ x ∈ t, x < 2) →
    wordWeight (linFermiOpmap : OpMap κ) w s t ≠ 0 →
    ((s.map fun (x : Nat) => (x : Int)).sum - (t.map fun (x : Nat) => (x : Int)).sum) = (w.map lfChg).sum := by
  intro w
  induction w with
  | nil =>
    intro s t _ _ h
    cases s <;> cases t <;> simp [wordWeight] at h ⊢
  | cons o w ih =>
    intro s t hs ht h
    cases s with
    | nil => simp [wordWeight] at h
    | cons a s =>
      cases t with
      | nil => simp [wordWeight] at h
      | cons b t =>
        rw [wordWeight] at h
        have h1 : Ch.opEntry (linFermiOpmap : OpMap κ) o a b ≠ 0 := fun hc => h (by rw [hc, zero_mul])
        have h2 : wordWeight (linFermiOpmap : OpMap κ) w s t ≠ 0 := fun hc => h (by rw [hc, mul_zero])
        have e1 := lf_opEntry_charge o a b (hs a (mem_cons_self ..)) (ht b (mem_cons_self ..)) h1
        have e2 := ih s t (fun x hx => hs x (mem_cons_of_mem _ hx)) (fun x hx => ht x (mem_cons_of_mem _ hx)) h2
        simp only [map_cons, sum_cons]
        omega

theorem lfWord_charge (op : Int) (m k : Nat) : ((lfWord op m k).map lfChg).sum = lfChg op := by
  simp [lfWord, lfChg]

/-- **the operator shifts the particle number by exactly `+1` (creation) resp. `-1` (annihilation)**: a non-zero matrix element
`⟨s| op |t⟩` (occupation digits `s_k, t_k ∈ {0, 1}`) has `Σ_k s_k - Σ_k t_k = ±1` -/
theorem linFermi_shift (coeff : List κ) (create : Bool) (b : Built κ) (hb : linFermiBuild coeff create = .ok b)
    (s t : List Nat) (hs : Digits 2 coeff.length s) (ht : Digits 2 coeff.length t)
    (h : (b.mpo.toMPO [0, 1]).elem s t ≠ 0) :
    (s.map fun (x : Nat) => (x : Int)).sum - (t.map fun (x : Nat) => (x : Int)).sum = if create then 1 else -1 := by
  rw [(linFermi_denseIs coeff create b hb).elem s t hs ht] at h
  unfold termsEntry at h
  have : ∃ p ∈ lfTerms coeff create, p.2 * wordWeight linFermiOpmap p.1 s t ≠ 0 := by
    by_contra hc
    push Not at hc
    exact h (Og.sum_map_eq_zero _ _ hc)
  obtain ⟨p, hp, hne⟩ := this
  simp only [lfTerms, mem_map, mem_range] at hp
  obtain ⟨i, _, rfl⟩ := hp
  have hw : wordWeight (linFermiOpmap : OpMap κ) (lfWord (if create then 1 else -1) coeff.length i) s t ≠ 0 :=
    fun hc => hne (by simp only; rw [hc, mul_zero])
  rw [lf_wordWeight_charge _ s t hs.2 ht.2 hw, lfWord_charge]
  cases create <;> rfl

end Ptn.Ham2

import Mathlib.Data.List.Nodup
import Mathlib.Data.List.Range
import PtnModel.Model.Bipartite
/-!
# C18 helper lemmas, part 1: graphs, well-formedness, matchings, covers, weak duality

* `BGraph.Edge`, `BGraph.WF`, `mk'_wf'` (the constructor always yields a well-formed graph);
* `IsMatching`, `IsCover`, `weak_duality'`;
* `getD`/`set` bookkeeping lemmas used by the later files.
-/
namespace Ptn.Bip

/-! ## list bookkeeping -/

theorem getD_set_eq {α} (l : List α) (i j : Nat) (a d : α) :
    (l.set i a).getD j d = if i = j ∧ i < l.length then a else l.getD j d := by
  simp only [List.getD_eq_getElem?_getD, List.getElem?_set]
  by_cases h : i = j
  · subst h
    by_cases h2 : i < l.length
    · simp [h2]
    · simp [h2]
  · simp [h]

theorem getD_set_ne {α} (l : List α) {i j : Nat} (a d : α) (h : i ≠ j) :
    (l.set i a).getD j d = l.getD j d := by
  rw [getD_set_eq]; simp [h]

theorem getD_set_self {α} (l : List α) {i : Nat} (a d : α) (h : i < l.length) :
    (l.set i a).getD i d = a := by
  rw [getD_set_eq]; simp [h]

theorem getD_of_length_le {α} (l : List α) {i : Nat} (d : α) (h : l.length ≤ i) :
    l.getD i d = d := by
  simp [List.getD_eq_getElem?_getD, List.getElem?_eq_none h]

theorem getD_replicate_self {α} (n i : Nat) (d : α) : (List.replicate n d).getD i d = d := by
  simp only [List.getD_eq_getElem?_getD, List.getElem?_replicate]
  split <;> rfl

/-- an `Option`-valued list can only answer `some _` inside its range -/
theorem lt_length_of_getD_some {l : List (Option Nat)} {i v : Nat}
    (h : l.getD i none = some v) : i < l.length := by
  by_contra hc
  rw [getD_of_length_le l none (by omega)] at h
  cases h

/-! ## graphs -/

/-- `(u, v)` is an edge of `g`: `v in graph.adj_u[u]`. -/
def BGraph.Edge (g : BGraph) (u v : Nat) : Prop := v ∈ g.adjU.getD u []

instance (g : BGraph) (u v : Nat) : Decidable (g.Edge u v) := by
  unfold BGraph.Edge; infer_instance

/-- Well-formed bipartite graph: the adjacency lists have the right lengths, entries are in range,
there are no duplicate entries, and `adjU`/`adjV` describe the same edge set. -/
structure BGraph.WF (g : BGraph) : Prop where
  lenU : g.adjU.length = g.numU
  lenV : g.adjV.length = g.numV
  rangeU : ∀ u v, v ∈ g.adjU.getD u [] → v < g.numV
  rangeV : ∀ v u, u ∈ g.adjV.getD v [] → u < g.numU
  nodupU : ∀ u, (g.adjU.getD u []).Nodup
  nodupV : ∀ v, (g.adjV.getD v []).Nodup
  consistent : ∀ u v, v ∈ g.adjU.getD u [] ↔ u ∈ g.adjV.getD v []

theorem BGraph.WF.edge_lt {g : BGraph} (h : g.WF) {u v : Nat} (e : g.Edge u v) :
    u < g.numU ∧ v < g.numV := by
  refine ⟨?_, h.rangeU u v e⟩
  exact h.rangeV v u ((h.consistent u v).1 e)

theorem BGraph.WF.edge_iff_adjV {g : BGraph} (h : g.WF) {u v : Nat} :
    g.Edge u v ↔ u ∈ g.adjV.getD v [] := h.consistent u v

/-! ### `addAdj` -/

theorem length_addAdj (adj : List (List Nat)) (u v : Nat) : (addAdj adj u v).length = adj.length := by
  simp [addAdj]

theorem getD_addAdj (adj : List (List Nat)) (u v u' : Nat) :
    (addAdj adj u v).getD u' [] =
      if u = u' ∧ u < adj.length then
        (if (adj.getD u []).contains v then adj.getD u [] else adj.getD u [] ++ [v])
      else adj.getD u' [] := by
  simp only [addAdj, List.getD_eq_getElem?_getD, List.getElem?_modify]
  by_cases h : u = u'
  · subst h
    by_cases hl : u < adj.length
    · simp [hl]
    · simp [hl]
  · simp [h]

theorem mem_getD_addAdj (adj : List (List Nat)) (u v u' w : Nat) :
    w ∈ (addAdj adj u v).getD u' [] ↔ w ∈ adj.getD u' [] ∨ (u' = u ∧ w = v ∧ u < adj.length) := by
  rw [getD_addAdj]
  by_cases h : u = u' ∧ u < adj.length
  · obtain ⟨rfl, hl⟩ := h
    rw [if_pos ⟨rfl, hl⟩]
    by_cases hc : (adj.getD u []).contains v = true
    · rw [if_pos hc]
      constructor
      · intro hw; exact Or.inl hw
      · rintro (hw | ⟨_, rfl, _⟩)
        · exact hw
        · exact List.contains_iff_mem.1 hc
    · rw [if_neg hc]
      simp [List.mem_append, hl]
  · rw [if_neg h]
    constructor
    · intro hw; exact Or.inl hw
    · rintro (hw | ⟨rfl, _, hl⟩)
      · exact hw
      · exact absurd ⟨rfl, hl⟩ h

theorem nodup_getD_addAdj (adj : List (List Nat)) (u v : Nat)
    (hn : ∀ u', (adj.getD u' []).Nodup) (u' : Nat) : ((addAdj adj u v).getD u' []).Nodup := by
  rw [getD_addAdj]
  by_cases h : u = u' ∧ u < adj.length
  · obtain ⟨rfl, hl⟩ := h
    rw [if_pos ⟨rfl, hl⟩]
    by_cases hc : (adj.getD u []).contains v = true
    · rw [if_pos hc]; exact hn u
    · rw [if_neg hc]
      have hnm : v ∉ adj.getD u [] := fun hm => hc (List.contains_iff_mem.2 hm)
      rw [List.nodup_append]
      refine ⟨hn u, List.nodup_singleton v, ?_⟩
      intro a ha b hb
      simp only [List.mem_singleton] at hb
      subst hb
      intro hab; subst hab; exact hnm ha
  · rw [if_neg h]; exact hn u'

/-! ### the constructor yields well-formed graphs -/

/-- One step of the edge loop of `BipartiteGraph.__init__`. -/
theorem wf_addEdge {g : BGraph} (h : g.WF) {u v : Nat} (hu : u < g.numU) (hv : v < g.numV) :
    BGraph.WF { g with adjU := addAdj g.adjU u v, adjV := addAdj g.adjV v u } := by
  constructor
  · simpa [length_addAdj] using h.lenU
  · simpa [length_addAdj] using h.lenV
  · intro u' w hw
    rcases (mem_getD_addAdj _ _ _ _ _).1 hw with hw | ⟨_, rfl, _⟩
    · exact h.rangeU u' w hw
    · exact hv
  · intro v' w hw
    rcases (mem_getD_addAdj _ _ _ _ _).1 hw with hw | ⟨_, rfl, _⟩
    · exact h.rangeV v' w hw
    · exact hu
  · exact nodup_getD_addAdj _ _ _ h.nodupU
  · exact nodup_getD_addAdj _ _ _ h.nodupV
  · intro u' v'
    show v' ∈ (addAdj g.adjU u v).getD u' [] ↔ u' ∈ (addAdj g.adjV v u).getD v' []
    rw [mem_getD_addAdj, mem_getD_addAdj, h.consistent u' v', h.lenU, h.lenV]
    constructor
    · rintro (hh | ⟨rfl, rfl, _⟩)
      · exact Or.inl hh
      · exact Or.inr ⟨rfl, rfl, hv⟩
    · rintro (hh | ⟨rfl, rfl, _⟩)
      · exact Or.inl hh
      · exact Or.inr ⟨rfl, rfl, hu⟩

theorem wf_init (nu nv : Nat) : BGraph.WF ⟨nu, nv, List.replicate nu [], List.replicate nv []⟩ := by
  constructor
  · simp
  · simp
  · intro u v h; rw [getD_replicate_self] at h; cases h
  · intro u v h; rw [getD_replicate_self] at h; cases h
  · intro u; rw [getD_replicate_self]; exact List.nodup_nil
  · intro u; rw [getD_replicate_self]; exact List.nodup_nil
  · intro u v; rw [getD_replicate_self, getD_replicate_self]; simp

/-- the edge loop of `BipartiteGraph.__init__` as a function on graphs -/
def mkStep (numU numV : Int) (g : BGraph) (e : Int × Int) : Except Err BGraph :=
  if decide (0 ≤ e.1 ∧ e.1 < numU) = true then
    if decide (0 ≤ e.2 ∧ e.2 < numV) = true then
      pure { g with adjU := addAdj g.adjU e.1.toNat e.2.toNat, adjV := addAdj g.adjV e.2.toNat e.1.toNat }
    else .error .assertion
  else .error .assertion

theorem pyAssert_ok {c : Bool} : pyAssert c = .ok () ↔ c = true := by
  unfold pyAssert; cases c <;> simp

theorem pyAssert_bind {β} (c : Bool) (f : Unit → Except Err β) :
    (pyAssert c >>= f) = if c then f () else .error .assertion := by
  unfold pyAssert; cases c <;> rfl

theorem mkStep_wf {numU numV : Int} {g g' : BGraph} {e : Int × Int}
    (h : g.WF) (hU : g.numU = numU.toNat) (hV : g.numV = numV.toNat)
    (hs : mkStep numU numV g e = .ok g') :
    g'.WF ∧ g'.numU = numU.toNat ∧ g'.numV = numV.toNat := by
  unfold mkStep at hs
  split at hs
  · split at hs
    · rename_i h1 h2
      simp only [decide_eq_true_eq] at h1 h2
      have : g' = { g with adjU := addAdj g.adjU e.1.toNat e.2.toNat,
                           adjV := addAdj g.adjV e.2.toNat e.1.toNat } := by
        cases hs; rfl
      subst this
      refine ⟨wf_addEdge h ?_ ?_, hU, hV⟩
      · rw [hU]; omega
      · rw [hV]; omega
    · cases hs
  · cases hs

theorem foldlM_mkStep_wf {numU numV : Int} (edges : List (Int × Int)) :
    ∀ {g g' : BGraph}, g.WF → g.numU = numU.toNat → g.numV = numV.toNat →
      edges.foldlM (mkStep numU numV) g = .ok g' →
      g'.WF ∧ g'.numU = numU.toNat ∧ g'.numV = numV.toNat := by
  induction edges with
  | nil => intro g g' h hU hV hs; cases hs; exact ⟨h, hU, hV⟩
  | cons e es ih =>
    intro g g' h hU hV hs
    rw [List.foldlM_cons] at hs
    cases hstep : mkStep numU numV g e with
    | error err => rw [hstep] at hs; cases hs
    | ok g1 =>
      rw [hstep] at hs
      obtain ⟨h1, hU1, hV1⟩ := mkStep_wf h hU hV hstep
      exact ih h1 hU1 hV1 hs

/-- `BipartiteGraph.__init__` only produces well-formed graphs (with `num_u, num_v ≥ 1`). -/
theorem mk'_wf' {numU numV : Int} {edges : List (Int × Int)} {g : BGraph}
    (h : BGraph.mk' numU numV edges = .ok g) :
    g.WF ∧ (g.numU : Int) = numU ∧ (g.numV : Int) = numV ∧ 1 ≤ g.numU ∧ 1 ≤ g.numV := by
  unfold BGraph.mk' at h
  simp only [pyAssert_bind] at h
  split at h
  · split at h
    · rename_i h1 h2
      simp only [decide_eq_true_eq] at h1 h2
      obtain ⟨hw, hU, hV⟩ := foldlM_mkStep_wf (numU := numU) (numV := numV) edges
        (wf_init numU.toNat numV.toNat) rfl rfl h
      refine ⟨hw, ?_, ?_, ?_, ?_⟩ <;> omega
    · cases h
  · cases h

/-! ## matchings and covers -/

/-- `m` is a matching of `g`: every pair is an edge of `g`, and no two pairs share a vertex. -/
structure IsMatching (g : BGraph) (m : List (Nat × Nat)) : Prop where
  edge : ∀ p ∈ m, g.Edge p.1 p.2
  nodupU : (m.map Prod.fst).Nodup
  nodupV : (m.map Prod.snd).Nodup

/-- `(uc, vc)` is a vertex cover of `g`: every edge has its `U`-end in `uc` or its `V`-end in `vc`. -/
def IsCover (g : BGraph) (uc vc : List Nat) : Prop :=
  ∀ u v, g.Edge u v → u ∈ uc ∨ v ∈ vc

theorem IsMatching.nodup {g : BGraph} {m : List (Nat × Nat)} (h : IsMatching g m) : m.Nodup :=
  List.Nodup.of_map _ h.nodupU

theorem IsMatching.eq_of_fst {g : BGraph} {m : List (Nat × Nat)} (h : IsMatching g m)
    {p q : Nat × Nat} (hp : p ∈ m) (hq : q ∈ m) (e : p.1 = q.1) : p = q :=
  List.inj_on_of_nodup_map h.nodupU hp hq e

theorem IsMatching.eq_of_snd {g : BGraph} {m : List (Nat × Nat)} (h : IsMatching g m)
    {p q : Nat × Nat} (hp : p ∈ m) (hq : q ∈ m) (e : p.2 = q.2) : p = q :=
  List.inj_on_of_nodup_map h.nodupV hp hq e

/-- Weak duality: a matching is never larger than a vertex cover. -/
theorem weak_duality' {g : BGraph} {m : List (Nat × Nat)} {uc vc : List Nat}
    (hm : IsMatching g m) (hc : IsCover g uc vc) : m.length ≤ uc.length + vc.length := by
  classical
  let f : Nat × Nat → Nat ⊕ Nat := fun p => if p.1 ∈ uc then Sum.inl p.1 else Sum.inr p.2
  have hnd : (m.map f).Nodup := by
    apply List.Nodup.map_on _ hm.nodup
    intro p hp q hq hpq
    simp only [f] at hpq
    by_cases h1 : p.1 ∈ uc <;> by_cases h2 : q.1 ∈ uc <;> simp [h1, h2] at hpq
    · exact hm.eq_of_fst hp hq hpq
    · exact hm.eq_of_snd hp hq hpq
  have hsub : m.map f ⊆ uc.map Sum.inl ++ vc.map Sum.inr := by
    intro x hx
    obtain ⟨p, hp, rfl⟩ := List.mem_map.1 hx
    simp only [f]
    by_cases h1 : p.1 ∈ uc
    · simp [h1]
    · rcases hc p.1 p.2 (hm.edge p hp) with h | h
      · exact absurd h h1
      · simp [h1, h]
  have := hnd.length_le_of_subset hsub
  simpa using this

end Ptn.Bip

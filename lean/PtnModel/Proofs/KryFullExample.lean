import PtnModel.Proofs.KryFull
/-!
# Full-length Krylov runs in dimension 2 (non-vacuity witnesses for `Props/C15Full.lean`)

* `exSym = [[2, 1], [1, 2]]`, `v = (1, 0)`, 2-norm: the first Lanczos residual is `(0, 1)` (norm `1`), so every run with
  `numiter ≥ 2` returns two vectors (`exSym_full`);
* `exJordanR = [[1, 1], [0, 1]]` (not normal), `v = (0, 1)`: the first Arnoldi residual is `(1, 0)` (`exJordanR_full`).
-/
set_option linter.unusedSectionVars false
namespace Ptn.Krylov
open Ptn Finset

/-- `[[2, 1], [1, 2]]` -/
noncomputable def exSym : Mat ℝ := ⟨2, 2, fun i k => if i = k then 2 else 1⟩

theorem exSym_herm : ∀ i j, i < 2 → j < 2 → (starRingEnd ℝ) (exSym.f i j) = exSym.f j i := by
  intro i k _ _
  simp only [exSym, RCLike.conj_to_real]
  by_cases h : i = k
  · subst h; rfl
  · rw [if_neg h, if_neg (Ne.symm h)]

theorem sqrtNorm_e0 : sqrtNorm ([1, 0] : List ℝ) = 1 := by
  simp [sqrtNorm, sqNorm]

theorem sqrtNorm_e1 : sqrtNorm ([0, 1] : List ℝ) = 1 := by
  simp [sqrtNorm, sqNorm]

theorem thr2_lt_one : breakdownThr ℝ 2 < 1 := by
  unfold breakdownThr
  rw [div_lt_one (by positivity)]
  norm_num

theorem vdiv_e0 : vdiv 2 ([1, 0] : List ℝ) (RealLike.ofReal (sqrtNorm ([1, 0] : List ℝ))) = [1, 0] := by
  rw [sqrtNorm_e0]
  simp [vdiv, vget, List.range, List.range.loop, ofReal_eq]

theorem vdiv_e1 : vdiv 2 ([0, 1] : List ℝ) (RealLike.ofReal (sqrtNorm ([0, 1] : List ℝ))) = [0, 1] := by
  rw [sqrtNorm_e1]
  simp [vdiv, vget, List.range, List.range.loop, ofReal_eq]

theorem exSym_e0 : matvec exSym ([1, 0] : List ℝ) = [2, 1] := by
  simp [matvec, exSym, vget, sumRange_eq_sum, Finset.sum_range_succ, List.range, List.range.loop]

/-- every Lanczos run on `(exSym, (1, 0))` with `numiter ≥ 2` returns two vectors -/
theorem exSym_full {numiter : Nat} (h2 : 2 ≤ numiter) {alpha beta : List ℝ} {V : Mat ℝ}
    (hl : lanczos (matvec exSym) sqrtNorm ([1, 0] : List ℝ) numiter = .ok (alpha, beta, V)) :
    V.n = ([1, 0] : List ℝ).length := by
  have hA : IsHermitian ([1, 0] : List ℝ).length (matvec exSym) := isHermitian_matvec exSym rfl rfl exSym_herm
  obtain ⟨h1, _, _, hm, hn⟩ := lanczos_sizes _ _ hl
  have hle := (lanczos_le_length _ _ hl).1
  by_contra hne
  have hlen : ([1, 0] : List ℝ).length = 2 := rfl
  have hV1 : V.n = 1 := by omega
  have hlt := C14.lanczos_full sqrtNorm_contract hA hl (by rw [hV1, hlen]; omega)
  obtain ⟨hfirst, _, _, hproj⟩ := C14.lanczos_relations sqrtNorm_contract hA hl
  rw [hlen] at hfirst hm
  rw [vdiv_e0] at hfirst
  have ha := hproj 0 0 (by omega) (by omega)
  rw [hfirst, hm, exSym_e0] at ha
  have ha0 : alpha.getD 0 0 = 2 := by
    have : vdot 2 ([1, 0] : List ℝ) [2, 1] = 2 := by
      simp [vdot_eq_sum, Finset.sum_range_succ, vget]
    rw [this] at ha
    unfold tridiag at ha
    rw [if_pos rfl] at ha
    exact_mod_cast ha.symm
  have hres : lanczosResidual (matvec exSym) alpha beta V (V.n - 1) = [0, 1] := by
    unfold lanczosResidual
    rw [hV1, if_neg (by omega), hfirst, hm, exSym_e0, ha0]
    simp [vsub, vscale, vget, List.range, List.range.loop, ofReal_eq]
  rw [hres, sqrtNorm_e1, hlen] at hlt
  exact absurd hlt (not_lt.2 thr2_lt_one.le)

/-- the Jordan block `[[1, 1], [0, 1]]` over `ℝ` -/
noncomputable def exJordanR : Mat ℝ := ⟨2, 2, fun i k => if i ≤ k then 1 else 0⟩

theorem exJordanR_e1 : matvec exJordanR ([0, 1] : List ℝ) = [1, 1] := by
  simp [matvec, exJordanR, vget, sumRange_eq_sum, Finset.sum_range_succ, List.range, List.range.loop]

/-- every Arnoldi run on `(exJordanR, (0, 1))` with `numiter ≥ 2` returns two vectors -/
theorem exJordanR_full {numiter : Nat} (h2 : 2 ≤ numiter) {H V : Mat ℝ}
    (hl : arnoldi (matvec exJordanR) sqrtNorm ([0, 1] : List ℝ) numiter = .ok (H, V)) :
    V.n = ([0, 1] : List ℝ).length := by
  obtain ⟨h1, _, _, hm, hn⟩ := C14.arnoldi_shapes _ _ hl
  have hle := (arnoldi_le_length _ _ hl).1
  by_contra hne
  have hlen : ([0, 1] : List ℝ).length = 2 := rfl
  have hV1 : V.n = 1 := by omega
  have hlt := C14.arnoldi_full sqrtNorm_contract hl (by rw [hV1, hlen]; omega)
  obtain ⟨hfirst, _, _, _, _⟩ := C14.arnoldi_relations sqrtNorm_contract hl
  rw [hlen] at hfirst hm
  rw [vdiv_e1] at hfirst
  have hres : C14.arnoldiResidual (matvec exJordanR) V (V.n - 1) = [1, 0] := by
    unfold C14.arnoldiResidual
    rw [hV1, hfirst, hm, exJordanR_e1]
    simp [mgs, hfirst, vsub, vscale, vdot_eq_sum, Finset.sum_range_succ, vget, List.range, List.range.loop]
  rw [hres, sqrtNorm_e0, hlen] at hlt
  exact absurd hlt (not_lt.2 thr2_lt_one.le)

end Ptn.Krylov

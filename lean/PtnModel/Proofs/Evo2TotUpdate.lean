import PtnModel.Proofs.Evo2TotSplit
/-!
# Totality of the shared two-site update (`merge → local step / minimisation → split`)

Invariant of the two-site sweeps for an arbitrary split tolerance `0 ≤ tol < 1`: truncation changes the norm of the
state, so the normalisation clause of `DInv` is replaced by **positivity**:

`PInv H qd s c` : mixed-canonical with centre `c` (`Canon`), the centre tensor is not zero, block sparse (`EvoSparse`).

In a window `(i, i+1)` of such a state
* the merged pair has the Frobenius norm of the centre tensor (`mergedA_frob_L/R`), so the Krylov routine gets a start
  vector of positive norm;
* the local step is unitary (`localStep_norm`) resp. the minimiser is normalised (`minimize_spec`), so the tensor handed to
  `split_mps_tensor` is not zero; it is block sparse w.r.t. the fused charges (`localStep_sparse` / `minimize_sparse` with
  `mergePair_wf`, `mergePairW_sparse`), so the split returns (`splitMps_total`);
* by `split_facts_tol` the new pair keeps the window invariant, one factor is an isometry and the other one is not zero.
-/
set_option linter.unusedSectionVars false

namespace Ptn.Evo
open Ptn Ptn.BondOps Ptn.Ortho Ptn.Env Ptn.Krylov Ptn.Dense Finset

variable {𝕜 : Type} [RCLike 𝕜] [DecidableEq 𝕜]
variable {k : EvoKernels 𝕜 ℝ} {H : MPO 𝕜} {qd : List Int} {numiter : Nat}

/-- positive-norm sweep invariant with centre `c` -/
structure PInv (H : MPO 𝕜) (qd : List Int) (s : Sweep 𝕜) (c : Nat) : Prop where
  can : Canon H qd s c
  pos : 0 < frob3 (getA s c)
  sp : HistWf.EvoSparse H qd s c c

/-- the normalised invariant of the single-site proofs implies the positive-norm invariant -/
theorem TInv.toP (ctx : SweepCtx k H qd numiter) {s : Sweep 𝕜} {c : Nat} {E : ℝ} (h : TInv H qd s c E) : PInv H qd s c :=
  ⟨h.d.can, by rw [centre_frob ctx h.d]; exact one_pos, h.sp⟩

omit [DecidableEq 𝕜] in
/-- the norm oracle vanishes on the empty vector -/
theorem cnorm_nil {dnorm : List 𝕜 → ℝ} (hN : NormContract dnorm) : ¬ 0 < dnorm [] := by
  have h := hN.sq []
  have h0 : sqNorm ([] : List 𝕜) = 0 := by simp [sqNorm]
  rw [h0] at h
  have : dnorm [] = 0 := by
    rcases sq_eq_zero_iff.1 h with h'
    exact h'
  rw [this]
  exact lt_irrefl 0

/-- merged pair of a window whose centre is the left site -/
theorem mergedA_frob_L {s : Sweep 𝕜} {i : Nat} (h : Canon H qd s i) (hi : i + 1 < H.A.length)
    (hH : C04.MPO.Shaped H qd.length) : frob3 (mergedA s i) = frob3 (getA s i) := by
  have h2 := h.toTwoL hi
  obtain ⟨n1, _⟩ := canon_centre h hH
  obtain ⟨c1, _⟩ := canon2_cur h2
  obtain ⟨n2, _⟩ := canon2_centre h2 hH (mergedA_dims h2)
  have := (n2.symm.trans c1.symm).trans n1
  exact_mod_cast this

/-- merged pair of a window whose centre is the right site -/
theorem mergedA_frob_R {s : Sweep 𝕜} {i : Nat} (h : Canon H qd s (i + 1)) (hH : C04.MPO.Shaped H qd.length) :
    frob3 (mergedA s i) = frob3 (getA s (i + 1)) := by
  have h2 := h.toTwoR
  obtain ⟨n1, _⟩ := canon_centre h hH
  obtain ⟨c1, _⟩ := canon2_cur h2
  obtain ⟨n2, _⟩ := canon2_centre h2 hH (mergedA_dims h2)
  have := (n2.symm.trans c1.symm).trans n1
  exact_mod_cast this

omit [DecidableEq 𝕜] in
theorem sparseT4_tab {W : T4 𝕜} {qd qa qb : List Int} (h : SparseT4 W qd qa qb) : SparseT4 W.tab qd qa qb :=
  fun s t a b hs ht ha hb hne => h s t a b hs ht ha hb (by rw [← Env.t4_tab_f W hs ht ha hb]; exact hne)

/-- the data of a window needed by the local two-site map to stay in the charge sector -/
theorem window_sparse (hH : HistWf.HOk H qd) {s : Sweep 𝕜} {i cl cr : Nat} (hsp : HistWf.EvoSparse H qd s cl cr)
    (hi : i + 1 < H.A.length) (hcl : i ≤ cl) (hcr : cr ≤ i + 1) :
    HistWf.BlockSparse (getBL s i) (getQ s i) (H.qD.getD i []) ∧ (getBL s i).d2 = (getBL s i).d0 ∧
    HistWf.BlockSparse (getBR s (i + 1)) (getQ s (i + 2)) (H.qD.getD (i + 2) []) ∧
      (getBR s (i + 1)).d2 = (getBR s (i + 1)).d0 ∧
    SparseT4 (mergedW H i) (QN.flatten2 qd qd) (H.qD.getD i []) (H.qD.getD (i + 2) []) ∧
      (mergedW H i).d0 = (mergedW H i).d1 ∧
    T3Wf (mergedA s i) (QN.flatten2 qd qd) (getQ s i) (getQ s (i + 2)) := by
  obtain ⟨hbl, sql⟩ := hsp.bl i hcl (by omega)
  obtain ⟨hbr, sqr⟩ := hsp.br (i + 1) hcr hi
  obtain ⟨w0, _, w3⟩ := hH.dims i (by omega)
  obtain ⟨v0, v2, _⟩ := hH.dims (i + 1) hi
  refine ⟨hbl, sql, hbr, sqr, ?_, ?_, ?_⟩
  · exact sparseT4_tab (mergePairW_sparse (hH.sp i) (hH.sp (i + 1)) w0 ((hH.sq i).symm.trans w0) v0
      ((hH.sq (i + 1)).symm.trans v0) (w3.trans v2.symm))
  · show (H.A.getD i zeroT4).d0 * (H.A.getD (i + 1) zeroT4).d0 = (H.A.getD i zeroT4).d1 * (H.A.getD (i + 1) zeroT4).d1
    rw [hH.sq i, hH.sq (i + 1)]
  · exact HistWf.T3Wf.tab (mergePair_wf (hsp.site i (by omega)) (hsp.site (i + 1) hi))

/-- **Merge, evolve, split returns** (purely imaginary time argument, tolerance `0 ≤ tol < 1`) and keeps the window
invariant, block sparsity and positivity -/
theorem twoSiteUpdate_ok (ctx : SweepCtx k H qd numiter) (hk : Compress.SvdKernel k.svd)
    (hexp : ∀ x : ℝ, ‖k.dexp (RCLike.I * (x : 𝕜))‖ = 1) (hm : 1 ≤ numiter) (hH : HistWf.HOk H qd)
    {s : Sweep 𝕜} {i cl cr : Nat} (h : Canon2 H qd s i) (hsp : HistWf.EvoSparse H qd s cl cr) (hcl : i ≤ cl)
    (hcr : cr ≤ i + 1) (hpos : 0 < frob3 (mergedA s i)) {δ : 𝕜} {t : ℝ} (hδ : -δ = RCLike.I * (t : 𝕜))
    {distr : Nat} (hdistr : distr ≤ 1) {tol : ℝ} (ht0 : 0 ≤ tol) (ht1 : tol < 1) :
    ∃ s', twoSiteUpdate k H qd δ numiter tol distr s i = .ok s' ∧ Canon2 H qd s' i ∧
      HistWf.EvoSparse H qd s' (min cl i) (max cr (i + 1)) ∧
      (distr = 1 → LeftIso (getA s' i) ∧ 0 < frob3 (getA s' (i + 1))) ∧
      (distr = 0 → RightIso (getA s' (i + 1)) ∧ 0 < frob3 (getA s' i)) ∧ s'.BL = s.BL ∧ s'.BR = s.BR := by
  have hi := h.hi
  obtain ⟨hF, hHerm⟩ := canon2_local h ctx.hH ctx.herm
  obtain ⟨m0, m1, m2⟩ := mergedA_dims h
  rw [← m0, ← m1, ← m2] at hF hHerm
  obtain ⟨hbl, sql, hbr, sqr, hW, sW, hA⟩ := window_sparse hH hsp hi hcl hcr
  -- 1. the local step
  obtain ⟨Am1, h1⟩ := localStep_isOk (k := k) (L := getBL s i) (R := getBR s (i + 1)) (W := mergedW H i)
    (A := mergedA s i) ctx.norm (cnorm_pos_flat3 ctx.norm hpos) hm (ctx.eigh _ _) δ
  obtain ⟨a0, a1, a2, hfrob⟩ := localStep_norm ctx.norm hF hHerm (ctx.eigh _ _) hexp hδ h1
  obtain ⟨hsA, _⟩ := HistWf.localStep_sparse h1 hbl hbr hW sW sql sqr hA.sp
  -- 2. the split
  have hqi := h.wf.qpos i (by omega)
  have hqi2 := h.wf.qpos (i + 2) (by omega)
  obtain ⟨A0, A1, qb, h2⟩ := splitMps_total hk k.dsqrt (A := Am1) (qd := qd) (qa := getQ s i) (qc := getQ s (i + 2))
    (a0.trans m0) (a1.trans m1) (a2.trans m2) hsA ctx.dpos hqi hqi2 (Nat.le_succ_of_le hdistr) tol
  have F := split_facts_tol hk ctx.dpos (by rw [a1, m1]; exact hqi) (by rw [a2, m2]; exact hqi2)
    (by rw [hfrob]; exact hpos) ht0 ht1 h2
  obtain ⟨hcan, _⟩ := canon2_update h (X' := A0) (Y' := A1) (qb := qb)
    ⟨F.a0.1, F.a0.2.1.trans (a1.trans m1), F.a0.2.2⟩ ⟨F.a1.1, F.a1.2.1, F.a1.2.2.trans (a2.trans m2)⟩ F.pos
  obtain ⟨g0, g1⟩ := getA_pair (s := s) (i := i) h.wf.sizeA hi A0 A1 (s.qD.setIfInBounds (i + 1) qb) s.BL s.BR
  have hrun : twoSiteUpdate k H qd δ numiter tol distr s i =
      .ok ⟨(s.A.setIfInBounds i A0).setIfInBounds (i + 1) A1, s.qD.setIfInBounds (i + 1) qb, s.BL, s.BR⟩ := by
    unfold twoSiteUpdate
    rw [bind_ok]
    refine ⟨Am1, h1, ?_⟩
    rw [bind_ok]
    exact ⟨(A0, A1, qb), h2, rfl⟩
  refine ⟨_, hrun, hcan,
    HistWf.twoSiteUpdate_sparse (fun B => hk.svd.shape B) (cnorm_nil ctx.norm) hsp hi hrun, ?_, ?_, rfl, rfl⟩
  · intro hd; rw [g0, g1]; exact ⟨F.liso hd, F.wpos1 hd⟩
  · intro hd; rw [g0, g1]; exact ⟨F.riso hd, F.wpos0 hd⟩

/-- **Merge, minimise, split returns** (tolerance `0 ≤ tol < 1`) and keeps the window invariant, block sparsity and
positivity -/
theorem dmrg2Update_ok (ctx : SweepCtx k H qd numiter) (hk : Compress.SvdKernel k.svd) (hm : 1 ≤ numiter)
    (hH : HistWf.HOk H qd) {s : Sweep 𝕜} {i cl cr : Nat} (h : Canon2 H qd s i) (hsp : HistWf.EvoSparse H qd s cl cr)
    (hcl : i ≤ cl) (hcr : cr ≤ i + 1) (hpos : 0 < frob3 (mergedA s i))
    {distr : Nat} (hdistr : distr ≤ 1) {tol : ℝ} (ht0 : 0 ≤ tol) (ht1 : tol < 1) :
    ∃ s' en, dmrg2Update k H qd numiter tol distr s i = .ok (s', en) ∧ Canon2 H qd s' i ∧
      HistWf.EvoSparse H qd s' (min cl i) (max cr (i + 1)) ∧
      (distr = 1 → LeftIso (getA s' i) ∧ 0 < frob3 (getA s' (i + 1))) ∧
      (distr = 0 → RightIso (getA s' (i + 1)) ∧ 0 < frob3 (getA s' i)) ∧ s'.BL = s.BL ∧ s'.BR = s.BR := by
  have hi := h.hi
  obtain ⟨hF, hHerm⟩ := canon2_local h ctx.hH ctx.herm
  obtain ⟨m0, m1, m2⟩ := mergedA_dims h
  rw [← m0, ← m1, ← m2] at hF hHerm
  obtain ⟨hbl, sql, hbr, sqr, hW, sW, hA⟩ := window_sparse hH hsp hi hcl hcr
  -- 1. the local eigenvalue problem
  obtain ⟨⟨en, Aopt⟩, h1⟩ := minimize_isOk (k := k) (L := getBL s i) (R := getBR s (i + 1)) (W := mergedW H i)
    (A := mergedA s i) ctx.norm (cnorm_pos_flat3 ctx.norm hpos) hm (ctx.eigh _ _)
  obtain ⟨a0, a1, a2, hfrob, _⟩ := minimize_spec ctx.norm hF hHerm (ctx.eigh _ _) h1
  obtain ⟨hsA, _⟩ := HistWf.minimize_sparse h1 hbl hbr hW sW sql sqr hA.sp
  -- 2. the split
  have hqi := h.wf.qpos i (by omega)
  have hqi2 := h.wf.qpos (i + 2) (by omega)
  obtain ⟨A0, A1, qb, h2⟩ := splitMps_total hk k.dsqrt (A := Aopt) (qd := qd) (qa := getQ s i) (qc := getQ s (i + 2))
    (a0.trans m0) (a1.trans m1) (a2.trans m2) hsA ctx.dpos hqi hqi2 (Nat.le_succ_of_le hdistr) tol
  have F := split_facts_tol hk ctx.dpos (by rw [a1, m1]; exact hqi) (by rw [a2, m2]; exact hqi2)
    (by rw [hfrob]; exact one_pos) ht0 ht1 h2
  obtain ⟨hcan, _⟩ := canon2_update h (X' := A0) (Y' := A1) (qb := qb)
    ⟨F.a0.1, F.a0.2.1.trans (a1.trans m1), F.a0.2.2⟩ ⟨F.a1.1, F.a1.2.1, F.a1.2.2.trans (a2.trans m2)⟩ F.pos
  obtain ⟨g0, g1⟩ := getA_pair (s := s) (i := i) h.wf.sizeA hi A0 A1 (s.qD.setIfInBounds (i + 1) qb) s.BL s.BR
  have hrun : dmrg2Update k H qd numiter tol distr s i =
      .ok (⟨(s.A.setIfInBounds i A0).setIfInBounds (i + 1) A1, s.qD.setIfInBounds (i + 1) qb, s.BL, s.BR⟩, en) := by
    unfold dmrg2Update
    rw [bind_ok]
    refine ⟨(en, Aopt), h1, ?_⟩
    dsimp only
    rw [bind_ok]
    exact ⟨(A0, A1, qb), h2, rfl⟩
  refine ⟨_, en, hrun, hcan,
    HistWf.dmrg2Update_sparse (fun B => hk.svd.shape B) (cnorm_nil ctx.norm) hsp hi hrun, ?_, ?_, rfl, rfl⟩
  · intro hd; rw [g0, g1]; exact ⟨F.liso hd, F.wpos1 hd⟩
  · intro hd; rw [g0, g1]; exact ⟨F.riso hd, F.wpos0 hd⟩

end Ptn.Evo

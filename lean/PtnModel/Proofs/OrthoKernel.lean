import PtnModel.Proofs.OrthoReal
/-!
# A dense QR kernel with real diagonal over every `RCLike` field

`realQR B` rescales the columns of `Q` and the rows of `R` of `QrExists.fullQR B` by the phases of the diagonal
entries of `R`: it satisfies the contract of C11 for all matrices and its `R` has a real (non-negative) diagonal.
Non-vacuity of the kernel hypothesis of C01 over `ℝ` and `ℂ`.
-/
namespace Ptn.Ortho
open Ptn.BondOps Finset

variable {𝕜 : Type} [RCLike 𝕜]

/-- the phase `z / |z|` (`1` for `z = 0`) -/
noncomputable def phase (z : 𝕜) : 𝕜 := if z = 0 then 1 else z / (‖z‖ : 𝕜)

theorem phase_unit (z : 𝕜) : phase z * star (phase z) = 1 := by
  unfold phase
  split
  · simp
  · rename_i hz
    have hn : ((‖z‖ : ℝ) : 𝕜) ≠ 0 := by
      rw [Ne, RCLike.ofReal_eq_zero, norm_eq_zero]; exact hz
    have h := RCLike.mul_conj z
    rw [star_div₀, RCLike.star_def, RCLike.conj_ofReal, div_mul_div_comm, h, sq]
    exact div_self (mul_ne_zero hn hn)

theorem phase_conj_mul (z : 𝕜) : star (phase z) * z = ((‖z‖ : ℝ) : 𝕜) := by
  unfold phase
  split
  · rename_i hz; subst hz; simp
  · rename_i hz
    have hn : ((‖z‖ : ℝ) : 𝕜) ≠ 0 := by
      rw [Ne, RCLike.ofReal_eq_zero, norm_eq_zero]; exact hz
    have h := RCLike.conj_mul z
    rw [star_div₀, RCLike.star_def, RCLike.conj_ofReal, div_mul_eq_mul_div, h, sq, mul_div_assoc, div_self hn, mul_one]

/-- `fullQR` with the phases of the diagonal of `R` moved into `Q` -/
noncomputable def realQR (B : Mat 𝕜) : Mat 𝕜 × Mat 𝕜 :=
  (⟨(QrExists.fullQR B).1.m, (QrExists.fullQR B).1.n,
      fun i p => (QrExists.fullQR B).1.f i p * phase ((QrExists.fullQR B).2.f p p)⟩,
    ⟨(QrExists.fullQR B).2.m, (QrExists.fullQR B).2.n,
      fun p j => star (phase ((QrExists.fullQR B).2.f p p)) * (QrExists.fullQR B).2.f p j⟩)

theorem realQR_contract : C11.QRContract (realQR : Mat 𝕜 → Mat 𝕜 × Mat 𝕜) := by
  refine ⟨fun B _ _ => QrExists.fullQR_shape B, ?_, ?_⟩
  · intro B i j hi hj
    rw [← QrExists.fullQR_product B hi hj, Mat.mul_f, Mat.mul_f]
    refine Finset.sum_congr rfl fun p _ => ?_
    show (QrExists.fullQR B).1.f i p * phase ((QrExists.fullQR B).2.f p p) *
      (star (phase ((QrExists.fullQR B).2.f p p)) * (QrExists.fullQR B).2.f p j) = _
    rw [mul_assoc, ← mul_assoc (phase _), phase_unit, one_mul]
  · intro B p p' hp hp'
    have h := QrExists.fullQR_iso B hp hp'
    have e : ∀ i ∈ range B.m, star ((realQR B).1.f i p) * (realQR B).1.f i p' =
        (star (phase ((QrExists.fullQR B).2.f p p)) * phase ((QrExists.fullQR B).2.f p' p')) *
          (star ((QrExists.fullQR B).1.f i p) * (QrExists.fullQR B).1.f i p') := by
      intro i _
      show star ((QrExists.fullQR B).1.f i p * phase ((QrExists.fullQR B).2.f p p)) *
        ((QrExists.fullQR B).1.f i p' * phase ((QrExists.fullQR B).2.f p' p')) = _
      rw [star_mul']
      ring
    rw [Finset.sum_congr rfl e, ← Finset.mul_sum, h]
    by_cases hpp : p = p'
    · subst hpp
      rw [if_pos rfl, mul_one, mul_comm, phase_unit]
    · rw [if_neg hpp, mul_zero]

theorem realQR_realDiag : RealDiag (realQR : Mat 𝕜 → Mat 𝕜 × Mat 𝕜) := by
  intro B p _ _
  show star (star (phase ((QrExists.fullQR B).2.f p p)) * (QrExists.fullQR B).2.f p p) =
    star (phase ((QrExists.fullQR B).2.f p p)) * (QrExists.fullQR B).2.f p p
  rw [phase_conj_mul, RCLike.star_def, RCLike.conj_ofReal]

end Ptn.Ortho

import PtnModel.Proofs.OgSimplify
/-!
# The union of two graphs with identified terminals (the core of `add`)

`unionG g o`: the nodes of `g` (its terminal nodes additionally list the edges of `o`'s terminal nodes), the
non-terminal nodes of `o`, and the edges of both.  Under `UnionOk` (both structurally valid, same terminal ids,
otherwise disjoint ids) the union is structurally valid, denotes the sum, and has unique distances if both graphs
have and their lengths agree.
-/
set_option linter.unusedSectionVars false
namespace Ptn.Og
open List Rw
variable {κ : Type} [CommRing κ] [DecidableEq κ]

/-- the terminal node of `g` in direction `d` additionally lists the upstream edges of `o`'s terminal node -/
def extNode (g o : Graph κ) (k : Int) (n : Node) : Node :=
  if k = g.term false then
    n.setEids true (n.eids true ++ ((dGet? o.nodes (g.term false)).map (·.eids true)).getD [])
  else if k = g.term true then
    n.setEids false (n.eids false ++ ((dGet? o.nodes (g.term true)).map (·.eids false)).getD [])
  else n

def unionG (g o : Graph κ) : Graph κ :=
  { nodes := (g.nodes.map fun p => (p.1, extNode g o p.1 p.2)) ++
      o.nodes.filter (fun p => !(p.1 == g.term false) && !(p.1 == g.term true)),
    edges := g.edges ++ o.edges,
    nidTerminal := g.nidTerminal }

structure UnionOk (g o : Graph κ) : Prop where
  hg : SValid g
  ho : SValid o
  hterm : o.nidTerminal = g.nidTerminal
  ht : g.term false ≠ g.term true
  hnodes : ∀ k, k ∈ dKeys g.nodes → k ∈ dKeys o.nodes → k = g.term false ∨ k = g.term true
  hedges : ∀ k, k ∈ dKeys g.edges → k ∉ dKeys o.edges

/-! ## path sums of the union -/

/-- path sums over the concatenation of two edge lists that only meet in the end node -/
theorem denE_append_left (A B : List (Edge κ)) (t : Int)
    (hB : ∀ e ∈ A, ∀ e' ∈ B, e'.nids.1 = e.nids.2 → e.nids.2 = t) :
    ∀ (w : Word) (x : Int), (x = t ∨ ∀ e' ∈ B, e'.nids.1 ≠ x) → denE (A ++ B) t w x = denE A t w x := by
  intro w
  induction w with
  | nil => intro x _; simp [denE_nil]
  | cons o w ih =>
    intro x hx
    rw [denE_cons, denE_cons]
    by_cases hxt : x = t
    · simp [hxt]
    · simp only [hxt, if_false]
      have hx' : ∀ e' ∈ B, e'.nids.1 ≠ x := by
        rcases hx with hx | hx
        · exact absurd hx hxt
        · exact hx
      rw [map_append, sum_append]
      have zB : (B.map fun e => if e.nids.1 = x then opc e o * denE (A ++ B) t w e.nids.2 else 0).sum = 0 :=
        sum_map_eq_zero _ _ (fun e he => by simp [hx' e he])
      rw [zB, add_zero]
      apply sum_map_congr
      intro e he
      by_cases hc : e.nids.1 = x
      · simp only [hc, if_true]
        rw [ih]
        by_cases hh : e.nids.2 = t
        · exact Or.inl hh
        · exact Or.inr (fun e' he' hq => hh (hB e he e' he' hq))
      · simp [hc]

theorem denE_append_comm (A B : List (Edge κ)) (t : Int) (w : Word) (x : Int) :
    denE (A ++ B) t w x = denE (B ++ A) t w x := by
  apply denE_congr_perm
  exact (perm_append_comm).map _

/-- **the union denotes the sum** (path-sum form): from a start node `s ≠ t` -/
theorem denE_append_sum (A B : List (Edge κ)) (s t : Int) (hst : s ≠ t)
    (hAB : ∀ e ∈ A, ∀ e' ∈ B, e'.nids.1 = e.nids.2 → e.nids.2 = t)
    (hBA : ∀ e ∈ B, ∀ e' ∈ A, e'.nids.1 = e.nids.2 → e.nids.2 = t) (w : Word) :
    denE (A ++ B) t w s = denE A t w s + denE B t w s := by
  cases w with
  | nil => simp [denE_nil, hst]
  | cons o w =>
    rw [denE_cons, denE_cons, denE_cons]
    simp only [hst, if_false]
    rw [map_append, sum_append]
    congr 1
    · apply sum_map_congr
      intro e he
      by_cases hc : e.nids.1 = s
      · simp only [hc, if_true]
        rw [denE_append_left A B t hAB]
        by_cases hh : e.nids.2 = t
        · exact Or.inl hh
        · exact Or.inr (fun e' he' hq => hh (hAB e he e' he' hq))
      · simp [hc]
    · apply sum_map_congr
      intro e he
      by_cases hc : e.nids.1 = s
      · simp only [hc, if_true]
        rw [denE_append_comm, denE_append_left B A t hBA]
        by_cases hh : e.nids.2 = t
        · exact Or.inl hh
        · exact Or.inr (fun e' he' hq => hh (hBA e he e' he' hq))
      · simp [hc]


/-! ## the union is structurally valid -/

theorem dGet?_map_key {β γ : Type} (f : Int → β → γ) (dd : List (Int × β)) (k : Int) :
    dGet? (dd.map fun p => (p.1, f p.1 p.2)) k = (dGet? dd k).map (f k) := by
  induction dd with
  | nil => simp [dGet?_nil]
  | cons p dd ih =>
    obtain ⟨k0, v0⟩ := p
    rw [map_cons, dGet?_cons, dGet?_cons]
    by_cases h : k = k0
    · subst h; simp
    · simp [h, ih]

theorem dGet?_filter_key {β : Type} (P : Int → Bool) (dd : List (Int × β)) (k : Int) :
    dGet? (dd.filter fun p => P p.1) k = if P k then dGet? dd k else none := by
  induction dd with
  | nil => simp [dGet?_nil]
  | cons p dd ih =>
    obtain ⟨k0, v0⟩ := p
    by_cases hp : P k0 = true
    · rw [filter_cons_of_pos (by simpa using hp), dGet?_cons, dGet?_cons, ih]
      by_cases h : k = k0
      · subst h; simp [hp]
      · simp [h]
    · rw [filter_cons_of_neg (by simpa using hp), dGet?_cons, ih]
      by_cases h : k = k0
      · subst h; simp [hp]
      · simp [h]

theorem mem_filter_key {β : Type} (P : Int → Bool) {dd : List (Int × β)} {k : Int} {v : β} :
    (k, v) ∈ dd.filter (fun p => P p.1) ↔ (k, v) ∈ dd ∧ P k = true := by
  simp [mem_filter]

section Union
variable {g o : Graph κ}

theorem extNode_nid (k : Int) (n : Node) : (extNode g o k n).nid = n.nid := by
  unfold extNode; split <;> [simp; (split <;> simp)]

theorem extNode_sub (k : Int) (n : Node) (d : Bool) {eid : Int} (h : eid ∈ n.eids d) :
    eid ∈ (extNode g o k n).eids d := by
  unfold extNode
  split
  · rw [Node.setEids_eids]; split
    · rename_i q; subst q; exact mem_append_left _ h
    · exact h
  · split
    · rw [Node.setEids_eids]; split
      · rename_i q; subst q; exact mem_append_left _ h
      · exact h
    · exact h

/-- the far-side lists of the terminal nodes, and all lists of other nodes, are untouched -/
theorem extNode_eids_same (U : UnionOk g o) (k : Int) (n : Node) (d : Bool)
    (h : ¬ (k = g.term (!d))) : (extNode g o k n).eids d = n.eids d := by
  unfold extNode
  cases d
  · -- eids false is only changed at term true
    simp only [Bool.not_false] at h
    split
    · rw [Node.setEids_eids]; simp
    · simp [h]
  · simp only [Bool.not_true] at h
    simp [h]
    split
    · rw [Node.setEids_eids]; simp
    · rfl

theorem extNode_eids_term (U : UnionOk g o) (d : Bool) (n : Node) :
    (extNode g o (g.term (!d)) n).eids d =
      n.eids d ++ ((dGet? o.nodes (g.term (!d))).map (·.eids d)).getD [] := by
  unfold extNode
  cases d
  · simp only [Bool.not_false]
    have : ¬ g.term true = g.term false := fun q => U.ht q.symm
    simp [this, Node.setEids_eids]
  · simp only [Bool.not_true]
    simp [Node.setEids_eids]

theorem union_nodes_mem (U : UnionOk g o) {k : Int} {n' : Node} (h : (k, n') ∈ (unionG g o).nodes) :
    (∃ n, (k, n) ∈ g.nodes ∧ n' = extNode g o k n) ∨
    ((k, n') ∈ o.nodes ∧ k ≠ g.term false ∧ k ≠ g.term true) := by
  unfold unionG at h
  simp only [mem_append, mem_map, Prod.mk.injEq, Prod.exists] at h
  rcases h with ⟨a, b, hab, rfl, rfl⟩ | h
  · exact Or.inl ⟨b, hab, rfl⟩
  · right
    rw [mem_filter] at h
    obtain ⟨h1, h2⟩ := h
    simp only [Bool.and_eq_true, Bool.not_eq_eq_eq_not, Bool.not_true, beq_eq_false_iff_ne] at h2
    exact ⟨h1, h2.1, h2.2⟩

theorem union_nodes_left (U : UnionOk g o) {k : Int} {n : Node} (h : (k, n) ∈ g.nodes) :
    (k, extNode g o k n) ∈ (unionG g o).nodes := by
  unfold unionG
  exact mem_append_left _ (mem_map.2 ⟨(k, n), h, rfl⟩)

theorem union_nodes_right (U : UnionOk g o) {k : Int} {n : Node} (h : (k, n) ∈ o.nodes)
    (h0 : k ≠ g.term false) (h1 : k ≠ g.term true) : (k, n) ∈ (unionG g o).nodes := by
  unfold unionG
  apply mem_append_right
  rw [mem_filter]
  exact ⟨h, by simp [h0, h1]⟩

theorem o_term (U : UnionOk g o) (d : Bool) : o.term d = g.term d := by
  cases d <;> simp [Graph.term, U.hterm]

theorem svalid_union (U : UnionOk g o) : SValid (unionG g o) := by
  have hg := U.hg
  have ho := U.ho
  have keysA : dKeys (g.nodes.map fun p => (p.1, extNode g o p.1 p.2)) = dKeys g.nodes := by
    simp [dKeys, map_map, Function.comp]
  refine ⟨?_, ?_, ?_, ?_, ?_, ?_, ?_, ?_, ?_⟩
  · -- node keys
    unfold unionG
    rw [dKeys_append, keysA]
    refine Nodup.append hg.nodesKeys (ho.nodesKeys.sublist ((filter_sublist).map _)) ?_
    intro k hk1 hk2
    obtain ⟨⟨k', n⟩, hp, rfl⟩ := mem_map.1 hk2
    rw [mem_filter] at hp
    obtain ⟨hp1, hp2⟩ := hp
    simp only [Bool.and_eq_true, Bool.not_eq_eq_eq_not, Bool.not_true, beq_eq_false_iff_ne] at hp2
    rcases U.hnodes _ hk1 (mem_map.2 ⟨_, hp1, rfl⟩) with q | q
    · exact hp2.1 q
    · exact hp2.2 q
  · unfold unionG
    rw [dKeys_append]
    refine Nodup.append hg.edgesKeys ho.edgesKeys ?_
    intro k hk1 hk2
    exact U.hedges k hk1 hk2
  · intro k n' hn'
    rcases union_nodes_mem U hn' with ⟨n, hn, rfl⟩ | ⟨hn, _, _⟩
    · rw [extNode_nid]; exact hg.nodeKey k n hn
    · exact ho.nodeKey k n' hn
  · intro k e he
    unfold unionG at he
    rcases mem_append.1 he with he | he
    · exact hg.edgeKey k e he
    · exact ho.edgeKey k e he
  · intro k n' hn' d
    rcases union_nodes_mem U hn' with ⟨n, hn, rfl⟩ | ⟨hn, _, _⟩
    · by_cases hk : k = g.term (!d)
      · subst hk
        rw [extNode_eids_term U]
        cases hl : dGet? o.nodes (g.term (!d)) with
        | none => simpa using hg.eidsNodup _ n hn d
        | some m =>
          simp only [Option.map_some, Option.getD_some]
          have hm := mem_of_dGet?_eq_some hl
          refine Nodup.append (hg.eidsNodup _ n hn d) (ho.eidsNodup _ m hm d) ?_
          intro x hx1 hx2
          obtain ⟨e1, he1, _⟩ := hg.nodeEdge _ n hn d x hx1
          obtain ⟨e2, he2, _⟩ := ho.nodeEdge _ m hm d x hx2
          exact U.hedges x (mem_map.2 ⟨_, he1, rfl⟩) (mem_map.2 ⟨_, he2, rfl⟩)
      · rw [extNode_eids_same U k n d hk]; exact hg.eidsNodup k n hn d
    · exact ho.eidsNodup k n' hn d
  · intro k n' hn' d eid heid
    rcases union_nodes_mem U hn' with ⟨n, hn, rfl⟩ | ⟨hn, _, _⟩
    · by_cases hk : k = g.term (!d)
      · subst hk
        rw [extNode_eids_term U] at heid
        rcases mem_append.1 heid with heid | heid
        · obtain ⟨e, he, hx⟩ := hg.nodeEdge _ n hn d eid heid
          exact ⟨e, by unfold unionG; exact mem_append_left _ he, hx⟩
        · cases hl : dGet? o.nodes (g.term (!d)) with
          | none => rw [hl] at heid; simp at heid
          | some m =>
            rw [hl] at heid
            simp only [Option.map_some, Option.getD_some] at heid
            obtain ⟨e, he, hx⟩ := ho.nodeEdge _ m (mem_of_dGet?_eq_some hl) d eid heid
            exact ⟨e, by unfold unionG; exact mem_append_right _ he, hx⟩
      · rw [extNode_eids_same U k n d hk] at heid
        obtain ⟨e, he, hx⟩ := hg.nodeEdge k n hn d eid heid
        exact ⟨e, by unfold unionG; exact mem_append_left _ he, hx⟩
    · obtain ⟨e, he, hx⟩ := ho.nodeEdge k n' hn d eid heid
      exact ⟨e, by unfold unionG; exact mem_append_right _ he, hx⟩
  · intro k e he d
    unfold unionG at he
    rcases mem_append.1 he with he | he
    · obtain ⟨n, hn, hx⟩ := hg.edgeNode k e he d
      exact ⟨_, union_nodes_left U hn, extNode_sub _ _ _ hx⟩
    · obtain ⟨n, hn, hx⟩ := ho.edgeNode k e he d
      by_cases h0 : e.nid d = g.term false
      · -- an edge of `o` at the start terminal: it leaves it
        have hd : d = false := by
          cases d
          · rfl
          · exfalso
            have := ho.no_in_term he
            rw [o_term U] at this
            exact this (by simpa [Edge.nid] using h0)
        subst hd
        obtain ⟨n0, hn0, _⟩ := hg.termNode false
        refine ⟨_, by rw [h0]; exact union_nodes_left U hn0, ?_⟩
        have := extNode_eids_term U true n0
        simp only [Bool.not_true] at this
        simp only [Bool.not_false]
        rw [this]
        apply mem_append_right
        rw [h0] at hn
        rw [dGet?_eq_some_of_mem ho.nodesKeys hn]
        simpa using hx
      · by_cases h1 : e.nid d = g.term true
        · have hd : d = true := by
            cases d
            · exfalso
              have := ho.no_out_term he
              rw [o_term U] at this
              exact this (by simpa [Edge.nid] using h1)
            · rfl
          subst hd
          obtain ⟨n1, hn1, _⟩ := hg.termNode true
          refine ⟨_, by rw [h1]; exact union_nodes_left U hn1, ?_⟩
          have := extNode_eids_term U false n1
          simp only [Bool.not_false] at this
          simp only [Bool.not_true]
          rw [this]
          apply mem_append_right
          rw [h1] at hn
          rw [dGet?_eq_some_of_mem ho.nodesKeys hn]
          simpa using hx
        · exact ⟨n, union_nodes_right U hn h0 h1, hx⟩
  · intro d
    obtain ⟨n, hn, hx⟩ := hg.termNode d
    refine ⟨extNode g o (g.term d) n, ?_⟩
    have : ¬ g.term d = g.term (!d) := by
      cases d
      · exact U.ht
      · exact fun q => U.ht q.symm
    have ht : (unionG g o).term d = g.term d := by cases d <;> rfl
    rw [ht]
    refine ⟨union_nodes_left U hn, ?_⟩
    rw [extNode_eids_same U _ n d this]; exact hx
  · intro k e he
    unfold unionG at he
    rcases mem_append.1 he with he | he
    · exact hg.opicsSorted k e he
    · exact ho.opicsSorted k e he


/-- **the union denotes the sum of the two operators** -/
theorem denF_union (U : UnionOk g o) (w : Word) : (unionG g o).denF w = g.denF w + o.denF w := by
  have hg := U.hg
  have ho := U.ho
  rw [denF_eq_denE (svalid_union U), denF_eq_denE hg, denF_eq_denE ho, o_term U, o_term U]
  have hE : (unionG g o).edgeList = g.edgeList ++ o.edgeList := by simp [Graph.edgeList, unionG]
  have ht : ∀ d, (unionG g o).term d = g.term d := fun d => by cases d <;> rfl
  rw [hE, ht, ht]
  have key : ∀ {a b : Graph κ}, SValid a → SValid b → (∀ d, b.term d = a.term d) →
      (∀ k, k ∈ dKeys a.nodes → k ∈ dKeys b.nodes → k = a.term false ∨ k = a.term true) →
      ∀ e ∈ a.edgeList, ∀ e' ∈ b.edgeList, e'.nids.1 = e.nids.2 → e.nids.2 = a.term true := by
    intro a b ha hb hterm hn e he e' he' hq
    obtain ⟨⟨k, e0⟩, hp, rfl⟩ := mem_map.1 he
    obtain ⟨⟨k', e0'⟩, hp', rfl⟩ := mem_map.1 he'
    obtain ⟨n, hn1, _⟩ := ha.edgeNode k e0 hp true
    obtain ⟨n', hn1', _⟩ := hb.edgeNode k' e0' hp' false
    have h1 : e0.nids.2 ∈ dKeys a.nodes := mem_map.2 ⟨_, hn1, by simp [Edge.nid]⟩
    have h2 : e0.nids.2 ∈ dKeys b.nodes := by
      have : e0'.nid false ∈ dKeys b.nodes := mem_map.2 ⟨_, hn1', rfl⟩
      simp only [Edge.nid, Bool.false_eq_true, if_false] at this
      simp only at hq
      rw [hq] at this; exact this
    rcases hn _ h1 h2 with q | q
    · exact absurd q (ha.no_in_term hp)
    · exact q
  apply denE_append_sum _ _ _ _ U.ht
  · exact key hg ho (o_term U) U.hnodes
  · have := key ho hg (fun d => (o_term U d).symm)
      (fun k h1 h2 => by rw [o_term U, o_term U]; exact U.hnodes k h2 h1)
    intro e he e' he' hq
    rw [← o_term U]; exact this e he e' he' hq

/-! ## unique distances in the union -/

theorem kid_union (U : UnionOk g o) {d : Bool} {x c : Int} (h : Kid (unionG g o) d x c) :
    Kid g d x c ∨ Kid o d x c := by
  have hg := U.hg
  have ho := U.ho
  have hU := svalid_union U
  obtain ⟨n', eid, e, hn', he, hl, hc⟩ := h
  have hmn := mem_of_dGet?_eq_some hn'
  have hme := mem_of_dGet?_eq_some hl
  have hme' : (eid, e) ∈ g.edges ∨ (eid, e) ∈ o.edges := by
    unfold unionG at hme; exact mem_append.1 hme
  -- an edge id listed by a node of one graph belongs to that graph's edge dictionary
  have inG : ∀ {e0 : Edge κ}, (eid, e0) ∈ g.edges → (eid, e) ∈ g.edges := by
    intro e0 h0
    rcases hme' with q | q
    · exact q
    · exact absurd (mem_map.2 ⟨_, q, rfl⟩) (U.hedges eid (mem_map.2 ⟨_, h0, rfl⟩))
  have inO : ∀ {e0 : Edge κ}, (eid, e0) ∈ o.edges → (eid, e) ∈ o.edges := by
    intro e0 h0
    rcases hme' with q | q
    · exact absurd (mem_map.2 ⟨_, h0, rfl⟩) (U.hedges eid (mem_map.2 ⟨_, q, rfl⟩))
    · exact q
  rcases union_nodes_mem U hmn with ⟨n, hn, rfl⟩ | ⟨hn, _, _⟩
  · by_cases hk : x = g.term (!(!d))
    · subst hk
      rw [extNode_eids_term U] at he
      rcases mem_append.1 he with he | he
      · obtain ⟨e0, he0, _⟩ := hg.nodeEdge _ n hn (!d) eid he
        exact Or.inl ⟨n, eid, e, dGet?_eq_some_of_mem hg.nodesKeys hn, he,
          dGet?_eq_some_of_mem hg.edgesKeys (inG he0), hc⟩
      · cases hlo : dGet? o.nodes (g.term (!(!d))) with
        | none => rw [hlo] at he; simp at he
        | some m =>
          rw [hlo] at he
          simp only [Option.map_some, Option.getD_some] at he
          obtain ⟨e0, he0, _⟩ := ho.nodeEdge _ m (mem_of_dGet?_eq_some hlo) (!d) eid he
          exact Or.inr ⟨m, eid, e, hlo, he, dGet?_eq_some_of_mem ho.edgesKeys (inO he0), hc⟩
    · rw [extNode_eids_same U x n (!d) hk] at he
      obtain ⟨e0, he0, _⟩ := hg.nodeEdge _ n hn (!d) eid he
      exact Or.inl ⟨n, eid, e, dGet?_eq_some_of_mem hg.nodesKeys hn, he,
        dGet?_eq_some_of_mem hg.edgesKeys (inG he0), hc⟩
  · obtain ⟨e0, he0, _⟩ := ho.nodeEdge _ n' hn (!d) eid he
    exact Or.inr ⟨n', eid, e, dGet?_eq_some_of_mem ho.nodesKeys hn, he,
      dGet?_eq_some_of_mem ho.edgesKeys (inO he0), hc⟩

/-- the only node from which the BFS of one graph can continue in the other graph is the start terminal -/
theorem reach_cross {a b : Graph κ} (ha : SValid a) (hb : SValid b) (hLa : ∀ d, LevelFun a d)
    (hterm : ∀ d, b.term d = a.term d)
    (hn : ∀ k, k ∈ dKeys a.nodes → k ∈ dKeys b.nodes → k = a.term false ∨ k = a.term true)
    {d : Bool} {j : Nat} {x y : Int} (hr : ReachFrom a d (a.term d) j x) (hk : Kid b d x y) :
    x = a.term d ∧ j = 0 := by
  have h1 := reach_mem_keys ha (term_mem_keys ha d) hr
  obtain ⟨n, eid, e, hnb, he, _, _⟩ := hk
  have h2 : x ∈ dKeys b.nodes := dGet?_some_mem_keys hnb
  have hx : x = a.term d := by
    have hcases : x = a.term d ∨ x = a.term (!d) := by
      rcases hn x h1 h2 with q | q <;> cases d <;> simp_all
    rcases hcases with q | q
    · exact q
    · exfalso
      obtain ⟨n', hn', hemp⟩ := hb.termNode (!d)
      rw [hterm, ← q] at hn'
      rw [dGet?_eq_some_of_mem hb.nodesKeys hn'] at hnb
      cases hnb
      rw [hemp] at he
      simp at he
  refine ⟨hx, ?_⟩
  subst hx
  exact (hLa d _ _ _ (ReachFrom.refl _) hr).symm

theorem reach_union (U : UnionOk g o) (hLg : ∀ d, LevelFun g d) (hLo : ∀ d, LevelFun o d) {d : Bool} :
    ∀ {j : Nat} {y : Int}, ReachFrom (unionG g o) d (g.term d) j y →
      ReachFrom g d (g.term d) j y ∨ ReachFrom o d (g.term d) j y := by
  intro j
  induction j with
  | zero => intro y hr; rw [hr.zero]; exact Or.inl (ReachFrom.refl _)
  | succ j ih =>
    intro y hr
    obtain ⟨x, hx, hk⟩ := hr.last
    have hto : o.term d = g.term d := o_term U d
    rcases ih hx with rg | ro <;> rcases kid_union U hk with kg | ko
    · exact Or.inl (rg.snoc' kg)
    · obtain ⟨hxt, hj⟩ := reach_cross U.hg U.ho hLg (o_term U) U.hnodes rg ko
      subst hxt; subst hj
      exact Or.inr ((ReachFrom.refl _).snoc' ko)
    · rw [← hto] at ro
      obtain ⟨hxt, hj⟩ := reach_cross U.ho U.hg hLo (fun d => (o_term U d).symm)
        (fun k h1 h2 => by rw [o_term U, o_term U]; exact U.hnodes k h2 h1) ro kg
      rw [hto] at hxt
      subst hxt; subst hj
      exact Or.inl ((ReachFrom.refl _).snoc' kg)
    · exact Or.inr (ro.snoc' ko)

/-- both graphs have the same length (distance between the terminals), as far as the terminals are connected -/
def SameLength (g o : Graph κ) : Prop :=
  ∀ d j j', ReachFrom g d (g.term d) j (g.term (!d)) → ReachFrom o d (g.term d) j' (g.term (!d)) → j = j'

theorem levelFun_union (U : UnionOk g o) (hLg : ∀ d, LevelFun g d) (hLo : ∀ d, LevelFun o d)
    (hlen : SameLength g o) (d : Bool) : LevelFun (unionG g o) d := by
  intro y j j' h1 h2
  have ht : (unionG g o).term d = g.term d := by cases d <;> rfl
  rw [ht] at h1 h2
  have hto : o.term d = g.term d := o_term U d
  have mixed : ∀ {a b : Nat}, ReachFrom g d (g.term d) a y → ReachFrom o d (g.term d) b y → a = b := by
    intro a b ra rb
    have k1 := reach_mem_keys U.hg (term_mem_keys U.hg d) ra
    have k2 : y ∈ dKeys o.nodes := by
      rw [← hto] at rb
      exact reach_mem_keys U.ho (term_mem_keys U.ho d) rb
    have hcases : y = g.term d ∨ y = g.term (!d) := by
      rcases U.hnodes y k1 k2 with q | q <;> cases d <;> simp_all
    rcases hcases with q | q
    · subst q
      have e1 := hLg d _ _ _ (ReachFrom.refl _) ra
      have e2 : 0 = b := by
        have := hLo d (o.term d) 0 b (ReachFrom.refl _) (by rw [hto]; exact rb)
        exact this
      omega
    · subst q; exact hlen d a b ra rb
  rcases reach_union U hLg hLo h1 with r1 | r1 <;> rcases reach_union U hLg hLo h2 with r2 | r2
  · exact hLg d _ _ _ r1 r2
  · exact mixed r1 r2
  · exact (mixed r2 r1).symm
  · rw [← hto] at r1 r2; exact hLo d _ _ _ r1 r2

/-- **the union of two valid graphs of the same length with identified terminals is valid and denotes the sum** -/
theorem valid_union (U : UnionOk g o) (hg : Valid g) (ho : Valid o) (hlen : SameLength g o) :
    Valid (unionG g o) := by
  rw [valid_iff_levelFun] at hg ho ⊢
  have hLg : ∀ d, LevelFun g d := fun d => by cases d; exact hg.2.1; exact hg.2.2
  have hLo : ∀ d, LevelFun o d := fun d => by cases d; exact ho.2.1; exact ho.2.2
  exact ⟨svalid_union U, levelFun_union U hLg hLo hlen false, levelFun_union U hLg hLo hlen true⟩

end Union
end Ptn.Og

import PtnModel.Proofs.EnvBasic
/-!
# Pure rearrangement lemmas for nested finite sums

Each lemma says: a contraction step applied to an environment block that is a sum of rank-one terms
(indexed by an arbitrary finite set `S`) is the sum over `S` of the factorised expression.
All index sets are abstract `Finset`s so that every summation variable has its own set
(which is what `sum_pull` needs).
-/
set_option linter.unusedSectionVars false
set_option linter.unusedVariables false
namespace Ptn.Env
open Finset
variable {R : Type} [CommRing R] [StarRing R]

/-- `contraction_step_right` -/
theorem alg_stepRight {ι : Type} (S : Finset ι) (Ss Sb Sr : Finset Nat) (A B : Nat → Nat → R)
    (c c' : ι → Nat → R) :
    ∑ s ∈ Ss, ∑ r ∈ Sr, (∑ b ∈ Sb, A s b * ∑ σ ∈ S, c σ b * star (c' σ r)) * star (B s r)
    = ∑ s ∈ Ss, ∑ σ ∈ S, (∑ b ∈ Sb, A s b * c σ b) * star (∑ r ∈ Sr, B s r * c' σ r) := by
  refine Finset.sum_congr rfl fun s _ => ?_
  simp only [Finset.sum_mul, Finset.mul_sum, star_sum, star_mul']
  sum_pull S
  sum_pull Sb
  sum_pull Sr
  ring

/-- `contraction_operator_step_right` -/
theorem alg_opStepRight {ι κ : Type} (S1 : Finset ι) (S2 : Finset κ) (Ss' Ss Sb Sb' Sw' : Finset Nat)
    (A B : Nat → Nat → R) (W : Nat → Nat → Nat → R) (c : κ → Nat → R) (ww : ι → κ → Nat → R)
    (c' : ι → Nat → R) :
    ∑ s' ∈ Ss', ∑ b' ∈ Sb',
      (∑ s ∈ Ss, ∑ w' ∈ Sw', W s' s w' *
          ∑ b ∈ Sb, A s b * ∑ σ ∈ S1, ∑ τ ∈ S2, c τ b * ww σ τ w' * star (c' σ b')) * star (B s' b')
    = ∑ s' ∈ Ss', ∑ σ ∈ S1, ∑ s ∈ Ss, ∑ τ ∈ S2,
        (∑ b ∈ Sb, A s b * c τ b) * (∑ w' ∈ Sw', W s' s w' * ww σ τ w') * star (∑ b' ∈ Sb', B s' b' * c' σ b') := by
  refine Finset.sum_congr rfl fun s' _ => ?_
  simp only [Finset.sum_mul, Finset.mul_sum, star_sum, star_mul']
  sum_pull S1
  sum_pull Ss
  sum_pull S2
  sum_pull Sb
  sum_pull Sw'
  sum_pull Sb'
  ring

/-- `contraction_operator_density_step_right` -/
theorem alg_densityStepRight {ι κ : Type} (S1 : Finset ι) (S2 : Finset κ) (Ss St Sb Sr : Finset Nat)
    (A W : Nat → Nat → Nat → R) (c c' : ι → κ → Nat → R) :
    ∑ t ∈ St, ∑ s ∈ Ss, ∑ r ∈ Sr, (∑ b ∈ Sb, A s t b * ∑ σ ∈ S1, ∑ τ ∈ S2, c σ τ b * c' σ τ r) * W t s r
    = ∑ s ∈ Ss, ∑ σ ∈ S1, ∑ t ∈ St, ∑ τ ∈ S2,
        (∑ b ∈ Sb, A s t b * c σ τ b) * (∑ r ∈ Sr, W t s r * c' σ τ r) := by
  simp only [Finset.sum_mul, Finset.mul_sum]
  sum_pull Ss
  sum_pull S1
  sum_pull St
  sum_pull S2
  sum_pull Sb
  sum_pull Sr
  ring

/-- `contraction_operator_step_left` -/
theorem alg_opStepLeft {ι κ : Type} (S1 : Finset ι) (S2 : Finset κ) (Ss Ss' Sa Sa' Sw : Finset Nat)
    (A B : Nat → Nat → R) (W : Nat → Nat → Nat → R) (c : κ → Nat → R) (ww : ι → κ → Nat → R)
    (c' : ι → Nat → R) :
    ∑ s ∈ Ss, ∑ a ∈ Sa, A s a * ∑ s' ∈ Ss', ∑ w ∈ Sw, W s' s w *
        ∑ a' ∈ Sa', (∑ σ ∈ S1, ∑ τ ∈ S2, c τ a * ww σ τ w * star (c' σ a')) * star (B s' a')
    = ∑ σ ∈ S1, ∑ s' ∈ Ss', ∑ τ ∈ S2, ∑ s ∈ Ss,
        (∑ a ∈ Sa, c τ a * A s a) * (∑ w ∈ Sw, ww σ τ w * W s' s w) * star (∑ a' ∈ Sa', c' σ a' * B s' a') := by
  simp only [Finset.sum_mul, Finset.mul_sum, star_sum, star_mul']
  sum_pull S1
  sum_pull Ss'
  sum_pull S2
  sum_pull Ss
  sum_pull Sa
  sum_pull Sw
  sum_pull Sa'
  ring

/-- inner part of `apply_local_hamiltonian`: `W · (A · R)` for a right environment that is a sum of rank-one terms -/
theorem alg_localH_inner {ι₂ κ₂ : Type} (R1 : Finset ι₂) (R2 : Finset κ₂) (Ss Sb Sw' : Finset Nat)
    (A : Nat → Nat → R) (W : Nat → Nat → R)
    (r : κ₂ → Nat → R) (rw : ι₂ → κ₂ → Nat → R) (r' : ι₂ → R) :
    ∑ s ∈ Ss, ∑ w' ∈ Sw', W s w' * ∑ b ∈ Sb, A s b * ∑ σr ∈ R1, ∑ τr ∈ R2, r τr b * rw σr τr w' * star (r' σr)
    = ∑ σr ∈ R1, ∑ s ∈ Ss, ∑ τr ∈ R2,
        (∑ w' ∈ Sw', W s w' * rw σr τr w') * (∑ b ∈ Sb, A s b * r τr b) * star (r' σr) := by
  simp only [Finset.sum_mul, Finset.mul_sum]
  sum_pull R1
  sum_pull Ss
  sum_pull R2
  sum_pull Sw'
  sum_pull Sb
  ring

/-- outer part of `apply_local_hamiltonian` -/
theorem alg_localH_outer {ι₁ κ₁ ι₂ κ₂ : Type} (L1 : Finset ι₁) (L2 : Finset κ₁) (R1 : Finset ι₂) (R2 : Finset κ₂)
    (Ss' Ss Sa Sa' Sb' Sw : Finset Nat)
    (B : Nat → Nat → Nat → R) (G : Nat → Nat → ι₂ → κ₂ → Nat → R) (H : Nat → κ₂ → Nat → R)
    (l : κ₁ → Nat → R) (lw : ι₁ → κ₁ → Nat → R) (l' : ι₁ → Nat → R) (r' : ι₂ → Nat → R) :
    ∑ s' ∈ Ss', ∑ a' ∈ Sa', ∑ b' ∈ Sb', star (B s' a' b') *
      ∑ a ∈ Sa, ∑ w ∈ Sw,
        (∑ σr ∈ R1, ∑ s ∈ Ss, ∑ τr ∈ R2, G s' s σr τr w * H s τr a * star (r' σr b'))
          * ∑ σl ∈ L1, ∑ τl ∈ L2, l τl a * lw σl τl w * star (l' σl a')
    = ∑ σl ∈ L1, ∑ s' ∈ Ss', ∑ σr ∈ R1, ∑ τl ∈ L2, ∑ s ∈ Ss, ∑ τr ∈ R2,
        star (∑ a' ∈ Sa', l' σl a' * ∑ b' ∈ Sb', B s' a' b' * r' σr b')
          * (∑ w ∈ Sw, lw σl τl w * G s' s σr τr w)
          * (∑ a ∈ Sa, l τl a * H s τr a) := by
  simp only [Finset.sum_mul, Finset.mul_sum, star_sum, star_mul']
  sum_pull L1
  sum_pull Ss'
  sum_pull R1
  sum_pull L2
  sum_pull Ss
  sum_pull R2
  sum_pull Sa'
  sum_pull Sb'
  sum_pull Sw
  sum_pull Sa
  ring

/-- `apply_local_bond_contraction` between environments that are sums of rank-one terms -/
theorem alg_localBond {ι₁ κ₁ ι₂ κ₂ : Type} (L1 : Finset ι₁) (L2 : Finset κ₁) (R1 : Finset ι₂) (R2 : Finset κ₂)
    (Sa Sa' Sb Sb' Sw : Finset Nat)
    (C C' : Nat → Nat → R)
    (l : κ₁ → Nat → R) (lw : ι₁ → κ₁ → Nat → R) (l' : ι₁ → Nat → R)
    (r : κ₂ → Nat → R) (rw : ι₂ → κ₂ → Nat → R) (r' : ι₂ → Nat → R) :
    ∑ a' ∈ Sa', ∑ b' ∈ Sb', star (C' a' b') *
      ∑ a ∈ Sa, ∑ w ∈ Sw, (∑ σl ∈ L1, ∑ τl ∈ L2, l τl a * lw σl τl w * star (l' σl a')) *
        ∑ b ∈ Sb, C a b * ∑ σr ∈ R1, ∑ τr ∈ R2, r τr b * rw σr τr w * star (r' σr b')
    = ∑ σl ∈ L1, ∑ σr ∈ R1, ∑ τl ∈ L2, ∑ τr ∈ R2,
        star (∑ a' ∈ Sa', l' σl a' * ∑ b' ∈ Sb', C' a' b' * r' σr b')
          * (∑ w ∈ Sw, lw σl τl w * rw σr τr w)
          * (∑ a ∈ Sa, l τl a * ∑ b ∈ Sb, C a b * r τr b) := by
  simp only [Finset.sum_mul, Finset.mul_sum, star_sum, star_mul']
  sum_pull L1
  sum_pull R1
  sum_pull L2
  sum_pull R2
  sum_pull Sa'
  sum_pull Sb'
  sum_pull Sw
  sum_pull Sa
  sum_pull Sb
  ring

end Ptn.Env

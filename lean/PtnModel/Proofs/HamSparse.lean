import PtnModel.Model.HamiltonianSpinGraph
/-!
# Block sparsity of every compiled MPO

`MPO.from_opgraph` ends with `assert is_qsparse(A[i], [qd, -qd, qD[i], -qD[i+1]])` for every site; the model mirrors the
assertion, so *whenever a constructor returns*, all tensors are block sparse under the physical charges and the bond
charges read off the graph.  (That the assertion cannot fire is a statement about the compiled graph; the table-level
reason -- every local operator shifts the charge by exactly the jump of the bond charges -- is `LatticeCharged`.)
-/
set_option linter.unusedSectionVars false

namespace Ptn.Ham
open Ptn.Og

theorem bind_ok {α β : Type} {x : Except Err α} {f : α → Except Err β} {b : β}
    (h : (x >>= f) = .ok b) : ∃ a, x = .ok a ∧ f a = .ok b := by
  cases x with
  | error e => simp [bind, Except.bind] at h
  | ok a => exact ⟨a, rfl, by simpa [bind, Except.bind] using h⟩

theorem pyAssert_ok {c : Bool} {u : Unit} (h : pyAssert c = .ok u) : c = true := by
  unfold pyAssert at h
  cases c <;> simp at h ⊢

theorem ite_jp_ok {β : Type} {c : Prop} [Decidable c] {x : Except Err Unit} {jp : Unit → Except Err β} {b : β}
    (h : (if c then x >>= jp else jp ()) = .ok b) : jp () = .ok b := by
  split at h
  · obtain ⟨u, _, h⟩ := bind_ok h
    exact h
  · exact h

section
variable {κ : Type} [Add κ] [Mul κ] [Neg κ] [OfNat κ 0] [OfNat κ 1] [DecidableEq κ]

/-- all tensors of an MPO result are block sparse: `A[a, b, i, j] ≠ 0 → qd[a] - qd[b] + qD[l][i] - qD[l+1][j] = 0` -/
def MpoSparse (qd : List Int) (out : MpoOut κ) : Prop :=
  (out.tensors.zipIdx).all (fun (A, i) => isQsparse qd (out.qD.getD i []) (out.qD.getD (i + 1) []) A) = true

theorem fromOpgraph_sparse {qd : List Int} {g : Graph κ} {opmap : OpMap κ} {b : Bool} {out : MpoOut κ}
    (h : fromOpgraph qd g opmap b = .ok out) : MpoSparse qd out := by
  unfold fromOpgraph at h
  dsimp only at h
  by_cases hd : (qd.length == 0) = true
  · simp [hd, throw, throwThe, MonadExceptOf.throw, bind, Except.bind] at h
  · simp only [hd, if_false, Bool.false_eq_true] at h
    obtain ⟨t0, _, h⟩ := bind_ok h
    obtain ⟨o, _, h⟩ := bind_ok h
    obtain ⟨_, _, h⟩ := bind_ok h
    obtain ⟨_, ha, h⟩ := bind_ok h
    have := pyAssert_ok ha
    simp only [pure, Except.pure, Except.ok.injEq] at h
    subst h
    exact this

/-- every `Built` value the model produces has block-sparse tensors -/
def Built.Sparse (b : Built κ) : Prop := MpoSparse b.qd b.mpo

theorem localOpchainsToMpo_sparse {lat : Lattice κ} {L : Int} {b : Built κ}
    (h : localOpchainsToMpo lat L = .ok b) : b.Sparse := by
  unfold localOpchainsToMpo at h
  obtain ⟨g, _, h⟩ := bind_ok h
  obtain ⟨m, hm, h⟩ := bind_ok h
  simp only [pure, Except.pure, Except.ok.injEq] at h
  subst h
  exact fromOpgraph_sparse hm

theorem isingBuild_sparse {L : Int} {J h g : κ} {b : Built κ} (hb : isingBuild L J h g = .ok b) : b.Sparse := by
  unfold isingBuild at hb
  obtain ⟨a, _, hb⟩ := bind_ok hb
  obtain ⟨gr, _, hb⟩ := bind_ok hb
  obtain ⟨m, hm, hb⟩ := bind_ok hb
  simp only [pure, Except.pure, Except.ok.injEq] at hb
  subst hb
  exact fromOpgraph_sparse hm

theorem linFermiBuild_sparse {coeff : List κ} {create : Bool} {b : Built κ}
    (hb : linFermiBuild coeff create = .ok b) : b.Sparse := by
  unfold linFermiBuild at hb
  obtain ⟨gr, _, hb⟩ := bind_ok hb
  obtain ⟨m, hm, hb⟩ := bind_ok hb
  simp only [pure, Except.pure, Except.ok.injEq] at hb
  subst hb
  exact fromOpgraph_sparse hm

theorem molBuildOpt_sparse {c : Consts κ} {tkin : List (List κ)} {vint : List (List (List (List κ)))} {b : Built κ}
    (hb : molBuildOpt c tkin vint = .ok b) : b.Sparse := by
  unfold molBuildOpt at hb
  obtain ⟨_, _, hb⟩ := bind_ok hb
  obtain ⟨_, _, hb⟩ := bind_ok hb
  obtain ⟨_, _, hb⟩ := bind_ok hb
  have hb := ite_jp_ok hb
  obtain ⟨m, hm, hb⟩ := bind_ok hb
  simp only [pure, Except.pure, Except.ok.injEq] at hb
  subst hb
  exact fromOpgraph_sparse hm

theorem spinMolBuildOpt_sparse {c : Consts κ} {tkin : List (List κ)} {vint : List (List (List (List κ)))} {b : Built κ}
    (hb : spinMolBuildOpt c tkin vint = .ok b) : b.Sparse := by
  unfold spinMolBuildOpt at hb
  obtain ⟨_, _, hb⟩ := bind_ok hb
  obtain ⟨_, _, hb⟩ := bind_ok hb
  obtain ⟨_, _, hb⟩ := bind_ok hb
  have hb := ite_jp_ok hb
  obtain ⟨m, hm, hb⟩ := bind_ok hb
  simp only [pure, Except.pure, Except.ok.injEq] at hb
  subst hb
  exact fromOpgraph_sparse hm

theorem molBuildExplicit_sparse {c : Consts κ} {tkin : List (List κ)} {vint : List (List (List (List κ)))}
    {r : MolNodes × Built κ} (hb : molBuildExplicit c tkin vint = .ok r) : r.2.Sparse := by
  unfold molBuildExplicit at hb
  obtain ⟨_, _, hb⟩ := bind_ok hb
  obtain ⟨⟨nodes, graph⟩, _, hb⟩ := bind_ok hb
  have hb := ite_jp_ok hb
  obtain ⟨m, hm, hb⟩ := bind_ok hb
  simp only [pure, Except.pure, Except.ok.injEq] at hb
  subst hb
  exact fromOpgraph_sparse hm

theorem spinMolBuildExplicit_sparse {c : Consts κ} {tkin : List (List κ)} {vint : List (List (List (List κ)))}
    {r : SpinNodes × Built κ} (hb : spinMolBuildExplicit c tkin vint = .ok r) : r.2.Sparse := by
  unfold spinMolBuildExplicit at hb
  obtain ⟨_, _, hb⟩ := bind_ok hb
  obtain ⟨⟨nodes, graph⟩, _, hb⟩ := bind_ok hb
  have hb := ite_jp_ok hb
  obtain ⟨m, hm, hb⟩ := bind_ok hb
  simp only [pure, Except.pure, Except.ok.injEq] at hb
  subst hb
  exact fromOpgraph_sparse hm

end
end Ptn.Ham

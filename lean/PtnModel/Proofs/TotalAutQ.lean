import PtnModel.Proofs.TotalAutomaton
import PtnModel.Proofs.ChainGraph
/-!
# Node charges and operator lists of the graph unrolled from an automaton

* `fromAutomaton_qnums` : every node of `from_automaton(a, L)` carries the charge of some state of `a` (or `0`, never used);
* `fromAutomaton_opics` : every edge of the unrolled graph carries the (normalised) operator list of some automaton edge at some site.
-/
set_option linter.unusedSectionVars false

namespace Ptn.Og
open List Ptn.Dense

variable {κ : Type} [CommRing κ] [DecidableEq κ]

theorem nodesAdd_Q (Q : Int → Prop) (ns : List (Int × Node)) (k eid : Int) (d : Bool) (h : ∀ p ∈ ns, Q p.2.qnum) :
    ∀ p ∈ nodesAdd ns k eid d, Q p.2.qnum := by
  unfold nodesAdd
  cases hk : dGet? ns k with
  | none => exact h
  | some n =>
    intro p hp
    rcases Ptn.Ch.mem_dReplace _ _ _ _ hp with hp | hp
    · exact h p hp
    · rw [hp]
      have := h (k, n) (mem_of_dGet?_eq_some hk)
      cases d <;> exact this

theorem plusEdge_Q (Q : Int → Prop) (g : Graph κ) (e : Edge κ) (h : ∀ p ∈ g.nodes, Q p.2.qnum) :
    ∀ p ∈ (g.plusEdge e).nodes, Q p.2.qnum :=
  nodesAdd_Q Q _ _ _ _ (nodesAdd_Q Q _ _ _ _ h)

theorem autEdgesStep_Q (Q : Int → Prop) {actPrev mapPrev : List Int} {i : Nat} {y : Int} {s s' : AutState κ} {e : AEdge κ}
    (h : autEdgesStep actPrev mapPrev i y s e = .ok s') (hQ : ∀ p ∈ s.graph.nodes, Q p.2.qnum) :
    ∀ p ∈ s'.graph.nodes, Q p.2.qnum := by
  unfold autEdgesStep at h
  by_cases h1 : e.active i = true
  · by_cases h2 : actPrev.contains e.nids.1 = true
    · simp only [h1, h2, Bool.not_true, Bool.false_eq_true, if_false] at h
      rw [bind_ok] at h
      obtain ⟨m, _, h⟩ := h
      rw [bind_ok] at h
      obtain ⟨g', hg', h⟩ := h
      rw [pure_ok] at h
      subst h
      rw [(addConnectEdge_eq_plusEdge hg').1]
      exact plusEdge_Q Q _ _ hQ
    · have h2' : actPrev.contains e.nids.1 = false := by simpa using h2
      simp only [h1, h2', Bool.not_true, Bool.false_eq_true, if_false, Bool.not_false, if_true] at h
      rw [pure_ok] at h; subst h; exact hQ
  · have h1' : e.active i = false := by simpa using h1
    simp only [h1', Bool.not_false, if_true] at h
    rw [pure_ok] at h; subst h; exact hQ

theorem autLayerStep_Q (Q : Int → Prop) {a : AutOp κ} {actPrev mapPrev : List Int} {i : Nat}
    {acc acc' : AutState κ × List Int} {nodeAut : Node}
    (h : autLayerStep a actPrev mapPrev i acc nodeAut = .ok acc') (hQ : ∀ p ∈ acc.1.graph.nodes, Q p.2.qnum)
    (hn : Q nodeAut.qnum) : ∀ p ∈ acc'.1.graph.nodes, Q p.2.qnum := by
  unfold autLayerStep at h
  simp only [Node.mk'_nil] at h
  rw [bind_ok] at h
  obtain ⟨nd, hnd, h⟩ := h
  cases hnd
  rw [bind_ok] at h
  obtain ⟨g1, hg1, h⟩ := h
  obtain ⟨_, rfl⟩ := addNode_ok.1 hg1
  rw [bind_ok] at h
  obtain ⟨es, _, h⟩ := h
  rw [bind_ok] at h
  obtain ⟨s', hs', h⟩ := h
  rw [pure_ok] at h
  subst h
  refine foldlM_ok_inv _ (fun t : AutState κ => ∀ p ∈ t.graph.nodes, Q p.2.qnum)
    (fun e t t' ht he => autEdgesStep_Q Q he ht) es _ s' ?_ hs'
  intro p hp
  simp only [mem_append, mem_singleton] at hp
  rcases hp with hp | rfl
  · exact hQ p hp
  · exact hn

theorem autSiteStep_Q (Q : Int → Prop) {a : AutOp κ} {act : List (List Int)} {sm sm' : AutState κ × List (List Int)} {i : Nat}
    (h : autSiteStep a act sm i = .ok sm') (hQ : ∀ p ∈ sm.1.graph.nodes, Q p.2.qnum)
    (ha : ∀ p ∈ a.nodes, Q p.2.qnum) : ∀ p ∈ sm'.1.graph.nodes, Q p.2.qnum := by
  unfold autSiteStep at h
  rw [bind_ok] at h
  obtain ⟨ns, hns, h⟩ := h
  rw [bind_ok] at h
  obtain ⟨x, hx, h⟩ := h
  rw [pure_ok] at h
  subst h
  have hnsQ : ∀ n ∈ ns, Q n.qnum := by
    intro n hn
    rw [(mapM_dGet_ok _ _ _ hns).1, mem_filterMap] at hn
    obtain ⟨k, _, hk⟩ := hn
    exact ha (k, n) (mem_of_dGet?_eq_some hk)
  have := foldlM_ok_ind (autLayerStep a (act.getD i []) (sm.2.getD i []) i)
    (fun pre (t : AutState κ × List Int) => (∀ n ∈ pre, n ∈ ns) → ∀ p ∈ t.1.graph.nodes, Q p.2.qnum)
    (fun pre n t t' ht hn hpre => autLayerStep_Q Q hn (ht (fun m hm => hpre m (by simp [hm]))) (hnsQ n (hpre n (by simp))))
    ns [] (sm.1, []) x (fun _ => hQ) hx
  exact this (by simp)

/-- **every node of the unrolled graph carries the charge of a state of the automaton** (`Q` holds for all state charges and `0`) -/
theorem fromAutomaton_qnums (Q : Int → Prop) {a : AutOp κ} {L : Int} {g : Graph κ} (h : fromAutomaton a L = .ok g)
    (hQ0 : Q 0) (ha : ∀ p ∈ a.nodes, Q p.2.qnum) : ∀ p ∈ g.nodes, Q p.2.qnum := by
  unfold fromAutomaton at h
  by_cases hL : L < 1
  · simp only [hL, if_true] at h
    rw [throw_bind_ne] at h
    exact h.elim
  simp only [hL, if_false] at h
  rw [bind_ok] at h
  obtain ⟨back, _, h⟩ := h
  rw [bind_ok] at h
  obtain ⟨fwd, _, h⟩ := h
  rw [← actOf] at h
  generalize actOf back fwd = act at h
  rw [pyAssert_bind] at h
  obtain ⟨_, h⟩ := h
  rw [pyAssert_bind] at h
  obtain ⟨_, h⟩ := h
  rw [pyAssert_bind] at h
  obtain ⟨_, h⟩ := h
  rw [bind_ok] at h
  obtain ⟨term0, hterm0, h⟩ := h
  simp only [Node.mk'_nil] at h
  rw [bind_ok] at h
  obtain ⟨n0, hn0, h⟩ := h
  cases hn0
  rw [bind_ok] at h
  obtain ⟨nd, hnd, h⟩ := h
  cases hnd
  rw [bind_ok] at h
  obtain ⟨g0, hg0, h⟩ := h
  have hg0' : g0 = ⟨[(0, ⟨0, [], [], term0.qnum⟩), (-1, ⟨-1, [], [], 0⟩)], [], (0, -1)⟩ := by
    have : Graph.mk' [⟨0, [], [], term0.qnum⟩, ⟨-1, [], [], 0⟩] ([] : List (Edge κ)) [0, -1]
        = .ok ⟨[(0, ⟨0, [], [], term0.qnum⟩), (-1, ⟨-1, [], [], 0⟩)], [], (0, -1)⟩ := rfl
    rw [this] at hg0
    cases hg0; rfl
  subst hg0'
  rw [bind_ok] at h
  obtain ⟨⟨s, maps⟩, hsweep, h⟩ := h
  have hsweep' : (List.range L.toNat).foldlM (autSiteStep a act)
      ((⟨⟨[(0, ⟨0, [], [], term0.qnum⟩), (-1, ⟨-1, [], [], 0⟩)], [], (0, -1)⟩, 1, 0⟩ : AutState κ), [[0]])
      = .ok (s, maps) := hsweep
  have hterm0' : Q term0.qnum := by
    rw [dGet_eq_ok_iff] at hterm0
    exact ha (_, term0) (mem_of_dGet?_eq_some hterm0)
  have hs : ∀ p ∈ s.graph.nodes, Q p.2.qnum := by
    have := foldlM_ok_inv (autSiteStep a act) (fun sm : AutState κ × List (List Int) => ∀ p ∈ sm.1.graph.nodes, Q p.2.qnum)
      (fun i sm sm' hsm hi => autSiteStep_Q Q hi hsm ha) _ _ _ ?_ hsweep'
    · exact this
    · intro p hp
      simp only [mem_cons, not_mem_nil, or_false] at hp
      rcases hp with rfl | rfl
      · exact hterm0'
      · exact hQ0
  cases hmx : maxInt? (dKeys s.graph.nodes) with
  | none => rw [hmx] at h; simp only at h; rw [throw_bind_ne] at h; exact h.elim
  | some last =>
    rw [hmx] at h
    simp only at h
    rw [bind_ok] at h
    obtain ⟨last', hl, h⟩ := h
    rw [bind_ok] at h
    obtain ⟨⟨nrem, g1⟩, hrem, h⟩ := h
    rw [pyAssert_bind] at h
    obtain ⟨_, h⟩ := h
    rw [pure_ok] at h
    simp only at h
    subst h
    obtain ⟨_, rfl⟩ := removeNode_ok.1 hrem
    intro p hp
    exact hs p ((dErase_sublist _ _).subset hp)

/-- **every edge of the unrolled graph carries the normalised operator list of an automaton edge at some site** -/
theorem fromAutomaton_opics {a : AutOp κ} (hv : AutValid a) {L : Int} {g : Graph κ} (h : fromAutomaton a L = .ok g) :
    ∀ p ∈ g.edges, ∃ k ae, dGet? a.edges k = some ae ∧ ∃ j, p.2.opics = normOpics (ae.opics j) := by
  obtain ⟨hL, back, fwd, hb, hf, h0, hLa, hrecs, _, _, _, _, hnodes⟩ := fromAutomaton_unrolled h
  have data := autData_of_layers hv hb hf h0 hLa hnodes
  intro p hp
  have : (p.2.nids, p.2.opics) ∈ g.recs := mem_map.2 ⟨p, hp, rfl⟩
  rw [hrecs, mem_flatMap] at this
  obtain ⟨j, hj, hr⟩ := this
  have hjL := List.mem_range.1 hj
  obtain ⟨v, _, ae, hae, _, _, hr⟩ := (mem_siteRecs (data.actNodup (j + 1) (by omega)) _).1 hr
  unfold inEv at hae
  cases hn : dGet? a.nodes v with
  | none => rw [hn] at hae; simp at hae
  | some n =>
    rw [hn] at hae
    simp only [inE, mem_filterMap] at hae
    obtain ⟨k, _, hk⟩ := hae
    exact ⟨k, ae, hk, j, (Prod.mk.inj hr).2⟩

end Ptn.Og

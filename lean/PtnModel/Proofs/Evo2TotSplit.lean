import PtnModel.Proofs.Evo2Tdvp
import PtnModel.Proofs.HistEvoTwo
import PtnModel.Proofs.EvoTotDmrg
/-!
# Totality of `split_mps_tensor` on the tensors of the two-site sweeps; the gauge step at an arbitrary tolerance

* `mergePair_wf`, `mergePairW_sparse` : the merged state / operator tensors of a window are block sparse w.r.t. the fused
  physical charges `qd ⊕ qd`;
* `splitMat_sparse`  : the matrix handed to `split_matrix_svd` by `split_mps_tensor` is block sparse, so its `is_qsparse`
  assertion holds;
* `splitMps_total`   : `split_mps_tensor` returns on a block-sparse two-site tensor with non-empty axes;
* `split_facts_tol`  : for every tolerance `0 ≤ tol < 1` the split of a non-zero two-site tensor returns tensors of the right
  shapes with a non-empty bond; the factor without the singular values is an isometry and **the factor carrying the
  singular values is not zero** (its squared Frobenius norm is the kept weight `≥ (1 - tol) ‖A‖² > 0`).
-/
set_option linter.unusedSectionVars false

namespace Ptn.Evo
open Ptn Ptn.BondOps Ptn.Ortho Ptn.Env Ptn.Krylov Ptn.Dense Finset

variable {𝕜 : Type} [RCLike 𝕜] [DecidableEq 𝕜]

/-! ## block sparsity of the merged tensors -/

omit [DecidableEq 𝕜] in
/-- `merge_mps_tensor_pair` of two well-formed site tensors is well formed w.r.t. the fused physical charges -/
theorem mergePair_wf {A0 A1 : T3 𝕜} {qd qa qm qc : List Int} (h0 : T3Wf A0 qd qa qm) (h1 : T3Wf A1 qd qm qc) :
    T3Wf (MPS.mergePair A0 A1) (QN.flatten2 qd qd) qa qc := by
  refine ⟨?_, h0.d1, h1.d2, ?_⟩
  · show A0.d0 * A1.d0 = _
    rw [flatten2_length, h0.d0, h1.d0]
  · intro s a c hs ha hc hne
    have hs' : s < A0.d0 * A1.d0 := hs
    have ha' : a < A0.d1 := ha
    have hc' : c < A1.d2 := hc
    have hne' : sumRange A0.d2 (fun b => A0.f (s / A1.d0) a b * A1.f (s % A1.d0) b c) ≠ 0 := hne
    rw [Env.sumRange_eq] at hne'
    obtain ⟨b, hb, hb0⟩ := Finset.exists_ne_zero_of_sum_ne_zero hne'
    have hb' := mem_range.1 hb
    have hd1 : 0 < A1.d0 := by
      rcases Nat.eq_zero_or_pos A1.d0 with h | h
      · rw [h] at hs'; simp at hs'
      · exact h
    have hsd : s / A1.d0 < A0.d0 := by rw [Nat.mul_comm] at hs'; exact Nat.div_lt_of_lt_mul hs'
    have e0 := h0.sp (s / A1.d0) a b hsd ha' hb' (left_ne_zero_of_mul hb0)
    have e1 := h1.sp (s % A1.d0) b c (Nat.mod_lt _ hd1) (by rw [h1.d1, ← h0.d2]; exact hb') hc'
      (right_ne_zero_of_mul hb0)
    have es : s = s / A1.d0 * qd.length + s % A1.d0 := by
      rw [← h1.d0, Nat.mul_comm]; exact (Nat.div_add_mod s A1.d0).symm
    have hq : (QN.flatten2 qd qd).getD s 0 = qd.getD (s / A1.d0) 0 + qd.getD (s % A1.d0) 0 := by
      conv_lhs => rw [es]
      exact flatten2_getD _ _ (by rw [← h0.d0]; exact hsd) (by rw [← h1.d0]; exact Nat.mod_lt _ hd1)
    rw [hq]
    omega

omit [DecidableEq 𝕜] in
/-- `merge_mpo_tensor_pair` of two block-sparse operator tensors is block sparse w.r.t. the fused physical charges -/
theorem mergePairW_sparse {W0 W1 : T4 𝕜} {qd q0 q1 q2 : List Int} (h0 : SparseT4 W0 qd q0 q1) (h1 : SparseT4 W1 qd q1 q2)
    (c0 : W0.d0 = qd.length) (c1 : W0.d1 = qd.length) (d0 : W1.d0 = qd.length) (d1 : W1.d1 = qd.length)
    (hb : W0.d3 = W1.d2) : SparseT4 (MPO.mergePair W0 W1) (QN.flatten2 qd qd) q0 q2 := by
  intro s t a c hs ht ha hc hne
  have hs' : s < W0.d0 * W1.d0 := hs
  have ht' : t < W0.d1 * W1.d1 := ht
  have ha' : a < W0.d2 := ha
  have hc' : c < W1.d3 := hc
  have hne' : sumRange W0.d3 (fun b => W0.f (s / W1.d0) (t / W1.d1) a b * W1.f (s % W1.d0) (t % W1.d1) b c) ≠ 0 := hne
  rw [Env.sumRange_eq] at hne'
  obtain ⟨b, hb', hb0⟩ := Finset.exists_ne_zero_of_sum_ne_zero hne'
  have hb'' := mem_range.1 hb'
  have hp0 : 0 < W1.d0 := by
    rcases Nat.eq_zero_or_pos W1.d0 with h | h
    · rw [h] at hs'; simp at hs'
    · exact h
  have hp1 : 0 < W1.d1 := by
    rcases Nat.eq_zero_or_pos W1.d1 with h | h
    · rw [h] at ht'; simp at ht'
    · exact h
  have hsd : s / W1.d0 < W0.d0 := by rw [Nat.mul_comm] at hs'; exact Nat.div_lt_of_lt_mul hs'
  have htd : t / W1.d1 < W0.d1 := by rw [Nat.mul_comm] at ht'; exact Nat.div_lt_of_lt_mul ht'
  have e0 := h0 (s / W1.d0) (t / W1.d1) a b hsd htd ha' hb'' (left_ne_zero_of_mul hb0)
  have e1 := h1 (s % W1.d0) (t % W1.d1) b c (Nat.mod_lt _ hp0) (Nat.mod_lt _ hp1) (by rw [← hb]; exact hb'') hc'
    (right_ne_zero_of_mul hb0)
  have key : ∀ (x n : Nat), n = qd.length → 0 < n → x / n < qd.length →
      (QN.flatten2 qd qd).getD x 0 = qd.getD (x / n) 0 + qd.getD (x % n) 0 := by
    intro x n hn hpos h
    have ex : x = x / n * qd.length + x % n := by
      rw [← hn, Nat.mul_comm]; exact (Nat.div_add_mod x n).symm
    conv_lhs => rw [ex]
    exact flatten2_getD _ _ h (by rw [← hn]; exact Nat.mod_lt _ hpos)
  rw [key s W1.d0 d0 hp0 (by rw [← c0]; exact hsd), key t W1.d1 d1 hp1 (by rw [← c1]; exact htd)]
  omega

/-! ## the assertion of `split_matrix_svd` inside `split_mps_tensor` -/

omit [DecidableEq 𝕜] in
/-- the matrix `A.reshape((d, d, D0, D2)).transpose((0, 2, 1, 3)).reshape((d D0, d D2))` of a two-site tensor that is block
sparse w.r.t. the fused physical charges is block sparse w.r.t. `(qd ⊕ qD0, (-qd) ⊕ qD2)` -/
theorem splitMat_sparse {A : T3 𝕜} {qd qa qc : List Int} (hd0 : A.d0 = qd.length * qd.length) (h1 : A.d1 = qa.length)
    (h2 : A.d2 = qc.length) (hsp : SparseT3 A (QN.flatten2 qd qd) qa qc) :
    Sparse (MPS.splitMat A qd.length qd.length).tab (QN.flatten2 qd qa) (QN.flatten2 (QN.neg qd) qc) := by
  intro r c hr hc hne
  have hr' : r < qd.length * A.d1 := hr
  have hc' : c < qd.length * A.d2 := hc
  rw [Env.mat_tab_f (MPS.splitMat A qd.length qd.length) hr hc] at hne
  have hne' : A.f ((r / A.d1) * qd.length + c / A.d2) (r % A.d1) (c % A.d2) ≠ 0 := hne
  have p1 : 0 < A.d1 := by
    rcases Nat.eq_zero_or_pos A.d1 with h | h
    · rw [h] at hr'; simp at hr'
    · exact h
  have p2 : 0 < A.d2 := by
    rcases Nat.eq_zero_or_pos A.d2 with h | h
    · rw [h] at hc'; simp at hc'
    · exact h
  have hrd : r / A.d1 < qd.length := by rw [Nat.mul_comm] at hr'; exact Nat.div_lt_of_lt_mul hr'
  have hcd : c / A.d2 < qd.length := by rw [Nat.mul_comm] at hc'; exact Nat.div_lt_of_lt_mul hc'
  have e := hsp _ _ _ (by rw [hd0]; exact Ortho.fused_lt hrd hcd) (Nat.mod_lt _ p1) (Nat.mod_lt _ p2) hne'
  rw [flatten2_getD _ _ hrd hcd] at e
  have er : r = r / A.d1 * qa.length + r % A.d1 := by
    rw [← h1, Nat.mul_comm]; exact (Nat.div_add_mod r A.d1).symm
  have ec : c = c / A.d2 * qc.length + c % A.d2 := by
    rw [← h2, Nat.mul_comm]; exact (Nat.div_add_mod c A.d2).symm
  have g1 : (QN.flatten2 qd qa).getD r 0 = qd.getD (r / A.d1) 0 + qa.getD (r % A.d1) 0 := by
    conv_lhs => rw [er]
    exact flatten2_getD _ _ hrd (by rw [← h1]; exact Nat.mod_lt _ p1)
  have g2 : (QN.flatten2 (QN.neg qd) qc).getD c 0 = - qd.getD (c / A.d2) 0 + qc.getD (c % A.d2) 0 := by
    conv_lhs => rw [ec]
    rw [flatten2_getD _ _ (by rw [neg_length]; exact hcd) (by rw [← h2]; exact Nat.mod_lt _ p2), neg_getD]
  rw [g1, g2]
  omega

/-- **`split_mps_tensor` returns** on a two-site tensor that is block sparse w.r.t. the fused physical charges and has no
empty axis (`svd_distr ∈ {left, right, sqrt}`, every tolerance): the `is_qsparse` assertion of `split_matrix_svd` holds, and
`assert D <= max_interm_dim` holds by the shape clause of the SVD contract -/
theorem splitMps_total {ks : MPS.SvdKernels 𝕜 ℝ} (hk : Compress.SvdKernel ks) (dsqrt : ℝ → ℝ) {A : T3 𝕜}
    {qd qa qc : List Int} (hd0 : A.d0 = qd.length * qd.length) (h1 : A.d1 = qa.length) (h2 : A.d2 = qc.length)
    (hsp : SparseT3 A (QN.flatten2 qd qd) qa qc) (hd : 0 < qd.length) (ha : 0 < qa.length) (hc : 0 < qc.length)
    {distr : Nat} (hdistr : distr ≤ 2) (tol : ℝ) :
    ∃ A0 A1 qb, MPS.splitMpsTensor ks dsqrt A qd qd qa qc distr tol = .ok (A0, A1, qb) := by
  have hq0 : (QN.flatten2 qd qa).length = (MPS.splitMat A qd.length qd.length).tab.m := by
    rw [flatten2_length, ← h1]; rfl
  have hq1 : (QN.flatten2 (QN.neg qd) qc).length = (MPS.splitMat A qd.length qd.length).tab.n := by
    rw [flatten2_length, neg_length, ← h2]; rfl
  have hm : 0 < (MPS.splitMat A qd.length qd.length).tab.m := by
    show 0 < qd.length * A.d1
    rw [h1]; exact Nat.mul_pos hd ha
  have hn : 0 < (MPS.splitMat A qd.length qd.length).tab.n := by
    show 0 < qd.length * A.d2
    rw [h2]; exact Nat.mul_pos hd hc
  obtain ⟨U, σ, V, q, hrun⟩ := C12.split_ok ks.dnorm ks.dargsort tol (hk.svd.on _ _ _).shape hq0 hq1 hm hn
    (splitMat_sparse hd0 h1 h2 hsp)
  unfold MPS.splitMpsTensor
  simp only [pyAssert_bind]
  have hrun' : splitMatrixSvd ks.dsvd ks.dnorm ks.dargsort
      (⟨qd.length * A.d1, qd.length * A.d2,
        fun r c => A.f ((r / A.d1) * qd.length + c / A.d2) (r % A.d1) (c % A.d2)⟩ : Mat 𝕜).tab
      (QN.flatten2 qd qa) (QN.flatten2 (QN.neg qd) qc) tol = .ok (U, σ, V, q) := hrun
  rw [hrun']
  simp only [bind, Except.bind]
  rw [if_neg (by omega)]
  exact ⟨_, _, _, ⟨by simp [hd0], rfl⟩⟩

/-! ## the gauge step at an arbitrary tolerance -/

/-- reading the `do` block of `split_mps_tensor`: the entries of the factor that carries the singular values -/
theorem splitMps_weighted {k : MPS.SvdKernels 𝕜 ℝ} {dsqrt : ℝ → ℝ} {A A0 A1 : T3 𝕜} {qd0 qd1 qD0 qD2 : List Int}
    {distr : Nat} {tol : ℝ} {qb : List Int}
    (h : MPS.splitMpsTensor k dsqrt A qd0 qd1 qD0 qD2 distr tol = .ok (A0, A1, qb)) :
    ∃ U σ V,
      splitMatrixSvd k.dsvd k.dnorm k.dargsort (MPS.splitMat A qd0.length qd1.length).tab (QN.flatten2 qd0 qD0)
        (QN.flatten2 (QN.neg qd1) qD2) tol = .ok (U, σ, V, qb) ∧
      (distr = 0 → ∀ s a p, s < qd0.length → a < A.d1 → p < σ.length →
        A0.f s a p = U.f (s * A.d1 + a) p * ((σ.getD p 0 : ℝ) : 𝕜)) ∧
      (distr = 1 → ∀ s p c, s < qd1.length → p < σ.length → c < A.d2 →
        A1.f s p c = V.f p (s * A.d2 + c) * ((σ.getD p 0 : ℝ) : 𝕜)) := by
  unfold MPS.splitMpsTensor at h
  simp only [Dense.pyAssert_bind] at h
  obtain ⟨_, h⟩ := h
  simp only [Dense.bind_ok] at h
  obtain ⟨⟨U, σ, V, q⟩, hsvd, h⟩ := h
  simp only at h
  split at h
  · rw [Dense.throw_bind_ne] at h
    exact h.elim
  · simp only [Dense.pure_ok, Prod.mk.injEq] at h
    obtain ⟨rfl, rfl, rfl⟩ := h
    refine ⟨U, σ, V, hsvd, ?_, ?_⟩
    · intro h0 s a p hs ha hp
      subst h0
      rw [Env.t3_tab_f (A := ⟨qd0.length, A.d1, σ.length, _⟩) hs ha hp]
      show (if (0 : Nat) = 1 then U.f (s * A.d1 + a) p else U.f (s * A.d1 + a) p * RealLike.ofReal (σ.toArray.getD p 0)) = _
      rw [if_neg (by omega), toArray_getD]
      rfl
    · intro h1 s p c hs hp hc
      subst h1
      rw [Env.t3_tab_f (A := ⟨qd1.length, σ.length, A.d2, _⟩) hs hp hc]
      show (if (1 : Nat) = 0 then V.f p (s * A.d2 + c) else V.f p (s * A.d2 + c) * RealLike.ofReal (σ.toArray.getD p 0)) = _
      rw [if_neg (by omega), toArray_getD]
      rfl

/-- what a successful `split_mps_tensor` with a tolerance `0 ≤ tol < 1` of a non-zero two-site tensor `A` returns -/
structure SplitFactsT (A A0 A1 : T3 𝕜) (qb : List Int) (d : Nat) (distr : Nat) : Prop where
  a0 : A0.d0 = d ∧ A0.d1 = A.d1 ∧ A0.d2 = qb.length
  a1 : A1.d0 = d ∧ A1.d1 = qb.length ∧ A1.d2 = A.d2
  pos : 0 < qb.length
  liso : distr = 1 → LeftIso A0
  riso : distr = 0 → RightIso A1
  wpos0 : distr = 0 → 0 < frob3 A0
  wpos1 : distr = 1 → 0 < frob3 A1

/-- **The gauge step of the two-site sweeps at an arbitrary tolerance `0 ≤ tol < 1`.**  The bond is not empty, the factor
without the singular values is an isometry, and the factor with the singular values has squared Frobenius norm
`Σ kept σ² ≥ (1 - tol) ‖A‖² > 0`. -/
theorem split_facts_tol {k : MPS.SvdKernels 𝕜 ℝ} (hk : Compress.SvdKernel k) {dsqrt : ℝ → ℝ} {A A0 A1 : T3 𝕜}
    {qd qD0 qD2 : List Int} {distr : Nat} {qb : List Int} (hd : 0 < qd.length) (h1 : 0 < A.d1)
    (h2 : 0 < A.d2) (hpos : 0 < frob3 A) {tol : ℝ} (ht0 : 0 ≤ tol) (ht1 : tol < 1)
    (h : MPS.splitMpsTensor k dsqrt A qd qd qD0 qD2 distr tol = .ok (A0, A1, qb)) :
    SplitFactsT A A0 A1 qb qd.length distr := by
  obtain ⟨hdd, U, σ, V, hsvd, a0, a1, fL, fR⟩ := splitMps_unfold h
  obtain ⟨U', σ', V', hsvd', wL, wR⟩ := splitMps_weighted h
  have e := Except.ok.inj (hsvd.symm.trans hsvd')
  simp only [Prod.mk.injEq] at e
  obtain ⟨rfl, rfl, rfl, _⟩ := e
  obtain ⟨hq0, hq1, hsp⟩ := MPS.splitMatrixSvd_pre _ _ _ _ _ _ _ _ hsvd
  have H : QRInput (MPS.splitMat A qd.length qd.length).tab (QN.flatten2 qd qD0) (QN.flatten2 (QN.neg qd) qD2) :=
    ⟨hq0, hq1, Nat.mul_pos hd h1, Nat.mul_pos hd h2, hsp⟩
  have hfm : 0 < Compress.frobM (MPS.splitMat A qd.length qd.length).tab := by
    rw [frobM_splitMat A hdd]; exact hpos
  have S := Compress.splitSem_of_run hk ht0 ht1 H hfm hsvd
  have hsq : 0 < Compress.sqSum σ := lt_of_lt_of_le (mul_pos (by linarith) hfm) S.wge
  refine ⟨⟨a0.1, a0.2.1, a0.2.2.trans S.ql.symm⟩, ⟨a1.1, a1.2.1.trans S.ql.symm, a1.2.2⟩, by rw [S.ql]; exact S.pos,
    ?_, ?_, ?_, ?_⟩
  · intro hdis p p' hp hp'
    rw [a0.2.2] at hp hp'
    rw [a0.1, a0.2.1, ← S.isoU p p' hp hp']
    show _ = ∑ i ∈ range (qd.length * A.d1), _
    rw [Ortho.sum_fused]
    refine sum_congr rfl fun s hs => sum_congr rfl fun a ha => ?_
    rw [fL hdis s a p (mem_range.1 hs) (mem_range.1 ha) hp, fL hdis s a p' (mem_range.1 hs) (mem_range.1 ha) hp']
  · intro hdis p p' hp hp'
    rw [a1.2.1] at hp hp'
    have := S.isoV p' p hp' hp
    rw [a1.1, a1.2.2]
    have e : (if p = p' then (1 : 𝕜) else 0) = if p' = p then 1 else 0 := by
      by_cases hpp : p = p'
      · subst hpp; rfl
      · rw [if_neg hpp, if_neg (fun e => hpp e.symm)]
    rw [e, ← this]
    show _ = ∑ j ∈ range (qd.length * A.d2), _
    rw [Ortho.sum_fused]
    refine sum_congr rfl fun s hs => sum_congr rfl fun c hc => ?_
    rw [fR hdis s p c (mem_range.1 hs) hp (mem_range.1 hc), fR hdis s p' c (mem_range.1 hs) hp' (mem_range.1 hc), mul_comm]
  · -- `A0 = U · diag σ`: squared norm `Σ σ²`
    intro hdis
    have hF : Compress.frobM (⟨σ.length, qd.length * A.d1, fun p i => ((σ.getD p 0 : ℝ) : 𝕜) * U.f i p⟩ : Mat 𝕜) =
        Compress.sqSum σ := by
      refine Compress.frobM_scaled_rows _ (fun p i => U.f i p) σ rfl ?_ (fun p j _ _ => rfl)
      intro p hp
      have := S.isoU p p hp hp
      rw [if_pos rfl] at this
      rw [← this]
      show ∑ j ∈ range (qd.length * A.d1), _ = ∑ i ∈ range (qd.length * A.d1), _
      exact sum_congr rfl fun j _ => mul_comm _ _
    have hE : frob3 A0 = Compress.frobM (⟨σ.length, qd.length * A.d1,
        fun p i => ((σ.getD p 0 : ℝ) : 𝕜) * U.f i p⟩ : Mat 𝕜) := by
      unfold frob3 Compress.frobM
      rw [a0.1, a0.2.1, a0.2.2]
      show _ = ∑ p ∈ range σ.length, ∑ i ∈ range (qd.length * A.d1), _
      conv_rhs => rw [Finset.sum_comm, Ortho.sum_fused]
      refine sum_congr rfl fun s hs => sum_congr rfl fun a ha => sum_congr rfl fun p hp => ?_
      rw [wL hdis s a p (mem_range.1 hs) (mem_range.1 ha) (mem_range.1 hp), mul_comm]
    rw [hE, hF]; exact hsq
  · -- `A1 = diag σ · V`
    intro hdis
    have hF : Compress.frobM (⟨σ.length, qd.length * A.d2, fun p j => ((σ.getD p 0 : ℝ) : 𝕜) * V.f p j⟩ : Mat 𝕜) =
        Compress.sqSum σ := by
      refine Compress.frobM_scaled_rows _ V.f σ rfl ?_ (fun p j _ _ => rfl)
      intro p hp
      have := S.isoV p p hp hp
      rw [if_pos rfl] at this
      rw [← this]
      rfl
    have hE : frob3 A1 = Compress.frobM (⟨σ.length, qd.length * A.d2,
        fun p j => ((σ.getD p 0 : ℝ) : 𝕜) * V.f p j⟩ : Mat 𝕜) := by
      unfold frob3 Compress.frobM
      rw [a1.1, a1.2.1, a1.2.2]
      show _ = ∑ p ∈ range σ.length, ∑ j ∈ range (qd.length * A.d2), _
      rw [Finset.sum_comm]
      refine sum_congr rfl fun p hp => ?_
      rw [Ortho.sum_fused]
      refine sum_congr rfl fun s hs => sum_congr rfl fun c hc => ?_
      rw [wR hdis s p c (mem_range.1 hs) (mem_range.1 hp) (mem_range.1 hc), mul_comm]
    rw [hE, hF]; exact hsq

end Ptn.Evo

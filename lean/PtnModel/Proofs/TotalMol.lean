import PtnModel.Proofs.TotalFermi
import PtnModel.Proofs.HamSpinChains
import PtnModel.Proofs.HamMolGraphWords
/-!
# The bond-optimized spinless molecular construction returns

Every chain of the enumeration `molChains` is Jordan-Wigner shaped (`JW`: the interleaved charges follow the operators), hence charge
consistent under `qd = [0, 1]` and the tables of `molOpmap`; with `C05`'s pipeline theorem the whole constructor returns as soon as one
chain has a non-zero coefficient.
-/
set_option linter.unusedSectionVars false
set_option linter.unusedSimpArgs false
set_option linter.unreachableTactic false
set_option linter.unusedTactic false

namespace Ptn.Ham
open Ptn.Og List

section
variable {κ : Type} [Add κ] [Mul κ] [Neg κ] [OfNat κ 0] [OfNat κ 1] [DecidableEq κ]

/-- the chain is Jordan-Wigner shaped: leading charge 0 and the charges follow the operators -/
def JWReady (c : OpChain κ) : Prop := ∃ tail, c.qnums = 0 :: tail ∧ JW 0 c.oids tail

theorem jwReady_intro {c : OpChain κ} {X : Int} (R : ListsReady c.oids c.qnums c.istart X) : JWReady c := R.ex

theorem diag_jw (coeff : κ) (m : Int) (h0 : 0 ≤ m) :
    ∃ ch, OpChain.mk' [mN] [0, 0] coeff m = .ok ch ∧ JWReady ch :=
  ⟨⟨[mN], [0, 0], coeff, m⟩, mk'_ok _ _ _ _ rfl h0, [0], rfl,
    JW_op 0 0 mN isMol_N N_ne_Z N_ne_I (by simp [ch_N]) _ _ trivial⟩

theorem molHopChain_jw (L i j : Int) (coeff : κ) (hi : 0 ≤ i) (hj : 0 ≤ j) (hiL : i < L) (hjL : j < L) (hij : i ≠ j) :
    ∃ ch, molHopChain i j coeff = .ok ch ∧ ChainWF L ch ∧ JWReady ch ∧ ch.coeff = coeff := by
  obtain ⟨ch, hch, hwf⟩ := molHopChain_wf L i j coeff hi hj hiL hjL hij
  refine ⟨ch, hch, hwf, ?_⟩
  unfold molHopChain at hch
  rcases Int.lt_or_gt_of_ne hij with h | h
  · sort_eval' at hch
    have := mk'_inv hch
    subst this
    exact ⟨(hop_ready i j 1 (-1) h (Or.inl rfl) (Or.inr rfl) (by decide)).ex, rfl⟩
  · sort_eval' at hch
    have := mk'_inv hch
    subst this
    exact ⟨(hop_ready j i (-1) 1 h (Or.inr rfl) (Or.inl rfl) (by decide)).ex, rfl⟩

theorem molIntChain_jw_lt (L i j k l : Int) (coeff : κ) (hi : 0 ≤ i) (hij : i < j) (hjL : j < L)
    (hk : 0 ≤ k) (hkl : k < l) (hlL : l < L) (h1 : i < k) :
    ∃ ch, molIntChain i j k l coeff = .ok ch ∧ ChainWF L ch ∧ JWReady ch ∧ ch.coeff = coeff := by
  obtain ⟨ch, hch, hwf⟩ := molIntChain_wf L i j k l coeff hi hij hjL hk hkl hlL
  refine ⟨ch, hch, hwf, ?_⟩
  unfold molIntChain at hch
  have t2 := Int.lt_trichotomy i l
  have t3 := Int.lt_trichotomy j k
  have t4 := Int.lt_trichotomy j l
  rcases t2 with h2 | h2 | h2 <;> rcases t3 with h3 | h3 | h3 <;> rcases t4 with h4 | h4 | h4 <;>
    first
    | (exfalso; omega)
    | (subst_vars
       sort_eval' at hch
       have hinv := mk'_inv hch
       subst hinv
       refine ⟨?_, rfl⟩
       apply jwReady_intro
       first
         | (apply generic_ready <;> first | omega | decide)
         | (apply nn_ready; omega)
         | (apply nfirst_ready <;> first | omega | decide)
         | (apply nmid_ready <;> first | omega | decide | rfl)
         | (apply nlast_ready <;> first | omega | decide))

theorem molIntChain_jw_eq (L i j k l : Int) (coeff : κ) (hi : 0 ≤ i) (hij : i < j) (hjL : j < L)
    (hk : 0 ≤ k) (hkl : k < l) (hlL : l < L) (h1 : i = k) :
    ∃ ch, molIntChain i j k l coeff = .ok ch ∧ ChainWF L ch ∧ JWReady ch ∧ ch.coeff = coeff := by
  obtain ⟨ch, hch, hwf⟩ := molIntChain_wf L i j k l coeff hi hij hjL hk hkl hlL
  refine ⟨ch, hch, hwf, ?_⟩
  unfold molIntChain at hch
  have t2 := Int.lt_trichotomy i l
  have t3 := Int.lt_trichotomy j k
  have t4 := Int.lt_trichotomy j l
  rcases t2 with h2 | h2 | h2 <;> rcases t3 with h3 | h3 | h3 <;> rcases t4 with h4 | h4 | h4 <;>
    first
    | (exfalso; omega)
    | (subst_vars
       sort_eval' at hch
       have hinv := mk'_inv hch
       subst hinv
       refine ⟨?_, rfl⟩
       apply jwReady_intro
       first
         | (apply generic_ready <;> first | omega | decide)
         | (apply nn_ready; omega)
         | (apply nfirst_ready <;> first | omega | decide)
         | (apply nmid_ready <;> first | omega | decide | rfl)
         | (apply nlast_ready <;> first | omega | decide))

theorem molIntChain_jw_gt (L i j k l : Int) (coeff : κ) (hi : 0 ≤ i) (hij : i < j) (hjL : j < L)
    (hk : 0 ≤ k) (hkl : k < l) (hlL : l < L) (h1 : k < i) :
    ∃ ch, molIntChain i j k l coeff = .ok ch ∧ ChainWF L ch ∧ JWReady ch ∧ ch.coeff = coeff := by
  obtain ⟨ch, hch, hwf⟩ := molIntChain_wf L i j k l coeff hi hij hjL hk hkl hlL
  refine ⟨ch, hch, hwf, ?_⟩
  unfold molIntChain at hch
  have t2 := Int.lt_trichotomy i l
  have t3 := Int.lt_trichotomy j k
  have t4 := Int.lt_trichotomy j l
  rcases t2 with h2 | h2 | h2 <;> rcases t3 with h3 | h3 | h3 <;> rcases t4 with h4 | h4 | h4 <;>
    first
    | (exfalso; omega)
    | (subst_vars
       sort_eval' at hch
       have hinv := mk'_inv hch
       subst hinv
       refine ⟨?_, rfl⟩
       apply jwReady_intro
       first
         | (apply generic_ready <;> first | omega | decide)
         | (apply nn_ready; omega)
         | (apply nfirst_ready <;> first | omega | decide)
         | (apply nmid_ready <;> first | omega | decide | rfl)
         | (apply nlast_ready <;> first | omega | decide))

theorem molIntChain_jw (L i j k l : Int) (coeff : κ) (hi : 0 ≤ i) (hij : i < j) (hjL : j < L)
    (hk : 0 ≤ k) (hkl : k < l) (hlL : l < L) :
    ∃ ch, molIntChain i j k l coeff = .ok ch ∧ ChainWF L ch ∧ JWReady ch ∧ ch.coeff = coeff := by
  rcases Int.lt_trichotomy i k with h1 | h1 | h1
  · exact molIntChain_jw_lt L i j k l coeff hi hij hjL hk hkl hlL h1
  · exact molIntChain_jw_eq L i j k l coeff hi hij hjL hk hkl hlL h1
  · exact molIntChain_jw_gt L i j k l coeff hi hij hjL hk hkl hlL h1

end
end Ptn.Ham

namespace Ptn.Ham
open Ptn.Og List

section
variable {κ : Type} [Add κ] [Mul κ] [Neg κ] [OfNat κ 0] [OfNat κ 1] [DecidableEq κ]

theorem mapM_spec {α β γ : Type} (f : α → Except Err β) (P : β → Prop) (cx : α → γ) (cy : β → γ) :
    ∀ l : List α, (∀ x ∈ l, ∃ y, f x = .ok y ∧ P y ∧ cy y = cx x) →
      ∃ ys, l.mapM f = .ok ys ∧ (∀ y ∈ ys, P y) ∧ ys.map cy = l.map cx := by
  intro l
  induction l with
  | nil => intro _; exact ⟨[], by simp [pure, Except.pure], by simp, rfl⟩
  | cons x xs ih =>
    intro h
    obtain ⟨y, hy, py, cyx⟩ := h x List.mem_cons_self
    obtain ⟨ys, hys, pys, hm⟩ := ih (fun z hz => h z (List.mem_cons_of_mem _ hz))
    refine ⟨y :: ys, ?_, ?_, by simp [cyx, hm]⟩
    · simp [List.mapM_cons, hy, hys, bind, Except.bind, pure, Except.pure]
    · intro z hz
      rcases List.mem_cons.1 hz with rfl | hz
      · exact py
      · exact pys z hz

/-- index pairs of the hopping terms -/
def molHopIdx (L : Int) : List (Int × Int) := (pyRange 0 L).flatMap fun i => (pyRange 0 L).map fun j => (i, j)

/-- index quadruples `i < j`, `k < l` of the interaction terms -/
def molIntIdx (L : Int) : List (Int × Int × Int × Int) :=
  (pyRange 0 L).flatMap fun i => (pyRange (i + 1) L).flatMap fun j =>
    (pyRange 0 L).flatMap fun k => (pyRange (k + 1) L).map fun l => (i, j, k, l)

/-- **the exact non-vanishing condition of the bond-optimized spinless construction**: some hopping coefficient `t_ij` or some
antisymmetrised interaction coefficient `g_ijkl` (`i < j`, `k < l`) is non-zero -/
def MolNonzero (c : Consts κ) (tkin : List (List κ)) (vint : List (List (List (List κ)))) : Prop :=
  (∃ x ∈ molHopIdx (tkin.length : Int), t2 tkin x.1 x.2 ≠ 0) ∨
  (∃ x ∈ molIntIdx (tkin.length : Int), gint c vint x.1 x.2.1 x.2.2.1 x.2.2.2 ≠ 0)

instance (c : Consts κ) (tkin : List (List κ)) (vint : List (List (List (List κ)))) : Decidable (MolNonzero c tkin vint) := by
  unfold MolNonzero; infer_instance

/-- the enumeration returns chains that are well formed and Jordan-Wigner shaped, with exactly the listed coefficients -/
theorem molChains_jw (c : Consts κ) (tkin : List (List κ)) (vint : List (List (List (List κ)))) :
    ∃ chains, molChains c tkin vint = .ok chains ∧ (∀ ch ∈ chains, ChainWF (tkin.length : Int) ch ∧ JWReady ch) ∧
      chains.map (·.coeff) = (molHopIdx (tkin.length : Int)).map (fun x => t2 tkin x.1 x.2) ++
        (molIntIdx (tkin.length : Int)).map (fun x => gint c vint x.1 x.2.1 x.2.2.1 x.2.2.2) := by
  unfold molChains
  obtain ⟨hop, hhop, phop, chop⟩ := mapM_spec
    (fun (x : Int × Int) => match x with
      | (i, j) => if i == j then OpChain.mk' [mN] [0, 0] (t2 tkin i i) i else molHopChain i j (t2 tkin i j))
    (fun ch => ChainWF (tkin.length : Int) ch ∧ JWReady ch) (fun x => t2 tkin x.1 x.2) (·.coeff)
    (molHopIdx (tkin.length : Int))
    (by
      rintro ⟨i, j⟩ hx
      simp only [molHopIdx, List.mem_flatMap, List.mem_map, mem_pyRange, Prod.mk.injEq] at hx
      obtain ⟨i', ⟨hi0, hiL⟩, j', ⟨hj0, hjL⟩, rfl, rfl⟩ := hx
      by_cases hij : i' = j'
      · subst hij
        simp only [beq_self_eq_true, if_true]
        obtain ⟨ch, h1, h2⟩ := diag_jw (t2 tkin i' i') i' hi0
        have := mk'_inv h1
        subst this
        exact ⟨_, h1, ⟨⟨rfl, by simp, hi0, by simp; omega, rfl, rfl⟩, h2⟩, rfl⟩
      · have : (i' == j') = false := by simpa using hij
        simp only [this, Bool.false_eq_true, if_false]
        obtain ⟨ch, h1, h2, h3, h4⟩ := molHopChain_jw _ i' j' (t2 tkin i' j') hi0 hj0 hiL hjL hij
        exact ⟨ch, h1, ⟨h2, h3⟩, h4⟩)
  obtain ⟨int, hint, pint, cint⟩ := mapM_spec
    (fun (x : Int × Int × Int × Int) => match x with
      | (i, j, k, l) => molIntChain i j k l (gint c vint i j k l))
    (fun ch => ChainWF (tkin.length : Int) ch ∧ JWReady ch) (fun x => gint c vint x.1 x.2.1 x.2.2.1 x.2.2.2) (·.coeff)
    (molIntIdx (tkin.length : Int))
    (by
      rintro ⟨i, j, k, l⟩ hx
      simp only [molIntIdx, List.mem_flatMap, List.mem_map, mem_pyRange, Prod.mk.injEq] at hx
      obtain ⟨i', ⟨hi0, hiL⟩, j', ⟨hj0, hjL⟩, k', ⟨hk0, hkL⟩, l', ⟨hl0, hlL⟩, rfl, rfl, rfl, rfl⟩ := hx
      obtain ⟨ch, h1, h2, h3, h4⟩ := molIntChain_jw _ i' j' k' l' (gint c vint i' j' k' l') hi0 (by omega) hjL hk0 (by omega) hlL
      exact ⟨ch, h1, ⟨h2, h3⟩, h4⟩)
  refine ⟨hop ++ int, ?_, ?_, by rw [map_append, chop, cint]⟩
  · have e1 : ((pyRange 0 (tkin.length : Int)).flatMap fun i => (pyRange 0 (tkin.length : Int)).map fun j => (i, j))
        = molHopIdx (tkin.length : Int) := rfl
    have e2 : ((pyRange 0 (tkin.length : Int)).flatMap fun i => (pyRange (i + 1) (tkin.length : Int)).flatMap fun j =>
        (pyRange 0 (tkin.length : Int)).flatMap fun k => (pyRange (k + 1) (tkin.length : Int)).map fun l => (i, j, k, l))
        = molIntIdx (tkin.length : Int) := rfl
    simp only [e1, e2, hhop, hint, bind, Except.bind, pure, Except.pure]
  · intro ch hch
    rcases List.mem_append.1 hch with h | h
    · exact phop ch h
    · exact pint ch h

end
end Ptn.Ham

namespace Ptn.Ham
open Ptn Ptn.Og Ptn.Ch Ptn.Ham2 List

variable {κ : Type} [CommRing κ] [DecidableEq κ]

theorem lf_charge_N : OpHasCharge [0, 1] (fermiN : Og.Mat κ) 0 := by unfold fermiN; charge_cases
theorem lf_sq_N : Ham.IsSquare 2 (fermiN : Og.Mat κ) := by simp [Ham.IsSquare, fermiN]

/-- every table of `molOpmap` shifts the occupation number by the charge `ch` of its operator id -/
theorem mol_table_charged (o : Int) (ho : isMolOid o) (q : Int) :
    TableCharged [0, 1] (q - (q + ch o)) ((molOpmap : OpMap κ).lookup o) := by
  rcases ho with rfl | rfl | rfl | rfl | rfl
  · exact tableCharged_of_hasCharge [0, 1] _ (-1) lf_sq_A lf_charge_A _ rfl _ (by simp [ch, mA, mC])
  · exact tableCharged_of_hasCharge [0, 1] _ 0 lf_sq_I lf_charge_I _ rfl _ (by simp [ch, mI, mA, mC])
  · exact tableCharged_of_hasCharge [0, 1] _ 1 lf_sq_C lf_charge_C _ rfl _ (by simp [ch, mA, mC])
  · exact tableCharged_of_hasCharge [0, 1] _ 0 lf_sq_N lf_charge_N _ rfl _ (by simp [ch, mN, mA, mC])
  · exact tableCharged_of_hasCharge [0, 1] _ 0 lf_sq_Z lf_charge_Z _ rfl _ (by simp [ch, mZ, mA, mC])

theorem chOK_of_JW (P : Int → Int → Int → Prop) (hP : ∀ o q, isMolOid o → P o q (q + ch o)) :
    ∀ (oids qs : List Int) (q : Int), JW q oids qs → chOK P oids (q :: qs) := by
  intro oids
  induction oids with
  | nil => intro qs q _; trivial
  | cons o os ih =>
    intro qs q h
    cases qs with
    | nil => simp [JW] at h
    | cons q' qs =>
      simp only [JW] at h
      obtain ⟨h1, _, _, h4, h5⟩ := h
      exact ⟨by rw [h1]; exact hP o q h4, ih qs q' h5⟩

/-- `OpsCharged` for the graph compiled from Jordan-Wigner shaped chains over `molOpmap` -/
theorem mol_opsCharged (chains : List (OpChain κ)) (L : Int) (g : Graph κ) (hg : fromOpchains chains L 0 = .ok g)
    (hwf : ∀ ch ∈ chains, ChainWF L ch ∧ JWReady ch) : OpsCharged [0, 1] g molOpmap := by
  have := fromOpchains_charged (fun o q0 q1 => TableCharged [0, 1] (q0 - q1) ((molOpmap : OpMap κ).lookup o)) chains L 0 g hg
    (by have := mol_table_charged (κ := κ) mI (Or.inr (Or.inl rfl)) 0; simpa [ch, mI, mA, mC] using this)
    (fun c hc _ => by
      obtain ⟨w, tail, hq, jw⟩ := hwf c hc
      refine ⟨w.lens, w.q0, w.qlast, ?_⟩
      rw [hq]
      exact chOK_of_JW _ (fun o q ho => mol_table_charged o ho q) _ _ _ jw)
  intro p hp oc hoc
  obtain ⟨_, _, h3⟩ := this p hp
  obtain ⟨q0, q1, b1, b2, b3⟩ := h3 oc hoc
  have e1 : qOf g p.2.nids.1 = q0 := by
    unfold qOf; unfold nq at b1; rw [b1]; rfl
  have e2 : qOf g p.2.nids.2 = q1 := by
    unfold qOf; unfold nq at b2; rw [b2]; rfl
  rw [e1, e2]
  exact b3

/-- **`molecular_hamiltonian_mpo(tkin, vint, optimize=True)` returns** for well-shaped tensors, `L ≥ 1` and `MolNonzero` -/
theorem molBuildOpt_total (c : Consts κ) (tkin : List (List κ)) (vint : List (List (List (List κ))))
    (hsh : shapesOk tkin vint = true) (hL : 1 ≤ tkin.length) (hnz : MolNonzero c tkin vint) :
    ∃ b, molBuildOpt c tkin vint = .ok b := by
  obtain ⟨chains, hch, hwf, hco⟩ := molChains_jw c tkin vint
  have hne : ∃ ch ∈ chains, ch.coeff ≠ 0 := by
    have : ∃ v ∈ chains.map (·.coeff), v ≠ 0 := by
      rw [hco]
      rcases hnz with ⟨x, hx, hv⟩ | ⟨x, hx, hv⟩
      · exact ⟨_, mem_append_left _ (mem_map_of_mem hx), hv⟩
      · exact ⟨_, mem_append_right _ (mem_map_of_mem hx), hv⟩
    obtain ⟨v, hv, hv0⟩ := this
    obtain ⟨ch', hch', rfl⟩ := mem_map.1 hv
    exact ⟨ch', hch', hv0⟩
  have hcw : ChainsWF chains (tkin.length : Int) := by
    refine ⟨by omega, hne, ?_⟩
    intro ch hc _
    have w := (hwf ch hc).1
    exact ⟨w.start, w.fits, w.lens, w.q0, w.qlast⟩
  obtain ⟨g1, _, _, _, t, hg, _⟩ := fromOpchains_result chains (tkin.length : Int) 0 hcw
  have hc := fromOpchains_consistent chains _ 0 _ hg
  have hops := mol_opsCharged chains _ _ hg hwf
  obtain ⟨out, hout⟩ := fromOpgraph_total [0, 1] _ molOpmap false hc (by simp) hops
  refine ⟨⟨[0, 1], molOpmap, finalGraph g1 t, out⟩, ?_⟩
  unfold molBuildOpt
  simp only [hsh, pyAssert, if_true, hch, hg, hc, hout, bind, Except.bind, pure, Except.pure]
  split <;> rfl

/-- the condition is necessary -/
theorem molBuildOpt_only_if (c : Consts κ) (tkin : List (List κ)) (vint : List (List (List (List κ)))) (b : Built κ)
    (hb : molBuildOpt c tkin vint = .ok b) (hL : 1 ≤ tkin.length) :
    shapesOk tkin vint = true ∧ MolNonzero c tkin vint := by
  obtain ⟨chains, hch, hwf, hco⟩ := molChains_jw c tkin vint
  unfold molBuildOpt at hb
  obtain ⟨_, hs, hb⟩ := bind_ok hb
  obtain ⟨chains', hch', hb⟩ := bind_ok hb
  rw [hch] at hch'
  simp only [Except.ok.injEq] at hch'
  subst hch'
  obtain ⟨g, hg, _⟩ := bind_ok hb
  refine ⟨pyAssert_ok hs, ?_⟩
  have hcw := chainsWF_of_ok chains _ 0 g hg (by omega) (fun ch hc _ => by
    have w := (hwf ch hc).1
    exact ⟨w.start, w.fits, w.lens, w.q0, w.qlast⟩)
  obtain ⟨ch, hc, hc0⟩ := hcw.2.1
  have : ch.coeff ∈ chains.map (·.coeff) := mem_map_of_mem hc
  rw [hco, mem_append] at this
  rcases this with h | h
  · obtain ⟨x, hx, hv⟩ := mem_map.1 h
    exact Or.inl ⟨x, hx, by rw [hv]; exact hc0⟩
  · obtain ⟨x, hx, hv⟩ := mem_map.1 h
    exact Or.inr ⟨x, hx, by rw [hv]; exact hc0⟩

end Ptn.Ham

import PtnModel.Proofs.DenseBasic
import PtnModel.Proofs.DenseExcept
/-!
# `merge_mps_tensor_pair` undoes `split_mps_tensor` when the SVD split reconstructs the matrix

The reconstruction fact about `split_matrix_svd` (`U · diag(σ) · V = M` on in-range entries, which holds for zero
tolerance under the SVD kernel contract) is an explicit hypothesis here.
-/
namespace Ptn.MPS
open Finset Dense BondOps

variable {R ρ : Type} [CommRing R] [DecidableEq R]
  [RealLike ρ R] [OfNat ρ 0] [Add ρ] [Mul ρ] [Div ρ] [LT ρ] [DecidableEq ρ] [DecidableLT ρ]

/-- the matrix handed to `split_matrix_svd` by `split_mps_tensor` (before memoisation) -/
def splitMat (A : T3 R) (d0 d1 : Nat) : Mat R :=
  ⟨d0 * A.d1, d1 * A.d2, fun r c => A.f ((r / A.d1) * d1 + c / A.d2) (r % A.d1) (c % A.d2)⟩

/-- version with the hypotheses only required when the reshaped matrix is non-empty -/
theorem split_merge' (k : SvdKernels R ρ) (dsqrt : ρ → ρ) (A : T3 R) (qd0 qd1 qD0 qD2 : List Int) (distr : Nat)
    (tol : ρ) (B0 B1 : T3 R) (qb : List Int)
    (h : splitMpsTensor k dsqrt A qd0 qd1 qD0 qD2 distr tol = .ok (B0, B1, qb))
    (hrec : 0 < qd0.length * A.d1 → 0 < qd1.length * A.d2 →
      ∀ U σ V q, splitMatrixSvd k.dsvd k.dnorm k.dargsort (splitMat A qd0.length qd1.length).tab
        (QN.flatten2 qd0 qD0) (QN.flatten2 (QN.neg qd1) qD2) tol = .ok (U, σ, V, q) →
        (distr = 2 → ∀ p < σ.length, (RealLike.ofReal (dsqrt (σ.getD p 0)) : R) * RealLike.ofReal (dsqrt (σ.getD p 0))
            = RealLike.ofReal (σ.getD p 0)) ∧
        ∀ i < qd0.length * A.d1, ∀ j < qd1.length * A.d2,
          ∑ p ∈ range σ.length, U.f i p * RealLike.ofReal (σ.getD p 0) * V.f p j
            = (splitMat A qd0.length qd1.length).f i j) :
    (mergePair B0 B1).d0 = A.d0 ∧ (mergePair B0 B1).d1 = A.d1 ∧ (mergePair B0 B1).d2 = A.d2 ∧
    ∀ s < A.d0, ∀ a < A.d1, ∀ c < A.d2, (mergePair B0 B1).f s a c = A.f s a c := by
  unfold splitMpsTensor at h
  simp only [pyAssert_bind] at h
  obtain ⟨hd, h⟩ := h
  have hd : qd0.length * qd1.length = A.d0 := by simpa using hd
  simp only [bind_ok] at h
  obtain ⟨⟨U, σ, V, q⟩, hsvd, h⟩ := h
  simp only at h
  split at h
  · rw [throw_bind_ne] at h
    exact h.elim
  · rename_i hdis
    simp only [pure_ok, Prod.mk.injEq] at h
    obtain ⟨rfl, rfl, _⟩ := h
    refine ⟨hd, rfl, rfl, ?_⟩
    intro s hs a ha c hc
    rw [← hd] at hs
    have hs0 : s / qd1.length < qd0.length := div_lt_of_lt_mul' hs
    have hs1 : s % qd1.length < qd1.length := mod_lt_of_lt_mul' hs
    have hi := fused_lt hs0 ha
    have hj := fused_lt hs1 hc
    obtain ⟨hsq, hrec⟩ := hrec (by omega) (by omega) U σ V q hsvd
    have e := hrec _ hi _ hj
    simp only [splitMat, fused_div ha, fused_mod ha, fused_div hc, fused_mod hc, Nat.div_add_mod'] at e
    rw [← e]
    simp only [mergePair, T3.tab_d2, T3.tab_d0, sumRange_eq]
    apply sum_congr rfl
    intro p hp
    have hp := mem_range.1 hp
    simp only [T3.tab_f, hs0, ha, hp, hs1, hc]
    simp only [Array.getD_eq_getD_getElem?, List.getElem?_toArray, ← List.getD_eq_getElem?_getD]
    have hdis : distr = 0 ∨ distr = 1 ∨ distr = 2 := by omega
    rcases hdis with rfl | rfl | rfl
    · simp
    · simp; ring
    · simp only [OfNat.ofNat_ne_one, if_false, OfNat.ofNat_ne_zero]
      rw [← hsq rfl p hp]; ring

theorem split_merge (k : SvdKernels R ρ) (dsqrt : ρ → ρ) (A : T3 R) (qd0 qd1 qD0 qD2 : List Int) (distr : Nat)
    (tol : ρ) (B0 B1 : T3 R) (qb : List Int)
    (h : splitMpsTensor k dsqrt A qd0 qd1 qD0 qD2 distr tol = .ok (B0, B1, qb))
    (hrec : ∀ U σ V q, splitMatrixSvd k.dsvd k.dnorm k.dargsort (splitMat A qd0.length qd1.length).tab
        (QN.flatten2 qd0 qD0) (QN.flatten2 (QN.neg qd1) qD2) tol = .ok (U, σ, V, q) →
        (distr = 2 → ∀ p < σ.length, (RealLike.ofReal (dsqrt (σ.getD p 0)) : R) * RealLike.ofReal (dsqrt (σ.getD p 0))
            = RealLike.ofReal (σ.getD p 0)) ∧
        ∀ i < qd0.length * A.d1, ∀ j < qd1.length * A.d2,
          ∑ p ∈ range σ.length, U.f i p * RealLike.ofReal (σ.getD p 0) * V.f p j
            = (splitMat A qd0.length qd1.length).f i j) :
    (mergePair B0 B1).d0 = A.d0 ∧ (mergePair B0 B1).d1 = A.d1 ∧ (mergePair B0 B1).d2 = A.d2 ∧
    ∀ s < A.d0, ∀ a < A.d1, ∀ c < A.d2, (mergePair B0 B1).f s a c = A.f s a c :=
  split_merge' k dsqrt A qd0 qd1 qD0 qD2 distr tol B0 B1 qb h (fun _ _ => hrec)

end Ptn.MPS

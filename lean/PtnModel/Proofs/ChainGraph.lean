import PtnModel.Proofs.ChainStep
/-!
# Cheap structural invariants of the graph under construction in `from_opchains`

`GI g`: the keys of the edge dictionary are pairwise different and no node lists an edge id twice.
(Everything else the semantic theorem needs about the final graph is read off the final
`assert graph.is_consistent()`.)
-/
set_option linter.unusedSectionVars false

namespace Ptn.Ch
open Ptn Ptn.Og List

variable {κ : Type} [CommRing κ] [DecidableEq κ]

/-- no node lists an edge id twice -/
def NodesOK (ns : List (Int × Node)) : Prop := ∀ p ∈ ns, p.2.eidsIn.Nodup ∧ p.2.eidsOut.Nodup

structure GI (g : Graph κ) : Prop where
  edgesKeys : (dKeys g.edges).Nodup
  nodesOK : NodesOK g.nodes
  term : g.nidTerminal = (0, -1)

theorem mem_dReplace {β : Type} (d : List (Int × β)) (k : Int) (v : β) (p : Int × β) (h : p ∈ dReplace d k v) :
    p ∈ d ∨ p.2 = v := by
  induction d with
  | nil => simp [dReplace] at h
  | cons q rest ih =>
    obtain ⟨k', v'⟩ := q
    unfold dReplace at h
    by_cases hk : (k' == k) = true
    · simp only [hk, if_true, mem_cons] at h
      rcases h with h | h
      · right; rw [h]
      · left; exact mem_cons_of_mem _ h
    · have hb : (k' == k) = false := by simpa using hk
      simp only [hb, Bool.false_eq_true, if_false, mem_cons] at h
      rcases h with h | h
      · left; rw [h]; exact mem_cons_self
      · rcases ih h with h | h
        · left; exact mem_cons_of_mem _ h
        · right; exact h

theorem mem_of_dGet? {β : Type} {d : List (Int × β)} {k : Int} {v : β} (h : dGet? d k = some v) : (k, v) ∈ d := by
  induction d with
  | nil => simp [dGet?] at h
  | cons p rest ih =>
    obtain ⟨k', v'⟩ := p
    simp only [dGet?, List.lookup_cons] at h
    by_cases hk : k = k'
    · subst hk; simp at h; subst h; simp
    · have hb : (k == k') = false := by simpa using hk
      rw [hb] at h
      exact List.mem_cons_of_mem _ (ih h)

theorem dGet?_of_mem {β : Type} {d : List (Int × β)} (hn : (dKeys d).Nodup) {k : Int} {v : β}
    (h : (k, v) ∈ d) : dGet? d k = some v :=
  lookup_of_mem_nodup' d (by simpa [dKeys] using hn) (k, v) h
where
  lookup_of_mem_nodup' (l : List (Int × β)) (hn : (l.map (·.1)).Nodup) (p : Int × β) (hp : p ∈ l) :
      l.lookup p.1 = some p.2 := by
    induction l with
    | nil => simp at hp
    | cons q l ih =>
      simp only [map_cons, nodup_cons] at hn
      rcases mem_cons.1 hp with h | h
      · subst h
        obtain ⟨p1, p2⟩ := p
        simp [List.lookup]
      · have : (p.1 == q.1) = false := by
          apply beq_false_of_ne
          intro hpq
          exact hn.1 (hpq ▸ mem_map_of_mem h)
        obtain ⟨q1, q2⟩ := q
        simp only [lookup_cons, this]
        exact ih hn.2 h

theorem dHas_false_iff {β : Type} (d : List (Int × β)) (k : Int) : dHas d k = false ↔ k ∉ dKeys d := by
  induction d with
  | nil => simp [dHas, dKeys]
  | cons p rest ih =>
    obtain ⟨k', v'⟩ := p
    simp only [dHas, dKeys, lookup_cons, map_cons, mem_cons, not_or] at ih ⊢
    by_cases hk : k = k'
    · subst hk; simp
    · have hb : (k == k') = false := by simpa using hk
      rw [hb]
      simp only [hk, not_false_eq_true, true_and]
      exact ih

theorem NodesOK.replace {ns : List (Int × Node)} (h : NodesOK ns) (k : Int) (n : Node)
    (hn : n.eidsIn.Nodup ∧ n.eidsOut.Nodup) : NodesOK (dReplace ns k n) := by
  intro p hp
  rcases mem_dReplace _ _ _ _ hp with hp | hp
  · exact h p hp
  · rw [hp]; exact hn

theorem NodesOK.append {ns : List (Int × Node)} (h : NodesOK ns) (k : Int) (n : Node)
    (hn : n.eidsIn.Nodup ∧ n.eidsOut.Nodup) : NodesOK (ns ++ [(k, n)]) := by
  intro p hp
  rcases mem_append.1 hp with hp | hp
  · exact h p hp
  · simp only [mem_singleton] at hp
    rw [hp]; exact hn

theorem nodup_append_singleton {l : List Int} (h : l.Nodup) {x : Int} (hx : l.contains x = false) : (l ++ [x]).Nodup := by
  have : x ∉ l := by simpa using hx
  rw [nodup_append]
  refine ⟨h, by simp, ?_⟩
  intro a ha b hb
  simp only [mem_singleton] at hb
  subst hb
  rintro rfl
  exact this ha

theorem edgesKeys_append {es : List (Int × Edge κ)} (h : (dKeys es).Nodup) (k : Int) (e : Edge κ)
    (hk : dHas es k = false) : (dKeys (es ++ [(k, e)])).Nodup := by
  have : k ∉ dKeys es := (dHas_false_iff _ _).1 hk
  simp only [dKeys, map_append, map_cons, map_nil] at this ⊢
  rw [nodup_append]
  refine ⟨h, by simp, ?_⟩
  intro a ha b hb
  simp only [mem_singleton] at hb
  subst hb
  rintro rfl
  exact this ha

theorem uCoverStep_gi (ulist : List UNode) (vlist : List HalfChain) (gamma : List ((Nat × Nat) × κ))
    (adjU : List (List Nat)) (s s' : ChState κ) (i : Nat) (hG : GI s.graph)
    (h : uCoverStep ulist vlist gamma adjU s i = .ok s') : GI s'.graph := by
  obtain ⟨u, nodePrev, items, _, hne, hnp, hcont, _, _, _, _, hg, _⟩ := uCoverStep_spec ulist vlist gamma adjU s s' i h
  rw [hg]
  have hprev := hG.nodesOK _ (mem_of_dGet? hnp)
  refine ⟨edgesKeys_append hG.edgesKeys _ _ hne, ?_, hG.term⟩
  apply NodesOK.append
  · apply NodesOK.replace hG.nodesOK
    simp only [Node.setEids, if_true]
    exact ⟨hprev.1, nodup_append_singleton hprev.2 hcont⟩
  · simp

theorem vInner_gi (ulist : List UNode) (gamma : List ((Nat × Nat) × κ)) (j : Nat) (nid : Int)
    (s s' : ChState κ) (i : Nat) (hG : GI s.graph) (h : vInner ulist gamma j nid s i = .ok s') : GI s'.graph := by
  rcases vInner_step ulist gamma j nid s s' i h with ⟨_, rfl⟩ | ⟨_, u, c, n1, n2, _, _, hne, hn1, hc1, _, hn2, hc2, _, hg, _⟩
  · exact hG
  · rw [hg]
    have h1 := hG.nodesOK _ (mem_of_dGet? hn1)
    have hok1 : NodesOK (dReplace s.graph.nodes u.nidl (n1.setEids true (n1.eidsOut ++ [s.eidNext]))) := by
      apply NodesOK.replace hG.nodesOK
      simp only [Node.setEids, if_true]
      exact ⟨h1.1, nodup_append_singleton h1.2 hc1⟩
    have h2 := hok1 _ (mem_of_dGet? hn2)
    refine ⟨edgesKeys_append hG.edgesKeys _ _ hne, ?_, hG.term⟩
    apply NodesOK.replace hok1
    simp only [Node.setEids, Bool.false_eq_true, if_false]
    exact ⟨nodup_append_singleton h2.1 hc2, h2.2⟩

theorem vCoverStep_gi (ulist : List UNode) (vlist : List HalfChain) (gamma : List ((Nat × Nat) × κ))
    (adjV : List (List Nat)) (s s' : ChState κ) (j : Nat) (hG : GI s.graph)
    (h : vCoverStep ulist vlist gamma adjV s j = .ok s') : GI s'.graph := by
  obtain ⟨v, q, adj, _, _, _, _, hfold⟩ := vCoverStep_spec ulist vlist gamma adjV s s' j h
  refine foldlM_inv _ (fun _ (t : ChState κ) => GI t.graph) adj [] _ s' ?_
    (fun _ a b b' hb hab => vInner_gi ulist gamma j s.nidNext b b' a hb hab) hfold
  exact ⟨hG.edgesKeys, NodesOK.append hG.nodesOK _ _ (by simp), hG.term⟩

theorem siteStep_gi (s s' : ChState κ) (hG : GI s.graph) (h : siteStep s = .ok s') : GI s'.graph := by
  unfold siteStep at h
  simp only [bind_ok_iff, pyAssert_ok_iff, pure_ok_iff] at h
  obtain ⟨p, _, bg, _, ⟨uc, vc⟩, _, s2, hu, s3, hv, _, _, hs3⟩ := h
  subst hs3
  simp only at hu hv
  have h2 : GI s2.graph :=
    foldlM_inv (uCoverStep p.ulist p.vlist p.gamma bg.adjU) (fun _ (t : ChState κ) => GI t.graph) uc []
      { s with vlistNext := [], coeffsNext := [], edges := p.edges } s2 hG
      (fun _ a b b' hb hab => uCoverStep_gi _ _ _ _ b b' a hb hab) hu
  exact foldlM_inv _ (fun _ (t : ChState κ) => GI t.graph) vc [] _ s3 h2
      (fun _ a b b' hb hab => vCoverStep_gi _ _ _ _ b b' a hb hab) hv

end Ptn.Ch

import PtnModel.Proofs.ChainFinal
/-!
# `from_opchains`: main semantic theorem
-/
set_option linter.unusedSectionVars false

namespace Ptn.Ch
open Ptn Ptn.Og List

variable {κ : Type} [CommRing κ] [DecidableEq κ]

/-- the graph with the start node `0` and the dummy end node `-1` -/
def graph0 : Graph κ := ⟨[(0, ⟨0, [], [], 0⟩), (-1, ⟨-1, [], [], 0⟩)], [], (0, -1)⟩

theorem graph0_mk : Graph.mk' [⟨0, [], [], 0⟩, ⟨-1, [], [], 0⟩] ([] : List (Edge κ)) [0, -1] = .ok graph0 := rfl

theorem mapM_ok_forall {α β : Type} (f : α → Except Err β) : ∀ (l : List α) (l' : List β),
    l.mapM f = .ok l' → ∀ a ∈ l, ∃ b, f a = .ok b := by
  intro l
  induction l with
  | nil => intro l' _ a ha; simp at ha
  | cons x l ih =>
    intro l' h a ha
    simp only [mapM_cons, bind_ok_iff, pure_ok_iff] at h
    obtain ⟨b, hb, l1, hl1, _⟩ := h
    rcases mem_cons.1 ha with rfl | ha
    · exact ⟨b, hb⟩
    · exact ih l1 hl1 a ha

theorem removeNode_setTerm (gA : Graph κ) (t : Int) (nd : Node) (g' : Graph κ)
    (h : (gA.setTerm true t).removeNode (-1) = .ok (nd, g')) :
    g' = { nodes := dErase gA.nodes (-1), edges := gA.edges, nidTerminal := (gA.nidTerminal.1, t) } := by
  unfold Graph.removeNode at h
  simp only [bind_ok_iff, pure_ok_iff] at h
  obtain ⟨⟨nd', ns⟩, hpop, hg⟩ := h
  unfold dPop at hpop
  cases hl : lookup (-1) (gA.setTerm true t).nodes with
  | none => rw [hl] at hpop; cases hpop
  | some v =>
    rw [hl] at hpop
    cases hpop
    cases hg
    simp [Graph.setTerm]

/-- the half-chain sum of the initial state -/
theorem hsum_init (id : Int) (pch : List (OpChain κ)) (r : List Int) (b : Word) :
    hsum ([] : List (Edge κ)) (pch.map fun c => (⟨c.oids ++ [id], c.qnums ++ [0], 0⟩ : HalfChain)) (pch.map (·.coeff)) r b
      = if r = [] then (pch.map fun c => if c.oids ++ [id] = b then c.coeff else 0).sum else 0 := by
  unfold hsum hsumφ
  rw [zip_map', map_map]
  cases r with
  | nil =>
    simp only [if_true]
    apply sum_map_congr
    intro c _
    simp only [Function.comp, phi, pre, if_true, one_mul]
    by_cases h : b = c.oids ++ [id]
    · simp [h]
    · have : ¬ c.oids ++ [id] = b := fun h' => h h'.symm
      simp [h, this]
  | cons o r =>
    simp only [reduceCtorEq, if_false]
    apply sum_map_eq_zero
    intro c _
    simp [Function.comp, phi, pre]

theorem chainsDen_wrong_length (chains : List (OpChain κ)) (L id : Int) (w : Word) (n : Nat)
    (hlen : ∀ c ∈ chains, c.coeff ≠ 0 → (c.paddedWord L id).length = n) (hw : w.length ≠ n) :
    chainsDen chains L id w = 0 := by
  unfold chainsDen
  apply sum_map_eq_zero
  intro c hc
  by_cases h0 : c.coeff = 0
  · simp [h0]
  · have := hlen c hc h0
    have : ¬ c.paddedWord L id = w := by
      intro h; rw [h] at this; exact hw this
    simp [this]

theorem fromOpchains_denF (chains : List (OpChain κ)) (L id : Int) (g : Graph κ)
    (h : fromOpchains chains L id = .ok g) (hL : 1 ≤ L)
    (hst : ∀ c ∈ chains, c.coeff ≠ 0 → 0 ≤ c.istart) (w : Word) :
    g.denF w = chainsDen chains L id w := by
  unfold fromOpchains at h
  by_cases hemp : chains.isEmpty = true
  · simp [hemp, throw, throwThe, MonadExceptOf.throw, bind, Except.bind] at h
  · simp only [hemp, Bool.false_eq_true, if_false] at h
    simp only [bind_ok_iff, nodeMk'_ok_iff, pyAssert_ok_iff, pyIdx_ok_iff] at h
    obtain ⟨ns, ⟨_, _, rfl⟩, nd, ⟨_, _, rfl⟩, gr, hgr, pch, hpch, vl0, hvl0, s, hfold, _, hlen, last, hlast, c0, hc0, h⟩ := h
    rw [graph0_mk] at hgr
    cases hgr
    -- the padded chains and the initial half-chains
    have hpch' : pch = (chains.filter (fun c => c.coeff != 0)).map (padF L id) :=
      mapM_ok_eq_map _ _ _ _ (fun c _ c' hc' => (padded_ok L id c c' hc').1) hpch
    have hfit : ∀ c ∈ chains, c.coeff ≠ 0 → (c.paddedWord L id).length = L.toNat := by
      intro c hc hc0
      have hmem : c ∈ chains.filter (fun c => c.coeff != 0) := by
        simp [mem_filter, hc, hc0]
      obtain ⟨c', hc'⟩ := mapM_ok_forall _ _ _ hpch c hmem
      exact padF_length L id c (padded_ok L id c c' hc').2 (hst c hc hc0)
    have hvl0' : vl0 = pch.map (fun c => (⟨c.oids ++ [id], c.qnums ++ [0], 0⟩ : HalfChain)) :=
      mapM_ok_eq_map _ _ _ _ (fun c _ v hv => ((halfChain_mk'_ok_iff _ _ _ _).1 hv).2) hvl0
    subst hvl0'
    -- the sweep
    have hS0 : SInv (⟨graph0, 1, 0, pch.map (fun c => (⟨c.oids ++ [id], c.qnums ++ [0], 0⟩ : HalfChain)),
        pch.map (·.coeff), []⟩ : ChState κ) := by
      refine ⟨by simp [edgeList, graph0], ?_, le_refl _⟩
      intro h' hh'
      obtain ⟨c, _, rfl⟩ := mem_map.1 hh'
      simp
    have hG0 : GI (graph0 : Graph κ) := ⟨by simp [graph0, dKeys], by intro p hp; simp [graph0] at hp; rcases hp with rfl | rfl <;> simp, rfl⟩
    obtain ⟨hS, hG, hA, hB, hC, hD⟩ := iter_sem L.toNat _ s hfold hS0 hG0
    have he0 : edgeList (graph0 : Graph κ) = [] := rfl
    simp only [he0] at hA hB hD
    have hn1 : 1 ≤ L.toNat := by omega
    -- the single trailing half-chain
    have hvl : s.vlistNext = [last] := by
      have h1 : s.vlistNext.length = 1 := by simpa using hlen
      obtain ⟨a, ha⟩ := length_eq_one_iff.1 h1
      rw [ha] at hlast ⊢
      simp at hlast
      rw [hlast]
    obtain ⟨tl, hcs⟩ : ∃ tl, s.coeffsNext = c0 :: tl := by
      cases hl : s.coeffsNext with
      | nil => rw [hl] at hc0; simp at hc0
      | cons a tl => rw [hl] at hc0; simp at hc0; exact ⟨tl, by rw [hc0]⟩
    have hlmem : last ∈ s.vlistNext := by rw [hvl]; simp
    have ht : 1 ≤ last.nidl := hC hn1 last hlmem
    have hoids : last.oids = [id] := by
      obtain ⟨h0, hh0, w', hw', hw''⟩ := hD last hlmem
      obtain ⟨c, hc, rfl⟩ := mem_map.1 hh0
      rw [hpch'] at hc
      obtain ⟨c1, hc1, rfl⟩ := mem_map.1 hc
      obtain ⟨hc1m, hc1c⟩ := mem_filter.1 hc1
      have hl1 : (padF L id c1).oids.length = w'.length := by
        rw [hw']
        exact hfit c1 hc1m (by simpa using hc1c)
      exact ((append_inj hw'' hl1).2).symm
    have hfin : ∀ r : List Int, c0 * pre (edgeList s.graph) 0 r last.nidl
        = hsum (edgeList s.graph) s.vlistNext s.coeffsNext r [id] := by
      intro r
      rw [hvl, hcs]
      simp [hsum, hsumφ, phi, hoids]
    -- the graph returned
    have hcore : ∀ w : Word, g.denF w = if w = [] then 0 else c0 * pre (edgeList s.graph) 0 w.reverse last.nidl := by
      by_cases hc1 : c0 = 1
      · have hb : (c0 != 1) = false := by simp [hc1]
        simp only [hb, Bool.false_eq_true, if_false, bind_ok_iff, pure_ok_iff, pyAssert_ok_iff] at h
        obtain ⟨gA, rfl, ⟨nd, g'⟩, hrem, _, hcons, rfl⟩ := h
        have hg' := removeNode_setTerm _ _ _ _ hrem
        refine final_core s hS hG last.nidl ht c0 [] g' ?_ (Or.inr ⟨hc1, rfl⟩) hcons
        rw [hg', hG.term]
        simp
      · have hb : (c0 != 1) = true := by simpa using hc1
        simp only [hb, if_true, bind_ok_iff, pure_ok_iff, pyAssert_ok_iff, getNode_ok_iff] at h
        obtain ⟨nodeEnd, hne, gA, hfoldA, ⟨nd, g'⟩, hrem, _, hcons, rfl⟩ := h
        have hg' := removeNode_setTerm _ _ _ _ hrem
        obtain ⟨h1, h2, h3⟩ := scaleFold_spec c0 _ _ _ hfoldA hG.edgesKeys (hG.nodesOK _ (mem_of_dGet? hne)).1
        refine final_core s hS hG last.nidl ht c0 nodeEnd.eidsIn g' ?_ (Or.inl ⟨hc1, nodeEnd, hne, rfl⟩) hcons
        rw [hg', h1, h2, h3, hG.term]
    rw [hcore, ← chainsDen_filter]
    by_cases hw : w = []
    · subst hw
      rw [if_pos rfl, chainsDen_filter]
      exact (chainsDen_wrong_length chains L id [] L.toNat hfit (by simp; omega)).symm
    · rw [if_neg hw, hfin]
      rcases Nat.lt_trichotomy w.length L.toNat with hlt | heq | hgt
      · rw [hB _ _ (by simpa using hlt), chainsDen_filter]
        exact (chainsDen_wrong_length chains L id w L.toNat hfit (by omega)).symm
      · have := hA w [] [id] heq
        rw [append_nil] at this
        rw [this, hsum_init, if_pos rfl, hpch', map_map]
        unfold chainsDen
        apply sum_map_congr
        intro c _
        simp only [Function.comp, padF]
        by_cases h1 : c.paddedWord L id = w
        · simp [h1]
        · have : ¬ c.paddedWord L id ++ [id] = w ++ [id] := by
            intro h2; exact h1 (append_cancel_right h2)
          simp [h1, this]
      · have hsplit : w.reverse = (w.drop (w.length - L.toNat)).reverse ++ (w.take (w.length - L.toNat)).reverse := by
          rw [← reverse_append, take_append_drop]
        rw [hsplit, hA _ _ _ (by rw [length_drop]; omega), hsum_init, if_neg, chainsDen_filter]
        · exact (chainsDen_wrong_length chains L id w L.toNat hfit (by omega)).symm
        · intro h0
          have : (w.take (w.length - L.toNat)).length = 0 := by
            rw [← length_reverse, h0]; rfl
          rw [length_take] at this
          omega

/-- every chain with a non-zero coefficient fits on the lattice: its padded word has `L` letters -/
theorem fromOpchains_padded_length (chains : List (OpChain κ)) (L id : Int) (g : Graph κ)
    (h : fromOpchains chains L id = .ok g) (hst : ∀ c ∈ chains, c.coeff ≠ 0 → 0 ≤ c.istart) :
    ∀ c ∈ chains, c.coeff ≠ 0 → (c.paddedWord L id).length = L.toNat := by
  unfold fromOpchains at h
  by_cases hemp : chains.isEmpty = true
  · simp [hemp, throw, throwThe, MonadExceptOf.throw, bind, Except.bind] at h
  · simp only [hemp, Bool.false_eq_true, if_false] at h
    simp only [bind_ok_iff] at h
    obtain ⟨ns, _, nd, _, gr, _, pch, hpch, _⟩ := h
    intro c hc hc0
    have hmem : c ∈ chains.filter (fun c => c.coeff != 0) := by
      simp [mem_filter, hc, hc0]
    obtain ⟨c', hc'⟩ := mapM_ok_forall _ _ _ hpch c hmem
    exact padF_length L id c (padded_ok L id c c' hc').2 (hst c hc hc0)

/-- the final `assert graph.is_consistent()` -/
theorem fromOpchains_consistent (chains : List (OpChain κ)) (L id : Int) (g : Graph κ)
    (h : fromOpchains chains L id = .ok g) : g.isConsistent = true := by
  unfold fromOpchains at h
  by_cases hemp : chains.isEmpty = true
  · simp [hemp, throw, throwThe, MonadExceptOf.throw, bind, Except.bind] at h
  · simp only [hemp, Bool.false_eq_true, if_false] at h
    simp only [bind_ok_iff] at h
    obtain ⟨ns, _, nd, _, gr, _, pch, _, vl0, _, s, _, _, _, last, _, c0, _, h⟩ := h
    split at h
    · simp only [bind_ok_iff, pyAssert_ok_iff, pure_ok_iff] at h
      obtain ⟨nodeEnd, _, gA, _, ⟨nd', g'⟩, _, _, hcons, rfl⟩ := h
      exact hcons
    · simp only [bind_ok_iff, pyAssert_ok_iff, pure_ok_iff] at h
      obtain ⟨gA, _, ⟨nd', g'⟩, _, _, hcons, rfl⟩ := h
      exact hcons

end Ptn.Ch

import PtnModel.Proofs.TreeLength
import PtnModel.Proofs.BridgeElem
import PtnModel.Model.Hamiltonian
import PtnModel.Proofs.HamMolNodes
/-!
# The hand-built operator graph of `linear_fermionic_mpo`

`linFermiGraph coeff create` (Model/Hamiltonian.lean) mirrors the Python statement by statement: two dictionaries of edge-less
nodes (`identity_l[i]`, id `i`, charge 0; `z_string_r[i]`, id `L + i - 1`, charge `+1` for creation and `-1` for annihilation),
the `OpGraph` constructor, three loops of `add_connect_edge` with a running edge id, and `assert graph.is_consistent()`.

* `addConnectEdge_plusEdge`, `foldl_plusEdge` : adding a list of fresh edges between existing nodes of a structurally valid graph
  never raises; the result is structurally valid with the obvious edge list (generic).
* `linFermiGraph_ok`  : for every non-empty coefficient vector the construction returns the explicit graph `lfGraph`
  (so none of its look-ups, `add_connect_edge` calls or the consistency assertion can fail).
* `lfGraph_valid`, `lfGraph_singleSink`, `lfGraph_length`, `lfGraph_lev` : the graph is valid, layered (identity node `i` in layer
  `i`, `Z`-string node `L + k` in layer `k + 1`), has the end node as its only sink and length `L`.
* `lf_den_id`, `lf_den_z` : path sums from every node: the graph denotes `Σ_i coeff_i · I^i (C|A) Z^{L-1-i}`.
-/
set_option linter.unusedSectionVars false
namespace Ptn.Ham2
open Ptn Ptn.Og Ptn.Ham List
open Ptn.Dense (bind_ok pure_ok)

variable {κ : Type} [CommRing κ] [DecidableEq κ]


/-- `add_connect_edge` of a fresh edge between two different existing nodes of a structurally valid graph succeeds -/
theorem dGet?_some_mem_keys {β : Type} {d : List (Int × β)} {k : Int} {v : β} (h : dGet? d k = some v) : k ∈ dKeys d := by
  by_contra hc
  rw [dGet?_eq_none_iff.2 hc] at h
  cases h

theorem addConnectEdge_plusEdge {g : Graph κ} (sv : SValid g) {e : Edge κ} (hk : e.eid ∉ dKeys g.edges)
    {nx ny : Node} (hx : dGet? g.nodes e.nids.1 = some nx) (hy : dGet? g.nodes e.nids.2 = some ny)
    (hxy : e.nids.1 ≠ e.nids.2) : g.addConnectEdge e = .ok (g.plusEdge e) := by
  have fresh : ∀ (k : Int) (n : Node) (d : Bool), dGet? g.nodes k = some n → e.eid ∉ n.eids d := by
    intro k n d hn hc
    obtain ⟨e', he', _⟩ := sv.nodeEdge k n (mem_of_dGet?_eq_some hn) d e.eid hc
    exact hk (mem_map.2 ⟨(e.eid, e'), he', rfl⟩)
  have key : ∃ g', g.addConnectEdge e = .ok g' := by
    rw [addConnectEdge_eq]
    have h1 : g.addEdge e = .ok { g with edges := g.edges ++ [(e.eid, e)] } := addEdge_ok.2 ⟨hk, rfl⟩
    rw [h1]
    simp only [bind, Except.bind]
    have hx' : dHas g.nodes e.nids.1 = true := dHas_iff.2 (dGet?_some_mem_keys hx)
    simp only [hx', if_true]
    have h2 : ({ g with edges := g.edges ++ [(e.eid, e)] } : Graph κ).modifyNode e.nids.1 (fun n => n.addEdgeId e.eid true)
        = .ok { g with edges := g.edges ++ [(e.eid, e)], nodes := dReplace g.nodes e.nids.1 (nx.setEids true (nx.eids true ++ [e.eid])) } :=
      modifyNode_ok.2 ⟨nx, _, hx, addEdgeId_ok.2 ⟨fresh _ _ _ hx, rfl⟩, rfl⟩
    rw [h2]
    simp only
    have hy2 : dGet? (dReplace g.nodes e.nids.1 (nx.setEids true (nx.eids true ++ [e.eid]))) e.nids.2 = some ny := by
      rw [dGet?_dReplace, if_neg (Ne.symm hxy), hy]
    have hy' : dHas (dReplace g.nodes e.nids.1 (nx.setEids true (nx.eids true ++ [e.eid]))) e.nids.2 = true :=
      dHas_iff.2 (dGet?_some_mem_keys hy2)
    simp only [hy', if_true]
    exact ⟨_, modifyNode_ok.2 ⟨ny, _, hy2, addEdgeId_ok.2 ⟨fresh _ _ _ hy, rfl⟩, rfl⟩⟩
  obtain ⟨g', hg'⟩ := key
  rw [hg', (addConnectEdge_eq_plusEdge hg').1]


/-! ## a list of fresh edges -/

/-- the side conditions under which `plusEdge` keeps structural validity -/
structure EdgeOk (g : Graph κ) (e : Edge κ) : Prop where
  x : e.nids.1 ∈ dKeys g.nodes
  y : e.nids.2 ∈ dKeys g.nodes
  xy : e.nids.1 ≠ e.nids.2
  x1 : e.nids.1 ≠ g.term true
  y0 : e.nids.2 ≠ g.term false
  sorted : e.opics = sortOpics e.opics

theorem mem_keys_dGet? {β : Type} {d : List (Int × β)} {k : Int} (h : k ∈ dKeys d) : ∃ v, dGet? d k = some v := by
  cases hv : dGet? d k with
  | none => exact absurd h (dGet?_eq_none_iff.1 hv)
  | some v => exact ⟨v, rfl⟩

theorem nodesAdd_qnum (ns : List (Int × Node)) (k eid : Int) (d : Bool) (k' : Int) :
    (dGet? (nodesAdd ns k eid d) k').map (·.qnum) = (dGet? ns k').map (·.qnum) := by
  unfold nodesAdd
  cases hk : dGet? ns k with
  | none => rfl
  | some n =>
    simp only
    rw [dGet?_dReplace]
    by_cases h : k' = k
    · subst h; rw [if_pos rfl, hk]; cases d <;> rfl
    · rw [if_neg h]

theorem plusEdge_qnum (g : Graph κ) (e : Edge κ) (k : Int) :
    (dGet? (g.plusEdge e).nodes k).map (·.qnum) = (dGet? g.nodes k).map (·.qnum) := by
  show (dGet? (nodesAdd (nodesAdd g.nodes e.nids.1 e.eid true) e.nids.2 e.eid false) k).map (·.qnum) = _
  rw [nodesAdd_qnum, nodesAdd_qnum]

theorem EdgeOk.plusEdge {g : Graph κ} {e e' : Edge κ} (h : EdgeOk g e) : EdgeOk (g.plusEdge e') e :=
  ⟨by rw [plusEdge_keys]; exact h.x, by rw [plusEdge_keys]; exact h.y, h.xy, h.x1, h.y0, h.sorted⟩

/-- **adding a list of fresh edges**: every `add_connect_edge` succeeds, the result is structurally valid, its edge list is
the old one followed by the new edges, node keys, charges and terminals are kept -/
theorem foldl_plusEdge (es : List (Edge κ)) : ∀ (g : Graph κ), SValid g →
    (∀ e ∈ es, e.eid ∉ dKeys g.edges) → (es.map (·.eid)).Nodup → (∀ e ∈ es, EdgeOk g e) →
    es.foldlM (fun g e => g.addConnectEdge e) g = .ok (es.foldl Graph.plusEdge g) ∧
    SValid (es.foldl Graph.plusEdge g) ∧
    (es.foldl Graph.plusEdge g).edgeList = g.edgeList ++ es ∧
    dKeys (es.foldl Graph.plusEdge g).nodes = dKeys g.nodes ∧
    (es.foldl Graph.plusEdge g).nidTerminal = g.nidTerminal ∧
    ∀ k, (dGet? (es.foldl Graph.plusEdge g).nodes k).map (·.qnum) = (dGet? g.nodes k).map (·.qnum) := by
  induction es with
  | nil => intro g sv _ _ _; exact ⟨rfl, sv, by simp, rfl, rfl, fun _ => rfl⟩
  | cons e es ih =>
    intro g sv hf hnd hok
    have he := hok e (mem_cons_self ..)
    obtain ⟨nx, hx⟩ := mem_keys_dGet? he.x
    obtain ⟨ny, hy⟩ := mem_keys_dGet? he.y
    have hfe := hf e (mem_cons_self ..)
    have h1 := addConnectEdge_plusEdge sv hfe hx hy he.xy
    have sv1 := sv.plusEdge hfe hx hy he.xy he.x1 he.y0 he.sorted
    simp only [map_cons, nodup_cons] at hnd
    obtain ⟨r1, r2, r3, r4, r5, r6⟩ := ih (g.plusEdge e) sv1
      (by
        intro e' he' hc
        simp only [plusEdge_edges, dKeys, map_append, map_cons, map_nil, mem_append, mem_singleton] at hc
        rcases hc with hc | hc
        · exact hf e' (mem_cons_of_mem _ he') (by simpa [dKeys] using hc)
        · exact hnd.1 (mem_map.2 ⟨e', he', hc⟩))
      hnd.2 (fun e' he' => (hok e' (mem_cons_of_mem _ he')).plusEdge)
    refine ⟨?_, r2, ?_, ?_, ?_, ?_⟩
    · rw [foldlM_cons, h1]; exact r1
    · rw [foldl_cons, r3, plusEdge_edgeList]; simp
    · rw [foldl_cons, r4, plusEdge_keys]
    · rw [foldl_cons, r5, plusEdge_term]
    · intro k; rw [foldl_cons, r6, plusEdge_qnum]


/-! ## the loops of `linear_fermionic_mpo` -/

def idL (L : Int) : List (Int × Node) := (pyRange 0 L).map fun i => (i, ⟨i, [], [], 0⟩)
def zR (L : Int) (create : Bool) : List (Int × Node) :=
  (pyRange 1 (L + 1)).map fun i => (i, ⟨L + i - 1, [], [], if create then 1 else -1⟩)

def idBody (L : Int) (acc : Graph κ × Int) (i : Int) : Except Err (Graph κ × Int) := do
    let a ← dGet (idL L) i
    let b ← dGet (idL L) (i + 1)
    let g ← acc.1.addConnectEdge (Edge.mk' acc.2 (a.nid, b.nid) [(0, 1)])
    pure (g, acc.2 + 1)

def zBody (L : Int) (create : Bool) (acc : Graph κ × Int) (i : Int) : Except Err (Graph κ × Int) := do
    let a ← dGet (zR L create) i
    let b ← dGet (zR L create) (i + 1)
    let g ← acc.1.addConnectEdge (Edge.mk' acc.2 (a.nid, b.nid) [(2, 1)])
    pure (g, acc.2 + 1)

def opBody (coeff : List κ) (create : Bool) (acc : Graph κ × Int) (i : Int) : Except Err (Graph κ × Int) := do
    let a ← dGet (idL coeff.length) i
    let b ← dGet (zR coeff.length create) (i + 1)
    let ci ← pyIdx coeff i.toNat
    let g ← acc.1.addConnectEdge (Edge.mk' acc.2 (a.nid, b.nid) [(if create then 1 else -1, ci)])
    pure (g, acc.2 + 1)

theorem linFermiGraph_eq (coeff : List κ) (create : Bool) :
    linFermiGraph coeff create = (do
      let L : Int := coeff.length
      let t0 ← dGet (idL L) 0
      let t1 ← dGet (zR L create) L
      let g ← Graph.mk' ((idL L).map (·.2) ++ (zR L create).map (·.2)) ([] : List (Edge κ)) [t0.nid, t1.nid]
      let (g, eid) ← (pyRange 0 (L - 1)).foldlM (idBody L) (g, (0 : Int))
      let (g, eid) ← (pyRange 1 L).foldlM (zBody L create) (g, eid)
      let (g, _) ← (pyRange 0 L).foldlM (opBody coeff create) (g, eid)
      pyAssert g.isConsistent
      pure g) := rfl


/-- edges created by a loop over `l` with a running edge id -/
def loopEdges (mk : Int → Int → Edge κ) : List Int → Int → List (Edge κ)
  | [], _ => []
  | i :: l, eid => mk i eid :: loopEdges mk l (eid + 1)

theorem loop_eq (mk : Int → Int → Edge κ) (body : Graph κ × Int → Int → Except Err (Graph κ × Int)) :
    ∀ (l : List Int) (g : Graph κ) (eid : Int),
    (∀ acc, ∀ i ∈ l, body acc i = acc.1.addConnectEdge (mk i acc.2) >>= fun g' => pure (g', acc.2 + 1)) →
    l.foldlM body (g, eid) =
      (loopEdges mk l eid).foldlM (fun g e => g.addConnectEdge e) g >>= fun g' => pure (g', eid + l.length) := by
  intro l
  induction l with
  | nil => intro g eid _; simp [loopEdges, pure, Except.pure, bind, Except.bind]
  | cons i l ih =>
    intro g eid hb
    rw [foldlM_cons, hb (g, eid) i (mem_cons_self ..)]
    simp only [loopEdges, foldlM_cons]
    cases h : g.addConnectEdge (mk i eid) with
    | error e => rfl
    | ok g' =>
      simp only [bind, Except.bind, pure, Except.pure]
      have := ih g' (eid + 1) (fun acc j hj => hb acc j (mem_cons_of_mem _ hj))
      simp only [bind, Except.bind, pure, Except.pure] at this
      rw [this]
      have e : eid + 1 + (l.length : Int) = eid + ((l.length + 1 : Nat) : Int) := by push_cast; omega
      simp only [length_cons, e]

theorem loopEdges_range (mk : Int → Int → Edge κ) : ∀ (n : Nat) (f : Nat → Int) (eid : Int),
    loopEdges mk ((List.range n).map f) eid = (List.range n).map fun k => mk (f k) (eid + k) := by
  intro n
  induction n with
  | zero => intro f eid; rfl
  | succ n ih =>
    intro f eid
    rw [range_succ_eq_map, map_cons, map_map, loopEdges, ih, map_cons, map_map]
    congr 1
    · simp
    · apply map_congr_left
      intro k _
      simp only [Function.comp, Nat.succ_eq_add_one]
      congr 1
      push_cast; omega

theorem dGet_map_id {β : Type} (v : Int → β) : ∀ (l : List Int) (i : Int), i ∈ l →
    dGet (l.map fun i => (i, v i)) i = .ok (v i) := by
  intro l
  induction l with
  | nil => intro i h; cases h
  | cons a l ih =>
    intro i h
    by_cases hia : i = a
    · subst hia; simp [dGet]
    · have := ih i (by simpa [hia] using h)
      simp only [dGet, map_cons, lookup_cons] at this ⊢
      have : (i == a) = false := by simpa using hia
      simp only [this]
      assumption


theorem foldlM_acE_ok : ∀ (es : List (Edge κ)) (g r : Graph κ),
    es.foldlM (fun g e => g.addConnectEdge e) g = .ok r → r = es.foldl Graph.plusEdge g := by
  intro es
  induction es with
  | nil => intro g r h; simpa [pure, Except.pure] using h.symm
  | cons e es ih =>
    intro g r h
    rw [foldlM_cons] at h
    obtain ⟨g1, h1, h2⟩ := (bind_ok _ _ _).1 h
    rw [foldl_cons, ← (addConnectEdge_eq_plusEdge h1).1]
    exact ih g1 r h2

theorem foldlM_acE_append (A B : List (Edge κ)) (g r : Graph κ)
    (h : (A ++ B).foldlM (fun g e => g.addConnectEdge e) g = .ok r) :
    A.foldlM (fun g e => g.addConnectEdge e) g = .ok (A.foldl Graph.plusEdge g) ∧
    B.foldlM (fun g e => g.addConnectEdge e) (A.foldl Graph.plusEdge g) = .ok r := by
  rw [foldlM_append] at h
  obtain ⟨gA, h1, h2⟩ := (bind_ok _ _ _).1 h
  have := foldlM_acE_ok A g gA h1
  subst this
  exact ⟨h1, h2⟩

/-! ### the bodies -/

def mkId (i eid : Int) : Edge κ := ⟨eid, (i, i + 1), [(0, 1)]⟩
def mkZ (L : Int) (i eid : Int) : Edge κ := ⟨eid, (L + i - 1, L + (i + 1) - 1), [(2, 1)]⟩
def mkOp (coeff : List κ) (create : Bool) (i eid : Int) : Edge κ :=
  ⟨eid, (i, (coeff.length : Int) + (i + 1) - 1), [(if create then 1 else -1, coeff.getD i.toNat 0)]⟩

theorem dGet_idL (L i : Int) (h0 : 0 ≤ i) (h1 : i < L) : dGet (idL L) i = .ok ⟨i, [], [], 0⟩ :=
  dGet_map_id (fun i => (⟨i, [], [], 0⟩ : Node)) _ i (mem_pyRange.2 ⟨h0, h1⟩)

theorem dGet_zR (L : Int) (create : Bool) (i : Int) (h0 : 1 ≤ i) (h1 : i ≤ L) :
    dGet (zR L create) i = .ok ⟨L + i - 1, [], [], if create then 1 else -1⟩ :=
  dGet_map_id (fun i => (⟨L + i - 1, [], [], if create then 1 else -1⟩ : Node)) _ i (mem_pyRange.2 ⟨h0, by omega⟩)

theorem idBody_eq (L : Int) (acc : Graph κ × Int) (i : Int) (hi : i ∈ pyRange 0 (L - 1)) :
    idBody L acc i = acc.1.addConnectEdge (mkId i acc.2) >>= fun g' => pure (g', acc.2 + 1) := by
  obtain ⟨h0, h1⟩ := mem_pyRange.1 hi
  unfold idBody
  rw [dGet_idL L i h0 (by omega), dGet_idL L (i + 1) (by omega) (by omega)]
  simp only [bind, Except.bind, Ptn.Ch.edgeMk'_single]
  rfl

theorem zBody_eq (L : Int) (create : Bool) (acc : Graph κ × Int) (i : Int) (hi : i ∈ pyRange 1 L) :
    zBody L create acc i = acc.1.addConnectEdge (mkZ L i acc.2) >>= fun g' => pure (g', acc.2 + 1) := by
  obtain ⟨h0, h1⟩ := mem_pyRange.1 hi
  unfold zBody
  rw [dGet_zR L create i h0 (by omega), dGet_zR L create (i + 1) (by omega) (by omega)]
  simp only [bind, Except.bind, Ptn.Ch.edgeMk'_single]
  rfl

theorem opBody_eq (coeff : List κ) (create : Bool) (acc : Graph κ × Int) (i : Int) (hi : i ∈ pyRange 0 coeff.length) :
    opBody coeff create acc i = acc.1.addConnectEdge (mkOp coeff create i acc.2) >>= fun g' => pure (g', acc.2 + 1) := by
  obtain ⟨h0, h1⟩ := mem_pyRange.1 hi
  unfold opBody
  rw [dGet_idL _ i h0 h1, dGet_zR _ create (i + 1) (by omega) (by omega)]
  have hlt : i.toNat < coeff.length := by omega
  have hidx : pyIdx coeff i.toNat = .ok (coeff.getD i.toNat 0) := by
    simp [pyIdx, getElem?_eq_getElem hlt, getD_eq_getElem?_getD]
  rw [hidx]
  simp only [bind, Except.bind, Ptn.Ch.edgeMk'_single]
  rfl


/-! ### the initial graph and the canonical edge list -/

/-- a graph of edge-less nodes is structurally valid -/
theorem svalid_nodes (ns : List Node) (t0 t1 : Node) (hnd : (ns.map (·.nid)).Nodup) (h0 : t0 ∈ ns) (h1 : t1 ∈ ns)
    (hin : ∀ m ∈ ns, m.eidsIn = []) (hout : ∀ m ∈ ns, m.eidsOut = []) :
    SValid (⟨ns.map fun m => (m.nid, m), [], (t0.nid, t1.nid)⟩ : Graph κ) := by
  have hmem : ∀ k m, (k, m) ∈ ns.map (fun m => (m.nid, m)) → m ∈ ns ∧ m.nid = k := by
    intro k m h
    obtain ⟨m', hm', he⟩ := mem_map.1 h
    cases he
    exact ⟨hm', rfl⟩
  refine ⟨by simpa [dKeys, map_map, Function.comp_def] using hnd, by simp [dKeys], fun k m h => (hmem k m h).2,
    (fun k e h => absurd h not_mem_nil), ?_, ?_, (fun k e h => absurd h not_mem_nil), ?_,
    (fun k e h => absurd h not_mem_nil)⟩
  · intro k m h d
    cases d <;> simp [Node.eids, hin m (hmem k m h).1, hout m (hmem k m h).1]
  · intro k m h d eid heid
    cases d <;> simp [Node.eids, hin m (hmem k m h).1, hout m (hmem k m h).1] at heid
  · intro d
    cases d
    · exact ⟨t0, mem_map.2 ⟨t0, h0, rfl⟩, by simp [Node.eids, hin t0 h0]⟩
    · exact ⟨t1, mem_map.2 ⟨t1, h1, rfl⟩, by simp [Node.eids, hout t1 h1]⟩

/-- the node list handed to the `OpGraph` constructor -/
def lfNodeList (n : Nat) (create : Bool) : List Node := (idL n).map (·.2) ++ (zR n create).map (·.2)

theorem lfNodeList_mem (n : Nat) (create : Bool) (m : Node) : m ∈ lfNodeList n create ↔
    (∃ i : Int, 0 ≤ i ∧ i < n ∧ m = ⟨i, [], [], 0⟩) ∨
    (∃ i : Int, 1 ≤ i ∧ i ≤ n ∧ m = ⟨n + i - 1, [], [], if create then 1 else -1⟩) := by
  simp only [lfNodeList, idL, zR, mem_append, mem_map, map_map, Function.comp, mem_pyRange]
  constructor
  · rintro (⟨i, ⟨h0, h1⟩, rfl⟩ | ⟨i, ⟨h0, h1⟩, rfl⟩)
    · exact Or.inl ⟨i, h0, h1, rfl⟩
    · exact Or.inr ⟨i, h0, by omega, rfl⟩
  · rintro (⟨i, h0, h1, rfl⟩ | ⟨i, h0, h1, rfl⟩)
    · exact Or.inl ⟨i, ⟨h0, h1⟩, rfl⟩
    · exact Or.inr ⟨i, ⟨h0, by omega⟩, rfl⟩

theorem lfNodeList_nodup (n : Nat) (create : Bool) : ((lfNodeList n create).map (·.nid)).Nodup := by
  simp only [lfNodeList, idL, zR, map_append, map_map, Function.comp_def]
  rw [nodup_append]
  refine ⟨?_, ?_, ?_⟩
  · rw [map_id']; exact pyRange_nodup 0 n
  · exact (pyRange_nodup 1 (n + 1)).map (fun a b h => by omega)
  · intro a ha b hb
    simp only [map_id', mem_map, mem_pyRange] at ha hb
    obtain ⟨i, ⟨_, _⟩, rfl⟩ := hb
    omega

/-- the graph before the first edge is added -/
def lfG0 (n : Nat) (create : Bool) : Graph κ :=
  ⟨(lfNodeList n create).map fun m => (m.nid, m), [], (0, (n : Int) + n - 1)⟩

theorem lfG0_keys_mem (n : Nat) (create : Bool) (k : Int) :
    k ∈ dKeys (lfG0 (κ := κ) n create).nodes ↔ 0 ≤ k ∧ k < (n : Int) + n := by
  simp only [lfG0, dKeys, map_map, Function.comp_def, mem_map, lfNodeList_mem]
  constructor
  · rintro ⟨m, (⟨i, h0, h1, rfl⟩ | ⟨i, h0, h1, rfl⟩), rfl⟩ <;> simp only <;> omega
  · intro ⟨h0, h1⟩
    by_cases hk : k < n
    · exact ⟨⟨k, [], [], 0⟩, Or.inl ⟨k, h0, hk, rfl⟩, rfl⟩
    · exact ⟨⟨k, [], [], if create then 1 else -1⟩, Or.inr ⟨k - n + 1, by omega, by omega, by congr 1; omega⟩, rfl⟩

theorem lfG0_svalid (n : Nat) (hn : 1 ≤ n) (create : Bool) : SValid (lfG0 (κ := κ) n create) := by
  have h := svalid_nodes (κ := κ) (lfNodeList n create) ⟨0, [], [], 0⟩ ⟨(n : Int) + n - 1, [], [], if create then 1 else -1⟩
    (lfNodeList_nodup n create)
    ((lfNodeList_mem ..).2 (Or.inl ⟨0, le_refl _, by omega, rfl⟩))
    ((lfNodeList_mem ..).2 (Or.inr ⟨n, by omega, le_refl _, rfl⟩))
    (by intro m hm; rcases (lfNodeList_mem ..).1 hm with ⟨i, _, _, rfl⟩ | ⟨i, _, _, rfl⟩ <;> rfl)
    (by intro m hm; rcases (lfNodeList_mem ..).1 hm with ⟨i, _, _, rfl⟩ | ⟨i, _, _, rfl⟩ <;> rfl)
  exact h


/-- identity edges `i → i+1` -/
def lfE1 (n : Nat) : List (Edge κ) :=
  (List.range (n - 1)).map fun (k : Nat) => ⟨(k : Int), ((k : Int), (k : Int) + 1), [(0, 1)]⟩
/-- `Z` edges between the nodes `n + k → n + k + 1` of the right string -/
def lfE2 (n : Nat) : List (Edge κ) :=
  (List.range (n - 1)).map fun (k : Nat) => ⟨((n - 1 + k : Nat) : Int), (((n + k : Nat) : Int), ((n + k + 1 : Nat) : Int)), [(2, 1)]⟩
/-- the fermionic operator edges `k → n + k` -/
def lfE3 (coeff : List κ) (create : Bool) : List (Edge κ) :=
  (List.range coeff.length).map fun (k : Nat) =>
    ⟨((2 * (coeff.length - 1) + k : Nat) : Int), ((k : Int), ((coeff.length + k : Nat) : Int)),
      [(if create then 1 else -1, coeff.getD k 0)]⟩

/-- all edges of the hand-built graph in creation order -/
def lfEdges (coeff : List κ) (create : Bool) : List (Edge κ) :=
  lfE1 coeff.length ++ (lfE2 coeff.length ++ lfE3 coeff create)

theorem lfEdges_mem (coeff : List κ) (create : Bool) (e : Edge κ) : e ∈ lfEdges coeff create ↔
    (∃ k : Nat, k < coeff.length - 1 ∧ e = ⟨(k : Int), ((k : Int), (k : Int) + 1), [(0, 1)]⟩) ∨
    (∃ k : Nat, k < coeff.length - 1 ∧
      e = ⟨((coeff.length - 1 + k : Nat) : Int), (((coeff.length + k : Nat) : Int), ((coeff.length + k + 1 : Nat) : Int)), [(2, 1)]⟩) ∨
    (∃ k : Nat, k < coeff.length ∧ e = ⟨((2 * (coeff.length - 1) + k : Nat) : Int), ((k : Int), ((coeff.length + k : Nat) : Int)),
      [(if create then 1 else -1, coeff.getD k 0)]⟩) := by
  simp only [lfEdges, lfE1, lfE2, lfE3, mem_append, mem_map, mem_range]
  constructor
  · rintro (⟨k, hk, rfl⟩ | ⟨k, hk, rfl⟩ | ⟨k, hk, rfl⟩)
    · exact Or.inl ⟨k, hk, rfl⟩
    · exact Or.inr (Or.inl ⟨k, hk, rfl⟩)
    · exact Or.inr (Or.inr ⟨k, hk, rfl⟩)
  · rintro (⟨k, hk, rfl⟩ | ⟨k, hk, rfl⟩ | ⟨k, hk, rfl⟩)
    · exact Or.inl ⟨k, hk, rfl⟩
    · exact Or.inr (Or.inl ⟨k, hk, rfl⟩)
    · exact Or.inr (Or.inr ⟨k, hk, rfl⟩)

theorem lfEdges_eids (coeff : List κ) (create : Bool) :
    (lfEdges coeff create).map (·.eid) = (List.range (coeff.length - 1 + (coeff.length - 1 + coeff.length))).map fun (k : Nat) => (k : Int) := by
  simp only [lfEdges, lfE1, lfE2, lfE3, map_append, map_map, Function.comp_def, range_add]
  congr 1
  congr 1
  apply map_congr_left
  intro k _
  congr 1
  omega

theorem lfEdges_ok (coeff : List κ) (create : Bool) (e : Edge κ) (he : e ∈ lfEdges coeff create) :
    EdgeOk (lfG0 coeff.length create) e := by
  rcases (lfEdges_mem ..).1 he with ⟨k, hk, rfl⟩ | ⟨k, hk, rfl⟩ | ⟨k, hk, rfl⟩
  · refine ⟨(lfG0_keys_mem ..).2 ?_, (lfG0_keys_mem ..).2 ?_, ?_, ?_, ?_, rfl⟩ <;>
      simp only [lfG0, Graph.term, if_true, Bool.false_eq_true, if_false] <;> omega
  · refine ⟨(lfG0_keys_mem ..).2 ?_, (lfG0_keys_mem ..).2 ?_, ?_, ?_, ?_, rfl⟩ <;>
      simp only [lfG0, Graph.term, if_true, Bool.false_eq_true, if_false] <;> omega
  · refine ⟨(lfG0_keys_mem ..).2 ?_, (lfG0_keys_mem ..).2 ?_, ?_, ?_, ?_, rfl⟩ <;>
      simp only [lfG0, Graph.term, if_true, Bool.false_eq_true, if_false] <;> omega

/-- the hand-built graph -/
def lfGraph (coeff : List κ) (create : Bool) : Graph κ :=
  (lfEdges coeff create).foldl Graph.plusEdge (lfG0 coeff.length create)

theorem lfGraph_facts (coeff : List κ) (create : Bool) (hn : 1 ≤ coeff.length) :
    (lfEdges coeff create).foldlM (fun g e => g.addConnectEdge e) (lfG0 coeff.length create) = .ok (lfGraph coeff create) ∧
    SValid (lfGraph coeff create) ∧ (lfGraph coeff create).edgeList = lfEdges coeff create ∧
    dKeys (lfGraph coeff create).nodes = dKeys (lfG0 (κ := κ) coeff.length create).nodes ∧
    (lfGraph coeff create).nidTerminal = (0, (coeff.length : Int) + coeff.length - 1) ∧
    ∀ k, (dGet? (lfGraph coeff create).nodes k).map (·.qnum) = (dGet? (lfG0 (κ := κ) coeff.length create).nodes k).map (·.qnum) := by
  have h := foldl_plusEdge (lfEdges coeff create) (lfG0 coeff.length create) (lfG0_svalid _ hn create)
    (fun e _ hc => absurd hc (by simp [lfG0, dKeys]))
    (by rw [lfEdges_eids]; exact (nodup_range).map (fun a b h => by omega))
    (lfEdges_ok coeff create)
  exact ⟨h.1, h.2.1, by rw [lfGraph, h.2.2.1]; simp [lfG0, Graph.edgeList], h.2.2.2.1, h.2.2.2.2.1, h.2.2.2.2.2⟩


/-- the layer of a node: identity node `i` sits in layer `i`, the node `n + k` of the `Z` string in layer `k + 1` -/
def lfLevel (n : Nat) (x : Int) : Int := if x < n then x else x - n + 1

theorem lfGraph_lev (coeff : List κ) (create : Bool) (hn : 1 ≤ coeff.length) :
    Lev (lfGraph coeff create) (lfLevel coeff.length) := by
  intro e he
  rw [(lfGraph_facts coeff create hn).2.2.1] at he
  rcases (lfEdges_mem ..).1 he with ⟨k, hk, rfl⟩ | ⟨k, hk, rfl⟩ | ⟨k, hk, rfl⟩ <;>
    simp only [lfLevel] <;> split <;> split <;> omega

theorem lfGraph_valid (coeff : List κ) (create : Bool) (hn : 1 ≤ coeff.length) : Valid (lfGraph coeff create) :=
  valid_of_lev (lfGraph_facts coeff create hn).2.1 (lfGraph_lev coeff create hn)

theorem lfGraph_allOut (coeff : List κ) (create : Bool) (hn : 1 ≤ coeff.length) : AllOut (lfGraph coeff create) := by
  obtain ⟨_, _, hE, hK, hT, _⟩ := lfGraph_facts coeff create hn
  intro x hx hxt
  rw [hK, lfG0_keys_mem] at hx
  simp only [Graph.term, hT, if_true] at hxt
  unfold HasOut
  rw [hE]
  by_cases hlt : x < coeff.length
  · exact ⟨_, (lfEdges_mem ..).2 (Or.inr (Or.inr ⟨x.toNat, by omega, rfl⟩)), by simp only; omega⟩
  · exact ⟨_, (lfEdges_mem ..).2 (Or.inr (Or.inl ⟨(x - coeff.length).toNat, by omega, rfl⟩)), by simp only; omega⟩

theorem lfGraph_singleSink (coeff : List κ) (create : Bool) (hn : 1 ≤ coeff.length) :
    Ptn.Ch.SingleSink (lfGraph coeff create) := by
  have nd := noDeadEnd_of_allOut (lfGraph_facts coeff create hn).2.1 (lfGraph_allOut coeff create hn)
  intro p hp hout
  by_contra hc
  exact nd p.1 p.2 hp hc hout

theorem lfGraph_length (coeff : List κ) (create : Bool) (hn : 1 ≤ coeff.length) :
    (lfGraph coeff create).length = .ok coeff.length := by
  obtain ⟨_, sv, _, _, hT, _⟩ := lfGraph_facts coeff create hn
  have h := length_of_lev sv (lfGraph_lev coeff create hn)
    (noDeadEnd_of_allOut sv (lfGraph_allOut coeff create hn))
    (by simp only [Graph.term, hT, lfLevel, Bool.false_eq_true, if_false]; split <;> omega)
  rw [h]
  congr 1
  simp only [Graph.term, hT, lfLevel, if_true]
  split <;> omega


theorem loopE1 (n : Nat) : loopEdges (κ := κ) mkId (pyRange 0 ((n : Int) - 1)) 0 = lfE1 n := by
  unfold pyRange
  rw [loopEdges_range]
  have : ((n : Int) - 1 - 0).toNat = n - 1 := by omega
  rw [this]
  apply map_congr_left
  intro k _
  simp only [mkId, Edge.mk.injEq, Prod.mk.injEq, and_true]
  omega

theorem loopE2 (n : Nat) : loopEdges (κ := κ) (mkZ n) (pyRange 1 n) ((0 : Int) + (pyRange 0 ((n : Int) - 1)).length) = lfE2 n := by
  rw [pyRange_length]
  unfold pyRange
  rw [loopEdges_range]
  have : ((n : Int) - 1).toNat = n - 1 := by omega
  rw [this]
  have : ((n : Int) - 1 - 0).toNat = n - 1 := by omega
  rw [this]
  apply map_congr_left
  intro k hk
  have := mem_range.1 hk
  simp only [mkZ, Edge.mk.injEq, Prod.mk.injEq, and_true]
  omega

theorem loopE3 (coeff : List κ) (create : Bool) :
    loopEdges (mkOp coeff create) (pyRange 0 coeff.length)
      ((0 : Int) + (pyRange 0 ((coeff.length : Int) - 1)).length + (pyRange 1 (coeff.length : Int)).length) = lfE3 coeff create := by
  rw [pyRange_length, pyRange_length]
  unfold pyRange
  rw [loopEdges_range]
  have : ((coeff.length : Int) - 0).toNat = coeff.length := by omega
  rw [this]
  apply map_congr_left
  intro k hk
  have := mem_range.1 hk
  simp only [mkOp, Edge.mk.injEq, Prod.mk.injEq]
  refine ⟨by omega, ⟨by omega, by omega⟩, ?_⟩
  congr 3
  omega

/-- **`linear_fermionic_mpo` builds its graph for every non-empty coefficient vector**: all look-ups, the `OpGraph` constructor,
every `add_connect_edge` and the final `is_consistent` assertion succeed, and the graph is `lfGraph` -/
theorem linFermiGraph_ok (coeff : List κ) (create : Bool) (hn : 1 ≤ coeff.length) :
    linFermiGraph coeff create = .ok (lfGraph coeff create) := by
  obtain ⟨hfold, _, _, _, _, _⟩ := lfGraph_facts coeff create hn
  obtain ⟨f1, f23⟩ := foldlM_acE_append _ _ _ _ hfold
  obtain ⟨f2, f3⟩ := foldlM_acE_append _ _ _ _ f23
  rw [linFermiGraph_eq]
  simp only
  rw [dGet_idL _ 0 (le_refl _) (by omega), dGet_zR _ create _ (by omega) (le_refl _)]
  simp only [bind, Except.bind]
  have hmk := Ptn.Ham.graph_mk'_ok (κ := κ) (lfNodeList coeff.length create) ⟨0, [], [], 0⟩
    ⟨(coeff.length : Int) + coeff.length - 1, [], [], if create then 1 else -1⟩
    (lfNodeList_nodup _ create)
    ((lfNodeList_mem ..).2 (Or.inl ⟨0, le_refl _, by omega, rfl⟩))
    ((lfNodeList_mem ..).2 (Or.inr ⟨coeff.length, by omega, le_refl _, rfl⟩))
  have hmk' : Graph.mk' (map (fun x => x.2) (idL coeff.length) ++ map (fun x => x.2) (zR coeff.length create))
      ([] : List (Edge κ)) [0, (coeff.length : Int) + coeff.length - 1] = .ok (lfG0 coeff.length create) := hmk
  rw [hmk']
  simp only
  rw [loop_eq mkId (idBody _) _ _ _ (fun acc i hi => idBody_eq _ acc i hi), loopE1, f1]
  simp only [bind, Except.bind, pure, Except.pure]
  rw [loop_eq (mkZ _) (zBody _ create) _ _ _ (fun acc i hi => zBody_eq _ create acc i hi), loopE2, f2]
  simp only [bind, Except.bind, pure, Except.pure]
  rw [loop_eq (mkOp coeff create) (opBody coeff create) _ _ _ (fun acc i hi => opBody_eq coeff create acc i hi), loopE3, f3]
  simp only [bind, Except.bind, pure, Except.pure]
  have hc : (lfGraph coeff create).isConsistent = true := (lfGraph_valid coeff create hn).isConsistent
  rw [hc]
  rfl


/-! ## the path sums of the hand-built graph -/

theorem sum_map_range_pick (N j : Nat) (F : Nat → κ) (h : ∀ k, k < N → k ≠ j → F k = 0) :
    ((List.range N).map F).sum = if j < N then F j else 0 := by
  induction N with
  | zero => simp
  | succ N ih =>
    rw [range_succ, map_append, sum_append, ih (fun k hk hne => h k (by omega) hne)]
    simp only [map_cons, map_nil, sum_cons, sum_nil, add_zero]
    by_cases hj : j < N
    · rw [if_pos hj, if_pos (by omega), h N (by omega) (by omega), add_zero]
    · rw [if_neg hj]
      by_cases hjN : j = N
      · subst hjN; simp
      · rw [if_neg (by omega), h N (by omega) (fun hc => hjN hc.symm), add_zero]

theorem sumE1_id (n i : Nat) (F : Edge κ → κ) :
    ((lfE1 n).map fun e => if e.nids.1 = (i : Int) then F e else 0).sum =
      if i < n - 1 then F ⟨(i : Int), ((i : Int), (i : Int) + 1), [(0, 1)]⟩ else 0 := by
  rw [lfE1, map_map, sum_map_range_pick (n - 1) i]
  · simp
  · intro k _ hk
    have : ¬ ((k : Int) = i) := by omega
    exact if_neg this

theorem sumE1_z (n k : Nat) (F : Edge κ → κ) :
    ((lfE1 n).map fun e => if e.nids.1 = ((n + k : Nat) : Int) then F e else 0).sum = 0 := by
  apply sum_map_eq_zero
  intro e he
  simp only [lfE1, mem_map, mem_range] at he
  obtain ⟨k', hk', rfl⟩ := he
  have : ¬ ((k' : Int) = ((n + k : Nat) : Int)) := by omega
  exact if_neg this

theorem sumE2_id (n i : Nat) (hi : i < n) (F : Edge κ → κ) :
    ((lfE2 n).map fun e => if e.nids.1 = (i : Int) then F e else 0).sum = 0 := by
  apply sum_map_eq_zero
  intro e he
  simp only [lfE2, mem_map, mem_range] at he
  obtain ⟨k', hk', rfl⟩ := he
  have : ¬ (((n + k' : Nat) : Int) = (i : Int)) := by omega
  exact if_neg this

theorem sumE2_z (n k : Nat) (F : Edge κ → κ) :
    ((lfE2 n).map fun e => if e.nids.1 = ((n + k : Nat) : Int) then F e else 0).sum =
      if k < n - 1 then F ⟨((n - 1 + k : Nat) : Int), (((n + k : Nat) : Int), ((n + k + 1 : Nat) : Int)), [(2, 1)]⟩ else 0 := by
  rw [lfE2, map_map, sum_map_range_pick (n - 1) k]
  · simp
  · intro k' _ hk
    have : ¬ (((n + k' : Nat) : Int) = ((n + k : Nat) : Int)) := by omega
    exact if_neg this

theorem sumE3_id (coeff : List κ) (create : Bool) (i : Nat) (F : Edge κ → κ) :
    ((lfE3 coeff create).map fun e => if e.nids.1 = (i : Int) then F e else 0).sum =
      if i < coeff.length then F ⟨((2 * (coeff.length - 1) + i : Nat) : Int), ((i : Int), ((coeff.length + i : Nat) : Int)),
        [(if create then 1 else -1, coeff.getD i 0)]⟩ else 0 := by
  rw [lfE3, map_map, sum_map_range_pick coeff.length i]
  · simp
  · intro k _ hk
    have : ¬ ((k : Int) = i) := by omega
    exact if_neg this

theorem sumE3_z (coeff : List κ) (create : Bool) (k : Nat) (F : Edge κ → κ) :
    ((lfE3 coeff create).map fun e => if e.nids.1 = ((coeff.length + k : Nat) : Int) then F e else 0).sum = 0 := by
  apply sum_map_eq_zero
  intro e he
  simp only [lfE3, mem_map, mem_range] at he
  obtain ⟨k', hk', rfl⟩ := he
  have : ¬ ((k' : Int) = ((coeff.length + k : Nat) : Int)) := by omega
  exact if_neg this


theorem opc_single (eid : Int) (nids : Int × Int) (a : Int) (c : κ) (o : Int) :
    opc (⟨eid, nids, [(a, c)]⟩ : Edge κ) o = if a = o then c else 0 := by
  simp [opc]

/-- one step of the path sum over `lfEdges` -/
theorem lf_step (coeff : List κ) (create : Bool) (t : Int) (o : Int) (w : Word) (x : Int) (hx : x ≠ t) :
    denE (lfEdges coeff create) t (o :: w) x =
      ((lfE1 coeff.length).map fun e => if e.nids.1 = x then opc e o * denE (lfEdges coeff create) t w e.nids.2 else 0).sum +
      (((lfE2 coeff.length).map fun e => if e.nids.1 = x then opc e o * denE (lfEdges coeff create) t w e.nids.2 else 0).sum +
       ((lfE3 coeff create).map fun e => if e.nids.1 = x then opc e o * denE (lfEdges coeff create) t w e.nids.2 else 0).sum) := by
  rw [denE_cons, if_neg hx]
  generalize denE (lfEdges coeff create) t w = D
  rw [lfEdges, map_append, map_append, sum_append, sum_append]

/-- from the node `n + k` of the `Z` string only the word `Z^{n-1-k}` leads to the end node -/
theorem lf_den_z (coeff : List κ) (create : Bool) : ∀ (j k : Nat), k + j + 1 = coeff.length → ∀ w : Word,
    denE (lfEdges coeff create) ((coeff.length : Int) + coeff.length - 1) w ((coeff.length + k : Nat) : Int) =
      if replicate j 2 = w then 1 else 0 := by
  intro j
  induction j with
  | zero =>
    intro k hk w
    have : ((coeff.length + k : Nat) : Int) = (coeff.length : Int) + coeff.length - 1 := by omega
    rw [this, denE_term]
    simp [eq_comm]
  | succ j ih =>
    intro k hk w
    have hx : ((coeff.length + k : Nat) : Int) ≠ (coeff.length : Int) + coeff.length - 1 := by omega
    cases w with
    | nil => rw [denE_nil, if_neg hx]; simp [replicate_succ]
    | cons o w =>
      rw [lf_step _ _ _ _ _ _ hx, sumE1_z, sumE2_z, sumE3_z, if_pos (by omega), zero_add, add_zero, opc_single]
      simp only
      have := ih (k + 1) (by omega) w
      rw [← Nat.add_assoc] at this
      rw [this]
      by_cases ho : (2 : Int) = o
      · subst ho
        simp [replicate_succ]
      · simp [replicate_succ, ho]

/-- the word `I^k · op · Z^{m-1-k}` -/
def lfWord (op : Int) (m k : Nat) : Word := replicate k 0 ++ op :: replicate (m - 1 - k) 2

theorem lfWord_zero (op : Int) (m : Nat) : lfWord op (m + 1) 0 = op :: replicate m 2 := by
  simp [lfWord]

theorem lfWord_succ (op : Int) (m k : Nat) : lfWord op (m + 1) (k + 1) = 0 :: lfWord op m k := by
  have : m + 1 - 1 - (k + 1) = m - 1 - k := by omega
  simp only [lfWord, replicate_succ, cons_append, this]

/-- from the identity node `i` the words `I^k · op · Z^{m-1-k}` (`m = n - i`) lead to the end node, with coefficient `coeff[i+k]` -/
theorem lf_den_id (coeff : List κ) (create : Bool) : ∀ (m i : Nat), i + m + 1 = coeff.length → ∀ w : Word,
    denE (lfEdges coeff create) ((coeff.length : Int) + coeff.length - 1) w (i : Int) =
      ((List.range (m + 1)).map fun k =>
        if lfWord (if create then 1 else -1) (m + 1) k = w then coeff.getD (i + k) 0 else 0).sum := by
  intro m
  induction m with
  | zero =>
    intro i hi w
    have hx : (i : Int) ≠ (coeff.length : Int) + coeff.length - 1 := by omega
    cases w with
    | nil => rw [denE_nil, if_neg hx]; simp [lfWord]
    | cons o w =>
      rw [lf_step _ _ _ _ _ _ hx, sumE1_id, sumE2_id _ _ (by omega), sumE3_id, if_neg (by omega), if_pos (by omega),
        zero_add, zero_add, opc_single]
      simp only
      rw [lf_den_z coeff create 0 i (by omega) w]
      by_cases ho : (if create then (1 : Int) else -1) = o
      · by_cases hw : ([] : Word) = w
        · subst hw; simp [lfWord, ho]
        · simp [lfWord, ho, hw]
      · simp [lfWord, ho]
  | succ m ih =>
    intro i hi w
    have hx : (i : Int) ≠ (coeff.length : Int) + coeff.length - 1 := by omega
    rw [range_succ_eq_map, map_cons, sum_cons, map_map]
    simp only [Function.comp_def, Nat.succ_eq_add_one, lfWord_zero, lfWord_succ, Nat.add_zero]
    cases w with
    | nil => rw [denE_nil, if_neg hx]; simp
    | cons o w =>
      rw [lf_step _ _ _ _ _ _ hx, sumE1_id, sumE2_id _ _ (by omega), sumE3_id, if_pos (by omega), if_pos (by omega),
        zero_add, opc_single, opc_single]
      simp only
      rw [lf_den_z coeff create (m + 1) i (by omega) w]
      have hcast : ((i : Int) + 1) = ((i + 1 : Nat) : Int) := by push_cast; rfl
      rw [hcast, ih (i + 1) (by omega) w, add_comm]
      congr 1
      · by_cases ho : (if create then (1 : Int) else -1) = o
        · by_cases hw : replicate (m + 1) 2 = w
          · simp [ho, hw]
          · simp [ho, hw]
        · simp [ho]
      · by_cases ho : (0 : Int) = o
        · subst ho
          simp only [if_true, one_mul, cons.injEq, true_and]
          apply congrArg
          apply map_congr_left
          intro k _
          have : i + 1 + k = i + (k + 1) := by omega
          rw [this]
        · simp [ho]

end Ptn.Ham2

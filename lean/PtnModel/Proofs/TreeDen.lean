import PtnModel.Proofs.TreeBasic
/-!
# Path sums over growing edge lists

Generic facts about `denE` used for `from_optrees`: appending edges whose sources lie outside a target-closed
node set leaves the path sums from that set unchanged (`denE_unaffected`); a node whose old out-edges lead into
such a set gains exactly the contributions of its new out-edges (`denE_root_step`).
-/
set_option linter.unusedSectionVars false

namespace Ptn.Og
open List

variable {κ : Type} [CommRing κ] [DecidableEq κ]

theorem denE_term (E : List (Edge κ)) (t : Int) (w : Word) : denE E t w t = if w = [] then 1 else 0 := by
  cases w with
  | nil => simp [denE_nil]
  | cons o w => simp [denE_cons]

/-- a node without outgoing edges (other than the terminal) denotes zero -/
theorem denE_no_out (E : List (Edge κ)) (t : Int) (w : Word) (y : Int) (hy : y ≠ t)
    (h : ∀ e ∈ E, e.nids.1 ≠ y) : denE E t w y = 0 := by
  cases w with
  | nil => simp [denE_nil, hy]
  | cons o w =>
    rw [denE_cons, if_neg hy]
    apply sum_map_eq_zero
    intro e he
    simp [h e he]

theorem denE_cons_append (E new : List (Edge κ)) (t : Int) (o : Int) (w : Word) (x : Int) (hx : x ≠ t) :
    denE (E ++ new) t (o :: w) x =
      (E.map fun e => if e.nids.1 = x then opc e o * denE (E ++ new) t w e.nids.2 else 0).sum +
      (new.map fun e => if e.nids.1 = x then opc e o * denE (E ++ new) t w e.nids.2 else 0).sum := by
  rw [denE_cons, if_neg hx, map_append, sum_append]

/-- appended edges whose sources lie outside the target-closed set `U` do not change path sums from `U` -/
theorem denE_unaffected (E new : List (Edge κ)) (t : Int) (U : Int → Prop)
    (hclosed : ∀ e ∈ E, U e.nids.1 → U e.nids.2) (hnew : ∀ e ∈ new, ¬ U e.nids.1) :
    ∀ (w : Word) (y : Int), U y → denE (E ++ new) t w y = denE E t w y := by
  intro w
  induction w with
  | nil => intro y _; simp [denE_nil]
  | cons o w ih =>
    intro y hy
    by_cases hyt : y = t
    · subst hyt; simp [denE_cons]
    · rw [denE_cons_append _ _ _ _ _ _ hyt, denE_cons, if_neg hyt]
      have : (new.map fun e => if e.nids.1 = y then opc e o * denE (E ++ new) t w e.nids.2 else 0).sum = 0 := by
        apply sum_map_eq_zero
        intro e he
        have : e.nids.1 ≠ y := fun hc => hnew e he (hc ▸ hy)
        simp [this]
      rw [this, add_zero]
      apply sum_map_congr
      intro e he
      by_cases hs : e.nids.1 = y
      · simp only [hs, if_true]
        rw [ih e.nids.2 (hclosed e he (hs ▸ hy))]
      · simp [hs]

/-- a node whose old out-edges lead into `U` gains exactly the contributions of its new out-edges -/
theorem denE_root_step (E new : List (Edge κ)) (t : Int) (U : Int → Prop)
    (hclosed : ∀ e ∈ E, U e.nids.1 → U e.nids.2) (hnew : ∀ e ∈ new, ¬ U e.nids.1)
    (r : Int) (hr : r ≠ t) (hout : ∀ e ∈ E, e.nids.1 = r → U e.nids.2) (o : Int) (w : Word) :
    denE (E ++ new) t (o :: w) r = denE E t (o :: w) r +
      (new.map fun e => if e.nids.1 = r then opc e o * denE (E ++ new) t w e.nids.2 else 0).sum := by
  rw [denE_cons_append _ _ _ _ _ _ hr, denE_cons, if_neg hr]
  congr 1
  apply sum_map_congr
  intro e he
  by_cases hs : e.nids.1 = r
  · simp only [hs, if_true]
    rw [denE_unaffected E new t U hclosed hnew w e.nids.2 (hout e he hs)]
  · simp [hs]

/-- a node with exactly one outgoing edge -/
theorem denE_single_out (E : List (Edge κ)) (t : Int) (y : Int) (hy : y ≠ t) (e : Edge κ)
    (h : E.filter (fun e' => decide (e'.nids.1 = y)) = [e]) (o : Int) (w : Word) :
    denE E t (o :: w) y = opc e o * denE E t w e.nids.2 := by
  rw [denE_cons, if_neg hy, sum_map_ite_zero, h]
  simp

/-! ## chains -/

/-- coefficient function of a chain `oids` / `coeffs` followed by the coefficient function `D` -/
def chainCoef : List Int → List κ → (Word → κ) → Word → κ
  | [], _, D, w => D w
  | _ :: _, [], _, _ => 0
  | o :: os, c :: cs, D, w =>
    match w with
    | [] => 0
    | o' :: w' => if o' = o then c * chainCoef os cs D w' else 0

end Ptn.Og

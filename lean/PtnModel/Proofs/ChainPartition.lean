import PtnModel.Proofs.ChainWalk
/-!
# `_site_partition_halfchains` preserves the weighted multiset of half-chains

`sitePartition hs cs = .ok p` implies, for every function `φ` on half-chains,
`Σ_{(h,c) ∈ zip hs cs} c · φ h = Σ_{((i,j),γ) ∈ p.gamma} γ · φ (u_i ⊕ v_j)` where `u_i ⊕ v_j` is the half-chain that
starts with the local operator of `u_i` at the node of `u_i` and continues with `v_j` (`joinUV`).
The keys of `gamma` are exactly `p.edges`, duplicate-free and in range.
-/
set_option linter.unusedSectionVars false

namespace Ptn.Ch
open Ptn Ptn.Og List

/-! ## the `Except` monad -/

theorem bind_ok_iff {α β : Type} (x : Except Err α) (f : α → Except Err β) (b : β) :
    (x >>= f) = .ok b ↔ ∃ a, x = .ok a ∧ f a = .ok b := by
  cases x with
  | error e => simp [bind, Except.bind]
  | ok a => simp [bind, Except.bind]

theorem pure_ok_iff {α : Type} (a b : α) : (pure a : Except Err α) = .ok b ↔ a = b := by
  simp [pure, Except.pure]

theorem pyAssert_ok_iff (c : Bool) (u : Unit) : pyAssert c = .ok u ↔ c = true := by
  unfold pyAssert
  cases c <;> simp

theorem pyIdx_ok_iff {α : Type} (l : List α) (i : Nat) (x : α) : pyIdx l i = .ok x ↔ l[i]? = some x := by
  unfold pyIdx
  cases l[i]? <;> simp

theorem halfChain_mk'_ok_iff (o q : List Int) (n : Int) (v : HalfChain) :
    HalfChain.mk' o q n = .ok v ↔ o.length + 1 = q.length ∧ v = ⟨o, q, n⟩ := by
  unfold HalfChain.mk'
  by_cases h : o.length + 1 = q.length
  · simp [h, eq_comm]
  · simp [h]

/-- invariant-style induction over a `foldlM` in `Except` -/
theorem foldlM_inv {α β : Type} (f : β → α → Except Err β) (I : List α → β → Prop) :
    ∀ (l done : List α) (b0 b : β), I done b0 →
      (∀ d a b b', I d b → f b a = .ok b' → I (d ++ [a]) b') →
      l.foldlM f b0 = .ok b → I (done ++ l) b := by
  intro l
  induction l with
  | nil =>
    intro done b0 b h0 _ h
    simp only [foldlM_nil, pure_ok_iff] at h
    subst h
    simpa using h0
  | cons a l ih =>
    intro done b0 b h0 hstep h
    simp only [foldlM_cons, bind_ok_iff] at h
    obtain ⟨b1, h1, h2⟩ := h
    have := ih (done ++ [a]) b1 b (hstep _ _ _ _ h0 h1) hstep h2
    simpa using this

variable {κ : Type} [CommRing κ] [DecidableEq κ]

/-! ## partition -/

/-- the half-chain `u ⊕ v` -/
def joinUV (u : UNode) (v : HalfChain) : HalfChain := ⟨u.oid :: v.oids, u.qnum0 :: v.qnums, u.nidl⟩

/-- `φ (u_i ⊕ v_j)` for the bipartite edge `(i, j)` (0 out of range) -/
def edgeVal (ulist : List UNode) (vlist : List HalfChain) (φ : HalfChain → κ) (e : Nat × Nat) : κ :=
  match ulist[e.1]?, vlist[e.2]? with
  | some u, some v => φ (joinUV u v)
  | _, _ => 0

/-- `Σ γ_ij · φ (u_i ⊕ v_j)` -/
def psum (p : Partition κ) (φ : HalfChain → κ) : κ :=
  (p.gamma.map fun ec => ec.2 * edgeVal p.ulist p.vlist φ ec.1).sum

/-- `Σ c_h · φ h` -/
def hsumφ (hcs : List (HalfChain × κ)) (φ : HalfChain → κ) : κ := (hcs.map fun hc => hc.2 * φ hc.1).sum

/-- what the partition loop maintains after processing the list `done` of (half-chain, coefficient) pairs -/
structure PInv (done : List (HalfChain × κ)) (p : Partition κ) : Prop where
  keys : p.gamma.map (·.1) = p.edges
  nodup : p.edges.Nodup
  range : ∀ e ∈ p.edges, e.1 < p.ulist.length ∧ e.2 < p.vlist.length
  sem : ∀ φ : HalfChain → κ, hsumφ done φ = psum p φ
  usrc : ∀ u ∈ p.ulist, ∃ hc ∈ done, u.nidl = hc.1.nidl ∧ hc.1.qnums[0]? = some u.qnum0
  vsrc : ∀ v ∈ p.vlist, v.nidl = -1 ∧ v.oids.length + 1 = v.qnums.length ∧
    ∃ hc ∈ done, ∃ o q, hc.1.oids = o :: v.oids ∧ hc.1.qnums = q :: v.qnums
  qmatch : ∀ e ∈ p.edges, ∀ u v, p.ulist[e.1]? = some u → p.vlist[e.2]? = some v → v.qnums[0]? = some u.qnum1
  unodup : p.ulist.Nodup
  vnodup : p.vlist.Nodup
  nonempty : done ≠ [] → p.edges ≠ []
  uedge : ∀ i, i < p.ulist.length → ∃ j, (i, j) ∈ p.edges
  hcedge : ∀ hc ∈ done, ∃ e ∈ p.edges, ∃ u, p.ulist[e.1]? = some u ∧ u.nidl = hc.1.nidl

/-- `if x in l: i = l.index(x) else: l.append(x); i = len(l) - 1` -/
theorem index_choice {α : Type} [DecidableEq α] (l : List α) (x : α) (l' : List α) (i : Nat)
    (h : (if l.contains x then (l, l.idxOf x) else (l ++ [x], l.length)) = (l', i)) :
    l'[i]? = some x ∧ (∃ ex, l' = l ++ ex ∧ ∀ y ∈ ex, y = x ∧ x ∉ l) ∧ i < l'.length := by
  by_cases hc : l.contains x = true
  · rw [if_pos hc] at h
    cases h
    have hm : x ∈ l := by simpa using hc
    exact ⟨getElem?_idxOf hm, ⟨[], by simp, by simp⟩, idxOf_lt_length_iff.2 hm⟩
  · rw [if_neg hc] at h
    cases h
    have hm : x ∉ l := by simpa using hc
    refine ⟨by simp, ⟨[x], rfl, ?_⟩, by simp⟩
    intro y hy
    simp only [mem_singleton] at hy
    exact ⟨hy, hm⟩

theorem edgeVal_append (ulist vlist : List _) (ex1 : List UNode) (ex2 : List HalfChain) (φ : HalfChain → κ)
    (e : Nat × Nat) (h : e.1 < ulist.length ∧ e.2 < vlist.length) :
    edgeVal (ulist ++ ex1) (vlist ++ ex2) φ e = edgeVal ulist vlist φ e := by
  unfold edgeVal
  rw [getElem?_append_left h.1, getElem?_append_left h.2]

/-- adding `c` to the entry with key `k` of an association list with distinct keys -/
theorem sum_gamma_update {α : Type} [BEq α] [LawfulBEq α] [DecidableEq α] (gamma : List (α × κ)) (k : α) (c : κ) (F : α → κ)
    (hn : (gamma.map (·.1)).Nodup) (hk : k ∈ gamma.map (·.1)) :
    ((gamma.map fun ec => if ec.1 == k then (ec.1, ec.2 + c) else (ec.1, ec.2)).map fun ec => ec.2 * F ec.1).sum
      = (gamma.map fun ec => ec.2 * F ec.1).sum + c * F k := by
  rw [map_map]
  have : ∀ ec ∈ gamma, ((fun ec : α × κ => ec.2 * F ec.1) ∘ fun ec => if ec.1 == k then (ec.1, ec.2 + c) else (ec.1, ec.2)) ec
      = ec.2 * F ec.1 + (if ec.1 = k then c * F k else 0) := by
    intro ec _
    by_cases h : ec.1 = k
    · simp only [Function.comp, h, beq_self_eq_true, if_true]; ring
    · have hb : (ec.1 == k) = false := by simpa using h
      simp [Function.comp, hb, h]
  rw [sum_map_congr _ _ _ this, sum_map_add]
  congr 1
  have := sum_map_ite_eq_of_nodup (gamma.map (·.1)) k (c * F k) hn hk
  rw [map_map] at this
  exact this

theorem partitionStep_inv (done : List (HalfChain × κ)) (p p' : Partition κ) (hc : HalfChain × κ)
    (hI : PInv done p) (h : partitionStep p hc.1 hc.2 = .ok p') : PInv (done ++ [hc]) p' := by
  obtain ⟨chain, coeff⟩ := hc
  unfold partitionStep at h
  simp only [bind_ok_iff, pyIdx_ok_iff, halfChain_mk'_ok_iff] at h
  obtain ⟨oid0, ho, q0, hq0, q1, hq1, v, ⟨hvlen, hv⟩, h⟩ := h
  -- the chain is `u ⊕ v`
  have hoids : chain.oids = oid0 :: chain.oids.drop 1 := by
    cases hl : chain.oids with
    | nil => rw [hl] at ho; simp at ho
    | cons a l => rw [hl] at ho; simp at ho; simp [ho]
  have hqn : chain.qnums = q0 :: chain.qnums.drop 1 := by
    cases hl : chain.qnums with
    | nil => rw [hl] at hq0; simp at hq0
    | cons a l => rw [hl] at hq0; simp at hq0; simp [hq0]
  have hq1' : (chain.qnums.drop 1)[0]? = some q1 := by
    rw [getElem?_drop]; simpa using hq1
  generalize hu : (⟨oid0, q0, q1, chain.nidl⟩ : UNode) = u at h
  have hjoin : joinUV u v = chain := by
    subst hu hv
    cases chain with
    | mk oids qnums nidl =>
      simp only [joinUV] at *
      rw [← hoids, ← hqn]
  -- the two index choices
  generalize hcu : (if p.ulist.contains u then (p.ulist, p.ulist.idxOf u) else (p.ulist ++ [u], p.ulist.length)) = cu at h
  obtain ⟨ulist', i⟩ := cu
  generalize hcv : (if p.vlist.contains v then (p.vlist, p.vlist.idxOf v) else (p.vlist ++ [v], p.vlist.length)) = cv at h
  obtain ⟨vlist', j⟩ := cv
  obtain ⟨hui, ⟨exu, hexu, hexu'⟩, hilt⟩ := index_choice _ _ _ _ hcu
  obtain ⟨hvj, ⟨exv, hexv, hexv'⟩, hjlt⟩ := index_choice _ _ _ _ hcv
  simp only at h
  have hval : ∀ φ : HalfChain → κ, edgeVal ulist' vlist' φ (i, j) = φ chain := by
    intro φ
    unfold edgeVal
    simp only [hui, hvj, hjoin]
  have hold : ∀ φ : HalfChain → κ, ∀ e ∈ p.edges, edgeVal ulist' vlist' φ e = edgeVal p.ulist p.vlist φ e := by
    intro φ e he
    rw [hexu, hexv]
    exact edgeVal_append _ _ _ _ _ _ (hI.range e he)
  have hrange : ∀ e ∈ p.edges, e.1 < ulist'.length ∧ e.2 < vlist'.length := by
    intro e he
    have := hI.range e he
    rw [hexu, hexv, length_append, length_append]
    omega
  have husrc : ∀ u' ∈ ulist', ∃ hc ∈ done ++ [(chain, coeff)], u'.nidl = hc.1.nidl ∧ hc.1.qnums[0]? = some u'.qnum0 := by
    intro u' hu'
    rw [hexu, mem_append] at hu'
    rcases hu' with hu' | hu'
    · obtain ⟨hc, hc1, hc2⟩ := hI.usrc u' hu'
      exact ⟨hc, mem_append_left _ hc1, hc2⟩
    · have := (hexu' u' hu').1
      subst this
      refine ⟨(chain, coeff), by simp, ?_⟩
      subst hu
      exact ⟨rfl, hq0⟩
  have hvsrc : ∀ v' ∈ vlist', v'.nidl = -1 ∧ v'.oids.length + 1 = v'.qnums.length ∧
      ∃ hc ∈ done ++ [(chain, coeff)], ∃ o q, hc.1.oids = o :: v'.oids ∧ hc.1.qnums = q :: v'.qnums := by
    intro v' hv'
    rw [hexv, mem_append] at hv'
    rcases hv' with hv' | hv'
    · obtain ⟨h1, h2, hc, hc1, hc2⟩ := hI.vsrc v' hv'
      exact ⟨h1, h2, hc, mem_append_left _ hc1, hc2⟩
    · have := (hexv' v' hv').1
      subst this
      subst hv
      exact ⟨rfl, hvlen, (chain, coeff), by simp, oid0, q0, hoids, hqn⟩
  have hqm_new : ∀ u' v', ulist'[i]? = some u' → vlist'[j]? = some v' → v'.qnums[0]? = some u'.qnum1 := by
    intro u' v' h1 h2
    rw [hui] at h1; rw [hvj] at h2
    cases h1; cases h2
    subst hu hv
    exact hq1'
  have hqm_old : ∀ e ∈ p.edges, ∀ u' v', ulist'[e.1]? = some u' → vlist'[e.2]? = some v' →
      v'.qnums[0]? = some u'.qnum1 := by
    intro e he u' v' h1 h2
    have hr := hI.range e he
    rw [hexu, getElem?_append_left hr.1] at h1
    rw [hexv, getElem?_append_left hr.2] at h2
    exact hI.qmatch e he u' v' h1 h2
  have hun : ulist'.Nodup := by
    rw [hexu]
    match exu, hexu' with
    | [], _ => simpa using hI.unodup
    | [y], hy =>
      have := hy y (by simp)
      rw [nodup_append]
      refine ⟨hI.unodup, by simp, ?_⟩
      intro a ha b hb
      simp only [mem_singleton] at hb
      rintro rfl
      rw [hb, this.1] at ha
      exact this.2 ha
    | y :: z :: rest, hy =>
      exfalso
      have h1 := hy y (by simp)
      exact h1.2 (by
        have : (p.ulist ++ y :: z :: rest).length = ulist'.length := by rw [hexu]
        by_cases hc : p.ulist.contains u = true
        · rw [if_pos hc] at hcu; cases hcu; simp at this
        · rw [if_neg hc] at hcu; cases hcu; simp at this)
  have hvn : vlist'.Nodup := by
    rw [hexv]
    match exv, hexv' with
    | [], _ => simpa using hI.vnodup
    | [y], hy =>
      have := hy y (by simp)
      rw [nodup_append]
      refine ⟨hI.vnodup, by simp, ?_⟩
      intro a ha b hb
      simp only [mem_singleton] at hb
      rintro rfl
      rw [hb, this.1] at ha
      exact this.2 ha
    | y :: z :: rest, hy =>
      exfalso
      have h1 := hy y (by simp)
      exact h1.2 (by
        have : (p.vlist ++ y :: z :: rest).length = vlist'.length := by rw [hexv]
        by_cases hc : p.vlist.contains v = true
        · rw [if_pos hc] at hcv; cases hcv; simp at this
        · rw [if_neg hc] at hcv; cases hcv; simp at this)
  have huedge_old : ∀ i', i' < p.ulist.length → ∃ j', (i', j') ∈ p.edges := hI.uedge
  have hui_u : ∀ i', i' < ulist'.length → i' < p.ulist.length ∨ i' = i := by
    intro i' hi'
    by_cases hc : p.ulist.contains u = true
    · rw [if_pos hc] at hcu; cases hcu; exact Or.inl hi'
    · rw [if_neg hc] at hcu; cases hcu
      simp only [length_append, length_singleton] at hi'
      omega
  have hhc_old : ∀ hc ∈ done, ∃ e ∈ p.edges, ∃ u', ulist'[e.1]? = some u' ∧ u'.nidl = hc.1.nidl := by
    intro hc hhc
    obtain ⟨e, he, u', hu', hn'⟩ := hI.hcedge hc hhc
    refine ⟨e, he, u', ?_, hn'⟩
    rw [hexu, getElem?_append_left (hI.range e he).1]
    exact hu'
  have hunidl : u.nidl = chain.nidl := by rw [← hu]
  by_cases hce : p.edges.contains (i, j) = true
  · rw [if_pos hce, pure_ok_iff] at h
    subst h
    have hmem : (i, j) ∈ p.edges := by simpa using hce
    refine ⟨?_, hI.nodup, hrange, ?_, husrc, hvsrc, ?_, hun, hvn, fun _ => ne_nil_of_mem hmem, ?_, ?_⟩
    rotate_left 3
    · intro i' hi'
      rcases hui_u i' hi' with hi' | rfl
      · exact huedge_old i' hi'
      · exact ⟨j, hmem⟩
    · intro hc hhc
      rcases mem_append.1 hhc with hhc | hhc
      · exact hhc_old hc hhc
      · simp only [mem_singleton] at hhc
        subst hhc
        exact ⟨(i, j), hmem, u, hui, hunidl⟩
    · simp only [map_map]
      rw [← hI.keys]
      apply map_congr_left
      intro ec _
      simp only [Function.comp]
      split <;> rfl
    · intro φ
      unfold hsumφ psum
      simp only [map_append, sum_append, map_cons, map_nil, sum_cons, sum_nil, add_zero]
      have hs := hI.sem φ
      unfold hsumφ psum at hs
      rw [hs]
      have := sum_gamma_update p.gamma (i, j) coeff (edgeVal ulist' vlist' φ)
        (by rw [hI.keys]; exact hI.nodup) (by rw [hI.keys]; exact hmem)
      rw [this, hval]
      congr 1
      apply sum_map_congr
      intro ec hec
      rw [hold φ ec.1 (by rw [← hI.keys]; exact mem_map_of_mem hec)]
    · intro e he u' v' h1 h2
      exact hqm_old e he u' v' h1 h2
  · rw [if_neg hce, pure_ok_iff] at h
    subst h
    have hmem : (i, j) ∉ p.edges := by simpa using hce
    refine ⟨?_, ?_, ?_, ?_, husrc, hvsrc, ?_, hun, hvn, fun _ => by simp, ?_, ?_⟩
    rotate_left 5
    · intro i' hi'
      rcases hui_u i' hi' with hi' | rfl
      · obtain ⟨j', hj'⟩ := huedge_old i' hi'
        exact ⟨j', mem_append_left _ hj'⟩
      · exact ⟨j, by simp⟩
    · intro hc hhc
      rcases mem_append.1 hhc with hhc | hhc
      · obtain ⟨e, he, hrest⟩ := hhc_old hc hhc
        exact ⟨e, mem_append_left _ he, hrest⟩
      · simp only [mem_singleton] at hhc
        subst hhc
        exact ⟨(i, j), by simp, u, hui, hunidl⟩
    · simp [hI.keys]
    · exact nodup_append.2 ⟨hI.nodup, by simp, by
        intro a ha b hb
        simp only [mem_singleton] at hb
        subst hb
        rintro rfl
        exact hmem ha⟩
    · intro e he
      simp only [mem_append, mem_singleton] at he
      rcases he with he | he
      · exact hrange e he
      · subst he; exact ⟨hilt, hjlt⟩
    · intro φ
      unfold hsumφ psum
      simp only [map_append, sum_append, map_cons, map_nil, sum_cons, sum_nil, add_zero]
      have hs := hI.sem φ
      unfold hsumφ psum at hs
      rw [hs, hval]
      congr 1
      apply sum_map_congr
      intro ec hec
      rw [hold φ ec.1 (by rw [← hI.keys]; exact mem_map_of_mem hec)]
    · intro e he u' v' h1 h2
      simp only [mem_append, mem_singleton] at he
      rcases he with he | he
      · exact hqm_old e he u' v' h1 h2
      · subst he; exact hqm_new u' v' h1 h2

theorem sitePartition_inv (hs : List HalfChain) (cs : List κ) (p : Partition κ)
    (h : sitePartition hs cs = .ok p) : PInv (hs.zip cs) p := by
  unfold sitePartition at h
  have := foldlM_inv (fun p (cc : HalfChain × κ) => partitionStep p cc.1 cc.2) PInv (hs.zip cs) [] _ p
    ⟨rfl, by simp, by simp, by intro φ; simp [hsumφ, psum], by simp, by simp, by simp, by simp, by simp,
      by simp, by simp, by simp⟩
    (fun d a b b' hI hb => partitionStep_inv d b b' a hI hb) h
  simpa using this

end Ptn.Ch

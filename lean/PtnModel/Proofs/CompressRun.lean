import PtnModel.Proofs.CompressLocal
/-!
# Successful runs of the SVD sweeps and of `MPS.compress`

* `sweepLeftSvd_of_run`, `sweepRightSvd_of_run` : a successful sweep is a `Sweep` of local steps (`LocL`, resp. `LocR`
  in mirrored coordinates);
* `scaleLast c As`         : multiply the last tensor by `c` (`self.A[-1] *= …`), with its basic properties;
* `compress_left_inv`, `compress_right_inv` : inversion of a successful `MPS.compress`.
-/
set_option linter.unusedSectionVars false
set_option linter.unusedVariables false
namespace Ptn.Compress
open Ptn.BondOps Ptn.Ortho Ptn.Env Finset

variable {𝕜 : Type} [RCLike 𝕜] [DecidableEq 𝕜]
attribute [local instance] rcRealLike

variable {k : MPS.SvdKernels 𝕜 ℝ} {tol : ℝ} {qd : List Int}

theorem sweepLeftSvd_of_run : ∀ {rest : List (T3 𝕜)} {A : T3 𝕜} {qL : List Int} {qRs : List (List Int)}
    {As : List (T3 𝕜)} {qs : List (List Int)} {T : T3 𝕜},
    MPS.sweepLeftSvd k qd tol A qL rest qRs = .ok (As, qs, T) → Sweep (LocL k tol qd) A qL rest qRs As qs T
  | [], A, qL, [], _, _, _, h => by simp [MPS.sweepLeftSvd] at h
  | [], A, qL, [qR], As, qs, T, h => by
    rw [MPS.sweepLeftSvd] at h
    cases hl : MPS.localOrthoLeftSvd k A MPS.ones111 qd qL qR tol with
    | error e => rw [hl] at h; cases h
    | ok r =>
      obtain ⟨A', T', qb⟩ := r
      rw [hl] at h
      by_cases hc : QN.isSparseT3 A' qd qL qb = true
      · simp only [bind, Except.bind, pyAssert, hc, if_true, pure, Except.pure] at h
        injection h with h
        injection h with h1 h
        injection h with h2 h3
        subst h1 h2 h3
        exact Sweep.last ⟨rfl, rfl, rfl, rfl⟩ hl
      · simp only [bind, Except.bind, pyAssert, hc] at h
        cases h
  | [], A, qL, _ :: _ :: _, _, _, _, h => by simp [MPS.sweepLeftSvd] at h
  | Anext :: rest, A, qL, [], _, _, _, h => by simp [MPS.sweepLeftSvd] at h
  | Anext :: rest, A, qL, qR :: qRest, As, qs, T, h => by
    rw [MPS.sweepLeftSvd] at h
    cases hl : MPS.localOrthoLeftSvd k A Anext qd qL qR tol with
    | error e => rw [hl] at h; cases h
    | ok r =>
      obtain ⟨A', Anext', qb⟩ := r
      rw [hl] at h
      by_cases hc : QN.isSparseT3 A' qd qL qb = true
      · cases hs : MPS.sweepLeftSvd k qd tol Anext' qb rest qRest with
        | error e => simp only [bind, Except.bind, pyAssert, hc, if_true, hs] at h; cases h
        | ok r' =>
          obtain ⟨As', qs', T'⟩ := r'
          simp only [bind, Except.bind, pyAssert, hc, if_true, hs, pure, Except.pure] at h
          injection h with h
          injection h with h1 h
          injection h with h2 h3
          subst h1 h2 h3
          exact Sweep.cons hl (sweepLeftSvd_of_run hs)
      · simp only [bind, Except.bind, pyAssert, hc] at h
        cases h

theorem locR_of_run {A Aprev : T3 𝕜} {qL qR : List Int} {A' Aprev' : T3 𝕜} {qb : List Int}
    (h : MPS.localOrthoRightSvd k A Aprev qd qL qR tol = .ok (A', Aprev', qb)) :
    LocR k tol qd A.swap12 Aprev.swap12 (QN.neg qR) (QN.neg qL) A'.swap12 Aprev'.swap12 (QN.neg qb) := by
  unfold LocR
  rw [neg_neg, neg_neg, neg_neg]
  exact h

theorem sweepRightSvd_of_run : ∀ {rest : List (T3 𝕜)} {A : T3 𝕜} {qR : List Int} {qLs : List (List Int)}
    {As : List (T3 𝕜)} {qs : List (List Int)} {T : T3 𝕜},
    MPS.sweepRightSvd k qd tol A qR rest qLs = .ok (As, qs, T) →
    Sweep (LocR k tol qd) A.swap12 (QN.neg qR) (rest.map T3.swap12) (qLs.map QN.neg) (As.map T3.swap12)
      (qs.map QN.neg) T.swap12
  | [], A, qR, [], _, _, _, h => by simp [MPS.sweepRightSvd] at h
  | [], A, qR, [qL], As, qs, T, h => by
    rw [MPS.sweepRightSvd] at h
    cases hl : MPS.localOrthoRightSvd k A MPS.ones111 qd qL qR tol with
    | error e => rw [hl] at h; cases h
    | ok r =>
      obtain ⟨A', T', qb⟩ := r
      rw [hl] at h
      by_cases hc : QN.isSparseT3 A' qd qb qR = true
      · simp only [bind, Except.bind, pyAssert, hc, if_true, pure, Except.pure] at h
        injection h with h
        injection h with h1 h
        injection h with h2 h3
        subst h1 h2 h3
        exact Sweep.last (X := (MPS.ones111 : T3 𝕜).swap12) ⟨rfl, rfl, rfl, rfl⟩ (locR_of_run hl)
      · simp only [bind, Except.bind, pyAssert, hc] at h
        cases h
  | [], A, qR, _ :: _ :: _, _, _, _, h => by simp [MPS.sweepRightSvd] at h
  | Aprev :: rest, A, qR, [], _, _, _, h => by simp [MPS.sweepRightSvd] at h
  | Aprev :: rest, A, qR, qL :: qRest, As, qs, T, h => by
    rw [MPS.sweepRightSvd] at h
    cases hl : MPS.localOrthoRightSvd k A Aprev qd qL qR tol with
    | error e => rw [hl] at h; cases h
    | ok r =>
      obtain ⟨A', Aprev', qb⟩ := r
      rw [hl] at h
      by_cases hc : QN.isSparseT3 A' qd qb qR = true
      · cases hs : MPS.sweepRightSvd k qd tol Aprev' qb rest qRest with
        | error e => simp only [bind, Except.bind, pyAssert, hc, if_true, hs] at h; cases h
        | ok r' =>
          obtain ⟨As', qs', T'⟩ := r'
          simp only [bind, Except.bind, pyAssert, hc, if_true, hs, pure, Except.pure] at h
          injection h with h
          injection h with h1 h
          injection h with h2 h3
          subst h1 h2 h3
          exact Sweep.cons (locR_of_run hl) (sweepRightSvd_of_run hs)
      · simp only [bind, Except.bind, pyAssert, hc] at h
        cases h

/-! ## scaling the last tensor -/

/-- multiply the last tensor by `c` (`self.A[-1] *= c`) -/
def scaleLast (c : 𝕜) : List (T3 𝕜) → List (T3 𝕜)
  | [] => []
  | [A] => [(MPS.scaleT3 c A).tab]
  | A :: B :: As => A :: scaleLast c (B :: As)

theorem take_drop_scaleLast (c : 𝕜) : ∀ (As : List (T3 𝕜)),
    As.take (As.length - 1) ++ (As.drop (As.length - 1)).map (fun X => (MPS.scaleT3 c X).tab) = scaleLast c As
  | [] => rfl
  | [A] => rfl
  | A :: B :: As => by
    have := take_drop_scaleLast c (B :: As)
    simp only [List.length_cons, Nat.add_sub_cancel] at this ⊢
    rw [List.take_succ_cons, List.drop_succ_cons, List.cons_append, this, scaleLast]

/-! ## inversion of a successful `compress` -/

variable {dqr : Mat 𝕜 → Mat 𝕜 × Mat 𝕜} {dabs : 𝕜 → ℝ} {divR : 𝕜 → ℝ → 𝕜} {ψ ψ' : MPS 𝕜} {nrm scale : ℝ}

theorem compress_left_inv (h : MPS.compress dqr k dabs divR ψ tol true = .ok (ψ', nrm, scale)) :
    ∃ ψ1 A0 rest q0 qrest As qs T, MPS.orthonormalize dqr ψ false = .ok (ψ1, nrm) ∧
      ψ1.A = A0 :: rest ∧ ψ1.qD = q0 :: qrest ∧
      MPS.sweepLeftSvd k ψ1.qd tol A0 q0 rest qrest = .ok (As, qs, T) ∧ T.d0 = 1 ∧ T.d1 = 1 ∧ T.d2 = 1 ∧
      ψ' = ⟨ψ1.qd, q0 :: qs, scaleLast (divR (T.f 0 0 0) (dabs (T.f 0 0 0))) As⟩ ∧
      scale = dabs (T.f 0 0 0) := by
  unfold MPS.compress at h
  simp only [if_true] at h
  cases ho : MPS.orthonormalize (ρ := ℝ) dqr ψ false with
  | error e => rw [ho] at h; cases h
  | ok r =>
    obtain ⟨ψ1, nrm'⟩ := r
    rw [ho] at h
    simp only [bind, Except.bind] at h
    split at h
    · rename_i A0 rest q0 qrest hA hq
      cases hs : MPS.sweepLeftSvd k ψ1.qd tol A0 q0 rest qrest with
      | error e => rw [hs] at h; cases h
      | ok r' =>
        obtain ⟨As, qs, T⟩ := r'
        rw [hs] at h
        by_cases hT : (T.d0 == 1 && T.d1 == 1 && T.d2 == 1) = true
        · simp only [pyAssert, hT, if_true, pure, Except.pure, take_drop_scaleLast] at h
          obtain ⟨t0, t1, t2⟩ := (dims_one_iff T).1 hT
          injection h with h
          injection h with h1 h
          injection h with h2 h3
          subst h2
          exact ⟨ψ1, A0, rest, q0, qrest, As, qs, T, rfl, hA, hq, hs, t0, t1, t2, h1.symm, h3.symm⟩
        · simp only [pyAssert, hT] at h
          cases h
    · cases h

theorem compress_right_inv (h : MPS.compress dqr k dabs divR ψ tol false = .ok (ψ', nrm, scale)) :
    ∃ ψ1 Al rrest ql qrrest As qs T, MPS.orthonormalize dqr ψ true = .ok (ψ1, nrm) ∧
      ψ1.A.reverse = Al :: rrest ∧ ψ1.qD.reverse = ql :: qrrest ∧
      MPS.sweepRightSvd k ψ1.qd tol Al ql rrest qrrest = .ok (As, qs, T) ∧ T.d0 = 1 ∧ T.d1 = 1 ∧ T.d2 = 1 ∧
      ψ' = ⟨ψ1.qd, (ql :: qs).reverse, (scaleLast (divR (T.f 0 0 0) (dabs (T.f 0 0 0))) As).reverse⟩ ∧
      scale = dabs (T.f 0 0 0) := by
  unfold MPS.compress at h
  simp only [Bool.false_eq_true, if_false] at h
  cases ho : MPS.orthonormalize (ρ := ℝ) dqr ψ true with
  | error e => rw [ho] at h; cases h
  | ok r =>
    obtain ⟨ψ1, nrm'⟩ := r
    rw [ho] at h
    simp only [bind, Except.bind] at h
    split at h
    · rename_i Al rrest ql qrrest hA hq
      cases hs : MPS.sweepRightSvd k ψ1.qd tol Al ql rrest qrrest with
      | error e => rw [hs] at h; cases h
      | ok r' =>
        obtain ⟨As, qs, T⟩ := r'
        rw [hs] at h
        by_cases hT : (T.d0 == 1 && T.d1 == 1 && T.d2 == 1) = true
        · simp only [pyAssert, hT, if_true, pure, Except.pure, take_drop_scaleLast] at h
          obtain ⟨t0, t1, t2⟩ := (dims_one_iff T).1 hT
          injection h with h
          injection h with h1 h
          injection h with h2 h3
          subst h2
          exact ⟨ψ1, Al, rrest, ql, qrrest, As, qs, T, rfl, hA, hq, hs, t0, t1, t2, h1.symm, h3.symm⟩
        · simp only [pyAssert, hT] at h
          cases h
    · cases h

end Ptn.Compress

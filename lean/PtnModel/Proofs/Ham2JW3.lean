import PtnModel.Proofs.Ham2JW2
/-!
# The padded word of the interaction chain of `(i < j, k < l)` is the Jordan-Wigner product word, cases 1-7

The 13 relative orders of `i < j` and `k < l` (with coinciding sites) are treated one by one: in each the case analysis of
`molIntChain` on the sorted `(site, OID)` pairs is evaluated, the `OpChain` constructor is shown to accept the lists, and the
identity-padded word is identified, segment by segment, with `fw L (intF i j k l)`, the letters of `a†_i a†_j a_l a_k`
(`Proofs/Ham2JW2.lean`).  This file: `i` is the smallest site, or `i = k`.
-/
set_option linter.unusedSectionVars false
set_option linter.unusedSimpArgs false
namespace Ptn.Ham2
open Ptn Ptn.Og Ptn.Ham Ptn.Ch Ptn.Dense List

variable {κ : Type} [CommRing κ] [DecidableEq κ]

theorem word_eq (W : Word) (segs : List (Nat × Int)) (n : Nat) (f : Nat → Int) (h1 : W = expand segs) (h2 : total segs = n)
    (h3 : Agree f 0 segs) : W = fw n f := by
  have := expand_eq f segs 0 h3
  rw [h1, this, h2]
  simp

/-- closes one `Agree` goal for the letters `intF` -/
macro "agree_int" : tactic =>
  `(tactic| (intro x h1 h2
             simp (disch := omega) only [intF, w1F, w2F, if_pos, if_neg]
             rfl))

theorem molInt_case1 (L i j k l : Int) (coeff : κ) (pi : 0 ≤ i) (pj : 0 ≤ j) (pk : 0 ≤ k) (pl : 0 ≤ l) (h0 : i < j) (h1 : j < k) (h2 : k < l) (hL : l < L) :
    ∃ ch : OpChain κ, molIntChain i j k l coeff = .ok ch ∧ ch.coeff = coeff ∧
      ch.paddedWord L 0 = fw L.toNat (intF i.toNat j.toNat k.toNat l.toNat) := by
  unfold molIntChain
  simp (disch := omega) only [sortPairs, List.foldr, insertPair_nil, insertPair_le, insertPair_gt, mC, mA, mN, mI, mZ,
    beq_iff_eq, if_pos, if_neg, decide_eq_true, pyAssert_true_bind, bind_pure_comp, pure_bind]
  refine ⟨_, mk'_ok _ _ _ _ (by chain_side) (by omega), rfl, ?_⟩
  refine word_eq _ [(i.toNat, 0), (1, 1), ((j - i - 1).toNat, 3), (1, 1), ((k - j - 1).toNat, 0), (1, -1), ((l - k - 1).toNat, 3), (1, -1), ((L - 1 - l).toNat, 0)] _ _ ?_ ?_ ?_
  · simp [expand, pyRepeat, OpChain.paddedWord, OpChain.length]
    omega
  · simp [total]; omega
  · refine ⟨?_, ?_, ?_, ?_, ?_, ?_, ?_, ?_, ?_, trivial⟩ <;> agree_int

theorem molInt_case2 (L i j l : Int) (coeff : κ) (pi : 0 ≤ i) (pj : 0 ≤ j) (pl : 0 ≤ l) (h0 : i < j) (h1 : j < l) (hL : l < L) :
    ∃ ch : OpChain κ, molIntChain i j j l coeff = .ok ch ∧ ch.coeff = coeff ∧
      ch.paddedWord L 0 = fw L.toNat (intF i.toNat j.toNat j.toNat l.toNat) := by
  unfold molIntChain
  simp (disch := omega) only [sortPairs, List.foldr, insertPair_nil, insertPair_le, insertPair_gt, mC, mA, mN, mI, mZ,
    beq_iff_eq, if_pos, if_neg, decide_eq_true, pyAssert_true_bind, bind_pure_comp, pure_bind]
  refine ⟨_, mk'_ok _ _ _ _ (by chain_side) (by omega), rfl, ?_⟩
  refine word_eq _ [(i.toNat, 0), (1, 1), ((j - i - 1).toNat, 3), (1, 2), ((l - j - 1).toNat, 3), (1, -1), ((L - 1 - l).toNat, 0)] _ _ ?_ ?_ ?_
  · simp [expand, pyRepeat, OpChain.paddedWord, OpChain.length]
    omega
  · simp [total]; omega
  · refine ⟨?_, ?_, ?_, ?_, ?_, ?_, ?_, trivial⟩ <;> agree_int

theorem molInt_case3 (L i j k l : Int) (coeff : κ) (pi : 0 ≤ i) (pj : 0 ≤ j) (pk : 0 ≤ k) (pl : 0 ≤ l) (h0 : i < k) (h1 : k < j) (h2 : j < l) (hL : l < L) :
    ∃ ch : OpChain κ, molIntChain i j k l coeff = .ok ch ∧ ch.coeff = coeff ∧
      ch.paddedWord L 0 = fw L.toNat (intF i.toNat j.toNat k.toNat l.toNat) := by
  unfold molIntChain
  simp (disch := omega) only [sortPairs, List.foldr, insertPair_nil, insertPair_le, insertPair_gt, mC, mA, mN, mI, mZ,
    beq_iff_eq, if_pos, if_neg, decide_eq_true, pyAssert_true_bind, bind_pure_comp, pure_bind]
  refine ⟨_, mk'_ok _ _ _ _ (by chain_side) (by omega), rfl, ?_⟩
  refine word_eq _ [(i.toNat, 0), (1, 1), ((k - i - 1).toNat, 3), (1, -1), ((j - k - 1).toNat, 0), (1, 1), ((l - j - 1).toNat, 3), (1, -1), ((L - 1 - l).toNat, 0)] _ _ ?_ ?_ ?_
  · simp [expand, pyRepeat, OpChain.paddedWord, OpChain.length]
    omega
  · simp [total]; omega
  · refine ⟨?_, ?_, ?_, ?_, ?_, ?_, ?_, ?_, ?_, trivial⟩ <;> agree_int

theorem molInt_case4 (L i j k : Int) (coeff : κ) (pi : 0 ≤ i) (pj : 0 ≤ j) (pk : 0 ≤ k) (h0 : i < k) (h1 : k < j) (hL : j < L) :
    ∃ ch : OpChain κ, molIntChain i j k j coeff = .ok ch ∧ ch.coeff = coeff ∧
      ch.paddedWord L 0 = fw L.toNat (intF i.toNat j.toNat k.toNat j.toNat) := by
  unfold molIntChain
  simp (disch := omega) only [sortPairs, List.foldr, insertPair_nil, insertPair_le, insertPair_gt, mC, mA, mN, mI, mZ,
    beq_iff_eq, if_pos, if_neg, decide_eq_true, pyAssert_true_bind, bind_pure_comp, pure_bind]
  refine ⟨_, mk'_ok _ _ _ _ (by chain_side) (by omega), rfl, ?_⟩
  refine word_eq _ [(i.toNat, 0), (1, 1), ((k - i - 1).toNat, 3), (1, -1), ((j - k - 1).toNat, 0), (1, 2), ((L - 1 - j).toNat, 0)] _ _ ?_ ?_ ?_
  · simp [expand, pyRepeat, OpChain.paddedWord, OpChain.length]
    omega
  · simp [total]; omega
  · refine ⟨?_, ?_, ?_, ?_, ?_, ?_, ?_, trivial⟩ <;> agree_int

theorem molInt_case5 (L i j k l : Int) (coeff : κ) (pi : 0 ≤ i) (pj : 0 ≤ j) (pk : 0 ≤ k) (pl : 0 ≤ l) (h0 : i < k) (h1 : k < l) (h2 : l < j) (hL : j < L) :
    ∃ ch : OpChain κ, molIntChain i j k l coeff = .ok ch ∧ ch.coeff = coeff ∧
      ch.paddedWord L 0 = fw L.toNat (intF i.toNat j.toNat k.toNat l.toNat) := by
  unfold molIntChain
  simp (disch := omega) only [sortPairs, List.foldr, insertPair_nil, insertPair_le, insertPair_gt, mC, mA, mN, mI, mZ,
    beq_iff_eq, if_pos, if_neg, decide_eq_true, pyAssert_true_bind, bind_pure_comp, pure_bind]
  refine ⟨_, mk'_ok _ _ _ _ (by chain_side) (by omega), rfl, ?_⟩
  refine word_eq _ [(i.toNat, 0), (1, 1), ((k - i - 1).toNat, 3), (1, -1), ((l - k - 1).toNat, 0), (1, -1), ((j - l - 1).toNat, 3), (1, 1), ((L - 1 - j).toNat, 0)] _ _ ?_ ?_ ?_
  · simp [expand, pyRepeat, OpChain.paddedWord, OpChain.length]
    omega
  · simp [total]; omega
  · refine ⟨?_, ?_, ?_, ?_, ?_, ?_, ?_, ?_, ?_, trivial⟩ <;> agree_int

theorem molInt_case6 (L i j l : Int) (coeff : κ) (pi : 0 ≤ i) (pj : 0 ≤ j) (pl : 0 ≤ l) (h0 : i < j) (h1 : j < l) (hL : l < L) :
    ∃ ch : OpChain κ, molIntChain i j i l coeff = .ok ch ∧ ch.coeff = coeff ∧
      ch.paddedWord L 0 = fw L.toNat (intF i.toNat j.toNat i.toNat l.toNat) := by
  unfold molIntChain
  simp (disch := omega) only [sortPairs, List.foldr, insertPair_nil, insertPair_le, insertPair_gt, mC, mA, mN, mI, mZ,
    beq_iff_eq, if_pos, if_neg, decide_eq_true, pyAssert_true_bind, bind_pure_comp, pure_bind]
  refine ⟨_, mk'_ok _ _ _ _ (by chain_side) (by omega), rfl, ?_⟩
  refine word_eq _ [(i.toNat, 0), (1, 2), ((j - i - 1).toNat, 0), (1, 1), ((l - j - 1).toNat, 3), (1, -1), ((L - 1 - l).toNat, 0)] _ _ ?_ ?_ ?_
  · simp [expand, pyRepeat, OpChain.paddedWord, OpChain.length]
    omega
  · simp [total]; omega
  · refine ⟨?_, ?_, ?_, ?_, ?_, ?_, ?_, trivial⟩ <;> agree_int

theorem molInt_case7 (L i j : Int) (coeff : κ) (pi : 0 ≤ i) (pj : 0 ≤ j) (h0 : i < j) (hL : j < L) :
    ∃ ch : OpChain κ, molIntChain i j i j coeff = .ok ch ∧ ch.coeff = coeff ∧
      ch.paddedWord L 0 = fw L.toNat (intF i.toNat j.toNat i.toNat j.toNat) := by
  unfold molIntChain
  simp (disch := omega) only [sortPairs, List.foldr, insertPair_nil, insertPair_le, insertPair_gt, mC, mA, mN, mI, mZ,
    beq_iff_eq, if_pos, if_neg, decide_eq_true, pyAssert_true_bind, bind_pure_comp, pure_bind]
  refine ⟨_, mk'_ok _ _ _ _ (by chain_side) (by omega), rfl, ?_⟩
  refine word_eq _ [(i.toNat, 0), (1, 2), ((j - i - 1).toNat, 0), (1, 2), ((L - 1 - j).toNat, 0)] _ _ ?_ ?_ ?_
  · simp [expand, pyRepeat, OpChain.paddedWord, OpChain.length]
    omega
  · simp [total]; omega
  · refine ⟨?_, ?_, ?_, ?_, ?_, trivial⟩ <;> agree_int

end Ptn.Ham2

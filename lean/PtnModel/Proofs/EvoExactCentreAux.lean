import PtnModel.Proofs.EvoExactComplete
/-!
# Auxiliary lemmas for `centre_step_dense`: the unitary embedding of the centre tensor

`Frame d c n Dl Dr Ls Rs` : prefix chain `Ls` (`c` sites) and suffix chain `Rs` (`n` sites) whose products
`PL σl x = pmat Ls σl 0 x`, `PR σr y = pmat Rs σr y 0` are orthonormal AND complete.

* `emb Ls Rs Dl Dr X σl s σr` : the amplitude `(V X)(σl ++ s :: σr)`;
* `locOf Ls Rs c n d Dl Dr w`  : the local tensor `Vᴴ w`;
* `Frame.VU`, `Frame.UV`       : `V Vᴴ = 1`, `Vᴴ V = 1`.
-/
set_option linter.unusedSectionVars false

namespace Ptn.Evo
open Ptn Ptn.BondOps Ptn.Ortho Ptn.Env Ptn.Krylov Ptn.Dense Finset

variable {𝕜 : Type} [RCLike 𝕜]

/-! ## pure algebra -/

theorem alg_VU {ι κ : Type} (S1 : Finset ι) (S2 : Finset κ) (Sx Sy : Finset Nat) (PL : ι → Nat → 𝕜) (PR : κ → Nat → 𝕜)
    (pl pr : Nat → 𝕜) (w : ι → κ → 𝕜) :
    ∑ x ∈ Sx, pl x * ∑ y ∈ Sy, (∑ σl ∈ S1, ∑ σr ∈ S2, star (PL σl x) * star (PR σr y) * w σl σr) * pr y =
    ∑ σl ∈ S1, ∑ σr ∈ S2, (∑ x ∈ Sx, pl x * star (PL σl x)) * (∑ y ∈ Sy, pr y * star (PR σr y)) * w σl σr := by
  simp only [Finset.sum_mul, Finset.mul_sum]
  sum_pull S1
  sum_pull S2
  sum_pull Sx
  sum_pull Sy
  ring

theorem alg_UV {ι κ : Type} (S1 : Finset ι) (S2 : Finset κ) (Sx Sy : Finset Nat) (PL : ι → Nat → 𝕜) (PR : κ → Nat → 𝕜)
    (X : Nat → Nat → 𝕜) (x y : Nat) :
    ∑ σl ∈ S1, ∑ σr ∈ S2, star (PL σl x) * star (PR σr y) * (∑ x' ∈ Sx, PL σl x' * ∑ y' ∈ Sy, X x' y' * PR σr y') =
    ∑ x' ∈ Sx, ∑ y' ∈ Sy, (∑ σl ∈ S1, star (PL σl x) * PL σl x') * (∑ σr ∈ S2, star (PR σr y) * PR σr y') * X x' y' := by
  simp only [Finset.sum_mul, Finset.mul_sum]
  sum_pull Sx
  sum_pull Sy
  sum_pull S1
  sum_pull S2
  ring

theorem alg_V_lin {ι : Type} (Sf : Finset ι) (Sx Sy : Finset Nat) (pl pr : Nat → 𝕜) (a : ι → 𝕜) (Y : ι → Nat → Nat → 𝕜) :
    ∑ x ∈ Sx, pl x * ∑ y ∈ Sy, (∑ f ∈ Sf, a f * Y f x y) * pr y =
    ∑ f ∈ Sf, a f * ∑ x ∈ Sx, pl x * ∑ y ∈ Sy, Y f x y * pr y := by
  simp only [Finset.sum_mul, Finset.mul_sum]
  sum_pull Sf
  sum_pull Sx
  sum_pull Sy
  ring

theorem alg_U_lin {ι κ φ : Type} (Sf : Finset φ) (S1 : Finset ι) (S2 : Finset κ) (pl : ι → 𝕜) (pr : κ → 𝕜) (a : φ → 𝕜)
    (w : φ → ι → κ → 𝕜) :
    ∑ σl ∈ S1, ∑ σr ∈ S2, pl σl * pr σr * (∑ f ∈ Sf, a f * w f σl σr) =
    ∑ f ∈ Sf, a f * ∑ σl ∈ S1, ∑ σr ∈ S2, pl σl * pr σr * w f σl σr := by
  simp only [Finset.mul_sum]
  sum_pull Sf
  sum_pull S1
  sum_pull S2
  ring

theorem alg_U_smul {ι κ : Type} (S1 : Finset ι) (S2 : Finset κ) (pl : ι → 𝕜) (pr : κ → 𝕜) (a : 𝕜) (w : ι → κ → 𝕜) :
    ∑ σl ∈ S1, ∑ σr ∈ S2, pl σl * pr σr * (a * w σl σr) = a * ∑ σl ∈ S1, ∑ σr ∈ S2, pl σl * pr σr * w σl σr := by
  simp only [Finset.mul_sum]
  sum_pull S1
  sum_pull S2
  ring

theorem sum_delta2 {ι κ : Type} [DecidableEq ι] [DecidableEq κ] (S1 : Finset ι) (S2 : Finset κ) {i : ι} {j : κ}
    (hi : i ∈ S1) (hj : j ∈ S2) (w : ι → κ → 𝕜) :
    ∑ a ∈ S1, ∑ b ∈ S2, (if i = a then (1 : 𝕜) else 0) * (if j = b then 1 else 0) * w a b = w i j := by
  have e : ∀ a ∈ S1, ∑ b ∈ S2, (if i = a then (1 : 𝕜) else 0) * (if j = b then 1 else 0) * w a b =
      if i = a then w a j else 0 := by
    intro a _
    by_cases h : i = a
    · simp only [if_pos h, one_mul]
      simp only [ite_mul, one_mul, zero_mul]
      rw [Finset.sum_ite_eq S2 j, if_pos hj]
    · simp only [if_neg h, zero_mul, Finset.sum_const_zero]
  rw [Finset.sum_congr rfl e, Finset.sum_ite_eq S1 i, if_pos hi]

theorem sum_mid_delta {ι κ : Type} (S1 : Finset ι) (S2 : Finset κ) {d s' : Nat} (hs : s' < d) (F : ι → Nat → κ → 𝕜) :
    ∑ a ∈ S1, ∑ s ∈ range d, ∑ b ∈ S2, (if s' = s then F a s b else 0) = ∑ a ∈ S1, ∑ b ∈ S2, F a s' b := by
  refine Finset.sum_congr rfl fun a _ => ?_
  rw [Finset.sum_comm]
  refine Finset.sum_congr rfl fun b _ => ?_
  rw [Finset.sum_ite_eq (range d) s', if_pos (mem_range.2 hs)]

/-! ## the frame -/

/-- the amplitude of the chain `Ls ++ X :: Rs` at `σl ++ s :: σr` -/
noncomputable def emb (Ls Rs : List (T3 𝕜)) (Dl Dr : Nat) (X : T3 𝕜) (σl : List Nat) (s : Nat) (σr : List Nat) : 𝕜 :=
  ∑ x ∈ range Dl, pmat Ls σl 0 x * ∑ y ∈ range Dr, X.f s x y * pmat Rs σr y 0

/-- the local tensor `Vᴴ w` of a dense vector `w` -/
noncomputable def locOf (Ls Rs : List (T3 𝕜)) (c n d Dl Dr : Nat) (w : List Nat → 𝕜) : T3 𝕜 :=
  ⟨d, Dl, Dr, fun s x y => ∑ σl ∈ digits (List.replicate c d), ∑ σr ∈ digits (List.replicate n d),
    star (pmat Ls σl 0 x) * star (pmat Rs σr y 0) * w (σl ++ s :: σr)⟩

/-- orthonormal and complete prefix / suffix products -/
structure Frame (d c n Dl Dr : Nat) (Ls Rs : List (T3 𝕜)) : Prop where
  isoL : ∀ x x', x < Dl → x' < Dl →
    ∑ σl ∈ digits (List.replicate c d), star (pmat Ls σl 0 x) * pmat Ls σl 0 x' = if x = x' then 1 else 0
  isoR : ∀ y y', y < Dr → y' < Dr →
    ∑ σr ∈ digits (List.replicate n d), star (pmat Rs σr y 0) * pmat Rs σr y' 0 = if y = y' then 1 else 0
  compL : ∀ σ σ', σ ∈ digits (List.replicate c d) → σ' ∈ digits (List.replicate c d) →
    ∑ x ∈ range Dl, pmat Ls σ 0 x * star (pmat Ls σ' 0 x) = if σ = σ' then 1 else 0
  compR : ∀ σ σ', σ ∈ digits (List.replicate n d) → σ' ∈ digits (List.replicate n d) →
    ∑ y ∈ range Dr, pmat Rs σ y 0 * star (pmat Rs σ' y 0) = if σ = σ' then 1 else 0

variable {d c n Dl Dr : Nat} {Ls Rs : List (T3 𝕜)}

/-- `emb` only reads the in-range entries -/
theorem emb_congr {X Y : T3 𝕜} {s : Nat} (h : ∀ x y, x < Dl → y < Dr → X.f s x y = Y.f s x y) (σl σr : List Nat) :
    emb Ls Rs Dl Dr X σl s σr = emb Ls Rs Dl Dr Y σl s σr := by
  unfold emb
  refine sum_congr rfl fun x hx => ?_
  congr 1
  refine sum_congr rfl fun y hy => ?_
  rw [h x y (mem_range.1 hx) (mem_range.1 hy)]

/-- `emb` is linear -/
theorem emb_lin {K : Nat} {a : Nat → 𝕜} {Y : Nat → T3 𝕜} {X : T3 𝕜} {s : Nat}
    (h : ∀ x y, x < Dl → y < Dr → X.f s x y = ∑ f ∈ range K, a f * (Y f).f s x y) (σl σr : List Nat) :
    emb Ls Rs Dl Dr X σl s σr = ∑ f ∈ range K, a f * emb Ls Rs Dl Dr (Y f) σl s σr := by
  unfold emb
  rw [← alg_V_lin]
  refine sum_congr rfl fun x hx => ?_
  congr 1
  refine sum_congr rfl fun y hy => ?_
  rw [h x y (mem_range.1 hx) (mem_range.1 hy)]

/-- `locOf` only reads the vector on the digit lists -/
theorem locOf_congr {w w' : List Nat → 𝕜} {s : Nat}
    (h : ∀ σl σr, σl ∈ digits (List.replicate c d) → σr ∈ digits (List.replicate n d) →
      w (σl ++ s :: σr) = w' (σl ++ s :: σr)) (x y : Nat) :
    (locOf Ls Rs c n d Dl Dr w).f s x y = (locOf Ls Rs c n d Dl Dr w').f s x y := by
  unfold locOf
  refine sum_congr rfl fun σl hl => sum_congr rfl fun σr hr => ?_
  rw [h σl σr hl hr]

/-- `locOf` is linear -/
theorem locOf_lin {K : Nat} {a : Nat → 𝕜} {w : Nat → List Nat → 𝕜} {g : List Nat → 𝕜} {s : Nat}
    (h : ∀ σl σr, σl ∈ digits (List.replicate c d) → σr ∈ digits (List.replicate n d) →
      g (σl ++ s :: σr) = ∑ f ∈ range K, a f * w f (σl ++ s :: σr)) (x y : Nat) :
    (locOf Ls Rs c n d Dl Dr g).f s x y = ∑ f ∈ range K, a f * (locOf Ls Rs c n d Dl Dr (w f)).f s x y := by
  unfold locOf
  show ∑ σl ∈ digits (List.replicate c d), ∑ σr ∈ digits (List.replicate n d),
      star (pmat Ls σl 0 x) * star (pmat Rs σr y 0) * g (σl ++ s :: σr) =
    ∑ f ∈ range K, a f * ∑ σl ∈ digits (List.replicate c d), ∑ σr ∈ digits (List.replicate n d),
      star (pmat Ls σl 0 x) * star (pmat Rs σr y 0) * w f (σl ++ s :: σr)
  rw [← alg_U_lin (range K) _ _ (fun σl => star (pmat Ls σl 0 x)) (fun σr => star (pmat Rs σr y 0)) a
    (fun f σl σr => w f (σl ++ s :: σr))]
  refine sum_congr rfl fun σl hl => sum_congr rfl fun σr hr => ?_
  rw [h σl σr hl hr]

theorem locOf_smul {a : 𝕜} {w g : List Nat → 𝕜} {s : Nat}
    (h : ∀ σl σr, σl ∈ digits (List.replicate c d) → σr ∈ digits (List.replicate n d) →
      g (σl ++ s :: σr) = a * w (σl ++ s :: σr)) (x y : Nat) :
    (locOf Ls Rs c n d Dl Dr g).f s x y = a * (locOf Ls Rs c n d Dl Dr w).f s x y := by
  unfold locOf
  show ∑ σl ∈ digits (List.replicate c d), ∑ σr ∈ digits (List.replicate n d),
      star (pmat Ls σl 0 x) * star (pmat Rs σr y 0) * g (σl ++ s :: σr) =
    a * ∑ σl ∈ digits (List.replicate c d), ∑ σr ∈ digits (List.replicate n d),
      star (pmat Ls σl 0 x) * star (pmat Rs σr y 0) * w (σl ++ s :: σr)
  rw [← alg_U_smul _ _ (fun σl => star (pmat Ls σl 0 x)) (fun σr => star (pmat Rs σr y 0)) a
    (fun σl σr => w (σl ++ s :: σr))]
  refine sum_congr rfl fun σl hl => sum_congr rfl fun σr hr => ?_
  rw [h σl σr hl hr]

/-- **completeness** `V Vᴴ = 1` -/
theorem Frame.VU (F : Frame d c n Dl Dr Ls Rs) (w : List Nat → 𝕜) {σl σr : List Nat} (s : Nat)
    (hl : σl ∈ digits (List.replicate c d)) (hr : σr ∈ digits (List.replicate n d)) :
    emb Ls Rs Dl Dr (locOf Ls Rs c n d Dl Dr w) σl s σr = w (σl ++ s :: σr) := by
  unfold emb locOf
  show ∑ x ∈ range Dl, pmat Ls σl 0 x * ∑ y ∈ range Dr,
      (∑ σl' ∈ digits (List.replicate c d), ∑ σr' ∈ digits (List.replicate n d),
        star (pmat Ls σl' 0 x) * star (pmat Rs σr' y 0) * w (σl' ++ s :: σr')) * pmat Rs σr y 0 = _
  rw [alg_VU _ _ _ _ (fun σ x => pmat Ls σ 0 x) (fun σ y => pmat Rs σ y 0) (fun x => pmat Ls σl 0 x)
    (fun y => pmat Rs σr y 0) (fun σl' σr' => w (σl' ++ s :: σr'))]
  have e : ∀ σl' ∈ digits (List.replicate c d), ∀ σr' ∈ digits (List.replicate n d),
      (∑ x ∈ range Dl, pmat Ls σl 0 x * star (pmat Ls σl' 0 x)) *
        (∑ y ∈ range Dr, pmat Rs σr y 0 * star (pmat Rs σr' y 0)) * w (σl' ++ s :: σr') =
      (if σl = σl' then (1 : 𝕜) else 0) * (if σr = σr' then 1 else 0) * w (σl' ++ s :: σr') := by
    intro σl' hl' σr' hr'
    rw [F.compL σl σl' hl hl', F.compR σr σr' hr hr']
  rw [Finset.sum_congr rfl fun σl' hl' => Finset.sum_congr rfl fun σr' hr' => e σl' hl' σr' hr']
  exact sum_delta2 _ _ hl hr (fun σl' σr' => w (σl' ++ s :: σr'))

/-- **isometry** `Vᴴ V = 1` -/
theorem Frame.UV (F : Frame d c n Dl Dr Ls Rs) {X : T3 𝕜} {g : List Nat → 𝕜} {s : Nat}
    (hg : ∀ σl σr, σl ∈ digits (List.replicate c d) → σr ∈ digits (List.replicate n d) →
      g (σl ++ s :: σr) = emb Ls Rs Dl Dr X σl s σr) {x y : Nat} (hx : x < Dl) (hy : y < Dr) :
    (locOf Ls Rs c n d Dl Dr g).f s x y = X.f s x y := by
  unfold locOf
  show ∑ σl ∈ digits (List.replicate c d), ∑ σr ∈ digits (List.replicate n d),
      star (pmat Ls σl 0 x) * star (pmat Rs σr y 0) * g (σl ++ s :: σr) = _
  have e0 : ∀ σl ∈ digits (List.replicate c d), ∀ σr ∈ digits (List.replicate n d),
      star (pmat Ls σl 0 x) * star (pmat Rs σr y 0) * g (σl ++ s :: σr) =
      star (pmat Ls σl 0 x) * star (pmat Rs σr y 0) *
        (∑ x' ∈ range Dl, pmat Ls σl 0 x' * ∑ y' ∈ range Dr, X.f s x' y' * pmat Rs σr y' 0) := by
    intro σl hl σr hr
    rw [hg σl σr hl hr]
    rfl
  rw [Finset.sum_congr rfl fun σl hl => Finset.sum_congr rfl fun σr hr => e0 σl hl σr hr]
  rw [alg_UV _ _ _ _ (fun σ x => pmat Ls σ 0 x) (fun σ y => pmat Rs σ y 0) (fun x' y' => X.f s x' y') x y]
  have e : ∀ x' ∈ range Dl, ∀ y' ∈ range Dr,
      (∑ σl ∈ digits (List.replicate c d), star (pmat Ls σl 0 x) * pmat Ls σl 0 x') *
        (∑ σr ∈ digits (List.replicate n d), star (pmat Rs σr y 0) * pmat Rs σr y' 0) * X.f s x' y' =
      (if x = x' then (1 : 𝕜) else 0) * (if y = y' then 1 else 0) * X.f s x' y' := by
    intro x' hx' y' hy'
    rw [F.isoL x x' hx (mem_range.1 hx'), F.isoR y y' hy (mem_range.1 hy')]
  rw [Finset.sum_congr rfl fun x' hx' => Finset.sum_congr rfl fun y' hy' => e x' hx' y' hy']
  exact sum_delta2 _ _ (mem_range.2 hx) (mem_range.2 hy) (fun x' y' => X.f s x' y')

end Ptn.Evo

import PtnModel.Proofs.AutPaths
/-!
# Exact matrices as lists: shapes and entries of `kron`, `add`, `scale`, `zero`, `identity`

Digit indexing: `digIdx d s` is the flat index of the digit list `s` (first digit most significant), the index
convention of `numpy.kron`.
-/
set_option linter.unusedSectionVars false

namespace Ptn.Og
open List

variable {κ : Type} [CommRing κ]

/-- an `n × m` matrix -/
def IsMat (M : Mat κ) (n m : Nat) : Prop := M.length = n ∧ ∀ r ∈ M, r.length = m

theorem getD_flatMap_uniform {α β : Type} (f : α → List β) (q : Nat) (d : β) :
    ∀ (l : List α), (∀ x ∈ l, (f x).length = q) → ∀ (i k : Nat), k < q →
      (l.flatMap f).getD (i * q + k) d = match l[i]? with
        | some x => (f x).getD k d
        | none => d := by
  intro l
  induction l with
  | nil => intro _ i k _; simp
  | cons x xs ih =>
    intro hf i k hk
    have hx : (f x).length = q := hf x (by simp)
    rw [flatMap_cons]
    cases i with
    | zero =>
      simp only [Nat.zero_mul, Nat.zero_add, getElem?_cons_zero]
      rw [List.getD_eq_getElem?_getD, List.getElem?_append_left (by omega), ← List.getD_eq_getElem?_getD]
    | succ i =>
      have e : (i + 1) * q + k = (f x).length + (i * q + k) := by rw [hx]; ring
      rw [e, List.getD_eq_getElem?_getD, List.getElem?_append_right (by omega)]
      simp only [Nat.add_sub_cancel_left, getElem?_cons_succ]
      rw [← List.getD_eq_getElem?_getD]
      exact ih (fun y hy => hf y (by simp [hy])) i k hk

theorem length_flatMap_uniform {α β : Type} (f : α → List β) (q : Nat) :
    ∀ (l : List α), (∀ x ∈ l, (f x).length = q) → (l.flatMap f).length = l.length * q := by
  intro l
  induction l with
  | nil => intro _; simp
  | cons x xs ih =>
    intro hf
    rw [flatMap_cons, length_append, hf x (by simp), ih (fun y hy => hf y (by simp [hy])), length_cons]
    ring

theorem kron_isMat {A B : Mat κ} {p p' q q' : Nat} (hA : IsMat A p p') (hB : IsMat B q q') :
    IsMat (Mat.kron A B) (p * q) (p' * q') := by
  unfold Mat.kron
  constructor
  · rw [length_flatMap_uniform _ q _ (fun ra _ => by simp [hB.1]), hA.1]
  · intro r hr
    rw [mem_flatMap] at hr
    obtain ⟨ra, hra, hr⟩ := hr
    rw [mem_map] at hr
    obtain ⟨rb, hrb, rfl⟩ := hr
    rw [length_flatMap_uniform _ q' _ (fun a _ => by simp [hB.2 rb hrb]), hA.2 ra hra]

/-- entries of a Kronecker product -/
theorem kron_entry (A : Mat κ) {B : Mat κ} {q q' : Nat} (hB : IsMat B q q') (i j k l : Nat) (hk : k < q) (hl : l < q') :
    (Mat.kron A B).entry (i * q + k) (j * q' + l) = A.entry i j * B.entry k l := by
  unfold Mat.entry Mat.kron
  rw [getD_flatMap_uniform _ q [] A (fun ra _ => by simp [hB.1]) i k hk]
  cases hA : A[i]? with
  | none => simp [List.getD_eq_getElem?_getD, hA]
  | some ra =>
    simp only
    have hkB : k < B.length := by rw [hB.1]; exact hk
    have hrow : (B.map fun rb => ra.flatMap fun a => rb.map fun b => a * b).getD k [] =
        ra.flatMap fun a => (B.getD k []).map fun b => a * b := by
      simp [List.getD_eq_getElem?_getD, hkB]
    rw [hrow]
    have hBk : (B.getD k []).length = q' := by
      apply hB.2
      rw [List.getD_eq_getElem?_getD, List.getElem?_eq_getElem hkB]
      simp
    have hAi : A.getD i [] = ra := by simp [List.getD_eq_getElem?_getD, hA]
    rw [hAi]
    generalize B.getD k [] = rb at hBk ⊢
    rw [getD_flatMap_uniform _ q' 0 ra (fun a _ => by rw [length_map]; exact hBk) j l hl]
    cases hra : ra[j]? with
    | none => simp [List.getD_eq_getElem?_getD, hra]
    | some a =>
      simp only
      have hlB : l < rb.length := by rw [hBk]; exact hl
      have e1 : (rb.map fun b => a * b).getD l 0 = a * rb.getD l 0 := by
        rw [List.getD_eq_getElem?_getD, getElem?_map, List.getD_eq_getElem?_getD, List.getElem?_eq_getElem hlB]
        simp
      have e2 : ra.getD j 0 = a := by rw [List.getD_eq_getElem?_getD, hra]; rfl
      rw [e1, e2]

/-! ## digit indices -/

/-- flat index of a digit list, first digit most significant -/
def digIdx (d : Nat) : List Nat → Nat
  | [] => 0
  | a :: s => a * d ^ s.length + digIdx d s

theorem digIdx_snoc (d : Nat) (s : List Nat) (a : Nat) : digIdx d (s ++ [a]) = digIdx d s * d + a := by
  induction s with
  | nil => simp [digIdx]
  | cons b s ih =>
    simp only [cons_append, digIdx, ih, length_append, length_cons, length_nil, Nat.zero_add, pow_succ]
    ring

/-- digit lists: length `n`, all digits below `d` -/
def IsDigits (d n : Nat) (s : List Nat) : Prop := s.length = n ∧ ∀ a ∈ s, a < d

theorem digIdx_lt {d n : Nat} {s : List Nat} (h : IsDigits d n s) : digIdx d s < d ^ n := by
  induction s generalizing n with
  | nil => obtain ⟨rfl, _⟩ := h; simp [digIdx]
  | cons a s ih =>
    obtain ⟨hl, hd⟩ := h
    subst hl
    have h1 := ih (n := s.length) ⟨rfl, fun b hb => hd b (by simp [hb])⟩
    have h2 : a < d := hd a (by simp)
    simp only [digIdx, length_cons, pow_succ]
    calc a * d ^ s.length + digIdx d s < a * d ^ s.length + d ^ s.length := by omega
      _ = (a + 1) * d ^ s.length := by ring
      _ ≤ d * d ^ s.length := Nat.mul_le_mul_right _ h2
      _ = d ^ s.length * d := by ring

/-! ## `add`, `scale`, `zero`, `identity` -/

theorem scale_isMat {A : Mat κ} {n m : Nat} (c : κ) (h : IsMat A n m) : IsMat (Mat.scale c A) n m := by
  unfold Mat.scale
  exact ⟨by simp [h.1], fun r hr => by
    rw [mem_map] at hr; obtain ⟨r', hr', rfl⟩ := hr; simp [h.2 r' hr']⟩

theorem scale_entry (c : κ) (A : Mat κ) (i j : Nat) : (Mat.scale c A).entry i j = c * A.entry i j := by
  unfold Mat.entry Mat.scale
  simp only [List.getD_eq_getElem?_getD, getElem?_map]
  cases A[i]? with
  | none => simp
  | some r =>
    simp only [Option.map_some, Option.getD_some, getElem?_map]
    cases r[j]? <;> simp

theorem add_isMat {A B : Mat κ} {n m : Nat} (hA : IsMat A n m) (hB : IsMat B n m) : IsMat (Mat.add A B) n m := by
  unfold Mat.add
  constructor
  · simp [hA.1, hB.1]
  · intro r hr
    rw [List.mem_iff_getElem] at hr
    obtain ⟨i, hi, rfl⟩ := hr
    simp only [length_zipWith] at hi
    rw [getElem_zipWith, length_zipWith, hA.2 _ (getElem_mem _), hB.2 _ (getElem_mem _), Nat.min_self]

theorem add_entry {A B : Mat κ} {n m : Nat} (hA : IsMat A n m) (hB : IsMat B n m) (i j : Nat) :
    (Mat.add A B).entry i j = A.entry i j + B.entry i j := by
  unfold Mat.entry Mat.add
  simp only [List.getD_eq_getElem?_getD, getElem?_zipWith]
  by_cases hi : i < n
  · have hiA : i < A.length := by rw [hA.1]; exact hi
    have hiB : i < B.length := by rw [hB.1]; exact hi
    simp only [List.getElem?_eq_getElem hiA, List.getElem?_eq_getElem hiB, Option.map₂_some_some, Option.getD_some,
      getElem?_zipWith]
    have hlA : A[i].length = m := hA.2 _ (getElem_mem _)
    have hlB : B[i].length = m := hB.2 _ (getElem_mem _)
    by_cases hj : j < m
    · have hjA : j < A[i].length := by rw [hlA]; exact hj
      have hjB : j < B[i].length := by rw [hlB]; exact hj
      simp [List.getElem?_eq_getElem hjA, List.getElem?_eq_getElem hjB]
    · have hjA : A[i].length ≤ j := by rw [hlA]; omega
      have hjB : B[i].length ≤ j := by rw [hlB]; omega
      simp [List.getElem?_eq_none hjA, List.getElem?_eq_none hjB]
  · have hiA : A.length ≤ i := by rw [hA.1]; omega
    have hiB : B.length ≤ i := by rw [hB.1]; omega
    simp [List.getElem?_eq_none hiA, List.getElem?_eq_none hiB]

theorem zero_isMat (n m : Nat) : IsMat (Mat.zero n m : Mat κ) n m := by
  unfold Mat.zero
  exact ⟨by simp, fun r hr => by rw [List.eq_of_mem_replicate hr]; simp⟩

theorem zero_entry (n m i j : Nat) : (Mat.zero n m : Mat κ).entry i j = 0 := by
  unfold Mat.entry Mat.zero
  simp only [List.getD_eq_getElem?_getD, getElem?_replicate]
  by_cases hi : i < n
  · simp only [hi, if_true, Option.getD_some, getElem?_replicate]
    by_cases hj : j < m <;> simp [hj]
  · simp [hi]

theorem identity_isMat (n : Nat) : IsMat (Mat.identity n : Mat κ) n n := by
  unfold Mat.identity
  exact ⟨by simp, fun r hr => by
    rw [mem_map] at hr; obtain ⟨i, _, rfl⟩ := hr; simp⟩

theorem identity_one_entry : (Mat.identity 1 : Mat κ).entry 0 0 = 1 := by
  simp [Mat.identity, Mat.entry]

end Ptn.Og

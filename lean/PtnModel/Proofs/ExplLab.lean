import PtnModel.Proofs.ExplTerms
/-!
# Explicit molecular graph, part 4: left / right words of the node labels, classification of the wiring edges
-/
set_option linter.unusedSectionVars false
set_option linter.unusedSimpArgs false
set_option linter.unusedVariables false

namespace Ptn.Ham
open Ptn.Og List

/-- nodes connected to the left terminal -/
def isLeft (a : Lab) : Bool := a.1 == 0 || a.1 == 1 || a.1 == 2 || a.1 == 3 || a.1 == 4 || a.1 == 10

/-- the letter at site `p` on the path through the node labelled `a` -/
def letOf : Lab → Int → Int
  | (0, [i], _), p => if p < i then mI else if p = i then mC else mZ
  | (1, [i], _), p => if p < i then mI else if p = i then mA else mZ
  | (2, [i, j], _), p => if p < i then mI else if p = i then mC else if p < j then mZ else if p = j then mC else mI
  | (3, [i, j], _), p => if p < j then mI else if p = j then mA else if p < i then mZ else if p = i then mA else mI
  | (4, [i, j], _), p =>
    if i < j then (if p < i then mI else if p = i then mC else if p < j then mZ else if p = j then mA else mI)
    else if i = j then (if p = i then mN else mI)
    else (if p < j then mI else if p = j then mA else if p < i then mZ else if p = i then mC else mI)
  | (5, [i], _), p => if p < i then mZ else if p = i then mC else mI
  | (6, [i], _), p => if p < i then mZ else if p = i then mA else mI
  | (7, [i, j], _), p => if p < i then mI else if p = i then mC else if p < j then mZ else if p = j then mC else mI
  | (8, [i, j], _), p => if p < j then mI else if p = j then mA else if p < i then mZ else if p = i then mA else mI
  | (9, [i, j], _), p =>
    if i < j then (if p < i then mI else if p = i then mC else if p < j then mZ else if p = j then mA else mI)
    else if i = j then (if p = i then mN else mI)
    else (if p < j then mI else if p = j then mA else if p < i then mZ else if p = i then mC else mI)
  | _, _ => mI

/-- the charge of the nodes of a family (creation order of `molSpecs`; identity chains: 0) -/
def tagQ : Nat → Int
  | 0 => 1 | 1 => -1 | 2 => 2 | 3 => -2 | 4 => 0 | 5 => -1 | 6 => 1 | 7 => -2 | 8 => 2 | 9 => 0 | _ => 0

/-- the charge of an operator -/
def opQ (o : Int) : Int := if o = mC then 1 else if o = mA then -1 else 0

/-- word on the path from the left terminal to the node -/
def lwLab (a : Lab) : Word := (List.range a.2.2.toNat).map fun (q : Nat) => letOf a (q : Int)
/-- word on the path from the node to the right terminal -/
def rwLab (L : Int) (a : Lab) : Word := (List.range (L - a.2.2).toNat).map fun (q : Nat) => letOf a (a.2.2 + (q : Int))

/-- a wiring edge of the left forest -/
structure WLspec (L : Int) (x : Lab × Lab × Int) : Prop where
  ok1 : labOk L x.1
  ok2 : labOk L x.2.1
  l1 : isLeft x.1 = true
  l2 : isLeft x.2.1 = true
  lev : x.2.1.2.2 = x.1.2.2 + 1
  pos : 0 ≤ x.1.2.2
  pre : ∀ q : Int, 0 ≤ q → q < x.1.2.2 → letOf x.2.1 q = letOf x.1 q
  last : letOf x.2.1 x.1.2.2 = x.2.2
  chg : tagQ x.2.1.1 = tagQ x.1.1 + opQ x.2.2

/-- a wiring edge of the right forest -/
structure WRspec (L : Int) (x : Lab × Lab × Int) : Prop where
  ok1 : labOk L x.1
  ok2 : labOk L x.2.1
  r1 : isLeft x.1 = false
  r2 : isLeft x.2.1 = false
  lev : x.2.1.2.2 = x.1.2.2 + 1
  le : x.2.1.2.2 ≤ L
  first : letOf x.1 x.1.2.2 = x.2.2
  post : ∀ q : Int, x.1.2.2 < q → q < L → letOf x.1 q = letOf x.2.1 q
  chg : tagQ x.2.1.1 = tagQ x.1.1 + opQ x.2.2

theorem WLspec.word {L : Int} {x : Lab × Lab × Int} (h : WLspec L x) : lwLab x.2.1 = lwLab x.1 ++ [x.2.2] := by
  unfold lwLab
  have e : x.2.1.2.2.toNat = x.1.2.2.toNat + 1 := by rw [h.lev]; have := h.pos; omega
  rw [e, range_succ, map_append, map_cons, map_nil]
  congr 1
  · apply map_congr_left
    intro q hq
    have := mem_range.1 hq
    exact h.pre q (by omega) (by have := h.pos; omega)
  · have : ((x.1.2.2.toNat : Nat) : Int) = x.1.2.2 := by have := h.pos; omega
    rw [this, h.last]

theorem WRspec.word {L : Int} {x : Lab × Lab × Int} (h : WRspec L x) : rwLab L x.1 = x.2.2 :: rwLab L x.2.1 := by
  unfold rwLab
  have e : (L - x.1.2.2).toNat = (L - x.2.1.2.2).toNat + 1 := by have := h.lev; have := h.le; omega
  rw [e, range_succ_eq_map, map_cons, map_map]
  congr 1
  · simpa using h.first
  · apply map_congr_left
    intro q hq
    have := mem_range.1 hq
    simp only [Function.comp]
    rw [h.post _ (by push_cast; omega) (by push_cast; have := h.lev; omega)]
    congr 1
    push_cast
    rw [h.lev]
    omega

section segs
variable {α : Type} (mk : Lab → Lab → Int → α) (L : Int)

def seg1 : List α := (pyRange 0 (L - 1)).flatMap (fun i => [mk (10, [], i) (10, [], i + 1) mI])
def seg2 : List α := (pyRange 1 L).flatMap (fun i => [mk (11, [], i) (11, [], i + 1) mI])
def seg3 : List α := (pyRange 0 (L - 2)).flatMap (fun i => mk (10, [], i) (0, [i], i + 1) mC ::
      (pyRange (i + 1) (L - 2)).flatMap fun j => [mk (0, [i], j) (0, [i], j + 1) mZ])
def seg4 : List α := (pyRange 0 (L - 2)).flatMap (fun i => mk (10, [], i) (1, [i], i + 1) mA ::
      (pyRange (i + 1) (L - 2)).flatMap fun j => [mk (1, [i], j) (1, [i], j + 1) mZ])
def seg5 : List α := (pyRange 0 (L / 2 - 1)).flatMap (fun i => (pyRange (i + 1) (L / 2)).flatMap fun j => mk (0, [i], j) (2, [i, j], j + 1) mC ::
      (pyRange (j + 1) (L / 2)).flatMap fun k => [mk (2, [i, j], k) (2, [i, j], k + 1) mI])
def seg6 : List α := (pyRange 0 (L / 2)).flatMap (fun i => (pyRange 0 i).flatMap fun j => mk (1, [j], i) (3, [i, j], i + 1) mA ::
      (pyRange (i + 1) (L / 2)).flatMap fun k => [mk (3, [i, j], k) (3, [i, j], k + 1) mI])
def seg7 : List α := (pyRange 0 (L / 2)).flatMap (fun i => (pyRange 0 (L / 2)).flatMap fun j =>
      (if i < j then mk (0, [i], j) (4, [i, j], j + 1) mA
        else if i = j then mk (10, [], i) (4, [i, j], i + 1) mN else mk (1, [j], i) (4, [i, j], i + 1) mC) ::
      (pyRange (max i j + 1) (L / 2)).flatMap fun k => [mk (4, [i, j], k) (4, [i, j], k + 1) mI])
def seg8 : List α := (pyRange 2 L).flatMap (fun i => (pyRange 2 i).flatMap (fun j => [mk (5, [i], j) (5, [i], j + 1) mZ]) ++
      [mk (5, [i], i) (11, [], i + 1) mC])
def seg9 : List α := (pyRange 2 L).flatMap (fun i => (pyRange 2 i).flatMap (fun j => [mk (6, [i], j) (6, [i], j + 1) mZ]) ++
      [mk (6, [i], i) (11, [], i + 1) mA])
def seg10 : List α := (pyRange (L / 2 + 1) (L - 1)).flatMap (fun i => (pyRange (i + 1) L).flatMap fun j =>
      (pyRange (L / 2 + 1) i).flatMap (fun k => [mk (7, [i, j], k) (7, [i, j], k + 1) mI]) ++
      [mk (7, [i, j], i) (5, [j], i + 1) mC])
def seg11 : List α := (pyRange (L / 2 + 1) L).flatMap (fun i => (pyRange (L / 2 + 1) i).flatMap fun j =>
      (pyRange (L / 2 + 1) j).flatMap (fun k => [mk (8, [i, j], k) (8, [i, j], k + 1) mI]) ++
      [mk (8, [i, j], j) (6, [i], j + 1) mA])
def seg12 : List α := (pyRange (L / 2 + 1) L).flatMap (fun i => (pyRange (L / 2 + 1) L).flatMap fun j =>
      (pyRange (L / 2 + 1) (min i j)).flatMap (fun k => [mk (9, [i, j], k) (9, [i, j], k + 1) mI]) ++
      [if i < j then mk (9, [i, j], i) (6, [j], i + 1) mC
        else if i = j then mk (9, [i, j], i) (11, [], i + 1) mN else mk (9, [i, j], j) (5, [i], j + 1) mA])

theorem wireGen_segs : wireGen mk L = seg1 mk L ++ (seg2 mk L ++ (seg3 mk L ++ (seg4 mk L ++ (seg5 mk L ++ (seg6 mk L ++
    (seg7 mk L ++ (seg8 mk L ++ (seg9 mk L ++ (seg10 mk L ++ (seg11 mk L ++ seg12 mk L)))))))))) := rfl

end segs

/-- the label triple of an edge -/
def tri (a b : Lab) (o : Int) : Lab × Lab × Int := (a, b, o)

macro "wl_tac" : tactic =>
  `(tactic| (refine ⟨?_, ?_, rfl, rfl, ?_, ?_, ?_, ?_, rfl⟩ <;>
      (try simp only [mem_pyRange] at *) <;>
      (try intro q hq0 hq1) <;>
      (try simp only [labOk, letOf, tri] at *) <;>
      (try split_ifs) <;>
      first | rfl | omega))

theorem seg1_wl (L : Int) : ∀ x ∈ seg1 tri L, WLspec L x := by
  unfold seg1
  simp only [mem_flatMap, mem_cons, not_mem_nil, or_false]
  rintro x ⟨i, hi, rfl⟩
  wl_tac

theorem seg3_wl (L : Int) : ∀ x ∈ seg3 tri L, WLspec L x := by
  unfold seg3
  simp only [mem_flatMap, mem_cons, not_mem_nil, or_false]
  rintro x ⟨i, hi, rfl | ⟨j, hj, rfl⟩⟩
  · wl_tac
  · wl_tac


theorem seg4_wl (L : Int) : ∀ x ∈ seg4 tri L, WLspec L x := by
  unfold seg4
  simp only [mem_flatMap, mem_cons, not_mem_nil, or_false]
  rintro x ⟨i, hi, rfl | ⟨j, hj, rfl⟩⟩
  · wl_tac
  · wl_tac

theorem seg5_wl (L : Int) : ∀ x ∈ seg5 tri L, WLspec L x := by
  unfold seg5
  simp only [mem_flatMap, mem_cons, not_mem_nil, or_false]
  rintro x ⟨i, hi, j, hj, rfl | ⟨k, hk, rfl⟩⟩
  · wl_tac
  · wl_tac

theorem seg6_wl (L : Int) : ∀ x ∈ seg6 tri L, WLspec L x := by
  unfold seg6
  simp only [mem_flatMap, mem_cons, not_mem_nil, or_false]
  rintro x ⟨i, hi, j, hj, rfl | ⟨k, hk, rfl⟩⟩
  · wl_tac
  · wl_tac

theorem seg7_wl (L : Int) : ∀ x ∈ seg7 tri L, WLspec L x := by
  unfold seg7
  simp only [mem_flatMap, mem_cons, not_mem_nil, or_false]
  rintro x ⟨i, hi, j, hj, rfl | ⟨k, hk, rfl⟩⟩
  · by_cases h1 : i < j
    · rw [if_pos h1]; wl_tac
    · rw [if_neg h1]
      by_cases h2 : i = j
      · rw [if_pos h2]; subst h2; wl_tac
      · rw [if_neg h2]; wl_tac
  · wl_tac

macro "wr_tac" : tactic =>
  `(tactic| (refine ⟨?_, ?_, rfl, rfl, ?_, ?_, ?_, ?_, rfl⟩ <;>
      (try simp only [mem_pyRange] at *) <;>
      (try intro q hq0 hq1) <;>
      (try simp only [labOk, letOf, tri] at *) <;>
      (try split_ifs) <;>
      first | rfl | omega))

theorem seg2_wr (L : Int) : ∀ x ∈ seg2 tri L, WRspec L x := by
  unfold seg2
  simp only [mem_flatMap, mem_cons, not_mem_nil, or_false]
  rintro x ⟨i, hi, rfl⟩
  wr_tac

theorem seg8_wr (L : Int) : ∀ x ∈ seg8 tri L, WRspec L x := by
  unfold seg8
  simp only [mem_flatMap, mem_append, mem_cons, not_mem_nil, or_false]
  rintro x ⟨i, hi, ⟨j, hj, rfl⟩ | rfl⟩
  · wr_tac
  · wr_tac

theorem seg9_wr (L : Int) : ∀ x ∈ seg9 tri L, WRspec L x := by
  unfold seg9
  simp only [mem_flatMap, mem_append, mem_cons, not_mem_nil, or_false]
  rintro x ⟨i, hi, ⟨j, hj, rfl⟩ | rfl⟩
  · wr_tac
  · wr_tac

theorem seg10_wr (L : Int) : ∀ x ∈ seg10 tri L, WRspec L x := by
  unfold seg10
  simp only [mem_flatMap, mem_append, mem_cons, not_mem_nil, or_false]
  rintro x ⟨i, hi, j, hj, ⟨k, hk, rfl⟩ | rfl⟩
  · wr_tac
  · wr_tac

theorem seg11_wr (L : Int) : ∀ x ∈ seg11 tri L, WRspec L x := by
  unfold seg11
  simp only [mem_flatMap, mem_append, mem_cons, not_mem_nil, or_false]
  rintro x ⟨i, hi, j, hj, ⟨k, hk, rfl⟩ | rfl⟩
  · wr_tac
  · wr_tac

theorem seg12_wr (L : Int) : ∀ x ∈ seg12 tri L, WRspec L x := by
  unfold seg12
  simp only [mem_flatMap, mem_append, mem_cons, not_mem_nil, or_false]
  rintro x ⟨i, hi, j, hj, ⟨k, hk, rfl⟩ | rfl⟩
  · wr_tac
  · by_cases h1 : i < j
    · rw [if_pos h1]; wr_tac
    · rw [if_neg h1]
      by_cases h2 : i = j
      · rw [if_pos h2]; subst h2; wr_tac
      · rw [if_neg h2]; wr_tac

end Ptn.Ham

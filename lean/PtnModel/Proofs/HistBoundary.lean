import PtnModel.Proofs.HistOrthoMpo
/-!
# C02: the boundary bond charges are kept by `orthonormalize` when the returned factor is non-zero

Left mode rewrites `qD[1..L]`; the last one, `qD[L]`, with the charges returned by the block QR of the last site,
whose column charges are `qD[L]` itself (one entry, because the trailing factor `T = R · [[[1]]]` passes
`assert T.shape == (1, 1, 1)`).  `T[0,0,0] = R[0,0]`; if it is non-zero, block sparsity of `R` (C11) forces the
returned charge to be the column charge.  (In the dummy branch `R = 0`, so `T = 0`: that is the zero-state case,
where the returned charge `q0[:1]` may indeed differ.)  Right mode is the left sweep of the mirrored chain.
Shape clause only.
-/
set_option linter.unusedSectionVars false
namespace Ptn.HistWf
open Ptn.Hist Ptn.Ortho Ptn.BondOps Ptn.Dense Finset
variable {𝕜 : Type} [CommRing 𝕜] [DecidableEq 𝕜]
variable {dqr : Mat 𝕜 → Mat 𝕜 × Mat 𝕜}

theorem dims_one3 {T : T3 𝕜} (h : (T.d0 == 1 && T.d1 == 1 && T.d2 == 1) = true) : T.d0 = 1 ∧ T.d1 = 1 ∧ T.d2 = 1 := by
  simpa [and_assoc] using h

theorem eq_of_length_one {a b : List Int} (ha : a.length = 1) (hb : b.length = 1) (h : a.getD 0 0 = b.getD 0 0) :
    a = b := by
  match a, b, ha, hb with
  | [x], [y], _, _ => simp at h; rw [h]

theorem sweepLeft_ne_nil {qd : List Int} {A : T3 𝕜} {qL : List Int} {rest : List (T3 𝕜)} {qRs : List (List Int)}
    {As : List (T3 𝕜)} {qs : List (List Int)} {T : T3 𝕜}
    (h : SweepLeft dqr qd A qL rest qRs As qs T) : qs ≠ [] ∧ qRs ≠ [] := by
  cases h with
  | last _ _ => exact ⟨by simp, by simp⟩
  | cons _ _ => exact ⟨by simp, by simp⟩

/-- the last new bond charge list of a left sweep is the old one when the trailing factor is a non-zero `1×1×1` -/
theorem sweepLeft_last {qd : List Int} {A : T3 𝕜} {qL : List Int} {rest : List (T3 𝕜)} {qRs : List (List Int)}
    {As : List (T3 𝕜)} {qs : List (List Int)} {T : T3 𝕜}
    (h : SweepLeft dqr qd A qL rest qRs As qs T) (hshape : ∀ B, ShapeAt dqr B)
    (hT1 : T.d1 = 1) (hT : T.f 0 0 0 ≠ 0) : qs.getLast? = qRs.getLast? := by
  induction h with
  | @last A X qL qR A' T qb hX hloc =>
    obtain ⟨Q, R, hrun, hRn, hA', hN'⟩ := hloc
    have hf := qr_facts hshape hrun
    obtain ⟨x0, x1, x2, xf⟩ := hX
    have hRm : R.m = 1 := by rw [← hT1]; exact hN'.d1.symm
    have hRn1 : R.n = 1 := hRn.trans x1
    have e := hN'.f 0 0 0 (by rw [hN'.d0]; show 0 < X.d0; omega) (by omega)
      (by rw [hN'.d2]; show 0 < X.d2; omega)
    have e' : T.f 0 0 0 = R.f 0 0 := by
      rw [e]
      show ∑ b ∈ range R.n, R.f 0 b * X.f 0 b 0 = _
      rw [hRn1, Finset.sum_range_one, xf, mul_one]
    have hR0 : R.f 0 0 ≠ 0 := by rw [← e']; exact hT
    have hs := hf.sparseR 0 0 (by omega) (by omega) hR0
    have hqb : qb.length = 1 := hf.Rm.symm.trans hRm
    have hqR : qR.length = 1 := by
      have : qR.length = A.flattenLeft.tab.n := hf.hq1
      rw [this, ← hf.Rn]; exact hRn1
    simp only [List.getLast?_singleton]
    rw [eq_of_length_one hqb hqR hs]
  | @cons A Anext qL qR rest qRest A' Anext' qb As qs T hloc hsw ih =>
    have := ih hT1 hT
    cases hsw with
    | last _ _ => simpa using this
    | cons _ _ => simpa using this

variable {ρ : Type} [Field ρ] [LinearOrder ρ] [IsStrictOrderedRing ρ] [RealLike ρ 𝕜]

theorem neg_injective_map {a b : List (List Int)} (h : a.map QN.neg = b.map QN.neg) : a = b := by
  have := congrArg (List.map QN.neg) h
  simpa [List.map_map, Function.comp_def, neg_neg] using this

theorem getLast?_map_neg (l : List (List Int)) : (l.map QN.neg).getLast? = l.getLast?.map QN.neg := by
  simp [List.getLast?_map]

/-- non-zero returned factor means non-zero trailing entry -/
theorem T_ne_zero_of_nrm {t : 𝕜} {nrm : ρ} (hre : RealLike.re (0 : 𝕜) = (0 : ρ))
    (h : nrm = (if (RealLike.re t : ρ) < 0 then -(RealLike.re t : ρ) else RealLike.re t)) (hn : nrm ≠ 0) : t ≠ 0 := by
  intro h0
  apply hn
  rw [h, h0, hre]
  simp

theorem ortho_mps_boundary (hshape : ∀ B, ShapeAt dqr B) (hre : RealLike.re (0 : 𝕜) = (0 : ρ))
    {ψ ψ' : MPS 𝕜} {nrm : ρ} {left : Bool}
    (h : MPS.orthonormalize dqr ψ left = .ok (ψ', nrm)) (hn : nrm ≠ 0) :
    ψ'.qD.head? = ψ.qD.head? ∧ ψ'.qD.getLast? = ψ.qD.getLast? := by
  obtain ⟨qd, qD, A⟩ := ψ
  cases A with
  | nil =>
    simp only [MPS.orthonormalize, Except.ok.injEq, Prod.mk.injEq] at h
    rw [← h.1]; exact ⟨rfl, rfl⟩
  | cons A0 rest =>
    cases left with
    | true =>
      cases qD with
      | nil => simp [MPS.orthonormalize] at h
      | cons q0 qrest =>
        rw [ortho_left_eq] at h
        cases hs : MPS.sweepLeftQr dqr qd A0 q0 rest qrest with
        | error e => rw [hs] at h; cases h
        | ok r =>
          obtain ⟨As, qs, T⟩ := r
          rw [hs] at h
          dsimp only at h
          split at h
          · rename_i hdims
            obtain ⟨-, hT1, -⟩ := dims_one3 hdims
            have hsw := sweepLeft_of_run hs
            have key : T.f 0 0 0 ≠ 0 → qs.getLast? = qrest.getLast? := sweepLeft_last hsw hshape hT1
            have hne : qs ≠ [] ∧ qrest ≠ [] := sweepLeft_ne_nil hsw
            have fin : ∀ (As' : List (T3 𝕜)) (n' : ρ), T.f 0 0 0 ≠ 0 →
                (⟨qd, q0 :: qs, As'⟩ : MPS 𝕜).qD.head? = (q0 :: qrest).head? ∧
                (⟨qd, q0 :: qs, As'⟩ : MPS 𝕜).qD.getLast? = (q0 :: qrest).getLast? := by
              intro As' n' hT
              refine ⟨rfl, ?_⟩
              show (q0 :: qs).getLast? = (q0 :: qrest).getLast?
              obtain ⟨x, xs, rfl⟩ := List.exists_cons_of_ne_nil hne.1
              obtain ⟨y, ys, rfl⟩ := List.exists_cons_of_ne_nil hne.2
              rw [List.getLast?_cons_cons, List.getLast?_cons_cons]
              exact key hT
            split at h
            · rename_i hneg
              injection h with h; injection h with h1 h2
              rw [← h1]
              exact fin _ nrm (T_ne_zero_of_nrm hre (by rw [← h2, if_pos hneg]) hn)
            · rename_i hneg
              injection h with h; injection h with h1 h2
              rw [← h1]
              exact fin _ nrm (T_ne_zero_of_nrm hre (by rw [← h2, if_neg hneg]) hn)
          · cases h
    | false =>
      cases hAr : (A0 :: rest).reverse with
      | nil => simp at hAr
      | cons Al rrest =>
        cases hqr : qD.reverse with
        | nil =>
          simp only [MPS.orthonormalize, hAr, hqr] at h
          simp at h
        | cons ql qrrest =>
          rw [ortho_right_eq qd A0 rest qD hAr hqr] at h
          cases hs : MPS.sweepRightQr dqr qd Al ql rrest qrrest with
          | error e => rw [hs] at h; cases h
          | ok r =>
            obtain ⟨As, qs, T⟩ := r
            rw [hs] at h
            dsimp only at h
            split at h
            · rename_i hdims
              obtain ⟨-, hT1, hT2⟩ := dims_one3 hdims
              have hsw := sweepRight_of_run hs
              injection h with h; injection h with h1 h2
              have hT : T.f 0 0 0 ≠ 0 := T_ne_zero_of_nrm hre h2.symm hn
              have key := sweepLeft_last hsw hshape (by show T.d2 = 1; exact hT2) (by show T.f 0 0 0 ≠ 0; exact hT)
              rw [getLast?_map_neg, getLast?_map_neg] at key
              have key' : qs.getLast? = qrrest.getLast? := by
                cases h1' : qs.getLast? with
                | none =>
                  rw [h1'] at key
                  cases h2' : qrrest.getLast? with
                  | none => rfl
                  | some y => rw [h2'] at key; cases key
                | some x =>
                  rw [h1'] at key
                  cases h2' : qrrest.getLast? with
                  | none => rw [h2'] at key; cases key
                  | some y =>
                    rw [h2'] at key
                    simp only [Option.map_some, Option.some.injEq] at key
                    have := congrArg QN.neg key
                    rw [neg_neg, neg_neg] at this
                    rw [this]
              have hne : qs ≠ [] ∧ qrrest ≠ [] := by
                obtain ⟨n1, n2⟩ := sweepLeft_ne_nil hsw
                exact ⟨fun h0 => n1 (by rw [h0]; rfl), fun h0 => n2 (by rw [h0]; rfl)⟩
              rw [← h1]
              have hqD : qD = (ql :: qrrest).reverse := by rw [← hqr, List.reverse_reverse]
              show ((ql :: qs).reverse).head? = qD.head? ∧ ((ql :: qs).reverse).getLast? = qD.getLast?
              rw [hqD, List.head?_reverse, List.head?_reverse, List.getLast?_reverse, List.getLast?_reverse]
              refine ⟨?_, rfl⟩
              obtain ⟨x, xs, rfl⟩ := List.exists_cons_of_ne_nil hne.1
              obtain ⟨y, ys, rfl⟩ := List.exists_cons_of_ne_nil hne.2
              rw [List.getLast?_cons_cons, List.getLast?_cons_cons]
              exact key'
            · cases h

end Ptn.HistWf

import PtnModel.Proofs.EnvLocal
/-!
# Vocabulary of the C04 statements (uniform site dimension `d`) and its bridge to the chain-level lemmas

Everything is written with the model's own digit-indexed dense meaning `MPS.ampRow` / `MPO.elemRow`:

* `mpsBond ψ k`, `mpoBond o k` : bond dimension `D_k` left of site `k` (`D_0 = 1`, and `D_L = 1` for shaped operands);
* `ampPrefix ψ k τ b`   : `(A₀[τ₀] ⋯ A_{k-1}[τ_{k-1}])[0, b]`  — amplitude of the first `k` sites with open right bond `b`;
* `ampSuffix ψ k τ b`   : `(A_k[τ₀] ⋯ A_{L-1}[…])[b, 0]`      — amplitude of the sites `k … L-1` with open left bond `b`;
* `elemPrefix`, `elemSuffix` : the same for an MPO;
* `IsLeftBlock ψ o d k E`  : `E[a,w,a'] = Σ_{σ,τ} ampPrefix ψ k τ a · elemPrefix o k σ τ w · conj(ampPrefix ψ k σ a')`
                             with dimensions `(D_k, Dw_k, D_k)` — the contraction of the sites `0 … k-1`;
* `IsRightBlock ψ o d k E` : the contraction of the sites `k … L-1`, dimensions `(D_k, Dw_k, D_k)`;
* `MPS.setSite ψ i A`      : `ψ` with the tensor of site `i` replaced by `A`;
* `ampBond ψ k C τ`        : dense vector of `ψ` with the matrix `C` inserted on bond `k`.
-/
set_option linter.unusedSectionVars false
set_option linter.unusedVariables false
namespace Ptn.Env
open Finset
variable {R : Type} [CommRing R] [StarRing R]
attribute [local instance] starConj

def mpsBond {α : Type} (ψ : MPS α) (k : Nat) : Nat := bond3 ψ.A 1 k
def mpoBond {α : Type} (o : MPO α) (k : Nat) : Nat := bond4 o.A 1 k

def ampPrefix (ψ : MPS R) (k : Nat) (τ : List Nat) (b : Nat) : R :=
  MPS.ampRow (ψ.A.take k) τ (fun a => if a = 0 then 1 else 0) b
def ampSuffix (ψ : MPS R) (k : Nat) (τ : List Nat) (b : Nat) : R :=
  MPS.ampRow (ψ.A.drop k) τ (fun a => if a = b then 1 else 0) 0
def elemPrefix (o : MPO R) (k : Nat) (σ τ : List Nat) (w : Nat) : R :=
  MPO.elemRow (o.A.take k) σ τ (fun a => if a = 0 then 1 else 0) w
def elemSuffix (o : MPO R) (k : Nat) (σ τ : List Nat) (w : Nat) : R :=
  MPO.elemRow (o.A.drop k) σ τ (fun a => if a = w then 1 else 0) 0

/-- `E` is the contraction of bra, operator and ket over the sites `0 … k-1`. -/
def IsLeftBlock (ψ : MPS R) (o : MPO R) (d k : Nat) (E : T3 R) : Prop :=
  E.d0 = mpsBond ψ k ∧ E.d1 = mpoBond o k ∧ E.d2 = mpsBond ψ k ∧
    ∀ a w a', a < mpsBond ψ k → w < mpoBond o k → a' < mpsBond ψ k →
      E.f a w a' = ∑ σ ∈ digitsU d k, ∑ τ ∈ digitsU d k,
        ampPrefix ψ k τ a * elemPrefix o k σ τ w * star (ampPrefix ψ k σ a')

/-- `E` is the contraction of bra, operator and ket over the sites `k … L-1`. -/
def IsRightBlock (ψ : MPS R) (o : MPO R) (d k : Nat) (E : T3 R) : Prop :=
  E.d0 = mpsBond ψ k ∧ E.d1 = mpoBond o k ∧ E.d2 = mpsBond ψ k ∧
    ∀ b w b', b < mpsBond ψ k → w < mpoBond o k → b' < mpsBond ψ k →
      E.f b w b' = ∑ σ ∈ digitsU d (ψ.A.length - k), ∑ τ ∈ digitsU d (ψ.A.length - k),
        ampSuffix ψ k τ b * elemSuffix o k σ τ w * star (ampSuffix ψ k σ b')

/-- `ψ` with the tensor of site `i` replaced by `A` -/
def _root_.Ptn.MPS.setSite {α : Type} (ψ : MPS α) (i : Nat) (A : T3 α) : MPS α := ⟨ψ.qd, ψ.qD, ψ.A.set i A⟩

/-- dense vector of `ψ` with the matrix `C` inserted on bond `k` (between sites `k-1` and `k`) -/
def ampBond (ψ : MPS R) (k : Nat) (C : Mat R) (τ : List Nat) : R :=
  ∑ a ∈ range C.m, ∑ b ∈ range C.n, ampPrefix ψ k (τ.take k) a * C.f a b * ampSuffix ψ k (τ.drop k) b

/-! ## bridge -/

theorem take_replicate_le {k L d : Nat} (h : k ≤ L) : (List.replicate L d).take k = List.replicate k d := by
  rw [List.take_replicate, Nat.min_eq_left h]

theorem drop_replicate' {k L d : Nat} : (List.replicate L d).drop k = List.replicate (L - k) d := by
  rw [List.drop_replicate]

theorem ampPrefix_eq {ds : List Nat} {ψ : MPS R} {Dr : Nat} (h : Chain3 ds ψ.A 1 Dr) {k : Nat} (hk : k ≤ ψ.A.length)
    {τ : List Nat} (hτ : τ ∈ digits (ds.take k)) {b : Nat} (hb : b < mpsBond ψ k) :
    ampPrefix ψ k τ b = pmat (ψ.A.take k) τ 0 b := by
  rw [ampPrefix, ampRow_eq (chain3_take h k hk) hτ _ hb]
  simp

theorem ampSuffix_eq {ds : List Nat} {ψ : MPS R} {Dr : Nat} (h : Chain3 ds ψ.A 1 Dr) (hDr : 0 < Dr) {k : Nat}
    (hk : k ≤ ψ.A.length) {τ : List Nat} (hτ : τ ∈ digits (ds.drop k)) {b : Nat} (hb : b < mpsBond ψ k) :
    ampSuffix ψ k τ b = pmat (ψ.A.drop k) τ b 0 :=
  ampRow_basis (chain3_drop h k hk) hτ hb hDr

theorem elemPrefix_eq {ds : List Nat} {o : MPO R} {Dr : Nat} (h : Chain4 ds o.A 1 Dr) {k : Nat} (hk : k ≤ o.A.length)
    {σ τ : List Nat} (hσ : σ ∈ digits (ds.take k)) (hτ : τ ∈ digits (ds.take k)) {b : Nat} (hb : b < mpoBond o k) :
    elemPrefix o k σ τ b = pmatO (o.A.take k) σ τ 0 b := by
  rw [elemPrefix, elemRow_eq (chain4_take h k hk) hσ hτ _ hb]
  simp

theorem elemSuffix_eq {ds : List Nat} {o : MPO R} {Dr : Nat} (h : Chain4 ds o.A 1 Dr) (hDr : 0 < Dr) {k : Nat}
    (hk : k ≤ o.A.length) {σ τ : List Nat} (hσ : σ ∈ digits (ds.drop k)) (hτ : τ ∈ digits (ds.drop k))
    {b : Nat} (hb : b < mpoBond o k) :
    elemSuffix o k σ τ b = pmatO (o.A.drop k) σ τ b 0 :=
  elemRow_basis (chain4_drop h k hk) hσ hτ hb hDr

theorem isLeftBlock_iff {d : Nat} {ψ : MPS R} {o : MPO R}
    (hψ : Chain3 (List.replicate ψ.A.length d) ψ.A 1 1) (ho : Chain4 (List.replicate ψ.A.length d) o.A 1 1)
    {k : Nat} (hk : k ≤ ψ.A.length) (E : T3 R) :
    IsLeftBlock ψ o d k E ↔
      IsLeftEnv (List.replicate k d) (ψ.A.take k) (ψ.A.take k) (o.A.take k) (mpsBond ψ k) (mpoBond o k)
        (mpsBond ψ k) E := by
  have hko : k ≤ o.A.length := by rw [chain4_length ho]; simpa using hk
  have key : ∀ a w a', a < mpsBond ψ k → w < mpoBond o k → a' < mpsBond ψ k →
      (∑ σ ∈ digitsU d k, ∑ τ ∈ digitsU d k, ampPrefix ψ k τ a * elemPrefix o k σ τ w * star (ampPrefix ψ k σ a'))
      = ∑ σ ∈ digits (List.replicate k d), ∑ τ ∈ digits (List.replicate k d),
          pmat (ψ.A.take k) τ 0 a * pmatO (o.A.take k) σ τ 0 w * star (pmat (ψ.A.take k) σ 0 a') := by
    intro a w a' ha hw ha'
    refine Finset.sum_congr rfl fun σ hσ => Finset.sum_congr rfl fun τ hτ => ?_
    rw [← take_replicate_le hk] at hσ hτ
    rw [ampPrefix_eq hψ hk hτ ha, ampPrefix_eq hψ hk hσ ha', elemPrefix_eq ho hko hσ hτ hw]
  unfold IsLeftBlock IsLeftEnv
  constructor
  · rintro ⟨h0, h1, h2, hf⟩
    exact ⟨h0, h1, h2, fun a w a' ha hw ha' => (hf a w a' ha hw ha').trans (key a w a' ha hw ha')⟩
  · rintro ⟨h0, h1, h2, hf⟩
    exact ⟨h0, h1, h2, fun a w a' ha hw ha' => (hf a w a' ha hw ha').trans (key a w a' ha hw ha').symm⟩

theorem isRightBlock_iff {d : Nat} {ψ : MPS R} {o : MPO R}
    (hψ : Chain3 (List.replicate ψ.A.length d) ψ.A 1 1) (ho : Chain4 (List.replicate ψ.A.length d) o.A 1 1)
    {k : Nat} (hk : k ≤ ψ.A.length) (E : T3 R) :
    IsRightBlock ψ o d k E ↔
      IsRightEnv (List.replicate (ψ.A.length - k) d) (ψ.A.drop k) (ψ.A.drop k) (o.A.drop k) (mpsBond ψ k)
        (mpoBond o k) (mpsBond ψ k) E := by
  have hko : k ≤ o.A.length := by rw [chain4_length ho]; simpa using hk
  have key : ∀ a w a', a < mpsBond ψ k → w < mpoBond o k → a' < mpsBond ψ k →
      (∑ σ ∈ digitsU d (ψ.A.length - k), ∑ τ ∈ digitsU d (ψ.A.length - k),
        ampSuffix ψ k τ a * elemSuffix o k σ τ w * star (ampSuffix ψ k σ a'))
      = ∑ σ ∈ digits (List.replicate (ψ.A.length - k) d), ∑ τ ∈ digits (List.replicate (ψ.A.length - k) d),
          pmat (ψ.A.drop k) τ a 0 * pmatO (o.A.drop k) σ τ w 0 * star (pmat (ψ.A.drop k) σ a' 0) := by
    intro a w a' ha hw ha'
    refine Finset.sum_congr rfl fun σ hσ => Finset.sum_congr rfl fun τ hτ => ?_
    rw [← drop_replicate'] at hσ hτ
    rw [ampSuffix_eq hψ Nat.one_pos hk hτ ha, ampSuffix_eq hψ Nat.one_pos hk hσ ha',
      elemSuffix_eq ho Nat.one_pos hko hσ hτ hw]
  unfold IsRightBlock IsRightEnv
  constructor
  · rintro ⟨h0, h1, h2, hf⟩
    exact ⟨h0, h1, h2, fun a w a' ha hw ha' => (hf a w a' ha hw ha').trans (key a w a' ha hw ha')⟩
  · rintro ⟨h0, h1, h2, hf⟩
    exact ⟨h0, h1, h2, fun a w a' ha hw ha' => (hf a w a' ha hw ha').trans (key a w a' ha hw ha').symm⟩

/-! ## physical dimensions along a chain -/

theorem chain3_d0 {α : Type} {ds : List Nat} {As : List (T3 α)} {Dl Dr : Nat} (h : Chain3 ds As Dl Dr)
    {i : Nat} (hi : i < As.length) (hi' : i < ds.length) : As[i].d0 = ds[i] := by
  induction i generalizing ds As Dl with
  | zero =>
    cases As with
    | nil => simp at hi
    | cons A As => cases ds <;> simp_all
  | succ i ih =>
    cases As with
    | nil => simp at hi
    | cons A As =>
      cases ds with
      | nil => simp at h
      | cons d ds =>
        simp only [chain3_cons] at h
        simp only [List.getElem_cons_succ]
        exact ih h.2.2 _ _

theorem chain4_d01 {α : Type} {ds : List Nat} {As : List (T4 α)} {Dl Dr : Nat} (h : Chain4 ds As Dl Dr)
    {i : Nat} (hi : i < As.length) (hi' : i < ds.length) : As[i].d0 = ds[i] ∧ As[i].d1 = ds[i] := by
  induction i generalizing ds As Dl with
  | zero =>
    cases As with
    | nil => simp at hi
    | cons A As => cases ds <;> simp_all
  | succ i ih =>
    cases As with
    | nil => simp at hi
    | cons A As =>
      cases ds with
      | nil => simp at h
      | cons d ds =>
        simp only [chain4_cons] at h
        simp only [List.getElem_cons_succ]
        exact ih h.2.2.2 _ _

/-! ## blocks computed by the code -/

theorem right_blocks_core {d : Nat} {ψ : MPS R} {o : MPO R}
    (hψ : Chain3 (List.replicate ψ.A.length d) ψ.A 1 1) (ho : Chain4 (List.replicate ψ.A.length d) o.A 1 1)
    (hne : ψ.A ≠ []) :
    ∃ BR, Op.rightBlocks ψ o = .ok BR ∧ BR.length = ψ.A.length ∧
      ∀ i, i < ψ.A.length → ∃ E, BR[i]? = some E ∧ IsRightBlock ψ o d (i + 1) E := by
  have hne' : List.replicate ψ.A.length d ≠ [] := by
    intro h
    have := congrArg List.length h
    simp only [List.length_replicate, List.length_nil] at this
    exact hne (List.length_eq_zero_iff.1 this)
  obtain ⟨BR, hBR, hlen, hall⟩ := rightBlocks_chain hψ ho hne'
  refine ⟨BR, hBR, by simpa using hlen, ?_⟩
  intro i hi
  obtain ⟨E, hE, hEnv⟩ := hall i (by simpa using hi)
  refine ⟨E, hE, (isRightBlock_iff hψ ho (Nat.succ_le_of_lt hi) E).2 ?_⟩
  rw [drop_replicate'] at hEnv
  exact hEnv

theorem left_block_zero {d : Nat} {ψ : MPS R} {o : MPO R}
    (hψ : Chain3 (List.replicate ψ.A.length d) ψ.A 1 1) (ho : Chain4 (List.replicate ψ.A.length d) o.A 1 1)
    {E : T3 R} (h0 : E.d0 = 1) (h1 : E.d1 = 1) (h2 : E.d2 = 1) (hf : E.f 0 0 0 = 1) :
    IsLeftBlock ψ o d 0 E := by
  refine (isLeftBlock_iff hψ ho (Nat.zero_le _) E).2 ?_
  simpa [mpsBond, mpoBond] using isLeftEnv_nil h0 h1 h2 hf

theorem left_step_core {d : Nat} {ψ : MPS R} {o : MPO R}
    (hψ : Chain3 (List.replicate ψ.A.length d) ψ.A 1 1) (ho : Chain4 (List.replicate ψ.A.length d) o.A 1 1)
    {i : Nat} (hi : i < ψ.A.length) {A : T3 R} {W : T4 R} (hA : ψ.A[i]? = some A) (hW : o.A[i]? = some W)
    {E : T3 R} (hE : IsLeftBlock ψ o d i E) :
    ∃ T, Op.opStepLeft A A W E = .ok T ∧ IsLeftBlock ψ o d (i + 1) T := by
  have hlo : o.A.length = ψ.A.length := by simpa using chain4_length ho
  have hio : i < o.A.length := hlo ▸ hi
  have eA : ψ.A[i] = A := by
    have := List.getElem?_eq_getElem hi
    rw [hA] at this
    exact (Option.some.inj this).symm
  have eW : o.A[i] = W := by
    have := List.getElem?_eq_getElem hio
    rw [hW] at this
    exact (Option.some.inj this).symm
  have hEnv := (isLeftBlock_iff hψ ho (Nat.le_of_lt hi) E).1 hE
  have b3 : mpsBond ψ i = A.d1 := by rw [mpsBond, bond3_eq_d1 hψ hi, eA]
  have b4 : mpoBond o i = W.d2 := by rw [mpoBond, bond4_eq_d2 ho hio, eW]
  have cA : Chain3 (List.replicate i d) (ψ.A.take i) 1 A.d1 := by
    have := chain3_take hψ i (Nat.le_of_lt hi)
    rwa [take_replicate_le (Nat.le_of_lt hi), ← mpsBond, b3] at this
  have cW : Chain4 (List.replicate i d) (o.A.take i) 1 W.d2 := by
    have := chain4_take ho i (Nat.le_of_lt hio)
    rwa [take_replicate_le (Nat.le_of_lt hi), ← mpoBond, b4] at this
  have dA : A.d0 = d := by
    have := chain3_d0 hψ hi (by simpa using hi)
    simpa [eA] using this
  have dW : W.d0 = d ∧ W.d1 = d := by
    have := chain4_d01 ho hio (by simpa using hi)
    simpa [eW] using this
  rw [b3, b4] at hEnv
  obtain ⟨T, hT, hTenv⟩ := isLeftEnv_step cA cA cW dA dA dW.1 dW.2 hEnv
  refine ⟨T, hT, (isLeftBlock_iff hψ ho (Nat.succ_le_of_lt hi) T).2 ?_⟩
  have t1 : ψ.A.take (i + 1) = ψ.A.take i ++ [A] := by
    rw [List.take_add_one, hA]; rfl
  have t2 : o.A.take (i + 1) = o.A.take i ++ [W] := by
    rw [List.take_add_one, hW]; rfl
  have b3' : mpsBond ψ (i + 1) = A.d2 := by rw [mpsBond, bond3_succ_eq _ _ hi, eA]
  have b4' : mpoBond o (i + 1) = W.d3 := by rw [mpoBond, bond4_succ_eq _ _ hio, eW]
  rw [t1, t2, b3', b4', List.replicate_succ']
  exact hTenv

/-! ## one-site and zero-site effective operators -/

theorem append_mem_digits {ds es σ τ : List Nat} (hσ : σ ∈ digits ds) (hτ : τ ∈ digits es) :
    σ ++ τ ∈ digits (ds ++ es) := by
  induction ds generalizing σ with
  | nil => simp only [digits_nil, Finset.mem_singleton] at hσ; subst hσ; simpa using hτ
  | cons d ds ih =>
    obtain ⟨x, t, hx, ht, rfl⟩ := mem_digits_cons.1 hσ
    rw [List.cons_append, List.cons_append, cons_mem_digits]
    exact ⟨hx, ih ht⟩

theorem replicate_split {L i d : Nat} (hi : i < L) :
    List.replicate L d = List.replicate i d ++ d :: List.replicate (L - (i + 1)) d := by
  have : L = i + ((L - (i + 1)) + 1) := by omega
  conv_lhs => rw [this]
  rw [List.replicate_add, List.replicate_succ]

theorem getElem_of_getElem? {α : Type} {l : List α} {i : Nat} {a : α} (h : l[i]? = some a) (hi : i < l.length) :
    l[i] = a := by
  have := List.getElem?_eq_getElem hi
  rw [h] at this
  exact (Option.some.inj this).symm

theorem local_projection_core {d : Nat} {ψ : MPS R} {o : MPO R}
    (hψ : Chain3 (List.replicate ψ.A.length d) ψ.A 1 1) (ho : Chain4 (List.replicate ψ.A.length d) o.A 1 1)
    {i : Nat} (hi : i < ψ.A.length) {W : T4 R} (hW : o.A[i]? = some W) {A B : T3 R}
    (hA0 : A.d0 = d) (hA1 : A.d1 = mpsBond ψ i) (hA2 : A.d2 = mpsBond ψ (i + 1))
    (hB0 : B.d0 = d) (hB1 : B.d1 = mpsBond ψ i) (hB2 : B.d2 = mpsBond ψ (i + 1))
    {Lb Rb : T3 R} (hL : IsLeftBlock ψ o d i Lb) (hR : IsRightBlock ψ o d (i + 1) Rb) :
    ∃ T, Op.applyLocalHamiltonian Lb Rb W A = .ok T ∧ T.d0 = d ∧ T.d1 = mpsBond ψ i ∧ T.d2 = mpsBond ψ (i + 1) ∧
      ∑ s ∈ range d, ∑ a ∈ range (mpsBond ψ i), ∑ b ∈ range (mpsBond ψ (i + 1)), star (B.f s a b) * T.f s a b
      = ∑ σ ∈ digitsU d ψ.A.length, ∑ τ ∈ digitsU d ψ.A.length,
          star ((ψ.setSite i B).amp σ) * o.elem σ τ * (ψ.setSite i A).amp τ := by
  have hlo : o.A.length = ψ.A.length := by simpa using chain4_length ho
  have hio : i < o.A.length := hlo ▸ hi
  have eW := getElem_of_getElem? hW hio
  have b4 : mpoBond o i = W.d2 := by rw [mpoBond, bond4_eq_d2 ho hio, eW]
  have b4' : mpoBond o (i + 1) = W.d3 := by rw [mpoBond, bond4_succ_eq _ _ hio, eW]
  have dW : W.d0 = d ∧ W.d1 = d := by
    have := chain4_d01 ho hio (by simpa using hi)
    simpa [eW] using this
  have hEL : IsLeftEnv (List.replicate i d) (ψ.A.take i) (ψ.A.take i) (o.A.take i) A.d1 W.d2 B.d1 Lb := by
    rw [hA1, hB1, ← b4]; exact (isLeftBlock_iff hψ ho (Nat.le_of_lt hi) Lb).1 hL
  have hER : IsRightEnv (List.replicate (ψ.A.length - (i + 1)) d) (ψ.A.drop (i + 1)) (ψ.A.drop (i + 1))
      (o.A.drop (i + 1)) A.d2 W.d3 B.d2 Rb := by
    rw [hA2, hB2, ← b4']; exact (isRightBlock_iff hψ ho (Nat.succ_le_of_lt hi) Rb).1 hR
  have cL : Chain3 (List.replicate i d) (ψ.A.take i) 1 (mpsBond ψ i) := by
    have := chain3_take hψ i (Nat.le_of_lt hi)
    rwa [take_replicate_le (Nat.le_of_lt hi)] at this
  have cR : Chain3 (List.replicate (ψ.A.length - (i + 1)) d) (ψ.A.drop (i + 1)) (mpsBond ψ (i + 1)) 1 := by
    have := chain3_drop hψ (i + 1) (Nat.succ_le_of_lt hi)
    rwa [drop_replicate'] at this
  have cWL : Chain4 (List.replicate i d) (o.A.take i) 1 W.d2 := by
    have := chain4_take ho i (Nat.le_of_lt hio)
    rwa [take_replicate_le (Nat.le_of_lt hi), ← mpoBond, b4] at this
  have cWR : Chain4 (List.replicate (ψ.A.length - (i + 1)) d) (o.A.drop (i + 1)) W.d3 1 := by
    have := chain4_drop ho (i + 1) (Nat.succ_le_of_lt hio)
    rwa [drop_replicate', ← mpoBond, b4'] at this
  obtain ⟨T, hT, t0, t1, t2, hsum⟩ := localH_chain (A := A) (B := B) (hA1 ▸ cL) (hA2 ▸ cR) (hB1 ▸ cL) (hB2 ▸ cR)
    cWL cWR hA0 hB0 dW.1 dW.2 hEL hER
  refine ⟨T, hT, t0, t1.trans hB1, t2.trans hB2, ?_⟩
  rw [← hB1, ← hB2, hsum, ← replicate_split hi]
  have eo : o.A.take i ++ W :: o.A.drop (i + 1) = o.A := by
    rw [← eW, ← List.drop_eq_getElem_cons hio, List.take_append_drop]
  have cA : Chain3 (List.replicate ψ.A.length d) (ψ.A.take i ++ A :: ψ.A.drop (i + 1)) 1 1 := by
    rw [replicate_split hi]
    exact chain3_append cL (by simp only [chain3_cons]; exact ⟨hA0, hA1, hA2 ▸ cR⟩)
  have cB : Chain3 (List.replicate ψ.A.length d) (ψ.A.take i ++ B :: ψ.A.drop (i + 1)) 1 1 := by
    rw [replicate_split hi]
    exact chain3_append cL (by simp only [chain3_cons]; exact ⟨hB0, hB1, hB2 ▸ cR⟩)
  have sA : (ψ.setSite i A).A = ψ.A.take i ++ A :: ψ.A.drop (i + 1) := by
    simp only [MPS.setSite, List.set_eq_take_append_cons_drop, hi, if_true]
  have sB : (ψ.setSite i B).A = ψ.A.take i ++ B :: ψ.A.drop (i + 1) := by
    simp only [MPS.setSite, List.set_eq_take_append_cons_drop, hi, if_true]
  refine Finset.sum_congr rfl fun σ hσ => Finset.sum_congr rfl fun τ hτ => ?_
  rw [amp_eq_pmat (ψ := ψ.setSite i B) (sB ▸ cB) hσ, amp_eq_pmat (ψ := ψ.setSite i A) (sA ▸ cA) hτ,
    elem_eq_pmatO ho hσ hτ, sA, sB, eo]

theorem replicate_split0 {L k d : Nat} (hk : k ≤ L) :
    List.replicate L d = List.replicate k d ++ List.replicate (L - k) d := by
  have : L = k + (L - k) := by omega
  conv_lhs => rw [this]
  rw [List.replicate_add]

theorem ampBond_eq {d : Nat} {ψ : MPS R} (hψ : Chain3 (List.replicate ψ.A.length d) ψ.A 1 1) {k : Nat}
    (hk : k ≤ ψ.A.length) {C : Mat R} (hm : C.m = mpsBond ψ k) (hn : C.n = mpsBond ψ k) {τl τr : List Nat}
    (hl : τl ∈ digits (List.replicate k d)) (hr : τr ∈ digits (List.replicate (ψ.A.length - k) d)) :
    ampBond ψ k C (τl ++ τr)
      = ∑ a ∈ range C.m, pmat (ψ.A.take k) τl 0 a * ∑ b ∈ range C.n, C.f a b * pmat (ψ.A.drop k) τr b 0 := by
  have hlen : τl.length = k := by simpa using length_of_mem_digits hl
  rw [ampBond, List.take_left' hlen, List.drop_left' hlen]
  refine Finset.sum_congr rfl fun a ha => ?_
  rw [Finset.mul_sum]
  refine Finset.sum_congr rfl fun b hb => ?_
  rw [← take_replicate_le hk] at hl
  rw [← drop_replicate'] at hr
  rw [ampPrefix_eq hψ hk hl (by rw [← hm]; simpa using ha),
    ampSuffix_eq hψ Nat.one_pos hk hr (by rw [← hn]; simpa using hb)]
  ring

theorem bond_projection_core {d : Nat} {ψ : MPS R} {o : MPO R}
    (hψ : Chain3 (List.replicate ψ.A.length d) ψ.A 1 1) (ho : Chain4 (List.replicate ψ.A.length d) o.A 1 1)
    {k : Nat} (hk : k ≤ ψ.A.length) {C C' : Mat R}
    (hC0 : C.m = mpsBond ψ k) (hC1 : C.n = mpsBond ψ k) (hC0' : C'.m = mpsBond ψ k) (hC1' : C'.n = mpsBond ψ k)
    {Lb Rb : T3 R} (hL : IsLeftBlock ψ o d k Lb) (hR : IsRightBlock ψ o d k Rb) :
    ∃ T, Op.applyLocalBondContraction Lb Rb C = .ok T ∧ T.m = mpsBond ψ k ∧ T.n = mpsBond ψ k ∧
      ∑ a ∈ range (mpsBond ψ k), ∑ b ∈ range (mpsBond ψ k), star (C'.f a b) * T.f a b
      = ∑ σ ∈ digitsU d ψ.A.length, ∑ τ ∈ digitsU d ψ.A.length,
          star (ampBond ψ k C' σ) * o.elem σ τ * ampBond ψ k C τ := by
  have hlo : o.A.length = ψ.A.length := by simpa using chain4_length ho
  have hko : k ≤ o.A.length := hlo ▸ hk
  have hEL : IsLeftEnv (List.replicate k d) (ψ.A.take k) (ψ.A.take k) (o.A.take k) C.m (mpoBond o k) C'.m Lb := by
    rw [hC0, hC0']; exact (isLeftBlock_iff hψ ho hk Lb).1 hL
  have hER : IsRightEnv (List.replicate (ψ.A.length - k) d) (ψ.A.drop k) (ψ.A.drop k)
      (o.A.drop k) C.n (mpoBond o k) C'.n Rb := by
    rw [hC1, hC1']; exact (isRightBlock_iff hψ ho hk Rb).1 hR
  have cL : Chain3 (List.replicate k d) (ψ.A.take k) 1 (mpsBond ψ k) := by
    have := chain3_take hψ k hk
    rwa [take_replicate_le hk] at this
  have cR : Chain3 (List.replicate (ψ.A.length - k) d) (ψ.A.drop k) (mpsBond ψ k) 1 := by
    have := chain3_drop hψ k hk
    rwa [drop_replicate'] at this
  have cWL : Chain4 (List.replicate k d) (o.A.take k) 1 (mpoBond o k) := by
    have := chain4_take ho k hko
    rwa [take_replicate_le hk] at this
  have cWR : Chain4 (List.replicate (ψ.A.length - k) d) (o.A.drop k) (mpoBond o k) 1 := by
    have := chain4_drop ho k hko
    rwa [drop_replicate'] at this
  obtain ⟨T, hT, t0, t1, hsum⟩ := localBond_chain (C := C) (C' := C') (hC0 ▸ cL) (hC1 ▸ cR) (hC0' ▸ cL)
    (hC1' ▸ cR) cWL cWR hEL hER
  refine ⟨T, hT, t0.trans hC0', t1.trans hC1', ?_⟩
  have hmn : C'.n = C'.m := hC1'.trans hC0'.symm
  have hσmem : ∀ {σl σr : List Nat}, σl ∈ digits (List.replicate k d) →
      σr ∈ digits (List.replicate (ψ.A.length - k) d) → σl ++ σr ∈ digits (List.replicate ψ.A.length d) := by
    intro σl σr h1 h2
    rw [replicate_split0 hk]; exact append_mem_digits h1 h2
  rw [← hC0']
  rw [hmn] at hsum
  rw [hsum]
  symm
  unfold digitsU
  rw [replicate_split0 hk, sum_digits_append]
  refine Finset.sum_congr rfl fun σl hσl => Finset.sum_congr rfl fun σr hσr => ?_
  rw [sum_digits_append]
  refine Finset.sum_congr rfl fun τl hτl => Finset.sum_congr rfl fun τr hτr => ?_
  rw [ampBond_eq hψ hk hC0' hC1' hσl hσr, ampBond_eq hψ hk hC0 hC1 hτl hτr, hmn, List.take_append_drop,
    elem_eq_pmatO ho (hσmem hσl hσr) (hσmem hτl hτr)]

/-! ## Hermiticity -/

theorem herm_sum {ι : Type} (S : Finset ι) (a b : ι → R) (h : ι → ι → R)
    (hh : ∀ σ ∈ S, ∀ τ ∈ S, h σ τ = star (h τ σ)) :
    ∑ σ ∈ S, ∑ τ ∈ S, star (b σ) * h σ τ * a τ = star (∑ σ ∈ S, ∑ τ ∈ S, star (a σ) * h σ τ * b τ) := by
  simp only [star_sum, star_mul', star_star]
  rw [Finset.sum_comm]
  refine Finset.sum_congr rfl fun σ hσ => Finset.sum_congr rfl fun τ hτ => ?_
  rw [hh τ hτ σ hσ]
  ring

theorem mem_digits_append {ds es τ : List Nat} (h : τ ∈ digits (ds ++ es)) :
    ∃ τl τr, τl ∈ digits ds ∧ τr ∈ digits es ∧ τ = τl ++ τr := by
  induction ds generalizing τ with
  | nil => exact ⟨[], τ, by simp, by simpa using h, rfl⟩
  | cons d ds ih =>
    rw [List.cons_append] at h
    obtain ⟨x, t, hx, ht, rfl⟩ := mem_digits_cons.1 h
    obtain ⟨τl, τr, hl, hr, rfl⟩ := ih ht
    exact ⟨x :: τl, τr, cons_mem_digits.2 ⟨hx, hl⟩, hr, rfl⟩

/-- sanity of the vocabulary: inserting the identity matrix on a bond does not change the state -/
theorem ampBond_ident {d : Nat} {ψ : MPS R} (hψ : Chain3 (List.replicate ψ.A.length d) ψ.A 1 1) {k : Nat}
    (hk : k ≤ ψ.A.length) {τ : List Nat} (hτ : τ ∈ digitsU d ψ.A.length) :
    ampBond ψ k (Op.identMat (mpsBond ψ k)) τ = ψ.amp τ := by
  have hτ' := hτ
  unfold digitsU at hτ'
  rw [replicate_split0 hk] at hτ'
  obtain ⟨τl, τr, hl, hr, rfl⟩ := mem_digits_append hτ'
  have cL : Chain3 (List.replicate k d) (ψ.A.take k) 1 (mpsBond ψ k) := by
    have := chain3_take hψ k hk
    rwa [take_replicate_le hk] at this
  rw [ampBond_eq hψ hk rfl rfl hl hr, amp_eq_pmat hψ hτ]
  conv_rhs => rw [← List.take_append_drop k ψ.A]
  rw [pmat_append cL _ hl τr Nat.one_pos 0]
  refine Finset.sum_congr rfl fun a ha => ?_
  congr 1
  simp only [Op.identMat]
  exact sum_ite_eq_of_lt' (by simpa [Op.identMat] using ha) _

end Ptn.Env

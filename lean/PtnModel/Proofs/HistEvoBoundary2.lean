import PtnModel.Proofs.HistEvoBoundary
/-!
# C02: two-site TDVP never rewrites the boundary bond charges

`twoSiteUpdate` at the sites `i, i+1` rewrites `qD[i+1]` with `1 ≤ i+1 ≤ L-1`; the backward single-site steps and the
environment updates do not touch the charges.  So `qD[0]`, `qD[L]` are only touched by the right-orthonormalization of the
prologue, which keeps them when the returned norm is non-zero.
-/
set_option linter.unusedSectionVars false
namespace Ptn.HistWf
open Ptn Ptn.Evo Ptn.Krylov Ptn.Ortho Ptn.BondOps Ptn.Dense
variable {𝕜 : Type} [RCLike 𝕜] [DecidableEq 𝕜]
variable {k : EvoKernels 𝕜 ℝ} {H : MPO 𝕜} {qd : List Int} {dt : 𝕜} {numiter : Nat} {tol : ℝ}

theorem twoSiteUpdate_bdry {L : Nat} {tau : 𝕜} {distr : Nat} {s0 s s' : Sweep 𝕜} {i : Nat} (hb : Bdry L s0 s)
    (hi : i + 1 < L) (h : twoSiteUpdate k H qd tau numiter tol distr s i = .ok s') : Bdry L s0 s' := by
  obtain ⟨Am1, A0, A1, qb, -, -, rfl⟩ := twoSiteUpdate_unfold h
  exact bdry_set (j := i + 1) hb (by omega) (by omega) qb _ _ _

theorem tdvp2Step_bdry {L : Nat} (hL : L = H.A.length) (hL2 : 2 ≤ L) {s0 s s' : Sweep 𝕜} (hb : Bdry L s0 s)
    (h : tdvp2Step k H qd dt numiter tol s = .ok s') : Bdry L s0 s' := by
  obtain ⟨s1, s2, BRn, h1, h2, h3, h4⟩ := tdvp2Step_unfold h
  have hl : Bdry L s0 s1 :=
    foldIdx_inv (tdvp2Left k H qd dt numiter tol) (fun t => Bdry L s0 t) (fun i => i + 2 < L)
      (fun x t t' hx ht ht' => by
        obtain ⟨t1, BLn, An, g1, -, -, rfl⟩ := tdvp2Left_unfold ht'
        have hb1 : Bdry L s0 t1 := twoSiteUpdate_bdry ht (by omega) g1
        exact hb1)
      _ (fun x hx => by have := List.mem_range.1 hx; omega) s s1 hb h1
  have hm : Bdry L s0 s2 := twoSiteUpdate_bdry hl (by omega) h2
  have hm' : Bdry L s0 (⟨s2.A, s2.qD, s2.BL, s2.BR.setIfInBounds (H.A.length - 2) BRn⟩ : Sweep 𝕜) := hm
  exact foldIdx_inv (tdvp2Right k H qd dt numiter tol) (fun t => Bdry L s0 t) (fun i => i + 2 < L)
    (fun x t t' hx ht ht' => by
      obtain ⟨An, t1, BRn', -, g2, -, rfl⟩ := tdvp2Right_unfold ht'
      have ht0 : Bdry L s0 (⟨t.A.setIfInBounds (x + 1) An, t.qD, t.BL, t.BR⟩ : Sweep 𝕜) := ht
      have hb1 : Bdry L s0 t1 := twoSiteUpdate_bdry ht0 (by omega) g2
      exact hb1)
    _ (fun x hx => by have := List.mem_range.1 (List.mem_reverse.1 hx); omega) _ s' hm' h4

/-- **TDVP2 boundary**: for an admissible state and a kernel with the QR shape clause, if the returned norm is non-zero
the leading and trailing bond charge lists are unchanged by `integrate_local_twosite` (every SVD / truncation /
Krylov oracle) -/
theorem tdvp2_boundary (hshape : ∀ B, ShapeAt k.dqr B) {ψ ψ' : MPS 𝕜} {numsteps : Nat} {nrm : ℝ} (hadm : Admissible ψ)
    (h : integrateLocalTwosite k H ψ dt numsteps numiter tol = .ok (ψ', nrm)) (hn : nrm ≠ 0) :
    ψ'.qD.head? = ψ.qD.head? ∧ ψ'.qD.getLast? = ψ.qD.getLast? := by
  obtain ⟨s0, s, hp, hL2, hit, rfl⟩ := integrate2_unfold h
  obtain ⟨hHL, ψ1, BR, ho, _, _, rfl⟩ := prologue_unfold hp
  have ho' : MPS.orthonormalize (ρ := ℝ) k.dqr ψ false = .ok (ψ1, nrm) := ho
  obtain ⟨hadm1, hqd, hlen⟩ := C01.ortho_wf (dqr := k.dqr) hshape hadm ho'
  obtain ⟨b1, b2⟩ := ortho_mps_boundary hshape (by show RCLike.re (0 : 𝕜) = 0; simp) ho' hn
  have hinv := iterate_inv (tdvp2Step k H ψ.qd dt numiter tol)
    (fun t => Bdry H.A.length (⟨ψ1.A.toArray, ψ1.qD.toArray,
      (Array.replicate H.A.length emptyT3).setIfInBounds 0 ones111, BR.toArray⟩ : Sweep 𝕜) t)
    (fun t t' ht ht' => tdvp2Step_bdry rfl hL2 ht ht') numsteps _ s (Bdry.refl _ _) hit
  obtain ⟨hs, h0, hLq⟩ := hinv
  obtain ⟨hl1, _⟩ := wf_index hadm1.wf
  have hsz : s.qD.toList.length = H.A.length + 1 := by
    rw [Array.length_toList, hs]
    show ψ1.qD.toArray.size = _
    rw [List.size_toArray, hl1, hlen, hHL]
  have hl1' : ψ1.qD.length = H.A.length + 1 := by rw [hl1, hlen, hHL]
  rw [← b1, ← b2]
  show s.qD.toList.head? = _ ∧ s.qD.toList.getLast? = _
  rw [head?_eq_getD (by omega), getLast?_eq_getD hsz, head?_eq_getD (by omega), getLast?_eq_getD hl1']
  have e0 : s.qD.toList.getD 0 [] = ψ1.qD.getD 0 [] := by
    rw [toList_getD]
    have : getQ s 0 = ψ1.qD.toArray.getD 0 [] := h0
    rw [toArray_getD] at this
    exact this
  have eL : s.qD.toList.getD H.A.length [] = ψ1.qD.getD H.A.length [] := by
    rw [toList_getD]
    have : getQ s H.A.length = ψ1.qD.toArray.getD H.A.length [] := hLq
    rw [toArray_getD] at this
    exact this
  rw [e0, eL]
  exact ⟨rfl, rfl⟩

/-- the same for a non-zero state and a kernel with the full QR contract of C01 -/
theorem tdvp2_boundary_nonzero (hc : C01.QRKernel k.dqr) {ψ ψ' : MPS 𝕜} {numsteps : Nat} {nrm : ℝ} (hadm : Admissible ψ)
    (h : integrateLocalTwosite k H ψ dt numsteps numiter tol = .ok (ψ', nrm))
    {σ : List Nat} (hσ : σ ∈ Env.digitsU ψ.qd.length ψ.A.length) (hne : ψ.amp σ ≠ 0) :
    ψ'.qD.head? = ψ.qD.head? ∧ ψ'.qD.getLast? = ψ.qD.getLast? := by
  obtain ⟨s0, s, hp, -, -, -⟩ := integrate2_unfold h
  obtain ⟨-, ψ1, BR, ho, -, -, -⟩ := prologue_unfold hp
  have ho' : MPS.orthonormalize (ρ := ℝ) k.dqr ψ false = .ok (ψ1, nrm) := ho
  have hd := C01.ortho_dense hc hadm ho' hσ
  have hn : nrm ≠ 0 := by
    intro h0
    rw [h0] at hd
    apply hne
    rw [← hd]
    simp
  exact tdvp2_boundary hc.contract.shape hadm h hn

end Ptn.HistWf

import PtnModel.Proofs.AutSem
/-!
# `from_optrees`: canonical graph updates

Every mutation sequence of `_insert_opchain` and `_insert_subtree` is one of two updates:
`plusNode` (a fresh node without edges) and `plusEdge` (a fresh edge between two existing, different nodes,
registered in both adjacency lists).  Both keep structural validity `SValid`.
-/
set_option linter.unusedSectionVars false

namespace Ptn.Og
open List Ptn.Dense

variable {κ : Type} [CommRing κ] [DecidableEq κ]

/-- append a fresh node without edges -/
def Graph.plusNode (g : Graph κ) (k q : Int) : Graph κ :=
  { g with nodes := g.nodes ++ [(k, ⟨k, [], [], q⟩)] }

/-- `node.add_edge_id(eid, d)` on the node stored under `k` (no-op if absent) -/
def nodesAdd (ns : List (Int × Node)) (k eid : Int) (d : Bool) : List (Int × Node) :=
  match dGet? ns k with
  | some n => dReplace ns k (n.setEids d (n.eids d ++ [eid]))
  | none => ns

/-- register the edge id `eid` at the source `x` (outgoing) and the target `y` (incoming) -/
def nodesConnect (ns : List (Int × Node)) (eid x y : Int) : List (Int × Node) :=
  nodesAdd (nodesAdd ns x eid true) y eid false

/-- append a fresh edge and connect it -/
def Graph.plusEdge (g : Graph κ) (e : Edge κ) : Graph κ :=
  { g with edges := g.edges ++ [(e.eid, e)], nodes := nodesConnect g.nodes e.eid e.nids.1 e.nids.2 }

@[simp] theorem plusNode_edges (g : Graph κ) (k q : Int) : (g.plusNode k q).edges = g.edges := rfl
@[simp] theorem plusNode_term (g : Graph κ) (k q : Int) : (g.plusNode k q).nidTerminal = g.nidTerminal := rfl
@[simp] theorem plusEdge_term (g : Graph κ) (e : Edge κ) : (g.plusEdge e).nidTerminal = g.nidTerminal := rfl
@[simp] theorem plusEdge_edges (g : Graph κ) (e : Edge κ) : (g.plusEdge e).edges = g.edges ++ [(e.eid, e)] := rfl

theorem plusNode_keys (g : Graph κ) (k q : Int) : dKeys (g.plusNode k q).nodes = dKeys g.nodes ++ [k] := by
  simp [Graph.plusNode, dKeys]

theorem nodesAdd_keys (ns : List (Int × Node)) (k eid : Int) (d : Bool) :
    dKeys (nodesAdd ns k eid d) = dKeys ns := by
  unfold nodesAdd
  cases dGet? ns k <;> simp [dKeys_dReplace]

theorem nodesConnect_keys (ns : List (Int × Node)) (eid x y : Int) :
    dKeys (nodesConnect ns eid x y) = dKeys ns := by
  unfold nodesConnect
  rw [nodesAdd_keys, nodesAdd_keys]

theorem plusEdge_keys (g : Graph κ) (e : Edge κ) : dKeys (g.plusEdge e).nodes = dKeys g.nodes :=
  nodesConnect_keys _ _ _ _

theorem plusEdge_edgeList (g : Graph κ) (e : Edge κ) : (g.plusEdge e).edgeList = g.edgeList ++ [e] := by
  simp [Graph.edgeList]

theorem plusNode_edgeList (g : Graph κ) (k q : Int) : (g.plusNode k q).edgeList = g.edgeList := rfl

theorem nodesAdd_get {ns : List (Int × Node)} {k eid : Int} {d : Bool} {n : Node}
    (hk : dGet? ns k = some n) (k' : Int) :
    dGet? (nodesAdd ns k eid d) k' = if k' = k then some (n.setEids d (n.eids d ++ [eid])) else dGet? ns k' := by
  unfold nodesAdd
  simp only [hk]
  rw [dGet?_dReplace]
  by_cases h : k' = k
  · subst h; simp [hk]
  · simp [h]

/-- lookups after connecting an edge between two different existing nodes -/
theorem nodesConnect_get {ns : List (Int × Node)} {eid x y : Int} {nx ny : Node}
    (hx : dGet? ns x = some nx) (hy : dGet? ns y = some ny) (hxy : x ≠ y) (k : Int) :
    dGet? (nodesConnect ns eid x y) k =
      if k = y then some (ny.setEids false (ny.eids false ++ [eid]))
      else if k = x then some (nx.setEids true (nx.eids true ++ [eid]))
      else dGet? ns k := by
  unfold nodesConnect
  have hy' : dGet? (nodesAdd ns x eid true) y = some ny := by
    rw [nodesAdd_get hx, if_neg (Ne.symm hxy), hy]
  rw [nodesAdd_get hy', nodesAdd_get hx]

/-- the optional `add_edge_id` of `add_connect_edge` -/
theorem condAdd_eq {g g' : Graph κ} {k eid : Int} {d : Bool}
    (h : (if dHas g.nodes k then g.modifyNode k (fun n => n.addEdgeId eid d) else pure g) = .ok g') :
    g' = { g with nodes := nodesAdd g.nodes k eid d } := by
  unfold nodesAdd
  cases hl : dGet? g.nodes k with
  | none =>
    have : dHas g.nodes k = false := by simp only [dHas, dGet?] at hl ⊢; simp [hl]
    simp only [this, Bool.false_eq_true, if_false] at h
    rw [pure_ok] at h
    simp [← h]
  | some n =>
    have : dHas g.nodes k = true := by simp only [dHas, dGet?] at hl ⊢; simp [hl]
    simp only [this, if_true] at h
    obtain ⟨n0, n1, a1, a2, a3⟩ := modifyNode_ok.1 h
    rw [hl] at a1; cases a1
    obtain ⟨_, rfl⟩ := addEdgeId_ok.1 a2
    exact a3

/-- the model's `add_connect_edge` is `plusEdge` -/
theorem addConnectEdge_eq_plusEdge {g g' : Graph κ} {e : Edge κ} (h : g.addConnectEdge e = .ok g') :
    g' = g.plusEdge e ∧ e.eid ∉ dKeys g.edges := by
  rw [addConnectEdge_eq, bind_ok] at h
  obtain ⟨g1, h1, h⟩ := h
  obtain ⟨hk, rfl⟩ := addEdge_ok.1 h1
  rw [bind_ok] at h
  obtain ⟨g2, h2, h3⟩ := h
  have e2 := condAdd_eq h2
  subst e2
  have e3 := condAdd_eq h3
  exact ⟨e3, hk⟩

/-! ## `SValid` is kept -/

theorem SValid.mem_nodes_iff {g : Graph κ} (h : SValid g) {k : Int} {n : Node} :
    (k, n) ∈ g.nodes ↔ dGet? g.nodes k = some n :=
  ⟨dGet?_eq_some_of_mem h.nodesKeys, mem_of_dGet?_eq_some⟩

theorem SValid.mem_edges_iff {g : Graph κ} (h : SValid g) {k : Int} {e : Edge κ} :
    (k, e) ∈ g.edges ↔ dGet? g.edges k = some e :=
  ⟨dGet?_eq_some_of_mem h.edgesKeys, mem_of_dGet?_eq_some⟩

theorem SValid.plusNode {g : Graph κ} (h : SValid g) {k : Int} (q : Int) (hk : k ∉ dKeys g.nodes) :
    SValid (g.plusNode k q) := by
  have mem : ∀ k' n', (k', n') ∈ (g.plusNode k q).nodes ↔ (k', n') ∈ g.nodes ∨ (k' = k ∧ n' = ⟨k, [], [], q⟩) := by
    intro k' n'; simp [Graph.plusNode]
  refine ⟨?_, h.edgesKeys, ?_, h.edgeKey, ?_, ?_, ?_, ?_, h.opicsSorted⟩
  · rw [plusNode_keys]; exact nodup_append_single h.nodesKeys hk
  · intro k' n' hm
    rcases (mem k' n').1 hm with hm | ⟨rfl, rfl⟩
    · exact h.nodeKey k' n' hm
    · rfl
  · intro k' n' hm d
    rcases (mem k' n').1 hm with hm | ⟨rfl, rfl⟩
    · exact h.eidsNodup k' n' hm d
    · cases d <;> simp [Node.eids]
  · intro k' n' hm d eid heid
    rcases (mem k' n').1 hm with hm | ⟨rfl, rfl⟩
    · exact h.nodeEdge k' n' hm d eid heid
    · cases d <;> simp [Node.eids] at heid
  · intro k' e' hm d
    obtain ⟨n, hn, hk'⟩ := h.edgeNode k' e' hm d
    exact ⟨n, (mem _ _).2 (Or.inl hn), hk'⟩
  · intro d
    obtain ⟨n, hn, he⟩ := h.termNode d
    exact ⟨n, (mem _ _).2 (Or.inl hn), he⟩

theorem SValid.plusEdge {g : Graph κ} (h : SValid g) {e : Edge κ} (hk : e.eid ∉ dKeys g.edges)
    {nx ny : Node} (hx : dGet? g.nodes e.nids.1 = some nx) (hy : dGet? g.nodes e.nids.2 = some ny)
    (hxy : e.nids.1 ≠ e.nids.2) (hx1 : e.nids.1 ≠ g.term true) (hy0 : e.nids.2 ≠ g.term false)
    (hs : e.opics = sortOpics e.opics) : SValid (g.plusEdge e) := by
  have hkeys : (dKeys (g.plusEdge e).nodes).Nodup := by rw [plusEdge_keys]; exact h.nodesKeys
  have hget := fun k => nodesConnect_get (eid := e.eid) hx hy hxy k
  have mem : ∀ k n, (k, n) ∈ (g.plusEdge e).nodes ↔ dGet? (nodesConnect g.nodes e.eid e.nids.1 e.nids.2) k = some n :=
    fun k n => ⟨dGet?_eq_some_of_mem hkeys, mem_of_dGet?_eq_some⟩
  have memE : ∀ k e', (k, e') ∈ (g.plusEdge e).edges ↔ (k, e') ∈ g.edges ∨ (k = e.eid ∧ e' = e) := by
    intro k e'; simp
  have hnx := mem_of_dGet?_eq_some hx
  have hny := mem_of_dGet?_eq_some hy
  -- the three kinds of nodes of the new graph
  have memY : (e.nids.2, ny.setEids false (ny.eids false ++ [e.eid])) ∈ (g.plusEdge e).nodes :=
    (mem _ _).2 (by rw [hget, if_pos rfl])
  have memX : (e.nids.1, nx.setEids true (nx.eids true ++ [e.eid])) ∈ (g.plusEdge e).nodes :=
    (mem _ _).2 (by rw [hget, if_neg hxy, if_pos rfl])
  have memO : ∀ k n, k ≠ e.nids.2 → k ≠ e.nids.1 → (k, n) ∈ g.nodes → (k, n) ∈ (g.plusEdge e).nodes :=
    fun k n h1 h2 hm => (mem _ _).2 (by rw [hget, if_neg h1, if_neg h2]; exact dGet?_eq_some_of_mem h.nodesKeys hm)
  have split : ∀ k n, (k, n) ∈ (g.plusEdge e).nodes →
      (k = e.nids.2 ∧ n = ny.setEids false (ny.eids false ++ [e.eid])) ∨
      (k = e.nids.1 ∧ n = nx.setEids true (nx.eids true ++ [e.eid])) ∨
      (k ≠ e.nids.2 ∧ k ≠ e.nids.1 ∧ (k, n) ∈ g.nodes) := by
    intro k n hm
    rw [mem, hget] at hm
    by_cases h1 : k = e.nids.2
    · rw [if_pos h1] at hm; exact Or.inl ⟨h1, (Option.some.inj hm).symm⟩
    · rw [if_neg h1] at hm
      by_cases h2 : k = e.nids.1
      · rw [if_pos h2] at hm; exact Or.inr (Or.inl ⟨h2, (Option.some.inj hm).symm⟩)
      · rw [if_neg h2] at hm; exact Or.inr (Or.inr ⟨h1, h2, mem_of_dGet?_eq_some hm⟩)
  have yF : (ny.setEids false (ny.eids false ++ [e.eid])).eids false = ny.eids false ++ [e.eid] := rfl
  have yT : (ny.setEids false (ny.eids false ++ [e.eid])).eids true = ny.eids true := rfl
  have xT : (nx.setEids true (nx.eids true ++ [e.eid])).eids true = nx.eids true ++ [e.eid] := rfl
  have xF : (nx.setEids true (nx.eids true ++ [e.eid])).eids false = nx.eids false := rfl
  -- the new id is in no adjacency list
  have fresh : ∀ k n, (k, n) ∈ g.nodes → ∀ d, e.eid ∉ n.eids d := by
    intro k n hm d hc
    obtain ⟨e', he', _⟩ := h.nodeEdge k n hm d e.eid hc
    exact hk (mem_map.2 ⟨(e.eid, e'), he', rfl⟩)
  have oldE : ∀ k n0 d eid, (k, n0) ∈ g.nodes → eid ∈ n0.eids d →
      ∃ e', (eid, e') ∈ (g.plusEdge e).edges ∧ e'.nid (!d) = k := by
    intro k n0 d eid hn0 h0
    obtain ⟨e', he', hk'⟩ := h.nodeEdge k n0 hn0 d eid h0
    exact ⟨e', (memE _ _).2 (Or.inl he'), hk'⟩
  refine ⟨hkeys, ?_, ?_, ?_, ?_, ?_, ?_, ?_, ?_⟩
  · rw [plusEdge_edges, dKeys_append]; exact nodup_append_single h.edgesKeys hk
  · intro k n hm
    rcases split k n hm with ⟨rfl, rfl⟩ | ⟨rfl, rfl⟩ | ⟨_, _, hm⟩
    · rw [Node.setEids_nid]; exact h.nodeKey _ _ hny
    · rw [Node.setEids_nid]; exact h.nodeKey _ _ hnx
    · exact h.nodeKey _ _ hm
  · intro k e' hm
    rcases (memE k e').1 hm with hm | ⟨rfl, rfl⟩
    · exact h.edgeKey k e' hm
    · rfl
  · intro k n hm d
    rcases split k n hm with ⟨rfl, rfl⟩ | ⟨rfl, rfl⟩ | ⟨_, _, hm⟩
    · cases d
      · rw [yF]; exact nodup_append_single (h.eidsNodup _ _ hny false) (fresh _ _ hny false)
      · rw [yT]; exact h.eidsNodup _ _ hny true
    · cases d
      · rw [xF]; exact h.eidsNodup _ _ hnx false
      · rw [xT]; exact nodup_append_single (h.eidsNodup _ _ hnx true) (fresh _ _ hnx true)
    · exact h.eidsNodup _ _ hm d
  · intro k n hm d eid heid
    rcases split k n hm with ⟨rfl, rfl⟩ | ⟨rfl, rfl⟩ | ⟨_, _, hm⟩
    · cases d
      · rw [yF, mem_append, mem_singleton] at heid
        rcases heid with heid | rfl
        · exact oldE _ ny false eid hny heid
        · exact ⟨e, (memE _ _).2 (Or.inr ⟨rfl, rfl⟩), by simp [Edge.nid]⟩
      · rw [yT] at heid; exact oldE _ ny true eid hny heid
    · cases d
      · rw [xF] at heid; exact oldE _ nx false eid hnx heid
      · rw [xT, mem_append, mem_singleton] at heid
        rcases heid with heid | rfl
        · exact oldE _ nx true eid hnx heid
        · exact ⟨e, (memE _ _).2 (Or.inr ⟨rfl, rfl⟩), by simp [Edge.nid]⟩
    · exact oldE _ n d eid hm heid
  · intro k e' hm d
    -- a node of the old graph keeps its lists up to an appended id
    have keep : ∀ k0 n0, (k0, n0) ∈ g.nodes → ∀ d' eid', eid' ∈ n0.eids d' →
        ∃ n, (k0, n) ∈ (g.plusEdge e).nodes ∧ eid' ∈ n.eids d' := by
      intro k0 n0 hn0 d' eid' hmem
      by_cases h1 : k0 = e.nids.2
      · subst h1
        have := h.node_unique hn0 hny; subst this
        refine ⟨_, memY, ?_⟩
        cases d'
        · rw [yF, mem_append]; exact Or.inl hmem
        · rw [yT]; exact hmem
      · by_cases h2 : k0 = e.nids.1
        · subst h2
          have := h.node_unique hn0 hnx; subst this
          refine ⟨_, memX, ?_⟩
          cases d'
          · rw [xF]; exact hmem
          · rw [xT, mem_append]; exact Or.inl hmem
        · exact ⟨n0, memO _ _ h1 h2 hn0, hmem⟩
    rcases (memE k e').1 hm with hm | ⟨rfl, rfl⟩
    · obtain ⟨n0, hn0, hk0⟩ := h.edgeNode k e' hm d
      exact keep _ n0 hn0 _ _ hk0
    · cases d
      · exact ⟨_, memX, by simp only [Bool.not_false]; rw [xT]; simp⟩
      · exact ⟨_, memY, by simp only [Bool.not_true]; rw [yF]; simp⟩
  · intro d
    obtain ⟨n0, hn0, he0⟩ := h.termNode d
    show ∃ n, (g.term d, n) ∈ (g.plusEdge e).nodes ∧ n.eids d = []
    by_cases h1 : g.term d = e.nids.2
    · have hd : d = true := by
        cases d
        · exact absurd h1.symm hy0
        · rfl
      subst hd
      rw [h1] at hn0 ⊢
      have := h.node_unique hn0 hny; subst this
      exact ⟨_, memY, by rw [yT]; exact he0⟩
    · by_cases h2 : g.term d = e.nids.1
      · have hd : d = false := by
          cases d
          · rfl
          · exact absurd h2.symm hx1
        subst hd
        rw [h2] at hn0 ⊢
        have := h.node_unique hn0 hnx; subst this
        exact ⟨_, memX, by rw [xF]; exact he0⟩
      · exact ⟨n0, memO _ _ h1 h2 hn0, he0⟩
  · intro k e' hm
    rcases (memE k e').1 hm with hm | ⟨rfl, rfl⟩
    · exact h.opicsSorted k e' hm
    · exact hs

end Ptn.Og

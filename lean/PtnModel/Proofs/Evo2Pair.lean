import PtnModel.Proofs.Evo2Unitary
import PtnModel.Proofs.EvoTdvp
import PtnModel.Proofs.Evo2Canon
/-!
# A backward-sweep step of single-site TDVP is undone by the mirrored forward-sweep step with negated time

`tdvp1Right` at site `j+1` with time step `dt` (QR of the centre, zero-site step backwards in time on the bond, push into
site `j`, one-site half step at `j`) followed by `tdvp1Left` at site `j` with time step `-dt` (one-site half step, QR, zero-site
step, push into site `j+1`) restores every amplitude of the dense state — although the second QR returns a *different*
gauge (`Q' = Q · U`, `U` unitary) than the isometry the first step started from.

* `localBondFun_congrL` : the zero-site map only reads the in-range entries of the left block;
* `right_move_canon`    : structure of the gauge move inside `tdvp1Right` (for an arbitrary evolved bond matrix);
* `pair_reversible`     : the reversibility statement.
-/
set_option linter.unusedSectionVars false

namespace Ptn.Evo
open Ptn Ptn.BondOps Ptn.Ortho Ptn.Env Ptn.Krylov Ptn.Dense Finset

variable {𝕜 : Type} [RCLike 𝕜] [DecidableEq 𝕜]
local notation "conj" => starRingEnd 𝕜

omit [DecidableEq 𝕜] in
/-- the zero-site map only reads the in-range entries of the left block -/
theorem localBondFun_congrL {L L' R : T3 𝕜} {m n : Nat} (hF : BondFits L R m n) (hF' : BondFits L' R m n)
    (hd1 : L'.d1 = L.d1) (hL : ∀ a w a', a < m → w < L.d1 → a' < m → L'.f a w a' = L.f a w a') :
    localBondFun L' R m n = localBondFun L R m n := by
  funext x
  obtain ⟨T, hT, t0, t1, hf⟩ := applyBond_ker hF (C := unflat2 x m n) rfl rfl
  obtain ⟨T', hT', t0', t1', hf'⟩ := applyBond_ker hF' (C := unflat2 x m n) rfl rfl
  unfold localBondFun
  rw [hT, hT']
  refine flat2_congr (t0'.trans t0.symm) (t1'.trans t1.symm) ?_
  intro a b ha hb
  rw [hf' a b (by rw [← t0']; exact ha) (by rw [← t1']; exact hb), hf a b (by rw [← t0']; exact ha) (by rw [← t1']; exact hb)]
  refine sum_congr rfl fun a' ha' => sum_congr rfl fun b' _ => ?_
  congr 1
  unfold bondKer
  rw [hd1]
  refine sum_congr rfl fun w hw => ?_
  rw [hL a' w a (mem_range.1 ha') (mem_range.1 hw) (by rw [← t0']; exact ha)]

omit [DecidableEq 𝕜] in
/-- two partial contractions of the same sites agree on in-range entries -/
theorem isLeftBlock_unique {ψ : MPS 𝕜} {o : MPO 𝕜} {d k : Nat} {E E' : T3 𝕜} (h : IsLeftBlock ψ o d k E)
    (h' : IsLeftBlock ψ o d k E') :
    E'.d0 = E.d0 ∧ E'.d1 = E.d1 ∧ E'.d2 = E.d2 ∧
      ∀ a w a', a < E.d0 → w < E.d1 → a' < E.d2 → E'.f a w a' = E.f a w a' := by
  refine ⟨h'.1.trans h.1.symm, h'.2.1.trans h.2.1.symm, h'.2.2.1.trans h.2.2.1.symm, ?_⟩
  intro a w a' ha hw ha'
  rw [h.2.2.2 a w a' (by rw [← h.1]; exact ha) (by rw [← h.2.1]; exact hw) (by rw [← h.2.2.1]; exact ha'),
    h'.2.2.2 a w a' (by rw [← h.1]; exact ha) (by rw [← h.2.1]; exact hw) (by rw [← h.2.2.1]; exact ha')]

variable {k : EvoKernels 𝕜 ℝ} {H : MPO 𝕜} {qd : List Int} {numiter : Nat}

/-- **The gauge move inside `tdvp1Right`**, for an arbitrary bond matrix `C1` of the shape of `Cᵀ` in place of the evolved
one: QR facts, the new right isometry, `A[j+1] = Cᵀ · Q`, the zero-site operator, and the invariant with centre `j` of the
state in which `A[j] · C1` has been stored at site `j`. -/
theorem right_move_canon (ctx : SweepCtx k H qd numiter) {s : Sweep 𝕜} {j : Nat} (h : Canon H qd s (j + 1))
    {Q C : Mat 𝕜} {qb : List Int} {BRn : T3 𝕜}
    (h1 : qr k.dqr (getA s (j + 1)).swap12.flattenLeft.tab (QN.flatten2 qd (QN.neg (getQ s (j + 2))))
      (QN.neg (getQ s (j + 1))) = .ok (Q, C, qb))
    (h2 : Op.opStepRight (T3.ofFlattenLeft Q (getA s (j + 1)).d0 (getA s (j + 1)).d2).swap12.tab
      (T3.ofFlattenLeft Q (getA s (j + 1)).d0 (getA s (j + 1)).d2).swap12.tab (H.A.getD (j + 1) zeroT4)
      (getBR s (j + 1)) = .ok BRn) :
    let Ai : T3 𝕜 := (T3.ofFlattenLeft Q (getA s (j + 1)).d0 (getA s (j + 1)).d2).swap12.tab
    let Ct : Mat 𝕜 := C.transpose.tab
    RightIso Ai ∧ Ai.d0 = qd.length ∧ Ai.d1 = qb.length ∧ Ai.d2 = (getQ s (j + 2)).length ∧ 0 < qb.length ∧
    Ct.m = (getQ s (j + 1)).length ∧ Ct.n = qb.length ∧
    (∀ a x b, a < qd.length → x < (getQ s (j + 1)).length → b < (getQ s (j + 2)).length →
      (mulLeft Ct Ai).f a x b = (getA s (j + 1)).f a x b) ∧
    BondFits (getBL s (j + 1)) BRn Ct.m Ct.n ∧ BondHermitian (getBL s (j + 1)) BRn Ct.m Ct.n ∧
    ∀ C1 : Mat 𝕜, C1.m = Ct.m → C1.n = Ct.n →
      Canon H qd (⟨(s.A.setIfInBounds (j + 1) Ai).setIfInBounds j (pushRight (getA s j) C1),
        s.qD.setIfInBounds (j + 1) (QN.neg qb), s.BL, s.BR.setIfInBounds j BRn⟩ : Sweep 𝕜) j := by
  intro Ai Ct
  have hi : j + 1 < H.A.length := h.hc
  have hics : j + 1 < s.A.size := by rw [h.wf.sizeA]; exact hi
  obtain ⟨s0, s1, s2⟩ := h.wf.shape (j + 1) hi
  obtain ⟨p0, p1, p2⟩ := h.wf.shape j (by omega)
  set Ac := getA s (j + 1) with hAc
  have hm : 0 < Ac.swap12.flattenLeft.tab.m := by
    show 0 < Ac.d0 * Ac.d2
    rw [s0, s2]; exact Nat.mul_pos ctx.dpos (h.wf.qpos (j + 2) (by omega))
  have hn : 0 < Ac.swap12.flattenLeft.tab.n := by
    show 0 < Ac.d1
    rw [s1]; exact h.wf.qpos (j + 1) (by omega)
  have hf := qr_facts ctx.qr.contract hm hn h1
  have hAiIso : RightIso Ai := rightQR_iso hf
  have hAi1 : Ai.d1 = qb.length := hf.Qn
  have hCtm : Ct.m = Ac.d1 := hf.Rn
  have hCtn : Ct.n = Ai.d1 := hf.Rm.trans hAi1.symm
  have hAcf : ∀ a x b, a < Ac.d0 → x < Ac.d1 → b < Ac.d2 → (mulLeft Ct Ai).f a x b = Ac.f a x b := by
    intro a x b ha hx hb
    have hr : a * Ac.d2 + b < Ac.d0 * Ac.d2 := Ortho.fused_lt ha hb
    have := hf.prod (a * Ac.d2 + b) x hr hx
    rw [Mat.tab_f Ac.swap12.flattenLeft hr hx] at this
    show ∑ p ∈ range Ai.d1, Ct.f x p * Ai.f a p b = _
    rw [hAi1]
    have e : Ac.swap12.flattenLeft.f (a * Ac.d2 + b) x = Ac.f a x b := by
      show Ac.f ((a * Ac.d2 + b) / Ac.d2) x ((a * Ac.d2 + b) % Ac.d2) = _
      rw [Ortho.fused_div hb, Ortho.fused_mod hb]
    rw [← e, ← this]
    refine sum_congr rfl fun p hp => ?_
    have hp' : p < qb.length := mem_range.1 hp
    rw [Env.t3_tab_f (A := (T3.ofFlattenLeft Q Ac.d0 Ac.d2).swap12) ha (by show p < Q.n; rw [hf.Qn]; exact hp') hb,
      Env.mat_tab_f C.transpose (by show x < C.n; rw [hf.Rn]; exact hx) (by show p < C.m; rw [hf.Rm]; exact hp')]
    show C.f p x * Q.f (a * Ac.d2 + b) p = _
    ring
  obtain ⟨hF, hHerm⟩ := canon_local h ctx.hH ctx.herm
  have hF' : LocalFits (getBL s (j + 1)) (getBR s (j + 1)) (H.A.getD (j + 1) zeroT4) Ai.d0 Ac.d1 Ai.d2 := hF
  have hH' : LocalHermitian (getBL s (j + 1)) (getBR s (j + 1)) (H.A.getD (j + 1) zeroT4) Ai.d0 Ac.d1 Ai.d2 := hHerm
  obtain ⟨hFB, hHB⟩ := bondHermitian_right hF' hH' h2
  refine ⟨hAiIso, s0, hAi1, s2, hf.pos, hCtm.trans s1, hCtn.trans hAi1,
    fun a x b ha hx hb => hAcf a x b (by rw [s0]; exact ha) (by rw [s1]; exact hx) (by rw [s2]; exact hb),
    by rw [hCtm, hCtn]; exact hFB, by rw [hCtm, hCtn]; exact hHB, ?_⟩
  intro C1 c0 c1
  set B : T3 𝕜 := mulLeft C1 Ai with hB
  have hBd : B.d0 = Ac.d0 ∧ B.d1 = Ac.d1 ∧ B.d2 = Ac.d2 := ⟨rfl, c0.trans hCtm, rfl⟩
  have hcanB := canon_replace h (X := B) hBd
  set sb : Sweep 𝕜 := ⟨s.A.setIfInBounds (j + 1) B, s.qD, s.BL, s.BR⟩ with hsbdef
  have gsb : getA sb (j + 1) = B := getD_setIfInBounds_eq _ _ _ hics
  have gsbj : getA sb j = getA s j := by
    show (s.A.setIfInBounds (j + 1) B).getD j emptyT3 = _
    rw [getD_setIfInBounds_ne _ _ _ (by omega)]; rfl
  obtain ⟨hcan', _⟩ := canon_right hcanB ctx.hH (X' := pushRight (getA s j) C1) (Y' := Ai) (qb := QN.neg qb)
    (BRn := BRn) ⟨p0, p1, by rw [neg_len]; exact c1.trans (hCtn.trans hAi1)⟩ ⟨s0, by rw [neg_len]; exact hAi1, s2⟩
    (by rw [neg_len]; exact hf.pos) hAiIso
    (fun a0' a a1' y ha0 ha ha1 hy => by
      rw [gsb, gsbj] at *
      show ∑ x ∈ range C1.n, (pushRight (getA s j) C1).f a0' a x * Ai.f a1' x y =
        ∑ x ∈ range (getA s j).d2, (getA s j).f a0' a x * ∑ p ∈ range Ai.d1, C1.f x p * Ai.f a1' p y
      have e1 : ∀ x ∈ range C1.n, (pushRight (getA s j) C1).f a0' a x * Ai.f a1' x y =
          ∑ b ∈ range (getA s j).d2, (getA s j).f a0' a b * C1.f b x * Ai.f a1' x y := by
        intro x hx
        rw [pushRight_f _ _ (by rw [p0]; exact ha0) ha (mem_range.1 hx), Finset.sum_mul]
      rw [Finset.sum_congr rfl e1, Finset.sum_comm]
      refine sum_congr rfl fun b _ => ?_
      rw [Finset.mul_sum, c1, hCtn]
      exact sum_congr rfl fun p _ => by ring)
    (by rw [show getBR sb (j + 1) = getBR s (j + 1) from rfl]; exact h2)
  have hfin : (⟨(sb.A.setIfInBounds (j + 1) Ai).setIfInBounds j (pushRight (getA s j) C1),
      sb.qD.setIfInBounds (j + 1) (QN.neg qb), sb.BL, sb.BR.setIfInBounds j BRn⟩ : Sweep 𝕜) =
      ⟨(s.A.setIfInBounds (j + 1) Ai).setIfInBounds j (pushRight (getA s j) C1),
        s.qD.setIfInBounds (j + 1) (QN.neg qb), s.BL, s.BR.setIfInBounds j BRn⟩ := by
    simp [hsbdef]
  rw [hfin] at hcan'
  exact hcan'

/-- **A backward-sweep step is undone by the mirrored forward-sweep step with negated time.**

`s` is mixed-canonical with centre `j+1`.  The data `(Q, C, qb, BRn, C1, Ap2)` are the intermediate results of
`tdvp1Right k H qd dt numiter s (j+1)` (`tdvp1Right_unfold`), the data `(A1', Q', C', qb', BLn', C1')` those of
`tdvp1Left k H qd (-dt) numiter s' j` on its result `s'` (`tdvp1Left_unfold`; the blocks, charges and tensors of `s'` are
written out).  Hypotheses: exact local exponentials for the four Krylov runs (`hX0`, `hX1`, `hX1'`, `hX0'`),
`E(a) E(-a) = 1`, and *regularity of the bond*: neither QR changes the bond dimension (`hsq`, `hsq'`) and the triangular
factor returned by the second QR has a right inverse (`hinv`).  Then every amplitude of the state after the two steps is
the amplitude of `s`. -/
theorem pair_reversible (ctx : SweepCtx k H qd numiter) {s : Sweep 𝕜} {j : Nat} (h : Canon H qd s (j + 1)) {dt : 𝕜}
    {Q C : Mat 𝕜} {qb : List Int} {BRn : T3 𝕜} {C1 : Mat 𝕜} {Ap2 : T3 𝕜}
    (h1 : qr k.dqr (getA s (j + 1)).swap12.flattenLeft.tab (QN.flatten2 qd (QN.neg (getQ s (j + 2))))
      (QN.neg (getQ s (j + 1))) = .ok (Q, C, qb))
    (h2 : Op.opStepRight (T3.ofFlattenLeft Q (getA s (j + 1)).d0 (getA s (j + 1)).d2).swap12.tab
      (T3.ofFlattenLeft Q (getA s (j + 1)).d0 (getA s (j + 1)).d2).swap12.tab (H.A.getD (j + 1) zeroT4)
      (getBR s (j + 1)) = .ok BRn)
    (h3 : localBondStep k (getBL s (j + 1)) BRn C.transpose.tab (-(k.half * dt)) numiter = .ok C1)
    (h4 : localHamiltonianStep k (getBL s j) BRn (H.A.getD j zeroT4) (pushRight (getA s j) C1) (k.half * dt) numiter =
      .ok Ap2)
    {A1' : T3 𝕜} {Q' C' : Mat 𝕜} {qb' : List Int} {BLn' : T3 𝕜} {C1' : Mat 𝕜}
    (g1 : localHamiltonianStep k (getBL s j) BRn (H.A.getD j zeroT4) Ap2 (k.half * -dt) numiter = .ok A1')
    (g2 : qr k.dqr A1'.flattenLeft.tab (QN.flatten2 qd (getQ s j)) (QN.neg qb) = .ok (Q', C', qb'))
    (g3 : Op.opStepLeft (T3.ofFlattenLeft Q' A1'.d0 A1'.d1).tab (T3.ofFlattenLeft Q' A1'.d0 A1'.d1).tab
      (H.A.getD j zeroT4) (getBL s j) = .ok BLn')
    (g4 : localBondStep k BLn' BRn C' (-(k.half * -dt)) numiter = .ok C1')
    (hX0 : C15.Exhausted (localBondFun (getBL s (j + 1)) BRn C.transpose.tab.m C.transpose.tab.n) k.cnorm
      (flat2 C.transpose.tab) numiter)
    (hX1 : C15.Exhausted (localHFun (getBL s j) BRn (H.A.getD j zeroT4) (pushRight (getA s j) C1).d0
      (pushRight (getA s j) C1).d1 (pushRight (getA s j) C1).d2) k.cnorm (flat3 (pushRight (getA s j) C1)) numiter)
    (hX1' : C15.Exhausted (localHFun (getBL s j) BRn (H.A.getD j zeroT4) (pushRight (getA s j) C1).d0
      (pushRight (getA s j) C1).d1 (pushRight (getA s j) C1).d2) k.cnorm (flat3 Ap2) numiter)
    (hX0' : C15.Exhausted (localBondFun BLn' BRn C'.m C'.n) k.cnorm (flat2 C') numiter)
    (hexp : ∀ (a : 𝕜) (x : ℝ), k.dexp (a * (x : 𝕜)) * k.dexp (-a * (x : 𝕜)) = 1)
    (hsq : qb.length = (getQ s (j + 1)).length) (hsq' : qb'.length = (getQ s (j + 1)).length)
    (hinv : ∃ Cinv : Mat 𝕜, ∀ p p', p < qb'.length → p' < qb'.length →
      ∑ x ∈ range C'.n, C'.f p x * Cinv.f x p' = if p = p' then 1 else 0)
    {s'' : Sweep 𝕜}
    (hs'' : s''.A = (((s.A.setIfInBounds (j + 1)
        (T3.ofFlattenLeft Q (getA s (j + 1)).d0 (getA s (j + 1)).d2).swap12.tab).setIfInBounds j Ap2).setIfInBounds j
        (T3.ofFlattenLeft Q' A1'.d0 A1'.d1).tab).setIfInBounds (j + 1)
        (pushLeft (T3.ofFlattenLeft Q (getA s (j + 1)).d0 (getA s (j + 1)).d2).swap12.tab C1'))
    {σ : List Nat} (hσ : σ ∈ digitsU qd.length H.A.length) : (cur qd s'').amp σ = (cur qd s).amp σ := by
  have hi : j + 1 < H.A.length := h.hc
  obtain ⟨p0, p1, p2⟩ := h.wf.shape j (by omega)
  obtain ⟨s0, s1, s2⟩ := h.wf.shape (j + 1) hi
  have hrm := right_move_canon ctx h h1 h2
  dsimp only at hrm
  obtain ⟨hAiIso, ai0, ai1, ai2, hqbpos, hCtm, hCtn, hAcf, hFB, hHB, hcanC⟩ := hrm
  set Ai : T3 𝕜 := (T3.ofFlattenLeft Q (getA s (j + 1)).d0 (getA s (j + 1)).d2).swap12.tab with hAi
  set Ct : Mat 𝕜 := C.transpose.tab with hCt
  set P : T3 𝕜 := getA s j with hP
  obtain ⟨c0, c1⟩ := bondStep_dims h3
  have hcan := hcanC C1 c0 c1
  set Ap' : T3 𝕜 := pushRight P C1 with hAp'
  have ap0 : Ap'.d0 = P.d0 := rfl
  have ap1 : Ap'.d1 = P.d1 := rfl
  have ap2 : Ap'.d2 = C1.n := rfl
  -- the one-site operator at site `j` between `BL[j]` and the new right block
  have hjs : j < s.A.size := by rw [h.wf.sizeA]; omega
  obtain ⟨hFj, hHj⟩ := canon_local hcan ctx.hH ctx.herm
  have gA : getA (⟨(s.A.setIfInBounds (j + 1) Ai).setIfInBounds j Ap', s.qD.setIfInBounds (j + 1) (QN.neg qb), s.BL,
      s.BR.setIfInBounds j BRn⟩ : Sweep 𝕜) j = Ap' := getD_setIfInBounds_eq _ _ _ (by simpa using hjs)
  have gR : getBR (⟨(s.A.setIfInBounds (j + 1) Ai).setIfInBounds j Ap', s.qD.setIfInBounds (j + 1) (QN.neg qb), s.BL,
      s.BR.setIfInBounds j BRn⟩ : Sweep 𝕜) j = BRn := getD_setIfInBounds_eq _ _ _ (by rw [h.sizeBR]; omega)
  rw [gA, gR] at hFj hHj
  have hFj' : LocalFits (getBL s j) BRn (H.A.getD j zeroT4) Ap'.d0 Ap'.d1 Ap'.d2 := hFj
  have hHj' : LocalHermitian (getBL s j) BRn (H.A.getD j zeroT4) Ap'.d0 Ap'.d1 Ap'.d2 := hHj
  -- the two one-site half steps cancel
  have g1' : localHamiltonianStep k (getBL s j) BRn (H.A.getD j zeroT4) Ap2 (-(k.half * dt)) numiter = .ok A1' := by
    have e : k.half * -dt = -(k.half * dt) := by ring
    rw [e] at g1; exact g1
  obtain ⟨a0, a1, a2, hA1f⟩ := localStep_cancel ctx.norm hFj' hHj' (ctx.eigh _ _) hX1 h4 (ctx.eigh _ _) hX1' g1'
    (fun x => hexp _ x)
  have hEqv : T3Eqv A1' Ap' := ⟨a0, a1, a2, fun s' a b hs' ha hb =>
    hA1f s' a b (by rw [← a0]; exact hs') (by rw [← a1]; exact ha) (by rw [← a2]; exact hb)⟩
  -- the second QR
  rw [flattenLeft_tab_congr hEqv] at g2
  have hm2 : 0 < Ap'.flattenLeft.tab.m := by
    show 0 < Ap'.d0 * Ap'.d1
    rw [ap0, ap1, p0, p1]; exact Nat.mul_pos ctx.dpos (h.wf.qpos j (by omega))
  have hn2 : 0 < Ap'.flattenLeft.tab.n := by
    show 0 < Ap'.d2
    rw [ap2, c1, hCtn]; exact hqbpos
  have hf2 := qr_facts ctx.qr.contract hm2 hn2 g2
  rw [a0, a1] at g3 hs''
  set Ai' : T3 𝕜 := (T3.ofFlattenLeft Q' Ap'.d0 Ap'.d1).tab with hAi'
  have hAi'Iso : LeftIso Ai' := leftQR_iso hf2
  have hD : qb'.length = P.d2 := hsq'.trans p2.symm
  have q2 : Ai'.d2 = P.d2 := by show Q'.n = _; rw [hf2.Qn]; exact hD
  have hC'n : C'.n = C1.n := hf2.Rn
  have hC'm : C'.m = P.d2 := hf2.Rm.trans hD
  have hAi'f : ∀ s' a p, s' < P.d0 → a < P.d1 → p < P.d2 → Ai'.f s' a p = Q'.f (s' * P.d1 + a) p := by
    intro s' a p hs' ha hp
    rw [hAi', Env.t3_tab_f (A := T3.ofFlattenLeft Q' Ap'.d0 Ap'.d1) hs' ha (by show p < Q'.n; rw [hf2.Qn, hD]; exact hp)]
    rfl
  have hprod : ∀ s' a x, s' < P.d0 → a < P.d1 → x < C1.n →
      ∑ p ∈ range P.d2, Ai'.f s' a p * C'.f p x = ∑ q ∈ range P.d2, P.f s' a q * C1.f q x := by
    intro s' a x hs' ha hx
    have hr : s' * P.d1 + a < Ap'.d0 * Ap'.d1 := Ortho.fused_lt hs' ha
    have := hf2.prod (s' * P.d1 + a) x hr hx
    rw [Mat.tab_f Ap'.flattenLeft hr hx, hD] at this
    have e : Ap'.flattenLeft.f (s' * P.d1 + a) x = Ap'.f s' a x := by
      show Ap'.f ((s' * P.d1 + a) / Ap'.d1) ((s' * P.d1 + a) % Ap'.d1) x = _
      rw [ap1, Ortho.fused_div ha, Ortho.fused_mod ha]
    rw [e, hAp', pushRight_f P C1 hs' ha hx] at this
    rw [← this]
    exact sum_congr rfl fun p hp => by rw [hAi'f s' a p hs' ha (mem_range.1 hp)]
  obtain ⟨Cinv, hCinv⟩ := hinv
  obtain ⟨U, hUm, hUn, hUU, hQU, hCU⟩ := qr_gauge_left (h.liso j (by omega)) hAi'Iso rfl rfl q2 hprod
    (fun p p' hp hp' => by
      have := hCinv p p' (by rw [hD]; exact hp) (by rw [hD]; exact hp')
      rw [hC'n] at this; exact this)
  -- the left block built from `P`
  obtain ⟨BLn, hBLn, hBLnb⟩ := C04.left_step_dense h.shaped ctx.hH h.len (i := j) (by rw [h.len]; omega)
    (cur_getElem? qd s hjs) (getD_some H.A (by omega) zeroT4) (h.bl j (by omega))
  obtain ⟨e0, e1, e2, ef⟩ := isLeftBlock_unique hBLnb (h.bl (j + 1) (Nat.le_refl _))
  have hFjP : LocalFits (getBL s j) BRn (H.A.getD j zeroT4) P.d0 P.d1 C1.n := hFj'
  have hHjP : LocalHermitian (getBL s j) BRn (H.A.getD j zeroT4) P.d0 P.d1 C1.n := hHj'
  obtain ⟨hFBn, _⟩ := bond_proj_left hFjP hBLn
  have hCtmP : Ct.m = P.d2 := hCtm.trans p2.symm
  have hCtnC : Ct.n = C1.n := c1.symm
  have funeq : localBondFun (getBL s (j + 1)) BRn Ct.m Ct.n = localBondFun BLn BRn Ct.m Ct.n := by
    rw [hCtmP, hCtnC]
    refine localBondFun_congrL hFBn (by rw [← hCtmP, ← hCtnC]; exact hFB) e1 ?_
    intro a w a' ha hw ha'
    exact ef a w a' (by rw [hFBn.l0]; exact ha) hw (by rw [hFBn.l2]; exact ha')
  have h3' : localBondStep k BLn BRn Ct (-(k.half * dt)) numiter = .ok C1 := by
    unfold localBondStep at h3 ⊢
    rw [funeq] at h3; exact h3
  rw [funeq] at hX0
  have g4' : localBondStep k BLn' BRn C' (-(-(k.half * dt))) numiter = .ok C1' := by
    have e : -(k.half * -dt) = -(-(k.half * dt)) := by ring
    rw [e] at g4; exact g4
  obtain ⟨d0', d1', hC1'f⟩ := bondStep_cancel_gauge ctx.norm hFjP hHjP (Q' := Ai') rfl rfl q2 hUm hUn hUU hQU hBLn g3
    hCtmP hCtnC (ctx.eigh _ _) hX0 h3' hC'm hC'n
    (fun p b hp hb => hCU p b hp hb) (ctx.eigh _ _) hX0' g4' (fun x => hexp _ x)
  -- the new pair has the product of the old pair
  set Y' : T3 𝕜 := pushLeft Ai C1' with hY'
  have hprodXY : ∀ a0' a a1' y, a0' < qd.length → a < P.d1 → a1' < qd.length → y < (getA s (j + 1)).d2 →
      ∑ x ∈ range Ai'.d2, Ai'.f a0' a x * Y'.f a1' x y =
        ∑ x ∈ range P.d2, P.f a0' a x * (getA s (j + 1)).f a1' x y := by
    intro a0' a a1' y ha0 ha ha1 hy
    rw [q2]
    have hy' : y < Ai.d2 := by rw [ai2, ← s2]; exact hy
    have e1 : ∀ x ∈ range P.d2, Ai'.f a0' a x * Y'.f a1' x y =
        ∑ q ∈ range P.d2, ∑ r ∈ range P.d2, P.f a0' a q * (∑ b ∈ range Ai.d1, Ct.f r b * Ai.f a1' b y) *
          (U.f q x * star (U.f r x)) := by
      intro x hx
      rw [hQU a0' a x (by rw [p0]; exact ha0) ha (mem_range.1 hx), hY',
        pushLeft_f Ai C1' (by rw [ai0]; exact ha1) (by rw [d0']; exact mem_range.1 hx) hy', sum_mul]
      refine sum_congr rfl fun q _ => ?_
      have e2 : ∑ b ∈ range Ai.d1, Ai.f a1' b y * C1'.f x b =
          ∑ r ∈ range P.d2, star (U.f r x) * ∑ b ∈ range Ai.d1, Ct.f r b * Ai.f a1' b y := by
        have e3 : ∀ b ∈ range Ai.d1, Ai.f a1' b y * C1'.f x b =
            ∑ r ∈ range P.d2, star (U.f r x) * (Ct.f r b * Ai.f a1' b y) := by
          intro b hb
          rw [hC1'f x b (mem_range.1 hx) (by rw [c1, hCtn, ← ai1]; exact mem_range.1 hb), mul_sum]
          exact sum_congr rfl fun r _ => by ring
        rw [sum_congr rfl e3, sum_comm]
        exact sum_congr rfl fun r _ => by rw [mul_sum]
      rw [e2, mul_sum]
      exact sum_congr rfl fun r _ => by ring
    rw [sum_congr rfl e1, sum_comm]
    refine sum_congr rfl fun q hq => ?_
    rw [sum_comm]
    have e4 : ∀ r ∈ range P.d2, ∑ x ∈ range P.d2, P.f a0' a q * (∑ b ∈ range Ai.d1, Ct.f r b * Ai.f a1' b y) *
        (U.f q x * star (U.f r x)) = if q = r then P.f a0' a q * ∑ b ∈ range Ai.d1, Ct.f r b * Ai.f a1' b y else 0 := by
      intro r hr
      rw [← mul_sum, hUU q r (mem_range.1 hq) (mem_range.1 hr)]
      by_cases hqr : q = r
      · rw [if_pos hqr, if_pos hqr, mul_one]
      · rw [if_neg hqr, if_neg hqr, mul_zero]
    rw [sum_congr rfl e4, sum_ite_eq (range P.d2) q, if_pos hq]
    congr 1
    exact hAcf a1' q y ha1 (by rw [← p2]; exact mem_range.1 hq) (by rw [← s2]; exact hy)
  -- an auxiliary sweep state holding the new pair
  have hA'' : s''.A = (s.A.setIfInBounds j Ai').setIfInBounds (j + 1) Y' := by
    rw [hs'']
    apply Array.ext_getElem?
    intro i
    simp only [Array.getElem?_setIfInBounds, Array.size_setIfInBounds]
    by_cases h1 : j + 1 = i
    · simp [h1]
    · by_cases h2 : j = i
      · subst h2; simp
      · simp [h1, h2]
  set t : Sweep 𝕜 := ⟨(s.A.setIfInBounds j Ai').setIfInBounds (j + 1) Y', s.qD.setIfInBounds (j + 1) qb', s.BL, s.BR⟩
    with ht
  have hamp : (cur qd s'').amp σ = (cur qd t).amp σ := by
    show MPS.amp ⟨qd, s''.qD.toList, s''.A.toList⟩ σ = MPS.amp ⟨qd, t.qD.toList, t.A.toList⟩ σ
    rw [hA'']
    rfl
  rw [hamp]
  have hL : 0 < H.A.length := by omega
  have hA : ∀ m, getA t m = if m = j then Ai' else if m = j + 1 then Y' else getA s m := by
    intro m
    show ((s.A.setIfInBounds j _).setIfInBounds (j + 1) _).getD m emptyT3 = _
    rw [getD_setIfInBounds, getD_setIfInBounds, Array.size_setIfInBounds, h.wf.sizeA]
    by_cases h1 : m = j
    · subst h1; rw [if_neg (by omega), if_pos ⟨rfl, by omega⟩, if_pos rfl]
    · rw [if_neg h1]
      by_cases h2 : m = j + 1
      · rw [if_pos ⟨h2, hi⟩, if_pos h2]
      · rw [if_neg (fun hh => h2 hh.1), if_neg (fun hh => h1 hh.1), if_neg h2]; rfl
  have hQ : ∀ m, getQ t m = if m = j + 1 then qb' else getQ s m := by
    intro m
    show (s.qD.setIfInBounds (j + 1) qb').getD m [] = _
    rw [getD_setIfInBounds, h.wf.sizeQ]
    by_cases h2 : m = j + 1
    · rw [if_pos ⟨h2, by omega⟩, if_pos h2]
    · rw [if_neg (fun hh => h2 hh.1), if_neg h2]; rfl
  have hY'd : Y'.d0 = qd.length ∧ Y'.d1 = qb'.length ∧ Y'.d2 = (getQ s (j + 2)).length :=
    ⟨ai0, d0'.trans hD.symm, ai2⟩
  have hwf : SweepWf qd H.A.length t :=
    wf_update_pair h.wf hi (by simp [ht, h.wf.sizeA]) (by simp [ht, h.wf.sizeQ]) hA hQ
      ⟨p0, p1, q2.trans hD.symm⟩ hY'd (by rw [hsq']; exact h.wf.qpos (j + 1) (by omega))
  have hq0 : (getQ t 0).length = 1 := by rw [hQ, if_neg (by omega)]; exact h.q0
  have hqL : (getQ t H.A.length).length = 1 := by rw [hQ, if_neg (by omega)]; exact h.qL
  have hsh' := shaped_cur hwf hL hq0 hqL
  have hcurA : (cur qd t).A = ((cur qd s).A.set j Ai').set (j + 1) Y' := by simp [cur, ht]
  have hcl : j + 1 < (cur qd s).A.length := by rw [h.len]; exact hi
  have e0 := split_pair (cur qd s).A hcl emptyT3
  rw [cur_getD, cur_getD] at e0
  have e1 : (cur qd t).A = (cur qd s).A.take j ++ Ai' :: Y' :: (cur qd s).A.drop (j + 2) := by
    rw [hcurA, set_pair _ hcl]
  refine amp_gauge h.shaped hsh' e0 e1 ?_ hprodXY (by rw [h.len]; exact hσ)
  rw [hY'd.2.2, s2]

/-- the intermediate results of the two calls, in the form used by `pair_reversible` -/
structure PairData (k : EvoKernels 𝕜 ℝ) (H : MPO 𝕜) (qd : List Int) (numiter : Nat) (s : Sweep 𝕜) (j : Nat) (dt : 𝕜)
    (Q C : Mat 𝕜) (qb : List Int) (BRn : T3 𝕜) (C1 : Mat 𝕜) (Ap2 A1' : T3 𝕜) (Q' C' : Mat 𝕜) (qb' : List Int)
    (BLn' : T3 𝕜) (C1' : Mat 𝕜) : Prop where
  h1 : qr k.dqr (getA s (j + 1)).swap12.flattenLeft.tab (QN.flatten2 qd (QN.neg (getQ s (j + 2))))
      (QN.neg (getQ s (j + 1))) = .ok (Q, C, qb)
  h2 : Op.opStepRight (T3.ofFlattenLeft Q (getA s (j + 1)).d0 (getA s (j + 1)).d2).swap12.tab
      (T3.ofFlattenLeft Q (getA s (j + 1)).d0 (getA s (j + 1)).d2).swap12.tab (H.A.getD (j + 1) zeroT4)
      (getBR s (j + 1)) = .ok BRn
  h3 : localBondStep k (getBL s (j + 1)) BRn C.transpose.tab (-(k.half * dt)) numiter = .ok C1
  h4 : localHamiltonianStep k (getBL s j) BRn (H.A.getD j zeroT4) (pushRight (getA s j) C1) (k.half * dt) numiter =
      .ok Ap2
  g1 : localHamiltonianStep k (getBL s j) BRn (H.A.getD j zeroT4) Ap2 (k.half * -dt) numiter = .ok A1'
  g2 : qr k.dqr A1'.flattenLeft.tab (QN.flatten2 qd (getQ s j)) (QN.neg qb) = .ok (Q', C', qb')
  g3 : Op.opStepLeft (T3.ofFlattenLeft Q' A1'.d0 A1'.d1).tab (T3.ofFlattenLeft Q' A1'.d0 A1'.d1).tab
      (H.A.getD j zeroT4) (getBL s j) = .ok BLn'
  g4 : localBondStep k BLn' BRn C' (-(k.half * -dt)) numiter = .ok C1'

/-- exactness of the four Krylov runs and regularity of the bond, for given intermediate results -/
structure PairExact (k : EvoKernels 𝕜 ℝ) (H : MPO 𝕜) (numiter : Nat) (s : Sweep 𝕜) (j : Nat)
    (C : Mat 𝕜) (qb : List Int) (BRn : T3 𝕜) (C1 : Mat 𝕜) (Ap2 : T3 𝕜) (C' : Mat 𝕜) (qb' : List Int)
    (BLn' : T3 𝕜) : Prop where
  hX0 : C15.Exhausted (localBondFun (getBL s (j + 1)) BRn C.transpose.tab.m C.transpose.tab.n) k.cnorm
      (flat2 C.transpose.tab) numiter
  hX1 : C15.Exhausted (localHFun (getBL s j) BRn (H.A.getD j zeroT4) (pushRight (getA s j) C1).d0
      (pushRight (getA s j) C1).d1 (pushRight (getA s j) C1).d2) k.cnorm (flat3 (pushRight (getA s j) C1)) numiter
  hX1' : C15.Exhausted (localHFun (getBL s j) BRn (H.A.getD j zeroT4) (pushRight (getA s j) C1).d0
      (pushRight (getA s j) C1).d1 (pushRight (getA s j) C1).d2) k.cnorm (flat3 Ap2) numiter
  hX0' : C15.Exhausted (localBondFun BLn' BRn C'.m C'.n) k.cnorm (flat2 C') numiter
  hsq : qb.length = (getQ s (j + 1)).length
  hsq' : qb'.length = (getQ s (j + 1)).length
  hinv : ∃ Cinv : Mat 𝕜, ∀ p p', p < qb'.length → p' < qb'.length →
      ∑ x ∈ range C'.n, C'.f p x * Cinv.f x p' = if p = p' then 1 else 0

/-- reading the two calls: the intermediate results exist and determine the tensors of the final state -/
theorem pair_runs_unfold {s s' s'' : Sweep 𝕜} {j : Nat} {dt : 𝕜} (h : Canon H qd s (j + 1))
    (hR : tdvp1Right k H qd dt numiter s (j + 1) = .ok s') (hL : tdvp1Left k H qd (-dt) numiter s' j = .ok s'') :
    ∃ Q C qb BRn C1 Ap2 A1' Q' C' qb' BLn' C1',
      PairData k H qd numiter s j dt Q C qb BRn C1 Ap2 A1' Q' C' qb' BLn' C1' ∧
      s''.A = (((s.A.setIfInBounds (j + 1)
        (T3.ofFlattenLeft Q (getA s (j + 1)).d0 (getA s (j + 1)).d2).swap12.tab).setIfInBounds j Ap2).setIfInBounds j
        (T3.ofFlattenLeft Q' A1'.d0 A1'.d1).tab).setIfInBounds (j + 1)
        (pushLeft (T3.ofFlattenLeft Q (getA s (j + 1)).d0 (getA s (j + 1)).d2).swap12.tab C1') := by
  obtain ⟨Q, C, qb, BRn, C1, Ap2, h1, h2, h3, _, h4, rfl⟩ := tdvp1Right_unfold hR
  simp only [Nat.add_sub_cancel] at h4 hL
  obtain ⟨A1', Q', C', qb', BLn', C1', g1, g2, g3, g4, _, rfl⟩ := tdvp1Left_unfold hL
  have hi : j + 1 < H.A.length := h.hc
  set Ai : T3 𝕜 := (T3.ofFlattenLeft Q (getA s (j + 1)).d0 (getA s (j + 1)).d2).swap12.tab with hAi
  set s' : Sweep 𝕜 := ⟨(s.A.setIfInBounds (j + 1) Ai).setIfInBounds j Ap2, s.qD.setIfInBounds (j + 1) (QN.neg qb), s.BL,
    s.BR.setIfInBounds j BRn⟩ with hs'
  have gA : getA s' j = Ap2 := getD_setIfInBounds_eq _ _ _ (by simp [h.wf.sizeA]; omega)
  have gA1 : getA s' (j + 1) = Ai := by
    show ((s.A.setIfInBounds (j + 1) Ai).setIfInBounds j Ap2).getD (j + 1) emptyT3 = Ai
    rw [getD_setIfInBounds_ne _ _ _ (by omega)]
    exact getD_setIfInBounds_eq _ _ _ (by rw [h.wf.sizeA]; exact hi)
  have gR : getBR s' j = BRn := getD_setIfInBounds_eq _ _ _ (by rw [h.sizeBR]; omega)
  have gL : getBL s' j = getBL s j := rfl
  have gQ : getQ s' j = getQ s j := by
    show (s.qD.setIfInBounds (j + 1) (QN.neg qb)).getD j [] = _
    rw [getD_setIfInBounds_ne _ _ _ (by omega)]; rfl
  have gQ1 : getQ s' (j + 1) = QN.neg qb := getD_setIfInBounds_eq _ _ _ (by rw [h.wf.sizeQ]; omega)
  rw [gL, gR, gA] at g1
  rw [gQ, gQ1] at g2
  rw [gL] at g3
  rw [gR] at g4
  refine ⟨Q, C, qb, BRn, C1, Ap2, A1', Q', C', qb', BLn', C1', ⟨h1, h2, h3, h4, g1, g2, g3, g4⟩, ?_⟩
  show (s'.A.setIfInBounds j _).setIfInBounds (j + 1) (pushLeft (getA s' (j + 1)) C1') = _
  rw [gA1]

/-- **A backward-sweep step of single-site TDVP is undone by the mirrored forward-sweep step with negated time**, for the
actual calls: `tdvp1Right … dt` at site `j+1` followed by `tdvp1Left … (-dt)` at site `j` restores every amplitude, provided
the intermediate results of the two calls satisfy `PairExact` (exact local exponentials for the four Krylov runs; both QR
steps keep the bond dimension; the triangular factor of the second QR is right-invertible) and `E(a) E(-a) = 1`. -/
theorem tdvp1_pair_reversible (ctx : SweepCtx k H qd numiter) {s s' s'' : Sweep 𝕜} {j : Nat} {dt : 𝕜}
    (h : Canon H qd s (j + 1))
    (hR : tdvp1Right k H qd dt numiter s (j + 1) = .ok s') (hL : tdvp1Left k H qd (-dt) numiter s' j = .ok s'')
    (hex : ∀ Q C qb BRn C1 Ap2 A1' Q' C' qb' BLn' C1',
      PairData k H qd numiter s j dt Q C qb BRn C1 Ap2 A1' Q' C' qb' BLn' C1' →
      PairExact k H numiter s j C qb BRn C1 Ap2 C' qb' BLn')
    (hexp : ∀ (a : 𝕜) (x : ℝ), k.dexp (a * (x : 𝕜)) * k.dexp (-a * (x : 𝕜)) = 1)
    {σ : List Nat} (hσ : σ ∈ digitsU qd.length H.A.length) : (cur qd s'').amp σ = (cur qd s).amp σ := by
  obtain ⟨Q, C, qb, BRn, C1, Ap2, A1', Q', C', qb', BLn', C1', hd, hA⟩ := pair_runs_unfold h hR hL
  have he := hex _ _ _ _ _ _ _ _ _ _ _ _ hd
  exact pair_reversible ctx h hd.h1 hd.h2 hd.h3 hd.h4 hd.g1 hd.g2 hd.g3 hd.g4 he.hX0 he.hX1 he.hX1' he.hX0' hexp he.hsq
    he.hsq' he.hinv hA hσ

end Ptn.Evo

import PtnModel.Proofs.SpecSector
import PtnModel.Proofs.Evo2Dmrg
/-!
# C10: sector lower bound for two-site DMRG at zero split tolerance

Same argument as `Proofs/SpecSector.lean`: the variational invariant (`Evo.DInv`, from `Evo2Dmrg.lean`), the block-sparsity
invariant (`HistWf.EvoSparse`, from `HistEvoTwo.lean`) and the boundary charges are carried together through the two-site
sweeps (`SInvG`, `dmrg2Left_sinv`, `dmrg2Right_sinv`, `normalize_sinv`, `dmrg2Sweep_sinv`); every reported energy is the energy
of a normalised block-sparse state with the boundary charges of the state after the prologue (`dmrg2_sector_main`).
`prologue_sector`: for a non-zero start state these are the boundary charges of the start state.
-/

set_option linter.unusedSectionVars false
namespace Ptn.Sector
open Ptn Ptn.Evo Ptn.Krylov Ptn.Ortho Ptn.BondOps Ptn.Dense Ptn.Env Ptn.HistWf Finset

variable {𝕜 : Type} [RCLike 𝕜] [DecidableEq 𝕜]
variable {k : EvoKernels 𝕜 ℝ} {H : MPO 𝕜} {qd : List Int} {numiter : Nat}

/-- invariant with free ranges of valid environment blocks -/
structure SInvG (H : MPO 𝕜) (qd : List Int) (s0 s : Sweep 𝕜) (c cl cr : Nat) (E' : ℝ) : Prop where
  inv : DInv H qd s c E'
  sp : EvoSparse H qd s cl cr
  q0 : getQ s 0 = getQ s0 0
  qL : getQ s H.A.length = getQ s0 H.A.length

theorem SInvG.le {s0 s : Sweep 𝕜} {c cl cr : Nat} {E' μ : ℝ} (h : SInvG H qd s0 s c cl cr E')
    (hμ : SectorLower H qd (sectorOf s0 H.A.length) μ) : μ ≤ E' :=
  sector_le_energy h.inv h.sp (by unfold sectorOf at hμ ⊢; rw [h.q0, h.qL]; exact hμ)

omit [DecidableEq 𝕜] in
theorem norm_nil (hN : NormContract k.cnorm) : ¬ 0 < k.cnorm [] := by
  intro h
  obtain ⟨i, hi, _⟩ := (hN.pos_iff _).1 h
  simp at hi

theorem dmrg2Update_bdry {tol : ℝ} {distr : Nat} {s s' : Sweep 𝕜} {en : ℝ} {i : Nat} (hi : i + 1 < H.A.length)
    (hrun : dmrg2Update k H qd numiter tol distr s i = .ok (s', en)) :
    getQ s' 0 = getQ s 0 ∧ getQ s' H.A.length = getQ s H.A.length := by
  obtain ⟨Aopt, A0, A1, qb, -, -, rfl⟩ := Evo.dmrg2Update_unfold hrun
  constructor
  · show (s.qD.setIfInBounds (i + 1) qb).getD 0 [] = s.qD.getD 0 []
    rw [getD_setIfInBounds_ne _ _ _ (by omega)]
  · show (s.qD.setIfInBounds (i + 1) qb).getD H.A.length [] = s.qD.getD H.A.length []
    rw [getD_setIfInBounds_ne _ _ _ (by omega)]

theorem dmrg2Left_sinv (ctx : SweepCtx k H qd numiter) (hk : Compress.SvdKernel k.svd) (hH : HOk H qd) {s0 : Sweep 𝕜}
    {se se' : Sweep 𝕜 × ℝ} {E : ℝ} {i : Nat} (h : SInvG H qd s0 se.1 i i (i + 1) E) (hi1 : i + 1 < H.A.length)
    (hrun : dmrg2Left k H qd numiter (0 : ℝ) se i = .ok se') :
    SInvG H qd s0 se'.1 (i + 1) (i + 1) (i + 1) se'.2 ∧ se'.2 ≤ E := by
  obtain ⟨s, e⟩ := se
  obtain ⟨s', e'⟩ := se'
  obtain ⟨hinv, hle, _⟩ := dmrg2Left_inv ctx hk h.inv hi1 hrun
  have hsp := dmrg2Left_sparse (fun B => hk.svd.shape B) (norm_nil ctx.norm) hH h.sp hi1 hrun
  obtain ⟨s1, en, BLn, h1, -, e1⟩ := dmrg2Left_unfold hrun
  injection e1 with e1 _
  obtain ⟨b0, bL⟩ := dmrg2Update_bdry hi1 h1
  refine ⟨⟨hinv, hsp, ?_, ?_⟩, hle⟩
  · rw [← h.q0, ← b0]; dsimp only; rw [e1]; rfl
  · rw [← h.qL, ← bL]; dsimp only; rw [e1]; rfl

theorem dmrg2Right_sinv (ctx : SweepCtx k H qd numiter) (hk : Compress.SvdKernel k.svd) (hH : HOk H qd) {s0 : Sweep 𝕜}
    {se se' : Sweep 𝕜 × ℝ} {E : ℝ} {i c : Nat} (h2 : DInv2 H qd se.1 i E) (h : SInvG H qd s0 se.1 c i (i + 1) E)
    (hi1 : i + 1 < H.A.length) (hrun : dmrg2Right k H qd numiter (0 : ℝ) se i = .ok se') :
    SInvG H qd s0 se'.1 i i i se'.2 ∧ se'.2 ≤ E := by
  obtain ⟨s, e⟩ := se
  obtain ⟨s', e'⟩ := se'
  obtain ⟨hinv, hle, _⟩ := dmrg2Right_inv ctx hk h2 hrun
  have hsp := dmrg2Right_sparse (fun B => hk.svd.shape B) (norm_nil ctx.norm) hH h.sp hi1 hrun
  obtain ⟨s1, en, BRn, h1, -, e1⟩ := dmrg2Right_unfold hrun
  injection e1 with e1 _
  obtain ⟨b0, bL⟩ := dmrg2Update_bdry hi1 h1
  refine ⟨⟨hinv, hsp, ?_, ?_⟩, hle⟩
  · rw [← h.q0, ← b0]; dsimp only; rw [e1]; rfl
  · rw [← h.qL, ← bL]; dsimp only; rw [e1]; rfl


theorem SInvG.mono {s0 s : Sweep 𝕜} {c cl cr cl' cr' : Nat} {E' : ℝ} (h : SInvG H qd s0 s c cl cr E') (h1 : cl' ≤ cl)
    (h2 : cr ≤ cr') : SInvG H qd s0 s c cl' cr' E' := ⟨h.inv, h.sp.mono h1 h2, h.q0, h.qL⟩

/-- the final normalisation of the first tensor keeps the invariant -/
theorem normalize_sinv (ctx : SweepCtx k H qd numiter) {s0 s s' : Sweep 𝕜} {cl cr : Nat} {E : ℝ}
    (h : SInvG H qd s0 s 0 cl cr E) (hrun : dmrgNormalizeFirst k qd s = .ok s') : SInvG H qd s0 s' 0 0 cr E := by
  have hL : 0 < H.A.length := h.inv.can.hc
  have hfrob : frob3 (getA s 0) = 1 := by
    have hc := (canon_centre h.inv.can ctx.hH).1
    rw [h.inv.nrm] at hc
    exact_mod_cast hc.symm
  obtain ⟨σ, a, b, hσ, ha, hb, hne⟩ := exists_entry_of_frob hfrob
  have hd1 : (getA s 0).d1 = 1 := (h.inv.can.wf.shape 0 hL).2.1.trans h.inv.can.q0
  have hq0 := normalizeFirst_q0 ctx.qr.contract.shape h.inv.can.q0 hd1
    (by rw [h.inv.can.wf.sizeQ]; omega) hσ ha hb hne hrun
  have hqL : getQ s' H.A.length = getQ s H.A.length := by
    obtain ⟨A0, X, qb, -, rfl⟩ := dmrgNormalizeFirst_unfold hrun
    show (s.qD.setIfInBounds 0 qb).getD H.A.length [] = s.qD.getD H.A.length []
    rw [getD_setIfInBounds_ne _ _ _ (by omega)]
  exact ⟨normalize_inv ctx h.inv hrun, dmrgNormalizeFirst_sparse ctx.qr.contract.shape hL h.sp hrun,
    hq0.trans h.q0, hqL.trans h.qL⟩

/-- **one two-site DMRG sweep** (`L ≥ 2`, zero split tolerance) -/
theorem dmrg2Sweep_sinv (ctx : SweepCtx k H qd numiter) (hk : Compress.SvdKernel k.svd) (hH : HOk H qd)
    (hL2 : 2 ≤ H.A.length) {s0 s s' : Sweep 𝕜} {es es' : List ℝ} {E : ℝ} (h : SInvG H qd s0 s 0 0 0 E)
    (hrun : dmrg2Sweep k H qd numiter (0 : ℝ) (s, es) = .ok (s', es')) :
    ∃ e, es' = es ++ [e] ∧ SInvG H qd s0 s' 0 0 0 e ∧ e ≤ E ∧
      ∀ μ, SectorLower H qd (sectorOf s0 H.A.length) μ → μ ≤ e := by
  obtain ⟨s1, e1, s2, e2, s3, h1, h2, h3, h4⟩ := dmrg2Sweep_unfold hrun
  injection h4 with h4a h4b
  subst h4a h4b
  dsimp only at h1
  have hleft := foldIdx_up (dmrg2Left k H qd numiter 0)
    (fun i (t : Sweep 𝕜 × ℝ) => ∃ E', SInvG H qd s0 t.1 i i (min (i + 1) (H.A.length - 1)) E' ∧ E' ≤ E)
    (H.A.length - 2)
    (fun i hi t t' ht ht' => by
      obtain ⟨E', hinv, hle⟩ := ht
      have e : min (i + 1) (H.A.length - 1) = i + 1 := by omega
      rw [e] at hinv
      obtain ⟨hinv', hle'⟩ := dmrg2Left_sinv ctx hk hH hinv (by omega) ht'
      exact ⟨t'.2, hinv'.mono (Nat.le_refl _) (by omega), le_trans hle' hle⟩)
    (s, 0) (s1, e1) ⟨E, h.mono (Nat.le_refl _) (Nat.zero_le _), le_refl E⟩ h1
  obtain ⟨E1, hinv1, hle1⟩ := hleft
  dsimp only at hinv1
  have hright := HistWf.foldIdx_rev (dmrg2Right k H qd numiter 0)
    (fun j (t : Sweep 𝕜 × ℝ) => ∃ E', SInvG H qd s0 t.1 (min j (H.A.length - 2)) (j - 1) j E' ∧ E' ≤ E ∧
      (j < H.A.length - 1 → t.2 = E'))
    (H.A.length - 1)
    (fun i hi t t' ht ht' => by
      obtain ⟨E', hinv, hle, _⟩ := ht
      have hsp : SInvG H qd s0 t.1 (min (i + 1) (H.A.length - 2)) i (i + 1) E' := by simpa using hinv
      have h2' : DInv2 H qd t.1 i E' := by
        by_cases hc : i = H.A.length - 2
        · have e : min (i + 1) (H.A.length - 2) = i := by omega
          have hd := hsp.inv
          rw [e] at hd
          exact ⟨hd.can.toTwoL (by omega), hd.nrm, hd.en⟩
        · have e : min (i + 1) (H.A.length - 2) = i + 1 := by omega
          have hd := hsp.inv
          rw [e] at hd
          exact ⟨hd.can.toTwoR, hd.nrm, hd.en⟩
      obtain ⟨hinv', hle'⟩ := dmrg2Right_sinv ctx hk hH h2' hsp (by omega) ht'
      have e : min i (H.A.length - 2) = i := by omega
      exact ⟨t'.2, by rw [e]; exact hinv'.mono (by omega) (Nat.le_refl _), le_trans hle' hle, fun _ => rfl⟩)
    (s1, e1) (s2, e2)
    ⟨E1, by
      have e : min (H.A.length - 1) (H.A.length - 2) = H.A.length - 2 := by omega
      rw [e]
      exact hinv1.mono (by omega) (by omega), hle1, fun hlt => absurd hlt (lt_irrefl _)⟩ h2
  obtain ⟨E2, hinv2, hle2, hpos2⟩ := hright
  have hE2 : e2 = E2 := hpos2 (by omega)
  subst hE2
  dsimp only at hinv2
  have hn := normalize_sinv ctx hinv2 h3
  exact ⟨e2, rfl, hn, hle2, fun μ hμ => hinv2.le hμ⟩


/-- the state after the prologue satisfies the invariant -/
theorem prologue_sinv {ψ : MPS 𝕜} (ctx : SweepCtx k H ψ.qd numiter) (hH : HOk H ψ.qd) (hadm : Admissible ψ)
    {s0 : Sweep 𝕜} {nrm : ℝ} (hp : prologue k H ψ = .ok (s0, nrm)) : ∃ E0, SInvG H ψ.qd s0 s0 0 0 0 E0 := by
  obtain ⟨ψ1, E0, _, _, hinv0⟩ := prologue_inv ctx rfl hadm hp
  exact ⟨E0, hinv0, prologue_sparse ctx.qr.contract.shape hH hadm.wf hp (prologue_pos hp), rfl, rfl⟩

/-- for a non-zero start state the sector of the state after the prologue is the sector of the start state -/
theorem prologue_sector {ψ : MPS 𝕜} (hc : C01.QRKernel k.dqr) (hadm : Admissible ψ) {s0 : Sweep 𝕜} {nrm : ℝ}
    (hp : prologue k H ψ = .ok (s0, nrm)) {σ : List Nat} (hσ : σ ∈ digitsU ψ.qd.length ψ.A.length)
    (hne : ψ.amp σ ≠ 0) : sectorOf s0 H.A.length = sectorMPS ψ := by
  obtain ⟨hHL, ψ1, BR, ho, _, _, rfl⟩ := prologue_unfold hp
  have ho' : MPS.orthonormalize (ρ := ℝ) k.dqr ψ false = .ok (ψ1, nrm) := ho
  have hn := ortho_norm_ne_zero hc hadm hσ hne ψ1 nrm ho'
  obtain ⟨b0, bL⟩ := ortho_mps_boundary hc.contract.shape (by show RCLike.re (0 : 𝕜) = 0; simp) ho' hn
  obtain ⟨hadm1, _, hlen⟩ := C01.ortho_wf (dqr := k.dqr) hc.contract.shape hadm ho'
  obtain ⟨hl1, _⟩ := wf_index hadm1.wf
  have hsz : ψ1.qD.length = H.A.length + 1 := by rw [hl1, hlen, hHL]
  unfold sectorOf sectorMPS
  rw [← b0, ← bL, getLast?_eq_getD hsz, head?_eq_getD (by omega), Option.getD_some, Option.getD_some]
  show (ψ1.qD.toArray.getD H.A.length []).getD 0 0 - (ψ1.qD.toArray.getD 0 []).getD 0 0 = _
  rw [Evo.toArray_getD, Evo.toArray_getD]

/-- reading the sector off the returned state -/
theorem toMPS_sector {ψ : MPS 𝕜} {s : Sweep 𝕜} {cl cr : Nat} (h : EvoSparse H qd s cl cr) :
    sectorMPS (toMPS ψ s) = sectorOf s H.A.length := by
  unfold sectorMPS sectorOf
  show (s.qD.toList.getLast?.getD []).getD 0 0 - (s.qD.toList.head?.getD []).getD 0 0 = _
  have hsz : s.qD.toList.length = H.A.length + 1 := by rw [Array.length_toList, h.sizeQ]
  rw [getLast?_eq_getD hsz, head?_eq_getD (by omega), Option.getD_some, Option.getD_some, toList_getD s.qD H.A.length [],
    toList_getD s.qD 0 []]
  rfl

/-- **two-site DMRG, zero split tolerance: every reported energy is bounded below on the sector of the returned state** -/
theorem dmrg2_sector_main {ψ ψ' : MPS 𝕜} (ctx : SweepCtx k H ψ.qd numiter) (hk : Compress.SvdKernel k.svd)
    (hH : HOk H ψ.qd) (hL2 : 2 ≤ H.A.length) (hadm : Admissible ψ) {numsweeps : Nat} {en : List ℝ}
    (h : dmrgTwosite k H ψ numsweeps numiter (0 : ℝ) = .ok (ψ', en)) :
    (∀ e ∈ en, ∀ μ, SectorLower H ψ.qd (sectorMPS ψ') μ → μ ≤ e) ∧
    ∀ σ, σ ∈ digitsU ψ.qd.length ψ.A.length → ψ.amp σ ≠ 0 → sectorMPS ψ' = sectorMPS ψ := by
  obtain ⟨s0, nrm, s, hp, hit, rfl⟩ := dmrgTwosite_unfold h
  obtain ⟨E0, hinv0⟩ := prologue_sinv ctx hH hadm hp
  have hinv := iterate_inv (dmrg2Sweep k H ψ.qd numiter (0 : ℝ))
    (fun (t : Sweep 𝕜 × List ℝ) => (∃ E', SInvG H ψ.qd s0 t.1 0 0 0 E') ∧
      ∀ e ∈ t.2, ∀ μ, SectorLower H ψ.qd (sectorOf s0 H.A.length) μ → μ ≤ e)
    (fun t t' ht ht' => by
      obtain ⟨⟨E', hinv⟩, hall⟩ := ht
      obtain ⟨s, es⟩ := t
      obtain ⟨s', es'⟩ := t'
      obtain ⟨e, rfl, hinv', _, hlow⟩ := dmrg2Sweep_sinv ctx hk hH hL2 hinv ht'
      refine ⟨⟨e, hinv'⟩, fun x hx => ?_⟩
      rcases List.mem_append.1 hx with hx | hx
      · exact hall x hx
      · have : x = e := by simpa using hx
        subst this; exact hlow)
    numsweeps (s0, []) (s, en) ⟨⟨E0, hinv0⟩, fun e he => absurd he (by simp)⟩ hit
  obtain ⟨⟨E', hfin⟩, hall⟩ := hinv
  have hsec : sectorMPS (toMPS ψ s) = sectorOf s0 H.A.length := by
    rw [toMPS_sector hfin.sp]; unfold sectorOf; rw [hfin.q0, hfin.qL]
  refine ⟨fun e he μ hμ => hall e he μ (by rw [← hsec]; exact hμ), fun σ hσ hne => ?_⟩
  rw [hsec]; exact prologue_sector ctx.qr hadm hp hσ hne

end Ptn.Sector

import PtnModel.Props.C12Rule
import PtnModel.Proofs.DenseFromVector
/-!
# Zero-tolerance `from_vector` reproduces the vector, under the kernel contracts

`FvSvdAt ι k M`: at the matrix `M` the SVD kernel returns factors of the right outer shapes whose product
`U · diag(s) · V` is `M`, and the norm / argsort kernels satisfy their contracts on `s` (C12 vocabulary).  At zero
tolerance the truncation rule keeps exactly the non-zero singular values (`C12.rule_tol0`), so each loop step is exact.
-/
namespace Ptn.MPS
open Finset Dense BondOps Ptn.C12

set_option linter.unusedSectionVars false

variable {𝕜 : Type} [CommRing 𝕜]
variable {ρ : Type} [Field ρ] [LinearOrder ρ] [IsStrictOrderedRing ρ] [RealLike ρ 𝕜]

/-- kernel contracts at one matrix of a `from_vector` run -/
structure FvSvdAt (ι : ρ →+* 𝕜) (k : SvdKernels 𝕜 ρ) (M : Mat 𝕜) : Prop where
  shape : 0 < M.m → 0 < M.n → (k.dsvd M).1.m = M.m ∧ (k.dsvd M).2.2.n = M.n
  product : ∀ i < M.m, ∀ j < M.n,
    ∑ p ∈ range (k.dsvd M).2.1.length, (k.dsvd M).1.f i p * ι ((k.dsvd M).2.1.getD p 0) * (k.dsvd M).2.2.f p j
      = M.f i j
  norm : NormContract (k.dsvd M).2.1 (k.dnorm (k.dsvd M).2.1)
  sort : SortContract (sortKeys (k.dsvd M).2.1 (k.dnorm (k.dsvd M).2.1))
    (k.dargsort (sortKeys (k.dsvd M).2.1 (k.dnorm (k.dsvd M).2.1)))

theorem sum_range_getD (l : List Nat) (g : Nat → 𝕜) :
    ∑ p ∈ range l.length, g (l.getD p 0) = (l.map g).sum := by
  induction l with
  | nil => simp
  | cons x l ih =>
    rw [List.length_cons, sum_range_succ', List.map_cons, List.sum_cons, ← ih, add_comm]
    simp

theorem sum_filter_range (n : Nat) (P : Nat → Bool) (g : Nat → 𝕜) :
    (((List.range n).filter P).map g).sum = ∑ i ∈ range n, if P i then g i else 0 := by
  induction n with
  | zero => simp
  | succ n ih =>
    rw [List.range_succ, List.filter_append, List.map_append, List.sum_append, ih, sum_range_succ]
    congr 1
    by_cases h : P n <;> simp [h]

theorem stepExact_of_contract (ι : ρ →+* 𝕜) (hι : ∀ x : ρ, (RealLike.ofReal x : 𝕜) = ι x)
    (k : SvdKernels 𝕜 ρ) (M : Mat 𝕜) (h : FvSvdAt ι k M) : StepExact k (0 : ρ) M := by
  refine ⟨h.shape, ?_⟩
  intro i hi j hj
  rw [rule_tol0 k.dnorm k.dargsort _ h.norm h.sort]
  by_cases hkeep : (((List.range (k.dsvd M).2.1.length).filter fun i => decide ((k.dsvd M).2.1.getD i 0 ≠ 0)).isEmpty
      && !(k.dsvd M).2.1.isEmpty && (k.dsvd M).2.1.all (fun x => decide (x = 0))) = true
  · -- every singular value vanishes: the dummy column contributes `0`, and `M = U · diag(0) · V = 0`
    have hkeep' := hkeep
    rw [Bool.and_eq_true, Bool.and_eq_true, List.all_eq_true] at hkeep
    have hz : ∀ p < (k.dsvd M).2.1.length, (k.dsvd M).2.1.getD p 0 = 0 := by
      intro p hp
      have hm : (k.dsvd M).2.1.getD p 0 ∈ (k.dsvd M).2.1 := by
        rw [List.getD_eq_getElem?_getD, List.getElem?_eq_getElem hp]
        exact List.getElem_mem hp
      simpa using hkeep.2 _ hm
    have hne : 0 < (k.dsvd M).2.1.length := by
      have : (k.dsvd M).2.1 ≠ [] := by
        intro h0
        have := hkeep.1.2
        rw [h0] at this
        simp at this
      exact List.length_pos_iff.2 this
    have hk1 : fvKeep ((List.range (k.dsvd M).2.1.length).filter fun i => decide ((k.dsvd M).2.1.getD i 0 ≠ 0))
        (k.dsvd M).2.1 = [0] := by
      unfold fvKeep
      rw [if_pos hkeep']
    rw [hk1, ← h.product i hi j hj]
    simp only [List.length_cons, List.length_nil, Nat.zero_add, sum_range_one, List.getD_cons_zero]
    rw [hz 0 hne, hι, map_zero, mul_zero, zero_mul]
    symm
    apply sum_eq_zero
    intro p hp
    rw [hz p (mem_range.1 hp), map_zero, mul_zero, zero_mul]
  · have hk1 : fvKeep ((List.range (k.dsvd M).2.1.length).filter fun i => decide ((k.dsvd M).2.1.getD i 0 ≠ 0))
        (k.dsvd M).2.1 = (List.range (k.dsvd M).2.1.length).filter fun i => decide ((k.dsvd M).2.1.getD i 0 ≠ 0) := by
      unfold fvKeep
      rw [if_neg hkeep]
    rw [hk1]
    rw [sum_range_getD _ (fun x => (k.dsvd M).1.f i x * RealLike.ofReal ((k.dsvd M).2.1.getD x 0) * (k.dsvd M).2.2.f x j),
      sum_filter_range, ← h.product i hi j hj]
    apply sum_congr rfl
    intro p _
    simp only [hι]
    by_cases hz : (k.dsvd M).2.1.getD p 0 = 0
    · simp only [hz, ne_eq, not_true_eq_false, decide_false, map_zero, mul_zero, zero_mul]
      rfl
    · simp only [hz, ne_eq, not_false_eq_true, decide_true, if_true]

/-- zero-tolerance `from_vector` reproduces the vector under the kernel contracts at the matrices of the run -/
theorem fromVector_tol0 (ι : ρ →+* 𝕜) (hι : ∀ x : ρ, (RealLike.ofReal x : 𝕜) = ι x)
    (k : SvdKernels 𝕜 ρ) (d n : Nat) (v : List 𝕜) (ψ : MPS 𝕜)
    (hk : ∀ M ∈ fvMats k d n (⟨1, v.length, fun _ c => v.toArray.getD c 0⟩ : Mat 𝕜) (0 : ρ), FvSvdAt ι k M)
    (h : fromVector k d n v (0 : ρ) = .ok ψ) :
    ψ.A.length = n ∧ ∀ s, Digits d n s → ψ.amp s = v.getD (flat d s) 0 :=
  fromVector_amp k d n v 0 ψ h (fun M hM => stepExact_of_contract ι hι k M (hk M hM))

end Ptn.MPS

import PtnModel.Proofs.HamMolNodes
/-!
# Look-ups in the node tables of the explicit molecular graphs

`famKeys`: the outer keys of a family with the inner key lists.  `mkFam` / `mkFams` reproduce the keys of their specification,
whatever the running node id is.  Look-up rules: `Fam.get` / `dGet` succeed on keys inside the specified ranges, with the
results named `innerOf` / `nodeOf` so that the rules can be used as rewrite rules.
-/
set_option linter.unusedSectionVars false

namespace Ptn.Ham
open Ptn.Og List

/-- outer keys with their inner key lists -/
def famKeys (f : Fam) : List (List Int × List Int) := f.map fun e => (e.1, e.2.map (·.1))

def specKeys (spec : List (List Int × List Int × Int)) : List (List Int × List Int) := spec.map fun s => (s.1, s.2.1)

/-- the inner dictionary found under `key` (empty if absent) -/
def innerOf (f : Fam) (key : List Int) : List (Int × Node) := (f.lookup key).getD []

/-- the node found under `k` (default if absent) -/
def nodeOf (d : List (Int × Node)) (k : Int) : Node := (d.lookup k).getD default

theorem inner_keys (keys : List Int) (n : Int) (q : Int) :
    ((keys.zipIdx.map fun (k, idx) => (k, (⟨n + (idx : Int), [], [], q⟩ : Node))).map (·.1)) = keys := by
  have h : ((keys.zipIdx.map fun (k, idx) => (k, (⟨n + (idx : Int), [], [], q⟩ : Node))).map (·.1))
      = keys.zipIdx.map Prod.fst := by
    rw [List.map_map]; rfl
  rw [h, List.zipIdx_map_fst]

theorem famKeys_append (f g : Fam) : famKeys (f ++ g) = famKeys f ++ famKeys g := by simp [famKeys]

theorem mkFam_fold_keys (spec : List (List Int × List Int × Int)) :
    ∀ acc : Fam × Int,
      famKeys (spec.foldl (fun (acc : Fam × Int) (s : List Int × List Int × Int) =>
        let inner := s.2.1.zipIdx.map fun (k, idx) => (k, (⟨acc.2 + (idx : Int), [], [], s.2.2⟩ : Node))
        (acc.1 ++ [(s.1, inner)], acc.2 + (s.2.1.length : Int))) acc).1 = famKeys acc.1 ++ specKeys spec := by
  induction spec with
  | nil => intro acc; simp [specKeys]
  | cons s rest ih =>
    intro acc
    simp only [List.foldl_cons]
    rw [ih, famKeys_append]
    simp only [famKeys, specKeys, List.map_cons, List.map_nil, List.append_assoc, List.singleton_append]
    rw [inner_keys]

/-- `mkFam` reproduces the keys of its specification -/
theorem mkFam_keys (spec : List (List Int × List Int × Int)) (n0 : Int) : famKeys (mkFam spec n0).1 = specKeys spec := by
  have := mkFam_fold_keys spec ([], n0)
  simpa [mkFam, famKeys] using this

theorem mkFams_getD : ∀ (specs : List (List (List Int × List Int × Int))) (n0 : Int) (idx : Nat),
    ∃ n, (mkFams specs n0).1.getD idx [] = (mkFam (specs.getD idx []) n).1 := by
  intro specs
  induction specs with
  | nil => intro n0 idx; exact ⟨0, by simp [mkFams, mkFam]⟩
  | cons s rest ih =>
    intro n0 idx
    cases idx with
    | zero => exact ⟨n0, by simp [mkFams]⟩
    | succ idx =>
      obtain ⟨n, hn⟩ := ih (mkFam s n0).2 idx
      exact ⟨n, by simpa [mkFams] using hn⟩

/-- keys of the `idx`-th of several chained families -/
theorem mkFams_keys (specs : List (List (List Int × List Int × Int))) (n0 : Int) (idx : Nat) :
    famKeys ((mkFams specs n0).1.getD idx []) = specKeys (specs.getD idx []) := by
  obtain ⟨n, hn⟩ := mkFams_getD specs n0 idx
  rw [hn, mkFam_keys]

/-! ## look-ups -/

theorem lookup_map_snd {α β γ : Type} [BEq α] (g : β → γ) (l : List (α × β)) (k : α) :
    (l.map fun e => (e.1, g e.2)).lookup k = (l.lookup k).map g := by
  induction l with
  | nil => rfl
  | cons p l ih =>
    obtain ⟨a, b⟩ := p
    simp only [List.map_cons, List.lookup]
    cases (k == a) <;> simp [ih]

theorem lookup_of_forall {α β : Type} [BEq α] [LawfulBEq α] : ∀ (l : List (α × β)) (k : α) (v : β),
    (∃ p ∈ l, p.1 = k) → (∀ p ∈ l, p.1 = k → p.2 = v) → l.lookup k = some v := by
  intro l
  induction l with
  | nil => intro k v h _; obtain ⟨p, hp, _⟩ := h; simp at hp
  | cons q l ih =>
    intro k v hex hall
    obtain ⟨a, b⟩ := q
    by_cases hk : k = a
    · subst hk
      have := hall (k, b) List.mem_cons_self rfl
      simp only at this
      simp [List.lookup, this]
    · have hne : (k == a) = false := by simpa using hk
      simp only [List.lookup, hne]
      apply ih k v
      · obtain ⟨p, hp, hpk⟩ := hex
        rcases List.mem_cons.1 hp with rfl | hp
        · exact absurd hpk.symm hk
        · exact ⟨p, hp, hpk⟩
      · intro p hp hpk
        exact hall p (List.mem_cons_of_mem _ hp) hpk

/-- `fam[key]` is defined whenever the key view has an entry, and its inner keys are that entry -/
theorem fam_get_of_keys (f : Fam) (key : List Int) (ks : List Int) (h : (famKeys f).lookup key = some ks) :
    f.get key = .ok (innerOf f key) ∧ (innerOf f key).map (·.1) = ks := by
  unfold famKeys at h
  rw [lookup_map_snd (fun (d : List (Int × Node)) => d.map (·.1)) f key] at h
  unfold Fam.get innerOf
  cases hl : f.lookup key with
  | none => rw [hl] at h; simp at h
  | some d =>
    rw [hl] at h
    simp only [Option.map_some, Option.some.injEq] at h
    exact ⟨rfl, h⟩

/-- `d[k]` is defined whenever `k` is among the keys -/
theorem dGet_of_mem (d : List (Int × Node)) (k : Int) (h : k ∈ d.map (·.1)) : dGet d k = .ok (nodeOf d k) := by
  unfold dGet nodeOf
  cases hl : d.lookup k with
  | some v => rfl
  | none =>
    exfalso
    induction d with
    | nil => simp at h
    | cons p d ih =>
      obtain ⟨a, b⟩ := p
      simp only [List.lookup] at hl
      cases hk : (k == a) with
      | true => rw [hk] at hl; simp at hl
      | false =>
        rw [hk] at hl
        simp only [List.map_cons, List.mem_cons] at h
        rcases h with h | h
        · subst h; simp at hk
        · exact ih h hl

/-- families with one-index keys `[i]`, `i ∈ A`, inner keys `R i` -/
theorem single_lookup (A : List Int) (R : Int → List Int) (q : Int → Int) (i : Int) (hi : i ∈ A) :
    (specKeys (A.map fun i => ([i], R i, q i))).lookup [i] = some (R i) := by
  apply lookup_of_forall
  · exact ⟨([i], R i), by simp only [specKeys, List.map_map, List.mem_map]; exact ⟨i, hi, rfl⟩, rfl⟩
  · intro p hp hk
    simp only [specKeys, List.map_map, List.mem_map, Function.comp] at hp
    obtain ⟨i', _, rfl⟩ := hp
    simp only [List.cons.injEq, and_true] at hk
    subst hk
    rfl

/-- families with two-index keys `[i, j]`, `i ∈ A`, `j ∈ B i`, inner keys `R i j` -/
theorem pair_lookup (A : List Int) (B : Int → List Int) (R : Int → Int → List Int) (q : Int → Int → Int) (i j : Int)
    (hi : i ∈ A) (hj : j ∈ B i) :
    (specKeys (A.flatMap fun i => (B i).map fun j => ([i, j], R i j, q i j))).lookup [i, j] = some (R i j) := by
  apply lookup_of_forall
  · refine ⟨([i, j], R i j), ?_, rfl⟩
    simp only [specKeys, List.mem_map, List.mem_flatMap]
    exact ⟨([i, j], R i j, q i j), ⟨i, hi, j, hj, rfl⟩, rfl⟩
  · intro p hp hk
    simp only [specKeys, List.mem_map, List.mem_flatMap] at hp
    obtain ⟨s, ⟨i', _, j', _, rfl⟩, rfl⟩ := hp
    simp only [List.cons.injEq, and_true] at hk
    obtain ⟨rfl, rfl⟩ := hk
    rfl

end Ptn.Ham

import PtnModel.Proofs.KryMat
/-!
# The Arnoldi invariant

`MgsSpec`: what the modified Gram–Schmidt loop `mgs` computes against orthonormal rows; the loop invariant `AInv`
(orthonormal vectors, columns of `H` are the projections, expansion of `A v_i` in weak form, subdiagonal above the
threshold), the final predicate `AFin`, and the projected map `AFin.proj`.  No assumption on `Afun`.
-/
set_option linter.unusedSectionVars false

namespace Ptn.Krylov
open Finset

section generic
variable {α : Type} [OfNat α 0] [Add α] [Mul α] [Sub α] [HasConj α]

theorem mgs_nil (n : Nat) (w : List α) : mgs n [] w = (w, []) := rfl

theorem mgs_snoc (n : Nat) (rows : List (List α)) (r w : List α) :
    mgs n (rows ++ [r]) w =
      (vsub n (mgs n rows w).1 (vscale n (vdot n r (mgs n rows w).1) r),
        (mgs n rows w).2 ++ [vdot n r (mgs n rows w).1]) := by
  unfold mgs
  rw [List.foldl_append]
  rfl

theorem mgs_length (n : Nat) (rows : List (List α)) (w : List α) (h : rows ≠ []) : (mgs n rows w).1.length = n := by
  induction rows using List.reverseRecOn with
  | nil => exact absurd rfl h
  | append_singleton l r _ => rw [mgs_snoc]; exact length_vsub _ _ _

theorem mgs_length_snd (n : Nat) (rows : List (List α)) (w : List α) : (mgs n rows w).2.length = rows.length := by
  induction rows using List.reverseRecOn with
  | nil => rfl
  | append_singleton l r ih => rw [mgs_snoc]; simp [ih]

end generic

variable {𝕜 : Type} [RCLike 𝕜]
local notation "conj" => starRingEnd 𝕜

/-- orthonormality of a list of vectors -/
def Orthonormal (n : Nat) (rows : List (List 𝕜)) : Prop :=
  ∀ a b, a < rows.length → b < rows.length → vdot n (rows.getD a []) (rows.getD b []) = if a = b then 1 else 0

theorem Orthonormal.of_snoc {n : Nat} {l : List (List 𝕜)} {r : List 𝕜} (h : Orthonormal n (l ++ [r])) :
    Orthonormal n l := by
  intro a b ha hb
  have := h a b (by simp; omega) (by simp; omega)
  rwa [getD_snoc_lt _ _ _ ha, getD_snoc_lt _ _ _ hb] at this

/-- what `mgs` computes: the coefficients are the projections of the original `w`, and the result is `w` minus its
components along the rows (tested against every `y`) -/
structure MgsSpec (n : Nat) (rows : List (List 𝕜)) (w : List 𝕜) (res : List 𝕜 × List 𝕜) : Prop where
  coeff : ∀ t, t < rows.length → vget res.2 t = vdot n (rows.getD t []) w
  expand : ∀ y, vdot n y res.1 = vdot n y w - ∑ t ∈ range rows.length, vget res.2 t * vdot n y (rows.getD t [])

theorem mgs_spec (n : Nat) (rows : List (List 𝕜)) (w : List 𝕜) (h : Orthonormal n rows) :
    MgsSpec n rows w (mgs n rows w) := by
  induction rows using List.reverseRecOn with
  | nil => exact ⟨fun t ht => by simp at ht, fun y => by simp [mgs_nil]⟩
  | append_singleton l r ih =>
    have ih := ih h.of_snoc
    have hlen := mgs_length_snd n l w
    rw [mgs_snoc]
    -- the new coefficient is the projection of the original `w`
    have hc : vdot n r (mgs n l w).1 = vdot n r w := by
      rw [ih.expand r]
      have : ∑ t ∈ range l.length, vget (mgs n l w).2 t * vdot n r (l.getD t []) = 0 := by
        apply sum_eq_zero
        intro t ht
        have ht' := mem_range.1 ht
        have := h l.length t (by simp) (by simp; omega)
        rw [getD_snoc_eq, getD_snoc_lt _ _ _ ht', if_neg (by omega)] at this
        rw [this, mul_zero]
      rw [this, sub_zero]
    constructor
    · intro t ht
      have ht' : t < l.length + 1 := by simpa using ht
      show vget ((mgs n l w).2 ++ [_]) t = _
      rcases Nat.lt_or_eq_of_le (Nat.le_of_lt_succ ht') with hlt | rfl
      · unfold vget
        rw [getD_snoc_lt _ _ _ (by rw [hlen]; exact hlt), getD_snoc_lt _ _ _ hlt]
        exact ih.coeff t hlt
      · unfold vget
        rw [getD_snoc_eq' _ _ _ hlen.symm, getD_snoc_eq, hc]
    · intro y
      show vdot n y (vsub n _ _) = _
      rw [vdot_vsub_right, vdot_vscale_right, ih.expand y, List.length_append, List.length_singleton, sum_range_succ]
      have e1 : ∑ t ∈ range l.length, vget ((mgs n l w).2 ++ [vdot n r (mgs n l w).1]) t * vdot n y ((l ++ [r]).getD t []) =
          ∑ t ∈ range l.length, vget (mgs n l w).2 t * vdot n y (l.getD t []) := by
        apply sum_congr rfl
        intro t ht
        have ht' := mem_range.1 ht
        unfold vget
        rw [getD_snoc_lt _ _ _ (by rw [hlen]; exact ht'), getD_snoc_lt _ _ _ ht']
      have e2 : vget ((mgs n l w).2 ++ [vdot n r (mgs n l w).1]) l.length = vdot n r (mgs n l w).1 := by
        unfold vget; exact getD_snoc_eq' _ _ _ hlen.symm
      rw [e1, e2, getD_snoc_eq]
      ring

/-- the result of `mgs` is orthogonal to all rows -/
theorem MgsSpec.orth {n : Nat} {rows : List (List 𝕜)} {w : List 𝕜} {res : List 𝕜 × List 𝕜}
    (hs : MgsSpec n rows w res) (h : Orthonormal n rows) {a : Nat} (ha : a < rows.length) :
    vdot n (rows.getD a []) res.1 = 0 := by
  rw [hs.expand]
  have : ∑ t ∈ range rows.length, vget res.2 t * vdot n (rows.getD a []) (rows.getD t []) = vget res.2 a := by
    rw [sum_eq_single a]
    · rw [h a a ha ha, if_pos rfl, mul_one]
    · intro t ht hne
      rw [h a t ha (mem_range.1 ht), if_neg (Ne.symm hne), mul_zero]
    · intro hna; exact absurd (mem_range.2 ha) hna
  rw [this, hs.coeff a ha, sub_self]

section inv
variable (n : Nat) (Afun : List 𝕜 → List 𝕜)

abbrev AState.vec (st : AState 𝕜 ℝ) (i : Nat) : List 𝕜 := st.V.getD i []
abbrev AState.col (st : AState 𝕜 ℝ) (i : Nat) : List 𝕜 := st.cols.getD i []
abbrev AState.sb (st : AState 𝕜 ℝ) (i : Nat) : ℝ := st.sub.getD i 0

/-- column `i` of `H` holds the projections of `A v_i` -/
def AState.Col (st : AState 𝕜 ℝ) (i : Nat) : Prop :=
  ∀ a, a ≤ i → vget (st.col i) a = vdot n (st.vec a) (Afun (st.vec i))

/-- expansion of `A v_i` in `v_0 … v_{i+1}`, tested against `y` -/
def AState.Rec (st : AState 𝕜 ℝ) (i : Nat) : Prop :=
  ∀ y, vdot n y (Afun (st.vec i)) =
    ∑ t ∈ range (i + 1), vget (st.col i) t * vdot n y (st.vec t) + (st.sb i : 𝕜) * vdot n y (st.vec (i + 1))

structure AInv (st : AState 𝕜 ℝ) (j : Nat) : Prop where
  sized : st.Sized j j (j + 1)
  len : ∀ i, i ≤ j → (st.vec i).length = n
  orth : ∀ a b, a ≤ j → b ≤ j → vdot n (st.vec a) (st.vec b) = if a = b then 1 else 0
  hcol : ∀ i, i < j → st.Col n Afun i
  rcr : ∀ i, i < j → st.Rec n Afun i
  bpos : ∀ i, i < j → breakdownThr ℝ n ≤ st.sb i

structure AFin (st : AState 𝕜 ℝ) (k : Nat) : Prop where
  kpos : 1 ≤ k
  sized : st.Sized k (k - 1) k
  len : ∀ i, i < k → (st.vec i).length = n
  orth : ∀ a b, a < k → b < k → vdot n (st.vec a) (st.vec b) = if a = b then 1 else 0
  hcol : ∀ i, i < k → st.Col n Afun i
  rcr : ∀ i, i + 1 < k → st.Rec n Afun i
  bpos : ∀ i, i + 1 < k → breakdownThr ℝ n ≤ st.sb i

variable {n Afun}

theorem AInv.rows {st : AState 𝕜 ℝ} {j : Nat} (h : AInv n Afun st j) :
    st.V.take (j + 1) = st.V ∧ Orthonormal n st.V := by
  have hv := h.sized.2.2
  refine ⟨List.take_of_length_le (by omega), ?_⟩
  intro a b ha hb
  exact h.orth a b (by omega) (by omega)

/-- the Gram–Schmidt result of iteration `j` -/
theorem AInv.spec {st : AState 𝕜 ℝ} {j : Nat} (h : AInv n Afun st j) :
    MgsSpec n st.V (Afun (st.vec j)) (arW Afun n j st) := by
  unfold arW
  rw [h.rows.1]
  exact mgs_spec n st.V _ h.rows.2

theorem AInv.length_arW {st : AState 𝕜 ℝ} {j : Nat} (h : AInv n Afun st j) : (arW Afun n j st).1.length = n := by
  unfold arW
  rw [h.rows.1]
  apply mgs_length
  intro hc
  have := h.sized.2.2
  rw [hc] at this
  simp at this

theorem AInv.step {dnorm : List 𝕜 → ℝ} (hN : NormContract dnorm) (hn : 0 < n)
    {st : AState 𝕜 ℝ} {j : Nat} (h : AInv n Afun st j) (hb : (arnoldiStep Afun dnorm n j st).2 = false) :
    AInv n Afun (arnoldiStep Afun dnorm n j st).1 (j + 1) := by
  obtain ⟨ha, hbl, hv⟩ := h.sized
  rw [arnoldiStep_eq] at hb ⊢
  by_cases hlt : dnorm (arW Afun n j st).1 < breakdownThr ℝ n
  · rw [if_pos hlt] at hb; simp at hb
  rw [if_neg hlt]
  have hge : breakdownThr ℝ n ≤ dnorm (arW Afun n j st).1 := not_lt.1 hlt
  have hpos : 0 < dnorm (arW Afun n j st).1 := lt_of_lt_of_le (breakdownThr_pos hn) hge
  have hne : ((dnorm (arW Afun n j st).1 : ℝ) : 𝕜) ≠ 0 := by exact_mod_cast hpos.ne'
  have hsp := h.spec
  set w := (arW Afun n j st).1 with hw
  set hc := (arW Afun n j st).2 with hhc
  set β := dnorm w with hβ
  set vn := vdiv n w (RealLike.ofReal β : 𝕜) with hvn
  have vec_old : ∀ i, i ≤ j → (st.V ++ [vn]).getD i [] = st.vec i := fun i hi => getD_snoc_lt _ _ _ (by omega)
  have vec_new : (st.V ++ [vn]).getD (j + 1) [] = vn := getD_snoc_eq' _ _ _ (by omega)
  have col_old : ∀ i, i < j → (st.cols ++ [hc]).getD i [] = st.col i := fun i hi => getD_snoc_lt _ _ _ (by omega)
  have col_new : (st.cols ++ [hc]).getD j [] = hc := getD_snoc_eq' _ _ _ (by omega)
  have sb_old : ∀ i, i < j → (st.sub ++ [β]).getD i 0 = st.sb i := fun i hi => getD_snoc_lt _ _ _ (by omega)
  have sb_new : (st.sub ++ [β]).getD j 0 = β := getD_snoc_eq' _ _ _ (by omega)
  have hwl : w.length = n := h.length_arW
  have old_new : ∀ b, b ≤ j → vdot n (st.vec b) vn = 0 := fun b hb' => by
    rw [hvn, vdot_vdiv_right, hsp.orth h.rows.2 (by omega : b < st.V.length), zero_div]
  have new_old : ∀ b, b ≤ j → vdot n vn (st.vec b) = 0 := fun b hb' => by
    rw [← vdot_conj, old_new b hb', map_zero]
  have new_new : vdot n vn vn = 1 := by
    have := vdot_vdiv_self hN (w := w) hpos
    rwa [hwl] at this
  refine ⟨⟨by simp [ha], by simp [hbl], by simp [hv]⟩, ?_, ?_, ?_, ?_, ?_⟩
  · intro i hi
    show ((st.V ++ [vn]).getD i []).length = n
    rcases Nat.lt_or_eq_of_le hi with hlt' | rfl
    · rw [vec_old i (by omega)]; exact h.len i (by omega)
    · rw [vec_new, hvn]; exact length_vdiv _ _ _
  · intro a b ha' hb'
    show vdot n ((st.V ++ [vn]).getD a []) ((st.V ++ [vn]).getD b []) = _
    rcases Nat.lt_or_eq_of_le ha' with ha'' | rfl
    · rcases Nat.lt_or_eq_of_le hb' with hb'' | rfl
      · rw [vec_old a (by omega), vec_old b (by omega)]; exact h.orth a b (by omega) (by omega)
      · rw [vec_old a (by omega), vec_new, old_new a (by omega), if_neg (by omega)]
    · rcases Nat.lt_or_eq_of_le hb' with hb'' | rfl
      · rw [vec_old b (by omega), vec_new, new_old b (by omega), if_neg (by omega)]
      · rw [vec_new, new_new, if_pos rfl]
  · intro i hi a hai
    show vget ((st.cols ++ [hc]).getD i []) a = vdot n ((st.V ++ [vn]).getD a []) (Afun ((st.V ++ [vn]).getD i []))
    rcases Nat.lt_or_eq_of_le (Nat.le_of_lt_succ hi) with hlt' | rfl
    · rw [col_old i hlt', vec_old a (by omega), vec_old i (by omega)]
      exact h.hcol i hlt' a hai
    · rw [col_new, vec_old a hai, vec_old i (Nat.le_refl _)]
      exact hsp.coeff a (by omega)
  · intro i hi y
    show vdot n y (Afun ((st.V ++ [vn]).getD i [])) =
      ∑ t ∈ range (i + 1), vget ((st.cols ++ [hc]).getD i []) t * vdot n y ((st.V ++ [vn]).getD t []) +
        (((st.sub ++ [β]).getD i 0 : ℝ) : 𝕜) * vdot n y ((st.V ++ [vn]).getD (i + 1) [])
    have hsum : ∀ (c : List 𝕜), ∑ t ∈ range (i + 1), vget c t * vdot n y ((st.V ++ [vn]).getD t []) =
        ∑ t ∈ range (i + 1), vget c t * vdot n y (st.vec t) := fun c =>
      sum_congr rfl fun t ht => by rw [vec_old t (by have := mem_range.1 ht; omega)]
    rw [hsum]
    rcases Nat.lt_or_eq_of_le (Nat.le_of_lt_succ hi) with hlt' | rfl
    · rw [col_old i hlt', vec_old i (by omega), vec_old (i + 1) (by omega), sb_old i hlt']
      exact h.rcr i hlt' y
    · rw [col_new, vec_old i (Nat.le_refl _), vec_new, sb_new]
      have hy : vdot n y vn = vdot n y w / (β : 𝕜) := by rw [hvn, vdot_vdiv_right, ofReal_eq]
      rw [hy, mul_div_cancel₀ _ hne, hsp.expand y, hv]
      ring
  · intro i hi
    show breakdownThr ℝ n ≤ (st.sub ++ [β]).getD i 0
    rcases Nat.lt_or_eq_of_le (Nat.le_of_lt_succ hi) with hlt' | rfl
    · rw [sb_old i hlt']; exact h.bpos i hlt'
    · rw [sb_new]; exact hge

/-- appending the last column (breakdown exit or final half iteration) gives the final predicate -/
theorem AInv.fin {st : AState 𝕜 ℝ} {j : Nat} (h : AInv n Afun st j) :
    AFin n Afun { cols := st.cols ++ [(arW Afun n j st).2], sub := st.sub, V := st.V } (j + 1) := by
  obtain ⟨ha, hbl, hv⟩ := h.sized
  have col_old : ∀ i, i < j → (st.cols ++ [(arW Afun n j st).2]).getD i [] = st.col i :=
    fun i hi => getD_snoc_lt _ _ _ (by omega)
  have col_new : (st.cols ++ [(arW Afun n j st).2]).getD j [] = (arW Afun n j st).2 := getD_snoc_eq' _ _ _ (by omega)
  refine ⟨by omega, ⟨by simp [ha], by simpa using hbl, hv⟩, fun i hi => h.len i (by omega),
    fun a b ha' hb' => h.orth a b (by omega) (by omega), ?_, ?_, fun i hi => h.bpos i (by omega)⟩
  · intro i hi a hai
    show vget ((st.cols ++ [(arW Afun n j st).2]).getD i []) a = _
    rcases Nat.lt_or_eq_of_le (Nat.le_of_lt_succ hi) with hlt' | rfl
    · rw [col_old i hlt']; exact h.hcol i hlt' a hai
    · rw [col_new]; exact h.spec.coeff a (by omega)
  · intro i hi y
    show _ = ∑ t ∈ range (i + 1), vget ((st.cols ++ [(arW Afun n j st).2]).getD i []) t * _ + _
    rw [col_old i (by omega)]
    exact h.rcr i (by omega) y

theorem arnoldiStep_break_fin {dnorm : List 𝕜 → ℝ} {st : AState 𝕜 ℝ} {j : Nat} (h : AInv n Afun st j)
    (hb : (arnoldiStep Afun dnorm n j st).2 = true) : AFin n Afun (arnoldiStep Afun dnorm n j st).1 (j + 1) := by
  rw [arnoldiStep_eq] at hb ⊢
  by_cases hlt : dnorm (arW Afun n j st).1 < breakdownThr ℝ n
  · rw [if_pos hlt]; exact h.fin
  · rw [if_neg hlt] at hb; simp at hb

theorem arnoldiFinish_fin {st : AState 𝕜 ℝ} {j : Nat} (h : AInv n Afun st j) :
    AFin n Afun (arnoldiFinish Afun n j st) (j + 1) := h.fin

theorem arnoldiLoop_inv {dnorm : List 𝕜 → ℝ} (hN : NormContract dnorm) (hn : 0 < n) :
    ∀ (k j : Nat) (st : AState 𝕜 ℝ), AInv n Afun st j →
      ((arnoldiLoop Afun dnorm n k j st).2 = true →
        ∃ j', j ≤ j' ∧ j' < j + k ∧ AFin n Afun (arnoldiLoop Afun dnorm n k j st).1 (j' + 1)) ∧
      ((arnoldiLoop Afun dnorm n k j st).2 = false → AInv n Afun (arnoldiLoop Afun dnorm n k j st).1 (j + k))
  | 0, j, st, h => by
      rw [arnoldiLoop_zero]
      exact ⟨fun hc => by simp at hc, fun _ => h⟩
  | k + 1, j, st, h => by
      rw [arnoldiLoop_succ]
      by_cases hb : (arnoldiStep Afun dnorm n j st).2 = true
      · rw [if_pos hb]
        exact ⟨fun _ => ⟨j, Nat.le_refl _, by omega, arnoldiStep_break_fin h hb⟩, fun hc => by rw [hb] at hc; simp at hc⟩
      · rw [if_neg hb]
        have hb' : (arnoldiStep Afun dnorm n j st).2 = false := by simpa using hb
        have ih := arnoldiLoop_inv hN hn k (j + 1) _ (h.step hN hn hb')
        refine ⟨fun hc => ?_, fun hc => ?_⟩
        · obtain ⟨j', h1, h2, h3⟩ := ih.1 hc
          exact ⟨j', by omega, by omega, h3⟩
        · have := ih.2 hc
          rwa [show j + 1 + k = j + (k + 1) by omega] at this

theorem AInv.init {dnorm : List 𝕜 → ℝ} (hN : NormContract dnorm) {vstart : List 𝕜} (h0 : 0 < dnorm vstart) :
    AInv vstart.length Afun
      { cols := [], sub := [], V := [vdiv vstart.length vstart (RealLike.ofReal (dnorm vstart))] } 0 := by
  refine ⟨⟨rfl, rfl, rfl⟩, ?_, ?_, fun i hi => by omega, fun i hi => by omega, fun i hi => by omega⟩
  · intro i hi
    have : i = 0 := by omega
    subst this
    exact length_vdiv _ _ _
  · intro a b ha hb
    have : a = 0 := by omega
    subst this
    have : b = 0 := by omega
    subst this
    rw [if_pos rfl]
    exact vdot_vdiv_self hN h0

/-- **main lemma**: the state returned by `arnoldiCoreU` (uncapped iteration) satisfies the final predicate for its `k` vectors -/
theorem arnoldiCoreU_fin {dnorm : List 𝕜 → ℝ} (hN : NormContract dnorm) {vstart : List 𝕜} {numiter : Nat}
    {st : AState 𝕜 ℝ} (h : arnoldiCoreU Afun dnorm vstart numiter = .ok st) :
    ∃ k, k ≤ numiter ∧ AFin vstart.length Afun st k := by
  obtain ⟨h0, hm, rfl⟩ := arnoldiCoreU_ok Afun dnorm h
  have h0' : 0 < dnorm vstart := of_decide_eq_true h0
  have hn : 0 < vstart.length := hN.pos_dim h0'
  have hl := arnoldiLoop_inv hN hn (numiter - 1) 0 _ (AInv.init (Afun := Afun) hN h0')
  split
  · rename_i hb
    obtain ⟨j', _, h2, h3⟩ := hl.1 hb
    exact ⟨j' + 1, by omega, h3⟩
  · rename_i hb
    have := arnoldiFinish_fin (hl.2 (by simpa using hb))
    rw [show 0 + (numiter - 1) = numiter - 1 by omega, show numiter - 1 + 1 = numiter by omega] at this
    exact ⟨numiter, Nat.le_refl _, this⟩

/-- the capped run (F11): final predicate for its `k ≤ min numiter (len vstart)` vectors -/
theorem arnoldiCore_fin' {dnorm : List 𝕜 → ℝ} (hN : NormContract dnorm) {vstart : List 𝕜} {numiter : Nat}
    {st : AState 𝕜 ℝ} (h : arnoldiCore Afun dnorm vstart numiter = .ok st) :
    ∃ k, k ≤ numiter ∧ k ≤ vstart.length ∧ AFin vstart.length Afun st k := by
  obtain ⟨k, hk, hf⟩ := arnoldiCoreU_fin hN h
  exact ⟨k, by omega, by omega, hf⟩

/-- **main lemma**: the state returned by `arnoldiCore` satisfies the final predicate for its `k` vectors -/
theorem arnoldiCore_fin {dnorm : List 𝕜 → ℝ} (hN : NormContract dnorm) {vstart : List 𝕜} {numiter : Nat}
    {st : AState 𝕜 ℝ} (h : arnoldiCore Afun dnorm vstart numiter = .ok st) :
    ∃ k, k ≤ numiter ∧ AFin vstart.length Afun st k := by
  obtain ⟨k, hk, _, hf⟩ := arnoldiCore_fin' hN h
  exact ⟨k, hk, hf⟩

/-- the projected map is the returned Hessenberg matrix: `⟪v_a, A v_b⟫ = H[a, b]` -/
theorem AFin.proj {st : AState 𝕜 ℝ} {k : Nat} (h : AFin n Afun st k) {a b : Nat} (ha : a < k) (hb : b < k) :
    vdot n (st.vec a) (Afun (st.vec b)) = (hessMat st.cols st.sub).f a b := by
  show _ = if a ≤ b then vget (st.cols.getD b []) a else if a = b + 1 then RealLike.ofReal (st.sub.getD b 0) else 0
  by_cases hab : a ≤ b
  · rw [if_pos hab]; exact (h.hcol b hb a hab).symm
  · rw [if_neg hab, h.rcr b (by omega) (st.vec a)]
    have : ∑ t ∈ range (b + 1), vget (st.col b) t * vdot n (st.vec a) (st.vec t) = 0 := by
      apply sum_eq_zero
      intro t ht
      have ht' := mem_range.1 ht
      rw [h.orth a t ha (by omega), if_neg (by omega), mul_zero]
    rw [this, zero_add, h.orth a (b + 1) ha (by omega)]
    by_cases e : a = b + 1
    · rw [if_pos e, if_pos e, mul_one]; rfl
    · rw [if_neg e, if_neg e, mul_zero]

end inv
end Ptn.Krylov
